/-
The trial loop of `RandomWalk.update_positions` (`polyply/src/random_walk.py`) with its bookkeeping made
observable: which vectors of the bundle are tried, in which order, and how the loop ends.  Core Lean only.

    step_count = 0
    while True:
        new_point, index = _take_step(vector_bundle, step_length, last_point, self.maxdim)   # random.randint(0, len-1)
        if <accepted>:            return True
        elif step_count == self.maxiter:  return False
        else:  step_count += 1;  vector_bundle = np.delete(vector_bundle, index, axis=0)

`Engine.updateLoop` (Model/Engine.lean) is the same loop returning only the accepted point;
`Proofs/EngineTrials.lean` shows that it is the projection of `trialLoop`.  `_take_step` on an EMPTY bundle is
`random.randint(0, -1)`: Python raises ValueError (`TrialEnd.emptyBundle`); `noChoice` is not a Python outcome: the
list of random draws handed to the model is used up.

`norm_sphere` / `_u_vect` (`linalg_functions.py`): `uVectWith v n = v / n` is the unit vector when `n = ‖v‖` is
supplied (`n·n = ‖v‖²`; square roots are not rational, so the norm is an input; over ℝ see
`Proofs/EngineTrials.lean::uVect_norm`).
-/
import PolyplyVerif.Model.Engine

namespace PolyplyVerif.Engine
open PolyplyVerif.Geometry

/-- how the `while True` loop of `update_positions` ends -/
inductive TrialEnd where
  /-- `return True` with the accepted point -/
  | accepted (p : V3)
  /-- `step_count == self.maxiter`: `return False` -/
  | maxiter
  /-- the bundle is used up: `random.randint(0, -1)` raises ValueError -/
  | emptyBundle
  /-- the list of random draws handed to the model is used up (not a Python outcome) -/
  | noChoice
deriving DecidableEq, Repr

structure TrialLog where
  /-- the vectors tried, in the order they were drawn -/
  tried : List V3
  stop : TrialEnd
deriving DecidableEq, Repr

/-- the loop; `acc` = the whole acceptance test on the wrapped trial point, `count` = `step_count`,
`choices` = the outcomes of `random.randint` (reduced modulo the current bundle length); an empty bundle ends the
loop before any draw is made -/
def trialLoop (L : V3) (acc : V3 → Bool) (maxiter : Nat) (last : V3) (stepLen : Rat) :
    List V3 → Nat → List Nat → TrialLog
  | _, _, [] => ⟨[], .noChoice⟩
  | bundle, count, c :: cs =>
    match bundle[c % bundle.length]? with
    | none => ⟨[], .emptyBundle⟩
    | some v =>
      let np := takeStep L v stepLen last
      if acc np then ⟨[v], .accepted np⟩
      else if count = maxiter then ⟨[v], .maxiter⟩
      else
        let rest := bundle.eraseIdx (c % bundle.length)
        -- the next `_take_step` on an empty bundle raises before it draws
        if rest.isEmpty then ⟨[v], .emptyBundle⟩
        else
          let r := trialLoop L acc maxiter last stepLen rest (count + 1) cs
          ⟨v :: r.tried, r.stop⟩

/-- the acceptance test `updateLoop` applies: the other checks, then no overlap -/
def acceptTest (P : Params) (W : WalkParams) (s : State) (other : V3 → Bool) (g : Nat) (excl : List Nat) (np : V3) : Bool :=
  other np && !isOverlap P W s np g excl

/-- `update_positions` with the log of its trials -/
def updateTrials (P : Params) (W : WalkParams) (s : State) (other : V3 → Bool) (bundle : List V3)
    (choices : List Nat) (cur prev : Nat) (excl : List Nat) : Option TrialLog :=
  match s.pos prev with
  | none => none
  | some last =>
    if bundle.isEmpty then some ⟨[], .emptyBundle⟩
    else some (trialLoop P.L (acceptTest P W s other cur excl) W.maxiter last (stepLength P W prev cur) bundle 0 choices)

/-- `_u_vect(vect) = vect / norm(vect)` with the norm supplied -/
def uVectWith (v : V3) (n : Rat) : V3 := ⟨v.x / n, v.y / n, v.z / n⟩

end PolyplyVerif.Engine
