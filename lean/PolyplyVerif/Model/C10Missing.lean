/-
Model of `polyply/src/graph_utils.py` `find_connecting_edges` / `find_missing_edges` and of
`polyply/src/gen_coords.py` `_check_molecules` (C10).  Core Lean only.

Edges are undirected and travel in canonical orientation `(u, v)` with `u < v`, each edge once (the
harness sorts what networkx reports); `degree` is networkx' degree (a self-loop would count twice).
`nx.is_connected` is stood in for by `isConnected`: breadth-first levels from the first node, as many
levels as there are nodes.
-/
namespace PolyplyVerif.C10M

structure RNode where
  key : Nat
  resid : Int
  resname : String
  frag : List Nat              -- atoms of the fragment graph stored on the residue node
  fedges : List (Nat × Nat)    -- edges of the fragment graph
deriving Repr, DecidableEq

structure Input where
  nodes : List RNode
  redges : List (Nat × Nat)    -- residue-graph edges, in iteration order
  medges : List (Nat × Nat)    -- edges of the molecule (atom graph)
deriving Repr

def incident (e : Nat × Nat) (a : Nat) : Bool := e.1 == a || e.2 == a

/-- `graph.degree(a)` -/
def degree (es : List (Nat × Nat)) (a : Nat) : Nat :=
  (es.filter (fun e => incident e a)).length + (es.filter (fun e => e.1 == a && e.2 == a)).length

def hasEdge (es : List (Nat × Nat)) (a b : Nat) : Bool :=
  es.any (fun e => (e.1 == a && e.2 == b) || (e.1 == b && e.2 == a))

def Input.node? (inp : Input) (k : Nat) : Option RNode := inp.nodes.find? (fun n => n.key == k)

/-- atoms of a residue whose degree in the fragment differs from their degree in the molecule -/
def allowed (inp : Input) (nd : RNode) : List Nat :=
  nd.frag.filter (fun a => degree nd.fedges a != degree inp.medges a)

/-- `find_connecting_edges(res_graph, molecule, (A, B))` -/
def findConnectingEdges (inp : Input) (A B : RNode) : List (Nat × Nat) :=
  (allowed inp A).flatMap fun a => ((allowed inp B).filter fun b => hasEdge inp.medges a b).map fun b => (a, b)

structure Missing where
  resA : String
  idxA : Int
  resB : String
  idxB : Int
deriving Repr, DecidableEq

/-- `find_missing_edges(res_graph, molecule)`: one record per residue-graph edge without connecting edge -/
def findMissingEdges (inp : Input) : List Missing :=
  inp.redges.filterMap fun e =>
    match inp.node? e.1, inp.node? e.2 with
    | some A, some B => if (findConnectingEdges inp A B).isEmpty then some ⟨A.resname, A.resid, B.resname, B.resid⟩ else none
    | _, _ => none

/-! ### specification side -/

/-- what the property states: some atom of `A` is adjacent (in the molecule) to some atom of `B` -/
def joined (inp : Input) (A B : RNode) : Bool :=
  A.frag.any fun a => B.frag.any fun b => hasEdge inp.medges a b

/-- the records the property demands: exactly the residue-graph edges whose residues are not joined -/
def specMissing (inp : Input) : List Missing :=
  inp.redges.filterMap fun e =>
    match inp.node? e.1, inp.node? e.2 with
    | some A, some B => if joined inp A B then none else some ⟨A.resname, A.resid, B.resname, B.resid⟩
    | _, _ => none

/-! ### connectivity gate -/

def neighbors (es : List (Nat × Nat)) (a : Nat) : List Nat :=
  es.filterMap (fun e => if e.1 == a then some e.2 else if e.2 == a then some e.1 else none)

def dedup {α} [BEq α] : List α → List α
  | [] => []
  | x :: xs => x :: (dedup xs).filter (fun y => !(y == x))

/-- nodes reachable from `a` by a walk of at most `k` edges (each listed once) -/
def within (es : List (Nat × Nat)) (a : Nat) : Nat → List Nat
  | 0 => [a]
  | k + 1 => dedup (within es a k ++ (within es a k).flatMap (neighbors es))

/-- stands for `nx.is_connected` (the null graph makes networkx raise; modelled as not connected) -/
def isConnected (nodes : List Nat) (es : List (Nat × Nat)) : Bool :=
  match nodes with
  | [] => false
  | a :: _ => nodes.all (fun b => (within es a nodes.length).contains b)

structure Mol where
  atoms : List (Nat × Int × String)      -- atom key, resid, resname
  edges : List (Nat × Nat)
deriving Repr

def Mol.resOf (m : Mol) (a : Nat) : Option (Int × String) := (m.atoms.find? (fun x => x.1 == a)).map (·.2)

/-- residue graph of a molecule (`make_residue_graph(block, attrs=('resid','resname'))`): residues are
numbered in order of their first atom; two residues are joined iff some atom edge joins them -/
def Mol.residues (m : Mol) : List (Int × String) := dedup (m.atoms.map (·.2))

def Mol.resEdges (m : Mol) : List (Nat × Nat) :=
  m.edges.filterMap fun e =>
    match m.resOf e.1, m.resOf e.2 with
    | some r1, some r2 => if r1 == r2 then none else some (m.residues.idxOf r1, m.residues.idxOf r2)
    | _, _ => none

/-- `_check_molecules(molecules)`: raise iff some residue graph is not connected -/
def checkMolecules (mols : List Mol) : Bool :=      -- true = raises
  mols.any fun m => !isConnected (List.range m.residues.length) m.resEdges

/-- what the property states: the ATOM graph of some molecule is not connected -/
def specRaises (mols : List Mol) : Bool :=
  mols.any fun m => !isConnected (m.atoms.map (·.1)) m.edges

end PolyplyVerif.C10M
