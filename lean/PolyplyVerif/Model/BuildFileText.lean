/-
C18 (and the build-file half of C15) — the build file at TEXT / TOKEN level.  Core Lean only.

`Model/BuildFile.lean` starts from already-parsed `Line` values.  This file models what comes before:

* `vermouth.parser_utils.LineParser.parse` as far as `BuildDirector` uses it: `split_comments` with
  `COMMENT_CHAR` (translated), blank lines skipped, `is_section_header`, `parse_header`
  (`line.strip('[ ]').casefold()`, the `pop(-2)` loop over the (translated) table of registered section
  paths), `parse_section` (unknown section → IOError, any exception of the line parser → IOError),
  `finalize` (the last section ends at the end of the file);
* the line parsers of `build_file_parser.BuildDirector` on the tokens of `line.split()`:
  `_molecule`, `_parse_geometry` / `_base_parser_geometry` (token indices translated), `_rw_restriction`,
  `_distance_restraints` (optional tolerance column: read iff the line has EXACTLY four tokens),
  `_persistence_length`, `_template`, `_template_atoms`, `_template_bonds`, `_volume`, `_bending`;
* `finalize_section` as far as it decides WHICH template is stored (the section `[template, bonds]` —
  translated — ended; a template block that never reaches `[ bonds ]` is dropped: known finding
  `template-without-bonds-ignored`), with which atoms (insertion order, a repeated atom name overwrites) and
  bonds; the graph hash, `compute_volume` and `map_from_CoG` are `Model/Templates.lean`'s business;
* the tables: the parsed records are handed, in file order, to `BuildFile.parseBlocks` (payload = position of
  the record in the file), `[ volumes ]` / `[ bending ]` are dict assignments.

Numbers: `int()` is modelled on `[+-]?digits`, `float()` on `[+-]?(digits[.digits*] | .digits)` with the exact
decimal value (the harness compares with the correctly rounded double).  Exponents, `inf`/`nan`, `_`
separators, non-ASCII digits and `$macro` substitution / the inherited `[ macros ]` section are outside the
model (`.error "outside-model…"`), as are molecule indices that are negative or not integral
(`np.arange(0.5, 2.5, 1., dtype=int)` is `[0, 1]`), negative node ids in `[ distance_restraints ]` /
`[ persistence_length ]` and template positions that do not have three coordinates.
-/
import PolyplyVerif.Model.BuildFile
import PolyplyVerif.Generated.BuildFileTables

namespace PolyplyVerif.BuildFileText
open PolyplyVerif.BuildFile
open PolyplyVerif

abbrev Tok := List Char

/-! ### text primitives -/

/-- ASCII characters `str.split()` / `str.strip()` treat as white space -/
def isSep (c : Char) : Bool :=
  c == ' ' || c == '\t' || c == '\n' || c == '\r' || c == '\x0b' || c == '\x0c' ||
  c == '\x1c' || c == '\x1d' || c == '\x1e' || c == '\x1f'

/-- the pieces between separator characters (always at least one piece) -/
def splitOnP (p : Char → Bool) : List Char → List (List Char)
  | [] => [[]]
  | c :: cs =>
    if p c then [] :: splitOnP p cs
    else match splitOnP p cs with
      | [] => [[c]]
      | h :: t => (c :: h) :: t

/-- `line.split()` -/
def splitWs (l : List Char) : List Tok := (splitOnP isSep l).filter (fun t => !t.isEmpty)

/-- `str.strip(chars)` -/
def stripBy (p : Char → Bool) (l : List Char) : List Char :=
  ((l.dropWhile p).reverse.dropWhile p).reverse

/-- `split_comments(line, COMMENT_CHAR)[0]`: the text before the first comment character, stripped -/
def beforeComment (l : List Char) : List Char :=
  stripBy isSep (l.takeWhile (· != BuildFileTables.commentChar))

/-- `line.strip('[ ]').casefold()` (ASCII) -/
def headerName (l : List Char) : String :=
  String.ofList ((stripBy (fun c => c == '[' || c == ' ' || c == ']') l).map Char.toLower)

/-- `is_section_header`: `some true` header, `some false` data line, `none` misformatted (IOError) -/
def isHeader (l : List Char) : Option Bool :=
  match l with
  | '[' :: _ => if l.getLast? = some ']' then some true else none
  | _ => some false

/-- `' '.join(tokens)` -/
def joinToks : List Tok → List Char
  | [] => []
  | [t] => t
  | t :: rest => t ++ ' ' :: joinToks rest

/-! ### numbers -/

/-- sign prefix of a Python numeric literal: (negative?, rest) -/
def splitSign : Tok → Bool × Tok
  | '-' :: r => (true, r)
  | '+' :: r => (false, r)
  | r => (false, r)

/-- `int(token)` on `[+-]?digits` -/
def readInt (t : Tok) : Option Int :=
  let s := splitSign t
  (readNat s.2).map fun n => if s.1 then -(n : Int) else (n : Int)

/-- unsigned decimal `digits[.digits*]` or `.digits` -/
def readDec (r : Tok) : Option Rat :=
  match splitFirst '.' r with
  | (ip, none) => (readNat ip).map fun n => (n : Rat)
  | (ip, some fp) =>
    if ip.isEmpty && fp.isEmpty then none else
    match readNatAux ip 0, readNatAux fp 0 with
    | some a, some b => some ((a : Rat) + (b : Rat) / ((10 ^ fp.length : Nat) : Rat))
    | _, _ => none

/-- `float(token)` on plain decimal literals, exact value -/
def readFloat (t : Tok) : Option Rat :=
  let s := splitSign t
  (readDec s.2).map fun q => if s.1 then -q else q

/-- a decimal literal as written: sign, integer digits, optional fraction digits -/
structure Dec where
  neg : Bool
  ip : Nat
  /-- `none`: no decimal point; `some ds`: the digits after the point (each < 10), may be empty (`5.`) -/
  fp : Option (List Nat)
deriving DecidableEq, Repr

def digitsVal (ds : List Nat) : Nat := ds.foldl (fun a d => 10 * a + d) 0

def Dec.abs (d : Dec) : Rat :=
  match d.fp with
  | none => (d.ip : Rat)
  | some ds => (d.ip : Rat) + (digitsVal ds : Rat) / ((10 ^ ds.length : Nat) : Rat)

def Dec.val (d : Dec) : Rat := if d.neg then -d.abs else d.abs

def Dec.wf (d : Dec) : Prop := ∀ x ∈ d.fp.getD [], x < 10

instance (d : Dec) : Decidable d.wf := by unfold Dec.wf; infer_instance

def fracChars : Option (List Nat) → Tok
  | none => []
  | some ds => '.' :: ds.map digitChar

def showDec (d : Dec) : Tok := (if d.neg then ['-'] else []) ++ showNat d.ip ++ fracChars d.fp

def showInt (z : Int) : Tok := if z < 0 then '-' :: showNat z.natAbs else showNat z.natAbs

/-! ### records -/

structure Geom where
  resname : String
  start : Rat
  stop : Rat
  inout : String
  point : Rat × Rat × Rat
  params : List Rat
  kind : String
deriving DecidableEq, Repr

structure RwDef where
  resname : String
  start : Int
  stop : Int
  vec : Rat × Rat × Rat
  angle : Rat
deriving DecidableEq, Repr

structure DistDef where
  a : Int
  b : Int
  dist : Rat
  tol : Rat
deriving DecidableEq, Repr

structure PersDef where
  model : String
  lp : Rat
  start : Int
  stop : Int
deriving DecidableEq, Repr

inductive Rec where
  | molecule (name : String) (lo hi : Rat)
  | geometry (g : Geom)
  | rw (d : RwDef)
  | dist (d : DistDef)
  | pers (d : PersDef)
  | templateHead (name : String)
  | templateAtom (name atype : String) (pos : List Rat)
  | templateBond (a b : String)
  | volume (resname : String) (v : Rat)
  | bending (a b c : String) (k : Rat)
deriving DecidableEq, Repr

def str (t : Tok) : String := String.ofList t

def orErr {α} (msg : String) : Option α → Except String α
  | some a => .ok a
  | none => .error msg

def tokAt (toks : List Tok) (i : Nat) : Except String Tok := orErr "IndexError" toks[i]?
def floatAt (toks : List Tok) (i : Nat) : Except String Rat := do orErr "ValueError: float" (readFloat (← tokAt toks i))
def intAt (toks : List Tok) (i : Nat) : Except String Int := do orErr "ValueError: int" (readInt (← tokAt toks i))

/-! ### the line parsers (on the tokens of `line.split()`) -/

/-- `_molecule`: `tokens[0]`, `float(tokens[1])`, `float(tokens[2])`; further tokens are not looked at -/
def parseMolecule (toks : List Tok) : Except String Rec := do
  pure (.molecule (str (← tokAt toks 0)) (← floatAt toks 1) (← floatAt toks 2))

/-- `_base_parser_geometry(tokens, _type)` with the translated token indices -/
def parseGeometry (kind : String) (toks : List Tok) : Except String Rec := do
  let resname ← tokAt toks BuildFileTables.geomResname
  let start ← floatAt toks BuildFileTables.geomStart
  let stop ← floatAt toks BuildFileTables.geomStop
  let x ← floatAt toks BuildFileTables.geomPoint.1
  let y ← floatAt toks BuildFileTables.geomPoint.2.1
  let z ← floatAt toks BuildFileTables.geomPoint.2.2
  let inout ← tokAt toks BuildFileTables.geomInOut
  let params ← (toks.drop BuildFileTables.geomRest).mapM fun t => orErr "ValueError: float" (readFloat t)
  pure (.geometry ⟨str resname, start, stop, str inout, (x, y, z), params, kind⟩)

/-- `_rw_restriction`: `tokens[0]`, `int(tokens[1])`, `int(tokens[2])`, `np.array(tokens[3:6], dtype=float)`,
`float(tokens[6])`; the slice must have three entries for the consumer, further tokens are not looked at -/
def parseRw (toks : List Tok) : Except String Rec := do
  let resname ← tokAt toks 0
  let start ← intAt toks 1
  let stop ← intAt toks 2
  let x ← floatAt toks 3
  let y ← floatAt toks 4
  let z ← floatAt toks 5
  let angle ← floatAt toks 6
  pure (.rw ⟨str resname, start, stop, (x, y, z), angle⟩)

/-- `_distance_restraints`: `int(tokens[0])`, `int(tokens[1])`, `float(tokens[2])`, and the tolerance
`float(tokens[3])` iff `len(tokens) == 4` (else `0.0`, also for five or more tokens) -/
def parseDist (toks : List Tok) : Except String Rec := do
  let a ← intAt toks 0
  let b ← intAt toks 1
  let dist ← floatAt toks 2
  let tol ← if toks.length = 4 then floatAt toks 3 else pure 0
  pure (.dist ⟨a, b, dist, tol⟩)

/-- `_persistence_length`: `model, lp = tokens.pop(0), float(tokens.pop(0))`; `start, stop = map(int, tokens)`
(exactly two tokens must be left) -/
def parsePers (toks : List Tok) : Except String Rec := do
  let model ← tokAt toks 0
  let lp ← floatAt toks 1
  if toks.length ≠ 4 then throw "ValueError: unpack" else
  pure (.pers ⟨str model, lp, ← intAt toks 2, ← intAt toks 3⟩)

/-- `_template`: `line.split()[1]` -/
def parseTemplateHead (toks : List Tok) : Except String Rec := do
  pure (.templateHead (str (← tokAt toks 1)))

/-- `_template_atoms`: `tokens[0], tokens[1]`, `np.array(tokens[2:], dtype=float)` -/
def parseTemplateAtom (toks : List Tok) : Except String Rec := do
  let name ← tokAt toks 0
  let atype ← tokAt toks 1
  let pos ← (toks.drop 2).mapM fun t => orErr "ValueError: float" (readFloat t)
  pure (.templateAtom (str name) (str atype) pos)

/-- `_template_bonds`: `tokens[0], tokens[1]` -/
def parseTemplateBond (toks : List Tok) : Except String Rec := do
  pure (.templateBond (str (← tokAt toks 0)) (str (← tokAt toks 1)))

/-- `_volume`: `resname, volume = line.split()` -/
def parseVolume (toks : List Tok) : Except String Rec :=
  match toks with
  | [r, v] => do pure (.volume (str r) (← orErr "ValueError: float" (readFloat v)))
  | _ => .error "ValueError: unpack"

/-- `_bending`: `resA, resB, resC, bending_const = line.split()` -/
def parseBending (toks : List Tok) : Except String Rec :=
  match toks with
  | [a, b, c, k] => do pure (.bending (str a) (str b) (str c) (← orErr "ValueError: float" (readFloat k)))
  | _ => .error "ValueError: unpack"

def kwLookup (kw : List (String × String)) (k : String) : Option String := (kw.find? (·.1 == k)).map (·.2)

/-- the method registered for a section, by its (translated) name and keyword arguments -/
def parseBy (method : String) (kw : List (String × String)) (toks : List Tok) : Except String Rec :=
  if method = "_molecule" then parseMolecule toks
  else if method = "_parse_geometry" then
    match kwLookup kw "geom_type" with
    | some k => parseGeometry k toks
    | none => .error "TypeError: geom_type"
  else if method = "_rw_restriction" then parseRw toks
  else if method = "_distance_restraints" then parseDist toks
  else if method = "_persistence_length" then parsePers toks
  else if method = "_template" then parseTemplateHead toks
  else if method = "_template_atoms" then parseTemplateAtom toks
  else if method = "_template_bonds" then parseTemplateBond toks
  else if method = "_volume" then parseVolume toks
  else if method = "_bending" then parseBending toks
  else .error "outside-model: unknown parser method"

/-! ### sections -/

abbrev SecTable := List (List String × String × List (String × String))

/-- the keys of `METH_DICT`: the decorated methods of `BuildDirector` plus the inherited `('macros',)` -/
def knownPaths (tbl : SecTable) : List (List String) := tbl.map (·.1) ++ [["macros"]]

def known (tbl : SecTable) (s : List String) : Bool := (knownPaths tbl).contains s

/-- the `pop(-2)` loop of `parse_header` on the reversed parent path: `[a, b, c] + [h]` is tried as
`a b c h`, `a b h`, `a h`, `h`; the first registered one is taken, `[h]` if none is -/
def resolveRev (tbl : SecTable) (h : String) : List String → List String
  | [] => [h]
  | r :: rest => if known tbl ((r :: rest).reverse ++ [h]) then (r :: rest).reverse ++ [h] else resolveRev tbl h rest

/-- `parse_header`: the new value of `self.section` -/
def enterSection (tbl : SecTable) (cur : List String) (h : String) : List String := resolveRev tbl h cur.reverse

def lookupSection (tbl : SecTable) (s : List String) : Option (String × List (String × String)) :=
  (tbl.find? (·.1 == s)).map (·.2)

/-- what a build file is to the director: parsed data lines and "a template's `[ bonds ]` section ended" -/
inductive Event where
  | data (r : Rec)
  | endTemplate
deriving DecidableEq, Repr

structure PState where
  sec : List String := []
  events : List Event := []
deriving Repr

def endOf (sec : List String) : List Event :=
  if sec = BuildFileTables.templateTrigger then [.endTemplate] else []

/-- one raw line of the file -/
def stepLine (tbl : SecTable) (st : PState) (raw : List Char) : Except String PState :=
  let line := beforeComment raw
  if line.isEmpty then .ok st else
  match isHeader line with
  | none => .error "IOError: section header looks misformatted"
  | some true =>
    -- `finalize_section(prev_section, ended)` is called whenever the previous section is not empty
    .ok { sec := enterSection tbl st.sec (headerName line), events := st.events ++ endOf st.sec }
  | some false =>
    if line.contains '$' then .error "outside-model: macro substitution" else
    match lookupSection tbl st.sec with
    | none => if st.sec = ["macros"] then .error "outside-model: macros section" else .error "IOError: unknown section"
    | some (method, kw) =>
      match parseBy method kw (splitWs line) with
      | .ok r => .ok { st with events := st.events ++ [.data r] }
      | .error e => .error e

/-- `LineParser.parse`: all lines, then `finalize` (the current section ends) -/
def parseLines (tbl : SecTable) (lines : List (List Char)) : Except String (List Event) := do
  let st ← lines.foldlM (stepLine tbl) {}
  pure (st.events ++ endOf st.sec)

/-! ### templates -/

structure TAtom where
  name : String
  atype : String
  pos : List Rat
deriving DecidableEq, Repr

structure TemplateDef where
  resname : String
  /-- node insertion order; a repeated atom name keeps its place and takes the later attributes -/
  atoms : List TAtom
  bonds : List (String × String)
deriving DecidableEq, Repr

def setAtom (atoms : List TAtom) (a : TAtom) : List TAtom :=
  match atoms with
  | [] => [a]
  | x :: rest => if x.name = a.name then a :: rest else x :: setAtom rest a

structure TState where
  cur : Option TemplateDef := none
  done : List TemplateDef := []
deriving Repr

/-- what `finalize_section` needs of the template under construction: at least one atom, every bonded
name is an atom (otherwise the node has no `atomname` for the graph hash), positions in 3D -/
def templateOk (t : TemplateDef) : Bool :=
  !t.atoms.isEmpty && t.bonds.all (fun b => t.atoms.any (·.name == b.1) && t.atoms.any (·.name == b.2)) &&
  t.atoms.all (fun a => a.pos.length == 3)

def templateStep (st : TState) : Event → Except String TState
  | .data (.templateHead name) => .ok { st with cur := some ⟨name, [], []⟩ }
  | .data (.templateAtom name atype pos) =>
    match st.cur with
    | none => .error "IOError: AttributeError (no current template)"
    | some t => .ok { st with cur := some { t with atoms := setAtom t.atoms ⟨name, atype, pos⟩ } }
  | .data (.templateBond a b) =>
    match st.cur with
    | none => .error "IOError: AttributeError (no current template)"
    | some t => .ok { st with cur := some { t with bonds := t.bonds ++ [(a, b)] } }
  | .endTemplate =>
    match st.cur with
    | none => .error "AttributeError (no current template)"
    | some t => if templateOk t then .ok { cur := none, done := st.done ++ [t] } else .error "template cannot be stored"
  | .data _ => .ok st

def templatesOf (evs : List Event) : Except String (List TemplateDef) := do
  pure (← evs.foldlM templateStep {}).done

/-! ### `[ volumes ]`, `[ bending ]` -/

def volStep (t : List (String × Rat)) : Event → List (String × Rat)
  | .data (.volume r v) => setAt t r v
  | _ => t

def bendStep (t : List ((String × String × String) × Rat)) : Event → List ((String × String × String) × Rat)
  | .data (.bending a b c k) => setAt t (a, b, c) k
  | _ => t

/-- `topology.volumes[resname] = float(volume)` for every `[ volumes ]` line, in file order -/
def volumesOf (evs : List Event) : List (String × Rat) := evs.foldl volStep []

/-- `topology.bending[(A, B, C)] = float(k)` -/
def bendingOf (evs : List Event) : List ((String × String × String) × Rat) := evs.foldl bendStep []

/-! ### the molecule blocks: hand-over to `Model/BuildFile.lean` -/

/-- a number that stands for a non-negative integer (`3`, `3.0`) -/
def ratNat (q : Rat) : Option Nat := if q.den = 1 ∧ 0 ≤ q.num then some q.num.toNat else none

def intNat (z : Int) : Option Nat := if 0 ≤ z then some z.toNat else none

/-- `resid in np.arange(start, stop, 1.)` for an integer resid, as a half-open integer range: an integral
`start` gives `start ≤ resid < ⌈stop⌉`, a non-integral `start` selects nothing -/
def Geom.toResDir (g : Geom) (payload : Nat) : ResDir :=
  if g.start.den = 1 then ⟨g.resname, g.start.num, g.stop.ceil, payload⟩ else ⟨g.resname, 0, 0, payload⟩

def RwDef.toResDir (d : RwDef) (payload : Nat) : ResDir := ⟨d.resname, d.start, d.stop, payload⟩

/-- the records of the file, numbered by position, as blocks of `Line`s: a `[ molecule ]` data line opens
a block (`current_molname`, `current_molidxs` are assigned), the directive lines that follow — under
whatever later `[ molecule ]` header — go to the block opened last; before the first one the index list is
empty -/
def addRec (acc : List Block) (ir : Nat × Rec) : Except String (List Block) :=
  let push (l : Line) : List Block :=
    match acc.getLast? with
    | none => [⟨"", 0, 0, [l]⟩]
    | some b => acc.dropLast ++ [{ b with lines := b.lines ++ [l] }]
  match ir.2 with
  | .molecule name lo hi =>
    match ratNat lo, ratNat hi with
    | some l, some h => .ok (acc ++ [⟨name, l, h, []⟩])
    | _, _ => .error "outside-model: molecule index"
  | .geometry g => .ok (push (.geometry (g.toResDir ir.1)))
  | .rw d => .ok (push (.rw (d.toResDir ir.1)))
  | .dist d =>
    match intNat d.a, intNat d.b with
    | some a, some b => .ok (push (.dist a b ir.1))
    | _, _ => .error "outside-model: negative node id"
  | .pers d =>
    match intNat d.start, intNat d.stop with
    | some s, some e => .ok (push (.pers s e ir.1))
    | _, _ => .error "outside-model: negative node id"
  | _ => .ok acc

def recsOf (evs : List Event) : List Rec := evs.filterMap fun | .data r => some r | .endTemplate => none

def blocksOf (recs : List Rec) : Except String (List Block) := recs.zipIdx.map (fun p => (p.2, p.1)) |>.foldlM addRec []

/-! ### the whole file -/

structure Parsed where
  recs : List Rec
  blocks : List Block
  dir : Director
  templates : List TemplateDef
  volumes : List (String × Rat)
  bending : List ((String × String × String) × Rat)
deriving Repr

def readBuildFileWith (tbl : SecTable) (mols : List Mol) (lines : List (List Char)) : Except String Parsed := do
  let evs ← parseLines tbl lines
  let templates ← templatesOf evs
  let recs := recsOf evs
  let blocks ← blocksOf recs
  let dir ← parseBlocks mols blocks
  pure ⟨recs, blocks, dir, templates, volumesOf evs, bendingOf evs⟩

/-- `read_build_file(lines, topology, molecules)` with the section table of the current source -/
def readBuildFile (mols : List Mol) (lines : List (List Char)) : Except String Parsed :=
  readBuildFileWith BuildFileTables.sectionParsers mols lines

/-- the `parameters` entry a payload stands for -/
def Parsed.geomOf (p : Parsed) (payload : Nat) : Option Geom :=
  match p.recs[payload]? with
  | some (.geometry g) => some g
  | _ => none

def Parsed.rwOf (p : Parsed) (payload : Nat) : Option RwDef :=
  match p.recs[payload]? with
  | some (.rw d) => some d
  | _ => none

/-! ### the grammar (specification side): how a record is written -/

/-- a record as written: names as tokens, numbers as decimal literals -/
inductive Syn where
  | molecule (name : Tok) (lo hi : Dec)
  | geometry (kind : String) (resname : Tok) (start stop : Dec) (inout : Tok) (x y z : Dec) (params : List Dec)
  | rw (resname : Tok) (start stop : Int) (x y z angle : Dec)
  | dist (a b : Int) (dist : Dec) (tol : Option Dec)
  | pers (model : Tok) (lp : Dec) (start stop : Int)
  | templateHead (word name : Tok)
  | templateAtom (name atype : Tok) (pos : List Dec)
  | templateBond (a b : Tok)
  | volume (resname : Tok) (v : Dec)
  | bending (a b c : Tok) (k : Dec)

/-- the documented line formats:
`<name> <from> <to>` · `<resname> <start> <stop> <in|out> <x> <y> <z> <parameters…>` ·
`<resname> <start> <stop> <x> <y> <z> <angle>` · `<a> <b> <dist> [<tol>]` · `<model> <lp> <start> <stop>` ·
`resname <name>` · `<atom> <type> <x> <y> <z>` · `<a> <b>` · `<resname> <volume>` · `<A> <B> <C> <k>` -/
def Syn.tokens : Syn → List Tok
  | .molecule n lo hi => [n, showDec lo, showDec hi]
  | .geometry _ r s e io x y z ps => [r, showDec s, showDec e, io, showDec x, showDec y, showDec z] ++ ps.map showDec
  | .rw r s e x y z a => [r, showInt s, showInt e, showDec x, showDec y, showDec z, showDec a]
  | .dist a b d none => [showInt a, showInt b, showDec d]
  | .dist a b d (some t) => [showInt a, showInt b, showDec d, showDec t]
  | .pers m lp s e => [m, showDec lp, showInt s, showInt e]
  | .templateHead w n => [w, n]
  | .templateAtom n t pos => [n, t] ++ pos.map showDec
  | .templateBond a b => [a, b]
  | .volume r v => [r, showDec v]
  | .bending a b c k => [a, b, c, showDec k]

/-- the record a written line stands for -/
def Syn.sem : Syn → Rec
  | .molecule n lo hi => .molecule (str n) lo.val hi.val
  | .geometry k r s e io x y z ps => .geometry ⟨str r, s.val, e.val, str io, (x.val, y.val, z.val), ps.map (·.val), k⟩
  | .rw r s e x y z a => .rw ⟨str r, s, e, (x.val, y.val, z.val), a.val⟩
  | .dist a b d t => .dist ⟨a, b, d.val, (t.map (·.val)).getD 0⟩
  | .pers m lp s e => .pers ⟨str m, lp.val, s, e⟩
  | .templateHead _ n => .templateHead (str n)
  | .templateAtom n t pos => .templateAtom (str n) (str t) (pos.map (·.val))
  | .templateBond a b => .templateBond (str a) (str b)
  | .volume r v => .volume (str r) v.val
  | .bending a b c k => .bending (str a) (str b) (str c) k.val

/-- the section a record is written in: (method, keyword arguments) -/
def Syn.method : Syn → String × List (String × String)
  | .molecule .. => ("_molecule", [])
  | .geometry k .. => ("_parse_geometry", [("geom_type", k)])
  | .rw .. => ("_rw_restriction", [])
  | .dist .. => ("_distance_restraints", [])
  | .pers .. => ("_persistence_length", [])
  | .templateHead .. => ("_template", [])
  | .templateAtom .. => ("_template_atoms", [])
  | .templateBond .. => ("_template_bonds", [])
  | .volume .. => ("_volume", [])
  | .bending .. => ("_bending", [])

def decsWf (ds : List Dec) : Prop := ∀ d ∈ ds, d.wf

instance (ds : List Dec) : Decidable (decsWf ds) := by unfold decsWf; infer_instance

/-- every decimal literal of the line has digits < 10 after the point -/
def Syn.wf : Syn → Prop
  | .molecule _ lo hi => lo.wf ∧ hi.wf
  | .geometry _ _ s e _ x y z ps => s.wf ∧ e.wf ∧ x.wf ∧ y.wf ∧ z.wf ∧ decsWf ps
  | .rw _ _ _ x y z a => x.wf ∧ y.wf ∧ z.wf ∧ a.wf
  | .dist _ _ d none => d.wf
  | .dist _ _ d (some t) => d.wf ∧ t.wf
  | .pers _ lp _ _ => lp.wf
  | .templateHead .. => True
  | .templateAtom _ _ pos => decsWf pos
  | .templateBond .. => True
  | .volume _ v => v.wf
  | .bending _ _ _ k => k.wf

instance (s : Syn) : Decidable s.wf := by
  cases s with
  | dist a b d t => cases t <;> (unfold Syn.wf; infer_instance)
  | _ => unfold Syn.wf; infer_instance

/-- a token: not empty, no white space, no comment character, no `$`, not starting with `[` when first -/
def GoodTok (t : Tok) : Prop := t ≠ [] ∧ ∀ c ∈ t, isSep c = false ∧ c ≠ BuildFileTables.commentChar ∧ c ≠ '$'

/-- a name as it can be written on a line: a good token that does not start with `[` -/
def NameTok (t : Tok) : Prop := GoodTok t ∧ ∀ cs, t ≠ '[' :: cs

/-- the name tokens of a written line (everything that is not a numeral) -/
def Syn.names : Syn → List Tok
  | .molecule n _ _ => [n]
  | .geometry _ r _ _ io _ _ _ _ => [r, io]
  | .rw r .. => [r]
  | .dist .. => []
  | .pers m .. => [m]
  | .templateHead w n => [w, n]
  | .templateAtom n t _ => [n, t]
  | .templateBond a b => [a, b]
  | .volume r _ => [r]
  | .bending a b c _ => [a, b, c]

end PolyplyVerif.BuildFileText
