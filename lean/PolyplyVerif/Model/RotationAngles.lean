/-
The objective that `backmap.orient_template` hands to the optimiser (C06).  Core Lean only, generic in the number
type like `Model/Rotation.lean`.

  Python (`polyply/src/backmap.py`)                               model
  ----------------------------------------------------------------------------------------------------------
  steps 2-3: for every connecting edge k between the residue      `refCoord built refAtomPos cgNeighbour cgOwn`
    and a bonded neighbour residue:                               (one pair `(opt_k, ref_k)` per edge)
      opt_coords[:, k] = template[atomname of the OWN atom]
      ref_coords[:, k] = position of the neighbour's atom − own residue position   (neighbour already built)
                         position of the neighbour RESIDUE − own residue position  (else)
  `target_function(angles)`:                                      `objective a pairs`
      rotated = rotate_xyz(opt_coords, *angles); diff = rotated − ref_coords; score = norm_matrix(diff)
  `_norm_matrix(m) = np.sum(m * m)`                               the sum of the squared norms of the columns

The sum runs over the columns here (numpy sums the flattened 3×N array; in exact arithmetic the order is
irrelevant, in doubles the two differ by rounding only: the correspondence uses a relative tolerance).
What is minimised is therefore the sum of the squared distances between the rotated template atoms that carry a
bond to a neighbour and the positions they should point to.  The optimiser itself is not modelled (the angles it
returns are an arbitrary input of `Model/Rotation.lean`).
-/
import PolyplyVerif.Model.Rotation

namespace PolyplyVerif.Rot

section ring
variable {α : Type} [Add α] [Sub α] [Mul α] [Neg α] [Zero α] [One α]

/-- `ref_coords[:, ndx]`: the built / not built branch of `orient_template` step 3 -/
def refCoord (built : Bool) (refAtomPos cgNeighbour cgOwn : V3 α) : V3 α :=
  if built then refAtomPos - cgOwn else cgNeighbour - cgOwn

/-- one column of `diff * diff`, summed: `‖R·opt − ref‖²` -/
def objTerm (a : Angles α) (p : V3 α × V3 α) : α := V3.normSq ((rotMat a).mulVec p.1 - p.2)

/-- `target_function(angles)` for the pairs `(opt_k, ref_k)` in edge order -/
def objective (a : Angles α) (pairs : List (V3 α × V3 α)) : α :=
  pairs.foldl (fun acc p => acc + objTerm a p) 0

end ring

end PolyplyVerif.Rot
