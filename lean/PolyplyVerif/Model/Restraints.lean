/-
C07 — build-file restraints (`polyply.src.random_walk`, `restraints`, `persistence`, `gen_coords`,
`meta_molecule.search_tree`, `graph_utils`).  Core Lean only, all numbers are `Rat`.

Modelled (control flow mirrored; mutation -> returned value; loops -> folds / fuel recursion):
* `in_sphere / in_cylinder / in_rectangle / fulfill_geometrical_constraints`: the in/out tests exactly
  as coded, including the branch for an `in_out` token that is neither "in" nor "out" and the one-sided
  `z` test of the cylinder's `out` branch.  `‖v‖ > r` and `‖v‖ < r` are decided without square roots
  (`normGt`, `normLt`), which is exact over the reals.
* `is_restricted`: only the FIRST entry of `rw_options` is consulted; sign test on `n·step`, then the
  angle bound.  `update_positions` hands it the UNWRAPPED trial point (`last + step`), so a step that
  crosses a box face is judged by the step itself (fix b739cad).  The angle bound `angle(n, step) ≤ |ref|` is modelled through `c = cos |ref|` (shipped by
  the harness) as `n·step ≥ c‖n‖‖step‖`, decided on squares.
* `pbc_min_dist` (component-wise `min((a-b) % L, (b-a) % L)`, python float `%` = `pmod`),
  `checks_milestones` (an unplaced reference gives `nan`, every comparison with it is false: the
  restraint is skipped).
* networkx `dfs_edges` / `bfs_edges` as adjacency-order traversals (stack machine / level by level),
  `DiGraph` edge listing (`list(T.edges)`: per node in insertion order its successors in insertion
  order), `get_all_predecessors`, `lowest_common_ancestor` on a tree, `set_distance_restraint`,
  `_initialize_cylces`, `np.arange` as used by `generate_end_end_distances`.
* the acceptance conjunction of `RandomWalk.update_positions` and the start-point test of
  `_random_walk`; `bendiness` and `_is_overlap` are opaque booleans.
* the ORDERING COMPARISONS of all these tests (strict or not: what happens to a point exactly on a boundary)
  are not written here: they are taken from `Generated/RestraintTables.lean`, which the translator
  (harness/tables/restraints.py) reads from the source of `in_sphere`, `in_cylinder`, `in_rectangle`,
  `checks_milestones`, `is_restricted` on every run, normalised to "accepted iff quantity REL length".
* `graph_utils._compute_path_length_cartesian`, `compute_avg_step_length`, `is_branched`, and the bookkeeping of
  `persistence.sample_end_to_end_distances` (which molecule of a batch receives which sampled distance).

Specification side (what the property states, evaluated by the driver on the implementation's
output): `regionHolds`, `directionHolds`, `inWindow`, `ringClosingEdge`, `eeInRange`.
-/
import PolyplyVerif.Generated.RestraintTables

namespace PolyplyVerif.Restraints
open PolyplyVerif.RestraintTables (Cmp)

/-! ### vectors (local: this file is independent of `Model/Geometry.lean`) -/

structure V3 where
  x : Rat
  y : Rat
  z : Rat
deriving Repr, DecidableEq, Inhabited

def V3.sub (a b : V3) : V3 := ⟨a.x - b.x, a.y - b.y, a.z - b.z⟩
def V3.add (a b : V3) : V3 := ⟨a.x + b.x, a.y + b.y, a.z + b.z⟩
def V3.dot (a b : V3) : Rat := a.x * b.x + a.y * b.y + a.z * b.z
/-- squared euclidean norm -/
def V3.nsq (a : V3) : Rat := a.x * a.x + a.y * a.y + a.z * a.z

def rabs (q : Rat) : Rat := if q < 0 then -q else q

/-- `‖v‖ > r` for `v` with squared norm `s` (true for every negative `r`) -/
def normGt (s r : Rat) : Bool := decide (r < 0) || decide (r * r < s)
/-- `‖v‖ < r` for `v` with squared norm `s` (false unless `r` is positive) -/
def normLt (s r : Rat) : Bool := decide (0 < r) && decide (s < r * r)

/-- `‖v‖ REL r` for `v` with squared norm `s`, decided without square roots -/
def cmpNorm (c : Cmp) (s r : Rat) : Bool :=
  match c with
  | .gt => normGt s r
  | .lt => normLt s r
  | .le => !(normGt s r)
  | .ge => !(normLt s r)

/-- `a REL b` for two numbers -/
def cmpNum (c : Cmp) (a b : Rat) : Bool :=
  match c with
  | .gt => decide (b < a)
  | .lt => decide (a < b)
  | .le => decide (a ≤ b)
  | .ge => decide (b ≤ a)

/-! ### geometric restraints -/

/-- the `in_out` token of a build-file geometry line -/
inductive InOut where
  | inside
  | outside
  | other      -- any other string: the code does not reject it at parse time
deriving Repr, DecidableEq

inductive Region where
  | sphere (io : InOut) (c : V3) (r : Rat)
  | cylinder (io : InOut) (c : V3) (r h : Rat)
  | rectangle (io : InOut) (c : V3) (a b d : Rat)
deriving Repr, DecidableEq

/-- `in_sphere` -/
def inSphere (p : V3) (io : InOut) (c : V3) (r : Rat) : Bool :=
  let s := (c.sub p).nsq
  match io with
  | .inside => cmpNorm RestraintTables.sphereIn s r
  | .outside => cmpNorm RestraintTables.sphereOut s r
  | .other => true

/-- `in_cylinder` (z-aligned; `diff = centre - point`) -/
def inCylinder (p : V3) (io : InOut) (c : V3) (r h : Rat) : Bool :=
  let d := c.sub p
  let s := d.x * d.x + d.y * d.y
  match io with
  | .inside => cmpNorm RestraintTables.cylInRadius s r && cmpNum RestraintTables.cylInHeight (rabs d.z) h
  | .outside => cmpNorm RestraintTables.cylOutRadius s r || cmpNum RestraintTables.cylOutHeight d.z (rabs h)
  | .other => false

/-- `in_rectangle` -/
def inRectangle (p : V3) (io : InOut) (c : V3) (a b e : Rat) : Bool :=
  let d := c.sub p
  let check := cmpNum RestraintTables.rectInside (rabs d.x) a && cmpNum RestraintTables.rectInside (rabs d.y) b &&
    cmpNum RestraintTables.rectInside (rabs d.z) e
  match io with
  | .inside => check
  | .outside => !check
  | .other => true

def Region.test (p : V3) : Region → Bool
  | .sphere io c r => inSphere p io c r
  | .cylinder io c r h => inCylinder p io c r h
  | .rectangle io c a b e => inRectangle p io c a b e

/-- `fulfill_geometrical_constraints` (no "restraints" key = empty list) -/
def fulfill (p : V3) (rs : List Region) : Bool := rs.all (Region.test p)

/-! specification of the regions: what "inside / outside" means, stated with squared distances -/

/-- `‖v‖ ≤ r` for squared norm `s` -/
def distLe (s r : Rat) : Prop := 0 ≤ r ∧ s ≤ r * r
/-- `‖v‖ ≥ r` for squared norm `s` -/
def distGe (s r : Rat) : Prop := r ≤ 0 ∨ r * r ≤ s

instance (s r : Rat) : Decidable (distLe s r) := by unfold distLe; exact inferInstance
instance (s r : Rat) : Decidable (distGe s r) := by unfold distGe; exact inferInstance

/-- The property's reading of one declared region for a residue at `p`.
Cylinder `out`: outside the radius or outside the slab `|Δz| ≤ |h|`. -/
def regionHolds (p : V3) : Region → Prop
  | .sphere .inside c r => distLe (p.sub c).nsq r
  | .sphere .outside c r => distGe (p.sub c).nsq r
  | .cylinder .inside c r h =>
      distLe ((p.x - c.x) * (p.x - c.x) + (p.y - c.y) * (p.y - c.y)) r ∧ rabs (p.z - c.z) ≤ h
  | .cylinder .outside c r h =>
      distGe ((p.x - c.x) * (p.x - c.x) + (p.y - c.y) * (p.y - c.y)) r ∨ rabs h ≤ rabs (p.z - c.z)
  | .rectangle .inside c a b e => rabs (p.x - c.x) ≤ a ∧ rabs (p.y - c.y) ≤ b ∧ rabs (p.z - c.z) ≤ e
  | .rectangle .outside c a b e => a ≤ rabs (p.x - c.x) ∨ b ≤ rabs (p.y - c.y) ∨ e ≤ rabs (p.z - c.z)
  | _ => True    -- an in/out token the property does not speak about

instance (p : V3) (r : Region) : Decidable (regionHolds p r) := by
  cases r with
  | sphere io c r => cases io <;> (unfold regionHolds; exact inferInstance)
  | cylinder io c r h => cases io <;> (unfold regionHolds; exact inferInstance)
  | rectangle io c a b e => cases io <;> (unfold regionHolds; exact inferInstance)

/-- the regions with every length widened (`in`) / narrowed (`out`) by `eps ≥ 0`: used by the oracle on
float positions of the implementation (a float comparison after `sqrt` may differ in the last bit) -/
def Region.slack (eps : Rat) : Region → Region
  | .sphere .inside c r => .sphere .inside c (r + eps)
  | .sphere .outside c r => .sphere .outside c (r - eps)
  | .cylinder .inside c r h => .cylinder .inside c (r + eps) (h + eps)
  | .cylinder .outside c r h => .cylinder .outside c (r - eps) (rabs h - eps)
  | .rectangle .inside c a b e => .rectangle .inside c (a + eps) (b + eps) (e + eps)
  | .rectangle .outside c a b e => .rectangle .outside c (a - eps) (b - eps) (e - eps)
  | r => r

/-! ### growth direction -/

/-- first entry of `rw_options`: normal, `np.sign(ref_angle)`, `cos |ref_angle|` -/
structure RwOption where
  normal : V3
  sgn : Int
  cosRef : Rat
deriving Repr, DecidableEq

def ratSign (q : Rat) : Int := if q < 0 then -1 else if 0 < q then 1 else 0

/-- `d ≥ c·√m` (with `m = ‖n‖²‖step‖² ≥ 0`) decided on squares -/
def cosGeB (d c m : Rat) : Bool :=
  if 0 ≤ d then decide (c ≤ 0) || decide (c * c * m ≤ d * d)
  else decide (c < 0) && decide (d * d ≤ c * c * m)

/-- `angle REL |ref|` for the angle between normal and step, with `d = n·step`, `c = cos|ref|`,
`m = ‖n‖²‖step‖²`: the cosine is decreasing on [0°, 180°], so `angle ≤ ref ⟺ d ≥ c·√m`,
`angle ≥ ref ⟺ d ≤ c·√m ⟺ −d ≥ (−c)·√m`, and the strict forms are the negations -/
def angleCmpB (r : Cmp) (d c m : Rat) : Bool :=
  match r with
  | .le => cosGeB d c m
  | .gt => !(cosGeB d c m)
  | .ge => cosGeB (-d) (-c) m
  | .lt => !(cosGeB (-d) (-c) m)

/-- `is_restricted` on the vector `step = point - old_point` the code forms -/
def isRestricted (opt : Option RwOption) (step : V3) : Bool :=
  match opt with
  | none => true
  | some o =>
    let d := o.normal.dot step
    if ratSign d != o.sgn then false
    else angleCmpB RestraintTables.dirAngle d o.cosRef (o.normal.nsq * step.nsq)

/-- specification: the step points to the side of the plane the angle's sign names, and makes an angle
of at most `|ref|` with the normal: `n·step ≥ cos|ref| · ‖n‖ ‖step‖` -/
def cosGe (d c m : Rat) : Prop :=
  (0 ≤ d ∧ (c ≤ 0 ∨ c * c * m ≤ d * d)) ∨ (d < 0 ∧ c < 0 ∧ d * d ≤ c * c * m)

instance (d c m : Rat) : Decidable (cosGe d c m) := by unfold cosGe; exact inferInstance

def directionHolds (o : RwOption) (step : V3) : Prop :=
  ratSign (o.normal.dot step) = o.sgn ∧ cosGe (o.normal.dot step) o.cosRef (o.normal.nsq * step.nsq)

instance (o : RwOption) (s : V3) : Decidable (directionHolds o s) := by
  unfold directionHolds; exact inferInstance

/-! ### periodic distances and milestones -/

/-- python float `%` for a positive modulus -/
def pmod (a l : Rat) : Rat := a - l * ((a / l).floor : Int)

/-- one component of `pbc_min_dist` -/
def miComp (a b l : Rat) : Rat :=
  let u := pmod (a - b) l
  let v := pmod (b - a) l
  if u ≤ v then u else v

/-- squared minimum-image distance in a rectangular box -/
def miSq (a b box : V3) : Rat :=
  let dx := miComp a.x b.x box.x
  let dy := miComp a.y b.y box.y
  let dz := miComp a.z b.z box.z
  dx * dx + dy * dy + dz * dz

/-- one entry of a node's `distance_restraints` list: `(ref_node, upper_bound, lower_bound)` -/
structure DRestr where
  ref : Nat
  ub : Rat
  lb : Rat
deriving Repr, DecidableEq

/-- `checks_milestones`; `posOf ref = none` stands for a reference that is not placed (`inf`, the
distance is `nan` and both comparisons are false) -/
def checksMilestones (posOf : Nat → Option V3) (box : V3) (p : V3) (rs : List DRestr) : Bool :=
  rs.all fun r =>
    match posOf r.ref with
    | none => true
    | some q =>
      let s := miSq p q box
      cmpNorm RestraintTables.msUpper s r.ub && cmpNorm RestraintTables.msLower s r.lb

/-- specification: the squared min-image distance `s` lies in the window `[lo, hi]` -/
def inWindow (s lo hi : Rat) : Prop := distGe s lo ∧ distLe s hi

instance (s lo hi : Rat) : Decidable (inWindow s lo hi) := by unfold inWindow; exact inferInstance

/-- `pbc_complete`: `point % maxdim`, component-wise -/
def wrapV (q box : V3) : V3 := ⟨pmod q.x box.x, pmod q.y box.y, pmod q.z box.z⟩

/-- acceptance test of `RandomWalk.update_positions` for the trial step `step = vectors[index] * step_length`
taken from `last`: the new point is `pbc_complete(last + step)`; regions, milestones (and overlap) are
evaluated on the wrapped point, the growth direction on `unwrapped_point - last_point` (since b739cad; before
that fix the wrapped point was used); `bend` and `overlap` are the outcomes of `bendiness` and `_is_overlap` -/
def acceptStep (regions : List Region) (drs : List DRestr) (opt : Option RwOption)
    (posOf : Nat → Option V3) (box last step : V3) (bend overlap : Bool) : Bool :=
  let unwrapped := last.add step
  let p := wrapV unwrapped box
  fulfill p regions && checksMilestones posOf box p drs && isRestricted opt (unwrapped.sub last) && bend && !overlap

/-- the test `_random_walk` applies to the start point of the first residue -/
def acceptStart (regions : List Region) (start : V3) (overlap : Bool) : Bool :=
  fulfill start regions && !overlap

/-! ### search trees (networkx traversals in adjacency order) -/

/-- adjacency: node -> neighbours in adjacency-dictionary order -/
abbrev Adj := List (Nat × List Nat)

def Adj.nbrs (g : Adj) (v : Nat) : List Nat :=
  match g.find? (fun e => e.1 == v) with
  | some e => e.2
  | none => []

def Adj.size (g : Adj) : Nat := g.foldl (fun acc e => acc + e.2.length + 1) 0

structure DfsState where
  stack : List (Nat × List Nat)
  visited : List Nat
  out : List (Nat × Nat)      -- edges in discovery order (reversed)
deriving Repr, DecidableEq

/-- one iteration of the `while stack:` loop of `networkx.dfs_edges`, advanced to the next child -/
def dfsStep (nb : Nat → List Nat) (s : DfsState) : DfsState :=
  match s.stack with
  | [] => s
  | (_, []) :: rest => { s with stack := rest }
  | (p, c :: cs) :: rest =>
    if s.visited.contains c then { s with stack := (p, cs) :: rest }
    else ⟨(c, nb c) :: (p, cs) :: rest, c :: s.visited, (p, c) :: s.out⟩

def dfsRun (nb : Nat → List Nat) : Nat → DfsState → DfsState
  | 0, s => s
  | fuel + 1, s => match s.stack with
    | [] => s
    | _ => dfsRun nb fuel (dfsStep nb s)

/-- `list(nx.dfs_edges(G, source))`; `fuel` bounds the number of loop iterations (every iteration
consumes one child entry or pops one frame: `Σ deg + |V|` suffice) -/
def dfsEdges (nb : Nat → List Nat) (fuel : Nat) (root : Nat) : List (Nat × Nat) :=
  (dfsRun nb fuel ⟨[(root, nb root)], [root], []⟩).out.reverse

/-- the children loop of `generic_bfs_edges` for one parent -/
def bfsChildren (p : Nat) : List Nat → List Nat → List (Nat × Nat) → List Nat → List Nat × List (Nat × Nat) × List Nat
  | [], seen, out, next => (seen, out, next)
  | c :: cs, seen, out, next =>
    if seen.contains c then bfsChildren p cs seen out next
    else bfsChildren p cs (c :: seen) ((p, c) :: out) (c :: next)

def bfsLevel (nb : Nat → List Nat) : List Nat → List Nat → List (Nat × Nat) → List Nat → List Nat × List (Nat × Nat) × List Nat
  | [], seen, out, next => (seen, out, next)
  | p :: ps, seen, out, next =>
    let (seen', out', next') := bfsChildren p (nb p) seen out next
    bfsLevel nb ps seen' out' next'

def bfsRun (nb : Nat → List Nat) : Nat → List Nat → List Nat → List (Nat × Nat) → List (Nat × Nat)
  | 0, _, _, out => out
  | fuel + 1, level, seen, out =>
    match level with
    | [] => out
    | _ =>
      let (seen', out', next) := bfsLevel nb level seen out []
      bfsRun nb fuel next.reverse seen' out'

/-- `list(nx.bfs_edges(G, source))` -/
def bfsEdges (nb : Nat → List Nat) (fuel : Nat) (root : Nat) : List (Nat × Nat) :=
  (bfsRun nb fuel [root] [root] []).reverse

/-- insertion-ordered set of nodes of `T = DiGraph(); T.add_node(root); T.add_edges_from(edges)` -/
def treeNodes (root : Nat) (edges : List (Nat × Nat)) : List Nat :=
  (edges.foldl (fun acc e =>
    let acc := if acc.contains e.1 then acc else e.1 :: acc
    if acc.contains e.2 then acc else e.2 :: acc) [root]).reverse

/-- `list(T.edges)`: per node in insertion order, its successors in insertion order -/
def treeEdgeList (root : Nat) (edges : List (Nat × Nat)) : List (Nat × Nat) :=
  (treeNodes root edges).flatMap fun v => edges.filter fun e => e.1 == v

/-- `list(molecule.search_tree.edges)` for the networkx constructor named `kind` -/
def searchTreeEdges (kind : String) (nb : Nat → List Nat) (fuel : Nat) (root : Nat) : List (Nat × Nat) :=
  if kind == "dfs_tree" then treeEdgeList root (dfsEdges nb fuel root)
  else if kind == "bfs_tree" then treeEdgeList root (bfsEdges nb fuel root)
  else []

/-- the same for a finite adjacency table, with sufficient fuel -/
def Adj.searchTree (kind : String) (g : Adj) (root : Nat) : List (Nat × Nat) :=
  searchTreeEdges kind g.nbrs (2 * g.size + 2) root

/-- `_initialize_cylces`: `(edges[0][0], edges[-1][1])` -/
def closingPair (edges : List (Nat × Nat)) : Option (Nat × Nat) :=
  match edges.head?, edges.getLast? with
  | some f, some l => some (f.1, l.2)
  | _, _ => none

/-- the ring of `n` residues `0 … n-1` as the residue graph of a cyclic molecule whose bonds are listed
`(0,1), (1,2), …, (n-2,n-1), (n-1,0)`, with the adjacency order the real pipeline produces
(`make_residue_graph` + the copy in `MetaMolecule.__init__`: the last residue lists residue 0 first) -/
def ringNbrs (n : Nat) (i : Nat) : List Nat :=
  if i = 0 then [1, n - 1]
  else if i + 1 = n then [0, i - 1]
  else [i - 1, i + 1]

def ringAdj (n : Nat) : Adj := (List.range n).map fun i => (i, ringNbrs n i)

/-- `list(molecule.search_tree.edges)` of the ring of `n` residues rooted at residue 0 -/
def ringTree (kind : String) (n : Nat) : List (Nat × Nat) := searchTreeEdges kind (ringNbrs n) (6 * n + 2) 0

/-- the two residues are joined by an edge of the ring of `n` residues -/
def ringAdjacent (n a b : Nat) : Prop := a < n ∧ b < n ∧ (a + 1 = b ∨ b + 1 = a ∨ (a = 0 ∧ b + 1 = n) ∨ (b = 0 ∧ a + 1 = n))

instance (n a b : Nat) : Decidable (ringAdjacent n a b) := by unfold ringAdjacent; exact inferInstance

/-- specification for any residue graph: edges of the graph that are not tree edges (for a ring: the
ring-closing edge) -/
def nonTreeEdges (g : Adj) (tree : List (Nat × Nat)) : List (Nat × Nat) :=
  g.flatMap fun (u, ns) => (ns.filter fun v =>
    decide (u < v) && !(tree.contains (u, v)) && !(tree.contains (v, u))).map fun v => (u, v)

/-! ### distance restraints along a tree path -/

def parentOf (tree : List (Nat × Nat)) (v : Nat) : Option Nat :=
  (tree.find? fun e => e.2 == v).map (·.1)

/-- `v, parent v, …, root` -/
def ancestors (tree : List (Nat × Nat)) : Nat → Nat → List Nat
  | 0, v => [v]
  | fuel + 1, v => match parentOf tree v with
    | none => [v]
    | some p => v :: ancestors tree fuel p

/-- `nx.lowest_common_ancestor(tree, a, b)` for a rooted tree -/
def lca (tree : List (Nat × Nat)) (a b : Nat) : Option Nat :=
  let ancA := ancestors tree tree.length a
  (ancestors tree tree.length b).find? fun v => ancA.contains v

/-- the loop of `get_all_predecessors`: `v` is the last node appended so far, `acc` the nodes below it -/
def climb (tree : List (Nat × Nat)) (start : Nat) : Nat → Nat → List Nat → Option (List Nat)
  | 0, _, _ => none
  | fuel + 1, v, acc => match parentOf tree v with
    | none => none                       -- `list(graph.predecessors(v))[0]`: IndexError at the root
    | some p => if p == start then some (p :: v :: acc) else climb tree start fuel p (v :: acc)

/-- `get_all_predecessors(tree, node, start_node)`: `[start, …, node]`; `none` where the python loop
runs past the root (IndexError) -/
def pathFrom (tree : List (Nat × Nat)) (start node : Nat) : Option (List Nat) :=
  climb tree start (tree.length + 1) node []

/-- bounds computed in the loop of `set_distance_restraint` for the node at index `i` of a path of
`m` nodes (`m - 1` = graph distance between reference and target) -/
def boundAt (m i : Nat) (isTarget : Bool) (ref : Nat) (d avg tol : Rat) : DRestr :=
  let gd : Rat := if isTarget then 1 else ((m - 1 - i : Nat) : Rat)
  ⟨ref, gd * avg + d + tol, d / ((m - 1 : Nat) : Rat) * (i : Rat) - tol⟩

/-- the entries `set_distance_restraint` appends, as `(node, entry)` in loop order, for a path
`[ref, …, target]` -/
def boundsAlong (path : List Nat) (ref target : Nat) (d avg tol : Rat) : List (Nat × DRestr) :=
  (path.zipIdx.filter fun (v, _) => v == target || v != ref).map fun (v, i) =>
    (v, boundAt path.length i (v == target) ref d avg tol)

/-- per-node `distance_restraints` lists -/
abbrev DStore := List (Nat × List DRestr)

def DStore.get : DStore → Nat → List DRestr
  | [], _ => []
  | (k, l) :: t, v => if k == v then l else DStore.get t v

/-- `nodes[v]['distance_restraints'] = nodes[v].get('distance_restraints', []) + [r]` -/
def DStore.append : DStore → Nat → DRestr → DStore
  | [], v, r => [(v, [r])]
  | (k, l) :: t, v, r => if k == v then (k, l ++ [r]) :: t else (k, l) :: DStore.append t v r

/-- `set_distance_restraint(molecule, target, ref, distance, avg, tol)`; errors: `branched` (OSError),
`crash` (the python code raises IndexError: target = ref) -/
def setDistanceRestraint (tree : List (Nat × Nat)) (store : DStore) (target ref : Nat) (d avg tol : Rat) :
    Except String DStore :=
  match lca tree target ref with
  | none => .error "crash"
  | some anc =>
    let pr : Option (Nat × Nat) :=
      if anc == target then some (target, ref)       -- swapped: (new ref, new target)
      else if anc != ref then none else some (ref, target)
    match pr with
    | none => .error "branched"
    | some (ref', target') =>
      match pathFrom tree ref' target' with
      | none => .error "crash"
      | some path => .ok ((boundsAlong path ref' target' d avg tol).foldl (fun s e => s.append e.1 e.2) store)

/-! ### average step length and contour length (`graph_utils.py`), registration of the restraints -/

/-- `_compute_path_length_cartesian(mol_idx, path, nonbond_matrix)`: `path_length += get_interaction(…)[0]` over
the edges of `path`, starting from 0.  `size u v` stands for
`nonbond_matrix.get_interaction(mol_idx, mol_idx, u, v)[0]` (the pair size of the two residues). -/
def pathLength (size : Nat → Nat → Rat) (path : List (Nat × Nat)) : Rat :=
  path.foldl (fun acc e => acc + size e.1 e.2) 0

/-- `compute_avg_step_length(molecule, mol_idx, nonbond_matrix, path)`:
`(max_path_length / len(path), max_path_length)`; `none` = the ZeroDivisionError of an empty path -/
def computeAvgStepLength (size : Nat → Nat → Rat) (path : List (Nat × Nat)) : Option (Rat × Rat) :=
  match path with
  | [] => none
  | _ => some (pathLength size path / (path.length : Rat), pathLength size path)

/-- `is_branched(graph)`: some node has degree larger than 2 (degree = length of the adjacency list) -/
def isBranched (g : Adj) : Bool := g.any fun e => decide (2 < e.2.length)

/-- `list(zip(path[:-1], path[1:]))` -/
def edgePath : List Nat → List (Nat × Nat)
  | a :: b :: rest => (a, b) :: edgePath (b :: rest)
  | _ => []

/-- one declared restraint of `topology.distance_restraints[(mol_name, mol_idx)]`:
`(ref_node, target_node) ↦ (distance, tolerance)` -/
structure Declared where
  ref : Nat
  target : Nat
  d : Rat
  tol : Rat
deriving Repr, DecidableEq

/-- the loop of `restraints.set_restraints` for one molecule: for every declared pair the average step length
is taken over ALL edges of the search tree (`path = list(mol.search_tree.edges)`), then
`set_distance_restraint(mol, target, ref, distance, avg, tolerance)`.  Errors: `empty` (a molecule of one
residue has no tree edge: ZeroDivisionError) and those of `setDistanceRestraint`. -/
def setRestraints (tree : List (Nat × Nat)) (size : Nat → Nat → Rat) :
    DStore → List Declared → Except String DStore
  | store, [] => .ok store
  | store, r :: rest =>
    match computeAvgStepLength size tree with
    | none => .error "empty"
    | some (avg, _) =>
      match setDistanceRestraint tree store r.target r.ref r.d avg r.tol with
      | .error e => .error e
      | .ok store' => setRestraints tree size store' rest

/-- one call `set_distance_restraint(topology.molecules[mol], stop, start, dist, avg, tolerance=0.0)` made by
`sample_end_to_end_distances` -/
structure EeCall where
  mol : Nat
  target : Nat
  ref : Nat
  d : Rat
  avg : Rat
deriving Repr, DecidableEq

/-- `persistence.sample_end_to_end_distances` for ONE batch `specs = (start, stop, mol_idxs)`: the path
`start … stop` is taken on the search tree of the FIRST molecule of the batch (rooted at `start`), the average
step and the contour length over the edges of that path with the pair sizes of that molecule, `samples` stands for
the array returned by `generate_end_end_distances` (drawn from `eeCandidates avg contour`), and
`zip(specs.mol_idxs, distribution)` gives the k-th molecule of the batch the k-th sample.
Result: `(avg, contour, calls)`; `none` = an exception (empty batch, `stop` not below `start`, `start = stop`). -/
def sampleBatch (tree : List (Nat × Nat)) (size : Nat → Nat → Rat) (start stop : Nat) (molIdxs : List Nat)
    (samples : List Rat) : Option (Rat × Rat × List EeCall) :=
  match molIdxs with
  | [] => none
  | _ =>
    match pathFrom tree start stop with
    | none => none
    | some path =>
      match computeAvgStepLength size (edgePath path) with
      | none => none
      | some (avg, contour) =>
        some (avg, contour, (molIdxs.zip samples).map fun (m, x) => ⟨m, stop, start, x, avg⟩)

/-! ### end-to-end sampling grid -/

def ceilInt (q : Rat) : Int := -((-q).floor)

/-- `np.arange(start, stop, step)` for a positive step: `ceil((stop - start)/step)` values -/
def arange (start stop step : Rat) : List Rat :=
  (List.range (ceilInt ((stop - start) / step)).toNat).map fun (i : Nat) => start + (i : Rat) * step

/-- the candidate end-to-end distances of `generate_end_end_distances` -/
def eeCandidates (avg contour : Rat) : List Rat := arange avg contour avg

/-- specification: a sampled end-to-end distance lies between one step and the contour length -/
def eeInRange (avg contour x : Rat) : Prop := avg ≤ x ∧ x < contour

instance (a c x : Rat) : Decidable (eeInRange a c x) := by unfold eeInRange; exact inferInstance

end PolyplyVerif.Restraints
