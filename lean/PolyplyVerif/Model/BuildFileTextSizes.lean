/-
Bridge from the build file as TEXT (`Model/BuildFileText.lean`) to the template / size precedence model of C15
(`Model/Templates.lean`): the events of the file that touch templates and sizes, in file order, as the `BfOp`s
`Templ.readBuildFile` starts from.  Core Lean only.

`BuildDirector._volume` → `BfOp.volume`; the end of a `[ template ] / [ bonds ]` section (`finalize_section`) →
`BfOp.template` with the residue name and the positions written.  The graph hash
(`weisfeiler_lehman_graph_hash`) and `compute_volume` of a finished template are ORACLES: the k-th finished
template takes the k-th entry of `oracle` (observed on the real run by the harness).
-/
import PolyplyVerif.Model.BuildFileText
import PolyplyVerif.Model.Templates

namespace PolyplyVerif.BuildFileText
open PolyplyVerif PolyplyVerif.Templ PolyplyVerif.Rot

/-- `nx.get_node_attributes(template, "position")`: atom name ↦ position, node order -/
def TemplateDef.coords (t : TemplateDef) : Template Rat :=
  t.atoms.map fun a => (a.name, ⟨a.pos.getD 0 0, a.pos.getD 1 0, a.pos.getD 2 0⟩)

/-- the `BfOp`s one event causes, given the template state after the event -/
def opsOfEvent (oracle : List (String × Rat)) (after : TState) : Event → List (BfOp Rat)
  | .data (.volume r v) => [BfOp.volume r v]
  | .endTemplate =>
    match after.done.getLast?, oracle[after.done.length - 1]? with
    | some t, some (hash, vol) => [BfOp.template t.resname hash t.coords vol]
    | _, _ => []
  | _ => []

def bfOpsStep (oracle : List (String × Rat)) (acc : TState × List (BfOp Rat)) (e : Event) :
    Except String (TState × List (BfOp Rat)) := do
  let st' ← templateStep acc.1 e
  pure (st', acc.2 ++ opsOfEvent oracle st' e)

def bfOpsOf (oracle : List (String × Rat)) (evs : List Event) : Except String (List (BfOp Rat)) := do
  pure (← evs.foldlM (bfOpsStep oracle) (({} : TState), [])).2

/-- `topology.volumes` and `BuildDirector.templates` after reading the build file given as text -/
def sizesOfText (tbl : SecTable) (volumes0 : Dict Rat) (oracle : List (String × Rat)) (lines : List (List Char)) :
    Except String (Dict Rat × Dict (Template Rat)) := do
  let evs ← parseLines tbl lines
  let ops ← bfOpsOf oracle evs
  pure (Templ.readBuildFile volumes0 ops)

end PolyplyVerif.BuildFileText
