/-
C11 — model of the .itp writer used by `polyply.src.gen_itp.gen_params`
(`vermouth.gmx.itp.write_molecule_itp`, vermouth 0.15) and of the reader polyply uses to get the file
back (`vermouth.gmx.itp_read.ITPDirector`, reached through `TOPDirector` for `Topology.from_gmx_topfile`
and directly for `MetaMolecule.from_itp`), plus the residue graph rebuilt from the re-read block
(`meta_molecule._make_edges` + `vermouth.graph_utils.make_residue_graph`).  Core Lean only.

Level of the model: *token lines*.  A file is a list of `Line`s; a data line is its list of
whitespace-separated tokens plus the trailing `; comment`.  The character level (padding, `split()`,
`split_comments`, `strip('[ ]').casefold()`, `str(x)` of numbers) is done by the harness lexer
(`harness/c11_real.py: lex_file`) and is tied on every run by comparing the model's lines with the
lexed lines of the file the real writer produced.

What is mirrored, with the places where the real code is peculiar:

writer (`write_molecule_itp`)
* atoms are written in `Molecule.sorted_nodes` order (stable sort by the `atomid` attribute, absent =
  +inf) and renumbered 1..n; `correspondence` maps node key -> new index;
* `charge`/`mass` are optional and written as empty strings when absent, i.e. the token simply
  disappears (so a mass without a charge is read back as a charge);
* sections in `Molecule.sort_interactions` order: non-empty ones, sorted by (#atoms of the first
  interaction, name); `impropers` is written under the header `dihedrals`;
* inside a section the interactions are stably sorted by `(conditional, group)`, grouped
  (`itertools.groupby`), each group wrapped in `#ifdef/#ifndef TAG … #endif`, preceded by `; group`,
  sorted inside by `_sort_interaction (_sort_atoms …)`, followed by an empty line;
* `_sort_atoms`: names starting with `bond`/`pair` -> atoms sorted; `angle…` -> reversed unless
  first < last; `dihedral…` -> reversed unless second < third; everything else unchanged;
* `virtual_sitesn` lines are `site params constructing…`, all others `atoms params`; `; comment` from
  the `comment` meta; an interaction with both `ifdef` and `ifndef` makes the writer raise.
  `pre/post_section_lines` and the `define` meta are never set by polyply and are not modelled.

reader (`ITPDirector`)
* comment / empty lines are skipped; `[ moleculetype ]` starts the block; a sub-section is known when
  `('moleculetype', name)` is registered; lines of an unknown section raise;
* `#ifdef/#ifndef TAG` … `#else` … `#endif` set `current_meta`, nesting raises, `#define` is ignored,
  other pragmas raise, an open guard at end of file raises;
* `[ atoms ]`: >= 6 tokens, index >= 1 and unique, node key = index-1, optional charge then mass;
* interaction lines are split into atoms/parameters by the per-section table `atom_idxs`
  (`strict n` = n single indices (too few tokens raise), `slice n` = `slice(0, n)`, `all`, `vsn` =
  `[0, slice(2, None)]`); atom references must be 1-based numbers into the atom list as it was when the
  `atoms` section ended; `cmap` lines are skipped (vermouth registers `_skip` last);
* interactions are appended per section name in file order.

Abstractions (trusted, exercised by the correspondence): `int()`/`float()` of a token are modelled by
`String.toNat?` for indices, resid, charge group, nrexcl (Python additionally accepts signs and rejects
`_`) and by the identity for charge/mass; one moleculetype per file.
-/
namespace PolyplyVerif.ItpIO

abbrev Tok := String

/-- `#ifdef TAG` / `#ifndef TAG` guard of an interaction (`current_meta` of the readers) -/
inductive Guard where
  | none
  | ifdef (tag : Tok)
  | ifndef (tag : Tok)
deriving Repr, DecidableEq

/-- an atom (node) of the molecule that is written -/
structure Atom where
  key : Nat
  atomid : Option Nat
  name : Tok
  atype : Tok
  resid : Nat
  resname : Tok
  cgnr : Nat
  charge : Option Tok
  mass : Option Tok
deriving Repr, DecidableEq

/-- an interaction of the molecule that is written: atoms are node keys; `ifdef`, `ifndef`, `group`,
`comment` are the meta entries the writer looks at -/
structure Ixn where
  atoms : List Nat
  params : List Tok
  ifdef : Option Tok
  ifndef : Option Tok
  group : Option String
  comment : Option String
deriving Repr, DecidableEq

/-- `molecule.nodes` in insertion order, `molecule.interactions` (a dict: section names are distinct)
in insertion order -/
structure Mol where
  nrexcl : Nat
  atoms : List Atom
  sections : List (String × List Ixn)
deriving Repr

/-- one line of an .itp file after lexing -/
inductive Line where
  | comment (text : String)                        -- `; text`
  | blank
  | header (name : String)                         -- `[ name ]`, name stripped and casefolded
  | pragma (toks : List Tok)                       -- a line starting with `#`
  | data (toks : List Tok) (comment : Option String)
  | bad (text : String)                            -- `[` without closing `]`
deriving Repr, DecidableEq

/-! ## Small list helpers -/

/-- consecutive runs of equal keys (`itertools.groupby`) -/
def runs {α κ : Type} [DecidableEq κ] (key : α → κ) : List α → List (κ × List α)
  | [] => []
  | a :: l =>
    match runs key l with
    | (k, g) :: rest => if key a = k then (k, a :: g) :: rest else (key a, [a]) :: (k, g) :: rest
    | [] => [(key a, [a])]

/-- lexicographic `≤` on lists of naturals (Python tuple comparison) -/
def listLe : List Nat → List Nat → Bool
  | [], _ => true
  | _ :: _, [] => false
  | a :: as, b :: bs => a < b || (a == b && listLe as bs)

/-- first occurrences, in order -/
def firstOcc {α : Type} [DecidableEq α] : List α → List α
  | [] => []
  | a :: l => a :: (firstOcc l).filter (fun b => b ≠ a)

/-- position of the first element satisfying `p` (length if none) -/
def posWhere {α : Type} (p : α → Bool) : List α → Nat
  | [] => 0
  | a :: l => if p a then 0 else posWhere p l + 1

/-! ## Writer -/

/-- `key=lambda n: nodes[n].get('atomid', inf)` compared with `<=` -/
def atomidLe (a b : Option Nat) : Bool :=
  match a, b with
  | _, none => true
  | none, some _ => false
  | some x, some y => x ≤ y

/-- `Molecule.sorted_nodes` -/
def sortedNodes (m : Mol) : List Atom := m.atoms.mergeSort (fun a b => atomidLe a.atomid b.atomid)

/-- 0-based position of node `k` in the written order (`correspondence[k] - 1`) -/
def posOf (ns : List Atom) (k : Nat) : Nat := posWhere (fun a => a.key == k) ns

def hasKey (ns : List Atom) (k : Nat) : Bool := ns.any (fun a => a.key == k)

/-- `s.startswith(p)` (on character lists, so that it reduces in the kernel) -/
def hasPrefix (p s : String) : Bool := p.toList.isPrefixOf s.toList

def isUnordered (name : String) : Bool := hasPrefix "bond" name || hasPrefix "pair" name
def isAngleLike (name : String) : Bool := hasPrefix "angle" name
def isDihedralLike (name : String) : Bool := hasPrefix "dihedral" name

/-- `_sort_atoms(atoms, name)` -/
def sortAtoms (name : String) (atoms : List Nat) : List Nat :=
  if isUnordered name then atoms.mergeSort (fun a b => a ≤ b)
  else if isAngleLike name then
    (if atoms.headD 0 < atoms.getLastD 0 then atoms else atoms.reverse)
  else if isDihedralLike name then
    (if atoms.getD 1 0 < atoms.getD 2 0 then atoms else atoms.reverse)
  else atoms

/-- fewest atoms for which `_sort_atoms` / `_sort_interaction` do not raise (`atoms[0]`, `atoms[-1]`,
`atoms[1]`, `atoms[2]`, `min(atoms)`) -/
def minAtoms (name : String) : Nat :=
  if isUnordered name then 1 else if isAngleLike name then 2 else if isDihedralLike name then 3 else 1

/-- `_sort_interaction(atoms, name)` as a comparison: `(atoms[1] | min(atoms), tuple(atoms))` -/
def ixnSortKey (name : String) (atoms : List Nat) : Nat × List Nat :=
  (if isAngleLike name then atoms.getD 1 0 else atoms.foldl min (atoms.headD 0), atoms)

def ixnKeyLe (a b : Nat × List Nat) : Bool := a.1 < b.1 || (a.1 == b.1 && listLe a.2 b.2)

/-- `_interaction_sorting_key`: `(conditional, group)`; `ifdef` gives `(tag, True)`, `ifndef`
`(tag, False)`, a missing group is `''` -/
structure GKey where
  cond : Option (Tok × Bool)
  group : String
deriving Repr, DecidableEq

def Ixn.gkey (x : Ixn) : GKey :=
  { cond := match x.ifdef, x.ifndef with
      | some t, _ => some (t, true)
      | none, some t => some (t, false)
      | none, none => none,
    group := x.group.getD "" }

def condLe (a b : Option (Tok × Bool)) : Bool :=
  match a, b with
  | none, _ => true
  | some _, none => false
  | some (t, c), some (u, d) => t < u || (t == u && (!c || d))

def gkeyLe (a b : GKey) : Bool :=
  if a.cond = b.cond then decide (a.group ≤ b.group) else condLe a.cond b.cond

/-- the guard an interaction is written under (only meaningful when not both are set) -/
def Ixn.guard (x : Ixn) : Guard :=
  match x.ifdef, x.ifndef with
  | some t, _ => .ifdef t
  | none, some t => .ifndef t
  | none, none => .none

def guardOfCond : Option (Tok × Bool) → Guard
  | none => .none
  | some (t, true) => .ifdef t
  | some (t, false) => .ifndef t

def natTok (n : Nat) : Tok := Nat.repr n

/-- the written atom indices of an interaction: `_sort_atoms(map(correspondence.get, atoms), name)` -/
def writtenAtoms (ns : List Atom) (name : String) (x : Ixn) : List Nat :=
  sortAtoms name (x.atoms.map (fun k => posOf ns k + 1))

def ixnLine (ns : List Atom) (name : String) (x : Ixn) : Line :=
  let atoms := (writtenAtoms ns name x).map natTok
  let toks := if name = "virtual_sitesn" then atoms.take 1 ++ x.params ++ atoms.drop 1 else atoms ++ x.params
  .data toks x.comment

def headerName (name : String) : String := if name = "impropers" then "dihedrals" else name

/-- one `(conditional, group)` group of a section -/
def groupLines (ns : List Atom) (name : String) (k : GKey) (g : List Ixn) : List Line :=
  let sorted := g.mergeSort (fun a b => ixnKeyLe (ixnSortKey name (writtenAtoms ns name a))
                                                 (ixnSortKey name (writtenAtoms ns name b)))
  (match k.cond with
    | some (t, c) => [Line.pragma [if c then "#ifdef" else "#ifndef", t]]
    | none => []) ++
  (if k.group = "" then [] else [Line.comment k.group]) ++
  sorted.map (ixnLine ns name) ++
  (match k.cond with | some _ => [Line.pragma ["#endif"]] | none => []) ++
  [Line.blank]

def sectionGroups (ixns : List Ixn) : List (GKey × List Ixn) :=
  runs Ixn.gkey (ixns.mergeSort (fun a b => gkeyLe a.gkey b.gkey))

def sectionLines (ns : List Atom) (s : String × List Ixn) : List Line :=
  Line.header (headerName s.1) :: (sectionGroups s.2).flatMap (fun kg => groupLines ns s.1 kg.1 kg.2)

def secKeyLe (a b : String × List Ixn) : Bool :=
  let ka := (a.2.head?.map (fun x => x.atoms.length)).getD 0
  let kb := (b.2.head?.map (fun x => x.atoms.length)).getD 0
  ka < kb || (ka == kb && decide (a.1 ≤ b.1))

/-- `Molecule.sort_interactions` -/
def sortSections (secs : List (String × List Ixn)) : List (String × List Ixn) :=
  (secs.filter (fun s => !s.2.isEmpty)).mergeSort secKeyLe

def atomLine (a : Atom) (i : Nat) : Line :=
  .data ([natTok (i + 1), a.atype, natTok a.resid, a.resname, a.name, natTok a.cgnr]
          ++ a.charge.toList ++ a.mass.toList) none

def atomLinesFrom (i : Nat) : List Atom → List Line
  | [] => []
  | a :: l => atomLine a i :: atomLinesFrom (i + 1) l

/-- what makes the real writer raise on an interaction -/
def ixnWritable (ns : List Atom) (name : String) (x : Ixn) : Bool :=
  !(x.ifdef.isSome && x.ifndef.isSome) && x.atoms.all (hasKey ns) && minAtoms name ≤ x.atoms.length

def headerLines (header : List String) : List Line :=
  if header.isEmpty then [] else header.map Line.comment ++ [Line.blank]

/-- `write_molecule_itp(molecule, outfile, header=header, moltype=moltype)` -/
def writeItp (header : List String) (moltype : Tok) (m : Mol) : Except String (List Line) :=
  let ns := sortedNodes m
  let secs := sortSections m.sections
  if ns.isEmpty then .error "no atoms (max() of an empty sequence)"
  else if !(secs.all (fun s => s.2.all (ixnWritable ns s.1))) then .error "interaction cannot be written"
  else .ok (headerLines header ++
            [Line.header "moleculetype", Line.data [moltype, natTok m.nrexcl] none, Line.blank,
             Line.header "atoms"] ++ atomLinesFrom 0 ns ++ [Line.blank] ++
            secs.flatMap (sectionLines ns))

/-- the header `gen_params` hands to the writer: the command line (written with a trailing newline,
i.e. followed by an empty line), the request to cite, one line per citation -/
def genParamsHeaderLines (argv : String) (cites : List String) : List Line :=
  [Line.comment argv, Line.blank, Line.comment "Please cite the following papers:"] ++
    cites.map Line.comment ++ [Line.blank]

/-- same as `writeItp` but with the header exactly as `gen_params` builds it -/
def writeGenParams (argv : String) (cites : List String) (moltype : Tok) (m : Mol) : Except String (List Line) :=
  match writeItp [] moltype m with
  | .ok body => .ok (genParamsHeaderLines argv cites ++ body)
  | .error e => .error e

/-! ## Reader -/

structure RAtom where
  key : Nat
  name : Tok
  atype : Tok
  resid : Nat
  resname : Tok
  cgnr : Nat
  charge : Option Tok
  mass : Option Tok
deriving Repr, DecidableEq

structure RIxn where
  atoms : List Nat
  params : List Tok
  guard : Guard
deriving Repr, DecidableEq

/-- the block a reader registers in the force field -/
structure Block where
  name : Tok
  nrexcl : Nat
  atoms : List RAtom
  sections : List (String × List RIxn)
deriving Repr, DecidableEq

def Block.ixnsOf (b : Block) (s : String) : List RIxn :=
  match b.sections.find? (fun p => p.1 == s) with
  | some p => p.2
  | none => []

/-- how a section splits a token line into atoms and parameters (`ITPDirector.atom_idxs`) -/
inductive Split where
  | strict (n : Nat)
  | slice (n : Nat)
  | all
  | vsn
  | skip
deriving Repr, DecidableEq

/-- sub-sections of `moleculetype` the vermouth reader registers, with their split rule; `none` means
registered but without an `atom_idxs` entry (lines raise) -/
def splitTable : List (String × Option Split) :=
  [("bonds", some (.strict 2)), ("angles", some (.strict 3)), ("dihedrals", some (.strict 4)),
   ("impropers", none), ("constraints", some (.strict 2)), ("pairs", some (.strict 2)),
   ("exclusions", some .all), ("virtual_sites1", some (.strict 1)), ("virtual_sites2", some (.strict 3)),
   ("virtual_sites3", some (.strict 4)), ("virtual_sites4", some (.slice 5)), ("virtual_sitesn", some .vsn),
   ("position_restraints", some (.strict 1)), ("pairs_nb", some (.strict 2)), ("settles", some (.strict 1)),
   ("distance_restraints", some (.strict 2)), ("dihedral_restraints", some (.slice 4)),
   ("orientation_restraints", some (.strict 2)), ("angle_restraints", some (.slice 4)),
   ("angle_restraints_z", some (.strict 2)), ("cmap", some .skip)]

def lookupSplit (name : String) : Option (Option Split) :=
  (splitTable.find? (fun p => p.1 == name)).map (·.2)

/-- sub-sections polyply's `TOPDirector` passes on to the itp reader (its `_molecule` decorators) -/
def topSections : List String :=
  ["atoms", "bonds", "angles", "dihedrals", "impropers", "constraints", "pairs", "exclusions",
   "virtual_sites1", "virtual_sites2", "virtual_sites3", "virtual_sites4", "virtual_sitesn",
   "position_restraints", "pairs_nb", "settles", "distance_restraints", "orientation_restraints",
   "dihedral_restraints", "angle_restraints", "angle_restraints_z"]

inductive Sec where
  | top                      -- before any `[ moleculetype ]`
  | mt                       -- `[ moleculetype ]`
  | atoms
  | sub (name : String)      -- a registered interaction section
  | lost                     -- an unregistered section: data lines raise
deriving Repr, DecidableEq

structure RState where
  sec : Sec
  started : Bool
  name : Option Tok
  nrexcl : Nat
  atoms : List RAtom
  atomNames : List Nat
  guard : Guard
  sections : List (String × List RIxn)
deriving Repr, DecidableEq

def RState.init : RState :=
  { sec := .top, started := false, name := none, nrexcl := 0, atoms := [], atomNames := [],
    guard := .none, sections := [] }

/-- `context.interactions[section] = context.interactions.get(section, []) + [interaction]` -/
def addIxn (secs : List (String × List RIxn)) (name : String) (x : RIxn) : List (String × List RIxn) :=
  match secs with
  | [] => [(name, [x])]
  | (n, l) :: rest => if n = name then (n, l ++ [x]) :: rest else (n, l) :: addIxn rest name x

/-- `_split_atoms_and_parameters` -/
def splitToks (sp : Split) (toks : List Tok) : Except String (List Tok × List Tok) :=
  match sp with
  | .strict n => if toks.length < n then .error "too few tokens" else .ok (toks.take n, toks.drop n)
  | .slice n => .ok (toks.take n, toks.drop n)
  | .all => .ok (toks, [])
  | .vsn => if toks.length < 1 then .error "too few tokens" else .ok (toks.take 1 ++ toks.drop 2, (toks.drop 1).take 1)
  | .skip => .ok ([], [])

/-- `_treat_block_interaction_atoms` for one reference -/
def resolveRef (atomNames : List Nat) (t : Tok) : Except String Nat :=
  match t.toNat? with
  | some n => if n < 1 then .error "atom reference < 1" else
      match atomNames[n - 1]? with
      | some k => .ok k
      | none => .error "atom reference out of range"
  | none => .error "atom name reference not found"

def parseAtom (toks : List Tok) : Except String RAtom :=
  match toks with
  | idx :: atype :: resid :: resname :: name :: cgnr :: rest =>
    match idx.toNat?, resid.toNat?, cgnr.toNat? with
    | some i, some r, some c =>
      if i < 1 then .error "atom index < 1"
      else .ok { key := i - 1, name := name, atype := atype, resid := r, resname := resname, cgnr := c,
                 charge := rest.head?, mass := (rest.drop 1).head? }
    | _, _, _ => .error "not a number"
  | _ => .error "too few atom fields"

/-- `parse_header`: where a `[ name ]` line leads, and whether the `atoms` section ended -/
def enterSection (st : RState) (name : String) : Except String RState :=
  if name = "moleculetype" then
    if st.started then .error "second moleculetype (outside the model)"
    else .ok { st with sec := .mt, started := true }
  else
    let st' := if st.sec = .atoms then { st with atomNames := st.atoms.map (·.key) } else st
    match st.sec with
    | .top | .lost => .ok { st' with sec := .lost }
    | _ =>
      if name = "atoms" then .ok { st' with sec := .atoms }
      else if (lookupSplit name).isSome then .ok { st' with sec := .sub name }
      else .ok { st' with sec := .lost }

def stepPragma (st : RState) (toks : List Tok) : Except String RState :=
  match toks with
  | ["#endif"] =>
    if st.guard = .none then .error "#endif without #ifdef" else .ok { st with guard := .none }
  | ["#ifdef", tag] =>
    if st.guard = .none then .ok { st with guard := .ifdef tag } else .error "nested #ifdef"
  | ["#ifndef", tag] =>
    if st.guard = .none then .ok { st with guard := .ifndef tag } else .error "nested #ifdef"
  | t :: rest =>
    if hasPrefix "#else" t then
      match st.guard with
      | .none => .error "#else without #ifdef"
      | .ifdef tag => .ok { st with guard := .ifndef tag }
      | .ifndef tag => .ok { st with guard := .ifdef tag }
    else if hasPrefix "#define" t then .ok st
    else if (hasPrefix "#ifdef" t || hasPrefix "#ifndef" t) && st.guard = .none && rest.length = 1 then
      -- `condition, tag = line.split()`; condition keeps whatever follows `#`
      .error "glued pragma (outside the model)"
    else .error "unknown pragma"
  | [] => .error "unknown pragma"

def stepData (st : RState) (toks : List Tok) : Except String RState :=
  match st.sec with
  | .top | .lost => .error "data line in unknown section"
  | .mt =>
    match toks with
    | [name, nrexcl] =>
      match nrexcl.toNat? with
      | some n => .ok { st with name := some name, nrexcl := n }
      | none => .error "nrexcl is not a number"
    | _ => .error "moleculetype line needs two fields"
  | .atoms =>
    match parseAtom toks with
    | .ok a =>
      if st.atoms.any (fun b => b.key == a.key) then .error "duplicate atom index"
      else .ok { st with atoms := st.atoms ++ [a] }
    | .error e => .error e
  | .sub name =>
    match lookupSplit name with
    | some (some .skip) => .ok st
    | some (some sp) =>
      match splitToks sp toks with
      | .ok (atomToks, params) =>
        match atomToks.mapM (resolveRef st.atomNames) with
        | .ok atoms => .ok { st with sections := addIxn st.sections name ⟨atoms, params, st.guard⟩ }
        | .error e => .error e
      | .error e => .error e
    | _ => .error "section without atom_idxs"

def step (st : RState) (l : Line) : Except String RState :=
  match l with
  | .comment _ => .ok st
  | .blank => .ok st
  | .bad _ => .error "misformatted section header"
  | .header name => enterSection st name
  | .pragma toks => stepPragma st toks
  | .data toks _ => stepData st toks

def readLines (st : RState) : List Line → Except String RState
  | [] => .ok st
  | l :: ls =>
    match step st l with
    | .ok st' => readLines st' ls
    | .error e => .error e

def finish (st : RState) : Except String Block :=
  if st.guard ≠ .none then .error "unterminated #ifdef"
  else match st.started, st.name with
    | true, some n => .ok { name := n, nrexcl := st.nrexcl, atoms := st.atoms, sections := st.sections }
    | _, _ => .error "no moleculetype"

/-- `read_itp(lines, force_field)` then `force_field.blocks[name]` (as `MetaMolecule.from_itp` does) -/
def readItp (lines : List Line) : Except String Block :=
  match readLines RState.init lines with
  | .ok st => finish st
  | .error e => .error e

/-- `TOPDirector` on a file that holds one moleculetype: comment/empty lines are dropped, everything
from `[ moleculetype ]` on is collected (pragmas included) and handed to `read_itp`; pragmas before the
first moleculetype are handled by the topology reader itself (`#define` stored, `#ifdef … #endif`
tracked); data lines there raise; only sections registered by `TOPDirector` may carry data lines. -/
def topCollect : Bool → Sec → List Line → Except String (List Line)
  | _, _, [] => .ok []
  | inMol, sec, l :: ls =>
    match l with
    | .comment _ | .blank => topCollect inMol sec ls
    | .bad _ => .error "misformatted section header"
    | .header name =>
      if name = "moleculetype" then (topCollect true .mt ls).map (l :: ·)
      else if inMol then
        let sec' := if topSections.contains name then Sec.sub name else Sec.lost
        (topCollect true sec' ls).map (l :: ·)
      else .error "section outside moleculetype (outside the model)"
    | .pragma _ => if inMol then (topCollect inMol sec ls).map (l :: ·) else topCollect inMol sec ls
    | .data toks _ =>
      if inMol then
        if sec = .lost then .error "section unknown to TOPDirector"
        else (topCollect inMol sec ls).map (Line.data toks none :: ·)
      else .error "data line outside a section"

/-- `Topology.from_gmx_topfile` on `#include "file.itp"` restricted to what concerns the block -/
def readViaTop (lines : List Line) : Except String Block :=
  match topCollect false .top lines with
  | .ok ls => readItp ls
  | .error e => .error e

/-! ## Specification side: the molecule as it must come back -/

def canonAtomsFrom (i : Nat) : List Atom → List RAtom
  | [] => []
  | a :: l => ⟨i, a.name, a.atype, a.resid, a.resname, a.cgnr, a.charge, a.mass⟩ :: canonAtomsFrom (i + 1) l

/-- atoms in written order, keyed 0..n-1 -/
def canonAtoms (m : Mol) : List RAtom := canonAtomsFrom 0 (sortedNodes m)

/-- the interaction as vermouth writes it: node keys replaced by 0-based positions, atoms in the
writer's canonical order, parameters, guard -/
def canonIxn (ns : List Atom) (name : String) (x : Ixn) : RIxn :=
  ⟨(writtenAtoms ns name x).map (· - 1), x.params, x.guard⟩

/-- all interactions that end up under the file section `s` -/
def canonIxns (m : Mol) (s : String) : List RIxn :=
  (m.sections.filter (fun p => headerName p.1 = s)).flatMap
    (fun p => p.2.map (canonIxn (sortedNodes m) p.1))

/-- the plain interaction: positions in the order the molecule holds them -/
def plainIxn (ns : List Atom) (x : Ixn) : RIxn := ⟨x.atoms.map (posOf ns), x.params, x.guard⟩

def plainIxns (m : Mol) (s : String) : List RIxn :=
  (m.sections.filter (fun p => headerName p.1 = s)).flatMap (fun p => p.2.map (plainIxn (sortedNodes m)))

/-- the file sections a molecule populates, in first-appearance order -/
def canonSectionNames (m : Mol) : List String :=
  firstOcc (((m.sections.filter (fun s => !s.2.isEmpty)).map (fun s => headerName s.1)))

/-- which re-orderings of the atoms leave an interaction of file section `s` the same interaction:
bonds and pairs are unordered; angles, proper and improper dihedrals, angle and dihedral restraints
are invariant under reversal; every other section is positional (a constraint is physically unordered
too, but the writer never reorders it, so nothing weaker is needed). `angle_restraints_z` (the angle
between the vector i->j and the z axis) is NOT invariant under reversal. -/
inductive Symmetry where
  | unordered
  | reversal
  | positional
deriving Repr, DecidableEq

def symmetryOf (s : String) : Symmetry :=
  if s = "bonds" || s = "pairs" || s = "pairs_nb" then .unordered
  else if s = "angles" || s = "dihedrals" || s = "angle_restraints" || s = "dihedral_restraints" then .reversal
  else .positional

def sameAtoms (s : String) (a b : List Nat) : Bool :=
  match symmetryOf s with
  | .unordered => a.isPerm b
  | .reversal => a == b || a == b.reverse
  | .positional => a == b

def sameIxn (s : String) (x y : RIxn) : Bool :=
  sameAtoms s x.atoms y.atoms && x.params == y.params && decide (x.guard = y.guard)

/-- element-wise relation of two lists of equal length -/
inductive AllRel {α β : Type} (r : α → β → Prop) : List α → List β → Prop where
  | nil : AllRel r [] []
  | cons {a : α} {b : β} {as : List α} {bs : List β} : r a b → AllRel r as bs → AllRel r (a :: as) (b :: bs)

/-- `ys` is `xs` as a multiset, up to `rel` -/
def SameUpTo {α : Type} (rel : α → α → Bool) (xs ys : List α) : Prop :=
  ∃ l, ys.Perm l ∧ AllRel (fun x y => rel x y = true) xs l

/-- remove the first element related to `x` -/
def eraseRel {α : Type} (rel : α → α → Bool) (x : α) : List α → Option (List α)
  | [] => none
  | y :: ys => if rel x y then some ys else (eraseRel rel x ys).map (y :: ·)

/-- multiset equality up to `rel` (greedy; exact for equivalence relations) -/
def matchUpTo {α : Type} (rel : α → α → Bool) : List α → List α → Bool
  | [], ys => ys.isEmpty
  | x :: xs, ys =>
    match eraseRel rel x ys with
    | some ys' => matchUpTo rel xs ys'
    | none => false

/-- THE ORACLE of the round trip: is block `b` (what the reader returned) the molecule `m` (what was
built)?  Atoms: same list of (name, type, resid, resname, charge group, charge, mass) keyed 0..n-1;
interactions: per file section the same multiset of (atoms up to the section's symmetry, parameters,
guard); no other sections. -/
def sameMolecule (m : Mol) (b : Block) : Bool :=
  b.atoms == canonAtoms m &&
  (canonSectionNames m).all (fun s => matchUpTo (sameIxn s) (plainIxns m s) (b.ixnsOf s)) &&
  b.sections.all (fun p => p.2.isEmpty || (canonSectionNames m).contains p.1)

/-- well-formedness of a molecule at token level: what the writer/reader pair needs -/
def arityOk (name : String) (x : Ixn) : Bool :=
  match lookupSplit (headerName name) with
  | some (some (.strict n)) => x.atoms.length == n
  | some (some (.slice n)) => x.atoms.length == n
  | some (some .all) => x.params.isEmpty && 1 ≤ x.atoms.length
  | some (some .vsn) => x.params.length == 1 && 1 ≤ x.atoms.length
  | _ => false

def Atom.fieldsOk (a : Atom) : Bool := a.charge.isSome || a.mass.isNone

structure WF (m : Mol) : Prop where
  atoms_ne : m.atoms ≠ []
  keys_nodup : (m.atoms.map (·.key)).Nodup
  fields : ∀ a ∈ m.atoms, a.fieldsOk = true
  names_nodup : (m.sections.map (·.1)).Nodup
  refs : ∀ s ∈ m.sections, ∀ x ∈ s.2, ∀ k ∈ x.atoms, hasKey m.atoms k = true
  one_guard : ∀ s ∈ m.sections, ∀ x ∈ s.2, ¬ (x.ifdef.isSome ∧ x.ifndef.isSome)
  arity : ∀ s ∈ m.sections, ∀ x ∈ s.2, arityOk s.1 x = true

/-- executable form of `WF` (for the driver; `Proofs/ItpIO.lean` shows `wfB m = true → WF m`) -/
def wfB (m : Mol) : Bool :=
  !m.atoms.isEmpty && decide ((m.atoms.map (·.key)).Nodup) && m.atoms.all Atom.fieldsOk &&
  decide ((m.sections.map (·.1)).Nodup) &&
  m.sections.all (fun s => s.2.all (fun x =>
    x.atoms.all (hasKey m.atoms) && !(x.ifdef.isSome && x.ifndef.isSome) && arityOk s.1 x))

/-- the one section where the writer's re-ordering (`_sort_atoms` reverses every `angle…` section whose
first atom index exceeds the last) is not a symmetry of the interaction: `angle_restraints_z i j` is the
angle of the vector i->j with the z axis.  `zOrdered` = the writer leaves these interactions alone. -/
def zOrdered (m : Mol) : Bool :=
  m.sections.all (fun s => s.1 != "angle_restraints_z" ||
    s.2.all (fun x => sortAtoms s.1 (x.atoms.map (fun k => posOf (sortedNodes m) k + 1))
                        == x.atoms.map (fun k => posOf (sortedNodes m) k + 1)))

/-- why a molecule is not well formed (diagnostics for the harness; empty iff `wfB`) -/
def wfWhy (m : Mol) : List String :=
  (if m.atoms.isEmpty then ["no-atoms"] else []) ++
  (if decide ((m.atoms.map (·.key)).Nodup) then [] else ["duplicate-keys"]) ++
  (if m.atoms.all Atom.fieldsOk then [] else ["mass-without-charge"]) ++
  (if decide ((m.sections.map (·.1)).Nodup) then [] else ["duplicate-section"]) ++
  m.sections.flatMap (fun s =>
    (if s.2.all (fun x => x.atoms.all (hasKey m.atoms)) then [] else ["dangling-atom:" ++ s.1]) ++
    (if s.2.all (fun x => !(x.ifdef.isSome && x.ifndef.isSome)) then [] else ["both-guards:" ++ s.1]) ++
    (if s.2.all (fun x => arityOk s.1 x) then [] else
      [(match lookupSplit (headerName s.1) with
        | some (some .skip) | some none | none => "unreadable-section:"
        | _ => "arity:") ++ s.1]))

/-- the built molecule as a block (for evaluating graph hypotheses on what was built) -/
def canonBlock (moltype : Tok) (m : Mol) : Block :=
  { name := moltype, nrexcl := m.nrexcl, atoms := canonAtoms m,
    sections := (canonSectionNames m).map (fun s => (s, canonIxns m s)) }

/-! ## Residue graph of a (re-read) block -/

/-- `_make_edges`: edges between consecutive atoms of every bond and constraint (`block.interactions`
is a dict, so each of the two sections occurs once; the order of the edges is irrelevant) -/
def atomEdges (b : Block) : List (Nat × Nat) :=
  (b.ixnsOf "bonds" ++ b.ixnsOf "constraints").flatMap (fun x => x.atoms.zip x.atoms.tail)

/-- residues in order of first appearance (= partitions sorted by their lowest atom index) -/
def residues (b : Block) : List (Nat × Tok) := firstOcc (b.atoms.map (fun a => (a.resid, a.resname)))

def resOfKey (b : Block) (k : Nat) : Option (Nat × Tok) :=
  (b.atoms.find? (fun a => a.key == k)).map (fun a => (a.resid, a.resname))

structure RGNode where
  idx : Nat
  resid : Nat
  resname : Tok
deriving Repr, DecidableEq

structure ResGraph where
  nodes : List RGNode
  edges : List (Nat × Nat)
deriving Repr

def nodesFrom (i : Nat) : List (Nat × Tok) → List RGNode
  | [] => []
  | r :: l => ⟨i, r.1, r.2⟩ :: nodesFrom (i + 1) l

/-- `make_residue_graph(block, attrs=('resid','resname'))`: node `i` is the i-th residue; an edge for
every atom edge that joins two different residues -/
def resGraphOf (b : Block) : ResGraph :=
  let rs := residues b
  { nodes := nodesFrom 0 rs,
    edges := (atomEdges b).filterMap (fun e =>
      match resOfKey b e.1, resOfKey b e.2 with
      | some r1, some r2 => if r1 = r2 then none else some (posWhere (· == r1) rs, posWhere (· == r2) rs)
      | _, _ => none) }

/-- the requested residue graph: nodes `(resid, resname)`, edges as resid pairs -/
structure ReqGraph where
  nodes : List (Nat × Tok)
  edges : List (Nat × Nat)
deriving Repr

def ResGraph.adj (g : ResGraph) (i j : Nat) : Prop := (i, j) ∈ g.edges ∨ (j, i) ∈ g.edges
def ReqGraph.adj (g : ReqGraph) (r s : Nat) : Prop := (r, s) ∈ g.edges ∨ (s, r) ∈ g.edges

/-- `resid` is an isomorphism from `R` onto `G` that preserves residue names -/
def IsoByResid (R : ResGraph) (G : ReqGraph) : Prop :=
  (∀ p, p ∈ R.nodes.map (fun n => (n.resid, n.resname)) ↔ p ∈ G.nodes) ∧
  (R.nodes.map (·.resid)).Nodup ∧
  (∀ n₁ ∈ R.nodes, ∀ n₂ ∈ R.nodes, R.adj n₁.idx n₂.idx ↔ G.adj n₁.resid n₂.resid)

/-- executable version for the oracle -/
def isoByResidB (R : ResGraph) (G : ReqGraph) : Bool :=
  let rn := R.nodes.map (fun n => (n.resid, n.resname))
  rn.all (G.nodes.contains ·) && G.nodes.all (rn.contains ·) &&
  decide ((R.nodes.map (·.resid)).Nodup) &&
  R.nodes.all (fun n₁ => R.nodes.all (fun n₂ =>
    (R.edges.contains (n₁.idx, n₂.idx) || R.edges.contains (n₂.idx, n₁.idx)) ==
    (G.edges.contains (n₁.resid, n₂.resid) || G.edges.contains (n₂.resid, n₁.resid))))

/-! ## `gen_params` after link application (the success half of C20) -/

/-- the stages `gen_params` runs once `ApplyLinks` has returned -/
inductive Stage where
  | modifications | missingLinks | header | write | flush
deriving Repr, DecidableEq

def tailStages : List Stage := [.modifications, .missingLinks, .header, .write, .flush]

/-- citation header: keys the citation map does not define are skipped (this is the repaired
behaviour; before, a missing key raised `KeyError` and nothing was written); `fmt` is
`citation_formatter`, which may raise on a malformed entry -/
def citeLines (cmap : List (String × String)) (fmt : String → Except String String) :
    List String → Except String (List String)
  | [] => .ok []
  | c :: cs =>
    match cmap.find? (fun p => p.1 == c) with
    | none => citeLines cmap fmt cs
    | some p =>
      match fmt p.2 with
      | .ok s => (citeLines cmap fmt cs).map (s :: ·)
      | .error e => .error e

abbrev FS := List (String × List Line)

def FS.get (fs : FS) (path : String) : Option (List Line) := (fs.find? (fun p => p.1 == path)).map (·.2)

/-- `gen_params` from the end of link application on: (no modifications requested), report missing
links (warnings only), build the header, write to the deferred file, flush it to `out` -/
def genParamsTail (fs : FS) (out : String) (argv : String) (moltype : Tok) (m : Mol)
    (citations : List String) (cmap : List (String × String)) (fmt : String → Except String String) :
    Except String FS :=
  match citeLines cmap fmt citations with
  | .error e => .error e
  | .ok cites =>
    match writeGenParams argv cites moltype m with
    | .error e => .error e
    | .ok lines => .ok ((out, lines) :: fs.filter (fun p => p.1 != out))

end PolyplyVerif.ItpIO
