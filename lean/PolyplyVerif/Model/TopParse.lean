/-
Model of `polyply/src/top_parser.py` (`TOPDirector`, `read_topology`) on top of vermouth's
`LineParser.parse` / `SectionLineParser` (`split_comments`, `dispatch`, `parse_header`, `parse_section`).
Core Lean only.

What is mirrored
* the tokenizer: a raw line is cut at the first `;`, stripped, skipped when empty; everything the reader
  looks at afterwards is the whitespace-separated token list (and the first / last character);
* `dispatch`: `#` -> pragma, `*` -> star comment, `[`...`]` -> header (`[` without `]` -> error), else content;
* `parse_top_pragma` with its order of tests (`== '#endif'`, `startswith('#else')`, `startswith('#ifdef' /
  '#ifndef')`, `#define / #include / #error`, else error), including the fact that `#ifdef/#else/#endif`
  are appended to `current_itp` whenever that list is non-empty (i.e. anywhere after a `[ moleculetype ]`
  header of the same file) while `#define/#include/#error` are always executed;
* `parse_header`: `section + [name]`, dropping the second-to-last entry until the path is a known section
  (the TRANSLATED decorator table `Tables.Top.sections` + vermouth's `('macros',)`), `_new_itp` on
  `('moleculetype',)`, the header line appended to `current_itp` whenever it is not `None`;
* the section handlers `_defaults` (names, numbered names and the inserted `gen-pairs` default are the TRANSLATED
  `Tables.Top.defaultNames / defaultNumbered / genPairsDefault`), `_atomtypes` (field order and float fields are the
  TRANSLATED `Tables.Top.atomTypeFields / atomTypeFloats`), `_nonbond_params`, `_type_params` (atoms/parameters split
  by the TRANSLATED `atom_idxs`), `_molecules`, `_molecule`, `_system`, `_skip`;
* literals kept here because `Proofs/C08Flatten*.lean` unfold them — `inverseCond`, the three executed pragmas of
  `doPragma`, `;` in `stripComment`, `["moleculetype"]` in `doHeader` — are tied to the translated `inverseCond`,
  `pragmaActions`, `commentChar`, `headerActions` by theorems in `Properties/C08.lean` (`C08_inverse_table`,
  `C08_pragma_actions_anchor`, `C08_pragma_dispatch`, `C08_comment_char`, `C08_header_actions_anchor`);
* `parse_include`: condition test against `topology.defines`, path = `cwdir/path`, new director per file
  (fresh section, `current_meta`, `current_itp`), `cwdir` of the child = directory of the included file;
* `parse_error`, `parse_define` (a `#define` is executed whatever `current_meta` says);
* `finalize`: open itp flushed, unclosed conditional -> error, `read_itp` per collected moleculetype,
  `[molecules]` expanded with a PER-DIRECTOR counter starting at 0.

What is a parameter / trusted
* `read_itp` (vermouth): a collected moleculetype (list of lines) is kept as is; the only thing the model
  reads from it is the block name (first token of the last line of the `moleculetype` section proper).
  Lines that vermouth's ITP reader ignores (headers of top-level sections and whatever follows them inside
  the same collected list) are cut off by `sealGroup` in the observable.
* the file system: finite map from lexically normalised path (components below the root) to raw lines;
  include depth is bounded by `fuel` (a cycle exhausts it -> error, like the real RecursionError).
* floats: numeric fields are kept as tokens (checked by `isFloatTok`), the harness applies `float()`.

The specification side is at the end of the file: `flatten` (the flattened file of the property statement),
`wellFormed` (the syntactic class of include trees for which `Properties/C08.lean` proves
`readTop = readSingle ∘ flatten` on the observables) and `expandSpec` (`[molecules]` expanded in order).
-/
import PolyplyVerif.Generated.Top

namespace PolyplyVerif.TopParse
open PolyplyVerif.Tables.Top (AtomIdx)

/-! ### tokenizer -/

def isWs (c : Char) : Bool := c == ' ' || c == '\t' || c == '\n' || c == '\r' || c == '\x0b' || c == '\x0c'

/-- `split_comments(line, ';')[0]` (before stripping) -/
def stripComment (l : List Char) : List Char := l.takeWhile (· != ';')

/-- `str.split()`: state = the word being read -/
def wordsGo : List Char → Option (List Char) → List (List Char)
  | [], none => []
  | [], some w => [w]
  | c :: cs, cur =>
    if isWs c then
      match cur with
      | none => wordsGo cs none
      | some w => w :: wordsGo cs none
    else wordsGo cs (some (cur.getD [] ++ [c]))

def words (l : List Char) : List (List Char) := wordsGo l none

/-- the tokens of a raw line (as characters); `[]` = the reader skips the line -/
def tokenizeChars (raw : List Char) : List String := (words (stripComment raw)).map String.ofList

def tokenize (raw : String) : List String := tokenizeChars raw.toList

/-! ### string helpers written over `List Char` (so that the kernel can evaluate the model on literals) -/

def startsWith (s pre : String) : Bool := pre.toList.isPrefixOf s.toList

def lowerChar (c : Char) : Char := if 'A' ≤ c ∧ c ≤ 'Z' then Char.ofNat (c.toNat + 32) else c

/-- `str.casefold()` on ASCII -/
def casefold (s : String) : String := String.ofList (s.toList.map lowerChar)

def removeChar (s : String) (c : Char) : String := String.ofList (s.toList.filter (· != c))

def dropLastN (s : String) (n : Nat) : String := String.ofList (s.toList.take (s.toList.length - n))

/-- `s.split(sep)` -/
def splitGo (sep : Char) : List Char → List Char → List (List Char)
  | [], cur => [cur]
  | c :: cs, cur => if c == sep then cur :: splitGo sep cs [] else splitGo sep cs (cur ++ [c])

def splitChar (s : String) (sep : Char) : List String := (splitGo sep s.toList []).map String.ofList

/-! ### line kinds (`dispatch`) -/

inductive Line where
  | header (name : String)
  | badHeader
  | star
  | pragma (toks : List String)
  | content (toks : List String)
deriving Repr, DecidableEq, Inhabited

def firstChar (s : String) : Option Char := s.toList.head?
def lastChar (s : String) : Option Char := s.toList.getLast?

/-- `str.strip()` of the comment-free line -/
def stripWs (l : List Char) : List Char := ((l.dropWhile isWs).reverse.dropWhile isWs).reverse

/-- `line.strip('[ ]').casefold()`: only `[`, `]` and the blank are stripped (a tab inside the brackets stays) -/
def headerNameChars (raw : List Char) : String :=
  let chars := stripWs (stripComment raw)
  let isB (c : Char) : Bool := c == '[' || c == ']' || c == ' '
  let body := ((chars.dropWhile isB).reverse.dropWhile isB).reverse
  casefold (String.ofList body)

/-- `dispatch` on a raw line; `none` = skipped (empty after removing the comment) -/
def classifyChars (raw : List Char) : Option Line :=
  let toks := tokenizeChars raw
  match toks with
  | [] => none
  | t0 :: _ =>
    if firstChar t0 == some '#' then some (.pragma toks)
    else if firstChar t0 == some '*' then some .star
    else if firstChar t0 == some '[' then
      (if (toks.getLast?.bind lastChar) == some ']' then some (.header (headerNameChars raw)) else some .badHeader)
    else some (.content toks)

def classify (raw : String) : Option Line := classifyChars raw.toList

def parseLines (raws : List String) : List Line := raws.filterMap classify

/-! ### state -/

structure Cond where
  condition : String
  tag : String
deriving Repr, DecidableEq, Inhabited

/-- a line stored in `current_itp` -/
inductive ItpLine where
  | hdr (name : String)
  | toks (l : List String)
deriving Repr, DecidableEq, Inhabited

abbrev Group := List ItpLine

structure AtomTypeRow where
  nb2 : Option String
  nb1 : Option String
  ptype : Option String
  charge : Option String
  mass : Option String
  atomNum : Option String
  bondType : Option String
deriving Repr, DecidableEq, Inhabited

structure TypeEntry where
  params : List String
  cond : Option Cond
deriving Repr, DecidableEq, Inhabited

/-- the topology object (the part the property observes) -/
structure Glob where
  /-- `topology.defines`: tag -> `none` (`True`) or the value tokens -/
  defines : List (String × Option (List String)) := []
  /-- `topology.defaults` as last assigned -/
  defaults : List (String × String) := []
  atomTypes : List (String × AtomTypeRow) := []
  /-- `nonbond_params`: unordered pair -> (func, nb1, nb2) -/
  nonbond : List ((String × String) × (String × String × String)) := []
  /-- `types[inter_type][key]` -/
  types : List (String × List (List String × List TypeEntry)) := []
  /-- every list `read_itp` was called with, in call order -/
  groups : List Group := []
  /-- names of `force_field.blocks` (existence is what `finalize` needs) -/
  blockNames : List String := []
  /-- `topology.molecules` (block names) -/
  molecules : List String := []
  /-- `mol_idx_by_name` -/
  molIdx : List (String × List Nat) := []
deriving Repr, DecidableEq, Inhabited

/-- the per-file director -/
structure Loc where
  sec : List String := []
  cond : Option Cond := none
  itp : Option Group := none
  itpLines : List Group := []
  mols : List (String × String) := []
deriving Repr, DecidableEq, Inhabited

/-! ### small dictionaries -/

def assocSet {β} (l : List (String × β)) (k : String) (v : β) : List (String × β) :=
  match l with
  | [] => [(k, v)]
  | (k', v') :: rest => if k' == k then (k, v) :: rest else (k', v') :: assocSet rest k v

def assocGet {β} (l : List (String × β)) (k : String) : Option β := (l.find? (·.1 == k)).map (·.2)

def samePair (p q : String × String) : Bool := (p.1 == q.1 && p.2 == q.2) || (p.1 == q.2 && p.2 == q.1)

def pairSet {β} (l : List ((String × String) × β)) (k : String × String) (v : β) : List ((String × String) × β) :=
  match l with
  | [] => [(k, v)]
  | (k', v') :: rest => if samePair k' k then (k', v) :: rest else (k', v') :: pairSet rest k v

def keySet {β} (l : List (List String × β)) (k : List String) (f : Option β → β) : List (List String × β) :=
  match l with
  | [] => [(k, f none)]
  | (k', v') :: rest => if k' == k then (k', f (some v')) :: rest else (k', v') :: keySet rest k f

/-! ### sections -/

/-- `METH_DICT` keys: the translated decorators plus vermouth's inherited `macros` -/
def knownSections : List (List String) := ["macros"] :: Tables.Top.sections.map (·.1)

def handlerOf (sec : List String) : Option String :=
  if sec == ["macros"] then some "_macros" else (Tables.Top.sections.find? (·.1 == sec)).map (·.2)

/-- `while tuple(section) not in METH_DICT and len(section) > 1: section.pop(-2)` -/
def shrink : Nat → List String → List String
  | 0, s => s
  | fuel + 1, s =>
    if knownSections.contains s || s.length ≤ 1 then s
    else shrink fuel ((s.take (s.length - 2)) ++ s.drop (s.length - 1))

def newSection (sec : List String) (name : String) : List String :=
  shrink (sec.length + 1) (sec ++ [name])

/-! ### number tokens -/

def isDigits (l : List Char) : Bool := !l.isEmpty && l.all Char.isDigit

/-- accepted by `float()` (the forms a topology uses): sign, digits with at most one point, exponent -/
def isFloatTok (s : String) : Bool :=
  let l := s.toList
  let l := match l with | '+' :: r => r | '-' :: r => r | _ => l
  let (mant, ex) := (l.takeWhile (fun c => c != 'e' && c != 'E'), l.dropWhile (fun c => c != 'e' && c != 'E'))
  let mantOk :=
    let ip := mant.takeWhile (· != '.')
    let fp := mant.dropWhile (· != '.')
    match fp with
    | [] => isDigits ip
    | _ :: f => (ip.all Char.isDigit) && (f.all Char.isDigit) && (!ip.isEmpty || !f.isEmpty)
  let exOk := match ex with
    | [] => true
    | _ :: e => isDigits (match e with | '+' :: r => r | '-' :: r => r | _ => e)
  mantOk && exOk

/-- accepted by `int()` -/
def isIntTok (s : String) : Bool :=
  let l := s.toList
  isDigits (match l with | '+' :: r => r | '-' :: r => r | _ => l)

/-! ### section handlers -/

/-- the locals `defaults` / `numbered_terms` of `_defaults`: the TRANSLATED lists -/
def defaultNames : List String := Tables.Top.defaultNames
def defaultNumbered : List String := Tables.Top.defaultNumbered

/-- `_defaults`; the entry appended when its name got no token is the TRANSLATED `genPairsDefault` -/
def doDefaults (toks : List String) : Except String (List (String × String)) :=
  let d := defaultNames.zip toks
  match assocGet d "nbfunc" with
  | none => .error "defaults-without-nbfunc"
  | some nb =>
    if nb == "2" then .error "buckingham"
    else if d.any (fun kv => defaultNumbered.contains kv.1 && !isFloatTok kv.2) then .error "defaults-not-a-number"
    else .ok (if (assocGet d Tables.Top.genPairsDefault.1).isSome then d else d ++ [Tables.Top.genPairsDefault])

/-- the field names `_atomtypes` zips with the REVERSED tokens (TRANSLATED) -/
def atomTypeFields : List String := Tables.Top.atomTypeFields

/-- position of a field name in `atomTypeFields` -/
def atomFieldIdx (field : String) : Option Nat :=
  let i := atomTypeFields.findIdx (· == field)
  if i < atomTypeFields.length then some i else none

/-- the positions (in the reversed token list) of the fields `_atomtypes` converts with `float()`: the indices of
the TRANSLATED `floats` inside the TRANSLATED field list -/
def atomFloatIdxs : List Nat := (List.range atomTypeFields.length).filter fun i =>
  match atomTypeFields[i]? with
  | some f => Tables.Top.atomTypeFloats.contains f
  | none => false

/-- `_atomtypes`: `(name, row)` -/
def doAtomType (toks : List String) : Except String (String × AtomTypeRow) :=
  match toks with
  | [] => .error "empty"
  | name :: rest =>
    let r := rest.reverse
    if r.length > atomTypeFields.length then
      -- the floats are converted before the "too many parameters" test; both are errors
      .error "atomtype-too-many-parameters"
    else
      let get (i : Nat) : Option String := r[i]?
      let fld (field : String) : Option String := (atomFieldIdx field).bind get
      let floats := atomFloatIdxs.map get
      if floats.any (fun v => match v with | some t => !t.isEmpty && !isFloatTok t | none => false) then
        .error "atomtype-not-a-number"
      else .ok (name, ⟨fld "nb2", fld "nb1", fld "ptype", fld "charge", fld "mass", fld "atom_num", fld "bond_type"⟩)

/-- `_nonbond_params` -/
def doNonbond (toks : List String) : Except String ((String × String) × (String × String × String)) :=
  match toks with
  | [a, b, f, x, y] =>
    if isIntTok f && isFloatTok x && isFloatTok y then .ok ((a, b), (f, x, y)) else .error "nonbond-not-a-number"
  | _ => .error "nonbond-token-count"

/-- `range(0, len)[slice(start, stop)]` -/
def sliceIdx (len : Nat) (start stop : Option Nat) : List Nat :=
  let s := min (start.getD 0) len
  let e := min (stop.getD len) len
  (List.range e).drop s

/-- insertion into a descending list (`sorted(remove, reverse=True)`) -/
def insertDesc (x : Nat) : List Nat → List Nat
  | [] => [x]
  | y :: ys => if x ≥ y then x :: y :: ys else y :: insertDesc x ys

def sortDesc (l : List Nat) : List Nat := l.foldr insertDesc []

/-- `_split_atoms_and_parameters`: `(atoms, parameters)` -/
def splitAtoms (toks : List String) (idxs : List AtomIdx) : Except String (List String × List String) :=
  let step (acc : Except String (List String × List Nat)) (ix : AtomIdx) : Except String (List String × List Nat) :=
    match acc with
    | .error e => .error e
    | .ok (atoms, remove) =>
      match ix with
      | .idx i => match toks[i]? with
        | some t => .ok (atoms ++ [t], remove ++ [i])
        | none => .error "index-out-of-range"
      | .slice s e =>
        let is := sliceIdx toks.length s e
        .ok (atoms ++ is.filterMap (toks[·]?), remove ++ is)
  match idxs.foldl step (.ok ([], [])) with
  | .error e => .error e
  | .ok (atoms, remove) =>
    -- `for index in sorted(remove, reverse=True): del tokens[index]` (a repeated index deletes twice)
    let sorted := sortDesc remove
    let params := sorted.foldl (fun (t : List String) i => t.eraseIdx i) toks
    .ok (atoms, params)

/-- `_type_params`: section `xyztypes` -> inter_type `xyzs` -/
def interTypeOf (sectionName : String) : String := dropLastN sectionName 5 ++ "s"

def doType (g : Glob) (cond : Option Cond) (sectionName : String) (toks : List String) : Except String Glob :=
  match assocGet Tables.Top.atomIdxs sectionName with
  | none => .error "no-atom-idxs"
  | some idxs =>
    match splitAtoms toks idxs with
    | .error e => .error e
    | .ok (atoms, params) =>
      let it := interTypeOf sectionName
      let table := (assocGet g.types it).getD []
      let table' := keySet table atoms (fun old => (old.getD []) ++ [⟨params, cond⟩])
      .ok { g with types := assocSet g.types it table' }

/-- `parse_section` for a content line -/
def doContent (g : Glob) (l : Loc) (toks : List String) : Except String (Glob × Loc) :=
  match handlerOf l.sec with
  | none => .error "unknown-section"
  | some h =>
    if h == "_system" || h == "_skip" || h == "_macros" then .ok (g, l)
    else if h == "_molecules" then
      match toks with
      | [name, n] => .ok (g, { l with mols := l.mols ++ [(name, n)] })
      | _ => .error "molecules-token-count"
    else if h == "_defaults" then
      (doDefaults toks).map fun d => ({ g with defaults := d }, l)
    else if h == "_atomtypes" then
      (doAtomType toks).map fun (nm, row) => ({ g with atomTypes := assocSet g.atomTypes nm row }, l)
    else if h == "_nonbond_params" then
      (doNonbond toks).map fun (k, v) => ({ g with nonbond := pairSet g.nonbond k v }, l)
    else if h == "_type_params" then
      (doType g l.cond (l.sec.getLast?.getD "") toks).map fun g' => (g', l)
    else if h == "_molecule" then
      match l.itp with
      | some grp => .ok (g, { l with itp := some (grp ++ [.toks toks]) })
      | none => .error "moleculetype-content-without-itp"
    else .error "unknown-handler"

/-- `parse_header` -/
def doHeader (l : Loc) (name : String) : Loc :=
  let sec := newSection l.sec name
  let l1 : Loc := { l with sec := sec }
  -- header_actions: ('moleculetype',) -> _new_itp
  let l2 : Loc :=
    if sec == ["moleculetype"] then
      match l1.itp with
      | some grp => if grp.isEmpty then { l1 with itp := some [] } else { l1 with itpLines := l1.itpLines ++ [grp], itp := some [] }
      | none => { l1 with itp := some [] }
    else l1
  match l2.itp with
  | some grp => { l2 with itp := some (grp ++ [.hdr name]) }
  | none => l2

def itpActive (l : Loc) : Bool := match l.itp with | some grp => !grp.isEmpty | none => false

def inverseCond (c : String) : Option String :=
  if c == "ifdef" then some "ifndef" else if c == "ifndef" then some "ifdef" else none

/-- the test of `parse_include` / `parse_error`: is the line switched off by `current_meta`? -/
def switchedOff (g : Glob) (c : Option Cond) : Bool :=
  match c with
  | none => false
  | some m =>
    let defined := (assocGet g.defines m.tag).isSome
    (m.condition == "ifdef" && !defined) || (m.condition == "ifndef" && defined)

/-! ### paths -/

abbrev Path := List String

def splitPath (s : String) : List String := (splitChar s '/').filter (· != "")

/-- lexical normalisation of `dir/path` (the real code lets the OS resolve `.` and `..`) -/
def normPath (parts : List String) : Option Path :=
  parts.foldlM (fun (acc : List String) p =>
    if p == "." then some acc
    else if p == ".." then (if acc.isEmpty then none else some acc.dropLast)
    else some (acc ++ [p])) []

abbrev FS := List (Path × List String)

def fsGet (fs : FS) (p : Path) : Option (List String) := (fs.find? (·.1 == p)).map (·.2)

/-- the path token of `#include`: `line.split()[1].strip('"')` -/
def includePath (tok : String) : String :=
  let isQ (c : Char) : Bool := c == '"'
  String.ofList ((tok.toList.dropWhile isQ).reverse.dropWhile isQ).reverse

/-! ### finalize -/

/-- block name of a collected moleculetype: first token of the last content line of the `moleculetype`
section proper (what `ITPDirector._block` leaves in `current_block.name`); that line must have two tokens -/
def groupName (grp : Group) : Except String String :=
  let body := (grp.drop 1).takeWhile (fun l => match l with | .hdr _ => false | .toks _ => true)
  let content := body.filter (fun l => match l with | .toks (t :: _) => firstChar t != some '#' | _ => false)
  match content.getLast? with
  | some (.toks [name, nrexcl]) => if isIntTok nrexcl then .ok name else .error "moleculetype-line"
  | some _ => .error "moleculetype-line"
  | none => .error "moleculetype-without-name"

def readGroups (g : Glob) : List Group → Except String Glob
  | [] => .ok g
  | grp :: rest =>
    match groupName grp with
    | .error e => .error e
    | .ok nm =>
      readGroups { g with groups := g.groups ++ [grp],
                          blockNames := if g.blockNames.contains nm then g.blockNames else g.blockNames ++ [nm] } rest

/-- value of an `int()` token -/
def natOfTok (s : String) : Option Int :=
  if isIntTok s then
    let l := s.toList
    let (neg, ds) := match l with | '-' :: r => (true, r) | '+' :: r => (false, r) | _ => (false, l)
    let n : Nat := ds.foldl (fun acc c => acc * 10 + (c.toNat - '0'.toNat)) 0
    some (if neg then -(n : Int) else (n : Int))
  else none

/-- the `[molecules]` loop of `finalize`; `count` = the director's `total_count` -/
def expandMols (g : Glob) (count : Nat) : List (String × String) → Except String Glob
  | [] => .ok g
  | (name, n) :: rest =>
    if !g.blockNames.contains name then .error "unknown-molecule"
    else match natOfTok n with
      | none => .error "molecule-count"
      | some k =>
        let k := k.toNat
        let idxs := (List.range k).map (· + count)
        let old := (assocGet g.molIdx name).getD []
        -- `mol_idx_by_name[name]` is only touched inside the loop over the copies
        let molIdx := if k == 0 then g.molIdx else assocSet g.molIdx name (old ++ idxs)
        expandMols { g with molecules := g.molecules ++ List.replicate k name, molIdx := molIdx } (count + k) rest

def finalize (g : Glob) (l : Loc) : Except String Glob :=
  let groups := if itpActive l then l.itpLines ++ [l.itp.getD []] else l.itpLines
  if l.cond.isSome then .error "unclosed-conditional"
  else match readGroups g groups with
    | .error e => .error e
    | .ok g1 => expandMols g1 0 l.mols

/-! ### the director -/

/-- `parse_top_pragma`; `inc dirOfChild path g` reads an included file -/
def doPragma (inc : Path → Glob → Except String Glob) (dir : Path) (g : Glob) (l : Loc) (toks : List String) :
    Except String (Glob × Loc) :=
  let t0 := toks.headD ""
  let swallow : Except String (Glob × Loc) :=
    .ok (g, { l with itp := some ((l.itp.getD []) ++ [.toks toks]) })
  if toks == ["#endif"] then
    if itpActive l then swallow
    else if l.cond.isNone then .error "endif-without-if"
    else .ok (g, { l with cond := none })
  else if startsWith t0 "#else" then
    if itpActive l then swallow
    else match l.cond with
      | none => .error "else-without-if"
      | some m => match inverseCond m.condition with
        | none => .error "else-of-unknown-condition"
        | some c => .ok (g, { l with cond := some ⟨c, m.tag⟩ })
  else if startsWith t0 "#ifdef" || startsWith t0 "#ifndef" then
    if itpActive l then swallow
    else match l.cond with
      | some _ => .error "nested-conditional"
      | none => match toks with
        | [c, tag] => .ok (g, { l with cond := some ⟨(removeChar c '#'), tag⟩ })
        | _ => .error "conditional-token-count"
  else if t0 == "#define" then
    match toks with
    | [_, tag] => .ok ({ g with defines := assocSet g.defines tag none }, l)
    | _ :: tag :: vals => .ok ({ g with defines := assocSet g.defines tag (some vals) }, l)
    | _ => .error "define-without-tag"
  else if t0 == "#error" then
    if switchedOff g l.cond then .ok (g, l) else .error "error-directive"
  else if t0 == "#include" then
    match toks with
    | _ :: p :: _ =>
      if switchedOff g l.cond then .ok (g, l)
      else match normPath (dir ++ splitPath (includePath p)) with
        | none => .error "include-outside-root"
        | some full => (inc full g).map fun g' => (g', l)
    | _ => .error "include-without-path"
  else .error "unknown-pragma"

def step (inc : Path → Glob → Except String Glob) (dir : Path) (st : Glob × Loc) (line : Line) :
    Except String (Glob × Loc) :=
  match line with
  | .pragma toks => doPragma inc dir st.1 st.2 toks
  | .star => .ok st
  | .badHeader => .error "misformatted-header"
  | .header name => .ok (st.1, doHeader st.2 name)
  | .content toks => doContent st.1 st.2 toks

def runLines (inc : Path → Glob → Except String Glob) (dir : Path) : List Line → Glob × Loc → Except String (Glob × Loc)
  | [], st => .ok st
  | line :: rest, st =>
    match step inc dir st line with
    | .error e => .error e
    | .ok st' => runLines inc dir rest st'

/-- `read_topology` for the file at `path` (recursion = `parse_include`; `fuel` bounds the include depth) -/
def readFile (fs : FS) : Nat → Path → Glob → Except String Glob
  | 0, _, _ => .error "include-depth-exceeded"
  | fuel + 1, path, g =>
    match fsGet fs path with
    | none => .error "missing-file"
    | some raws =>
      match runLines (readFile fs fuel) path.dropLast (parseLines raws) (g, {}) with
      | .error e => .error e
      | .ok (g', l) => finalize g' l

/-- `Topology.from_gmx_topfile` -/
def readTop (fs : FS) (top : Path) : Except String Glob := readFile fs (fs.length + 1) top {}

/-- reading one file that contains no active `#include` (an include that is reached is an error) -/
def readSingle (raws : List String) : Except String Glob :=
  match runLines (fun _ _ => .error "include-in-single-file") [] (parseLines raws) ({}, {}) with
  | .error e => .error e
  | .ok (g, l) => finalize g l

def errOf {α} (r : Except String α) : Option String := match r with | .error e => some e | .ok _ => none
def okOf {α} (r : Except String α) : Option α := match r with | .error _ => none | .ok a => some a

/-! ### observable -/

def molSubsections : List String :=
  (Tables.Top.sections.filterMap fun s => match s.1 with | ["moleculetype", x] => some x | _ => none)

/-- what vermouth's ITP reader makes of a collected list does not depend on anything after the first header
that is not a moleculetype subsection -/
def sealGroup (grp : Group) : Group :=
  match grp with
  | [] => []
  | first :: rest => first :: rest.takeWhile (fun l => match l with
      | .hdr n => molSubsections.contains n
      | .toks _ => true)

/-! ### Specification side: the flattened file of the property statement

"the single file obtained by textually inlining every #include (resolved relative to the including file)
whose enclosing #ifdef/#ifndef/#else condition holds for the macros defined (outside conditionals) before
that point".  The flattener knows nothing about sections or moleculetypes: it tracks the set of macros
defined outside conditionals and the one open conditional of the file it is in. -/

structure FlatSt where
  defs : List String := []
  out : List String := []
  /-- an `#error` whose condition is active was met: reading must abort -/
  abort : Bool := false
deriving Repr, Inhabited

def holds (defs : List String) (c : Option (Bool × String)) : Bool :=
  match c with
  | none => true
  | some (wantDefined, tag) => defs.contains tag == wantDefined

/-- one pragma line of the flattener; the open conditional of the current file is threaded along -/
def flatPragma (inc : Path → FlatSt → Except String FlatSt) (dir : Path) (c : Option (Bool × String)) (st : FlatSt)
    (raw : String) (toks : List String) : Except String (Option (Bool × String) × FlatSt) :=
  let t0 := toks.headD ""
  let keep : FlatSt := { st with out := st.out ++ [raw] }
  if toks == ["#endif"] then .ok (none, keep)
  else if startsWith t0 "#else" then .ok (c.map fun (w, t) => (!w, t), keep)
  else if startsWith t0 "#ifdef" || startsWith t0 "#ifndef" then
    match toks with
    | [k, tag] => .ok (some (k == "#ifdef", tag), keep)
    | _ => .ok (c, keep)
  else if t0 == "#define" then
    match toks with
    | _ :: tag :: _ =>
      .ok (c, if c.isNone then { keep with defs := if keep.defs.contains tag then keep.defs else keep.defs ++ [tag] } else keep)
    | _ => .ok (c, keep)
  else if t0 == "#error" then
    .ok (c, if holds st.defs c then { keep with abort := true } else keep)
  else if t0 == "#include" then
    match toks with
    | _ :: p :: _ =>
      if holds st.defs c then
        match normPath (dir ++ splitPath (includePath p)) with
        | none => .error "include-outside-root"
        | some full => (inc full st).map fun st' => (c, st')
      else .ok (c, st)
    | _ => .ok (c, keep)
  else .ok (c, keep)

def flatLine (inc : Path → FlatSt → Except String FlatSt) (dir : Path) (c : Option (Bool × String)) (st : FlatSt)
    (raw : String) : Except String (Option (Bool × String) × FlatSt) :=
  match classify raw with
  | some (.pragma toks) => flatPragma inc dir c st raw toks
  | _ => .ok (c, { st with out := st.out ++ [raw] })

def flattenLines (inc : Path → FlatSt → Except String FlatSt) (dir : Path) :
    List String → Option (Bool × String) → FlatSt → Except String FlatSt
  | [], _, st => .ok st
  | raw :: rest, c, st =>
    match flatLine inc dir c st raw with
    | .error e => .error e
    | .ok (c', st') => flattenLines inc dir rest c' st'

def flattenFile (fs : FS) : Nat → Path → FlatSt → Except String FlatSt
  | 0, _, _ => .error "include-depth-exceeded"
  | fuel + 1, path, st =>
    match fsGet fs path with
    | none => .error "missing-file"
    | some raws => flattenLines (flattenFile fs fuel) path.dropLast raws none st

def flatten (fs : FS) (top : Path) : Except String FlatSt := flattenFile fs (fs.length + 1) top {}

/-! ### well-formed include trees (hypothesis of the flattening theorem)

A purely syntactic scan of the files (it runs neither reader).  Per file it tracks
* `phase2`: a `[ moleculetype ]` header occurred earlier in include order (from then on the real reader stores
  `#ifdef/#else/#endif` instead of evaluating them),
* `fresh`: no section header yet since the start of the file / since the last `#include`,
* `own` / `secMol`: this file has opened a moleculetype / its current section is inside one,
* `cond`: the open evaluated conditional, `swallow`: inside a stored (not evaluated) conditional,
* `molSec`: the current section is `[ molecules ]`.
Rules: a file's first section-relevant line and the first one after every `#include` is a top-level or
`[ moleculetype ]` header; evaluated conditionals are balanced, not nested, contain no `#define` and no
`[ moleculetype ]`, and files included from inside them contain no `#define`, no conditional and no
moleculetype (`frozen`); once a moleculetype has been seen conditionals occur only inside a moleculetype of the
same file (no include since its header) and enclose no `#include/#error/#define`; `[ molecules ]` lines occur
only in the top file; pragmas are written in their exact forms. -/

structure WfSt where
  phase2 : Bool
  fresh : Bool := true
  own : Bool := false
  secMol : Bool := false
  cond : Option (Bool × String) := none
  swallow : Bool := false
  molSec : Bool := false
deriving Repr, DecidableEq, Inhabited

def wfPragma (inc : Path → Bool → Bool → Option Bool) (dir : Path) (frozen : Bool) (w : WfSt) (toks : List String) :
    Option WfSt :=
  let t0 := toks.headD ""
  let inMol := !w.fresh && w.own && w.secMol
  if toks == ["#endif"] then
    if w.phase2 then (if inMol then some { w with swallow := false } else none)
    else (if w.cond.isSome then some { w with cond := none } else none)
  else if startsWith t0 "#else" then
    if toks != ["#else"] then none
    else if w.phase2 then (if inMol then some w else none)
    else match w.cond with
      | some (b, t) => some { w with cond := some (!b, t) }
      | none => none
  else if startsWith t0 "#ifdef" || startsWith t0 "#ifndef" then
    match toks with
    | [k, tag] =>
      if k != "#ifdef" && k != "#ifndef" then none
      else if w.phase2 then (if inMol then some { w with swallow := true } else none)
      else if w.cond.isNone && !frozen then some { w with cond := some (k == "#ifdef", tag) } else none
    | _ => none
  else if t0 == "#define" then
    if toks.length ≥ 2 && w.cond.isNone && !frozen && !w.swallow then some w else none
  else if t0 == "#error" then
    if w.swallow then none else some w
  else if t0 == "#include" then
    match toks with
    | _ :: p :: _ =>
      if w.swallow then none
      else match normPath (dir ++ splitPath (includePath p)) with
        | none => none
        | some full =>
          match inc full (frozen || w.cond.isSome) w.phase2 with
          | none => none
          | some ph => some { w with phase2 := ph, fresh := true }
    | _ => none
  else none

def wfLine (inc : Path → Bool → Bool → Option Bool) (dir : Path) (frozen isTop : Bool) (w : WfSt) (raw : String) :
    Option WfSt :=
  match classify raw with
  | none => some w
  | some .star => some w
  | some .badHeader => none
  | some (.header name) =>
    if name == "moleculetype" then
      if w.cond.isNone && !frozen && !w.swallow then
        some { w with phase2 := true, fresh := false, own := true, secMol := true, molSec := false }
      else none
    else if molSubsections.contains name then
      if !w.fresh && w.secMol then some w else none
    else
      if w.swallow then none
      else some { w with fresh := false, secMol := false, molSec := name == "molecules" }
  | some (.content _) =>
    if w.fresh then none
    else if w.molSec && !isTop then none
    else some w
  | some (.pragma toks) => wfPragma inc dir frozen w toks

def wfLines (inc : Path → Bool → Bool → Option Bool) (dir : Path) (frozen isTop : Bool) : List String → WfSt → Option WfSt
  | [], w => some w
  | raw :: rest, w =>
    match wfLine inc dir frozen isTop w raw with
    | none => none
    | some w' => wfLines inc dir frozen isTop rest w'

/-- `some phase2'` = the file (and everything it includes) is well formed -/
def wfFile (fs : FS) : Nat → Bool → Path → Bool → Bool → Option Bool
  | 0, _, _, _, _ => none
  | fuel + 1, isTop, path, frozen, phase2 =>
    match fsGet fs path with
    | none => none
    | some raws =>
      match wfLines (fun p fr ph => wfFile fs fuel false p fr ph) path.dropLast frozen isTop raws { phase2 := phase2 } with
      | none => none
      | some w => if w.cond.isNone && !w.swallow && (!frozen || w.phase2 == phase2) then some w.phase2 else none

def wellFormed (fs : FS) (top : Path) : Bool := (wfFile fs (fs.length + 1) true top false false).isSome

/-! ### Specification side: `[molecules]` expanded in order -/

/-- "the [molecules] section expanded in order with the stated counts" -/
def expandSpec (mols : List (String × Nat)) : List String := mols.flatMap fun m => List.replicate m.2 m.1

/-- the positions at which `name` occurs -/
def positionsOf (l : List String) (name : String) : List Nat :=
  (l.zipIdx.filter (fun p => p.1 == name)).map (·.2)

end PolyplyVerif.TopParse
