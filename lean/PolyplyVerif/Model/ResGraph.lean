/-
Residue graphs (`polyply.src.meta_molecule.MetaMolecule`, a `networkx.Graph` whose node dictionary is
insertion ordered).  Core Lean only.

Modelled: node insertion order, `max_resid` bookkeeping of `MetaMolecule.add_node` (the resid given to a
new node is `max_resid + 1`), undirected edges with an attribute dictionary, `add_edge` on an existing
edge updating the attributes in place, adjacency order = order in which the incident edges were first
added (networkx adjacency dictionaries).
-/
namespace PolyplyVerif

/-- an insertion-ordered string dictionary -/
abbrev Attrs := List (String × String)

def Attrs.set (a : Attrs) (k v : String) : Attrs :=
  match a with
  | [] => [(k, v)]
  | (k', v') :: rest => if k' = k then (k, v) :: rest else (k', v') :: Attrs.set rest k v

/-- `dst.update(src)` restricted to the way the code uses it: assign each key of `src` in order -/
def Attrs.update (dst src : Attrs) : Attrs :=
  src.foldl (fun acc kv => Attrs.set acc kv.1 kv.2) dst

structure RNode where
  key : Nat
  resid : Nat
  resname : String
deriving Repr, DecidableEq

structure REdge where
  u : Nat
  v : Nat
  attrs : Attrs
deriving Repr, DecidableEq

structure RGraph where
  nodes : List RNode
  edges : List REdge
  maxResid : Nat
deriving Repr, DecidableEq

/-- is `e` the undirected edge {a,b}? -/
def REdge.joins (e : REdge) (a b : Nat) : Bool := (e.u == a && e.v == b) || (e.u == b && e.v == a)

namespace RGraph

def empty : RGraph := ⟨[], [], 0⟩

def node? (g : RGraph) (k : Nat) : Option RNode := g.nodes.find? (fun n => n.key == k)

def hasNode (g : RGraph) (k : Nat) : Bool := (g.node? k).isSome

def resid? (g : RGraph) (k : Nat) : Option Nat := (g.node? k).map (·.resid)

def resname? (g : RGraph) (k : Nat) : Option String := (g.node? k).map (·.resname)

def edge? (g : RGraph) (a b : Nat) : Option REdge := g.edges.find? (fun e => e.joins a b)

def hasEdge (g : RGraph) (a b : Nat) : Bool := (g.edge? a b).isSome

/-- `MetaMolecule.add_node(key, resname=..)` for a key not yet present: resid := max_resid + 1 -/
def addNode (g : RGraph) (k : Nat) (resname : String) : RGraph :=
  { nodes := g.nodes ++ [⟨k, g.maxResid + 1, resname⟩], edges := g.edges, maxResid := g.maxResid + 1 }

/-- `Graph.add_edge(a, b)` (no attributes): no-op on an existing edge -/
def addEdge (g : RGraph) (a b : Nat) : RGraph :=
  if g.hasEdge a b then g else { g with edges := g.edges ++ [⟨a, b, []⟩] }

/-- `graph.edges[(a,b)][k] = v` for every `(k,v)` of `attrs` -/
def updateEdgeAttrs (g : RGraph) (a b : Nat) (attrs : Attrs) : RGraph :=
  { g with edges := g.edges.map (fun e => if e.joins a b then { e with attrs := e.attrs.update attrs } else e) }

/-- adjacency order of networkx: neighbours in the order the incident edges were added -/
def neighbors (g : RGraph) (k : Nat) : List Nat :=
  g.edges.filterMap (fun e => if e.u == k then some e.v else if e.v == k then some e.u else none)

/-- rename every node key `x` to `x + k` (resids, names, attributes and all orders unchanged) -/
def shiftKeys (g : RGraph) (k : Nat) : RGraph :=
  { nodes := g.nodes.map (fun n => { n with key := n.key + k }),
    edges := g.edges.map (fun e => { e with u := e.u + k, v := e.v + k }),
    maxResid := g.maxResid }

/-- renumber every resid `r` to `r + d` (and `max_resid` with it; keys, names, edges unchanged) -/
def shiftResids (g : RGraph) (d : Nat) : RGraph :=
  { nodes := g.nodes.map (fun n => { n with resid := n.resid + d }),
    edges := g.edges,
    maxResid := g.maxResid + d }

end RGraph
end PolyplyVerif
