/-
Line-protocol driver of C06: the model of `rotate_xyz` / `Backmap._place_init_coords` and the
specification predicates of C06 on exact rationals.  Imports the model only (no proof file).
-/
import PolyplyVerif.Driver.Common
import PolyplyVerif.Model.Rotation
import PolyplyVerif.Model.RotationAngles
open Lean PolyplyVerif PolyplyVerif.Rot

namespace PolyplyVerif.Driver.C06

def ratAt (j : Json) (i : Nat) : Except String Rat := do ratOfJson (← j.getArrVal? i)

def v3OfJson (j : Json) : Except String (V3 Rat) := do
  pure ⟨← ratAt j 0, ← ratAt j 1, ← ratAt j 2⟩

def v3ToJson (v : V3 Rat) : Json := Json.arr #[ratToJson v.x, ratToJson v.y, ratToJson v.z]

def anglesOfJson (j : Json) : Except String (Angles Rat) := do
  pure ⟨← ratAt j 0, ← ratAt j 1, ← ratAt j 2, ← ratAt j 3, ← ratAt j 4, ← ratAt j 5⟩

def listOf {β : Type} (f : Json → Except String β) (j : Json) : Except String (List β) := do
  (← j.getArr?).toList.mapM f

def templateOfJson (j : Json) : Except String (Template Rat) :=
  listOf (fun kv => do pure ((← (← kv.getArrVal? 0).getStr?), (← v3OfJson (← kv.getArrVal? 1)))) j

def atomOfJson (j : Json) : Except String Atom := do
  pure ⟨← (← j.getArrVal? 0).getNat?, ← (← j.getArrVal? 1).getStr?⟩

def resOfJson (j : Json) : Except String (Res Rat) := do
  pure { backmap := ← (← j.getObjVal? "backmap").getBool?
         template := ← (← j.getObjVal? "template").getStr?
         pos := ← v3OfJson (← j.getObjVal? "pos")
         node := ← (← j.getObjVal? "node").getNat?
         atoms := ← listOf atomOfJson (← j.getObjVal? "atoms")
         ang := ← anglesOfJson (← j.getObjVal? "ang") }

def m3ToJson (m : M3 Rat) : Json := Json.arr #[v3ToJson m.r0, v3ToJson m.r1, v3ToJson m.r2]

def handle (j : Json) : Except String Json := do
  let op ← (← j.getObjVal? "op").getStr?
  match op with
  | "rotate" =>
    let obj ← listOf v3OfJson (← j.getObjVal? "obj")
    let ang ← anglesOfJson (← j.getObjVal? "ang")
    pure (okJson [("out", Json.arr ((rotateXYZ obj ang).map v3ToJson).toArray),
                  ("mat", m3ToJson (rotMat ang))])
  | "place" =>
    let f ← ratOfJson (← j.getObjVal? "f")
    let templates ← listOf (fun kv => do
      pure ((← (← kv.getArrVal? 0).getStr?), (← templateOfJson (← kv.getArrVal? 1)))) (← j.getObjVal? "templates")
    let residues ← listOf resOfJson (← j.getObjVal? "residues")
    match placeInitCoords f templates residues with
    | none => pure (errJson "KeyError")
    | some (out, built) =>
      pure (okJson [("out", Json.arr (out.map (fun (k, v) => Json.arr #[toJson k, v3ToJson v])).toArray),
                    ("built", toJson built)])
  | "objective" =>
    -- `target_function` of orient_template: pairs = [[opt, refAtomPos|null, cgNeighbour, built], …], own = cgOwn
    let own ← v3OfJson (← j.getObjVal? "own")
    let pairs ← listOf (fun e => do
      let opt ← v3OfJson (← e.getObjVal? "opt")
      let built ← (← e.getObjVal? "built").getBool?
      let cgn ← v3OfJson (← e.getObjVal? "cg")
      let atom ← match e.getObjVal? "atom" with
        | .ok Json.null => pure cgn
        | .ok v => v3OfJson v
        | .error _ => pure cgn
      pure (opt, refCoord built atom cgn own)) (← j.getObjVal? "pairs")
    let angs ← listOf anglesOfJson (← j.getObjVal? "angles")
    pure (okJson [("values", Json.arr (angs.map fun a => ratToJson (objective a pairs)).toArray)])
  | "spec" =>
    -- the property evaluated on what the implementation wrote for ONE residue
    let tol ← ratOfJson (← j.getObjVal? "tol")
    let eps ← ratOfJson (← j.getObjVal? "eps")
    let f ← ratOfJson (← j.getObjVal? "f")
    let t ← templateOfJson (← j.getObjVal? "template")
    let pos ← v3OfJson (← j.getObjVal? "pos")
    let atoms ← listOf (fun kv => do
      pure ((← (← kv.getArrVal? 0).getStr?), (← v3OfJson (← kv.getArrVal? 1)))) (← j.getObjVal? "atoms")
    match ownVectors t atoms with
    | none => pure (okJson [("own", Json.bool false), ("centre", Json.bool false), ("rigid", Json.bool false),
                            ("handed", Json.bool false)])
    | some own =>
      pure (okJson [("own", Json.bool true),
                    ("centre", Json.bool (specCentre tol (atoms.map (·.2)) pos)),
                    ("rigid", Json.bool (specRigid tol f own)),
                    ("handed", Json.bool (specHanded tol eps f own))])
  | _ => throw s!"unknown op {op}"

end PolyplyVerif.Driver.C06
