import PolyplyVerif.Driver.Common
import PolyplyVerif.Model.ItpIO
import PolyplyVerif.Model.C11Lex
open Lean PolyplyVerif PolyplyVerif.ItpIO

namespace PolyplyVerif.Driver.C11

def optStr (j : Json) (k : String) : Except String (Option String) :=
  match j.getObjVal? k with
  | .ok Json.null => pure none
  | .ok v => v.getStr?.map some
  | .error _ => pure none

def optNat (j : Json) (k : String) : Except String (Option Nat) :=
  match j.getObjVal? k with
  | .ok Json.null => pure none
  | .ok v => v.getNat?.map some
  | .error _ => pure none

def strList (j : Json) : Except String (List String) := do
  let arr ← j.getArr?
  arr.toList.mapM (·.getStr?)

def natList (j : Json) : Except String (List Nat) := do
  let arr ← j.getArr?
  arr.toList.mapM (·.getNat?)

def optToJson (o : Option String) : Json := match o with | some s => Json.str s | none => Json.null

def atomOfJson (j : Json) : Except String Atom := do
  pure { key := ← (← j.getObjVal? "key").getNat?, atomid := ← optNat j "atomid",
         name := ← (← j.getObjVal? "name").getStr?, atype := ← (← j.getObjVal? "atype").getStr?,
         resid := ← (← j.getObjVal? "resid").getNat?, resname := ← (← j.getObjVal? "resname").getStr?,
         cgnr := ← (← j.getObjVal? "cgnr").getNat?, charge := ← optStr j "charge", mass := ← optStr j "mass" }

def ixnOfJson (j : Json) : Except String Ixn := do
  pure { atoms := ← natList (← j.getObjVal? "atoms"), params := ← strList (← j.getObjVal? "params"),
         ifdef := ← optStr j "ifdef", ifndef := ← optStr j "ifndef", group := ← optStr j "group",
         comment := ← optStr j "comment" }

def molOfJson (j : Json) : Except String Mol := do
  let atoms ← (← (← j.getObjVal? "atoms").getArr?).toList.mapM atomOfJson
  let secs ← (← (← j.getObjVal? "sections").getArr?).toList.mapM fun s => do
    let name ← (← s.getArrVal? 0).getStr?
    let ixns ← (← (← s.getArrVal? 1).getArr?).toList.mapM ixnOfJson
    pure (name, ixns)
  pure { nrexcl := ← (← j.getObjVal? "nrexcl").getNat?, atoms := atoms, sections := secs }

def lineToJson : Line → Json
  | .comment t => Json.mkObj [("k", "c"), ("t", Json.str t)]
  | .blank => Json.mkObj [("k", "b")]
  | .header n => Json.mkObj [("k", "h"), ("n", Json.str n)]
  | .pragma t => Json.mkObj [("k", "p"), ("t", toJson t)]
  | .data t c => Json.mkObj [("k", "d"), ("t", toJson t), ("c", optToJson c)]
  | .bad t => Json.mkObj [("k", "x"), ("t", Json.str t)]

def lineOfJson (j : Json) : Except String Line := do
  let k ← (← j.getObjVal? "k").getStr?
  match k with
  | "c" => pure (.comment (← (← j.getObjVal? "t").getStr?))
  | "b" => pure .blank
  | "h" => pure (.header (← (← j.getObjVal? "n").getStr?))
  | "p" => pure (.pragma (← strList (← j.getObjVal? "t")))
  | "d" => pure (.data (← strList (← j.getObjVal? "t")) (← optStr j "c"))
  | "x" => pure (.bad (← (← j.getObjVal? "t").getStr?))
  | _ => throw s!"unknown line kind {k}"

def guardToJson : Guard → Json
  | .none => Json.null
  | .ifdef t => Json.arr #[Json.str "ifdef", Json.str t]
  | .ifndef t => Json.arr #[Json.str "ifndef", Json.str t]

def guardOfJson (j : Json) : Except String Guard :=
  match j with
  | Json.null => pure .none
  | _ => do
    let c ← (← j.getArrVal? 0).getStr?
    let t ← (← j.getArrVal? 1).getStr?
    if c = "ifdef" then pure (.ifdef t) else if c = "ifndef" then pure (.ifndef t) else throw s!"bad guard {c}"

def ratomToJson (a : RAtom) : Json :=
  Json.mkObj [("key", toJson a.key), ("name", Json.str a.name), ("atype", Json.str a.atype),
    ("resid", toJson a.resid), ("resname", Json.str a.resname), ("cgnr", toJson a.cgnr),
    ("charge", optToJson a.charge), ("mass", optToJson a.mass)]

def ratomOfJson (j : Json) : Except String RAtom := do
  pure { key := ← (← j.getObjVal? "key").getNat?, name := ← (← j.getObjVal? "name").getStr?,
         atype := ← (← j.getObjVal? "atype").getStr?, resid := ← (← j.getObjVal? "resid").getNat?,
         resname := ← (← j.getObjVal? "resname").getStr?, cgnr := ← (← j.getObjVal? "cgnr").getNat?,
         charge := ← optStr j "charge", mass := ← optStr j "mass" }

def rixnToJson (x : RIxn) : Json :=
  Json.mkObj [("atoms", toJson x.atoms), ("params", toJson x.params), ("guard", guardToJson x.guard)]

def rixnOfJson (j : Json) : Except String RIxn := do
  let g ← match j.getObjVal? "guard" with
    | .ok v => guardOfJson v
    | .error _ => pure Guard.none
  pure { atoms := ← natList (← j.getObjVal? "atoms"), params := ← strList (← j.getObjVal? "params"), guard := g }

def sectionsToJson (secs : List (String × List RIxn)) : Json :=
  Json.arr (secs.map (fun s => Json.arr #[Json.str s.1, Json.arr (s.2.map rixnToJson).toArray])).toArray

def blockToJson (b : Block) : Json :=
  Json.mkObj [("name", Json.str b.name), ("nrexcl", toJson b.nrexcl),
    ("atoms", Json.arr (b.atoms.map ratomToJson).toArray), ("sections", sectionsToJson b.sections)]

def blockOfJson (j : Json) : Except String Block := do
  let atoms ← (← (← j.getObjVal? "atoms").getArr?).toList.mapM ratomOfJson
  let secs ← (← (← j.getObjVal? "sections").getArr?).toList.mapM fun s => do
    let name ← (← s.getArrVal? 0).getStr?
    let ixns ← (← (← s.getArrVal? 1).getArr?).toList.mapM rixnOfJson
    pure (name, ixns)
  let name ← match j.getObjVal? "name" with
    | .ok (Json.str s) => pure s
    | _ => pure ""
  let nrexcl ← match j.getObjVal? "nrexcl" with
    | .ok v => match v.getNat? with | .ok n => pure n | .error _ => pure 0
    | .error _ => pure 0
  pure { name := name, nrexcl := nrexcl, atoms := atoms, sections := secs }

def graphToJson (g : ResGraph) : Json :=
  Json.mkObj [("nodes", Json.arr (g.nodes.map (fun n => Json.arr #[toJson n.idx, toJson n.resid, Json.str n.resname])).toArray),
              ("edges", Json.arr (g.edges.map (fun e => Json.arr #[toJson e.1, toJson e.2])).toArray)]

def reqOfJson (j : Json) : Except String ReqGraph := do
  let nodes ← (← (← j.getObjVal? "nodes").getArr?).toList.mapM fun n => do
    pure ((← (← n.getArrVal? 0).getNat?), (← (← n.getArrVal? 1).getStr?))
  let edges ← (← (← j.getObjVal? "edges").getArr?).toList.mapM fun e => do
    pure ((← (← e.getArrVal? 0).getNat?), (← (← e.getArrVal? 1).getNat?))
  pure { nodes := nodes, edges := edges }

def splitToJson : Option Split → Json
  | none => Json.null
  | some (.strict n) => Json.arr #[Json.str "strict", toJson n]
  | some (.slice n) => Json.arr #[Json.str "slice", toJson n]
  | some .all => Json.arr #[Json.str "all"]
  | some .vsn => Json.arr #[Json.str "vsn"]
  | some .skip => Json.arr #[Json.str "skip"]

/-- do the hypotheses of `C11_resgraph_iso` hold for this block and requested graph? (the residues of
the block are the requested nodes with distinct resids; every requested edge is realised by a bond or
constraint edge; every inter-residue bond/constraint edge joins requested neighbours) -/
def isoHyps (b : Block) (G : ReqGraph) : Json :=
  let res := residues b
  let pairs := (atomEdges b).filterMap (fun e =>
    match resOfKey b e.1, resOfKey b e.2 with
    | some r1, some r2 => if r1 = r2 then none else some (r1.1, r2.1)
    | _, _ => none)
  let nodesOk := res.all (G.nodes.contains ·) && G.nodes.all (res.contains ·) &&
                 decide ((G.nodes.map (·.1)).Nodup)
  let realised := G.edges.all (fun e => pairs.contains e || pairs.contains (e.2, e.1))
  let onlyAdj := pairs.all (fun e => G.edges.contains e || G.edges.contains (e.2, e.1))
  Json.mkObj [("nodes_ok", nodesOk), ("realised", realised), ("only_adjacent", onlyAdj)]

def handle (j : Json) : Except String Json := do
  let op ← (← j.getObjVal? "op").getStr?
  match op with
  | "write" =>
    let m ← molOfJson (← j.getObjVal? "mol")
    let argv ← (← j.getObjVal? "argv").getStr?
    let cites ← strList (← j.getObjVal? "cites")
    let moltype ← (← j.getObjVal? "moltype").getStr?
    match writeGenParams argv cites moltype m with
    | .ok lines => pure (okJson [("lines", Json.arr (lines.map lineToJson).toArray), ("wf", wfB m)])
    | .error e => pure (Json.mkObj [("ok", false), ("err", Json.str e), ("wf", wfB m), ("why", toJson (wfWhy m))])
  | "tail" =>
    let m ← molOfJson (← j.getObjVal? "mol")
    let argv ← (← j.getObjVal? "argv").getStr?
    let moltype ← (← j.getObjVal? "moltype").getStr?
    let citations ← strList (← j.getObjVal? "citations")
    -- the citation map arrives as [key, formatted | null]: null = the formatter raises on that entry
    let cmapRaw ← (← (← j.getObjVal? "cmap").getArr?).toList.mapM fun p => do
      let k ← (← p.getArrVal? 0).getStr?
      let v ← match p.getArrVal? 1 with
        | .ok (Json.str s) => pure ("+" ++ s)
        | _ => pure "-"
      pure (k, v)
    let fmt : String → Except String String := fun s =>
      if s.startsWith "+" then .ok (s.drop 1).toString else .error "citation_formatter raises"
    match genParamsTail [] "out" argv moltype m citations cmapRaw fmt with
    | .ok fs => match FS.get fs "out" with
      | some lines =>
        -- the same file as characters (`Model/C11Lex.lean`), and whether its hypotheses on the strings hold
        let cites := match citeLines cmapRaw fmt citations with | .ok c => c | .error _ => []
        let textR := C11Lex.writeGenParamsText argv cites moltype m
        let text := match textR with
          | .ok t => toJson (t.map String.ofList)
          | .error _ => Json.null
        let file := match textR with
          | .ok t => Json.str (String.ofList (C11Lex.joinLines t))
          | .error _ => Json.null
        -- the claim of `C11_lex_render` evaluated on this molecule: lexing the text gives the token lines
        let lexRoundtrip := match textR with
          | .ok t => decide (C11Lex.lexText t = lines.map C11Lex.normLine)
          | .error _ => false
        pure (okJson [("lines", Json.arr (lines.map lineToJson).toArray), ("wf", wfB m), ("why", toJson (wfWhy m)),
                      ("text", text), ("file", file), ("tokens_ok", C11Lex.tokensOk moltype m), ("lex_roundtrip", lexRoundtrip)])
      | none => pure (errJson "not written")
    | .error e => pure (Json.mkObj [("ok", false), ("err", Json.str e), ("wf", wfB m), ("why", toJson (wfWhy m))])
  | "read" =>
    let lines ← (← (← j.getObjVal? "lines").getArr?).toList.mapM lineOfJson
    let via ← (← j.getObjVal? "via").getStr?
    match (if via = "top" then readViaTop lines else readItp lines) with
    | .ok b => pure (okJson [("block", blockToJson b)])
    | .error e => pure (errJson e)
  | "lex" =>
    -- the lexer of the readers on raw lines
    let raws ← strList (← j.getObjVal? "lines")
    pure (okJson [("lines", Json.arr (raws.map (fun r => lineToJson (C11Lex.lexLine r.toList))).toArray)])
  | "read_text" =>
    -- the readers on the CHARACTERS of a file (one string per line)
    -- `text`: one string per line, or `file`: the whole file as one string (cut by `splitLines`)
    let via ← (← j.getObjVal? "via").getStr?
    let text ← match j.getObjVal? "file" with
      | .ok (Json.str f) => pure (C11Lex.splitLines f.toList)
      | _ => do
        let raws ← strList (← j.getObjVal? "text")
        pure (raws.map String.toList)
    match (if via = "top" then C11Lex.readViaTopText text else C11Lex.readItpText text) with
    | .ok b => pure (okJson [("block", blockToJson b)])
    | .error e => pure (errJson e)
  | "same" =>
    let m ← molOfJson (← j.getObjVal? "mol")
    let b ← blockOfJson (← j.getObjVal? "block")
    let names := canonSectionNames m
    pure (okJson [("same", sameMolecule m b), ("wf", wfB m), ("z_ordered", zOrdered m), ("why", toJson (wfWhy m)),
      ("atoms_same", b.atoms == canonAtoms m),
      ("sections", Json.arr (names.map (fun s => Json.arr #[Json.str s,
          matchUpTo (sameIxn s) (plainIxns m s) (b.ixnsOf s),
          Json.arr ((plainIxns m s).map rixnToJson).toArray])).toArray),
      ("canon_atoms", Json.arr ((canonAtoms m).map ratomToJson).toArray),
      ("extra_sections", toJson ((b.sections.filter (fun p => !(p.2.isEmpty || names.contains p.1))).map (·.1)))])
  | "canon" =>
    let m ← molOfJson (← j.getObjVal? "mol")
    let names := canonSectionNames m
    pure (okJson [("atoms", Json.arr ((canonAtoms m).map ratomToJson).toArray),
      ("sections", sectionsToJson (names.map (fun s => (s, canonIxns m s))))])
  | "resgraph" =>
    let b ← blockOfJson (← j.getObjVal? "block")
    pure (okJson [("graph", graphToJson (resGraphOf b))])
  | "iso" =>
    let b ← blockOfJson (← j.getObjVal? "block")
    let G ← reqOfJson (← j.getObjVal? "req")
    -- hypotheses of C11_resgraph_iso evaluated on the molecule that was BUILT (if given), else on the block
    let hb ← match j.getObjVal? "built" with
      | .ok Json.null => pure b
      | .ok v => (molOfJson v).map (canonBlock "built")
      | .error _ => pure b
    -- the residue graph the REAL reader recovered: the specification is evaluated on it
    let R ← match j.getObjVal? "recovered" with
      | .ok Json.null => pure (resGraphOf b)
      | .ok v => do
        let nodes ← (← (← v.getObjVal? "nodes").getArr?).toList.mapM fun n => do
          pure (⟨← (← n.getArrVal? 0).getNat?, ← (← n.getArrVal? 1).getNat?, ← (← n.getArrVal? 2).getStr?⟩ : RGNode)
        let edges ← (← (← v.getObjVal? "edges").getArr?).toList.mapM fun e => do
          pure ((← (← e.getArrVal? 0).getNat?), (← (← e.getArrVal? 1).getNat?))
        pure ({ nodes := nodes, edges := edges } : ResGraph)
      | .error _ => pure (resGraphOf b)
    pure (okJson [("iso", isoByResidB R G), ("iso_model", isoByResidB (resGraphOf b) G),
                  ("graph", graphToJson (resGraphOf b)), ("hyps", isoHyps hb G)])
  | "table" =>
    pure (okJson [("split", Json.arr (splitTable.map (fun p => Json.arr #[Json.str p.1, splitToJson p.2])).toArray),
                  ("top_sections", toJson topSections)])
  | _ => throw s!"unknown op {op}"

end PolyplyVerif.Driver.C11
