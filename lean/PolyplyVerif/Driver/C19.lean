import PolyplyVerif.Driver.Common
import PolyplyVerif.Generated.Tables
import PolyplyVerif.Model.Dna
open Lean PolyplyVerif

namespace PolyplyVerif.Driver.C19

def attrsOfJson (j : Json) : Except String Attrs := do
  let arr ← j.getArr?
  arr.toList.mapM fun kv => do
    let k ← (← kv.getArrVal? 0).getStr?
    let v ← (← kv.getArrVal? 1).getStr?
    pure (k, v)

def attrsToJson (a : Attrs) : Json := Json.arr (a.map (fun (k, v) => Json.arr #[Json.str k, Json.str v])).toArray

def graphOfJson (j : Json) : Except String RGraph := do
  let nodes ← (← j.getObjVal? "nodes").getArr?
  let nodes ← nodes.toList.mapM fun n => do
    pure (⟨← (← n.getArrVal? 0).getNat?, ← (← n.getArrVal? 1).getNat?, ← (← n.getArrVal? 2).getStr?⟩ : RNode)
  let edges ← (← j.getObjVal? "edges").getArr?
  let edges ← edges.toList.mapM fun e => do
    pure (⟨← (← e.getArrVal? 0).getNat?, ← (← e.getArrVal? 1).getNat?, ← attrsOfJson (← e.getArrVal? 2)⟩ : REdge)
  let mr ← (← j.getObjVal? "max_resid").getNat?
  pure ⟨nodes, edges, mr⟩

def graphToJson (g : RGraph) : Json :=
  Json.mkObj [
    ("nodes", Json.arr (g.nodes.map (fun n => Json.arr #[toJson n.key, toJson n.resid, Json.str n.resname])).toArray),
    ("edges", Json.arr (g.edges.map (fun e => Json.arr #[toJson e.u, toJson e.v, attrsToJson e.attrs])).toArray),
    ("max_resid", toJson g.maxResid)]

def handle (j : Json) : Except String Json := do
  let op ← (← j.getObjVal? "op").getStr?
  match op with
  | "complement" =>
    let g ← graphOfJson (← j.getObjVal? "graph")
    match Dna.complement Tables.baseLibrary g with
    | .ok g' => pure (okJson [("graph", graphToJson g')])
    | .error e => pure (errJson e)
  | "spec" =>
    let names ← (← j.getObjVal? "names").getArr?
    let names ← names.toList.mapM (·.getStr?)
    let labels ← (← j.getObjVal? "labels").getArr?
    let labels ← labels.toList.mapM attrsOfJson
    let circ ← match j.getObjVal? "circ" with
      | .ok Json.null => pure none
      | .ok c => (attrsOfJson c).map some
      | .error _ => pure none
    let first ← match j.getObjVal? "first" with
      | .ok f => f.getNat?
      | .error _ => pure 0
    let resid0 ← match j.getObjVal? "resid0" with
      | .ok f => f.getNat?
      | .error _ => pure 1
    -- the specification is evaluated with the pairing written in the property, not the repo's table
    match Dna.specGraphAt first resid0 Dna.watsonCrick names labels circ with
    | some g => pure (okJson [("graph", graphToJson g)])
    | none => pure (errJson "unknown-resname")
  | "strand" =>
    let names ← (← j.getObjVal? "names").getArr?
    let names ← names.toList.mapM (·.getStr?)
    let labels ← (← j.getObjVal? "labels").getArr?
    let labels ← labels.toList.mapM attrsOfJson
    let circ ← match j.getObjVal? "circ" with
      | .ok Json.null => pure none
      | .ok c => (attrsOfJson c).map some
      | .error _ => pure none
    let first ← match j.getObjVal? "first" with
      | .ok f => f.getNat?
      | .error _ => pure 0
    let resid0 ← match j.getObjVal? "resid0" with
      | .ok f => f.getNat?
      | .error _ => pure 1
    pure (okJson [("graph", graphToJson (Dna.strandGraphAt first resid0 names labels circ))])
  | "genparams" =>
    -- gen_params up to MapToMolecule: source ∈ {"seq", "seq_file"}, dsdna flag
    let names ← (← j.getObjVal? "names").getArr?
    let names ← names.toList.mapM (·.getStr?)
    let source ← (← j.getObjVal? "source").getStr?
    let dsdna ← (← j.getObjVal? "dsdna").getBool?
    let inp ← match source with
      | "seq" => pure (Dna.SeqInput.seq names)
      | "seq_file" => do
        let labels ← (← j.getObjVal? "labels").getArr?
        let labels ← labels.toList.mapM attrsOfJson
        let circ ← match j.getObjVal? "circ" with
          | .ok Json.null => pure none
          | .ok c => (attrsOfJson c).map some
          | .error _ => pure none
        let first ← match j.getObjVal? "first" with
          | .ok f => f.getNat?
          | .error _ => pure 0
        let resid0 ← match j.getObjVal? "resid0" with
          | .ok f => f.getNat?
          | .error _ => pure 1
        pure (Dna.SeqInput.seqFile first resid0 names labels circ)
      | _ => throw s!"unknown source {source}"
    match Dna.genParamsDsdna Tables.baseLibrary inp dsdna with
    | .ok g => pure (okJson [("residues", Json.arr (g.nodes.map (fun n => Json.arr #[toJson n.resid, Json.str n.resname])).toArray)])
    | .error e => pure (errJson e)
  | _ => throw s!"unknown op {op}"

end PolyplyVerif.Driver.C19
