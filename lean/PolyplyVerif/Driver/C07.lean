import PolyplyVerif.Driver.Common
import PolyplyVerif.Generated.Tables
import PolyplyVerif.Generated.RestraintTables
import PolyplyVerif.Model.Restraints
open Lean PolyplyVerif PolyplyVerif.Restraints

namespace PolyplyVerif.Driver.C07

def rat (j : Json) : Except String Rat := ratOfJson j

def v3 (j : Json) : Except String V3 := do
  pure ⟨← rat (← j.getArrVal? 0), ← rat (← j.getArrVal? 1), ← rat (← j.getArrVal? 2)⟩

def ioOf (s : String) : InOut := if s == "in" then .inside else if s == "out" then .outside else .other

def regionOf (j : Json) : Except String Region := do
  let kind ← (← j.getObjVal? "kind").getStr?
  let io := ioOf (← (← j.getObjVal? "io").getStr?)
  let c ← v3 (← j.getObjVal? "c")
  let ps ← (← (← j.getObjVal? "params").getArr?).toList.mapM rat
  match kind, ps with
  | "sphere", [r] => pure (.sphere io c r)
  | "cylinder", [r, h] => pure (.cylinder io c r h)
  | "rectangle", [a, b, e] => pure (.rectangle io c a b e)
  | _, _ => throw s!"bad region {kind}"

def regionsOf (j : Json) : Except String (List Region) := do
  (← j.getArr?).toList.mapM regionOf

def optOf (j : Json) : Except String (Option RwOption) :=
  match j with
  | .null => pure none
  | _ => do
    let n ← v3 (← j.getObjVal? "normal")
    let s ← (← j.getObjVal? "sgn").getInt?
    let c ← rat (← j.getObjVal? "cos")
    pure (some ⟨n, s, c⟩)

def natPairs (j : Json) : Except String (List (Nat × Nat)) := do
  (← j.getArr?).toList.mapM fun e => do pure (← (← e.getArrVal? 0).getNat?, ← (← e.getArrVal? 1).getNat?)

def adjOf (j : Json) : Except String Adj := do
  (← j.getArr?).toList.mapM fun e => do
    let v ← (← e.getArrVal? 0).getNat?
    let ns ← (← (← e.getArrVal? 1).getArr?).toList.mapM (·.getNat?)
    pure (v, ns)

def pairsToJson (es : List (Nat × Nat)) : Json :=
  Json.arr (es.map fun (u, v) => Json.arr #[toJson u, toJson v]).toArray

def drestrOf (j : Json) : Except String DRestr := do
  pure ⟨← (← j.getArrVal? 0).getNat?, ← rat (← j.getArrVal? 1), ← rat (← j.getArrVal? 2)⟩

def storeToJson (s : DStore) : Json :=
  Json.arr (s.map fun (v, rs) => Json.arr #[toJson v,
    Json.arr (rs.map fun r => Json.arr #[toJson r.ref, ratToJson r.ub, ratToJson r.lb]).toArray]).toArray

/-- pair sizes `[[u, v, size], …]` (symmetric) as the function `get_interaction(mol, mol, u, v)[0]` -/
def sizeOf (j : Json) : Except String (Nat → Nat → Rat) := do
  let tab ← (← j.getArr?).toList.mapM fun e => do
    pure (← (← e.getArrVal? 0).getNat?, ← (← e.getArrVal? 1).getNat?, ← rat (← e.getArrVal? 2))
  pure fun u v => match tab.find? (fun t => (t.1 == u && t.2.1 == v) || (t.1 == v && t.2.1 == u)) with
    | some t => t.2.2
    | none => 0

def cmpName : RestraintTables.Cmp → String
  | .lt => "lt"
  | .le => "le"
  | .gt => "gt"
  | .ge => "ge"

def handle (j : Json) : Except String Json := do
  let op ← (← j.getObjVal? "op").getStr?
  match op with
  | "regions" =>
    let p ← v3 (← j.getObjVal? "p")
    let rs ← regionsOf (← j.getObjVal? "regions")
    pure (okJson [("each", toJson (rs.map (Region.test p))), ("all", toJson (fulfill p rs))])
  | "direction" =>
    let o ← optOf (← j.getObjVal? "opt")
    let s ← v3 (← j.getObjVal? "step")
    pure (okJson [("res", toJson (isRestricted o s))])
  | "milestones" =>
    let box ← v3 (← j.getObjVal? "box")
    let p ← v3 (← j.getObjVal? "p")
    let drs ← (← (← j.getObjVal? "drs").getArr?).toList.mapM drestrOf
    let pos ← (← (← j.getObjVal? "pos").getArr?).toList.mapM fun e => do
      let k ← (← e.getArrVal? 0).getNat?
      let q ← match (← e.getArrVal? 1) with
        | .null => pure none
        | q => (v3 q).map some
      pure (k, q)
    let posOf : Nat → Option V3 := fun k => match pos.find? (fun e => e.1 == k) with
      | some e => e.2
      | none => none
    pure (okJson [("res", toJson (checksMilestones posOf box p drs))])
  | "accept" =>
    -- one trial of `RandomWalk.update_positions`: last point, trial step, the restraints of the residue
    let box ← v3 (← j.getObjVal? "box")
    let last ← v3 (← j.getObjVal? "last")
    let step ← v3 (← j.getObjVal? "step")
    let rs ← regionsOf (← j.getObjVal? "regions")
    let o ← optOf (← j.getObjVal? "opt")
    let drs ← (← (← j.getObjVal? "drs").getArr?).toList.mapM drestrOf
    let pos ← (← (← j.getObjVal? "pos").getArr?).toList.mapM fun e => do
      let k ← (← e.getArrVal? 0).getNat?
      let q ← match (← e.getArrVal? 1) with
        | .null => pure none
        | q => (v3 q).map some
      pure (k, q)
    let posOf : Nat → Option V3 := fun k => match pos.find? (fun e => e.1 == k) with
      | some e => e.2
      | none => none
    let np := wrapV (last.add step) box
    pure (okJson [("res", toJson (acceptStep rs drs o posOf box last step true false)),
                  ("point", Json.arr #[ratToJson np.x, ratToJson np.y, ratToJson np.z])])
  | "tree" =>
    let flag ← (← j.getObjVal? "dfs").getBool?
    let g ← adjOf (← j.getObjVal? "adj")
    let root ← (← j.getObjVal? "root").getNat?
    let kind := if flag then Tables.searchTreeIfDfs else Tables.searchTreeElse
    let es := g.searchTree kind root
    let cp := match closingPair es with
      | some (a, b) => Json.arr #[toJson a, toJson b]
      | none => Json.null
    pure (okJson [("kind", Json.str kind), ("edges", pairsToJson es), ("closing", cp)])
  | "ring" =>
    let flag ← (← j.getObjVal? "dfs").getBool?
    let n ← (← j.getObjVal? "n").getNat?
    let kind := if flag then Tables.searchTreeIfDfs else Tables.searchTreeElse
    let es := ringTree kind n
    let cp := match closingPair es with
      | some (a, b) => Json.arr #[toJson a, toJson b]
      | none => Json.null
    let adj := Json.arr ((ringAdj n).map fun (v, ns) => Json.arr #[toJson v, toJson ns]).toArray
    pure (okJson [("adj", adj), ("edges", pairsToJson es), ("closing", cp)])
  | "setdr" =>
    let tree ← natPairs (← j.getObjVal? "tree")
    let ops ← (← (← j.getObjVal? "ops").getArr?).toList.mapM fun o => do
      pure (← (← o.getObjVal? "target").getNat?, ← (← o.getObjVal? "ref").getNat?,
            ← rat (← o.getObjVal? "d"), ← rat (← o.getObjVal? "avg"), ← rat (← o.getObjVal? "tol"))
    let res := ops.foldl (fun (acc : Except String DStore) (t, r, d, a, tol) =>
      match acc with
      | .ok s => setDistanceRestraint tree s t r d a tol
      | e => e) (.ok [])
    match res with
    | .ok s => pure (okJson [("store", storeToJson s)])
    | .error e => pure (errJson e)
  | "table" =>
    -- the comparison operators the model uses (generated from the source)
    pure (okJson [("sphereIn", toJson (cmpName RestraintTables.sphereIn)),
      ("sphereOut", toJson (cmpName RestraintTables.sphereOut)),
      ("cylInRadius", toJson (cmpName RestraintTables.cylInRadius)),
      ("cylInHeight", toJson (cmpName RestraintTables.cylInHeight)),
      ("cylOutRadius", toJson (cmpName RestraintTables.cylOutRadius)),
      ("cylOutHeight", toJson (cmpName RestraintTables.cylOutHeight)),
      ("rectInside", toJson (cmpName RestraintTables.rectInside)),
      ("msUpper", toJson (cmpName RestraintTables.msUpper)),
      ("msLower", toJson (cmpName RestraintTables.msLower)),
      ("dirAngle", toJson (cmpName RestraintTables.dirAngle))])
  | "avgstep" =>
    let size ← sizeOf (← j.getObjVal? "sizes")
    let path ← natPairs (← j.getObjVal? "path")
    match computeAvgStepLength size path with
    | none => pure (errJson "empty")
    | some (a, c) => pure (okJson [("avg", ratToJson a), ("contour", ratToJson c)])
  | "branched" =>
    let g ← adjOf (← j.getObjVal? "adj")
    pure (okJson [("res", toJson (isBranched g))])
  | "setrestraints" =>
    let tree ← natPairs (← j.getObjVal? "tree")
    let size ← sizeOf (← j.getObjVal? "sizes")
    let ds ← (← (← j.getObjVal? "declared").getArr?).toList.mapM fun o => do
      pure (⟨← (← o.getObjVal? "ref").getNat?, ← (← o.getObjVal? "target").getNat?,
             ← rat (← o.getObjVal? "d"), ← rat (← o.getObjVal? "tol")⟩ : Declared)
    match setRestraints tree size [] ds with
    | .ok s => pure (okJson [("store", storeToJson s)])
    | .error e => pure (errJson e)
  | "eebatch" =>
    let tree ← natPairs (← j.getObjVal? "tree")
    let size ← sizeOf (← j.getObjVal? "sizes")
    let start ← (← j.getObjVal? "start").getNat?
    let stop ← (← j.getObjVal? "stop").getNat?
    let mols ← (← (← j.getObjVal? "mols").getArr?).toList.mapM (·.getNat?)
    let samples ← (← (← j.getObjVal? "samples").getArr?).toList.mapM rat
    match sampleBatch tree size start stop mols samples with
    | none => pure (errJson "crash")
    | some (a, c, calls) =>
      pure (okJson [("avg", ratToJson a), ("contour", ratToJson c),
        ("calls", Json.arr (calls.map fun k => Json.arr #[toJson k.mol, toJson k.target, toJson k.ref,
          ratToJson k.d, ratToJson k.avg]).toArray)])
  | "arange" =>
    let a ← rat (← j.getObjVal? "avg")
    let c ← rat (← j.getObjVal? "contour")
    pure (okJson [("values", Json.arr ((eeCandidates a c).map ratToJson).toArray)])
  -- ---------------------------------------------------------------- specification side (oracle)
  | "spec_geom" =>
    let p ← v3 (← j.getObjVal? "p")
    let rs ← regionsOf (← j.getObjVal? "regions")
    let eps ← rat (← j.getObjVal? "eps")
    pure (okJson [("each", toJson (rs.map fun r => decide (regionHolds p (r.slack eps))))])
  | "spec_dir" =>
    let o ← optOf (← j.getObjVal? "opt")
    let s ← v3 (← j.getObjVal? "step")
    match o with
    | none => pure (okJson [("res", toJson true)])
    | some o => pure (okJson [("res", toJson (decide (directionHolds o s)))])
  | "spec_window" =>
    let a ← v3 (← j.getObjVal? "a")
    let b ← v3 (← j.getObjVal? "b")
    let box ← v3 (← j.getObjVal? "box")
    let lo ← rat (← j.getObjVal? "lo")
    let hi ← rat (← j.getObjVal? "hi")
    let s := miSq a b box
    pure (okJson [("res", toJson (decide (inWindow s lo hi))), ("sq", ratToJson s)])
  | "spec_ring" =>
    let g ← adjOf (← j.getObjVal? "adj")
    let tree ← natPairs (← j.getObjVal? "tree")
    pure (okJson [("closing", pairsToJson (nonTreeEdges g tree))])
  | "spec_ee" =>
    let a ← rat (← j.getObjVal? "avg")
    let c ← rat (← j.getObjVal? "contour")
    let xs ← (← (← j.getObjVal? "xs").getArr?).toList.mapM rat
    pure (okJson [("each", toJson (xs.map fun x => decide (eeInRange a c x)))])
  | _ => throw s!"unknown op {op}"

end PolyplyVerif.Driver.C07
