import PolyplyVerif.Driver.Common
import PolyplyVerif.Driver.C17
import PolyplyVerif.Model.Supply
open Lean PolyplyVerif PolyplyVerif.Supply

namespace PolyplyVerif.Driver.C04

def v3OfJson (j : Json) : Except String V3 := do
  pure (← ratOfJson (← j.getArrVal? 0), ← ratOfJson (← j.getArrVal? 1), ← ratOfJson (← j.getArrVal? 2))

def v3ToJson (v : V3) : Json := Json.arr #[ratToJson v.1, ratToJson v.2.1, ratToJson v.2.2]

def resOfJson (j : Json) : Except String Res := do
  let resname ← (← j.getObjVal? "resname").getStr?
  let atoms ← C17.pairList (← j.getObjVal? "atoms")
  pure ⟨resname, atoms⟩

def outToJson (o : ResOut) : Json :=
  Json.mkObj [("build", Json.bool o.build), ("backmap", Json.bool o.backmap),
              ("pos", match o.pos with | some v => v3ToJson v | none => Json.null),
              ("atoms", Json.arr (o.atomPos.map fun (a, v) => Json.arr #[toJson a, v3ToJson v]).toArray)]

def tableToJson (t : List ((Nat × Walk.Node) × Nat)) : Json :=
  Json.arr (t.map fun ((j, n), g) => Json.arr #[toJson j, toJson n, toJson g]).toArray

def handle (j : Json) : Except String Json := do
  let op ← (← j.getObjVal? "op").getStr?
  match op with
  | "consume" =>
    let skip ← (← (← j.getObjVal? "skip").getArr?).toList.mapM (·.getStr?)
    let metaRes ← (← j.getObjVal? "meta").getBool?
    let ps ← (← (← j.getObjVal? "ps").getArr?).toList.mapM v3OfJson
    let rs ← (← (← j.getObjVal? "residues").getArr?).toList.mapM resOfJson
    -- the model of the code
    let model := match consume skip metaRes ps rs 0 with
      | some outs => Json.arr (outs.map outToJson).toArray
      | none => Json.str "reject"
    -- the specification: residue by residue at its offset
    let spec := rs.zipIdx.map fun (r, i) => outToJson (expected skip metaRes ps r (offset skip metaRes rs i))
    let offsets := rs.zipIdx.map fun (_, i) => offset skip metaRes rs i
    pure (okJson [("model", model), ("spec", Json.arr spec.toArray), ("offsets", toJson offsets)])
  | "consume2" =>
    let skip ← (← (← j.getObjVal? "skip").getArr?).toList.mapM (·.getStr?)
    let psC ← (← (← j.getObjVal? "ps").getArr?).toList.mapM v3OfJson
    let psM ← (← (← j.getObjVal? "ps_meta").getArr?).toList.mapM v3OfJson
    let rs ← (← (← j.getObjVal? "residues").getArr?).toList.mapM resOfJson
    let model := match consumeBoth skip psC psM rs with
      | some outs => Json.arr (outs.map outToJson).toArray
      | none => Json.str "reject"
    -- what the property demands of the atoms given with -c: the specification of the first call
    let spec := rs.zipIdx.map fun (r, i) => outToJson (expected skip false psC r (offset skip false rs i))
    pure (okJson [("model", model), ("spec", Json.arr spec.toArray)])
  | "gndx" =>
    let ms ← (← (← j.getObjVal? "mols").getArr?).toList.mapM C17.molOfJson
    let mols := ms.map (·.mol)
    let observed ← (← (← j.getObjVal? "table").getArr?).toList.mapM fun t => do
      pure (((← (← t.getArrVal? 0).getNat?), (← (← t.getArrVal? 1).getNat?)), (← (← t.getArrVal? 2).getNat?))
    -- residue type names: per molecule, aligned with its node list; observed engine `atypes`
    let names ← match j.getObjVal? "names" with
      | .ok v => (← v.getArr?).toList.mapM fun l => do (← l.getArr?).toList.mapM (·.getStr?)
      | .error _ => pure []
    let atypes ← match j.getObjVal? "atypes" with
      | .ok v => (← v.getArr?).toList.mapM (·.getStr?)
      | .error _ => pure []
    let nm : Nat → Walk.Node → String := fun jm n =>
      match mols[jm]?, names[jm]? with
      | some m, some l => l.getD (m.nodes.idxOf n) "?"
      | _, _ => "?"
    pure (okJson [("table", tableToJson (gndxTable mols 0 0)), ("spec", Json.bool (specTable mols observed)),
                  ("atypes", toJson (atypeTable nm mols 0)), ("spec_types", Json.bool (specTypes nm observed atypes))])
  | _ => C17.handle j

end PolyplyVerif.Driver.C04
