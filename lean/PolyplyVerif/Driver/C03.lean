import PolyplyVerif.Driver.Common
import PolyplyVerif.Generated.CoordsTables
import PolyplyVerif.Model.Coords
open Lean PolyplyVerif PolyplyVerif.Coords

namespace PolyplyVerif.Driver.C03

def atomOf (j : Json) : Except String Atom := do
  pure ⟨← (← j.getArrVal? 0).getNat?, ← (← j.getArrVal? 1).getStr?, ← (← j.getArrVal? 2).getStr?⟩

def atomToJson (a : Atom) : Json := Json.arr #[toJson a.resid, Json.str a.resname, Json.str a.atomname]

def typesOf (j : Json) : Except String (List MolType) := do
  (← j.getArr?).toList.mapM fun t => do
    let name ← (← t.getObjVal? "name").getStr?
    let atoms ← (← (← t.getObjVal? "atoms").getArr?).toList.mapM atomOf
    pure ⟨name, atoms⟩

def molsOf (j : Json) : Except String (List (String × Nat)) := do
  (← j.getArr?).toList.mapM fun e => do pure (← (← e.getArrVal? 0).getStr?, ← (← e.getArrVal? 1).getNat?)

def optRat (j : Json) : Except String (Option Rat) :=
  match j with
  | .null => pure none
  | x => (ratOfJson x).map some

def optBox (j : Json) : Except String (Option Box) :=
  match j with
  | .null => pure none
  | x => do pure (some (← ratOfJson (← x.getArrVal? 0), ← ratOfJson (← x.getArrVal? 1), ← ratOfJson (← x.getArrVal? 2)))

def boxToJson : Option Box → Json
  | none => Json.null
  | some (a, b, c) => Json.arr #[ratToJson a, ratToJson b, ratToJson c]

def listingToJson : Option (List Atom) → Json
  | none => Json.null
  | some l => Json.arr (l.map atomToJson).toArray

def handle (j : Json) : Except String Json := do
  let op ← (← j.getObjVal? "op").getStr?
  match op with
  | "listing" =>
    let types ← typesOf (← j.getObjVal? "types")
    let mols ← molsOf (← j.getObjVal? "molecules")
    let l := (listing types mols).map fun as => as.map fun a => { a with resid := groResid a.resid }
    pure (okJson [("atoms", listingToJson l)])
  | "spec_listing" =>
    let types ← typesOf (← j.getObjVal? "types")
    let mols ← molsOf (← j.getObjVal? "molecules")
    let l := (specListing types mols).map fun as => as.map fun a => { a with resid := groResid a.resid }
    pure (okJson [("atoms", listingToJson l)])
  | "box" =>
    -- the cube edge is computed by the harness side of the model: mass from the model, root from python
    let cli ← optBox (← j.getObjVal? "cli")
    let inp ← optBox (← j.getObjVal? "input")
    let edge ← optRat (← j.getObjVal? "edge")
    pure (okJson [("box", boxToJson (chooseBox cli inp edge)), ("spec", boxToJson (specBox cli inp edge))])
  | "mass" =>
    let atoms ← (← (← j.getObjVal? "atoms").getArr?).toList.mapM fun a => do
      pure (← optRat (← a.getArrVal? 0), ← optRat (← a.getArrVal? 1))
    let dens ← optRat (← j.getObjVal? "density")
    match massOf atoms, dens with
    | some m, some d => pure (okJson [("mass", ratToJson m), ("volume", ratToJson (m * CoordsTables.amuFactor / d)),
                                      ("digits", toJson CoordsTables.roundDigits)])
    | some m, none => pure (okJson [("mass", ratToJson m), ("volume", Json.null), ("digits", toJson CoordsTables.roundDigits)])
    | none, _ => pure (errJson "mass-missing")
  | "grid" =>
    -- the default start grid of BuildSystem.__init__ for a box and a spacing
    let box ← optBox (← j.getObjVal? "box")
    let s ← ratOfJson (← j.getObjVal? "spacing")
    match box with
    | none => throw "grid: box missing"
    | some b =>
      let g := startGrid b s
      pure (okJson [("points", Json.arr (g.map fun p => Json.arr #[ratToJson p.1, ratToJson p.2.1, ratToJson p.2.2]).toArray),
                    ("counts", Json.arr #[toJson (mgridCount b.1 s), toJson (mgridCount b.2.1 s), toJson (mgridCount b.2.2 s)]),
                    ("spec", toJson (specGrid b g))])
  | "spec_grid" =>
    -- the specification evaluated on an observed grid: not empty, every point in [0, box)
    let box ← optBox (← j.getObjVal? "box")
    let pts ← (← (← j.getObjVal? "points").getArr?).toList.mapM fun p => do
      pure ((← ratOfJson (← p.getArrVal? 0), ← ratOfJson (← p.getArrVal? 1), ← ratOfJson (← p.getArrVal? 2)) : Box)
    match box with
    | none => throw "spec_grid: box missing"
    | some b =>
      let bad := pts.filter fun p => !(insideBox b p)
      pure (okJson [("holds", toJson (specGrid b pts)), ("empty", toJson pts.isEmpty),
                    ("outside", Json.arr ((bad.take 3).map fun p => Json.arr #[ratToJson p.1, ratToJson p.2.1, ratToJson p.2.2]).toArray)])
  | _ => throw s!"unknown op {op}"

end PolyplyVerif.Driver.C03
