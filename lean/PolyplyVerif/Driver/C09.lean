import PolyplyVerif.Driver.Common
import PolyplyVerif.Generated.Top
import PolyplyVerif.Model.Preprocess
open Lean PolyplyVerif PolyplyVerif.Preprocess

namespace PolyplyVerif.Driver.C09

def strList (j : Json) : Except String (List String) := do
  let arr ← j.getArr?
  arr.toList.mapM (·.getStr?)

def natList (j : Json) : Except String (List Nat) := do
  let arr ← j.getArr?
  arr.toList.mapM (·.getNat?)

def optStr (j : Json) : Except String (Option String) :=
  match j with
  | .null => pure none
  | _ => j.getStr?.map some

def listOf (f : Json → Except String α) (j : Json) : Except String (List α) := do
  let arr ← j.getArr?
  arr.toList.mapM f

def pairOfJson (j : Json) : Except String (String × String) := do
  pure (← (← j.getArrVal? 0).getStr?, ← (← j.getArrVal? 1).getStr?)

def condOfJson (j : Json) : Except String (Option (String × String)) :=
  match j with
  | .null => pure none
  | _ => (pairOfJson j).map some

def entryOfJson (j : Json) : Except String TypeEntry := do
  pure ⟨← strList (← j.getArrVal? 0), ← condOfJson (← j.getArrVal? 1)⟩

def tableOfJson (j : Json) : Except String TypeTable :=
  listOf (fun e => do pure (← strList (← e.getArrVal? 0), ← listOf entryOfJson (← e.getArrVal? 1))) j

def typesOfJson (j : Json) : Except String Types :=
  listOf (fun e => do pure (← (← e.getArrVal? 0).getStr?, ← tableOfJson (← e.getArrVal? 1))) j

def ixnOfJson (j : Json) : Except String Ixn := do
  pure ⟨← natList (← j.getArrVal? 0), ← strList (← j.getArrVal? 1), ← listOf pairOfJson (← j.getArrVal? 2)⟩

def sectionsOfJson (j : Json) : Except String (List (String × List Ixn)) :=
  listOf (fun e => do pure (← (← e.getArrVal? 0).getStr?, ← listOf ixnOfJson (← e.getArrVal? 1))) j

def blockOfJson (j : Json) : Except String Block := do
  pure ⟨← (← j.getObjVal? "name").getStr?, ← strList (← j.getObjVal? "atypes"),
        ← sectionsOfJson (← j.getObjVal? "ixns")⟩

def defOfJson (j : Json) : Except String (String × DefVal) := do
  let nm ← (← j.getArrVal? 0).getStr?
  match ← j.getArrVal? 1 with
  | .null => pure (nm, .flag)
  | v => pure (nm, .vals (← strList v))

def atomTypeOfJson (j : Json) : Except String AtomType := do
  pure ⟨← (← j.getArrVal? 0).getStr?, ← ratOfJson (← j.getArrVal? 1), ← ratOfJson (← j.getArrVal? 2),
        ← optStr (← j.getArrVal? 3)⟩

def nbOfJson (j : Json) : Except String NbEntry := do
  pure ⟨← (← j.getArrVal? 0).getStr?, ← (← j.getArrVal? 1).getStr?, .explicit (← (← j.getArrVal? 2).getInt?),
        some (← ratOfJson (← j.getArrVal? 3), ← ratOfJson (← j.getArrVal? 4))⟩

def topoOfJson (j : Json) : Except String Topo := do
  let comb ← match ← j.getObjVal? "comb_rule" with
    | .null => pure none
    | v => (ratOfJson v).map some
  pure { combRule := comb,
         genPairsYes := ← (match j.getObjVal? "gen_pairs" with
           -- the VALUE of defaults["gen-pairs"]: compared with the translated keyword by the model
           | .ok (.str v) => pure (genPairsFlag (some v))
           | .ok .null => pure (genPairsFlag none)
           | _ => do (← j.getObjVal? "gen_pairs_yes").getBool?),
         defines := ← listOf defOfJson (← j.getObjVal? "defines"),
         atomTypes := ← listOf atomTypeOfJson (← j.getObjVal? "atomtypes"),
         nonbond := ← listOf nbOfJson (← j.getObjVal? "nonbond"),
         types := ← typesOfJson (← j.getObjVal? "types"),
         blocks := ← listOf blockOfJson (← j.getObjVal? "blocks"),
         molecules := ← strList (← j.getObjVal? "molecules") }

def strsToJson (l : List String) : Json := Json.arr (l.map Json.str).toArray

def ixnToJson (i : Ixn) : Json :=
  Json.arr #[Json.arr (i.atoms.map toJson).toArray, strsToJson i.params,
             Json.arr (i.tags.map (fun (k, v) => Json.arr #[Json.str k, Json.str v])).toArray]

def sectionsToJson (s : List (String × List Ixn)) : Json :=
  Json.arr (s.map (fun (nm, l) => Json.arr #[Json.str nm, Json.arr (l.map ixnToJson).toArray])).toArray

def nbToJson (e : NbEntry) : Json :=
  let (src, f) := match e.src with
    | .explicit f => ("explicit", toJson f)
    | .self => ("self", Json.null)
    | .generated => ("generated", Json.null)
  let vals := match e.vals with
    | some (x, y) => Json.arr #[ratToJson x, ratToJson y]
    | none => Json.null
  Json.arr #[Json.str e.a, Json.str e.b, Json.str src, f, vals]

def valToJson (v : Val) : Json :=
  match v with
  | .exact q => Json.mkObj [("k", Json.str "exact"), ("q", ratToJson q)]
  | .root d r => Json.mkObj [("k", Json.str "root"), ("deg", toJson d), ("rad", ratToJson r)]
  | .complex => Json.mkObj [("k", Json.str "complex")]

def srcToJson (s : Src) : Json × Json :=
  match s with
  | .explicit f => (Json.str "explicit", toJson f)
  | .self => (Json.str "self", Json.null)
  | .generated => (Json.str "generated", Json.null)

def nbvToJson (e : NbV) : Json :=
  let (src, f) := srcToJson e.src
  Json.arr #[Json.str e.a, Json.str e.b, src, f, valToJson e.nb1, valToJson e.nb2]

def optKeyToJson (k : Option Key) : Json := match k with | some k => strsToJson k | none => Json.null

def handle (j : Json) : Except String Json := do
  let op ← (← j.getObjVal? "op").getStr?
  match op with
  | "preprocess" =>
    let tp ← topoOfJson j
    match preprocessV Tables.Top.patterns Tables.Top.combFuncs tp with
    | .error e => pure (errJson e)
    | .ok rv =>
      let r := rv.base
      pure (okJson [("instances", Json.arr (r.instances.map (fun (nm, s) => Json.arr #[Json.str nm, sectionsToJson s])).toArray),
                    ("nonbond", Json.arr (r.nonbond.map nbToJson).toArray),
                    ("converted", Json.bool r.converted),
                    ("pairs", Json.arr (rv.pairs.map nbvToJson).toArray),
                    ("final", Json.arr (rv.final.map nbvToJson).toArray)])
  | "convert" =>
    -- model of the loop body of convert_nonbond_to_sig_eps on one entry
    let nb1 ← ratOfJson (← j.getObjVal? "nb1")
    let nb2 ← ratOfJson (← j.getObjVal? "nb2")
    match convertEntry nb1 nb2 with
    | .error e => pure (errJson e)
    | .ok (sig, eps) => pure (okJson [("sig", valToJson sig), ("eps", valToJson (.exact eps))])
  | "combrule" =>
    -- model of lorentz_berthelot_rule / geometric_rule, selected by the function's NAME, and of the function
    -- the translated comb_funcs table selects for a rule number
    let a ← ratOfJson (← j.getObjVal? "a")
    let b ← ratOfJson (← j.getObjVal? "b")
    let c ← ratOfJson (← j.getObjVal? "c")
    let d ← ratOfJson (← j.getObjVal? "d")
    let f ← match j.getObjVal? "func" with
      | .ok v => do
        let nm ← v.getStr?
        match combFnByName nm with
        | some f => pure f
        | none => throw s!"unmodelled combination function {nm}"
      | .error _ => do
        match combFnFor Tables.Top.combFuncs (← ratOfJson (← j.getObjVal? "rule")) with
        | .ok f => pure f
        | .error e => throw e
    let (x, y) := f.apply a b c d
    pure (okJson [("nb1", valToJson x), ("nb2", valToJson y)])
  | "matchdih" =>
    -- model of match_dihedral_interaction_types + the specification's answer
    let atoms ← strList (← j.getObjVal? "atoms")
    let t ← tableOfJson (← j.getObjVal? "table")
    pure (okJson [("match", optKeyToJson (matchDihedral Tables.Top.patterns atoms t)),
                  ("matching", Json.arr ((matchingKeys t atoms).map strsToJson).toArray),
                  ("best", Json.arr ((bestKeys t atoms).eraseDups.map strsToJson).toArray)])
  | "spec" =>
    -- the property evaluated on what the implementation wrote
    let interType ← (← j.getObjVal? "inter_type").getStr?
    let t ← tableOfJson (← j.getObjVal? "table")
    let a ← strList (← j.getObjVal? "key")
    let obs ← listOf strList (← j.getObjVal? "observed")
    pure (okJson [("verdict", Json.str (specVerdict interType t a obs)),
                  ("allowed", Json.arr ((specKeys interType t a).map strsToJson).toArray)])
  | "pairspec" =>
    let ats ← listOf atomTypeOfJson (← j.getObjVal? "atomtypes")
    let expl ← listOf nbOfJson (← j.getObjVal? "nonbond")
    let yes ← (← j.getObjVal? "gen_pairs_yes").getBool?
    let obs ← listOf (fun o => do
      let f ← match ← o.getArrVal? 2 with
        | .null => pure none
        | v => v.getInt?.map some
      pure ((← (← o.getArrVal? 0).getStr?), (← (← o.getArrVal? 1).getStr?), f,
            (← ratOfJson (← o.getArrVal? 3)), (← ratOfJson (← o.getArrVal? 4)))) (← j.getObjVal? "observed")
    pure (okJson [("verdict", Json.str (pairsVerdict yes ats expl obs))])
  | "sigeps" =>
    let c6 ← ratOfJson (← j.getObjVal? "c6")
    let c12 ← ratOfJson (← j.getObjVal? "c12")
    let sig ← ratOfJson (← j.getObjVal? "sig")
    let eps ← ratOfJson (← j.getObjVal? "eps")
    let (r6, r12) := sigEpsResidual c6 c12 sig eps
    -- eps is rational in C6, C12: the model's exact value
    pure (okJson [("r6", ratToJson r6), ("r12", ratToJson r12), ("eps", ratToJson (c6 ^ 2 / (4 * c12)))])
  | "replace" =>
    let d ← listOf defOfJson (← j.getObjVal? "defines")
    let ps ← strList (← j.getObjVal? "params")
    match replaceParams d ps with
    | .ok r => pure (okJson [("params", strsToJson r)])
    | .error e => pure (errJson e)
  | _ => throw s!"unknown op {op}"

end PolyplyVerif.Driver.C09
