import PolyplyVerif.Driver.Common
import PolyplyVerif.Model.Output
import PolyplyVerif.Generated.OutputTables
open Lean PolyplyVerif PolyplyVerif.Output

/-!
Driver of C20.  Paths travel as `["f", name]`, `["b", name, k]`, `["t", n]`; a filesystem as a list of
`[path, content]`.  Requests:
* `stages`  {prog, flags, out, chunks}                → the stage list of the program (kind, label)
* `runs`    {fs, runs:[{prog, flags, out, chunks, crash}]} → state after running the programs one after the
  other in the same process (crash = index of the raising stage, null = no crash)
* `unnamed` {prog, flags} → the non-benign calls of the program's CURRENT source (Generated/OutputTables) that
  the stage list does not name, with the position of the flush among them; `order`, `quiet` = the two
  predicates of `C20_source_*`
* `spec_unchanged` {before, after}, `spec_success` {before, after, out, content} → the property's predicates
-/
namespace PolyplyVerif.Driver.C20

def pathOfJson (j : Json) : Except String Path := do
  let tag ← (← j.getArrVal? 0).getStr?
  match tag with
  | "f" => pure (.file (← (← j.getArrVal? 1).getStr?))
  | "b" => pure (.backup (← (← j.getArrVal? 1).getStr?) (← (← j.getArrVal? 2).getNat?))
  | "t" => pure (.tmp (← (← j.getArrVal? 1).getNat?))
  | _ => throw s!"bad path tag {tag}"

def pathToJson : Path → Json
  | .file n => Json.arr #[Json.str "f", Json.str n]
  | .backup n k => Json.arr #[Json.str "b", Json.str n, toJson k]
  | .tmp n => Json.arr #[Json.str "t", toJson n]

def fsOfJson (j : Json) : Except String FS := do
  let arr ← j.getArr?
  -- later entries of a listing never repeat a path; build with `put` so the map is well formed anyway
  arr.toList.foldlM (fun fs e => do
    let p ← pathOfJson (← e.getArrVal? 0)
    let c ← (← e.getArrVal? 1).getStr?
    pure (fs ++ [(p, c)])) []

def fsToJson (fs : FS) : Json :=
  Json.arr (fs.map (fun (p, c) => Json.arr #[pathToJson p, Json.str c])).toArray

def flag (j : Json) (name : String) : Bool :=
  match j.getObjVal? "flags" with
  | .ok f => match f.getObjVal? name with
    | .ok (Json.bool b) => b
    | _ => false
  | _ => false

def stagesOfJson (j : Json) : Except String (List Stage) := do
  let prog ← (← j.getObjVal? "prog").getStr?
  let out ← (← j.getObjVal? "out").getStr?
  let chunks ← (← j.getObjVal? "chunks").getArr?
  let chunks ← chunks.toList.mapM (·.getStr?)
  match prog with
  | "gen_params" => pure (genParamsStages (flag j "seq_file") (flag j "dsdna") out chunks)
  | "gen_coords" => pure (genCoordsStages (flag j "split") (flag j "coord") (flag j "build") (flag j "skip_filter") out chunks)
  | "gen_seq" => pure (genSeqStages (flag j "from_file") (flag j "mods") out chunks)
  | _ => throw s!"unknown program {prog}"

def stateToJson (st : St) : Json :=
  okJson [("fs", fsToJson st.fs),
          ("queue", Json.arr (st.queue.map (fun (t, o) => Json.arr #[toJson t, Json.str o])).toArray)]

def handle (j : Json) : Except String Json := do
  let op ← (← j.getObjVal? "op").getStr?
  match op with
  | "stages" =>
    let stages ← stagesOfJson j
    pure (okJson [("stages", Json.arr (stages.map (fun s => Json.arr #[Json.str s.kind, Json.str s.label])).toArray)])
  | "runs" =>
    let fs ← fsOfJson (← j.getObjVal? "fs")
    let runs ← (← j.getObjVal? "runs").getArr?
    let st ← runs.toList.foldlM (fun (st : St) r => do
      let stages ← stagesOfJson r
      match r.getObjVal? "crash" with
      | .ok Json.null => pure (run stages st)
      | .ok k => pure (crashRun stages (← k.getNat?) st)
      | .error _ => pure (run stages st)) ⟨fs, [], 0⟩
    pure (stateToJson st)
  | "unnamed" =>
    let prog ← (← j.getObjVal? "prog").getStr?
    let stages ← stagesOfJson (j.setObjVal! "out" (Json.str "o") |>.setObjVal! "chunks" (Json.arr #[Json.str "c"]))
    let (calls, last) ← match prog with
      | "gen_params" => pure (OutputTables.genParamsCalls, "DeferredFileWriter.write")
      | "gen_coords" => pure (OutputTables.genCoordsCalls, "DeferredFileWriter.write")
      | "gen_seq" => pure (OutputTables.genSeqCalls, "json.dump")
      | _ => throw s!"unknown program {prog}"
    let labels := stageLabels stages
    -- for every unnamed call: its name and the label of the first NAMED stage called after it (the model's
    -- crash index for a fault there), null when none follows
    let rows := calls.zipIdx.filterMap fun (r, i) =>
      if CallRow.benign r || labels.any (fun l => matchesLabel l r) then none
      else
        let next := (calls.drop (i + 1)).findSome? fun r' => labels.find? (fun l => matchesLabel l r')
        some (Json.arr #[Json.str (CallRow.name r), toJson r.1, match next with | some l => Json.str l | none => Json.null])
    pure (okJson [("unnamed", Json.arr rows.toArray), ("order", toJson (orderConsistent labels calls)),
                  ("quiet", toJson (quietAfter calls last)),
                  ("found", toJson (labels.filter fun l => (findCall calls l).isSome))])
  | "spec_unchanged" =>
    let a ← fsOfJson (← j.getObjVal? "before")
    let b ← fsOfJson (← j.getObjVal? "after")
    pure (okJson [("holds", Json.bool (specUnchangedB a b))])
  | "spec_success" =>
    let a ← fsOfJson (← j.getObjVal? "before")
    let b ← fsOfJson (← j.getObjVal? "after")
    let out ← (← j.getObjVal? "out").getStr?
    let content ← (← j.getObjVal? "content").getStr?
    pure (okJson [("holds", Json.bool (specSuccessB a b out content)),
                  ("backup", match look a (.file out) with
                    | some _ => toJson (findFree a out)
                    | none => Json.null)])
  | _ => throw s!"unknown op {op}"

end PolyplyVerif.Driver.C20
