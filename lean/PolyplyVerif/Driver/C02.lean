import PolyplyVerif.Driver.Common
import PolyplyVerif.Model.Links
open Lean PolyplyVerif PolyplyVerif.Links

/-! Line protocol of the link model (shared by the C02 driver; the C10/C14 drivers reuse the decoders).
Requests: `{"op":"apply","input":{..}}` model of `ApplyLinks.run_molecule`;
`{"op":"spec","input":{..}}` the specification side (`specOutput` with the independent enumeration
`specMatches`); `{"op":"dangling","names":[..],"ixns":[..]}` the splitting of dangling interactions;
`{"op":"order","o1":..,"r1":..,"o2":..,"r2":..}` `matchOrder`;
`{"op":"explicit","nodes":[..],"edges":[..],"ixns":[..],"xixns":[..]}` `applyExplicit` (`apply_explicit_link`);
`{"op":"parseedges","context":..,"negate":..,"nodes":[..],"a":{..},"b":{..}}` `parseEdgesNew` (`_parse_edges_new`);
`{"op":"run","input":{..},"xixns":[..]}` `runMolecule` (link application followed by the explicit links). -/
namespace PolyplyVerif.Driver.C02

def strOf (j : Json) : Except String String := j.getStr?
def natOf (j : Json) : Except String Nat := j.getNat?
def intOf (j : Json) : Except String Int := j.getInt?
def arrOf (j : Json) : Except String (List Json) := do pure (← j.getArr?).toList

def mattrsOf (j : Json) : Except String MAttrs := do
  (← arrOf j).mapM fun kv => do pure (← strOf (← kv.getArrVal? 0), ← strOf (← kv.getArrVal? 1))

def tmplOf (j : Json) : Except String Tmpl :=
  match j.getObjVal? "eq" with
  | .ok v => do pure (.eq (← strOf v))
  | .error _ => do
    let vs ← arrOf (← j.getObjVal? "choice")
    pure (.choice (← vs.mapM strOf))

def tattrsOf (j : Json) : Except String TAttrs := do
  (← arrOf j).mapM fun kv => do pure (← strOf (← kv.getArrVal? 0), ← tmplOf (← kv.getArrVal? 1))

def orderOf (j : Json) : Except String Order := do
  let kind ← strOf (← j.getArrVal? 0)
  let v ← intOf (← j.getArrVal? 1)
  match kind with
  | "num" => pure (.num v)
  | "rel" => if v == 0 then throw "rel 0" else pure (.rel v)
  | "star" => if v ≤ 0 then throw "star 0" else pure (.star v.toNat)
  | _ => throw s!"order kind {kind}"

def optValOf (j : Json) : Except String (Option Val) :=
  match j with
  | .null => pure none
  | _ => do pure (some (← strOf j))

def latomOf (j : Json) : Except String LAtom := do
  pure { key := ← strOf (← j.getObjVal? "key"), order := ← orderOf (← j.getObjVal? "order"),
         attrs := ← tattrsOf (← j.getObjVal? "attrs"), replace := ← mattrsOf (← j.getObjVal? "replace"),
         removes := ← (← j.getObjVal? "removes").getBool? }

def lixnOf (j : Json) : Except String LIxn := do
  pure { sect := ← strOf (← j.getObjVal? "section"),
         atoms := ← (← arrOf (← j.getObjVal? "atoms")).mapM strOf,
         version := ← natOf (← j.getObjVal? "version"),
         params := ← (← arrOf (← j.getObjVal? "params")).mapM strOf,
         imeta := ← mattrsOf (← j.getObjVal? "meta") }

def linkOf (j : Json) : Except String Link := do
  let atoms ← (← arrOf (← j.getObjVal? "atoms")).mapM latomOf
  let ixns ← (← arrOf (← j.getObjVal? "ixns")).mapM lixnOf
  let edges ← (← arrOf (← j.getObjVal? "edges")).mapM fun e => do
    pure (← strOf (← e.getArrVal? 0), ← strOf (← e.getArrVal? 1), ← optValOf (← e.getArrVal? 2))
  let nonEdges ← (← arrOf (← j.getObjVal? "nonedges")).mapM fun e => do
    pure ({ frm := ← strOf (← e.getObjVal? "frm"), order := ← intOf (← e.getObjVal? "order"),
            attrs := ← tattrsOf (← e.getObjVal? "attrs") } : NonEdge)
  let patterns ← (← arrOf (← j.getObjVal? "patterns")).mapM fun p => do
    (← arrOf p).mapM fun it => do pure (← strOf (← it.getObjVal? "key"), ← tattrsOf (← it.getObjVal? "attrs"))
  let molMeta ← tattrsOf (← j.getObjVal? "molmeta")
  -- preconditions of the model, enforced at the boundary
  for e in edges do
    if !(atoms.any (·.key == e.1)) || !(atoms.any (·.key == e.2.1)) then throw "link edge to an undefined atom"
  for i in ixns do
    for a in i.atoms do
      if !(atoms.any (·.key == a)) then throw "link interaction on an undefined atom"
  for p in patterns do
    for it in p do
      if !(atoms.any (·.key == it.1)) then throw "pattern on an undefined atom"
  pure { atoms, ixns, edges, nonEdges, patterns, molMeta }

def keyValOf (j : Json) : Except String (Key × IVal) := do
  pure (⟨← strOf (← j.getObjVal? "section"), ← (← arrOf (← j.getObjVal? "atoms")).mapM natOf,
         ← natOf (← j.getObjVal? "version")⟩,
        ⟨← (← arrOf (← j.getObjVal? "params")).mapM strOf, ← mattrsOf (← j.getObjVal? "meta")⟩)

def inputOf (j : Json) : Except String Input := do
  let atoms ← (← arrOf (← j.getObjVal? "atoms")).mapM fun a => do
    pure ({ key := ← natOf (← a.getObjVal? "key"), resid := ← intOf (← a.getObjVal? "resid"),
            attrs := ← mattrsOf (← a.getObjVal? "attrs") } : Atom)
  let edges ← (← arrOf (← j.getObjVal? "edges")).mapM fun e => do
    pure (← natOf (← e.getArrVal? 0), ← natOf (← e.getArrVal? 1))
  let ixns ← (← arrOf (← j.getObjVal? "ixns")).mapM keyValOf
  let molMeta ← mattrsOf (← j.getObjVal? "molmeta")
  let res ← (← arrOf (← j.getObjVal? "res")).mapM fun r => do
    let frag ← (← arrOf (← r.getObjVal? "frag")).mapM fun f => do
      pure (← natOf (← f.getObjVal? "key"), ← mattrsOf (← f.getObjVal? "attrs"))
    pure ({ key := ← natOf (← r.getObjVal? "key"), resid := ← intOf (← r.getObjVal? "resid"),
            attrs := ← mattrsOf (← r.getObjVal? "attrs"), frag := frag } : ResNode)
  let redges ← (← arrOf (← j.getObjVal? "redges")).mapM fun e => do
    pure (← natOf (← e.getArrVal? 0), ← natOf (← e.getArrVal? 1), ← optValOf (← e.getArrVal? 2))
  let links ← (← arrOf (← j.getObjVal? "links")).mapM linkOf
  pure { atoms, edges, ixns, molMeta, res, redges, links }

def mattrsToJson (a : MAttrs) : Json := Json.arr (a.map (fun kv => Json.arr #[Json.str kv.1, Json.str kv.2])).toArray

def outputToJson (o : Output) : Json :=
  Json.mkObj [
    ("atoms", Json.arr (o.atoms.map (fun a => Json.arr #[toJson a.1, mattrsToJson a.2])).toArray),
    ("edges", Json.arr (o.edges.map (fun e => Json.arr #[toJson e.1, toJson e.2])).toArray),
    ("ixns", Json.arr (o.ixns.map (fun kv => Json.arr #[Json.str kv.1.sect, toJson kv.1.atoms, toJson kv.1.version,
                                                       toJson kv.2.params, mattrsToJson kv.2.imeta])).toArray),
    ("removed", toJson o.removed)]

def bixnOf (j : Json) : Except String BIxn := do
  pure ⟨← strOf (← j.getArrVal? 0), ← (← arrOf (← j.getArrVal? 1)).mapM natOf, ← (← arrOf (← j.getArrVal? 2)).mapM strOf⟩

def dlinkToJson (l : DLink) : Json :=
  Json.mkObj [
    ("atoms", Json.arr (l.atoms.map (fun a => Json.arr #[Json.str a.1, toJson a.2.1, toJson a.2.2])).toArray),
    ("ixns", Json.arr (l.ixns.map (fun i => Json.arr #[Json.str i.1, toJson i.2.1, toJson i.2.2])).toArray),
    ("tagged", Json.arr (l.tagged.map (fun i => Json.arr #[Json.str i.1, toJson i.2.1, toJson i.2.2.1, toJson i.2.2.2])).toArray)]

/-- an interaction of a `by_atom_id` link: atom tokens are strings; `int(token)` is `String.toInt?` -/
def xixnOf (j : Json) : Except String XIxn := do
  pure { sect := ← strOf (← j.getObjVal? "section"),
         atoms := (← (← arrOf (← j.getObjVal? "atoms")).mapM strOf).map String.toInt?,
         params := ← (← arrOf (← j.getObjVal? "params")).mapM strOf,
         imeta := ← mattrsOf (← j.getObjVal? "meta") }

def xresToJson (r : Except XErr XSt) : Json :=
  match r with
  | .error .value => okJson [("status", Json.str "ValueError")]
  | .error .io => okJson [("status", Json.str "IOError")]
  | .ok s =>
    okJson [("status", Json.str "ok"),
            ("ixns", Json.arr (s.ixns.map (fun kv => Json.arr #[Json.str kv.1.sect, toJson kv.1.atoms, toJson kv.2.params,
                                                         mattrsToJson kv.2.imeta])).toArray),
            ("edges", Json.arr (s.edges.map (fun e => Json.arr #[toJson e.1, toJson e.2])).toArray)]

def handle (j : Json) : Except String Json := do
  let op ← strOf (← j.getObjVal? "op")
  match op with
  | "apply" =>
    let inp ← inputOf (← j.getObjVal? "input")
    let out := applyLinks inp
    pure (okJson [("out", outputToJson out), ("collisions", toJson (sameLinkCollisions inp)),
                  ("nevents", toJson (events inp (initSt inp) (cands inp)).length),
                  ("ncands", toJson (cands inp).length)])
  | "spec" =>
    let inp ← inputOf (← j.getObjVal? "input")
    -- `out`: the property (every link whose molmeta fits is a candidate); `out_prefilter`: the same
    -- specification restricted to the links the code's residue-name pre-filter lets through
    pure (okJson [("out", outputToJson (specOutput inp (specMatches inp))),
                  ("out_prefilter", outputToJson (specOutput { inp with links := inp.links.filter (prefilter inp) } (specMatches inp)))])
  | "explicit" =>
    -- `apply_explicit_link` on a molecule given by its nodes, edges and interactions
    let nodes ← (← arrOf (← j.getObjVal? "nodes")).mapM natOf
    let edges ← (← arrOf (← j.getObjVal? "edges")).mapM fun e => do
      pure (← natOf (← e.getArrVal? 0), ← natOf (← e.getArrVal? 1))
    let ixns ← (← arrOf (← j.getObjVal? "ixns")).mapM keyValOf
    let xs ← (← arrOf (← j.getObjVal? "xixns")).mapM xixnOf
    let s : XSt := ⟨ixns.map (fun kv => (⟨kv.1.sect, kv.1.atoms, verTok kv.2.imeta⟩, kv.2)), edges⟩
    pure (xresToJson (applyExplicit nodes s xs))
  | "run" =>
    -- the whole of `run_molecule` up to `expand_excl`: link application, flush, explicit links
    let inp ← inputOf (← j.getObjVal? "input")
    let xs ← (← arrOf (← j.getObjVal? "xixns")).mapM xixnOf
    pure (xresToJson (runMolecule inp xs))
  | "dangling" =>
    let names ← (← arrOf (← j.getObjVal? "names")).mapM strOf
    let ixns ← (← arrOf (← j.getObjVal? "ixns")).mapM bixnOf
    let r := splitDangling names ixns
    pure (okJson [("links", Json.arr (r.1.map dlinkToJson).toArray),
                  ("kept", Json.arr (r.2.map (fun i => Json.arr #[Json.str i.sect, toJson i.atoms, toJson i.params])).toArray)])
  | "windows" =>
    let n ← natOf (← j.getObjVal? "n")
    let nres ← natOf (← j.getObjVal? "nres")
    let ixns ← (← arrOf (← j.getObjVal? "ixns")).mapM bixnOf
    pure (okJson [("expected", Json.arr ((danglingWindows n nres ixns).map
      (fun i => Json.arr #[Json.str i.1, toJson i.2.1, toJson i.2.2])).toArray)])
  | "parseedges" =>
    -- `ff_parser_sub._parse_edges_new` on a line with two atoms
    let ct ← strOf (← j.getObjVal? "context")
    let negate ← (← j.getObjVal? "negate").getBool?
    let nodes ← (← arrOf (← j.getObjVal? "nodes")).mapM strOf
    let atomOf := fun (a : Json) => do
      pure ({ ref := ← strOf (← a.getObjVal? "ref"), attrs := ← mattrsOf (← a.getObjVal? "attrs") } : EdgeAtom)
    let a ← atomOf (← j.getObjVal? "a")
    let b ← atomOf (← j.getObjVal? "b")
    match parseEdgesNew ct negate nodes a b with
    | .ioError => pure (okJson [("result", Json.str "IOError")])
    | .keyError => pure (okJson [("result", Json.str "KeyError")])
    | .edge x y attrs => pure (okJson [("result", Json.arr #[Json.str x, Json.str y, mattrsToJson attrs])])
  | "checkorder" =>
    -- `_check_relative_order(resids, orders)` for any list of pairs (repeated orders included)
    let pairs ← (← arrOf (← j.getObjVal? "pairs")).mapM fun p => do
      pure (← orderOf (← p.getArrVal? 0), ← intOf (← p.getArrVal? 1))
    pure (okJson [("accept", toJson (checkRelativeOrderPy pairs))])
  | "order" =>
    let o1 ← orderOf (← j.getObjVal? "o1")
    let o2 ← orderOf (← j.getObjVal? "o2")
    let r1 ← intOf (← j.getObjVal? "r1")
    let r2 ← intOf (← j.getObjVal? "r2")
    pure (okJson [("match", toJson (matchOrder o1 r1 o2 r2))])
  | _ => throw s!"unknown op {op}"

end PolyplyVerif.Driver.C02
