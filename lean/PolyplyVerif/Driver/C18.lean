import PolyplyVerif.Driver.Common
import PolyplyVerif.Model.BuildFile
import PolyplyVerif.Model.BuildFileText
import PolyplyVerif.Model.BuildFileTextSizes
open Lean PolyplyVerif PolyplyVerif.BuildFile

/-!
Driver of C18 (see `Model/BuildFile.lean`).  Encodings:
molecule `{"name":…, "nodes":[[key, resid, resname, null | [ligIdx, ligNode]]]}`;
block `{"name","lo","hi","lines":[["geometry"|"rw", resname, rlo, rhi, payload] | ["dist", a, b, payload] |
["pers", start, stop, payload]]}`; spec `[molname|null, idx|null, resname|null, resid|null]`;
atom `[key, resid, resname, atomname]`; split `{"resname", "parts":[[newname,[atomnames]]]}`.
-/
namespace PolyplyVerif.Driver.C18

def optOf {α} (j : Json) (f : Json → Except String α) : Except String (Option α) :=
  match j with
  | Json.null => pure none
  | x => (f x).map some

def optToJson {α} (f : α → Json) : Option α → Json
  | none => Json.null
  | some a => f a

def natsToJson (l : List Nat) : Json := Json.arr (l.map toJson).toArray

def nodeOfJson (j : Json) : Except String ResNode := do
  let lig ← match j.getArrVal? 3 with
    | .ok Json.null => pure none
    | .ok x => do pure (some ((← (← x.getArrVal? 0).getNat?), (← (← x.getArrVal? 1).getNat?)))
    | .error _ => pure none
  pure { key := ← (← j.getArrVal? 0).getNat?, resid := ← (← j.getArrVal? 1).getInt?,
         resname := ← (← j.getArrVal? 2).getStr?, ligated := lig }

def nodeToJson (v : ResNode) : Json :=
  Json.arr #[toJson v.key, toJson v.resid, Json.str v.resname,
    optToJson (fun (p : Nat × Nat) => Json.arr #[toJson p.1, toJson p.2]) v.ligated]

def molOfJson (j : Json) : Except String Mol := do
  let nodes ← (← j.getObjVal? "nodes").getArr?
  pure { name := ← (← j.getObjVal? "name").getStr?, nodes := ← nodes.toList.mapM nodeOfJson }

def molToJson (m : Mol) : Json :=
  Json.mkObj [("name", Json.str m.name), ("nodes", Json.arr (m.nodes.map nodeToJson).toArray)]

def molsOfJson (j : Json) : Except String (List Mol) := do
  (← (← j.getObjVal? "mols").getArr?).toList.mapM molOfJson

def resDirOfJson (j : Json) : Except String ResDir := do
  pure { resname := ← (← j.getArrVal? 1).getStr?, rlo := ← (← j.getArrVal? 2).getInt?,
         rhi := ← (← j.getArrVal? 3).getInt?, payload := ← (← j.getArrVal? 4).getNat? }

def lineOfJson (j : Json) : Except String Line := do
  let kind ← (← j.getArrVal? 0).getStr?
  match kind with
  | "geometry" => pure (.geometry (← resDirOfJson j))
  | "rw" => pure (.rw (← resDirOfJson j))
  | "dist" => pure (.dist (← (← j.getArrVal? 1).getNat?) (← (← j.getArrVal? 2).getNat?) (← (← j.getArrVal? 3).getNat?))
  | "pers" => pure (.pers (← (← j.getArrVal? 1).getNat?) (← (← j.getArrVal? 2).getNat?) (← (← j.getArrVal? 3).getNat?))
  | _ => throw s!"unknown line kind {kind}"

def blockOfJson (j : Json) : Except String Block := do
  let lines ← (← j.getObjVal? "lines").getArr?
  pure { name := ← (← j.getObjVal? "name").getStr?, lo := ← (← j.getObjVal? "lo").getNat?,
         hi := ← (← j.getObjVal? "hi").getNat?, lines := ← lines.toList.mapM lineOfJson }

def annToJson (anns : List NodeAnn) : Json :=
  Json.arr (anns.map fun a => Json.arr #[toJson a.molIdx, toJson a.key, natsToJson a.restraints, natsToJson a.rw]).toArray

def distToJson (l : List (Nat × Nat × Nat × Nat)) : Json :=
  Json.arr (l.map fun (i, a, b, p) => natsToJson [i, a, b, p]).toArray

def persToJson (l : List (Nat × List Nat)) : Json :=
  Json.arr (l.map fun (p, idxs) => Json.arr #[toJson p, natsToJson idxs]).toArray

def specToJson (sp : Spec) : Json :=
  Json.arr #[optToJson Json.str sp.molname, optToJson toJson sp.molIdx, optToJson Json.str sp.resname,
             optToJson toJson sp.resid]

def specOfJson (j : Json) : Except String Spec := do
  pure { molname := ← optOf (← j.getArrVal? 0) (·.getStr?), molIdx := ← optOf (← j.getArrVal? 1) (·.getNat?),
         resname := ← optOf (← j.getArrVal? 2) (·.getStr?), resid := ← optOf (← j.getArrVal? 3) (·.getNat?) }

def startToJson (l : List (Option Nat)) : Json := Json.arr (l.map (optToJson toJson)).toArray

def atomOfJson (j : Json) : Except String Atom := do
  pure { key := ← (← j.getArrVal? 0).getNat?, resid := ← (← j.getArrVal? 1).getInt?,
         resname := ← (← j.getArrVal? 2).getStr?, atomname := ← (← j.getArrVal? 3).getStr? }

def splitOfJson (j : Json) : Except String SplitDef := do
  let parts ← (← j.getObjVal? "parts").getArr?
  let parts ← parts.toList.mapM fun p => do
    let names ← (← p.getArrVal? 1).getArr?
    pure ((← (← p.getArrVal? 0).getStr?), (← names.toList.mapM (·.getStr?)))
  pure { resname := ← (← j.getObjVal? "resname").getStr?, parts := parts }

def residuesToJson (l : List (Nat × String × List Nat)) : Json :=
  Json.arr (l.map fun (i, n, ks) => Json.arr #[toJson i, Json.str n, natsToJson ks]).toArray

def residuesOfJson (j : Json) : Except String (List (Nat × String × List Nat)) := do
  (← j.getArr?).toList.mapM fun r => do
    let ks ← (← r.getArrVal? 2).getArr?
    pure ((← (← r.getArrVal? 0).getNat?), (← (← r.getArrVal? 1).getStr?), (← ks.toList.mapM (·.getNat?)))

def posOfJson (j : Json) : Except String (PosTable String) := do
  (← j.getArr?).toList.mapM fun e => do
    let k ← e.getArrVal? 0
    pure (((← (← k.getArrVal? 0).getNat?), (← (← k.getArrVal? 1).getNat?)), (← (← e.getArrVal? 1).getStr?))

def posToJson (t : PosTable String) : Json :=
  Json.arr (t.map fun (k, p) => Json.arr #[natsToJson [k.1, k.2], Json.str p]).toArray

def parseSpecs (j : Json) (field : String) : Except String (Except String (List Spec)) := do
  let texts ← (← j.getObjVal? field).getArr?
  let texts ← texts.toList.mapM (·.getStr?)
  pure (texts.mapM parseSpec)

/-! #### text level (`Model/BuildFileText.lean`): rationals travel as "num/den" strings -/
section text
open PolyplyVerif.BuildFileText

def ratsToJson (l : List Rat) : Json := Json.arr (l.map toJson).toArray

def v3ToJson (p : Rat × Rat × Rat) : Json := ratsToJson [p.1, p.2.1, p.2.2]

/-- `{"resname","start","stop","parameters":[inout, point, *params, type]}` with the translated layout -/
def geomToJson (g : Geom) : Json :=
  let params := BuildFileTables.geomLayout.flatMap fun
    | "inout" => [Json.str g.inout]
    | "point" => [v3ToJson g.point]
    | "rest" => g.params.map toJson
    | "type" => [Json.str g.kind]
    | _ => [Json.null]
  Json.arr #[Json.str g.resname, toJson g.start, toJson g.stop, Json.arr params.toArray]

def rwToJson (d : RwDef) : Json :=
  Json.arr #[Json.str d.resname, toJson d.start, toJson d.stop, Json.arr #[v3ToJson d.vec, toJson d.angle]]

def recDist (p : Parsed) (payload : Nat) : Json :=
  match p.recs[payload]? with
  | some (.dist d) => Json.arr #[toJson d.dist, toJson d.tol]
  | _ => Json.null

def recPers (p : Parsed) (payload : Nat) : Json :=
  match p.recs[payload]? with
  | some (.pers d) => Json.arr #[Json.str d.model, toJson d.lp, toJson d.start, toJson d.stop]
  | _ => Json.null

def geomPayloads (p : Parsed) (l : List Nat) : Json := Json.arr (l.map fun k => optToJson geomToJson (p.geomOf k)).toArray
def rwPayloads (p : Parsed) (l : List Nat) : Json := Json.arr (l.map fun k => optToJson rwToJson (p.rwOf k)).toArray

def keyJson (k : MKey) (v : Json) : Json := Json.arr #[Json.str k.1, toJson k.2, v]

def parsedToJson (mols : List Mol) (p : Parsed) : Json :=
  okJson [
    ("options", Json.arr (p.dir.buildOptions.map fun (k, ds) => keyJson k (geomPayloads p (ds.map (·.payload)))).toArray),
    ("rw", Json.arr (p.dir.rwOptions.map fun (k, d) => keyJson k (optToJson rwToJson (p.rwOf d.payload))).toArray),
    ("dist", Json.arr (p.dir.dist.map fun (k, inner) =>
        keyJson k (Json.arr (inner.map fun (ab, q) => Json.arr #[toJson ab.1, toJson ab.2, recDist p q]).toArray)).toArray),
    ("pers", Json.arr (p.dir.pers.map fun (_, _, q, idxs) => Json.arr #[recPers p q, natsToJson idxs]).toArray),
    ("volumes", Json.arr (p.volumes.map fun (r, v) => Json.arr #[Json.str r, toJson v]).toArray),
    ("bending", Json.arr (p.bending.map fun (k, v) => Json.arr #[Json.str k.1, Json.str k.2.1, Json.str k.2.2, toJson v]).toArray),
    ("templates", Json.arr (p.templates.map fun t => Json.arr #[Json.str t.resname,
        Json.arr (t.atoms.map fun a => Json.arr #[Json.str a.name, Json.str a.atype, ratsToJson a.pos]).toArray,
        Json.arr (t.bonds.map fun b => Json.arr #[Json.str b.1, Json.str b.2]).toArray]).toArray),
    ("ann", Json.arr ((annotate p.dir mols).map fun a =>
        Json.arr #[toJson a.molIdx, toJson a.key, geomPayloads p a.restraints, rwPayloads p a.rw]).toArray),
    ("spec_ann", Json.arr ((specAnnotate p.blocks mols).map fun a =>
        Json.arr #[toJson a.molIdx, toJson a.key, geomPayloads p a.restraints, rwPayloads p a.rw]).toArray),
    ("nblocks", toJson p.blocks.length)]

end text

def handle (j : Json) : Except String Json := do
  let op ← (← j.getObjVal? "op").getStr?
  match op with
  | "build_text" =>
    let mols ← molsOfJson j
    let lines ← (← (← j.getObjVal? "lines").getArr?).toList.mapM (·.getStr?)
    match BuildFileText.readBuildFile mols (lines.map (·.toList)) with
    | .error e => pure (errJson e)
    | .ok p => pure (parsedToJson mols p)
  | "build_text_sizes" =>
    let lines ← (← (← j.getObjVal? "lines").getArr?).toList.mapM (·.getStr?)
    let vols0 ← (← (← j.getObjVal? "volumes0").getArr?).toList.mapM fun e => do
      pure ((← (← e.getArrVal? 0).getStr?), (← ratOfJson (← e.getArrVal? 1)))
    let oracle ← (← (← j.getObjVal? "oracle").getArr?).toList.mapM fun e => do
      pure ((← (← e.getArrVal? 0).getStr?), (← ratOfJson (← e.getArrVal? 1)))
    match BuildFileText.sizesOfText BuildFileTables.sectionParsers vols0 oracle (lines.map (·.toList)) with
    | .error e => pure (errJson e)
    | .ok (vols, templ) => pure (okJson [
        ("volumes", Json.arr (vols.map fun (k, v) => Json.arr #[Json.str k, toJson v]).toArray),
        ("templates", Json.arr (templ.map fun (h, t) => Json.arr #[Json.str h,
          Json.arr (t.map fun (n, p) => Json.arr #[Json.str n, ratsToJson [p.x, p.y, p.z]]).toArray]).toArray)])
  | "tokens" =>
    let texts ← (← (← j.getObjVal? "texts").getArr?).toList.mapM (·.getStr?)
    pure (okJson [("tokens", Json.arr (texts.map fun t =>
      Json.arr ((BuildFileText.splitWs t.toList).map fun tok => Json.str (String.ofList tok)).toArray).toArray)])
  | "numbers" =>
    let toks ← (← (← j.getObjVal? "toks").getArr?).toList.mapM (·.getStr?)
    pure (okJson [("values", Json.arr (toks.map fun t =>
      Json.arr #[optToJson toJson (BuildFileText.readFloat t.toList), optToJson toJson (BuildFileText.readInt t.toList)]).toArray)])
  | "sections" =>
    -- the section reached from `cur` by the header `[ h ]`, and whether a data line can be parsed there
    let qs ← (← (← j.getObjVal? "queries").getArr?).toList.mapM fun q => do
      let cur ← (← (← q.getArrVal? 0).getArr?).toList.mapM (·.getStr?)
      pure (cur, ← (← q.getArrVal? 1).getStr?)
    pure (okJson [("sections", Json.arr (qs.map fun (cur, h) =>
      let s := BuildFileText.enterSection BuildFileTables.sectionParsers cur (BuildFileText.headerName h.toList)
      Json.arr #[Json.arr (s.map Json.str).toArray, Json.bool (BuildFileText.known BuildFileTables.sectionParsers s)]).toArray)])
  | "build" =>
    let mols ← molsOfJson j
    let blocks ← (← (← j.getObjVal? "blocks").getArr?).toList.mapM blockOfJson
    match parseBlocks mols blocks with
    | .error e => pure (errJson e)
    | .ok dir => pure (okJson [("ann", annToJson (annotate dir mols)), ("dist", distToJson (distApplied dir)),
                               ("pers", persToJson (persApplied dir))])
  | "build_spec" =>
    let mols ← molsOfJson j
    let blocks ← (← (← j.getObjVal? "blocks").getArr?).toList.mapM blockOfJson
    pure (okJson [("ann", annToJson (specAnnotate blocks mols)), ("dist", distToJson (specDist blocks mols)),
                  ("pers", persToJson (specPers blocks mols))])
  | "parse_spec" =>
    match parseSpec (← (← j.getObjVal? "text").getStr?) with
    | .ok sp => pure (okJson [("spec", specToJson sp)])
    | .error e => pure (errJson e)
  | "render_spec" =>
    pure (okJson [("text", Json.str (renderSpec (← specOfJson (← j.getObjVal? "spec"))))])
  | "start" =>
    let mols ← molsOfJson j
    match ← parseSpecs j "specs" with
    | .error e => pure (errJson e)
    | .ok specs => match findStart mols specs with
      | .ok st => pure (okJson [("start", startToJson st)])
      | .error e => pure (errJson e)
  | "start_spec" =>
    let mols ← molsOfJson j
    match ← parseSpecs j "specs" with
    | .error e => pure (errJson e)
    | .ok specs => pure (okJson [("start", startToJson (specStart mols specs)), ("valid", Json.bool (specStartValid mols specs))])
  | "lig" =>
    let mols ← molsOfJson j
    let pairs ← (← (← j.getObjVal? "pairs").getArr?).toList.mapM fun p => do
      pure ((← (← p.getArrVal? 0).getStr?), (← (← p.getArrVal? 1).getStr?))
    match pairs.mapM (fun p => do pure ((← parseSpec p.1), (← parseSpec p.2))) with
    | .error e => pure (errJson e)
    | .ok specs => match ligDefs mols specs with
      | .error e => pure (errJson e)
      | .ok defs => match attachAll mols defs with
        | .error e => pure (errJson e)
        | .ok r => pure (okJson [
            ("defs", Json.arr (defs.map fun (i, d) => natsToJson [i, d.molNode, d.ligIdx]).toArray),
            ("mols", Json.arr (r.1.map molToJson).toArray),
            ("edges", Json.arr (r.2.map fun (i, a, b) => natsToJson [i, a, b]).toArray)])
  | "detach" =>
    let mols ← molsOfJson j
    let pos ← posOfJson (← j.getObjVal? "pos")
    let r := detachAll mols pos
    pure (okJson [("mols", Json.arr (r.1.map molToJson).toArray), ("pos", posToJson r.2)])
  | "lig_spec" =>
    let orig ← (← (← j.getObjVal? "orig").getArr?).toList.mapM molOfJson
    let attached ← molsOfJson j
    let final ← (← (← j.getObjVal? "final").getArr?).toList.mapM molOfJson
    let pos ← posOfJson (← j.getObjVal? "pos")
    let posAfter ← posOfJson (← j.getObjVal? "pos_after")
    let edges ← (← (← j.getObjVal? "edges").getArr?).toList.mapM fun e => do
      pure ((← (← e.getArrVal? 0).getNat?), (← (← e.getArrVal? 1).getNat?), (← (← e.getArrVal? 2).getNat?))
    let pairs ← (← (← j.getObjVal? "pairs").getArr?).toList.mapM fun p => do
      pure ((← (← p.getArrVal? 0).getStr?), (← (← p.getArrVal? 1).getStr?))
    let specs := match pairs.mapM (fun p => do pure ((← parseSpec p.1), (← parseSpec p.2))) with
      | .ok s => s
      | .error _ => []
    let a := ligStructureSame orig final
    let b := ligPositionsHanded attached pos posAfter
    let c := ligOthersKept attached pos posAfter
    let d := ligAttachOkB orig attached edges specs
    pure (okJson [("holds", Json.bool (a && b && c && d)),
                  ("why", Json.str ((if a then "" else "the molecule list changed; ") ++
                    (if d then "" else "the attached nodes are not the ones the specifications select; ") ++
                    (if b then "" else "a ligand residue does not hold the position generated for its attached node; ") ++
                    (if c then "" else "another residue lost its position; ")))])
  | "split" =>
    let atoms ← (← (← j.getObjVal? "atoms").getArr?).toList.mapM atomOfJson
    let maxResid ← (← j.getObjVal? "max_resid").getInt?
    let sds ← (← (← j.getObjVal? "splits").getArr?).toList.mapM splitOfJson
    match splitResidue atoms maxResid sds with
    | .error e => pure (errJson e)
    | .ok r => pure (okJson [("residues", residuesToJson r.residues),
        ("atoms", Json.arr (r.atoms.map fun a => Json.arr #[toJson a.key, toJson a.resid, Json.str a.resname]).toArray)])
  | "split_spec" =>
    let atoms ← (← (← j.getObjVal? "atoms").getArr?).toList.mapM atomOfJson
    let sd ← splitOfJson (← j.getObjVal? "split")
    let residues ← residuesOfJson (← j.getObjVal? "residues")
    pure (okJson [("holds", Json.bool (splitSpecB atoms sd residues)),
                  ("valid", Json.bool (decide ((listedNames sd).Nodup)))])
  | _ => throw s!"unknown op {op}"

end PolyplyVerif.Driver.C18
