/-
Line protocol shared by all drivers: one JSON request per input line, one JSON answer per output line.
Only `Lean.Data.Json` is imported (no Mathlib), the models themselves stay core-only.
-/
import Lean.Data.Json
open Lean

namespace PolyplyVerif.Driver

/-- exact rationals travel as strings "num/den" (or "num") -/
def ratToJson (r : Rat) : Json := Json.str (if r.den == 1 then toString r.num else s!"{r.num}/{r.den}")

def ratOfString? (s : String) : Option Rat :=
  match s.splitOn "/" with
  | [n] => n.toInt?.map (fun i => (i : Rat))
  | [n, d] => match n.toInt?, d.toNat? with
    | some i, some k => if k == 0 then none else some ((i : Rat) / (k : Rat))
    | _, _ => none
  | _ => none

def ratOfJson (j : Json) : Except String Rat :=
  match j with
  | .str s => match ratOfString? s with
    | some r => .ok r
    | none => .error s!"bad rational {s}"
  | .num n => if n.exponent == 0 then .ok (n.mantissa : Rat) else
      .ok ((n.mantissa : Rat) / ((10 ^ n.exponent : Nat) : Rat))
  | _ => .error "rational expected"

instance : ToJson Rat := ⟨ratToJson⟩
instance : FromJson Rat := ⟨ratOfJson⟩

def okJson (fields : List (String × Json)) : Json := Json.mkObj (("ok", Json.bool true) :: fields)
def errJson (msg : String) : Json := Json.mkObj [("ok", Json.bool false), ("err", Json.str msg)]

partial def serve (handle : Json → Except String Json) : IO Unit := do
  let stdin ← IO.getStdin
  let stdout ← IO.getStdout
  let rec loop : IO Unit := do
    let line ← stdin.getLine
    if line.isEmpty then return ()
    let t := line.trimAscii.toString
    if t.isEmpty then loop else
    let out := match Json.parse t with
      | .error e => Json.mkObj [("ok", Json.bool false), ("err", Json.str s!"protocol: {e}")]
      | .ok j => match handle j with
        | .ok r => r
        | .error e => Json.mkObj [("ok", Json.bool false), ("err", Json.str s!"protocol: {e}")]
    stdout.putStrLn out.compress
    loop
  loop
  stdout.flush

end PolyplyVerif.Driver
