/-
Line-protocol driver of C15: the model of template/size bookkeeping, `map_from_CoG`, the virtual-site
constructions, the `optimize_geometry` verdict and `compute_volume`, plus the specification predicates;
`handleBlock`: `extract_block`, `_relabel_interaction_atoms`, `find_interaction_involving`, `_good_impropers`,
`_expand_inital_coords`, `renew_vs` and the energy of `target_function` (`Model/TemplatesBlock.lean`).
Imports the model and the generated tables only (no proof file).
-/
import PolyplyVerif.Driver.Common
import PolyplyVerif.Generated.TemplateTables
import PolyplyVerif.Model.Rotation
import PolyplyVerif.Model.Templates
import PolyplyVerif.Model.TemplatesBlock
open Lean PolyplyVerif PolyplyVerif.Rot PolyplyVerif.Templ PolyplyVerif.TemplBlock

namespace PolyplyVerif.Driver.C15

/-- `√q` to about 30 digits (exact on perfect squares of that size): the driver's stand-in for `nrm` -/
def ratSqrt (q : Rat) : Rat :=
  if q ≤ 0 then 0 else
    let scale : Nat := 10 ^ 30
    let n : Nat := q.num.toNat * q.den * scale * scale
    (Nat.sqrt n : Rat) / ((q.den * scale : Nat) : Rat)

def ratAt (j : Json) (i : Nat) : Except String Rat := do ratOfJson (← j.getArrVal? i)
def v3OfJson (j : Json) : Except String (V3 Rat) := do pure ⟨← ratAt j 0, ← ratAt j 1, ← ratAt j 2⟩
def v3ToJson (v : V3 Rat) : Json := Json.arr #[ratToJson v.x, ratToJson v.y, ratToJson v.z]
def listOf {β : Type} (f : Json → Except String β) (j : Json) : Except String (List β) := do
  (← j.getArr?).toList.mapM f
def strAt (j : Json) (i : Nat) : Except String String := do (← j.getArrVal? i).getStr?
def templateOfJson (j : Json) : Except String (Template Rat) :=
  listOf (fun kv => do pure ((← strAt kv 0), (← v3OfJson (← kv.getArrVal? 1)))) j
def templateToJson (t : Template Rat) : Json :=
  Json.arr (t.map fun (k, v) => Json.arr #[Json.str k, v3ToJson v]).toArray
def field (j : Json) (k : String) : Except String Json := j.getObjVal? k
def optV3ToJson : Option (V3 Rat) → Json
  | some v => okJson [("v", v3ToJson v)]
  | none => errJson "raises"

def bfOpOfJson (j : Json) : Except String (BfOp Rat) := do
  match ← (← field j "kind").getStr? with
  | "volume" => pure (.volume (← (← field j "resname").getStr?) (← ratOfJson (← field j "v")))
  | "template" =>
    pure (.template (← (← field j "resname").getStr?) (← (← field j "hash").getStr?)
      (← templateOfJson (← field j "coords")) (← ratOfJson (← field j "volume")))
  | k => throw s!"unknown build-file op {k}"

def molOfJson (j : Json) : Except String (List (ResNode String)) :=
  listOf (fun n => do pure ⟨← strAt n 0, ← strAt n 1⟩) j

def itemOfJson (j : Json) : Except String Item := do
  pure ⟨← (← field j "kind").getStr?, ← (← field j "improper").getBool?,
        ← ratOfJson (← field j "value"), ← ratOfJson (← field j "target")⟩

def sizeToJson : Size → Json
  | .sqrtOf q => Json.mkObj [("kind", "sqrt"), ("q", ratToJson q)]
  | .exact r => Json.mkObj [("kind", "exact"), ("r", ratToJson r)]
  | .error => Json.mkObj [("kind", "error")]

def dictToJson {β : Type} (f : β → Json) (d : Dict β) : Json :=
  Json.arr (d.map fun (k, v) => Json.arr #[Json.str k, f v]).toArray


/-! #### blocks (`Model/TemplatesBlock.lean`) -/

def strList (j : Json) : Except String (List String) := listOf (·.getStr?) j
def natList (j : Json) : Except String (List Nat) := listOf (·.getNat?) j

def ixnNatOfJson (j : Json) : Except String (Ixn Nat) := do
  pure ⟨← natList (← field j "atoms"), ← strList (← field j "params"), ← (← field j "edge").getBool?⟩
def ixnStrOfJson (j : Json) : Except String (Ixn String) := do
  pure ⟨← strList (← field j "atoms"), ← strList (← field j "params"), ← (← field j "edge").getBool?⟩
def ixnNatToJson (i : Ixn Nat) : Json :=
  Json.mkObj [("atoms", toJson i.atoms), ("params", toJson i.params), ("edge", Json.bool i.edge)]
def ixnStrToJson (i : Ixn String) : Json :=
  Json.mkObj [("atoms", toJson i.atoms), ("params", toJson i.params), ("edge", Json.bool i.edge)]
def typedOfJson {β : Type} (f : Json → Except String β) (j : Json) : Except String (Dict (List β)) :=
  listOf (fun kv => do pure ((← strAt kv 0), (← listOf f (← kv.getArrVal? 1)))) j
def typedToJson {β : Type} (f : β → Json) (d : Dict (List β)) : Json :=
  dictToJson (fun l => Json.arr (l.map f).toArray) d
def nameFun (j : Json) : Except String (Nat → String) := do
  let tab ← listOf (fun kv => do pure ((← (← kv.getArrVal? 0).getNat?), (← strAt kv 1))) j
  pure fun n => (tab.lookup n).getD ""
def definesOfJson (j : Json) : Except String (Dict (List String)) :=
  listOf (fun kv => do pure ((← strAt kv 0), (← strList (← kv.getArrVal? 1)))) j
def vsIxnOfJson (j : Json) : Except String VsIxn := do
  pure ⟨← strList (← field j "atoms"), ← (← field j "func").getStr?, ← listOf ratOfJson (← field j "params")⟩

def handleBlock (op : String) (j : Json) : Except String Json := do
  match op with
  | "extract_block" =>
    let name ← nameFun (← field j "names")
    let nodes ← natList (← field j "nodes")
    let mol ← typedOfJson ixnNatOfJson (← field j "interactions")
    let defines ← definesOfJson (← field j "defines")
    let block := extractBlock TemplateTables.edgeTypes name (fun n => n) mol nodes defines
    pure (okJson [("nodes", Json.arr (block.nodes.map fun (k, n) => Json.arr #[Json.str k, toJson n]).toArray),
                  ("interactions", typedToJson ixnStrToJson block.interactions),
                  ("edges", Json.arr (block.edges.map fun (a, b) => Json.arr #[Json.str a, Json.str b]).toArray),
                  ("molecule_after", typedToJson ixnNatToJson (moleculeAfter defines (mapping name nodes) mol)),
                  -- specification side: distinct names in order of first occurrence; the interactions inside
                  ("spec_names", toJson (firstOccurrences (nodes.map name))),
                  ("spec_inside", typedToJson ixnStrToJson
                    (mol.map fun (t, is) => (t, (is.filter (insideResidue nodes)).map (image name defines))))])
  | "relabel" =>
    let name ← nameFun (← field j "names")
    let nodes ← natList (← field j "nodes")
    match relabelAtoms (mapping name nodes) (← ixnNatOfJson (← field j "interaction")) with
    | some b => pure (okJson [("interaction", ixnStrToJson b)])
    | none => pure (errJson "KeyError")
  | "find" =>
    let inters ← typedOfJson ixnStrOfJson (← field j "interactions")
    let cur ← (← field j "cur").getStr?
    let prev ← (← field j "prev").getStr?
    match findInteraction TemplateTables.findSearchTypes TemplateTables.findClass inters cur prev with
    | some (vs, i, t) => pure (okJson [("vs", Json.bool vs), ("interaction", ixnStrToJson i), ("type", Json.str t)])
    | none => pure (errJson "IOError")
  | "good_impropers" =>
    let items ← listOf (fun d => do
      pure (⟨← (← field d "func").getStr?, ← ratOfJson (← field d "angle"), ← ratOfJson (← field d "ref")⟩ : Improper))
      (← field j "items")
    let atol ← ratOfJson (← field j "atol")
    pure (okJson [("good", Json.bool (goodImpropers TemplateTables.improperFunc atol items))])
  | "expand" =>
    let goods ← listOf (·.getBool?) (← field j "goods")
    let maxCount ← (← field j "max_count").getNat?
    let r := expandInitialCoords (fun k => k) (fun k => goods.getD k false) maxCount
    pure (okJson [("index", toJson r.1), ("calls", toJson r.2), ("default_max_count", toJson TemplateTables.expandMaxCount)])
  | "renew_vs" =>
    let inters ← typedOfJson vsIxnOfJson (← field j "interactions")
    let pos ← templateOfJson (← field j "positions")
    match renewVS TemplateTables.renewVsTypes TemplateTables.vsTable ratSqrt inters pos with
    | some out => pure (okJson [("positions", templateToJson out)])
    | none => pure (errJson "raises")
  | "energy" =>
    let items ← listOf itemOfJson (← field j "items")
    pure (okJson [("energy", ratToJson (energy TemplateTables.weights TemplateTables.interMethods
      TemplateTables.penaltyWeightKey items))])
  | _ => throw s!"unknown op {op}"

def handle (j : Json) : Except String Json := do
  let op ← (← field j "op").getStr?
  match op with
  | "map_from_cog" =>
    let t ← templateOfJson (← field j "coords")
    pure (okJson [("out", templateToJson (mapFromCoG t))])
  | "vs" =>
    -- the model of construct_vs, dispatched through the translated VIRTUAL_SITES table
    let params ← listOf ratOfJson (← field j "params")
    let xs ← listOf v3OfJson (← field j "xs")
    pure (optV3ToJson (constructVS TemplateTables.vsTable ratSqrt (← (← field j "vs_type").getStr?)
      (← (← field j "func").getStr?) params xs))
  | "gmx" =>
    -- the GROMACS definition (specification side)
    let params ← listOf ratOfJson (← field j "params")
    let masses ← listOf ratOfJson (← field j "masses")
    let xs ← listOf v3OfJson (← field j "xs")
    let want := gmxConstruct ratSqrt (← (← field j "vs_type").getStr?) (← (← field j "func").getStr?) params masses xs
    match want, j.getObjVal? "got" with
    | some w, .ok g =>
      let got ← v3OfJson g
      let tol ← ratOfJson (← field j "tol")
      pure (okJson [("v", v3ToJson w), ("close", Json.bool (specClose tol w got))])
    | _, _ => pure (optV3ToJson want)
  | "verdict" =>
    let items ← listOf itemOfJson (← field j "items")
    pure (okJson [("success", Json.bool (verdict TemplateTables.weights TemplateTables.tolerance TemplateTables.interMethods
                    TemplateTables.penaltyWeightKey items)),
                  ("within", Json.bool (withinTolerance TemplateTables.tolerance items))])
  | "volume" =>
    let atoms ← listOf (fun a => do
      pure (⟨← v3OfJson (← field a "diff"), ← ratOfJson (← field a "nrm"), ← ratOfJson (← field a "rad")⟩ : VolAtom))
      (← field j "atoms")
    pure (okJson [("size", sizeToJson (computeVolume TemplateTables.volThreshold atoms))])
  | "system" =>
    let volumes0 ← listOf (fun kv => do pure ((← strAt kv 0), (← ratAt kv 1))) (← field j "volumes0")
    let hasBf ← (← field j "build_file").getBool?
    let ops ← listOf bfOpOfJson (← field j "ops")
    let mols ← listOf molOfJson (← field j "molecules")
    let skip ← (← field j "skip_filter").getBool?
    let genTab ← listOf (fun g => do
      pure ((← (← field g "hash").getStr?),
            (⟨← templateOfJson (← field g "coords"), ← ratOfJson (← field g "volume"),
              ← (← field g "resname").getStr?⟩ : Generated Rat))) (← field j "gen")
    let gen : String → String → Generated Rat := fun gh _ =>
      (Dict.get? genTab gh).getD ⟨[], 0, ""⟩
    let (vols, user) := if hasBf then readBuildFile volumes0 ops else (volumes0, [])
    let ms : List (Mol String Rat) := mols.map fun nodes => ⟨nodes, if hasBf then some user else none⟩
    match runSystem (fun g => g) gen skip ⟨[], vols⟩ ms with
    | none => pure (errJson "raises")
    | some (fin, attrs) =>
      pure (okJson [("attrs", toJson attrs),
                    ("bf_volumes", dictToJson ratToJson vols),
                    ("bf_templates", dictToJson templateToJson user),
                    ("templates", dictToJson templateToJson fin.templates),
                    ("volumes", dictToJson ratToJson fin.volumes)])
  | "spec_sharing" =>
    let rs ← listOf (fun r => do
      pure (⟨← (← field r "iso").getNat?, ← listOf (·.getStr?) (← field r "names"), ← (← field r "attr").getStr?⟩ : SeenRes))
      (← field j "residues")
    pure (okJson [("sharing", Json.bool (specSharing rs))])
  | "spec_template" =>
    let t ← templateOfJson (← field j "template")
    let names ← listOf (·.getStr?) (← field j "sorted_names")
    let keys ← listOf (·.getStr?) (← field j "sorted_keys")
    let tol ← ratOfJson (← field j "tol")
    pure (okJson [("centred", Json.bool (specCentred tol t)),
                  ("one_per_name", Json.bool (specOnePerName t names keys))])
  | "spec_close" =>
    let tol ← ratOfJson (← field j "tol")
    let a ← templateOfJson (← field j "a")
    let b ← templateOfJson (← field j "b")
    let centre ← (← field j "centre_b").getBool?
    let b' := if centre then mapFromCoG b else b
    let same := a.length == b'.length &&
      (List.zipWith (fun x y => x.1 == y.1 && specClose tol x.2 y.2) a b').all id
    pure (okJson [("close", Json.bool same)])
  | _ => handleBlock op j

end PolyplyVerif.Driver.C15
