import PolyplyVerif.Driver.Common
import PolyplyVerif.Generated.Tables
import PolyplyVerif.Generated.SeqTables
import PolyplyVerif.Model.Seq
import PolyplyVerif.Model.SeqExt
open Lean PolyplyVerif

namespace PolyplyVerif.Driver.C12
open PolyplyVerif.Seq

def attrsOfJson (j : Json) : Except String Attrs := do
  let arr ← j.getArr?
  arr.toList.mapM fun kv => do
    let k ← (← kv.getArrVal? 0).getStr?
    let v ← (← kv.getArrVal? 1).getStr?
    pure (k, v)

def attrsToJson (a : Attrs) : Json := Json.arr (a.map (fun (k, v) => Json.arr #[Json.str k, Json.str v])).toArray

def optNatToJson : Option Nat → Json
  | some n => toJson n
  | none => Json.null

def optNatOfJson (j : Json) : Except String (Option Nat) :=
  match j with
  | Json.null => pure none
  | _ => j.getNat?.map some

def rgraphToJson (g : RGraph) : Json :=
  Json.mkObj [
    ("nodes", Json.arr (g.nodes.map (fun n => Json.arr #[toJson n.key, toJson n.resid, Json.str n.resname])).toArray),
    ("edges", Json.arr (g.edges.map (fun e => Json.arr #[toJson e.u, toJson e.v, attrsToJson e.attrs])).toArray),
    ("max_resid", toJson g.maxResid)]

def sgraphToJson (g : SGraph) : Json :=
  Json.mkObj [
    ("nodes", Json.arr (g.nodes.map (fun n => Json.arr #[toJson n.key, Json.str n.resname, optNatToJson n.resid,
                                                          optNatToJson n.seqid, attrsToJson n.tags])).toArray),
    ("edges", Json.arr (g.edges.map (fun e => Json.arr #[toJson e.u, toJson e.v, attrsToJson e.attrs])).toArray)]

def strList (j : Json) : Except String (List String) := do
  let arr ← j.getArr?
  arr.toList.mapM (·.getStr?)

def textList (j : Json) : Except String (List Text) := do
  pure ((← strList j).map String.toList)

def pairList (j : Json) : Except String (List (Nat × Nat)) := do
  let arr ← j.getArr?
  arr.toList.mapM fun e => do pure (← (← e.getArrVal? 0).getNat?, ← (← e.getArrVal? 1).getNat?)

def blockOfJson (j : Json) : Except String Block := do
  pure ⟨← strList (← j.getArrVal? 0), ← pairList (← j.getArrVal? 1)⟩

def sgraphOfJson (j : Json) : Except String SGraph := do
  let nodes ← (← j.getObjVal? "nodes").getArr?
  let nodes ← nodes.toList.mapM fun n => do
    pure ({ key := ← (← n.getArrVal? 0).getNat?, resname := ← (← n.getArrVal? 1).getStr?,
            resid := ← optNatOfJson (← n.getArrVal? 2), seqid := ← optNatOfJson (← n.getArrVal? 3),
            tags := ← attrsOfJson (← n.getArrVal? 4) } : SNode)
  let edges ← (← j.getObjVal? "edges").getArr?
  let edges ← edges.toList.mapM fun e => do
    pure (⟨← (← e.getArrVal? 0).getNat?, ← (← e.getArrVal? 1).getNat?, ← attrsOfJson (← e.getArrVal? 2)⟩ : REdge)
  pure ⟨nodes, edges⟩

def sanswer (g : Option SGraph) : Json :=
  match g with
  | some g => okJson [("sgraph", sgraphToJson g)]
  | none => errJson "reject"

def probsOfJson (j : Json) : Except String (List (String × Bool)) := do
  let arr ← j.getArr?
  arr.toList.mapM fun e => do pure (← (← e.getArrVal? 0).getStr?, ← (← e.getArrVal? 1).getBool?)

def probsToJson (ps : List (String × Bool)) : Json :=
  Json.arr (ps.map fun (nm, w) => Json.arr #[Json.str nm, Json.bool w]).toArray

def pairsToJson (l : List (Nat × Nat)) : Json := Json.arr (l.map fun (a, b) => Json.arr #[toJson a, toJson b]).toArray

def textToJson (t : Text) : Json := Json.str (String.ofList t)

def answer (g : Option RGraph) : Json :=
  match g with
  | some g => okJson [("graph", rgraphToJson g)]
  | none => errJson "reject"

def handle (j : Json) : Except String Json := do
  let op ← (← j.getObjVal? "op").getStr?
  match op with
  | "seq" =>
    let items ← textList (← j.getObjVal? "items")
    pure (answer (fromSeqOption items))
  | "file" =>
    let ext ← (← j.getObjVal? "ext").getStr?
    let text ← (← j.getObjVal? "text").getStr?
    -- dispatch through the GENERATED table `MetaMolecule.parsers` (theorem C12_dispatch: same as `fromSequenceFile`)
    pure (answer (fromSequenceFileAny Tabs.repo ext.toList (.text text.toList)))
  | "file_doc" =>
    -- a node-link document under an arbitrary file suffix
    let ext ← (← j.getObjVal? "ext").getStr?
    let g ← sgraphOfJson j
    pure (answer (fromSequenceFileAny Tabs.repo ext.toList (.doc ⟨g.nodes, g.edges⟩)))
  | "dispatch" =>
    let ext ← (← j.getObjVal? "ext").getStr?
    pure (okJson [("parser", match parserFor ext.toList with | some p => Json.str p | none => Json.null)])
  | "identify" =>
    let comments ← textList (← j.getObjVal? "comments")
    match identify comments with
    | some f => pure (okJson [("flags", Json.arr #[Json.bool f.dna, Json.bool f.rna, Json.bool f.aa])])
    | none => pure (errJson "reject")
  | "parse_plain" =>
    let lines ← textList (← j.getObjVal? "lines")
    let fl ← j.getObjVal? "flags"
    let f : Flags := ⟨← (← fl.getArrVal? 0).getBool?, ← (← fl.getArrVal? 1).getBool?, ← (← fl.getArrVal? 2).getBool?⟩
    pure (sanswer (parsePlain Tabs.repo f lines))
  | "macro" =>
    let text ← (← j.getObjVal? "text").getStr?
    match macroFields text.toList with
    | none => pure (errJson "reject")
    | some (nm, levels, bfact, probs) =>
      let graph := match macroGraph text.toList with
        | some b => Json.mkObj [("names", toJson b.names), ("edges", pairsToJson b.edges)]
        | none => Json.null
      pure (okJson [("name", Json.str nm), ("levels", toJson levels), ("bfact", toJson bfact),
                    ("probs", probsToJson probs), ("graph", graph)])
  | "render" =>
    let what ← (← j.getObjVal? "what").getStr?
    match what with
    | "macro" =>
      pure (okJson [("text", textToJson (renderMacro (← (← j.getObjVal? "name").getStr?) (← (← j.getObjVal? "levels").getNat?)
        (← (← j.getObjVal? "bfact").getNat?) (← probsOfJson (← j.getObjVal? "probs"))))])
    | "connect" =>
      pure (okJson [("text", textToJson (renderConnect (← (← j.getObjVal? "i").getNat?, ← (← j.getObjVal? "j").getNat?,
        ← pairList (← j.getObjVal? "items"))))])
    | "mod" =>
      pure (okJson [("text", textToJson (renderModification (← (← j.getObjVal? "s").getNat?, ← (← j.getObjVal? "name").getStr?)))])
    | "tag" =>
      pure (okJson [("text", textToJson (renderTag (← (← j.getObjVal? "s").getNat?, ← (← j.getObjVal? "attr").getStr?,
        ← probsOfJson (← j.getObjVal? "probs"))))])
    | _ => throw s!"unknown render {what}"
  | "add_edges" =>
    let g ← sgraphOfJson j
    let edges ← (← j.getObjVal? "text").getStr?
    pure (sanswer (addEdgesText g edges.toList (← (← j.getObjVal? "i").getNat?) (← (← j.getObjVal? "j").getNat?)))
  | "apply_mods" =>
    let g ← sgraphOfJson j
    let mods ← textList (← j.getObjVal? "mods")
    match applyModsText g mods with
    | some g' => pure (okJson [("sgraph", sgraphToJson g'), ("terminal", toJson (terminalNodes g))])
    | none => pure (errJson "reject")
  | "apply_tags" =>
    let g ← sgraphOfJson j
    let tags ← textList (← j.getObjVal? "tags")
    pure (sanswer (applyTagsText g tags))
  | "genseq_cli" =>
    let lib ← (← j.getObjVal? "lib").getArr?
    let lib ← lib.toList.mapM fun e => do
      pure (← (← e.getArrVal? 0).getStr?, (⟨← strList (← e.getArrVal? 1), ← pairList (← e.getArrVal? 2)⟩ : Block))
    let seq ← match j.getObjVal? "seq" with
      | .ok Json.null => pure none
      | .ok s => (strList s).map some
      | .error _ => pure none
    let inp : GenSeqInput := {
      fromFile := [], macroStrings := ← textList (← j.getObjVal? "macro_strings"), seq := seq,
      connects := ← textList (← j.getObjVal? "connects"),
      modifications := ← textList (← j.getObjVal? "modifications"),
      tags := ← textList (← j.getObjVal? "tags") }
    match genSeqCli lib (← textList (← j.getObjVal? "from_file")) inp with
    | some g => pure (okJson [("sgraph", sgraphToJson g), ("readback", sgraphToJson (parseJson (nodeLinkData g))),
                              ("graph", rgraphToJson (toMeta (parseJson (nodeLinkData g))))])
    | none => pure (errJson "reject")
  | "json" =>
    let nodes ← (← j.getObjVal? "nodes").getArr?
    let nodes ← nodes.toList.mapM fun n => do
      pure ({ key := ← (← n.getArrVal? 0).getNat?, resname := ← (← n.getArrVal? 1).getStr?,
              resid := ← optNatOfJson (← n.getArrVal? 2), seqid := ← optNatOfJson (← n.getArrVal? 3),
              tags := ← attrsOfJson (← n.getArrVal? 4) } : SNode)
    let edges ← (← j.getObjVal? "edges").getArr?
    let edges ← edges.toList.mapM fun e => do
      pure (⟨← (← e.getArrVal? 0).getNat?, ← (← e.getArrVal? 1).getNat?, ← attrsOfJson (← e.getArrVal? 2)⟩ : REdge)
    let g := parseJson ⟨nodes, edges⟩
    pure (okJson [("sgraph", sgraphToJson g), ("graph", rgraphToJson (toMeta g))])
  | "spec_readback" =>
    -- the labelled graph a document denotes (nodes given in key order), as gen_params must see it
    let nodes ← (← j.getObjVal? "nodes").getArr?
    let nodes ← nodes.toList.mapM fun n => do
      pure ({ key := ← (← n.getArrVal? 0).getNat?, resname := ← (← n.getArrVal? 1).getStr?,
              resid := ← optNatOfJson (← n.getArrVal? 2), seqid := ← optNatOfJson (← n.getArrVal? 3),
              tags := ← attrsOfJson (← n.getArrVal? 4) } : SNode)
    let edges ← (← j.getObjVal? "edges").getArr?
    let edges ← edges.toList.mapM fun e => do
      pure (⟨← (← e.getArrVal? 0).getNat?, ← (← e.getArrVal? 1).getNat?, ← attrsOfJson (← e.getArrVal? 2)⟩ : REdge)
    let g : SGraph := ⟨nodes, edges⟩
    pure (okJson [("sgraph", sgraphToJson g), ("graph", rgraphToJson (specReadBack g))])
  | "genseq" =>
    let ff ← (← j.getObjVal? "from_file").getArr?
    let ff ← ff.toList.mapM fun e => do
      pure (← (← e.getArrVal? 0).getStr?, (⟨← strList (← e.getArrVal? 1), ← pairList (← e.getArrVal? 2)⟩ : Block))
    let seq ← match j.getObjVal? "seq" with
      | .ok Json.null => pure none
      | .ok s => (strList s).map some
      | .error _ => pure none
    let inp : GenSeqInput := {
      fromFile := ff, macroStrings := ← textList (← j.getObjVal? "macro_strings"), seq := seq,
      connects := ← textList (← j.getObjVal? "connects"),
      modifications := ← textList (← j.getObjVal? "modifications"),
      tags := ← textList (← j.getObjVal? "tags") }
    match genSeq inp, genSeqReadBack inp with
    | some g, some g' =>
      pure (okJson [("sgraph", sgraphToJson g), ("readback", sgraphToJson g'), ("graph", rgraphToJson (toMeta g'))])
    | _, _ => pure (errJson "reject")
  | "tree" =>
    let r ← (← j.getObjVal? "r").getNat?
    let levels ← (← j.getObjVal? "levels").getNat?
    let n := treeSize r levels
    let pairs (l : List (Nat × Nat)) : Json := Json.arr (l.map fun (a, b) => Json.arr #[toJson a, toJson b]).toArray
    pure (okJson [("n", toJson n), ("edges", pairs (treeEdges n r)), ("spec_edges", pairs (specTreeEdges n r))])
  | "spec_linear" =>
    let names ← strList (← j.getObjVal? "names")
    pure (answer (some (specLinear names)))
  | "spec_seqfile" =>
    let a ← (← j.getObjVal? "alphabet").getStr?
    let a ← match a with
      | "dna" => pure Alphabet.dna
      | "rna" => pure Alphabet.rna
      | "aa" => pure Alphabet.aa
      | _ => throw s!"unknown alphabet {a}"
    let circ ← (← j.getObjVal? "circular").getBool?
    let letters ← (← j.getObjVal? "letters").getStr?
    -- the specification uses the codes written in the property's specification, not the repository's tables
    pure (answer (specSeqFile Tabs.standard a circ letters.toList))
  | "spec_genseq" =>
    let blocks ← (← j.getObjVal? "blocks").getArr?
    let blocks ← blocks.toList.mapM fun b => do
      match b.getObjVal? "tree" with
      | .ok t =>
        let levels ← (← t.getArrVal? 0).getNat?
        let r ← (← t.getArrVal? 1).getNat?
        let nm ← (← t.getArrVal? 2).getStr?
        let n := treeSize r levels
        pure (⟨List.replicate n nm, specTreeEdges n r⟩ : Block)
      | .error _ => blockOfJson (← b.getObjVal? "file")
    let connects ← (← j.getObjVal? "connects").getArr?
    let connects ← connects.toList.mapM fun c => do
      pure (← (← c.getArrVal? 0).getNat?, ← (← c.getArrVal? 1).getNat?, ← (← c.getArrVal? 2).getNat?, ← (← c.getArrVal? 3).getNat?)
    let mods ← (← j.getObjVal? "mods").getArr?
    let mods ← mods.toList.mapM fun m => do
      pure (← (← m.getArrVal? 0).getNat?, ← (← m.getArrVal? 1).getStr?)
    let tags ← (← j.getObjVal? "tags").getArr?
    let tags ← tags.toList.mapM fun t => do
      pure (← (← t.getArrVal? 0).getNat?, ← (← t.getArrVal? 1).getStr?, ← (← t.getArrVal? 2).getStr?)
    match specGenSeq blocks connects mods tags with
    | some g => pure (okJson [("sgraph", sgraphToJson g), ("graph", rgraphToJson (specReadBack g))])
    | none => pure (errJson "reject")
  | _ => throw s!"unknown op {op}"

end PolyplyVerif.Driver.C12
