import PolyplyVerif.Driver.Common
import PolyplyVerif.Generated.WalkTables
import PolyplyVerif.Model.Walk
open Lean PolyplyVerif PolyplyVerif.Walk

namespace PolyplyVerif.Driver.C17

def natList (j : Json) : Except String (List Nat) := do
  let arr ← j.getArr?
  arr.toList.mapM (·.getNat?)

def optNat (j : Json) (key : String) : Except String (Option Nat) :=
  match j.getObjVal? key with
  | .ok Json.null => pure none
  | .ok v => v.getNat?.map some
  | .error _ => pure none

def pairList (j : Json) : Except String (List (Nat × Nat)) := do
  let arr ← j.getArr?
  arr.toList.mapM fun kv => do pure (← (← kv.getArrVal? 0).getNat?, ← (← kv.getArrVal? 1).getNat?)

def adjOfJson (j : Json) : Except String (List (Node × List Node)) := do
  let arr ← j.getArr?
  arr.toList.mapM fun kv => do pure (← (← kv.getArrVal? 0).getNat?, ← natList (← kv.getArrVal? 1))

structure MolIn where
  mol : Mol
  adj : List (Node × List Node)

/-- a molecule as the harness describes it: residue graph, start node, tree kind, flags -/
def molOfJson (j : Json) : Except String MolIn := do
  let nodes ← natList (← j.getObjVal? "nodes")
  let adj ← adjOfJson (← j.getObjVal? "adj")
  let start ← optNat j "start"
  let dfs ← (← j.getObjVal? "dfs").getBool?
  let build ← natList (← j.getObjVal? "build")
  let supplied ← pairList (← j.getObjVal? "supplied")
  let ignored ← (← j.getObjVal? "ignored").getBool?
  -- the oracle passes the path and first node observed on the real objects
  let first ← match ← optNat j "first" with
    | some f => pure f
    | none => pure (firstNode nodes start)
  let path ← match j.getObjVal? "path" with
    | .ok Json.null => pure (searchPath adj first dfs)
    | .ok p => pairList p
    | .error _ => pure (searchPath adj first dfs)
  pure ⟨⟨nodes, path, first, build, supplied, ignored⟩, adj⟩

def cfgOfJson (j : Json) : Except String Cfg := do
  let nrewind ← optNat j "nrewind"
  let maxiter ← optNat j "maxiter"
  pure ⟨nrewind.getD WalkTables.rwNrewind, maxiter.getD WalkTables.rwMaxiter⟩

def engToJson (mols : List Mol) (e : Engine) : Json :=
  Json.arr ((mols.zipIdx.map fun (m, i) =>
    Json.arr #[toJson i, Json.arr ((m.nodes.filterMap fun n =>
      (e i n).map fun v => Json.arr #[toJson n, toJson v]).toArray)]).toArray)

def trialToJson (t : Option (Nat × Option Node × Node)) : Json :=
  match t with
  | none => Json.null
  | some (i, p, c) => Json.arr #[toJson i, (match p with | some p => toJson p | none => Json.null), toJson c]

def phaseName : Phase → String
  | .start => "start" | .walk _ => "walk" | .done => "done" | .stuck => "stuck"

def stateToJson (mols : List Mol) (s : Sys) : Json :=
  Json.mkObj [("phase", Json.str (phaseName s.phase)), ("trial", trialToJson (s.trial mols)),
              ("eng", engToJson mols s.eng),
              ("placed", match s.phase with
                | .walk w => Json.arr (w.placed.map fun (k, n) => Json.arr #[toJson k, toJson n]).toArray
                | _ => Json.null)]

/-- the states at every trial: before the first entry of the schedule, after each entry; stops at the
first state without a trial (done / stuck) -/
def traceOf (cfg : Cfg) (mols : List Mol) : List Bool → Sys → List Sys
  | [], s => [s]
  | b :: rest, s => match s.trial mols with
    | none => [s]
    | some _ => s :: traceOf cfg mols rest (step cfg mols s b)

def snapshotOfJson (j : Json) : Except String Snapshot := do
  let arr ← j.getArr?
  arr.toList.mapM fun kv => do pure (← (← kv.getArrVal? 0).getNat?, ← pairList (← kv.getArrVal? 1))

def trialOfJson (j : Json) : Except String (Option (Nat × Option Node × Node)) :=
  match j with
  | Json.null => pure none
  | _ => do
    let i ← (← j.getArrVal? 0).getNat?
    let p ← match j.getArrVal? 1 with
      | .ok Json.null => pure none
      | .ok v => v.getNat?.map some
      | .error e => throw e
    let c ← (← j.getArrVal? 2).getNat?
    pure (some (i, p, c))

/-- evaluate the specification (the property's own predicates) on an observed trace -/
def specFailures (ms : List MolIn) (obs : List (Option (Nat × Option Node × Node) × Snapshot))
    (finished : Bool) : List (String × Nat) :=
  let mols := ms.map (·.mol)
  let adjs := ms.map (·.adj)
  let nodes := mols.map (·.nodes)
  let perState := obs.zipIdx.flatMap fun ((t, sn), idx) =>
    (if specSuppliedKept mols sn then [] else [("supplied-position-lost-or-moved", idx)]) ++
    (match t with
     | none => []
     | some tr =>
       (if specGrownFromPositioned adjs sn tr then [] else [("grown-from-unpositioned-or-onto-positioned", idx)]) ++
       (match mols[tr.1]? with
        | some m => if specRollback m sn tr then [] else [("discarded-part-not-removed", idx)]
        | none => [("trial-on-unknown-molecule", idx)]) ++
       (match mols[tr.1]? with
        | some m => if m.ignored then [("trial-on-ignored-molecule", idx)] else []
        | none => []))
  let pairs := (obs.zip (obs.drop 1)).zipIdx.flatMap fun ((a, b), idx) =>
    match a.1 with
    | none => []
    | some tr => if specOthersFixed nodes tr.1 a.2 b.2 then [] else [("other-molecule-changed", idx)]
  let fin := match obs.getLast? with
    | some (_, sn) => if !finished || specComplete mols sn then [] else [("incomplete-after-success", obs.length - 1)]
    | none => []
  perState ++ pairs ++ fin

def handle (j : Json) : Except String Json := do
  let op ← (← j.getObjVal? "op").getStr?
  match op with
  | "path" =>
    let adj ← adjOfJson (← j.getObjVal? "adj")
    let nodes ← natList (← j.getObjVal? "nodes")
    let start ← optNat j "start"
    let dfs ← (← j.getObjVal? "dfs").getBool?
    let first := firstNode nodes start
    pure (okJson [("first", toJson first),
                  ("path", Json.arr ((searchPath adj first dfs).map fun e => Json.arr #[toJson e.1, toJson e.2]).toArray)])
  | "run" =>
    let cfg ← cfgOfJson j
    let ms ← (← (← j.getObjVal? "mols").getArr?).toList.mapM molOfJson
    let mols := ms.map (·.mol)
    let sched ← (← (← j.getObjVal? "sched").getArr?).toList.mapM (·.getBool?)
    let tr := traceOf cfg mols sched (init mols)
    -- the calls of `_handle_random_walk` (give-up branch spelled out) over the consumed part of the schedule
    let bm := (← optNat j "bs_maxiter").getD WalkTables.bsMaxiter
    let g := runG cfg bm mols (sched.take (tr.length - 1)) (initG mols)
    pure (okJson [("nrewind", toJson cfg.nrewind), ("maxiter", toJson cfg.maxiter),
                  ("bs_maxiter", toJson bm), ("step_count", toJson g.stepCount),
                  ("returns", Json.arr (g.returns.map fun (i, ok) => Json.arr #[toJson i, toJson ok]).toArray),
                  ("work", toJson (work mols)), ("firsts", toJson (mols.map (·.first))),
                  ("wf", toJson (mols.map (·.wfCheck))),
                  ("paths", Json.arr (mols.map fun m => Json.arr (m.path.map fun e => Json.arr #[toJson e.1, toJson e.2]).toArray).toArray),
                  ("trace", Json.arr (tr.map (stateToJson mols)).toArray)])
  | "spec" =>
    let ms ← (← (← j.getObjVal? "mols").getArr?).toList.mapM molOfJson
    let obs ← (← (← j.getObjVal? "trace").getArr?).toList.mapM fun st => do
      pure (← trialOfJson (← st.getObjVal? "trial"), ← snapshotOfJson (← st.getObjVal? "eng"))
    let finished ← (← j.getObjVal? "finished").getBool?
    let fails := specFailures ms obs finished
    pure (okJson [("failures", Json.arr (fails.map fun (n, i) => Json.arr #[Json.str n, toJson i]).toArray)])
  | _ => throw s!"unknown op {op}"

end PolyplyVerif.Driver.C17
