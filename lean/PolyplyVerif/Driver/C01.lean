/-
Line-protocol handler of C01 (also used by C13): the model of MapToMolecule / link flush / modifications
and the specification side, over JSON.  Residue-graph keys travel as strings.
-/
import PolyplyVerif.Driver.Common
import PolyplyVerif.Generated.Tables
import PolyplyVerif.Model.MapToMol
open Lean PolyplyVerif PolyplyVerif.MapToMol

namespace PolyplyVerif.Driver.C01

def strList (j : Json) : Except String (List String) := do
  (← j.getArr?).toList.mapM (·.getStr?)

def natList (j : Json) : Except String (List Nat) := do
  (← j.getArr?).toList.mapM (·.getNat?)

def attrsOf (j : Json) : Except String Attrs := do
  (← j.getArr?).toList.mapM fun kv => do
    pure ((← (← kv.getArrVal? 0).getStr?), (← (← kv.getArrVal? 1).getStr?))

def attrsTo (a : Attrs) : Json := Json.arr (a.map fun (k, v) => Json.arr #[Json.str k, Json.str v]).toArray

def ixnOf (j : Json) : Except String Ixn := do
  pure ⟨← (← j.getArrVal? 0).getStr?, ← natList (← j.getArrVal? 1), ← strList (← j.getArrVal? 2),
        ← attrsOf (← j.getArrVal? 3)⟩

def ixnTo (i : Ixn) : Json :=
  Json.arr #[Json.str i.sect, toJson i.atoms, toJson i.params, attrsTo i.info]

def atomOf (j : Json) : Except String Atom := do
  pure ⟨← (← j.getArrVal? 0).getNat?, ← (← j.getArrVal? 1).getNat?, ← (← j.getArrVal? 2).getNat?,
        ← attrsOf (← j.getArrVal? 3)⟩

def atomTo (a : Atom) : Json := Json.arr #[toJson a.node, toJson a.resid, toJson a.cgrp, attrsTo a.attrs]

def molOf (j : Json) : Except String Mol := do
  let atoms ← (← (← j.getObjVal? "atoms").getArr?).toList.mapM atomOf
  let ixns ← (← (← j.getObjVal? "ixns").getArr?).toList.mapM ixnOf
  pure ⟨atoms, ixns⟩

def molTo (m : Mol) : List (String × Json) :=
  [("atoms", Json.arr (m.atoms.map atomTo).toArray), ("ixns", Json.arr (m.ixns.map ixnTo).toArray)]

def blockOf (j : Json) : Except String Block := do
  let atoms ← (← (← j.getObjVal? "atoms").getArr?).toList.mapM fun a => do
    pure (⟨← (← a.getArrVal? 0).getNat?, ← (← a.getArrVal? 1).getNat?, ← attrsOf (← a.getArrVal? 2)⟩ : BAtom)
  let ixns ← (← (← j.getObjVal? "ixns").getArr?).toList.mapM ixnOf
  pure ⟨← (← j.getObjVal? "name").getStr?, ← (← j.getObjVal? "nrexcl").getNat?, atoms, ixns⟩

def modOf (j : Json) : Except String Modif := do
  let atoms ← (← (← j.getObjVal? "atoms").getArr?).toList.mapM fun a => do
    pure ((← (← a.getArrVal? 0).getStr?), (← attrsOf (← a.getArrVal? 1)))
  let ixns ← (← (← j.getObjVal? "ixns").getArr?).toList.mapM fun i => do
    pure (⟨← (← i.getArrVal? 0).getStr?, ← strList (← i.getArrVal? 1), ← strList (← i.getArrVal? 2),
           ← attrsOf (← i.getArrVal? 3)⟩ : MIxn)
  pure ⟨← (← j.getObjVal? "name").getStr?, atoms, ixns⟩

def ffOf (j : Json) : Except String FF := do
  let blocks ← (← (← j.getObjVal? "blocks").getArr?).toList.mapM blockOf
  let mods ← (← (← j.getObjVal? "mods").getArr?).toList.mapM modOf
  pure ⟨blocks, mods⟩

def nodesOf (j : Json) : Except String (List (ResNode String)) := do
  (← j.getArr?).toList.mapM fun n => do
    let fi ← match n.getArrVal? 3 with
      | .ok Json.null => pure none
      | .ok v => (v.getStr?).map some
      | .error _ => pure none
    pure ⟨← (← n.getArrVal? 0).getStr?, ← (← n.getArrVal? 1).getNat?, ← (← n.getArrVal? 2).getStr?, fi⟩

/-- graph: nodes plus either explicit adjacency lists (`adj`, read off the real MetaMolecule) or an edge
list in `add_edge` order -/
def graphOf (j : Json) : Except String (ResGraph String) := do
  let nodes ← nodesOf (← j.getObjVal? "nodes")
  match j.getObjVal? "adj" with
  | .ok a =>
    let adj ← (← a.getArr?).toList.mapM fun kv => do
      pure ((← (← kv.getArrVal? 0).getStr?), (← strList (← kv.getArrVal? 1)))
    pure ⟨nodes, adj⟩
  | .error _ =>
    let edges ← (← (← j.getObjVal? "edges").getArr?).toList.mapM fun e => do
      pure ((← (← e.getArrVal? 0).getStr?), (← (← e.getArrVal? 1).getStr?))
    pure ⟨nodes, adjOfEdges (nodes.map (·.key)) edges⟩

def opOf (j : Json) : Except String LinkOp := do
  match ← (← j.getObjVal? "op").getStr? with
  | "replace" => pure (.replace (← (← j.getObjVal? "node").getNat?) (← attrsOf (← j.getObjVal? "attrs")))
  | "insert" => pure (.insert (← ixnOf (← j.getObjVal? "ixn")))
  | "remove" => pure (.remove (← (← j.getObjVal? "node").getNat?))
  | o => throw s!"unknown link op {o}"

def targetsOf (nodes : List (ResNode String)) (j : Json) : Except String (List ModTarget) :=
  match j.getObjVal? "mods" with
  | .ok Json.null => pure (defaultTargets nodes)
  | .error _ => pure (defaultTargets nodes)
  | .ok v => do
    (← v.getArr?).toList.mapM fun t => do
      let rn ← match t.getArrVal? 2 with
        | .ok Json.null => pure none
        | .ok v => (v.getStr?).map some
        | .error _ => pure none
      pure ⟨← (← t.getArrVal? 0).getNat?, ← (← t.getArrVal? 1).getStr?, rn⟩

def optArr (j : Json) (k : String) : Except String (List Json) :=
  match j.getObjVal? k with
  | .ok Json.null => pure []
  | .ok v => (v.getArr?).map (·.toList)
  | .error _ => pure []

def graphsTo (gs : List (String × List Nat)) : Json :=
  Json.arr (gs.map fun (k, l) => Json.arr #[Json.str k, toJson l]).toArray

def keyOfJson (j : Json) : Except String Key := do
  pure ⟨← (← j.getArrVal? 0).getStr?, ← natList (← j.getArrVal? 1), ← (← j.getArrVal? 2).getStr?⟩

def optStr (j : Json) : Except String (Option String) :=
  match j with
  | Json.null => pure none
  | v => (v.getStr?).map some

def edgeOf (e : Json) : Except String (Nat × Nat × Option String) := do
  pure ((← (← e.getArrVal? 0).getNat?), (← (← e.getArrVal? 1).getNat?), (← optStr (← e.getArrVal? 2)))

def useOf (j : Json) : Except String LinkUse := do
  let resnames ← (← optArr j "resnames").mapM fun r => do
    pure ((← (← r.getArrVal? 0).getNat?), (← strList (← r.getArrVal? 1)))
  let attrs ← (← optArr j "attrs").mapM fun a => do
    pure ((← (← a.getArrVal? 0).getNat?), (← (← a.getArrVal? 1).getStr?), (← (← a.getArrVal? 2).getStr?))
  pure ⟨← attrsOf (← j.getObjVal? "molmeta"), resnames, ← (← optArr j "edges").mapM edgeOf,
        ← (← optArr j "inserts").mapM ixnOf, attrs, ← (← optArr j "removed").mapM (·.getNat?)⟩

def factsOf (j : Json) : Except String GraphFacts := do
  let resnames ← (← optArr j "resnames").mapM fun r => do
    pure ((← (← r.getArrVal? 0).getNat?), (← (← r.getArrVal? 1).getStr?))
  pure ⟨← attrsOf (← j.getObjVal? "molmeta"), resnames, ← (← optArr j "edges").mapM edgeOf⟩

def handle (j : Json) : Except String Json := do
  let op ← (← j.getObjVal? "op").getStr?
  match op with
  | "run" =>
    -- the model of the three stages
    let ff ← ffOf (← j.getObjVal? "ff")
    let g ← graphOf (← j.getObjVal? "graph")
    match mapToMolecule ff g with
    | .error e => pure (Json.mkObj [("ok", Json.bool true), ("map", errJson e)])
    | .ok (st, nrexcl) =>
      let mapJ := okJson (molTo st.mol ++ [("graphs", graphsTo st.graphs), ("nrexcl", toJson nrexcl)])
      let ops ← (← optArr j "linkops").mapM opOf
      let genExcl ← (← optArr j "genexcl").mapM ixnOf
      let linked := applyLinks st.mol ops genExcl
      let targets ← targetsOf g.nodes j
      let finalJ := match applyMods Tables.proteinResnames ff g.nodes st.graphs linked targets with
        | .ok m => okJson (molTo m)
        | .error e => errJson e
      pure (Json.mkObj [("ok", Json.bool true), ("map", mapJ), ("links", okJson (molTo linked)), ("final", finalJ)])
  | "tables" =>
    let ff ← ffOf (← j.getObjVal? "ff")
    let g ← graphOf (← j.getObjVal? "graph")
    match matchNodesToBlocks ff g with
    | .error e => pure (errJson e)
    | .ok t => pure (okJson [
        ("blockOf", Json.arr (t.blockOf.map fun (k, v) => Json.arr #[Json.str k, Json.str v]).toArray),
        ("fragOf", Json.arr (t.fragOf.map fun (k, v) => Json.arr #[Json.str k, toJson v]).toArray),
        ("frags", toJson t.frags),
        ("edges", Json.arr ((graphEdges g).map fun (a, b) => Json.arr #[Json.str a, Json.str b]).toArray)])
  | "spec" =>
    -- the specification (RHS of C01_layout / C01_interactions) and its verdict on an observed molecule
    let ff ← ffOf (← j.getObjVal? "ff")
    let nodes ← nodesOf (← j.getObjVal? "nodes")
    let spec := specMol ff nodes
    let diffs ← match j.getObjVal? "obs" with
      | .ok Json.null => pure []
      | .ok o => (molOf o).map (checkLayout spec)
      | .error _ => pure []
    pure (okJson (molTo spec ++ [("diffs", toJson diffs)]))
  | "frame" =>
    -- the frame clause of C01 on the final molecule
    let ff ← ffOf (← j.getObjVal? "ff")
    let nodes ← nodesOf (← j.getObjVal? "nodes")
    let spec := specMol ff nodes
    let obs ← molOf (← j.getObjVal? "obs")
    let uses ← (← optArr j "uses").mapM useOf
    let facts ← factsOf (← j.getObjVal? "facts")
    let genExcl ← (← optArr j "genexcl").mapM ixnOf
    let targets ← targetsOf nodes j
    let touched := touchedOf facts uses
      (modNamedAtoms Tables.proteinResnames ff spec (renamesOf facts uses) targets)
    let all := checkFrame spec obs touched genExcl
    let diffs := all.filter (·.1 != "resid") ++ all.filter (·.1 == "resid")
    pure (okJson [("diffs", toJson (diffs.map (·.2))), ("cats", toJson (diffs.map (·.1)).eraseDups)])
  | _ => throw s!"unknown op {op}"

end PolyplyVerif.Driver.C01
