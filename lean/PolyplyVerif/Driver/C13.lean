/-
Line-protocol handler of C13: the model questions about the molecule are the ones of C01 (`run` on the
original and on the transformed input; the harness compares the two answers), so those go to C01's handler.
The questions about `load_library.py` (Model/LoadLibrary.lean) are answered here:
`{"op":"getparser","table":"ff"|"bld","ext":..,"islib":..}` -> `getParser`;
`{"op":"readoptions","table":..,"lib":[{"path","suffix"}],"user":[..]}` -> `readOptions`;
`{"op":"loadff","libnames":[..],"listing":{name:[files]},"extra":[files],"defs":{path:[names]}}` ->
`loadFFLibrary` and, for every defined name, the path of the file whose definition the storage keeps.
`{"op":"apply",..}` is forwarded to C02's handler (link model; used to skip inputs whose result depends on the
VF2 enumeration order among matches of ONE link, as C02 does).
-/
import PolyplyVerif.Driver.Common
import PolyplyVerif.Driver.C01
import PolyplyVerif.Driver.C02
import PolyplyVerif.Model.LoadLibrary

open Lean PolyplyVerif PolyplyVerif.LoadLibrary PolyplyVerif.LibraryTables

namespace PolyplyVerif.Driver.C13

def fileOf (j : Json) : Except String File := do
  pure ⟨← (← j.getObjVal? "path").getStr?, ← (← j.getObjVal? "suffix").getStr?⟩

def filesOf (j : Json) : Except String (List File) := do
  (← j.getArr?).toList.mapM fileOf

def tableOf (j : Json) : Except String (List (String × String)) := do
  match ← (← j.getObjVal? "table").getStr? with
  | "ff" => pure forceFieldParsers
  | "bld" => pure buildFileParsers
  | t => throw s!"unknown table {t}"

def choiceToJson : Choice → Json
  | .parser p => Json.mkObj [("parser", Json.str p)]
  | .reject => Json.str "IOError"
  | .skipWarn => Json.str "skip-warn"
  | .skipSilent => Json.str "skip"

def callsToJson (r : Except String (List (String × String))) : List (String × Json) :=
  match r with
  | .ok cs => [("status", Json.str "ok"), ("calls", Json.arr (cs.map (fun c => Json.arr #[Json.str c.1, Json.str c.2])).toArray)]
  | .error p => [("status", Json.str "IOError"), ("file", Json.str p)]

def handleLibrary (op : String) (j : Json) : Except String Json := do
  match op with
  | "getparser" =>
    let parsers ← tableOf j
    let ext ← (← j.getObjVal? "ext").getStr?
    let isLib ← (← j.getObjVal? "islib").getBool?
    pure (okJson [("choice", choiceToJson (getParser parsers ext isLib))])
  | "readoptions" =>
    let parsers ← tableOf j
    let lib ← filesOf (← j.getObjVal? "lib")
    let user ← filesOf (← j.getObjVal? "user")
    pure (okJson (callsToJson (readOptions parsers (lib, user))))
  | "loadff" =>
    let libNames ← (← (← j.getObjVal? "libnames").getArr?).toList.mapM (·.getStr?)
    let listingJ ← j.getObjVal? "listing"
    let listing : String → List File := fun name =>
      match listingJ.getObjVal? name with
      | .ok fs => (filesOf fs).toOption.getD []
      | .error _ => []
    let extra ← filesOf (← j.getObjVal? "extra")
    let defsJ ← j.getObjVal? "defs"
    let defs : String → List (String × String) := fun path =>
      match defsJ.getObjVal? path with
      | .ok ns => match ns.getArr? with
        | .ok arr => arr.toList.filterMap (fun n => (n.getStr?).toOption.map (fun s => (s, path)))
        | .error _ => []
      | .error _ => []
    let r := loadFFLibrary listing libNames extra
    let winners : List (String × Json) :=
      match r with
      | .ok cs => [("winners", Json.arr ((storage defs cs).map (fun kv => Json.arr #[Json.str kv.1, Json.str kv.2])).toArray)]
      | .error _ => []
    pure (okJson (callsToJson r ++ winners))
  | _ => throw s!"unknown op {op}"

def handle (j : Json) : Except String Json :=
  match (j.getObjVal? "op").bind (·.getStr?) with
  | .ok "getparser" => handleLibrary "getparser" j
  | .ok "readoptions" => handleLibrary "readoptions" j
  | .ok "loadff" => handleLibrary "loadff" j
  | .ok "apply" => PolyplyVerif.Driver.C02.handle j      -- the link model (stream links-relabel: order dependence filter)
  | _ => PolyplyVerif.Driver.C01.handle j

end PolyplyVerif.Driver.C13
