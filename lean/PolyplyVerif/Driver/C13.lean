/-
Line-protocol handler of C13: the model questions are the ones of C01 (`run` on the original and on the
transformed input; the harness compares the two answers), so the handler is C01's.
-/
import PolyplyVerif.Driver.C01

namespace PolyplyVerif.Driver.C13

def handle := PolyplyVerif.Driver.C01.handle

end PolyplyVerif.Driver.C13
