import PolyplyVerif.Driver.Common
import PolyplyVerif.Model.C10Missing
open Lean PolyplyVerif PolyplyVerif.C10M

/-! Requests: `{"op":"missing","nodes":[[key,resid,resname,[frag],[[u,v]..]]..],"redges":[[a,b]..],"medges":[[u,v]..]}`
→ model `findMissingEdges` and specification `specMissing`;
`{"op":"gate","mols":[{"atoms":[[key,resid,resname]..],"edges":[[u,v]..]}..]}` → `checkMolecules`, `specRaises`. -/
namespace PolyplyVerif.Driver.C10

def arrOf (j : Json) : Except String (List Json) := do pure (← j.getArr?).toList

def pairOf (j : Json) : Except String (Nat × Nat) := do
  let a ← (← j.getArrVal? 0).getNat?
  let b ← (← j.getArrVal? 1).getNat?
  -- canonical orientation (precondition of the model)
  pure (if a ≤ b then (a, b) else (b, a))

def rawPairOf (j : Json) : Except String (Nat × Nat) := do
  pure (← (← j.getArrVal? 0).getNat?, ← (← j.getArrVal? 1).getNat?)

def missingToJson (m : Missing) : Json := Json.arr #[Json.str m.resA, toJson m.idxA, Json.str m.resB, toJson m.idxB]

def handle (j : Json) : Except String Json := do
  let op ← (← j.getObjVal? "op").getStr?
  match op with
  | "missing" =>
    let nodes ← (← arrOf (← j.getObjVal? "nodes")).mapM fun n => do
      pure ({ key := ← (← n.getArrVal? 0).getNat?, resid := ← (← n.getArrVal? 1).getInt?,
              resname := ← (← n.getArrVal? 2).getStr?,
              frag := ← (← arrOf (← n.getArrVal? 3)).mapM (·.getNat?),
              fedges := ← (← arrOf (← n.getArrVal? 4)).mapM pairOf } : RNode)
    let redges ← (← arrOf (← j.getObjVal? "redges")).mapM rawPairOf
    let medges ← (← arrOf (← j.getObjVal? "medges")).mapM pairOf
    let inp : Input := { nodes, redges, medges }
    -- `find_connecting_edges` for every residue-graph edge (in the order given)
    let connecting := redges.map fun e =>
      match inp.node? e.1, inp.node? e.2 with
      | some A, some B => Json.arr ((findConnectingEdges inp A B).map fun p => Json.arr #[toJson p.1, toJson p.2]).toArray
      | _, _ => Json.null
    pure (okJson [("missing", Json.arr ((findMissingEdges inp).map missingToJson).toArray),
                  ("spec", Json.arr ((specMissing inp).map missingToJson).toArray),
                  ("connecting", Json.arr connecting.toArray)])
  | "gate" =>
    let mols ← (← arrOf (← j.getObjVal? "mols")).mapM fun m => do
      let atoms ← (← arrOf (← m.getObjVal? "atoms")).mapM fun a => do
        pure (← (← a.getArrVal? 0).getNat?, ← (← a.getArrVal? 1).getInt?, ← (← a.getArrVal? 2).getStr?)
      let edges ← (← arrOf (← m.getObjVal? "edges")).mapM pairOf
      pure ({ atoms, edges } : Mol)
    pure (okJson [("raises", toJson (checkMolecules mols)), ("spec", toJson (specRaises mols))])
  | _ => throw s!"unknown op {op}"

end PolyplyVerif.Driver.C10
