/-
Line protocol for C16 (and the engine part of C05): one request = one engine history.
  {"op":"run","n":…,"L":[x,y,z],"cut":r,"T":k|null,"floor":r|null,"atypes":[…],"inter":[[a,b,σ,ε],…],
   "init":[[g,[x,y,z]],…],"ops":[…]}
ops: {"k":"add","g":g,"p":[…],"start":b} {"k":"remove","gs":[…]} {"k":"concat"}
     {"k":"get","g":g} {"k":"force","p":[…],"g":g,"excl":[…]} {"k":"dist","a":[…]|null,"b":[…]|null}
     {"k":"snap"}
The model state (`Engine.State`) and the abstract map of the specification (`Engine.absStep`) are run
side by side; every query answers with the model's value and the specification's value.
`T`/`floor` = null means: the translated constants of the current /repo source.

A second request kind drives the index layout of `NonBondEngine.from_topology` (`Model/EngineLayout.lean`):
  {"op":"layout","L":[x,y,z],"ignore":[names],"mols":[{"name":s,"nodes":[{"key":k,"resname":s,
   "template":s|null,"pos":null|"nonfinite"|[x,y,z]},…]},…]}
answer: "status" ("ok" | "reject" = IOError | "fail" = another exception: no residue at all), "tree" (would the
constructor's KD-tree accept the rows), the model's `n`, `map` ([[mol, key, gndx]] = the dict after all
assignments), `atypes`, `rows`, and the specification `spec` = the entries (nodes of the non-ignored
molecules with the index of their molecule in `molecules`) numbered 0, 1, ….
-/
import PolyplyVerif.Driver.Common
import PolyplyVerif.Generated.EngineTables
import PolyplyVerif.Model.Engine
import PolyplyVerif.Model.EngineLayout
open Lean PolyplyVerif PolyplyVerif.Geometry PolyplyVerif.Engine

namespace PolyplyVerif.Driver.C16

def v3OfJson (j : Json) : Except String V3 := do
  let x ← Driver.ratOfJson (← j.getArrVal? 0)
  let y ← Driver.ratOfJson (← j.getArrVal? 1)
  let z ← Driver.ratOfJson (← j.getArrVal? 2)
  pure ⟨x, y, z⟩

def v3ToJson (v : V3) : Json := Json.arr #[Driver.ratToJson v.x, Driver.ratToJson v.y, Driver.ratToJson v.z]

def optV3OfJson (j : Json) : Except String (Option V3) :=
  match j with
  | Json.null => pure none
  | _ => (v3OfJson j).map some

def optV3ToJson : Option V3 → Json
  | none => Json.null
  | some v => v3ToJson v

def natList (j : Json) : Except String (List Nat) := do
  let arr ← j.getArr?
  arr.toList.mapM (·.getNat?)

def forceToJson : Force → Json
  | .inf => Json.str "inf"
  | .vec f => v3ToJson f

def optField (j : Json) (k : String) : Option Json :=
  match j.getObjVal? k with
  | .ok Json.null => none
  | .ok v => some v
  | .error _ => none

/-- static part of a request -/
def paramsOfJson (j : Json) : Except String Params := do
  let n ← (← j.getObjVal? "n").getNat?
  let L ← v3OfJson (← j.getObjVal? "L")
  let cut ← Driver.ratOfJson (← j.getObjVal? "cut")
  let T ← match optField j "T" with
    | some t => t.getNat?
    | none => pure EngineTables.treeThreshold
  let floor ← match optField j "floor" with
    | some f => Driver.ratOfJson f
    | none => pure EngineTables.overlapFloor
  let atypes := (← natList (← j.getObjVal? "atypes")).toArray
  let interArr ← (← j.getObjVal? "inter").getArr?
  let inter ← interArr.toList.mapM fun e => do
    let a ← (← e.getArrVal? 0).getNat?
    let b ← (← e.getArrVal? 1).getNat?
    let sig ← Driver.ratOfJson (← e.getArrVal? 2)
    let eps ← Driver.ratOfJson (← e.getArrVal? 3)
    pure ((a, b), (sig, eps))
  -- interaction_matrix[frozenset([a, b])]: unordered pair of atom types
  let look := fun (g h : Nat) =>
    let a := atypes.getD g 0
    let b := atypes.getD h 0
    match inter.find? (fun e => (e.1.1 == a && e.1.2 == b) || (e.1.1 == b && e.1.2 == a)) with
    | some e => e.2
    | none => (0, 0)
  pure { n := n, L := L, cut := cut, floor := floor, T := T, inter := look }

def initOfJson (n : Nat) (j : Json) : Except String (Nat → Option V3) := do
  let arr ← j.getArr?
  let mut tab : Array (Option V3) := Array.replicate n none
  for e in arr do
    let g ← (← e.getArrVal? 0).getNat?
    let p ← v3OfJson (← e.getArrVal? 1)
    if g < n then tab := tab.set! g (some p)
  let t := tab
  pure fun g => t.getD g none

def snapToJson (P : Params) (s : State) : Json :=
  let rng := List.range P.n
  Json.mkObj [
    ("positions", Json.arr (rng.filterMap (fun g => (s.pos g).map fun p => Json.arr #[toJson g, v3ToJson p])).toArray),
    ("defined", Json.arr ((List.range s.nt).map (fun t => toJson (s.defined t))).toArray),
    ("trees", Json.arr ((List.range s.nt).map (fun t => Json.arr ((s.trees t).map optV3ToJson).toArray)).toArray),
    ("g2t", Json.arr (rng.filterMap (fun g => (s.g2t g).map fun t => Json.arr #[toJson g, toJson t])).toArray)]

/-- Σ over the contributing pairs of the 1-norm of the pair term: the scale against which the harness
measures the floating-point error of the implementation's sum -/
def forceScale (P : Params) (s : State) (point : V3) (g : Nat) (excl : List Nat) : Rat :=
  (List.range s.nt).foldl (fun acc t =>
    ((treeHits P s point t).filter (fun hd => !excl.contains hd.1)).foldl (fun a hd =>
      let f := pairTerm P s point g hd
      a + rabs f.x + rabs f.y + rabs f.z) acc) 0

def preOk (P : Params) (s : State) : Op → Bool
  | .add g p _ => (s.pos g).isNone && decide (g < P.n) && decide (inBox p P.L)
  | _ => true

def handleRun (j : Json) : Except String Json := do
  let P ← paramsOfJson j
  let pos0 ← initOfJson P.n (← j.getObjVal? "init")
  let ops ← (← j.getObjVal? "ops").getArr?
  let mut s := build P pos0
  let mut m := pos0
  let mut out : Array Json := #[]
  let mut pre := true
  for o in ops do
    let k ← (← o.getObjVal? "k").getStr?
    match k with
    | "add" =>
      let g ← (← o.getObjVal? "g").getNat?
      let p ← v3OfJson (← o.getObjVal? "p")
      let start ← (← o.getObjVal? "start").getBool?
      let op := Op.add g p start
      pre := pre && preOk P s op
      s := step P s op
      m := absStep m op
    | "remove" =>
      let gs ← natList (← o.getObjVal? "gs")
      s := step P s (Op.remove gs)
      m := absStep m (Op.remove gs)
    | "concat" =>
      s := step P s Op.concat
      m := absStep m Op.concat
    | "get" =>
      let g ← (← o.getObjVal? "g").getNat?
      out := out.push (Json.mkObj [("model", optV3ToJson (getPoint s g)), ("spec", optV3ToJson (m g))])
    | "force" =>
      let p ← v3OfJson (← o.getObjVal? "p")
      let g ← (← o.getObjVal? "g").getNat?
      let excl ← natList (← o.getObjVal? "excl")
      out := out.push (Json.mkObj [("model", forceToJson (force P s p g excl)),
                                   ("spec", forceToJson (specForce P m p g excl)),
                                   ("scale", Driver.ratToJson (forceScale P s p g excl)),
                                   ("near", toJson ((specNear P m p).map (·.1)))])
    | "dist" =>
      let a ← optV3OfJson (← o.getObjVal? "a")
      let b ← optV3OfJson (← o.getObjVal? "b")
      out := out.push (Json.mkObj [("model", match pbcMinDistSq P a b with
                                             | some r => Driver.ratToJson r
                                             | none => Json.null)])
    | "snap" =>
      out := out.push (Json.mkObj [("model", snapToJson P s),
        ("spec", Json.arr ((List.range P.n).filterMap (fun g => (m g).map fun p => Json.arr #[toJson g, v3ToJson p])).toArray)])
    | _ => throw s!"unknown engine op {k}"
  pure (Driver.okJson [("out", Json.arr out), ("pre", Json.bool pre)])

/-! ### the index layout of `from_topology` -/

def posAttrOfJson (j : Json) : Except String EngineLayout.PosAttr :=
  match j with
  | Json.null => pure .absent
  | Json.str _ => pure .nonFinite
  | _ => (v3OfJson j).map .given

def nodeOfJson (j : Json) : Except String EngineLayout.Node := do
  let key ← (← j.getObjVal? "key").getNat?
  let resname ← (← j.getObjVal? "resname").getStr?
  let template ← match optField j "template" with
    | some t => (t.getStr?).map some
    | none => pure none
  let pos ← match j.getObjVal? "pos" with
    | .ok v => posAttrOfJson v
    | .error _ => pure .absent
  pure { key := key, resname := resname, template := template, pos := pos }

def molOfJson (j : Json) : Except String EngineLayout.Mol := do
  let name ← (← j.getObjVal? "name").getStr?
  let nodes ← (← (← j.getObjVal? "nodes").getArr?).toList.mapM nodeOfJson
  pure { name := name, nodes := nodes }

def handleLayout (j : Json) : Except String Json := do
  let L ← v3OfJson (← j.getObjVal? "L")
  let ignore ← (← (← j.getObjVal? "ignore").getArr?).toList.mapM (·.getStr?)
  let mols ← (← (← j.getObjVal? "mols").getArr?).toList.mapM molOfJson
  let ents := EngineLayout.entries ignore mols
  let spec := Json.arr ((ents.zipIdx).map (fun (e, g) =>
    Json.mkObj [("mol", toJson e.1), ("key", toJson e.2.key), ("gndx", toJson g),
                ("atype", Json.str e.2.atype), ("row", optV3ToJson e.2.row)])).toArray
  let bad := ents.any fun e => !e.2.posOk L
  match EngineLayout.fromTopology L ignore mols with
  | .error e =>
    pure (Driver.okJson [("status", Json.str (match e with | .reject => "reject" | .fail => "fail")),
                         ("spec", spec), ("spec_reject", Json.bool bad)])
  | .ok lay =>
    let keys := (lay.map.map (·.1)).eraseDups
    let d := EngineLayout.dictOf lay.map
    let items := keys.filterMap fun k => (d k).map fun g => Json.arr #[toJson k.1, toJson k.2, toJson g]
    pure (Driver.okJson [("status", Json.str "ok"),
      ("tree", Json.bool (EngineLayout.treeAccepts L lay)),
      ("n", toJson lay.nAtoms),
      ("map", Json.arr items.toArray),
      ("atypes", toJson lay.atypes),
      ("rows", Json.arr ((List.range lay.nAtoms).map (fun g => optV3ToJson (lay.pos g))).toArray),
      ("spec", spec), ("spec_reject", Json.bool bad)])

def handle (j : Json) : Except String Json := do
  let op ← (← j.getObjVal? "op").getStr?
  match op with
  | "run" => handleRun j
  | "layout" => handleLayout j
  | _ => throw s!"unknown op {op}"

end PolyplyVerif.Driver.C16
