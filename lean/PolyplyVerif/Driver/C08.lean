import PolyplyVerif.Driver.Common
import PolyplyVerif.Generated.Top
import PolyplyVerif.Model.TopParse
open Lean PolyplyVerif PolyplyVerif.TopParse

namespace PolyplyVerif.Driver.C08

def strList (j : Json) : Except String (List String) := do
  let arr ← j.getArr?
  arr.toList.mapM (·.getStr?)

def fsOfJson (j : Json) : Except String FS := do
  let arr ← j.getArr?
  arr.toList.mapM fun e => do pure (← strList (← e.getArrVal? 0), ← strList (← e.getArrVal? 1))

def strs (l : List String) : Json := Json.arr (l.map Json.str).toArray
def optStr (o : Option String) : Json := match o with | some s => Json.str s | none => Json.null

def condToJson (c : Option Cond) : Json :=
  match c with
  | some m => Json.arr #[Json.str m.condition, Json.str m.tag]
  | none => Json.null

def itpLineToJson (l : ItpLine) : Json :=
  match l with
  | .hdr n => Json.arr #[Json.str "[", Json.str n]
  | .toks t => strs t

def groupToJson (g : Group) : Json := Json.arr (g.map itpLineToJson).toArray

def globToJson (g : Glob) : Json :=
  Json.mkObj [
    ("defines", Json.arr (g.defines.map fun (k, v) => Json.arr #[Json.str k, match v with | some l => strs l | none => Json.null]).toArray),
    ("defaults", Json.arr (g.defaults.map fun (k, v) => Json.arr #[Json.str k, Json.str v]).toArray),
    ("atomtypes", Json.arr (g.atomTypes.map fun (k, r) => Json.arr #[Json.str k, optStr r.nb1, optStr r.nb2, optStr r.ptype,
        optStr r.charge, optStr r.mass, optStr r.atomNum, optStr r.bondType]).toArray),
    ("nonbond", Json.arr (g.nonbond.map fun (k, v) => Json.arr #[Json.str k.1, Json.str k.2, Json.str v.1, Json.str v.2.1, Json.str v.2.2]).toArray),
    ("types", Json.arr (g.types.map fun (it, tab) => Json.arr #[Json.str it,
        Json.arr (tab.map fun (key, es) => Json.arr #[strs key, Json.arr (es.map fun e => Json.arr #[strs e.params, condToJson e.cond]).toArray]).toArray]).toArray),
    ("groups", Json.arr (g.groups.map groupToJson).toArray),
    ("sealed", Json.arr (g.groups.map (fun grp => groupToJson (sealGroup grp))).toArray),
    ("blocks", strs g.blockNames),
    ("molecules", strs g.molecules),
    ("mol_idx", Json.arr (g.molIdx.map fun (k, v) => Json.arr #[Json.str k, Json.arr (v.map toJson).toArray]).toArray)]

/-- a classified raw line (`classify`): `null` = skipped by the reader -/
def lineToJson (l : Option Line) : Json :=
  match l with
  | none => Json.null
  | some (.header n) => Json.arr #[Json.str "header", Json.str n]
  | some .badHeader => Json.arr #[Json.str "badHeader"]
  | some .star => Json.arr #[Json.str "star"]
  | some (.pragma t) => Json.arr #[Json.str "pragma", strs t]
  | some (.content t) => Json.arr #[Json.str "content", strs t]

def result (r : Except String Glob) : Json :=
  match r with
  | .ok g => okJson [("top", globToJson g)]
  | .error e => errJson e

def handle (j : Json) : Except String Json := do
  let op ← (← j.getObjVal? "op").getStr?
  match op with
  | "read" =>
    let fs ← fsOfJson (← j.getObjVal? "fs")
    let top ← strList (← j.getObjVal? "top")
    pure (result (readTop fs top))
  | "readsingle" =>
    let lines ← strList (← j.getObjVal? "lines")
    pure (result (readSingle lines))
  | "flatten" =>
    -- the specification side: the flattened file of the property statement
    let fs ← fsOfJson (← j.getObjVal? "fs")
    let top ← strList (← j.getObjVal? "top")
    match flatten fs top with
    | .ok st => pure (okJson [("lines", strs st.out), ("abort", Json.bool st.abort), ("defs", strs st.defs),
                              ("well_formed", Json.bool (wellFormed fs top))])
    | .error e => pure (errJson e)
  | "expand" =>
    -- the specification of the molecule list
    let arr ← (← j.getObjVal? "molecules").getArr?
    let mols ← arr.toList.mapM fun e => do pure ((← (← e.getArrVal? 0).getStr?), (← (← e.getArrVal? 1).getNat?))
    let l := expandSpec mols
    let names := (mols.map (·.1)).eraseDups
    pure (okJson [("molecules", strs l),
                  ("mol_idx", Json.arr ((names.filterMap fun n =>
                      let ps := positionsOf l n
                      if ps.isEmpty then none else some (Json.arr #[Json.str n, Json.arr (ps.map toJson).toArray])).toArray))])
  | "tokenize" =>
    let lines ← strList (← j.getObjVal? "lines")
    pure (okJson [("tokens", Json.arr (lines.map fun l => strs (tokenize l)).toArray)])
  | "classify" =>
    -- `LineParser.parse` (comment, strip, skip) + `TOPDirector.dispatch` + the name `parse_header` computes
    let lines ← strList (← j.getObjVal? "lines")
    pure (okJson [("kinds", Json.arr (lines.map fun l => lineToJson (classify l)).toArray)])
  | _ => throw s!"unknown op {op}"

end PolyplyVerif.Driver.C08
