/-
Line protocol for C05.
  {"op":"wrap","p":[…],"L":[…]}                                   -> Geometry.wrap            (pbc_complete)
  {"op":"take_step","coord":[…],"v":[…],"step":r,"L":[…]}         -> Engine.takeStep          (_take_step)
  {"op":"update", <engine fields as in C16>, "W":{"stepFudge":r|null,"maxForce":r|null,"maxiter":k|null},
      "pre":[[g,[…],start],…],"bundle":[[…],…],"choices":[…],"cur":g,"prev":g,"excl":[…]}
                                                                  -> Engine.updatePositions   (update_positions)
  {"op":"start", <engine fields>, "W":…, "grid":[[…],…],"k":k,"first":g,"excl":[…]}
                                                                  -> Engine.placeStart        (_random_walk start)
  {"op":"placement", <engine fields; "init" = positions before the call>, "maxForce":r,"point":[…],"g":g,
      "excl":[…],"prev":g|null,"step":r,"tol":r,"ftol":r,"grid_point":[…]|null}
                                                                  -> Engine.placementSpec (the statement of C05)
  {"op":"trials", … as "update" …}                                -> Engine.updateTrials (the trials of update_positions:
                                                                     tried vectors in order, how the loop ends)
  {"op":"unit_check","vectors":[[…],…],"eps":r}                   -> |‖v‖² − 1| ≤ eps for every vector (norm_sphere)
  {"op":"uvect","v":[…],"n":r}                                    -> Engine.uVectWith (_u_vect with the norm supplied)
null for a walk parameter / floor / T means: the translated constant of the current /repo source.
-/
import PolyplyVerif.Driver.Common
import PolyplyVerif.Driver.C16
import PolyplyVerif.Generated.EngineTables
import PolyplyVerif.Model.Engine
import PolyplyVerif.Model.EngineTrials
open Lean PolyplyVerif PolyplyVerif.Geometry PolyplyVerif.Engine
open PolyplyVerif.Driver.C16 (v3OfJson v3ToJson optV3OfJson optV3ToJson natList forceToJson optField paramsOfJson
  initOfJson snapToJson)

namespace PolyplyVerif.Driver.C05

def walkOfJson (j : Json) : Except String WalkParams := do
  let w := match j.getObjVal? "W" with
    | .ok v => v
    | .error _ => Json.mkObj []
  let sf ← match optField w "stepFudge" with
    | some v => Driver.ratOfJson v
    | none => pure EngineTables.stepFudge
  let mf ← match optField w "maxForce" with
    | some v => Driver.ratOfJson v
    | none => pure EngineTables.maxForce
  let mi ← match optField w "maxiter" with
    | some v => v.getNat?
    | none => pure EngineTables.maxiter
  pure { stepFudge := sf, maxForce := mf, maxiter := mi }

def v3List (j : Json) : Except String (List V3) := do
  let arr ← j.getArr?
  arr.toList.mapM v3OfJson

def optRatToJson : Option Rat → Json
  | none => Json.null
  | some r => Driver.ratToJson r

def handle (j : Json) : Except String Json := do
  let op ← (← j.getObjVal? "op").getStr?
  match op with
  | "wrap" =>
    let p ← v3OfJson (← j.getObjVal? "p")
    let L ← v3OfJson (← j.getObjVal? "L")
    pure (Driver.okJson [("point", v3ToJson (wrap p L))])
  | "take_step" =>
    let c ← v3OfJson (← j.getObjVal? "coord")
    let v ← v3OfJson (← j.getObjVal? "v")
    let st ← Driver.ratOfJson (← j.getObjVal? "step")
    let L ← v3OfJson (← j.getObjVal? "L")
    pure (Driver.okJson [("point", v3ToJson (takeStep L v st c))])
  | "update" =>
    let P ← paramsOfJson j
    let pos0 ← initOfJson P.n (← j.getObjVal? "init")
    let W ← walkOfJson j
    let bundle ← v3List (← j.getObjVal? "bundle")
    let choices ← natList (← j.getObjVal? "choices")
    let cur ← (← j.getObjVal? "cur").getNat?
    let prev ← (← j.getObjVal? "prev").getNat?
    let excl ← natList (← j.getObjVal? "excl")
    -- optional "pre": [[g, [x,y,z], start], …] = add_positions calls issued before the step (multi-tree states)
    let pre ← match optField j "pre" with
      | some v => do
        let arr ← v.getArr?
        arr.toList.mapM fun e => do
          let g ← (← e.getArrVal? 0).getNat?
          let p ← v3OfJson (← e.getArrVal? 1)
          let st ← (← e.getArrVal? 2).getBool?
          pure (g, p, st)
      | none => pure []
    let s := pre.foldl (fun s (e : Nat × V3 × Bool) => add P s e.1 e.2.1 e.2.2) (build P pos0)
    match updatePositions P W s (fun _ => true) bundle choices cur prev excl with
    | none => pure (Driver.okJson [("point", Json.null), ("step", Driver.ratToJson (stepLength P W prev cur)),
                                   ("snap", snapToJson P s)])
    | some (np, s') => pure (Driver.okJson [("point", v3ToJson np), ("step", Driver.ratToJson (stepLength P W prev cur)),
                                            ("snap", snapToJson P s')])
  | "trials" =>
    let P ← paramsOfJson j
    let pos0 ← initOfJson P.n (← j.getObjVal? "init")
    let W ← walkOfJson j
    let bundle ← v3List (← j.getObjVal? "bundle")
    let choices ← natList (← j.getObjVal? "choices")
    let cur ← (← j.getObjVal? "cur").getNat?
    let prev ← (← j.getObjVal? "prev").getNat?
    let excl ← natList (← j.getObjVal? "excl")
    let pre ← match optField j "pre" with
      | some v => do
        let arr ← v.getArr?
        arr.toList.mapM fun e => do
          let g ← (← e.getArrVal? 0).getNat?
          let p ← v3OfJson (← e.getArrVal? 1)
          let st ← (← e.getArrVal? 2).getBool?
          pure (g, p, st)
      | none => pure []
    let s := pre.foldl (fun s (e : Nat × V3 × Bool) => add P s e.1 e.2.1 e.2.2) (build P pos0)
    match updateTrials P W s (fun _ => true) bundle choices cur prev excl with
    | none => pure (Driver.errJson "prev has no position")
    | some log =>
      let stop := match log.stop with
        | .accepted _ => "accepted"
        | .maxiter => "maxiter"
        | .emptyBundle => "empty-bundle"
        | .noChoice => "no-choice"
      pure (Driver.okJson [("tried", Json.arr (log.tried.map v3ToJson).toArray), ("ntried", toJson log.tried.length),
                           ("stop", Json.str stop),
                           ("bound", toJson (min (W.maxiter + 1) bundle.length))])
  | "unit_check" =>
    let vs ← v3List (← j.getObjVal? "vectors")
    let eps ← Driver.ratOfJson (← j.getObjVal? "eps")
    let bad := (vs.zipIdx.filter fun (v, _) => !(decide (rabs (v.normSq - 1) ≤ eps))).map (·.2)
    pure (Driver.okJson [("n", toJson vs.length), ("bad", toJson bad)])
  | "uvect" =>
    let v ← v3OfJson (← j.getObjVal? "v")
    let n ← Driver.ratOfJson (← j.getObjVal? "n")
    pure (Driver.okJson [("unit", v3ToJson (uVectWith v n)), ("norm_ok", Json.bool (n * n == v.normSq && n != 0)),
                         ("unit_normsq", Driver.ratToJson (uVectWith v n).normSq)])
  | "start" =>
    let P ← paramsOfJson j
    let pos0 ← initOfJson P.n (← j.getObjVal? "init")
    let W ← walkOfJson j
    let grid ← v3List (← j.getObjVal? "grid")
    let k ← (← j.getObjVal? "k").getNat?
    let first ← (← j.getObjVal? "first").getNat?
    let excl ← natList (← j.getObjVal? "excl")
    let s := build P pos0
    match placeStart P W s (fun _ => true) grid k first excl with
    | none => pure (Driver.okJson [("point", Json.null), ("snap", snapToJson P s)])
    | some (np, s') => pure (Driver.okJson [("point", v3ToJson np), ("snap", snapToJson P s')])
  | "placement" =>
    let P ← paramsOfJson j
    let m ← initOfJson P.n (← j.getObjVal? "init")
    let maxForce ← Driver.ratOfJson (← j.getObjVal? "maxForce")
    let point ← v3OfJson (← j.getObjVal? "point")
    let g ← (← j.getObjVal? "g").getNat?
    let excl ← natList (← j.getObjVal? "excl")
    let prev ← match optField j "prev" with
      | some v => (v.getNat?).map some
      | none => pure none
    let step ← Driver.ratOfJson (← j.getObjVal? "step")
    let tol ← Driver.ratOfJson (← j.getObjVal? "tol")
    let ftol ← Driver.ratOfJson (← j.getObjVal? "ftol")
    let gp ← match optField j "grid_point" with
      | some v => (v3OfJson v).map some
      | none => pure none
    let c := placementSpec P maxForce m point g excl prev step tol ftol gp
    pure (Driver.okJson [("in_box", Json.bool c.inBox), ("step_d2", optRatToJson c.stepD2),
      ("step_ok", Json.bool c.stepOk), ("closest_d2", optRatToJson c.closestD2),
      ("floor_ok", Json.bool c.floorOk), ("force", forceToJson c.force), ("force_ok", Json.bool c.forceOk),
      ("grid_ok", Json.bool c.gridOk), ("floor", Driver.ratToJson P.floor)])
  | _ => throw s!"unknown op {op}"

end PolyplyVerif.Driver.C05
