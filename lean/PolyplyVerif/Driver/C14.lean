import PolyplyVerif.Driver.Common
import PolyplyVerif.Model.Exclusions
open Lean PolyplyVerif PolyplyVerif.Excl

/-! Requests:
`{"op":"tag","excls":[..]}` → `tagExclusions`;
`{"op":"expand","nrexcl":m,"tags":[[atom,e]..],"edges":[[u,v]..]}` → `expandExcl`;
`{"op":"neighborhood","edges":[..],"source":a,"max":k,"min":m}` → `neighborhood`;
`{"op":"spec","atoms":[..],"e":[[atom,e]..],"edges":[..],"nrexcl":m,"listed":[[a,b]..]}` →
`specPairs` (what the property wants excluded by distance) and `effectivePairs` (what the written
molecule excludes). -/
namespace PolyplyVerif.Driver.C14

def arrOf (j : Json) : Except String (List Json) := do pure (← j.getArr?).toList

def pairOf (j : Json) : Except String (Nat × Nat) := do
  pure (← (← j.getArrVal? 0).getNat?, ← (← j.getArrVal? 1).getNat?)

def canonPairOf (j : Json) : Except String (Nat × Nat) := do
  let p ← pairOf j
  pure (if p.1 ≤ p.2 then p else (p.2, p.1))

def pairsToJson (l : List (Nat × Nat)) : Json := Json.arr (l.map (fun p => Json.arr #[toJson p.1, toJson p.2])).toArray

def handle (j : Json) : Except String Json := do
  let op ← (← j.getObjVal? "op").getStr?
  match op with
  | "tag" =>
    let excls ← (← arrOf (← j.getObjVal? "excls")).mapM (·.getNat?)
    let r := tagExclusions excls
    pure (okJson [("nrexcl", match r.1 with | some m => toJson m | none => Json.null), ("tagged", toJson r.2),
                  ("tags", toJson (if r.2 then excls else []))])
  | "expand" =>
    let nrexcl ← (← j.getObjVal? "nrexcl").getNat?
    let tags ← (← arrOf (← j.getObjVal? "tags")).mapM pairOf
    let edges ← (← arrOf (← j.getObjVal? "edges")).mapM canonPairOf
    pure (okJson [("generated", pairsToJson (expandExcl ⟨nrexcl, tags, edges⟩))])
  | "neighborhood" =>
    -- `graph_utils.neighborhood(graph, source, max_length, min_length)`
    let edges ← (← arrOf (← j.getObjVal? "edges")).mapM canonPairOf
    let a ← (← j.getObjVal? "source").getNat?
    let maxL ← (← j.getObjVal? "max").getNat?
    let minL ← (← j.getObjVal? "min").getNat?
    pure (okJson [("nodes", toJson (neighborhood edges a maxL minL))])
  | "spec" =>
    let atoms ← (← arrOf (← j.getObjVal? "atoms")).mapM (·.getNat?)
    let e ← (← arrOf (← j.getObjVal? "e")).mapM pairOf
    let edges ← (← arrOf (← j.getObjVal? "edges")).mapM canonPairOf
    let nrexcl ← (← j.getObjVal? "nrexcl").getNat?
    let listed ← (← arrOf (← j.getObjVal? "listed")).mapM pairOf
    pure (okJson [("want", pairsToJson (specPairs atoms e edges)),
                  ("effective", pairsToJson (effectivePairs atoms nrexcl edges listed))])
  | _ => throw s!"unknown op {op}"

end PolyplyVerif.Driver.C14
