/-
Helper lemmas for C08 (model: `Model/TopParse.lean`).
Part 1: tokenizer (whitespace / comment invariance), small dictionaries, `[molecules]` expansion.
-/
import PolyplyVerif.Model.TopParse

namespace PolyplyVerif.Proofs.TopParse
open PolyplyVerif PolyplyVerif.TopParse

/-! ### tokenizer -/

theorem wordsGo_ws_none (c : Char) (cs : List Char) (h : isWs c = true) :
    wordsGo (c :: cs) none = wordsGo cs none := by
  simp [wordsGo, h]

/-- leading whitespace is ignored -/
theorem words_leading (ws l : List Char) (h : ∀ c ∈ ws, isWs c = true) : words (ws ++ l) = words l := by
  induction ws with
  | nil => rfl
  | cons c rest ih =>
    have hc := h c List.mem_cons_self
    show wordsGo (c :: (rest ++ l)) none = words l
    rw [wordsGo_ws_none c _ hc]
    exact ih (fun x hx => h x (List.mem_cons_of_mem _ hx))

theorem wordsGo_allWs (ws : List Char) (h : ∀ c ∈ ws, isWs c = true) (cur : Option (List Char)) :
    wordsGo ws cur = (match cur with | none => [] | some w => [w]) := by
  induction ws generalizing cur with
  | nil => cases cur <;> rfl
  | cons c rest ih =>
    have hc := h c List.mem_cons_self
    have hr := fun x hx => h x (List.mem_cons_of_mem _ hx)
    cases cur with
    | none => simp [wordsGo, hc, ih hr none]
    | some w => simp [wordsGo, hc, ih hr none]

/-- trailing whitespace is ignored -/
theorem wordsGo_trailing (l ws : List Char) (h : ∀ c ∈ ws, isWs c = true) (cur : Option (List Char)) :
    wordsGo (l ++ ws) cur = wordsGo l cur := by
  induction l generalizing cur with
  | nil =>
    rw [List.nil_append, wordsGo_allWs ws h cur]
    cases cur <;> rfl
  | cons c rest ih =>
    simp only [List.cons_append, wordsGo]
    split
    · cases cur <;> simp [ih]
    · exact ih _

theorem words_trailing (l ws : List Char) (h : ∀ c ∈ ws, isWs c = true) : words (l ++ ws) = words l :=
  wordsGo_trailing l ws h none

/-- a run of whitespace between two parts of a line counts like a single blank -/
theorem wordsGo_inner (l1 ws l2 : List Char) (h : ∀ c ∈ ws, isWs c = true) (hne : ws ≠ []) (cur : Option (List Char)) :
    wordsGo (l1 ++ ws ++ l2) cur = wordsGo (l1 ++ ' ' :: l2) cur := by
  induction l1 generalizing cur with
  | nil =>
    simp only [List.nil_append]
    have blank : isWs ' ' = true := by decide
    -- both sides: close the current word, then continue with l2 from `none`
    have left : ∀ (ws : List Char), (∀ c ∈ ws, isWs c = true) → ws ≠ [] → ∀ cur,
        wordsGo (ws ++ l2) cur = (match cur with | none => [] | some w => [w]) ++ wordsGo l2 none := by
      intro ws
      induction ws with
      | nil => intro _ hn; exact absurd rfl hn
      | cons c rest ihw =>
        intro hw _ cur
        have hc := hw c List.mem_cons_self
        have hr := fun x hx => hw x (List.mem_cons_of_mem _ hx)
        by_cases hrest : rest = []
        · subst hrest
          cases cur <;> simp [wordsGo, hc]
        · have := ihw hr hrest none
          cases cur with
          | none => simp [wordsGo, hc, this]
          | some w => simp [wordsGo, hc, this]
    rw [left ws h hne cur]
    have := left [' '] (by intro c hc; simp at hc; subst hc; exact blank) (by simp) cur
    simpa using this.symm
  | cons c rest ih =>
    have ih' : ∀ cur, wordsGo (rest ++ (ws ++ l2)) cur = wordsGo (rest ++ ' ' :: l2) cur := by
      intro cur; simpa [List.append_assoc] using ih cur
    simp only [List.cons_append, List.append_assoc, wordsGo]
    split
    · cases cur <;> simp [ih']
    · exact ih' _

theorem stripComment_append_comment (l cmt : List Char) (h : ';' ∉ l) :
    stripComment (l ++ ';' :: cmt) = l := by
  induction l with
  | nil => simp [stripComment]
  | cons c rest ih =>
    have hc : c ≠ ';' := fun e => h (e ▸ List.mem_cons_self)
    have hr : ';' ∉ rest := fun e => h (List.mem_cons_of_mem _ e)
    simp only [stripComment, List.cons_append, List.takeWhile_cons] at ih ⊢
    simp [hc, ih hr]

theorem stripComment_no_comment (l : List Char) (h : ';' ∉ l) : stripComment l = l := by
  induction l with
  | nil => rfl
  | cons c rest ih =>
    have hc : c ≠ ';' := fun e => h (e ▸ List.mem_cons_self)
    have hr : ';' ∉ rest := fun e => h (List.mem_cons_of_mem _ e)
    simp only [stripComment, List.takeWhile_cons] at ih ⊢
    simp [hc, ih hr]

/-- a trailing comment does not change the tokens -/
theorem tokenize_comment (l cmt : List Char) (h : ';' ∉ l) :
    tokenizeChars (l ++ ';' :: cmt) = tokenizeChars l := by
  simp [tokenizeChars, stripComment_append_comment l cmt h, stripComment_no_comment l h]

/-- a line of whitespace and/or a comment has no tokens: the reader skips it -/
theorem tokenize_blank (ws cmt : List Char) (h : ∀ c ∈ ws, isWs c = true) :
    tokenizeChars ws = [] ∧ tokenizeChars (ws ++ ';' :: cmt) = [] := by
  have hsemi : ';' ∉ ws := by
    intro hm
    have := h ';' hm
    simp [isWs] at this
  have e : words ws = [] := by
    have := wordsGo_allWs ws h none
    simpa [words] using this
  constructor
  · simp [tokenizeChars, stripComment_no_comment ws hsemi, e]
  · simp [tokenizeChars, stripComment_append_comment ws cmt hsemi, e]

theorem classify_blank (ws cmt : List Char) (h : ∀ c ∈ ws, isWs c = true) :
    classifyChars ws = none ∧ classifyChars (ws ++ ';' :: cmt) = none := by
  obtain ⟨h1, h2⟩ := tokenize_blank ws cmt h
  simp [classifyChars, h1, h2]

/-! ### dictionaries -/

theorem assocGet_assocSet {β} (l : List (String × β)) (k k' : String) (v : β) :
    assocGet (assocSet l k v) k' = if k' = k then some v else assocGet l k' := by
  induction l with
  | nil =>
    simp only [assocSet, assocGet, List.find?_cons, List.find?_nil]
    by_cases h : k' = k
    · subst h; simp
    · have : (k == k') = false := by simpa using fun e => h e.symm
      simp [h, this]
  | cons hd rest ih =>
    obtain ⟨k0, v0⟩ := hd
    simp only [assocSet]
    by_cases h0 : (k0 == k) = true
    · have e0 : k0 = k := by simpa using h0
      subst e0
      simp only [h0, if_true, assocGet, List.find?_cons]
      by_cases h : k' = k0
      · subst h; simp
      · have : (k0 == k') = false := by simpa using fun e => h e.symm
        simp [h, this]
    · have h0' : (k0 == k) = false := by simpa using h0
      simp only [h0', Bool.false_eq_true, if_false, assocGet, List.find?_cons] at ih ⊢
      by_cases h1 : (k0 == k') = true
      · have e1 : k0 = k' := by simpa using h1
        subst e1
        have : ¬ k0 = k := by simpa using h0
        simp [this]
      · simp only [h1]
        exact ih

/-! ### `[molecules]` expansion -/

theorem zipIdx_replicate (n : String) (k s : Nat) :
    (List.replicate k n).zipIdx s = (List.range k).map (fun i => (n, s + i)) := by
  induction k generalizing s with
  | zero => rfl
  | succ k ih =>
    rw [List.replicate_succ, List.zipIdx_cons, ih, List.range_succ_eq_map]
    simp only [List.map_cons, List.map_map, Nat.add_zero]
    congr 1
    apply List.map_congr_left
    intro i _
    simp only [Function.comp]
    congr 1
    omega

theorem positionsOf_append_replicate (l : List String) (k : Nat) (n m : String) :
    positionsOf (l ++ List.replicate k n) m =
      positionsOf l m ++ (if m = n then (List.range k).map (· + l.length) else []) := by
  simp only [positionsOf, List.zipIdx_append, List.filter_append, List.map_append, Nat.zero_add]
  congr 1
  rw [zipIdx_replicate]
  by_cases h : m = n
  · subst h
    simp only [if_true, List.filter_map, List.map_map]
    have : (List.range k).filter ((fun p : String × Nat => p.1 == m) ∘ fun i => (m, l.length + i)) = List.range k := by
      apply List.filter_eq_self.mpr
      intro i _; simp
    rw [this]
    apply List.map_congr_left
    intro i _; simp [Nat.add_comm]
  · simp only [h, if_false, List.filter_map]
    have : (List.range k).filter ((fun p : String × Nat => p.1 == m) ∘ fun i => (n, l.length + i)) = [] := by
      apply List.filter_eq_nil_iff.mpr
      intro i _
      simp only [Function.comp, beq_iff_eq]
      exact fun e => h e.symm
    simp [this]

/-- the counts of a `[molecules]` list as numbers (negative counts give no molecule, like `range`) -/
def parsedMols : List (String × String) → Option (List (String × Nat))
  | [] => some []
  | (name, n) :: rest =>
    match natOfTok n, parsedMols rest with
    | some k, some r => some ((name, k.toNat) :: r)
    | _, _ => none

/-- the invariant `mol_idx_by_name` keeps: the positions of every name -/
def IdxInv (g : Glob) : Prop := ∀ n, (assocGet g.molIdx n).getD [] = positionsOf g.molecules n

theorem expandMols_spec (mols : List (String × String)) (g g' : Glob) (count : Nat)
    (hc : count = g.molecules.length) (hinv : IdxInv g) (h : expandMols g count mols = .ok g') :
    ∃ pm, parsedMols mols = some pm ∧ g'.molecules = g.molecules ++ expandSpec pm ∧ IdxInv g' ∧
      (∀ m ∈ mols, g.blockNames.contains m.1 = true) ∧ g'.blockNames = g.blockNames ∧ g'.groups = g.groups := by
  induction mols generalizing g count with
  | nil =>
    simp [expandMols] at h
    subst h
    exact ⟨[], rfl, by simp [expandSpec], hinv, by simp, rfl, rfl⟩
  | cons hd rest ih =>
    obtain ⟨name, n⟩ := hd
    unfold expandMols at h
    by_cases hb : g.blockNames.contains name = true
    · simp only [hb, Bool.not_true, Bool.false_eq_true, if_false] at h
      cases hn : natOfTok n with
      | none => simp [hn] at h
      | some k =>
        simp only [hn] at h
        -- the state after this line
        let g1 : Glob := { g with molecules := g.molecules ++ List.replicate k.toNat name,
                                  molIdx := if (k.toNat == 0) = true then g.molIdx
                                            else assocSet g.molIdx name ((assocGet g.molIdx name).getD [] ++
                                                  (List.range k.toNat).map (· + count)) }
        have hinv1 : IdxInv g1 := by
          intro m
          show (assocGet g1.molIdx m).getD [] = positionsOf (g.molecules ++ List.replicate k.toNat name) m
          rw [positionsOf_append_replicate]
          show (assocGet (if (k.toNat == 0) = true then g.molIdx
                            else assocSet g.molIdx name ((assocGet g.molIdx name).getD [] ++
                                  (List.range k.toNat).map (· + count))) m).getD [] = _
          by_cases hk : (k.toNat == 0) = true
          · have hk0 : k.toNat = 0 := by simpa using hk
            rw [if_pos hk, hk0, hinv m]
            split <;> simp
          · rw [if_neg hk, assocGet_assocSet]
            by_cases hm : m = name
            · subst hm
              simp only [if_true, Option.getD_some]
              rw [hinv m, hc]
            · simp only [hm, if_false]
              rw [hinv m]; simp
        have hc1 : count + k.toNat = g1.molecules.length := by
          simp [g1, hc]
        obtain ⟨pm, hpm, hmol, hinv', hnames, hbn, hgr⟩ := ih g1 (count + k.toNat) hc1 hinv1 h
        refine ⟨(name, k.toNat) :: pm, ?_, ?_, hinv', ?_, hbn, hgr⟩
        · simp [parsedMols, hn, hpm]
        · rw [hmol]
          simp [g1, expandSpec, List.append_assoc]
        · intro m hm
          rcases List.mem_cons.mp hm with rfl | hm
          · exact hb
          · exact hnames m hm
    · have hb' : name ∉ g.blockNames := by simpa using hb
      simp [hb'] at h

/-! ### the reader only sees the classified lines -/

theorem readFile_congr (fs fs' : FS) (h : ∀ p, (fsGet fs p).map parseLines = (fsGet fs' p).map parseLines) :
    ∀ fuel, readFile fs fuel = readFile fs' fuel := by
  intro fuel
  induction fuel with
  | zero => funext p g; rfl
  | succ fuel ih =>
    funext p g
    unfold readFile
    have hp := h p
    cases h1 : fsGet fs p with
    | none =>
      cases h2 : fsGet fs' p with
      | none => rfl
      | some r => simp [h1, h2] at hp
    | some r =>
      cases h2 : fsGet fs' p with
      | none => simp [h1, h2] at hp
      | some r' =>
        simp only [h1, h2, Option.map_some, Option.some.injEq] at hp
        simp only [hp, ih]

theorem stripComment_ws_prefix (ws l : List Char) (h : ∀ c ∈ ws, isWs c = true) :
    stripComment (ws ++ l) = ws ++ stripComment l := by
  induction ws with
  | nil => rfl
  | cons c rest ih =>
    have hc : c ≠ ';' := by
      intro e
      have := h c List.mem_cons_self
      rw [e] at this
      simp [isWs] at this
    simp only [stripComment, List.cons_append, List.takeWhile_cons] at ih ⊢
    simp [hc, ih (fun x hx => h x (List.mem_cons_of_mem _ hx))]

theorem dropWhile_ws_prefix (ws l : List Char) (h : ∀ c ∈ ws, isWs c = true) :
    (ws ++ l).dropWhile isWs = l.dropWhile isWs := by
  induction ws with
  | nil => rfl
  | cons c rest ih =>
    simp only [List.cons_append, List.dropWhile_cons, h c List.mem_cons_self, if_true]
    exact ih (fun x hx => h x (List.mem_cons_of_mem _ hx))

theorem dropWhile_all (l : List Char) (h : ∀ c ∈ l, isWs c = true) : l.dropWhile isWs = [] := by
  induction l with
  | nil => rfl
  | cons c rest ih =>
    simp only [List.dropWhile_cons, h c List.mem_cons_self, if_true]
    exact ih (fun x hx => h x (List.mem_cons_of_mem _ hx))

theorem stripWs_pad (ws l ws' : List Char) (h : ∀ c ∈ ws, isWs c = true) (h' : ∀ c ∈ ws', isWs c = true) :
    stripWs (ws ++ l ++ ws') = stripWs l := by
  unfold stripWs
  rw [List.append_assoc, dropWhile_ws_prefix ws _ h]
  by_cases hall : ∀ c ∈ l, isWs c = true
  · -- everything is whitespace: both sides are empty
    have e1 : (l ++ ws').dropWhile isWs = [] := by
      apply dropWhile_all
      intro c hc
      rcases List.mem_append.mp hc with hc | hc
      · exact hall c hc
      · exact h' c hc
    have e2 : l.dropWhile isWs = [] := dropWhile_all l hall
    rw [e1, e2]
  · -- some non-blank character: dropping the blank prefix commutes with appending ws'
    have hd : (l ++ ws').dropWhile isWs = l.dropWhile isWs ++ ws' := by
      induction l with
      | nil => exact absurd (by intro c hc; cases hc) hall
      | cons c rest ih =>
        simp only [List.cons_append, List.dropWhile_cons]
        by_cases hc : isWs c = true
        · simp only [hc, if_true]
          apply ih
          intro hr
          apply hall
          intro x hx
          rcases List.mem_cons.mp hx with rfl | hx
          · exact hc
          · exact hr x hx
        · simp [hc]
    rw [hd, List.reverse_append, dropWhile_ws_prefix ws'.reverse _ (by intro c hc; exact h' c (List.mem_reverse.mp hc))]

/-- blanks before and after a line, and a comment after it, do not change how the line is classified -/
theorem classify_pad (ws l ws' cmt : List Char) (h : ∀ c ∈ ws, isWs c = true) (h' : ∀ c ∈ ws', isWs c = true)
    (hsemi : ';' ∉ l) :
    classifyChars (ws ++ l ++ ws') = classifyChars l ∧
    classifyChars (ws ++ l ++ ws' ++ ';' :: cmt) = classifyChars l := by
  have hs' : ';' ∉ ws' := by
    intro hm; have := h' ';' hm; simp [isWs] at this
  have hs : ';' ∉ ws := by
    intro hm; have := h ';' hm; simp [isWs] at this
  have hall : ';' ∉ ws ++ l ++ ws' := by
    simp only [List.mem_append, not_or]; exact ⟨⟨hs, hsemi⟩, hs'⟩
  have sc1 : stripComment (ws ++ l ++ ws') = ws ++ l ++ ws' := stripComment_no_comment _ hall
  have sc2 : stripComment (ws ++ l ++ ws' ++ ';' :: cmt) = ws ++ l ++ ws' := stripComment_append_comment _ cmt hall
  have sc0 : stripComment l = l := stripComment_no_comment _ hsemi
  have tok : words (ws ++ l ++ ws') = words l := by
    rw [words_trailing _ ws' h', words_leading ws l h]
  have strip : stripWs (ws ++ l ++ ws') = stripWs l := stripWs_pad ws l ws' h h'
  constructor
  · simp only [classifyChars, tokenizeChars, headerNameChars, sc1, sc0, tok, strip]
  · simp only [classifyChars, tokenizeChars, headerNameChars, sc2, sc0, tok, strip]

/-- a run of blanks/tabs inside a line gives the same tokens as a single blank -/
theorem tokenize_inner (l1 ws l2 : List Char) (h : ∀ c ∈ ws, isWs c = true) (hne : ws ≠ [])
    (h1 : ';' ∉ l1) :
    tokenizeChars (l1 ++ ws ++ l2) = tokenizeChars (l1 ++ ' ' :: l2) := by
  have hs : ';' ∉ ws := by
    intro hm; have := h ';' hm; simp [isWs] at this
  have e1 : stripComment (l1 ++ ws ++ l2) = l1 ++ ws ++ stripComment l2 := by
    rw [List.append_assoc]
    have : ∀ (a b : List Char), ';' ∉ a → stripComment (a ++ b) = a ++ stripComment b := by
      intro a b ha
      induction a with
      | nil => rfl
      | cons c rest ih =>
        have hc : c ≠ ';' := fun e => ha (e ▸ List.mem_cons_self)
        simp only [stripComment, List.cons_append, List.takeWhile_cons] at ih ⊢
        simp [hc, ih (fun e => ha (List.mem_cons_of_mem _ e))]
    rw [this l1 _ h1, this ws _ hs, List.append_assoc]
  have e2 : stripComment (l1 ++ ' ' :: l2) = l1 ++ ' ' :: stripComment l2 := by
    have : ∀ (a b : List Char), ';' ∉ a → stripComment (a ++ b) = a ++ stripComment b := by
      intro a b ha
      induction a with
      | nil => rfl
      | cons c rest ih =>
        have hc : c ≠ ';' := fun e => ha (e ▸ List.mem_cons_self)
        simp only [stripComment, List.cons_append, List.takeWhile_cons] at ih ⊢
        simp [hc, ih (fun e => ha (List.mem_cons_of_mem _ e))]
    rw [this l1 _ h1]
    simp [stripComment]
  simp only [tokenizeChars, e1, e2, words]
  rw [wordsGo_inner l1 ws _ h hne none]

end PolyplyVerif.Proofs.TopParse
