/-
Lemmas about `Model/RotationAngles.lean` (the objective of `orient_template`).
-/
import PolyplyVerif.Model.RotationAngles
import PolyplyVerif.Proofs.Rotation
import Mathlib.Tactic.Ring
import Mathlib.Tactic.Linarith
import Mathlib.Tactic.Positivity
import Mathlib.Algebra.Order.Field.Basic
import Mathlib.Algebra.BigOperators.Group.List.Basic

namespace PolyplyVerif.Proofs.RotationAngles
open PolyplyVerif.Rot

section ring
variable {K : Type} [CommRing K]

theorem foldl_add_eq (f : (V3 K × V3 K) → K) (l : List (V3 K × V3 K)) (acc : K) :
    l.foldl (fun acc p => acc + f p) acc = acc + (l.map f).sum := by
  induction l generalizing acc with
  | nil => simp
  | cons x t ih => simp only [List.foldl_cons, ih, List.map_cons, List.sum_cons]; ring

theorem objective_eq_sum (a : Angles K) (pairs : List (V3 K × V3 K)) :
    objective a pairs = (pairs.map (objTerm a)).sum := by
  unfold objective
  rw [foldl_add_eq]; ring

/-- the order of the neighbours / connecting edges does not matter -/
theorem objective_perm (a : Angles K) {pairs pairs' : List (V3 K × V3 K)} (h : pairs.Perm pairs') :
    objective a pairs = objective a pairs' := by
  rw [objective_eq_sum, objective_eq_sum]
  exact (h.map _).sum_eq

theorem objective_nil (a : Angles K) : objective a ([] : List (V3 K × V3 K)) = 0 := rfl

theorem objective_append (a : Angles K) (l l' : List (V3 K × V3 K)) :
    objective a (l ++ l') = objective a l + objective a l' := by
  simp [objective_eq_sum]

/-- for a proper rotation the objective is `Σ ‖opt‖² + ‖ref‖² − 2·(R opt)·ref`: only the last term depends on
the angles, so minimising the objective is maximising the alignment `Σ (R opt_k)·ref_k` -/
theorem objTerm_expand (a : Angles K) (h : (rotMat a).transpose * rotMat a = 1) (p : V3 K × V3 K) :
    objTerm a p = V3.normSq p.1 + V3.normSq p.2 - 2 * V3.dot ((rotMat a).mulVec p.1) p.2 := by
  unfold objTerm
  have hn := PolyplyVerif.Proofs.Rotation.normSq_preserved h p.1
  have e : V3.normSq ((rotMat a).mulVec p.1 - p.2) =
      V3.normSq ((rotMat a).mulVec p.1) + V3.normSq p.2 - 2 * V3.dot ((rotMat a).mulVec p.1) p.2 := by
    simp only [V3.normSq, V3.dot]
    show ((rotMat a).mulVec p.1 - p.2).x * ((rotMat a).mulVec p.1 - p.2).x + _ + _ = _
    have hx : ((rotMat a).mulVec p.1 - p.2).x = ((rotMat a).mulVec p.1).x - p.2.x := rfl
    have hy : ((rotMat a).mulVec p.1 - p.2).y = ((rotMat a).mulVec p.1).y - p.2.y := rfl
    have hz : ((rotMat a).mulVec p.1 - p.2).z = ((rotMat a).mulVec p.1).z - p.2.z := rfl
    rw [hx, hy, hz]; ring
  rw [e, hn]

end ring

section ordered
variable {F : Type} [Field F] [LinearOrder F] [IsStrictOrderedRing F]

theorem normSq_nonneg (u : V3 F) : 0 ≤ V3.normSq u := by
  simp only [V3.normSq, V3.dot]
  nlinarith [mul_self_nonneg u.x, mul_self_nonneg u.y, mul_self_nonneg u.z]

theorem normSq_eq_zero (u : V3 F) (h : V3.normSq u = 0) : u.x = 0 ∧ u.y = 0 ∧ u.z = 0 := by
  simp only [V3.normSq, V3.dot] at h
  have hx := mul_self_nonneg u.x
  have hy := mul_self_nonneg u.y
  have hz := mul_self_nonneg u.z
  refine ⟨?_, ?_, ?_⟩ <;> exact mul_self_eq_zero.mp (by nlinarith)

theorem objTerm_nonneg (a : Angles F) (p : V3 F × V3 F) : 0 ≤ objTerm a p := normSq_nonneg _

theorem objective_nonneg (a : Angles F) (pairs : List (V3 F × V3 F)) : 0 ≤ objective a pairs := by
  rw [objective_eq_sum]
  exact List.sum_nonneg (by
    intro x hx
    simp only [List.mem_map] at hx
    obtain ⟨p, _, rfl⟩ := hx
    exact objTerm_nonneg a p)

/-- the objective vanishes exactly when every rotated template atom sits on its reference point -/
theorem objective_eq_zero_iff (a : Angles F) (pairs : List (V3 F × V3 F)) :
    objective a pairs = 0 ↔ ∀ p ∈ pairs, (rotMat a).mulVec p.1 = p.2 := by
  induction pairs with
  | nil => simp [objective_nil]
  | cons q t ih =>
    have hsplit : objective a (q :: t) = objTerm a q + objective a t := by
      simp [objective_eq_sum]
    rw [hsplit]
    have h1 := objTerm_nonneg a q
    have h2 := objective_nonneg a t
    constructor
    · intro h
      have hq : objTerm a q = 0 := by linarith
      have ht : objective a t = 0 := by linarith
      intro p hp
      rcases List.mem_cons.mp hp with rfl | hp
      · obtain ⟨hx, hy, hz⟩ := normSq_eq_zero _ hq
        have ex : ((rotMat a).mulVec p.1 - p.2).x = ((rotMat a).mulVec p.1).x - p.2.x := rfl
        have ey : ((rotMat a).mulVec p.1 - p.2).y = ((rotMat a).mulVec p.1).y - p.2.y := rfl
        have ez : ((rotMat a).mulVec p.1 - p.2).z = ((rotMat a).mulVec p.1).z - p.2.z := rfl
        rw [ex] at hx; rw [ey] at hy; rw [ez] at hz
        cases hm : (rotMat a).mulVec p.1 with
        | mk mx my mz =>
          rw [hm] at hx hy hz
          cases hp2 : p.2 with
          | mk rx ry rz =>
            rw [hp2] at hx hy hz
            simp only at hx hy hz
            congr 1 <;> linarith
      · exact (ih.mp ht) p hp
    · intro h
      have hq : objTerm a q = 0 := by
        unfold objTerm
        rw [h q (by simp)]
        simp only [V3.normSq, V3.dot]
        have ex : (q.2 - q.2).x = q.2.x - q.2.x := rfl
        have ey : (q.2 - q.2).y = q.2.y - q.2.y := rfl
        have ez : (q.2 - q.2).z = q.2.z - q.2.z := rfl
        rw [ex, ey, ez]; ring
      have ht : objective a t = 0 := ih.mpr (fun p hp => h p (by simp [hp]))
      rw [hq, ht]; ring

end ordered

end PolyplyVerif.Proofs.RotationAngles
