/-
Lemmas about `Model/TemplatesBlock.lean` (C15): `extract_block`, `find_interaction_involving`,
`_good_impropers`, `_expand_inital_coords`, `renew_vs`, the energy of `target_function`.
-/
import PolyplyVerif.Model.TemplatesBlock
import PolyplyVerif.Proofs.Templates
import Mathlib.Data.List.Nodup
import Mathlib.Data.List.Perm.Subperm
import Mathlib.Tactic.Linarith
import Mathlib.Tactic.Positivity

namespace PolyplyVerif.Proofs.TemplatesBlock
open PolyplyVerif.Rot PolyplyVerif.Templ PolyplyVerif.TemplBlock PolyplyVerif.Proofs.Templates

/-! ### the mapping -/

theorem lookup_mapping (name : Nat → String) (nodes : List Nat) (a : Nat) :
    (mapping name nodes).lookup a = if a ∈ nodes then some (name a) else none := by
  induction nodes with
  | nil => simp [mapping]
  | cons n rest ih =>
    simp only [mapping, List.map_cons, List.lookup_cons] at ih ⊢
    by_cases h : a = n
    · subst h; simp
    · have : (a == n) = false := by simpa using h
      rw [this]
      simp only [List.mem_cons, h, false_or]
      exact ih

theorem inMapping_iff (name : Nat → String) (nodes : List Nat) (a : Nat) :
    inMapping (mapping name nodes) a = true ↔ a ∈ nodes := by
  unfold inMapping
  rw [lookup_mapping]
  by_cases h : a ∈ nodes <;> simp [h]

theorem keepIxn_iff (name : Nat → String) (nodes : List Nat) (i : Ixn Nat) :
    keepIxn (mapping name nodes) i = true ↔ ∀ a ∈ i.atoms, a ∈ nodes := by
  unfold keepIxn
  rw [List.all_eq_true]
  constructor
  · intro h a ha; exact (inMapping_iff name nodes a).1 (h a ha)
  · intro h a ha; exact (inMapping_iff name nodes a).2 (h a ha)

theorem keepIxn_eq_inside (name : Nat → String) (nodes : List Nat) (i : Ixn Nat) :
    keepIxn (mapping name nodes) i = insideResidue nodes i := by
  rw [Bool.eq_iff_iff, keepIxn_iff]
  simp [insideResidue]

/-- an interaction with an atom outside the residue is not kept -/
theorem keepIxn_false_of_outside (name : Nat → String) (nodes : List Nat) (i : Ixn Nat) (a : Nat)
    (ha : a ∈ i.atoms) (hout : a ∉ nodes) : keepIxn (mapping name nodes) i = false := by
  cases h : keepIxn (mapping name nodes) i with
  | false => rfl
  | true => exact absurd ((keepIxn_iff name nodes i).1 h a ha) hout

theorem relabelList_of_all (name : Nat → String) (nodes : List Nat) (atoms : List Nat)
    (h : ∀ a ∈ atoms, a ∈ nodes) : relabelList (mapping name nodes) atoms = some (atoms.map name) := by
  induction atoms with
  | nil => rfl
  | cons a rest ih =>
    have ha : a ∈ nodes := h a (by simp)
    have hr := ih (fun b hb => h b (by simp [hb]))
    simp only [relabelList, lookup_mapping, ha, if_true, hr, List.map_cons]

/-- `_relabel_interaction_atoms` raises (`KeyError`) exactly when an atom is not a key of the mapping -/
theorem relabelList_none_iff (name : Nat → String) (nodes : List Nat) (atoms : List Nat) :
    relabelList (mapping name nodes) atoms = none ↔ ∃ a ∈ atoms, a ∉ nodes := by
  induction atoms with
  | nil => simp [relabelList]
  | cons a rest ih =>
    by_cases ha : a ∈ nodes
    · simp only [relabelList, lookup_mapping, ha, if_true]
      cases hr : relabelList (mapping name nodes) rest with
      | none =>
        obtain ⟨b, hb, hbn⟩ := ih.1 hr
        simp only [true_iff]
        exact ⟨b, by simp [hb], hbn⟩
      | some ss =>
        simp only [reduceCtorEq, false_iff]
        rintro ⟨b, hb, hbn⟩
        simp only [List.mem_cons] at hb
        rcases hb with rfl | hb
        · exact hbn ha
        · have := ih.2 ⟨b, hb, hbn⟩
          rw [hr] at this; cases this
    · simp only [relabelList, lookup_mapping, ha, if_false, true_iff]
      exact ⟨a, by simp, ha⟩

theorem relabelAtoms_of_keep (name : Nat → String) (nodes : List Nat) (defines : Dict (List String)) (i : Ixn Nat)
    (h : keepIxn (mapping name nodes) i = true) :
    relabelAtoms (mapping name nodes) (substIxn defines i) = some (image name defines i) := by
  have := relabelList_of_all name nodes i.atoms ((keepIxn_iff name nodes i).1 h)
  simp only [relabelAtoms, substIxn, this, image]

/-- the per-type loop of `extract_block` is `filter` then `map` -/
theorem extractType_eq (name : Nat → String) (nodes : List Nat) (defines : Dict (List String))
    (is : List (Ixn Nat)) :
    extractType defines (mapping name nodes) is
      = (is.filter (keepIxn (mapping name nodes))).map (image name defines) := by
  induction is with
  | nil => rfl
  | cons i rest ih =>
    by_cases h : keepIxn (mapping name nodes) i = true
    · simp only [extractType, h, if_true, relabelAtoms_of_keep name nodes defines i h, ih, List.filter_cons,
        List.map_cons]
    · have h' : keepIxn (mapping name nodes) i = false := by simpa using h
      simp only [extractType, h', Bool.false_eq_true, if_false, ih, List.filter_cons]

/-! ### `replace_defined_interaction` -/

theorem replaceDefined_eq_flatMap (defines : Dict (List String)) (ps : List String) :
    replaceDefined defines ps = ps.flatMap (fun p => (defines.get? p).getD [p]) := by
  induction ps with
  | nil => rfl
  | cons p rest ih =>
    simp only [replaceDefined, List.flatMap_cons]
    cases h : defines.get? p with
    | none => simp [ih]
    | some vs => simp [ih]

theorem replaceDefined_id (defines : Dict (List String)) (ps : List String)
    (h : ∀ p ∈ ps, defines.get? p = none) : replaceDefined defines ps = ps := by
  induction ps with
  | nil => rfl
  | cons p rest ih =>
    have hp := h p (by simp)
    simp only [replaceDefined, hp]
    rw [ih (fun q hq => h q (by simp [hq]))]

/-! ### block interactions -/

theorem blockInteractions_keys_sub (defines : Dict (List String)) (m : List (Nat × String))
    (mol : Dict (List (Ixn Nat))) (t : String) (h : (mol.get? t) = none) :
    (blockInteractions defines m mol).get? t = none := by
  induction mol with
  | nil => rfl
  | cons e rest ih =>
    obtain ⟨t', is⟩ := e
    simp only [Dict.get?] at h
    by_cases ht : t' = t
    · simp [ht] at h
    · simp only [ht, if_false] at h
      simp only [blockInteractions]
      cases hx : extractType defines m is with
      | nil => exact ih h
      | cons b bs => simp only [Dict.get?, ht, if_false]; exact ih h

theorem get?_none_of_not_mem_keys {β : Type} (d : Dict β) (k : String) (h : k ∉ d.keys) : d.get? k = none := by
  induction d with
  | nil => rfl
  | cons e rest ih =>
    obtain ⟨k', v⟩ := e
    simp only [Dict.keys, List.map_cons, List.mem_cons, not_or] at h
    simp only [Dict.get?]
    rw [if_neg (fun e => h.1 e.symm)]
    exact ih h.2

/-- `block.interactions.get(t, [])` is the per-type extraction of `molecule.interactions.get(t, [])` -/
theorem blockInteractions_get (defines : Dict (List String)) (m : List (Nat × String))
    (mol : Dict (List (Ixn Nat))) (hnd : mol.keys.Nodup) (t : String) :
    getInters (blockInteractions defines m mol) t = extractType defines m (getInters mol t) := by
  induction mol with
  | nil => simp [getInters, blockInteractions, Dict.get?, extractType]
  | cons e rest ih =>
    obtain ⟨t', is⟩ := e
    simp only [Dict.keys, List.map_cons, List.nodup_cons] at hnd
    by_cases ht : t' = t
    · subst ht
      have hrest : Dict.get? rest t' = none := get?_none_of_not_mem_keys rest t' hnd.1
      have hb := blockInteractions_keys_sub defines m rest t' hrest
      simp only [blockInteractions, getInters, Dict.get?, if_true, Option.getD_some]
      cases hx : extractType defines m is with
      | nil => simp only [hb, Option.getD_none]
      | cons b bs => simp only [Dict.get?, if_true, Option.getD_some]
    · have := ih hnd.2
      simp only [getInters] at this
      simp only [blockInteractions, getInters, Dict.get?, ht, if_false]
      cases hx : extractType defines m is with
      | nil => exact this
      | cons b bs => simp only [Dict.get?, ht, if_false]; exact this

/-- every key of `block.interactions` holds at least one interaction, and comes from the molecule in order -/
theorem blockInteractions_nonempty (defines : Dict (List String)) (m : List (Nat × String))
    (mol : Dict (List (Ixn Nat))) : ∀ e ∈ blockInteractions defines m mol, e.2 ≠ [] := by
  induction mol with
  | nil => intro e he; simp [blockInteractions] at he
  | cons e' rest ih =>
    obtain ⟨t', is⟩ := e'
    intro e he
    simp only [blockInteractions] at he
    cases hx : extractType defines m is with
    | nil => rw [hx] at he; exact ih e he
    | cons b bs =>
      rw [hx] at he
      simp only [List.mem_cons] at he
      rcases he with rfl | he
      · simp
      · exact ih e he

theorem blockInteractions_keys_sublist (defines : Dict (List String)) (m : List (Nat × String))
    (mol : Dict (List (Ixn Nat))) : List.Sublist (blockInteractions defines m mol).keys mol.keys := by
  induction mol with
  | nil => simp [blockInteractions, Dict.keys]
  | cons e' rest ih =>
    obtain ⟨t', is⟩ := e'
    simp only [blockInteractions]
    cases hx : extractType defines m is with
    | nil => exact List.Sublist.cons _ ih
    | cons b bs => exact List.Sublist.cons_cons _ ih

/-! ### the molecule after `extract_block` -/

theorem moleculeAfter_get (defines : Dict (List String)) (name : Nat → String) (nodes : List Nat)
    (mol : Dict (List (Ixn Nat))) (t : String) :
    getInters (moleculeAfter defines (mapping name nodes) mol) t
      = (getInters mol t).map fun i => if insideResidue nodes i then substIxn defines i else i := by
  have hfun : (fun i : Ixn Nat => if keepIxn (mapping name nodes) i then substIxn defines i else i)
      = fun i => if insideResidue nodes i then substIxn defines i else i := by
    funext i; rw [keepIxn_eq_inside]
  induction mol with
  | nil => simp [moleculeAfter, getInters, Dict.get?]
  | cons e rest ih =>
    obtain ⟨t', is⟩ := e
    simp only [moleculeAfter, getInters, List.map_cons, Dict.get?] at ih ⊢
    by_cases ht : t' = t
    · simp only [ht, if_true, Option.getD_some, hfun]
    · simp only [ht, if_false]; exact ih

theorem map_inj_on {α β : Type} (f : α → β) (s : List α) (hinj : ∀ a ∈ s, ∀ b ∈ s, f a = f b → a = b) :
    ∀ l₁ l₂ : List α, (∀ a ∈ l₁, a ∈ s) → (∀ a ∈ l₂, a ∈ s) → l₁.map f = l₂.map f → l₁ = l₂ := by
  intro l₁
  induction l₁ with
  | nil => intro l₂ _ _ e; cases l₂ with
    | nil => rfl
    | cons b l₂ => simp at e
  | cons a l₁ ih =>
    intro l₂ h1 h2 e
    cases l₂ with
    | nil => simp at e
    | cons b l₂ =>
      simp only [List.map_cons, List.cons.injEq] at e
      have hab := hinj a (h1 a (by simp)) b (h2 b (by simp)) e.1
      rw [hab, ih l₂ (fun x hx => h1 x (by simp [hx])) (fun x hx => h2 x (by simp [hx])) e.2]

/-! ### block nodes -/

theorem keys_set {β : Type} (d : Dict β) (k : String) (v : β) : (d.set k v).keys = addKey d.keys k := by
  induction d with
  | nil => simp [Dict.set, Dict.keys, addKey]
  | cons e rest ih =>
    obtain ⟨k', v'⟩ := e
    simp only [Dict.set]
    by_cases h : k' = k
    · subst h; simp [Dict.keys, addKey]
    · simp only [h, if_false]
      simp only [Dict.keys, List.map_cons] at ih ⊢
      rw [ih]
      unfold addKey
      have hk : k ≠ k' := fun e => h e.symm
      by_cases hm : k ∈ List.map (·.1) rest
      · simp [hm]
      · simp [hm, hk]

theorem foldl_set_keys {β : Type} (name : Nat → String) (attr : Nat → β) (ns : List Nat) (d : Dict β) :
    (ns.foldl (fun d n => d.set (name n) (attr n)) d).keys = (ns.map name).foldl addKey d.keys := by
  induction ns generalizing d with
  | nil => rfl
  | cons n rest ih => simp only [List.foldl_cons, List.map_cons]; rw [ih, keys_set]

theorem blockNodes_keys {β : Type} (name : Nat → String) (attr : Nat → β) (nodes : List Nat) :
    (blockNodes name attr nodes).keys = firstOccurrences (nodes.map name) := by
  unfold blockNodes firstOccurrences
  rw [foldl_set_keys]; rfl

theorem addKey_nodup (ks : List String) (k : String) (h : ks.Nodup) : (addKey ks k).Nodup := by
  unfold addKey
  by_cases hm : k ∈ ks
  · simp [hm, h]
  · simp only [hm, if_false]
    rw [List.nodup_append]
    refine ⟨h, by simp, ?_⟩
    intro a ha b hb
    simp only [List.mem_singleton] at hb
    subst hb
    exact fun e => hm (e ▸ ha)

theorem mem_addKey (ks : List String) (k x : String) : x ∈ addKey ks k ↔ x ∈ ks ∨ x = k := by
  unfold addKey
  by_cases hm : k ∈ ks
  · simp only [hm, if_true]
    constructor
    · exact Or.inl
    · rintro (h | rfl)
      · exact h
      · exact hm
  · simp [hm]

theorem foldl_addKey_nodup (l ks : List String) (h : ks.Nodup) : (l.foldl addKey ks).Nodup := by
  induction l generalizing ks with
  | nil => exact h
  | cons a rest ih => exact ih _ (addKey_nodup ks a h)

theorem mem_foldl_addKey (l ks : List String) (x : String) : x ∈ l.foldl addKey ks ↔ x ∈ ks ∨ x ∈ l := by
  induction l generalizing ks with
  | nil => simp
  | cons a rest ih =>
    simp only [List.foldl_cons, ih, mem_addKey, List.mem_cons]
    tauto

theorem foldl_addKey_of_nodup (l ks : List String) (hl : l.Nodup) (hd : ∀ x ∈ l, x ∉ ks) :
    l.foldl addKey ks = ks ++ l := by
  induction l generalizing ks with
  | nil => simp
  | cons a rest ih =>
    simp only [List.nodup_cons] at hl
    have ha : a ∉ ks := hd a (by simp)
    simp only [List.foldl_cons]
    have : addKey ks a = ks ++ [a] := by simp [addKey, ha]
    rw [this, ih _ hl.2]
    · simp
    · intro x hx
      simp only [List.mem_append, List.mem_singleton, not_or]
      exact ⟨hd x (by simp [hx]), fun e => hl.1 (e ▸ hx)⟩

theorem firstOccurrences_nodup (l : List String) : (firstOccurrences l).Nodup :=
  foldl_addKey_nodup l [] List.nodup_nil

theorem mem_firstOccurrences (l : List String) (x : String) : x ∈ firstOccurrences l ↔ x ∈ l := by
  unfold firstOccurrences; rw [mem_foldl_addKey]; simp

theorem firstOccurrences_of_nodup (l : List String) (h : l.Nodup) : firstOccurrences l = l := by
  unfold firstOccurrences; rw [foldl_addKey_of_nodup l [] h (by simp)]; simp

theorem firstOccurrences_length_le (l : List String) : (firstOccurrences l).length ≤ l.length :=
  ((firstOccurrences_nodup l).subperm (fun x hx => (mem_firstOccurrences l x).1 hx)).length_le

theorem firstOccurrences_length_eq_iff (l : List String) :
    (firstOccurrences l).length = l.length ↔ l.Nodup := by
  constructor
  · intro h
    have sp := (firstOccurrences_nodup l).subperm (fun x hx => (mem_firstOccurrences l x).1 hx)
    have p := sp.perm_of_length_le (le_of_eq h.symm)
    exact p.nodup_iff.1 (firstOccurrences_nodup l)
  · intro h; rw [firstOccurrences_of_nodup l h]

/-- the attributes a block node ends with are those of the LAST residue atom carrying that name -/
theorem foldl_set_get? {β : Type} (name : Nat → String) (attr : Nat → β) (ns : List Nat) (d : Dict β)
    (s : String) :
    (ns.foldl (fun d n => d.set (name n) (attr n)) d).get? s
      = match ns.reverse.find? (fun n => name n = s) with
        | some n => some (attr n)
        | none => d.get? s := by
  induction ns generalizing d with
  | nil => simp
  | cons n rest ih =>
    simp only [List.foldl_cons, List.reverse_cons, List.find?_append]
    rw [ih]
    cases h : rest.reverse.find? (fun n => name n = s) with
    | some m => simp
    | none =>
      simp only [Option.none_or, List.find?_cons, List.find?_nil]
      rw [get?_set]
      by_cases hn : name n = s
      · simp [hn]
      · have : ¬ s = name n := fun e => hn e.symm
        simp [hn, this]

theorem blockNodes_get? {β : Type} (name : Nat → String) (attr : Nat → β) (nodes : List Nat) (s : String) :
    (blockNodes name attr nodes).get? s = (nodes.reverse.find? (fun n => name n = s)).map attr := by
  unfold blockNodes
  rw [foldl_set_get?]
  cases nodes.reverse.find? (fun n => name n = s) <;> simp [Dict.get?]

/-! ### `find_interaction_involving` -/

theorem scanInters_eq (cls : List (String × Bool)) (t cur prev : String) (is : List (Ixn String)) :
    scanInters cls t cur prev is
      = match cls.lookup t with
        | none => none
        | some vs => (is.find? (both cur prev)).map fun i => (vs, i, t) := by
  induction is with
  | nil => cases cls.lookup t <;> rfl
  | cons i rest ih =>
    simp only [scanInters, ih, List.find?_cons, both]
    cases hc : i.atoms.contains cur <;> cases hp : i.atoms.contains prev <;>
      cases hl : cls.lookup t with
      | none => simp
      | some vs => cases vs <;> simp

theorem findInteraction_eq (search : List String) (cls : List (String × Bool)) (inters : Dict (List (Ixn String)))
    (cur prev : String) :
    findInteraction search cls inters cur prev = search.findSome? (hitOfType cls inters cur prev) := by
  induction search with
  | nil => rfl
  | cons t rest ih =>
    simp only [findInteraction, List.findSome?_cons, scanInters_eq, ih, hitOfType]
    cases hl : cls.lookup t with
    | none => simp
    | some vs =>
      cases hf : (getInters inters t).find? (both cur prev) <;> simp

theorem hitOfType_eq_none_iff (cls : List (String × Bool)) (inters : Dict (List (Ixn String)))
    (cur prev t : String) :
    hitOfType cls inters cur prev t = none ↔
      cls.lookup t = none ∨ ∀ j ∈ getInters inters t, both cur prev j = false := by
  unfold hitOfType
  cases hl : cls.lookup t with
  | none => simp
  | some vs =>
    simp only [Option.map_eq_none_iff, List.find?_eq_none, reduceCtorEq, false_or]
    constructor
    · intro h j hj; simpa using h j hj
    · intro h j hj; simp [h j hj]

theorem hitOfType_eq_some_iff (cls : List (String × Bool)) (inters : Dict (List (Ixn String)))
    (cur prev t : String) (r : Bool × Ixn String × String) :
    hitOfType cls inters cur prev t = some r ↔
      cls.lookup t = some r.1 ∧ r.2.2 = t ∧ both cur prev r.2.1 = true ∧
      ∃ before after, getInters inters t = before ++ r.2.1 :: after ∧ ∀ j ∈ before, both cur prev j = false := by
  obtain ⟨vs, i, t'⟩ := r
  unfold hitOfType
  cases hl : cls.lookup t with
  | none => simp
  | some vs' =>
    simp only [Option.map_eq_some_iff, Prod.mk.injEq, Option.some.injEq, List.find?_eq_some_iff_append]
    constructor
    · rintro ⟨j, ⟨hb, as, bs, hsplit, hpre⟩, rfl, rfl, rfl⟩
      exact ⟨rfl, rfl, hb, as, bs, hsplit, fun x hx => by simpa using hpre x hx⟩
    · rintro ⟨rfl, rfl, hb, as, bs, hsplit, hpre⟩
      exact ⟨i, ⟨hb, as, bs, hsplit, fun x hx => by simp [hpre x hx]⟩, rfl, rfl, rfl⟩

/-! ### `_good_impropers` -/

theorem goodImpropers_iff (func2 : String) (atol : Rat) (ds : List Improper) :
    goodImpropers func2 atol ds = true ↔
      ∀ d ∈ ds, d.func = func2 → ¬ rabs d.ref ≤ atol → sgn d.angle = sgn d.ref := by
  induction ds with
  | nil => simp [goodImpropers]
  | cons d rest ih =>
    rw [List.forall_mem_cons]
    unfold goodImpropers
    by_cases hf : d.func = func2
    · rw [if_pos hf]
      by_cases hz : rabs d.ref ≤ atol
      · rw [if_pos hz, ih]
        exact ⟨fun h => ⟨fun _ hn => absurd hz hn, h⟩, fun h => h.2⟩
      · rw [if_neg hz]
        by_cases hs : sgn d.angle = sgn d.ref
        · rw [if_neg (not_not.2 hs), ih]
          exact ⟨fun h => ⟨fun _ _ => hs, h⟩, fun h => h.2⟩
        · rw [if_pos hs]
          exact ⟨fun h => (by cases h), fun h => absurd (h.1 hf hz) hs⟩
    · rw [if_neg hf, ih]
      exact ⟨fun h => ⟨fun e => absurd e hf, h⟩, fun h => h.2⟩

theorem sgn_eq_iff_mul_pos (a r : Rat) (hr : r ≠ 0) : sgn a = sgn r ↔ 0 < a * r := by
  unfold sgn
  rcases lt_trichotomy r 0 with h | h | h
  · rcases lt_trichotomy a 0 with ha | ha | ha
    · have : 0 < a * r := mul_pos_of_neg_of_neg ha h
      simp [h, ha, not_lt.2 (le_of_lt h), not_lt.2 (le_of_lt ha), this]
    · subst ha; simp [h, not_lt.2 (le_of_lt h)]
    · have : a * r < 0 := mul_neg_of_pos_of_neg ha h
      simp [h, ha, not_lt.2 (le_of_lt h), not_lt.2 (le_of_lt this)]
  · exact absurd h hr
  · rcases lt_trichotomy a 0 with ha | ha | ha
    · have : a * r < 0 := mul_neg_of_neg_of_pos ha h
      simp [h, ha, not_lt.2 (le_of_lt ha), not_lt.2 (le_of_lt this)]
    · subst ha; simp [h]
    · have : 0 < a * r := mul_pos ha h
      simp [h, ha, this]

/-! ### `_expand_inital_coords` -/

theorem expandLoop_spec {C : Type} (layout : Nat → C) (good : C → Bool) (maxCount : Nat) :
    ∀ (fuel count : Nat), count + fuel = maxCount + 1 → 0 < fuel →
      (∀ k, k < count → good (layout k) = false) →
      let r := expandLoop layout good maxCount fuel count
      1 ≤ r.2 ∧ r.2 ≤ maxCount + 1 ∧ r.1 = layout (r.2 - 1) ∧
      (∀ k, k < r.2 - 1 → good (layout k) = false) ∧ (good r.1 = true ∨ r.2 = maxCount + 1) := by
  intro fuel
  induction fuel with
  | zero => intro count _ h; exact absurd h (lt_irrefl 0)
  | succ f ih =>
    intro count hsum _ hbad
    simp only [expandLoop]
    by_cases hstop : (count + 1 > maxCount || good (layout count)) = true
    · rw [if_pos hstop]
      refine ⟨by omega, by omega, by simp, ?_, ?_⟩
      · intro k hk; exact hbad k (by simpa using hk)
      · simp only [Bool.or_eq_true, decide_eq_true_eq] at hstop
        rcases hstop with h | h
        · right; show count + 1 = maxCount + 1; omega
        · left; exact h
    · rw [if_neg hstop]
      simp only [Bool.or_eq_true, decide_eq_true_eq, not_or, Bool.not_eq_true] at hstop
      have hf : 0 < f := by omega
      exact ih (count + 1) (by omega) hf (by
        intro k hk
        rcases Nat.lt_succ_iff_lt_or_eq.1 hk with h | h
        · exact hbad k h
        · subst h; exact hstop.2)

/-! ### `renew_vs`: frame -/

theorem keys_set_of_get? {β : Type} (d : Dict β) (k : String) (v w : β) (h : d.get? k = some w) :
    (d.set k v).map (·.1) = d.map (·.1) := by
  induction d with
  | nil => simp [Dict.get?] at h
  | cons e rest ih =>
    obtain ⟨k', v'⟩ := e
    simp only [Dict.set]
    by_cases hk : k' = k
    · simp [hk]
    · simp only [Dict.get?, hk, if_false] at h
      simp only [hk, if_false, List.map_cons, ih h]

theorem renewOne_frame (table : List ((String × String) × String)) (nrm : Rat → Rat) (vsType : String)
    (pos pos' : Template Rat) (vs : VsIxn) (h : renewOne table nrm vsType pos vs = some pos') :
    pos'.map (·.1) = pos.map (·.1) ∧ ∀ k, siteOf vs ≠ some k → Dict.get? pos' k = Dict.get? pos k := by
  unfold renewOne at h
  cases ha : vs.atoms with
  | nil => simp [ha] at h
  | cons site defining =>
    simp only [ha] at h
    cases hs : Dict.get? pos site with
    | none => simp [hs] at h
    | some w =>
      cases hl : lookupAll pos defining with
      | none => simp [hs, hl] at h
      | some xs =>
        simp only [hs, hl] at h
        cases hc : constructVS table nrm vsType vs.func vs.params xs with
        | none => simp [hc] at h
        | some p =>
          simp only [hc, Option.some.injEq] at h
          subst h
          refine ⟨keys_set_of_get? pos site p w hs, ?_⟩
          intro k hk
          rw [get?_set]
          have : k ≠ site := by
            intro e; apply hk; simp [siteOf, ha, e]
          simp [this]

theorem renewType_frame (table : List ((String × String) × String)) (nrm : Rat → Rat) (vsType : String)
    (l : List VsIxn) (pos pos' : Template Rat) (h : renewType table nrm vsType pos l = some pos') :
    pos'.map (·.1) = pos.map (·.1) ∧
      ∀ k, (∀ vs ∈ l, siteOf vs ≠ some k) → Dict.get? pos' k = Dict.get? pos k := by
  induction l generalizing pos with
  | nil => simp only [renewType, Option.some.injEq] at h; subst h; exact ⟨rfl, fun _ _ => rfl⟩
  | cons vs rest ih =>
    simp only [renewType] at h
    cases h1 : renewOne table nrm vsType pos vs with
    | none => simp [h1] at h
    | some p1 =>
      simp only [h1] at h
      obtain ⟨k1, f1⟩ := renewOne_frame table nrm vsType pos p1 vs h1
      obtain ⟨k2, f2⟩ := ih p1 h
      refine ⟨k2.trans k1, ?_⟩
      intro k hk
      rw [f2 k (fun v hv => hk v (by simp [hv])), f1 k (hk vs (by simp))]

theorem renewVS_frame (vsTypes : List String) (table : List ((String × String) × String)) (nrm : Rat → Rat)
    (inters : Dict (List VsIxn)) (pos pos' : Template Rat)
    (h : renewVS vsTypes table nrm inters pos = some pos') :
    pos'.map (·.1) = pos.map (·.1) ∧
      ∀ k, (∀ t ∈ vsTypes, ∀ vs ∈ (Dict.get? inters t).getD [], siteOf vs ≠ some k) →
        Dict.get? pos' k = Dict.get? pos k := by
  induction vsTypes generalizing pos with
  | nil => simp only [renewVS, Option.some.injEq] at h; subst h; exact ⟨rfl, fun _ _ => rfl⟩
  | cons t rest ih =>
    simp only [renewVS] at h
    cases h1 : renewType table nrm t pos ((Dict.get? inters t).getD []) with
    | none => simp [h1] at h
    | some p1 =>
      simp only [h1] at h
      obtain ⟨k1, f1⟩ := renewType_frame table nrm t _ pos p1 h1
      obtain ⟨k2, f2⟩ := ih p1 h
      refine ⟨k2.trans k1, ?_⟩
      intro k hk
      rw [f2 k (fun t' ht' => hk t' (by simp [ht'])), f1 k (hk t (by simp))]

/-! ### energy -/

theorem foldl_add_eq_sum {β : Type} (f : β → Rat) (l : List β) (acc : Rat) :
    l.foldl (fun e b => e + f b) acc = acc + (l.map f).sum := by
  induction l generalizing acc with
  | nil => simp
  | cons a rest ih => simp only [List.foldl_cons, List.map_cons, List.sum_cons, ih]; ring

theorem energy_eq_sum (weights : List (String × Rat)) (methods wkey : List (String × String)) (items : List Item) :
    energy weights methods wkey items = (items.map (penalty weights methods wkey)).sum := by
  unfold energy; rw [foldl_add_eq_sum]; simp

theorem penalty_nonneg (weights : List (String × Rat)) (methods wkey : List (String × String)) (it : Item)
    (hw : 0 ≤ penaltyWeight weights methods wkey it.kind) : 0 ≤ penalty weights methods wkey it := by
  unfold penalty
  split
  · exact le_refl 0
  · exact mul_nonneg hw (mul_self_nonneg _)

theorem sum_nonneg_of_forall (l : List Rat) (h : ∀ x ∈ l, 0 ≤ x) : 0 ≤ l.sum := by
  induction l with
  | nil => simp
  | cons a rest ih =>
    simp only [List.sum_cons]
    exact add_nonneg (h a (by simp)) (ih (fun x hx => h x (by simp [hx])))

theorem sum_eq_zero_iff_of_nonneg (l : List Rat) (h : ∀ x ∈ l, 0 ≤ x) : l.sum = 0 ↔ ∀ x ∈ l, x = 0 := by
  induction l with
  | nil => simp
  | cons a rest ih =>
    have ha := h a (by simp)
    have hr : ∀ x ∈ rest, 0 ≤ x := fun x hx => h x (by simp [hx])
    have hs := sum_nonneg_of_forall rest hr
    simp only [List.sum_cons, List.mem_cons, forall_eq_or_imp]
    constructor
    · intro e
      have h1 : a = 0 := by linarith
      have h2 : rest.sum = 0 := by linarith
      exact ⟨h1, (ih hr).1 h2⟩
    · rintro ⟨h1, h2⟩
      rw [h1, (ih hr).2 h2]; simp

end PolyplyVerif.Proofs.TemplatesBlock
