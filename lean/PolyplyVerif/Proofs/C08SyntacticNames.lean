/-
C08: a purely SYNTACTIC replacement for `noMalformedMolNames` (which evaluates the tree reader).

`molNamesSyntactic fs` scans the lines of every file of `fs` separately (it runs neither reader, follows no
include and looks at no conditional): in every file, every `[ moleculetype ]` header is followed — before the
next section header of that file or the end of that file — by at least one content line, and the LAST such content
line has the shape vermouth's itp reader accepts as a name line (`name nrexcl`, `nrexcl` an `int()` token).
Pragma lines (`#ifdef` ... stored in the collected moleculetype, `#include/#define/#error` executed), blank,
comment and `*` lines in between are ignored, exactly as `groupName` ignores them.

Proved here
* `molNames_sound`: for EVERY tree (well formed or not) `molNamesSyntactic fs → noMalformedMolNames fs top`
  (`readFile_notName`: no file read by the tree reader ends with a malformed-name error);
* `molNames_flatten`: the predicate is preserved by flattening a well-formed tree (the one-file tree holding the
  flattened text satisfies it).
-/
import PolyplyVerif.Proofs.C08WellFormedFlatten

namespace PolyplyVerif.Proofs.C08Flatten
open PolyplyVerif PolyplyVerif.TopParse PolyplyVerif.Proofs.TopParse

/-! ### the predicate -/

/-- the shape of a moleculetype name line the itp reader accepts: `name nrexcl` with `nrexcl` an `int()` token -/
def nameShape (toks : List String) : Bool :=
  match toks with
  | [_, nrexcl] => isIntTok nrexcl
  | _ => false

/-- One line of the scan.  State: `none` = not directly under a `[ moleculetype ]` header; `some b` = directly
under one (no other header since), `b` = a content line has been seen since and the last one is a name line.
A header met in state `some false` closes a moleculetype section without (or with a malformed) name line. -/
def nmLine (s : Option Bool) (raw : String) : Option (Option Bool) :=
  match classify raw with
  | some (.header name) =>
    if s == some false then none else some (if name == "moleculetype" then some false else none)
  | some (.content toks) => some (s.map fun _ => nameShape toks)
  | _ => some s

def nmLines : List String → Option Bool → Option (Option Bool)
  | [], s => some s
  | raw :: rest, s =>
    match nmLine s raw with
    | none => none
    | some s' => nmLines rest s'

/-- the lines of one file: the scan succeeds and the file does not end directly under a `[ moleculetype ]`
header whose name line is missing or malformed -/
def nmFile (raws : List String) : Bool :=
  match nmLines raws none with
  | some s => s != some false
  | none => false

/-- **the syntactic condition**: every file of the tree passes `nmFile` -/
def molNamesSyntactic (fs : FS) : Bool := fs.all fun f => nmFile f.2

theorem nmLines_append (a b : List String) (s : Option Bool) :
    nmLines (a ++ b) s = (match nmLines a s with | none => none | some s' => nmLines b s') := by
  induction a generalizing s with
  | nil => rfl
  | cons x xs ih =>
    simp only [List.cons_append, nmLines]
    cases nmLine s x with
    | none => rfl
    | some s' => exact ih s'

/-! ### `groupName` through the lines collected under the header -/

def isToksLine (l : ItpLine) : Bool := match l with | .hdr _ => false | .toks _ => true

/-- the lines `groupName` takes the name from: token lines that are not pragmas -/
def isCand (l : ItpLine) : Bool := match l with | .toks (t :: _) => firstChar t != some '#' | _ => false

def nameOfBody (body : Group) : Except String String :=
  match (body.filter isCand).getLast? with
  | some (.toks [name, nrexcl]) => if isIntTok nrexcl then .ok name else .error "moleculetype-line"
  | some _ => .error "moleculetype-line"
  | none => .error "moleculetype-without-name"

theorem groupName_eq (grp : Group) : groupName grp = nameOfBody ((grp.drop 1).takeWhile isToksLine) := rfl

def bodyOk (body : Group) : Bool :=
  match (body.filter isCand).getLast? with
  | some (.toks toks) => nameShape toks
  | _ => false

theorem nameOfBody_ok (body : Group) (h : bodyOk body = true) : ∃ n, nameOfBody body = .ok n := by
  unfold bodyOk at h
  unfold nameOfBody
  cases hl : (body.filter isCand).getLast? with
  | none => rw [hl] at h; cases h
  | some x =>
    rw [hl] at h
    cases x with
    | hdr n => cases h
    | toks toks =>
      simp only at h
      unfold nameShape at h
      match toks, h with
      | [name, nrexcl], h => simp only at h; exact ⟨name, by simp [h]⟩

theorem bodyOk_snoc_cand (body : Group) (toks : List String) (h : isCand (.toks toks) = true) :
    bodyOk (body ++ [.toks toks]) = nameShape toks := by
  simp [bodyOk, List.filter_append, h]

theorem bodyOk_snoc_noncand (body : Group) (x : ItpLine) (h : isCand x = false) :
    bodyOk (body ++ [x]) = bodyOk body := by
  simp [bodyOk, List.filter_append, h]

theorem takeWhile_all {α} (p : α → Bool) (l : List α) (h : ∀ x ∈ l, p x = true) : l.takeWhile p = l := by
  induction l with
  | nil => rfl
  | cons y ys ih =>
    simp only [List.takeWhile_cons, h y List.mem_cons_self, if_true]
    rw [ih (fun x hx => h x (List.mem_cons_of_mem _ hx))]

theorem takeWhile_stop {α} (p : α → Bool) (l r : List α) (x : α) (h : ∀ y ∈ l, p y = true) (hx : p x = false) :
    (l ++ x :: r).takeWhile p = l := by
  induction l with
  | nil => simp [hx]
  | cons y ys ih =>
    simp only [List.cons_append, List.takeWhile_cons, h y List.mem_cons_self, if_true]
    rw [ih (fun z hz => h z (List.mem_cons_of_mem _ hz))]

/-- a collected moleculetype whose name section is closed by a header and has a good name line: whatever is
appended later, `groupName` succeeds -/
def Sealed (grp : Group) : Prop :=
  ∃ h body n rest, grp = h :: (body ++ ItpLine.hdr n :: rest) ∧ (∀ x ∈ body, isToksLine x = true) ∧ bodyOk body = true

theorem Sealed.snoc {grp : Group} (h : Sealed grp) (x : ItpLine) : Sealed (grp ++ [x]) := by
  obtain ⟨h0, body, n, rest, e, hb, hok⟩ := h
  exact ⟨h0, body, n, rest ++ [x], by rw [e]; simp, hb, hok⟩

theorem Sealed.ne_nil {grp : Group} (h : Sealed grp) : grp ≠ [] := by
  obtain ⟨h0, body, n, rest, e, _, _⟩ := h
  rw [e]; simp

theorem Sealed.name {grp : Group} (h : Sealed grp) : ∃ n, groupName grp = .ok n := by
  obtain ⟨h0, body, n, rest, e, hb, hok⟩ := h
  rw [groupName_eq, e]
  simp only [List.drop_succ_cons, List.drop_zero]
  rw [takeWhile_stop _ _ _ _ hb rfl]
  exact nameOfBody_ok body hok

theorem open_name (h0 : ItpLine) (body : Group) (hb : ∀ x ∈ body, isToksLine x = true) (hok : bodyOk body = true) :
    ∃ n, groupName (h0 :: body) = .ok n := by
  rw [groupName_eq]
  simp only [List.drop_succ_cons, List.drop_zero]
  rw [takeWhile_all _ _ hb]
  exact nameOfBody_ok body hok

/-! ### which errors the reader can stop with -/

/-- the result is not one of the two malformed-name errors -/
def NotName {α} (r : Except String α) : Prop := ∀ e, r = .error e → isNameErr e = false

theorem notName_ok {α} (x : α) : NotName (Except.ok x : Except String α) := by
  intro e h; cases h

theorem notName_map {α β} (f : α → β) (r : Except String α) (h : NotName r) : NotName (r.map f) := by
  intro e he
  cases r with
  | error e' => simp only [Except.map] at he; injection he with he; subst he; exact h _ rfl
  | ok x => simp [Except.map] at he

theorem doDefaults_notName (toks : List String) : NotName (doDefaults toks) := by
  intro e h
  unfold doDefaults at h
  simp only at h
  split at h
  · injection h with h; subst h; decide
  · split at h
    · injection h with h; subst h; decide
    · split at h
      · injection h with h; subst h; decide
      · cases h

theorem doAtomType_notName (toks : List String) : NotName (doAtomType toks) := by
  intro e h
  unfold doAtomType at h
  split at h
  · injection h with h; subst h; decide
  · simp only at h
    split at h
    · injection h with h; subst h; decide
    · split at h
      · injection h with h; subst h; decide
      · cases h

theorem doNonbond_notName (toks : List String) : NotName (doNonbond toks) := by
  intro e h
  unfold doNonbond at h
  split at h
  · split at h
    · cases h
    · injection h with h; subst h; decide
  · injection h with h; subst h; decide

theorem foldl_err {X ι} (f : Except String X → ι → Except String X)
    (h1 : ∀ e ix, f (.error e) ix = .error e)
    (h2 : ∀ a ix e, f (.ok a) ix = .error e → isNameErr e = false) :
    ∀ (idxs : List ι) (acc : Except String X) (e : String), idxs.foldl f acc = .error e →
      acc = .error e ∨ isNameErr e = false := by
  intro idxs
  induction idxs with
  | nil => intro acc e h; exact Or.inl h
  | cons ix rest ih =>
    intro acc e h
    simp only [List.foldl_cons] at h
    rcases ih _ _ h with h' | h'
    · cases acc with
      | error e0 => rw [h1] at h'; exact Or.inl h'
      | ok a => exact Or.inr (h2 a ix e h')
    · exact Or.inr h'

theorem splitAtoms_notName (toks : List String) (idxs : List Tables.Top.AtomIdx) : NotName (splitAtoms toks idxs) := by
  intro e h
  unfold splitAtoms at h
  simp only at h
  split at h
  · rename_i e' hf
    injection h with h; subst h
    rcases foldl_err _ (by intro e ix; rfl) (by
        intro a ix e he
        obtain ⟨atoms, remove⟩ := a
        cases ix with
        | idx i =>
          simp only at he
          split at he
          · cases he
          · injection he with he; subst he; decide
        | slice s t => simp at he) idxs _ _ hf with h' | h'
    · cases h'
    · exact h'
  · cases h

theorem doType_notName (g : Glob) (c : Option Cond) (sec : String) (toks : List String) : NotName (doType g c sec toks) := by
  intro e h
  unfold doType at h
  split at h
  · injection h with h; subst h; decide
  · split at h
    · rename_i e' hs
      injection h with h; subst h
      exact splitAtoms_notName _ _ _ hs
    · cases h

/-! ### what one step does to the director of the file -/

theorem doContent_frame (g : Glob) (l : Loc) (toks : List String) :
    NotName (doContent g l toks) ∧
    ∀ g' l', doContent g l toks = .ok (g', l') →
      l'.sec = l.sec ∧ l'.itpLines = l.itpLines ∧
      (l'.itp = l.itp ∨ ∃ grp, l.itp = some grp ∧ l'.itp = some (grp ++ [ItpLine.toks toks])) := by
  unfold doContent
  cases hh : handlerOf l.sec with
  | none => exact ⟨by intro e h; injection h with h; subst h; decide, by intro g' l' h; cases h⟩
  | some hd =>
    simp only
    by_cases h1 : (hd == "_system" || hd == "_skip" || hd == "_macros") = true
    · rw [if_pos h1]
      refine ⟨notName_ok _, ?_⟩
      intro g' l' h; injection h with h; injection h with _ h; subst h; exact ⟨rfl, rfl, Or.inl rfl⟩
    · rw [if_neg h1]
      by_cases h2 : (hd == "_molecules") = true
      · rw [if_pos h2]
        split
        · refine ⟨notName_ok _, ?_⟩
          intro g' l' h; injection h with h; injection h with _ h; subst h; exact ⟨rfl, rfl, Or.inl rfl⟩
        · exact ⟨by intro e h; injection h with h; subst h; decide, by intro g' l' h; cases h⟩
      · rw [if_neg h2]
        by_cases h3 : (hd == "_defaults") = true
        · rw [if_pos h3]
          refine ⟨notName_map _ _ (doDefaults_notName toks), ?_⟩
          intro g' l' h
          cases hd3 : doDefaults toks with
          | error e => simp [hd3, Except.map] at h
          | ok d =>
            simp only [hd3, Except.map] at h
            injection h with h; injection h with _ h; subst h; exact ⟨rfl, rfl, Or.inl rfl⟩
        · rw [if_neg h3]
          by_cases h4 : (hd == "_atomtypes") = true
          · rw [if_pos h4]
            refine ⟨notName_map _ _ (doAtomType_notName toks), ?_⟩
            intro g' l' h
            cases hd4 : doAtomType toks with
            | error e => simp [hd4, Except.map] at h
            | ok d =>
              simp only [hd4, Except.map] at h
              injection h with h; injection h with _ h; subst h; exact ⟨rfl, rfl, Or.inl rfl⟩
          · rw [if_neg h4]
            by_cases h5 : (hd == "_nonbond_params") = true
            · rw [if_pos h5]
              refine ⟨notName_map _ _ (doNonbond_notName toks), ?_⟩
              intro g' l' h
              cases hd5 : doNonbond toks with
              | error e => simp [hd5, Except.map] at h
              | ok d =>
                simp only [hd5, Except.map] at h
                injection h with h; injection h with _ h; subst h; exact ⟨rfl, rfl, Or.inl rfl⟩
            · rw [if_neg h5]
              by_cases h6 : (hd == "_type_params") = true
              · rw [if_pos h6]
                refine ⟨notName_map _ _ (doType_notName _ _ _ toks), ?_⟩
                intro g' l' h
                cases hd6 : doType g l.cond (l.sec.getLast?.getD "") toks with
                | error e => simp [hd6, Except.map] at h
                | ok d =>
                  simp only [hd6, Except.map] at h
                  injection h with h; injection h with _ h; subst h; exact ⟨rfl, rfl, Or.inl rfl⟩
              · rw [if_neg h6]
                by_cases h7 : (hd == "_molecule") = true
                · rw [if_pos h7]
                  cases hi : l.itp with
                  | none => exact ⟨by intro e h; injection h with h; subst h; decide, by intro g' l' h; cases h⟩
                  | some grp =>
                    refine ⟨notName_ok _, ?_⟩
                    intro g' l' h; injection h with h; injection h with _ h; subst h
                    exact ⟨rfl, rfl, Or.inr ⟨grp, rfl, rfl⟩⟩
                · rw [if_neg h7]
                  exact ⟨by intro e h; injection h with h; subst h; decide, by intro g' l' h; cases h⟩

/-- directly under a `[ moleculetype ]` header a content line is appended to the open group -/
theorem doContent_mol (g : Glob) (l : Loc) (toks : List String) (hs : l.sec = ["moleculetype"]) (grp : Group)
    (hi : l.itp = some grp) :
    doContent g l toks = .ok (g, { l with itp := some (grp ++ [ItpLine.toks toks]) }) := by
  have hh : handlerOf ["moleculetype"] = some "_molecule" := by decide
  unfold doContent
  rw [hs, hh]
  simp only
  rw [if_neg (by decide), if_neg (by decide), if_neg (by decide), if_neg (by decide), if_neg (by decide),
    if_neg (by decide), if_pos (by decide), hi]

/-- an error of a pragma line is not a name error, or it is the error of the include handler -/
def PragErr (inc : Path → Glob → Except String Glob) (g : Glob) (r : Except String (Glob × Loc)) : Prop :=
  ∀ e, r = .error e → isNameErr e = false ∨ ∃ full, inc full g = .error e

theorem doPragma_frame_gen (inc : Path → Glob → Except String Glob) (dir : Path) (g : Glob) (l : Loc) (toks : List String) :
    PragErr inc g (doPragma inc dir g l toks) ∧
    ∀ g' l', doPragma inc dir g l toks = .ok (g', l') →
      l'.sec = l.sec ∧ l'.itpLines = l.itpLines ∧
      (l'.itp = l.itp ∨ (itpActive l = true ∧ l'.itp = some (l.itp.getD [] ++ [ItpLine.toks toks]))) := by
  have errCase : ∀ (msg : String), isNameErr msg = false →
      PragErr inc g (Except.error msg : Except String (Glob × Loc)) ∧
      ∀ g' l', (Except.error msg : Except String (Glob × Loc)) = .ok (g', l') →
        l'.sec = l.sec ∧ l'.itpLines = l.itpLines ∧
        (l'.itp = l.itp ∨ (itpActive l = true ∧ l'.itp = some (l.itp.getD [] ++ [ItpLine.toks toks]))) := by
    intro msg hm
    exact ⟨by intro e h; injection h with h; subst h; exact Or.inl hm, by intro g' l' h; cases h⟩
  have swallowCase : itpActive l = true →
      PragErr inc g (Except.ok (g, { l with itp := some ((l.itp.getD []) ++ [ItpLine.toks toks]) }) : Except String (Glob × Loc)) ∧
      ∀ g' l', (Except.ok (g, { l with itp := some ((l.itp.getD []) ++ [ItpLine.toks toks]) }) : Except String (Glob × Loc))
          = .ok (g', l') →
        l'.sec = l.sec ∧ l'.itpLines = l.itpLines ∧
        (l'.itp = l.itp ∨ (itpActive l = true ∧ l'.itp = some (l.itp.getD [] ++ [ItpLine.toks toks]))) := by
    intro ha
    refine ⟨(by intro e h; cases h), ?_⟩
    intro g' l' h; injection h with h; injection h with _ h; subst h
    exact ⟨rfl, rfl, Or.inr ⟨ha, rfl⟩⟩
  have keepCase : ∀ (g1 : Glob) (l1 : Loc), l1.sec = l.sec → l1.itpLines = l.itpLines → l1.itp = l.itp →
      PragErr inc g (Except.ok (g1, l1) : Except String (Glob × Loc)) ∧
      ∀ g' l', (Except.ok (g1, l1) : Except String (Glob × Loc)) = .ok (g', l') →
        l'.sec = l.sec ∧ l'.itpLines = l.itpLines ∧
        (l'.itp = l.itp ∨ (itpActive l = true ∧ l'.itp = some (l.itp.getD [] ++ [ItpLine.toks toks]))) := by
    intro g1 l1 a b c
    refine ⟨(by intro e h; cases h), ?_⟩
    intro g' l' h; injection h with h; injection h with _ h; subst h
    exact ⟨a, b, Or.inl c⟩
  unfold doPragma
  simp only
  by_cases c1 : (toks == ["#endif"]) = true
  · rw [if_pos c1]
    by_cases ha : itpActive l = true
    · rw [if_pos ha]; exact swallowCase ha
    · rw [if_neg ha]
      split
      · exact errCase _ (by decide)
      · exact keepCase _ _ rfl rfl rfl
  · rw [if_neg c1]
    by_cases c2 : startsWith (toks.headD "") "#else" = true
    · rw [if_pos c2]
      by_cases ha : itpActive l = true
      · rw [if_pos ha]; exact swallowCase ha
      · rw [if_neg ha]
        split
        · exact errCase _ (by decide)
        · split
          · exact errCase _ (by decide)
          · exact keepCase _ _ rfl rfl rfl
    · rw [if_neg c2]
      by_cases c3 : (startsWith (toks.headD "") "#ifdef" || startsWith (toks.headD "") "#ifndef") = true
      · rw [if_pos c3]
        by_cases ha : itpActive l = true
        · rw [if_pos ha]; exact swallowCase ha
        · rw [if_neg ha]
          split
          · exact errCase _ (by decide)
          · split
            · exact keepCase _ _ rfl rfl rfl
            · exact errCase _ (by decide)
      · rw [if_neg c3]
        by_cases c4 : (toks.headD "" == "#define") = true
        · rw [if_pos c4]
          split
          · exact keepCase _ _ rfl rfl rfl
          · exact keepCase _ _ rfl rfl rfl
          · exact errCase _ (by decide)
        · rw [if_neg c4]
          by_cases c5 : (toks.headD "" == "#error") = true
          · rw [if_pos c5]
            split
            · exact keepCase _ _ rfl rfl rfl
            · exact errCase _ (by decide)
          · rw [if_neg c5]
            by_cases c6 : (toks.headD "" == "#include") = true
            · rw [if_pos c6]
              split
              · split
                · exact keepCase _ _ rfl rfl rfl
                · split
                  · exact errCase _ (by decide)
                  · rename_i full _
                    cases hi : inc full g with
                    | error e =>
                      simp only [Except.map]
                      exact ⟨by intro e' h; injection h with h; subst h; exact Or.inr ⟨full, hi⟩, by intro g' l' h; cases h⟩
                    | ok g1 =>
                      simp only [Except.map]
                      exact keepCase _ _ rfl rfl rfl
              · exact errCase _ (by decide)
            · rw [if_neg c6]
              exact errCase _ (by decide)

theorem doPragma_frame (inc : Path → Glob → Except String Glob) (dir : Path) (g : Glob) (l : Loc) (toks : List String)
    (hinc : ∀ p g0, NotName (inc p g0)) :
    NotName (doPragma inc dir g l toks) ∧
    ∀ g' l', doPragma inc dir g l toks = .ok (g', l') →
      l'.sec = l.sec ∧ l'.itpLines = l.itpLines ∧
      (l'.itp = l.itp ∨ (itpActive l = true ∧ l'.itp = some (l.itp.getD [] ++ [ItpLine.toks toks]))) := by
  obtain ⟨h1, h2⟩ := doPragma_frame_gen inc dir g l toks
  refine ⟨?_, h2⟩
  intro e he
  rcases h1 e he with h | ⟨full, h⟩
  · exact h
  · exact hinc full g e h

/-! ### classified lines, sections -/

theorem classify_content (raw : String) (toks : List String) (h : classify raw = some (.content toks)) :
    isCand (.toks toks) = true := by
  unfold classify classifyChars at h
  simp only at h
  split at h
  · cases h
  · rename_i t0 rest heq
    split at h
    · cases h
    · split at h
      · cases h
      · split at h
        · split at h <;> cases h
        · rename_i hp _ _
          injection h with h; injection h with h
          rw [← h, heq]
          simpa [isCand] using hp

theorem classify_pragma (raw : String) (toks : List String) (h : classify raw = some (.pragma toks)) :
    isCand (.toks toks) = false := by
  unfold classify classifyChars at h
  simp only at h
  split at h
  · cases h
  · rename_i t0 rest heq
    split at h
    · rename_i hp
      injection h with h; injection h with h
      rw [← h, heq]
      simpa [isCand] using hp
    · split at h
      · cases h
      · split at h
        · split at h <;> cases h
        · cases h

theorem newSection_shape (sec : List String) (name : String) (hs : SecShape sec) :
    SecShape (newSection sec name) ∧ (newSection sec name = ["moleculetype"] ↔ name = "moleculetype") := by
  cases hsub : molSubsections.contains name with
  | false =>
    rw [newSection_top sec name hs hsub]
    exact ⟨SecShape.one name, by simp⟩
  | true =>
    have hne : name ≠ "moleculetype" := by
      intro e; rw [e, moleculetype_not_sub] at hsub; cases hsub
    cases hs with
    | empty =>
      have : newSection [] name = [name] := by simp [newSection, shrink]
      rw [this]; exact ⟨SecShape.one name, by simp⟩
    | one n =>
      by_cases hn : n = "moleculetype"
      · subst hn
        rw [newSection_sub _ name hsub (Or.inl rfl)]
        exact ⟨SecShape.mol name, by simp [hne]⟩
      · have hk : knownSections.contains [n, name] = false := by
          cases h : knownSections.contains [n, name] with
          | false => rfl
          | true => exact absurd (known2 n name h).1 hn
        have hk' : [n, name] ∉ knownSections := by simpa using hk
        have : newSection [n] name = [name] := by simp [newSection, shrink, hk']
        rw [this]; exact ⟨SecShape.one name, by simp⟩
    | mol x =>
      rw [newSection_sub _ name hsub (Or.inr ⟨x, rfl⟩)]
      exact ⟨SecShape.mol name, by simp [hne]⟩

/-! ### the invariant tying the scan state to the director of the file -/

def Cur (l : Loc) : Option Bool → Prop
  | none => l.itp = none ∨ ∃ grp, l.itp = some grp ∧ Sealed grp
  | some b => l.sec = ["moleculetype"] ∧
      ∃ h0 body, l.itp = some (h0 :: body) ∧ (∀ x ∈ body, isToksLine x = true) ∧ bodyOk body = b

structure NmInv (l : Loc) (s : Option Bool) : Prop where
  shape : SecShape l.sec
  closed : ∀ grp ∈ l.itpLines, ∃ n, groupName grp = .ok n
  cur : Cur l s

theorem NmInv.well {l : Loc} {s : Option Bool} (I : NmInv l s) : WellItp l.itp := by
  cases s with
  | none =>
    rcases I.cur with h | ⟨grp, h, hs⟩
    · exact Or.inl h
    · exact Or.inr ⟨grp, h, hs.ne_nil⟩
  | some b =>
    obtain ⟨_, h0, body, h, _⟩ := I.cur
    exact Or.inr ⟨_, h, by simp⟩

/-- the open group is fine whenever the scan state is not `some false` -/
theorem NmInv.openOk {l : Loc} {s : Option Bool} (I : NmInv l s) (hs : s ≠ some false) :
    ∀ grp ∈ openOf l.itp, ∃ n, groupName grp = .ok n := by
  intro grp hg
  cases s with
  | none =>
    rcases I.cur with h | ⟨grp', h, hsl⟩
    · rw [h] at hg; simp [openOf] at hg
    · rw [h, openOf_some _ hsl.ne_nil] at hg
      have : grp = grp' := by simpa using hg
      rw [this]; exact hsl.name
  | some b =>
    obtain ⟨_, h0, body, h, hb, hok⟩ := I.cur
    rw [h, openOf_some _ (by simp)] at hg
    have : grp = h0 :: body := by simpa using hg
    rw [this]
    cases b with
    | false => exact absurd rfl hs
    | true => exact open_name h0 body hb hok

theorem nmInv_init : NmInv {} none := ⟨SecShape.empty, (by intro grp h; cases h), Or.inl rfl⟩

theorem nm_header (l : Loc) (s : Option Bool) (name : String) (I : NmInv l s) (hs : s ≠ some false) :
    NmInv (doHeader l name) (if name == "moleculetype" then some false else none) := by
  obtain ⟨hshape, hiff⟩ := newSection_shape l.sec name I.shape
  by_cases hm : name = "moleculetype"
  · subst hm
    rw [doHeader_mol l I.shape I.well]
    simp only [beq_self_eq_true, if_true]
    refine ⟨SecShape.one _, ?_, rfl, ItpLine.hdr "moleculetype", [], rfl, (by intro x hx; cases hx), rfl⟩
    intro grp hg
    simp only [List.mem_append] at hg
    rcases hg with hg | hg
    · exact I.closed grp hg
    · exact I.openOk hs grp hg
  · have hmb : (name == "moleculetype") = false := by simpa using hm
    rw [doHeader_other l name (newSection l.sec name) rfl (fun e => hm (hiff.mp e))]
    simp only [hmb, Bool.false_eq_true, if_false]
    refine ⟨hshape, I.closed, ?_⟩
    cases s with
    | none =>
      rcases I.cur with h | ⟨grp, h, hsl⟩
      · exact Or.inl (by simp [appendHdr, h])
      · exact Or.inr ⟨grp ++ [ItpLine.hdr name], by simp [appendHdr, h], hsl.snoc _⟩
    | some b =>
      obtain ⟨_, h0, body, h, hb, hok⟩ := I.cur
      cases b with
      | false => exact absurd rfl hs
      | true =>
        exact Or.inr ⟨h0 :: body ++ [ItpLine.hdr name], by simp [appendHdr, h], h0, body, name, [], rfl, hb, hok⟩

/-- appending a token line to the open group -/
theorem cur_snoc (l : Loc) (s : Option Bool) (toks : List String) (grp : Group) (I : NmInv l s) (hi : l.itp = some grp)
    (l' : Loc) (hsec : l'.sec = l.sec) (hlines : l'.itpLines = l.itpLines) (hitp : l'.itp = some (grp ++ [ItpLine.toks toks]))
    (s' : Option Bool) (hs' : s' = s.map fun b => if isCand (.toks toks) then nameShape toks else b) : NmInv l' s' := by
  refine ⟨by rw [hsec]; exact I.shape, by rw [hlines]; exact I.closed, ?_⟩
  subst hs'
  cases s with
  | none =>
    rcases I.cur with h | ⟨grp', h, hsl⟩
    · rw [h] at hi; cases hi
    · rw [h] at hi; injection hi with hi; subst hi
      exact Or.inr ⟨_, hitp, hsl.snoc _⟩
  | some b =>
    obtain ⟨hsm, h0, body, h, hb, hok⟩ := I.cur
    rw [h] at hi; injection hi with hi; subst hi
    refine ⟨by rw [hsec]; exact hsm, h0, body ++ [ItpLine.toks toks], by rw [hitp]; rfl, ?_, ?_⟩
    · intro x hx
      simp only [List.mem_append, List.mem_singleton] at hx
      rcases hx with hx | hx
      · exact hb x hx
      · rw [hx]; rfl
    · cases hc : isCand (.toks toks) with
      | true => simp only [if_true]; exact bodyOk_snoc_cand body toks hc
      | false => simp only [Bool.false_eq_true, if_false]; rw [bodyOk_snoc_noncand body _ hc]; exact hok

theorem cur_keep (l : Loc) (s : Option Bool) (I : NmInv l s)
    (l' : Loc) (hsec : l'.sec = l.sec) (hlines : l'.itpLines = l.itpLines) (hitp : l'.itp = l.itp) : NmInv l' s := by
  refine ⟨by rw [hsec]; exact I.shape, by rw [hlines]; exact I.closed, ?_⟩
  cases s with
  | none =>
    rcases I.cur with h | ⟨grp', h, hsl⟩
    · exact Or.inl (by rw [hitp]; exact h)
    · exact Or.inr ⟨grp', by rw [hitp]; exact h, hsl⟩
  | some b =>
    obtain ⟨hsm, h0, body, h, hb, hok⟩ := I.cur
    exact ⟨by rw [hsec]; exact hsm, h0, body, by rw [hitp]; exact h, hb, hok⟩

/-! ### one line, all lines of a file, the file -/

theorem nm_step (inc : Path → Glob → Except String Glob) (dir : Path) (hinc : ∀ p g0, NotName (inc p g0))
    (g : Glob) (l : Loc) (s s' : Option Bool) (raw : String) (I : NmInv l s) (hs : nmLine s raw = some s') :
    NotName (treeLine inc dir (g, l) raw) ∧
    ∀ g' l', treeLine inc dir (g, l) raw = .ok (g', l') → NmInv l' s' := by
  unfold nmLine at hs
  unfold treeLine
  cases hcl : classify raw with
  | none =>
    rw [hcl] at hs
    injection hs with hs; subst hs
    refine ⟨notName_ok _, ?_⟩
    intro g' l' h; injection h with h; injection h with _ h; subst h; exact I
  | some line =>
    rw [hcl] at hs
    cases line with
    | star =>
      injection hs with hs; subst hs
      refine ⟨notName_ok _, ?_⟩
      intro g' l' h; injection h with h; injection h with _ h; subst h; exact I
    | badHeader =>
      exact ⟨by intro e h; injection h with h; subst h; decide, by intro g' l' h; cases h⟩
    | header name =>
      simp only at hs
      split at hs
      · cases hs
      · rename_i hne
        injection hs with hs; subst hs
        have hne' : s ≠ some false := by simpa using hne
        refine ⟨notName_ok _, ?_⟩
        intro g' l' h
        simp only [step] at h
        injection h with h; injection h with _ h; subst h
        exact nm_header l s name I hne'
    | content toks =>
      simp only at hs
      injection hs with hs; subst hs
      have hc := classify_content raw toks hcl
      simp only [step]
      cases s with
      | none =>
        obtain ⟨hnn, hfr⟩ := doContent_frame g l toks
        refine ⟨hnn, ?_⟩
        intro g' l' h
        obtain ⟨a, b, c⟩ := hfr g' l' h
        rcases c with c | ⟨grp, hi, c⟩
        · exact cur_keep l none I l' a b c
        · exact cur_snoc l none toks grp I hi l' a b c _ rfl
      | some b =>
        obtain ⟨hsm, h0, body, hi, hb, hok⟩ := I.cur
        rw [doContent_mol g l toks hsm _ hi]
        refine ⟨notName_ok _, ?_⟩
        intro g' l' h; injection h with h; injection h with _ h; subst h
        exact cur_snoc l (some b) toks (h0 :: body) I hi { l with itp := some ((h0 :: body) ++ [ItpLine.toks toks]) }
          rfl rfl rfl (some (nameShape toks)) (by simp [hc])
    | pragma toks =>
      injection hs with hs; subst hs
      have hc := classify_pragma raw toks hcl
      simp only [step]
      obtain ⟨hnn, hfr⟩ := doPragma_frame inc dir g l toks hinc
      refine ⟨hnn, ?_⟩
      intro g' l' h
      obtain ⟨a, b, c⟩ := hfr g' l' h
      rcases c with c | ⟨hact, c⟩
      · exact cur_keep l s I l' a b c
      · rcases I.well with hn | ⟨grp, hi, _⟩
        · rw [itpActive, hn] at hact; cases hact
        · rw [hi] at c
          exact cur_snoc l s toks grp I hi l' a b c _ (by simp [hc])

theorem nm_lines (inc : Path → Glob → Except String Glob) (dir : Path) (hinc : ∀ p g0, NotName (inc p g0)) :
    ∀ (raws : List String) (g : Glob) (l : Loc) (s s' : Option Bool), NmInv l s → nmLines raws s = some s' →
      NotName (runLines inc dir (parseLines raws) (g, l)) ∧
      ∀ g' l', runLines inc dir (parseLines raws) (g, l) = .ok (g', l') → NmInv l' s' := by
  intro raws
  induction raws with
  | nil =>
    intro g l s s' I hs
    simp only [nmLines] at hs
    injection hs with hs; subst hs
    refine ⟨notName_ok _, ?_⟩
    intro g' l' h
    simp only [parseLines, List.filterMap_nil, runLines] at h
    injection h with h; injection h with _ h; subst h; exact I
  | cons raw rest ih =>
    intro g l s s' I hs
    simp only [nmLines] at hs
    rw [runLines_parse_cons]
    cases h1 : nmLine s raw with
    | none => simp [h1] at hs
    | some s1 =>
      simp only [h1] at hs
      obtain ⟨hnn, hstep⟩ := nm_step inc dir hinc g l s s1 raw I h1
      cases ht : treeLine inc dir (g, l) raw with
      | error e =>
        exact ⟨by intro e' h; injection h with h; subst h; exact hnn e ht, by intro g' l' h; cases h⟩
      | ok st1 =>
        obtain ⟨g1, l1⟩ := st1
        exact ih g1 l1 s1 s' (hstep g1 l1 ht) hs

theorem expandMols_notName : ∀ (mols : List (String × String)) (g : Glob) (count : Nat), NotName (expandMols g count mols) := by
  intro mols
  induction mols with
  | nil => intro g count; exact notName_ok _
  | cons m rest ih =>
    intro g count e h
    obtain ⟨name, n⟩ := m
    unfold expandMols at h
    split at h
    · injection h with h; subst h; decide
    · split at h
      · injection h with h; subst h; decide
      · exact ih _ _ e h

theorem finalize_notName (g : Glob) (l : Loc) (s : Option Bool) (I : NmInv l s) (hs : s ≠ some false) :
    NotName (finalize g l) := by
  intro e h
  unfold finalize at h
  rw [finalize_groups l I.well] at h
  simp only at h
  split at h
  · injection h with h; subst h; decide
  · obtain ⟨g1, hg1⟩ := readGroups_ok (l.itpLines ++ openOf l.itp) g (by
      intro grp hg
      simp only [List.mem_append] at hg
      rcases hg with hg | hg
      · exact I.closed grp hg
      · exact I.openOk hs grp hg)
    rw [hg1] at h
    exact expandMols_notName _ _ _ e h

theorem fsGet_mem (fs : FS) (p : Path) (raws : List String) (h : fsGet fs p = some raws) : ∃ q, (q, raws) ∈ fs := by
  unfold fsGet at h
  cases hf : fs.find? (·.1 == p) with
  | none => rw [hf] at h; cases h
  | some x =>
    rw [hf] at h
    simp only [Option.map_some] at h
    injection h with h
    exact ⟨x.1, by rw [← h]; exact List.mem_of_find?_eq_some hf⟩

/-- under the syntactic condition no file read by the tree reader stops with a malformed-name error -/
theorem readFile_notName (fs : FS) (hfs : molNamesSyntactic fs = true) :
    ∀ (fuel : Nat) (path : Path) (g : Glob), NotName (readFile fs fuel path g) := by
  intro fuel
  induction fuel with
  | zero => intro path g e h; simp only [readFile] at h; injection h with h; subst h; decide
  | succ fuel ih =>
    intro path g e h
    unfold readFile at h
    cases hget : fsGet fs path with
    | none => rw [hget] at h; injection h with h; subst h; decide
    | some raws =>
      simp only [hget] at h
      obtain ⟨q, hq⟩ := fsGet_mem fs path raws hget
      have hfile : nmFile raws = true := by
        have := List.all_eq_true.mp hfs _ hq
        exact this
      unfold nmFile at hfile
      cases hsc : nmLines raws none with
      | none => rw [hsc] at hfile; cases hfile
      | some s =>
        rw [hsc] at hfile
        have hs : s ≠ some false := by simpa using hfile
        obtain ⟨hnn, hinv⟩ := nm_lines (readFile fs fuel) path.dropLast ih raws g {} none s nmInv_init hsc
        cases hr : runLines (readFile fs fuel) path.dropLast (parseLines raws) (g, {}) with
        | error e' =>
          rw [hr] at h
          injection h with h; subst h
          exact hnn _ hr
        | ok st1 =>
          obtain ⟨g1, l1⟩ := st1
          rw [hr] at h
          exact finalize_notName g1 l1 s (hinv g1 l1 hr) hs e h

/-- **(1) the syntactic condition implies the semantic one**, for every tree (well formed or not) -/
theorem molNames_sound (fs : FS) (top : Path) (hfs : molNamesSyntactic fs = true) : noMalformedMolNames fs top = true := by
  unfold noMalformedMolNames
  cases hr : readTop fs top with
  | ok g => rfl
  | error e =>
    have := readFile_notName fs hfs (fs.length + 1) top {} e hr
    simp [this]

/-! ### (2) the condition is preserved by flattening a well-formed tree -/

theorem wfPragma_fresh (incW : Path → Bool → Bool → Option Bool) (dir : Path) (frozen : Bool) (w w1 : WfSt)
    (toks : List String) (hw : wfPragma incW dir frozen w toks = some w1) :
    (if (toks.headD "" == "#include") = true then w1.fresh = true else w1.fresh = w.fresh) := by
  unfold wfPragma at hw
  simp only at hw
  by_cases hinc : (toks.headD "" == "#include") = true
  · obtain ⟨k1, k2, k3, k4, k5⟩ := include_consts toks hinc
    simp only [k1, k2, k3, k4, k5, hinc, Bool.false_eq_true, if_false, if_true] at hw ⊢
    split at hw
    · split at hw
      · cases hw
      · split at hw
        · cases hw
        · split at hw
          · cases hw
          · injection hw with hw; subst hw; rfl
    · cases hw
  · rw [if_neg hinc]
    by_cases c1 : (toks == ["#endif"]) = true
    · rw [if_pos c1] at hw
      split at hw
      · split at hw
        · injection hw with hw; subst hw; rfl
        · cases hw
      · split at hw
        · injection hw with hw; subst hw; rfl
        · cases hw
    · rw [if_neg c1] at hw
      by_cases c2 : startsWith (toks.headD "") "#else" = true
      · rw [if_pos c2] at hw
        split at hw
        · cases hw
        · split at hw
          · split at hw
            · injection hw with hw; subst hw; rfl
            · cases hw
          · split at hw
            · injection hw with hw; subst hw; rfl
            · cases hw
      · rw [if_neg c2] at hw
        by_cases c3 : (startsWith (toks.headD "") "#ifdef" || startsWith (toks.headD "") "#ifndef") = true
        · rw [if_pos c3] at hw
          split at hw
          · split at hw
            · cases hw
            · split at hw
              · split at hw
                · injection hw with hw; subst hw; rfl
                · cases hw
              · split at hw
                · injection hw with hw; subst hw; rfl
                · cases hw
          · cases hw
        · rw [if_neg c3] at hw
          by_cases c4 : (toks.headD "" == "#define") = true
          · rw [if_pos c4] at hw
            split at hw
            · injection hw with hw; subst hw; rfl
            · cases hw
          · rw [if_neg c4] at hw
            by_cases c5 : (toks.headD "" == "#error") = true
            · rw [if_pos c5] at hw
              split at hw
              · cases hw
              · injection hw with hw; subst hw; rfl
            · rw [if_neg c5, if_neg hinc] at hw
              cases hw

/-- the relation between the scan of a file of the tree (state `sp`) and the scan of the text flattened so far
(state `sf`): equal once the file has had a section header since its start / its last `#include` (`fresh = false`);
before that the file has contributed no header or content line and the flattened text is not left under a
moleculetype header without name line -/
abbrev NmRel (fresh : Bool) (sp sf : Option Bool) : Prop := (fresh = false → sp = sf) ∧ (fresh = true → sf ≠ some false)

/-- if the rest of a file (scanned from a `fresh` position) passes both scans, the position is not directly under a
moleculetype header without name line -/
theorem nm_lookahead (incW : Path → Bool → Bool → Option Bool) (dir : Path) (frozen isTop : Bool) :
    ∀ (raws : List String) (w w' : WfSt) (sp sp' : Option Bool),
      wfLines incW dir frozen isTop raws w = some w' → w.fresh = true → nmLines raws sp = some sp' →
      sp' ≠ some false → sp ≠ some false := by
  intro raws
  induction raws with
  | nil =>
    intro w w' sp sp' _ _ hn hend
    simp only [nmLines] at hn
    injection hn with hn; subst hn; exact hend
  | cons raw rest ih =>
    intro w w' sp sp' hw hfr hn hend
    simp only [wfLines] at hw
    simp only [nmLines] at hn
    cases hw1 : wfLine incW dir frozen isTop w raw with
    | none => simp [hw1] at hw
    | some w1 =>
      cases hn1 : nmLine sp raw with
      | none => simp [hn1] at hn
      | some sp1 =>
        simp only [hw1] at hw
        simp only [hn1] at hn
        unfold wfLine at hw1
        unfold nmLine at hn1
        cases hcl : classify raw with
        | none =>
          simp only [hcl] at hw1 hn1
          injection hw1 with hw1; injection hn1 with hn1; subst hw1 hn1
          exact ih w w' sp sp' hw hfr hn hend
        | some line =>
          cases line with
          | star =>
            simp only [hcl] at hw1 hn1
            injection hw1 with hw1; injection hn1 with hn1; subst hw1 hn1
            exact ih w w' sp sp' hw hfr hn hend
          | badHeader => simp [hcl] at hw1
          | header name =>
            simp only [hcl] at hn1
            split at hn1
            · cases hn1
            · rename_i hne; simpa using hne
          | content toks => simp [hcl, hfr] at hw1
          | pragma toks =>
            simp only [hcl] at hw1 hn1
            injection hn1 with hn1; subst hn1
            have hf1 : w1.fresh = true := by
              have := wfPragma_fresh incW dir frozen w w1 toks hw1
              split at this
              · exact this
              · rw [this]; exact hfr
            exact ih w1 w' sp sp' hw hf1 hn hend

theorem nmLines_snoc (out : List String) (raw : String) (sf : Option Bool) (h : nmLines out none = some sf) :
    nmLines (out ++ [raw]) none = nmLine sf raw := by
  rw [nmLines_append, h]
  simp only [nmLines]
  cases nmLine sf raw <;> rfl

/-- the statement proved by induction on the include depth -/
def NFile (fs : FS) (fuel : Nat) : Prop :=
  ∀ (path : Path) (isTop frozen ph ph' : Bool) (fst fst' : FlatSt) (sf : Option Bool),
    wfFile fs fuel isTop path frozen ph = some ph' →
    flattenFile fs fuel path fst = .ok fst' →
    nmLines fst.out none = some sf → sf ≠ some false →
    ∃ sf', nmLines fst'.out none = some sf' ∧ sf' ≠ some false

theorem nline (fs : FS) (fuel : Nat) (IH : NFile fs fuel)
    (w w1 : WfSt) (frozen isTop : Bool) (dir : Path) (c c1 : Option (Bool × String)) (fst fst1 : FlatSt) (raw : String)
    (sp sp1 sf : Option Bool)
    (hw : wfLine (fun p fr ph => wfFile fs fuel false p fr ph) dir frozen isTop w raw = some w1)
    (hf : flatLine (flattenFile fs fuel) dir c fst raw = .ok (c1, fst1))
    (hn : nmLine sp raw = some sp1)
    (hahead : w1.fresh = true → sp1 ≠ some false)
    (hsf : nmLines fst.out none = some sf) (R : NmRel w.fresh sp sf) :
    ∃ sf1, nmLines fst1.out none = some sf1 ∧ NmRel w1.fresh sp1 sf1 := by
  unfold wfLine at hw
  unfold flatLine at hf
  have hnm := hn
  unfold nmLine at hn
  cases hcl : classify raw with
  | none =>
    simp only [hcl] at hw hf hn
    injection hw with hw; injection hn with hn; subst hw hn
    injection hf with hf; injection hf with _ hf; subst hf
    refine ⟨sf, ?_, R⟩
    show nmLines (fst.out ++ [raw]) none = some sf
    rw [nmLines_snoc _ _ _ hsf]; unfold nmLine; rw [hcl]
  | some line =>
    cases line with
    | star =>
      simp only [hcl] at hw hf hn
      injection hw with hw; injection hn with hn; subst hw hn
      injection hf with hf; injection hf with _ hf; subst hf
      refine ⟨sf, ?_, R⟩
      show nmLines (fst.out ++ [raw]) none = some sf
      rw [nmLines_snoc _ _ _ hsf]; unfold nmLine; rw [hcl]
    | badHeader => simp [hcl] at hw
    | content toks =>
      simp only [hcl] at hw hf hn
      injection hn with hn; subst hn
      injection hf with hf; injection hf with _ hf; subst hf
      split at hw
      · cases hw
      · rename_i hfr
        have hfresh : w.fresh = false := by simpa using hfr
        split at hw
        · cases hw
        · injection hw with hw; subst hw
          have e : sp = sf := R.1 hfresh
          subst e
          refine ⟨sp.map fun _ => nameShape toks, ?_, fun _ => rfl, fun h => by rw [hfresh] at h; cases h⟩
          show nmLines (fst.out ++ [raw]) none = _
          rw [nmLines_snoc _ _ _ hsf]; unfold nmLine; rw [hcl]
    | header name =>
      simp only [hcl] at hw hf hn
      injection hf with hf; injection hf with _ hf; subst hf
      split at hn
      · cases hn
      · rename_i hne
        injection hn with hn; subst hn
        have hspne : sp ≠ some false := by simpa using hne
        have hsfne : sf ≠ some false := by
          cases hfr : w.fresh with
          | false => rw [← R.1 hfr]; exact hspne
          | true => exact R.2 hfr
        have hsfb : (sf == some false) = false := by simpa using hsfne
        have hw1f : w1.fresh = false := by
          split at hw
          · split at hw
            · injection hw with hw; subst hw; rfl
            · cases hw
          · split at hw
            · split at hw
              · rename_i hc
                injection hw with hw; subst hw
                simp only [Bool.and_eq_true, Bool.not_eq_true'] at hc
                exact hc.1
              · cases hw
            · split at hw
              · cases hw
              · injection hw with hw; subst hw; rfl
        refine ⟨_, ?_, fun _ => rfl, fun h => by rw [hw1f] at h; cases h⟩
        show nmLines (fst.out ++ [raw]) none = _
        rw [nmLines_snoc _ _ _ hsf]; unfold nmLine; rw [hcl]
        simp only [hsfb, Bool.false_eq_true, if_false]
    | pragma toks =>
      simp only [hcl] at hw hf hn
      injection hn with hn; subst hn
      have hfr1 := wfPragma_fresh _ dir frozen w w1 toks hw
      by_cases hinc : (toks.headD "" == "#include") = true
      · rw [if_pos hinc] at hfr1
        have hspne : sp ≠ some false := hahead hfr1
        have hsfne : sf ≠ some false := by
          cases hfr : w.fresh with
          | false => rw [← R.1 hfr]; exact hspne
          | true => exact R.2 hfr
        obtain ⟨k1, k2, k3, k4, k5⟩ := include_consts toks hinc
        unfold wfPragma at hw
        unfold flatPragma at hf
        simp only [k1, k2, k3, k4, k5, hinc, Bool.false_eq_true, if_false, if_true] at hw hf
        match toks, hw, hf with
        | _ :: p :: _, hw, hf =>
          simp only at hw hf
          split at hw
          · cases hw
          · cases hnp : normPath (dir ++ splitPath (includePath p)) with
            | none => simp [hnp] at hw
            | some full =>
              simp only [hnp] at hw hf
              cases hwf : wfFile fs fuel false full (frozen || w.cond.isSome) w.phase2 with
              | none => simp [hwf] at hw
              | some ph =>
                cases hho : holds fst.defs c with
                | false =>
                  simp only [hho, Bool.false_eq_true, if_false] at hf
                  injection hf with hf; injection hf with _ hfst; subst hfst
                  exact ⟨sf, hsf, (fun h => by rw [hfr1] at h; cases h), fun _ => hsfne⟩
                | true =>
                  simp only [hho, if_true] at hf
                  cases hff : flattenFile fs fuel full fst with
                  | error e => simp [hff, Except.map] at hf
                  | ok fstc =>
                    simp only [hff, Except.map] at hf
                    injection hf with hf; injection hf with _ hfst; subst hfst
                    obtain ⟨sf', hsf', hne'⟩ := IH full false _ _ ph fst fstc sf hwf hff hsf hsfne
                    exact ⟨sf', hsf', (fun h => by rw [hfr1] at h; cases h), fun _ => hne'⟩
        | [], hw, _ => simp at hw
        | [_], hw, _ => simp at hw
      · rw [if_neg hinc] at hfr1
        have hni : (toks.headD "" == "#include") = false := by simpa using hinc
        have hout := flatPragma_noinc_out _ dir c c1 fst fst1 raw toks hni hf
        refine ⟨sf, ?_, ?_⟩
        · rw [hout, nmLines_snoc _ _ _ hsf]; unfold nmLine; rw [hcl]
        · rw [hfr1]; exact R

theorem nlines (fs : FS) (fuel : Nat) (IH : NFile fs fuel) (frozen isTop : Bool) (dir : Path) :
    ∀ (raws : List String) (w w' : WfSt) (c : Option (Bool × String)) (fst fst' : FlatSt) (sp sp' sf : Option Bool),
      wfLines (fun p fr ph => wfFile fs fuel false p fr ph) dir frozen isTop raws w = some w' →
      flattenLines (flattenFile fs fuel) dir raws c fst = .ok fst' →
      nmLines raws sp = some sp' → sp' ≠ some false →
      nmLines fst.out none = some sf → NmRel w.fresh sp sf →
      ∃ sf', nmLines fst'.out none = some sf' ∧ NmRel w'.fresh sp' sf' := by
  intro raws
  induction raws with
  | nil =>
    intro w w' c fst fst' sp sp' sf hw hf hn _ hsf R
    simp only [wfLines] at hw
    simp only [flattenLines] at hf
    simp only [nmLines] at hn
    injection hw with hw; subst hw
    injection hf with hf; subst hf
    injection hn with hn; subst hn
    exact ⟨sf, hsf, R⟩
  | cons raw rest ih =>
    intro w w' c fst fst' sp sp' sf hw hf hn hend hsf R
    simp only [wfLines] at hw
    simp only [flattenLines] at hf
    simp only [nmLines] at hn
    cases hw1 : wfLine (fun p fr ph => wfFile fs fuel false p fr ph) dir frozen isTop w raw with
    | none => simp [hw1] at hw
    | some w1 =>
      simp only [hw1] at hw
      cases hf1 : flatLine (flattenFile fs fuel) dir c fst raw with
      | error e => simp [hf1] at hf
      | ok r =>
        obtain ⟨c1, fst1⟩ := r
        simp only [hf1] at hf
        cases hn1 : nmLine sp raw with
        | none => simp [hn1] at hn
        | some sp1 =>
          simp only [hn1] at hn
          have hahead : w1.fresh = true → sp1 ≠ some false := fun hfr =>
            nm_lookahead _ dir frozen isTop rest w1 w' sp1 sp' hw hfr hn hend
          obtain ⟨sf1, hsf1, R1⟩ := nline fs fuel IH w w1 frozen isTop dir c c1 fst fst1 raw sp sp1 sf hw1 hf1 hn1 hahead hsf R
          exact ih w1 w' c1 fst1 fst' sp1 sp' sf1 hw hf hn hend hsf1 R1

theorem nfile (fs : FS) (hfs : molNamesSyntactic fs = true) : ∀ fuel, NFile fs fuel := by
  intro fuel
  induction fuel with
  | zero => intro path isTop frozen ph ph' fst fst' sf hw; simp [wfFile] at hw
  | succ fuel IH =>
    intro path isTop frozen ph ph' fst fst' sf hw hf hsf hsfne
    unfold wfFile at hw
    unfold flattenFile at hf
    cases hget : fsGet fs path with
    | none => simp [hget] at hw
    | some raws =>
      simp only [hget] at hw hf
      obtain ⟨q, hq⟩ := fsGet_mem fs path raws hget
      have hfile : nmFile raws = true := List.all_eq_true.mp hfs _ hq
      unfold nmFile at hfile
      cases hsc : nmLines raws none with
      | none => rw [hsc] at hfile; cases hfile
      | some sp' =>
        rw [hsc] at hfile
        have hend : sp' ≠ some false := by simpa using hfile
        cases hwl : wfLines (fun p fr ph => wfFile fs fuel false p fr ph) path.dropLast frozen isTop raws { phase2 := ph } with
        | none => simp [hwl] at hw
        | some w' =>
          obtain ⟨sf', hsf', R'⟩ := nlines fs fuel IH frozen isTop path.dropLast raws { phase2 := ph } w' none fst fst'
            none sp' sf hwl hf hsc hend hsf ⟨(fun h => by cases h), fun _ => hsfne⟩
          refine ⟨sf', hsf', ?_⟩
          cases hfr : w'.fresh with
          | false => rw [← R'.1 hfr]; exact hend
          | true => exact R'.2 hfr

/-- **(2) the syntactic condition is preserved by flattening**: if the tree is well formed and every file passes the
name-line scan, so does the flattened text (hence the one-file tree holding it, whatever its name). -/
theorem molNames_flatten (fs : FS) (top : Path) (st : FlatSt) (p : Path)
    (hwf : wellFormed fs top = true) (hfl : flatten fs top = .ok st) (hfs : molNamesSyntactic fs = true) :
    molNamesSyntactic [(p, st.out)] = true := by
  unfold wellFormed at hwf
  unfold flatten at hfl
  cases hw : wfFile fs (fs.length + 1) true top false false with
  | none => rw [hw] at hwf; cases hwf
  | some ph' =>
    obtain ⟨sf', hsf', hne⟩ := nfile fs hfs (fs.length + 1) top true false false ph' {} st none hw hfl rfl (by simp)
    have : nmFile st.out = true := by
      unfold nmFile
      rw [hsf']
      simpa using hne
    simp [molNamesSyntactic, this]

/-! ### exactness on a file that is read to its end: a failed scan IS a malformed-name error -/

def BadGroup (grp : Group) : Prop := ∀ n, groupName grp ≠ .ok n

theorem nameOfBody_bad (body : Group) (h : bodyOk body = false) : ∀ n, nameOfBody body ≠ .ok n := by
  intro n
  unfold bodyOk at h
  unfold nameOfBody
  cases hl : (body.filter isCand).getLast? with
  | none => simp
  | some x =>
    rw [hl] at h
    cases x with
    | hdr m => simp
    | toks toks =>
      simp only at h
      rcases toks with _ | ⟨a, _ | ⟨b, _ | ⟨c, r⟩⟩⟩ <;> simp [nameShape] at h ⊢
      simp [h]

def SealedBad (grp : Group) : Prop :=
  ∃ h body n rest, grp = h :: (body ++ ItpLine.hdr n :: rest) ∧ (∀ x ∈ body, isToksLine x = true) ∧ bodyOk body = false

theorem SealedBad.snoc {grp : Group} (h : SealedBad grp) (x : ItpLine) : SealedBad (grp ++ [x]) := by
  obtain ⟨h0, body, n, rest, e, hb, hok⟩ := h
  exact ⟨h0, body, n, rest ++ [x], by rw [e]; simp, hb, hok⟩

theorem SealedBad.bad {grp : Group} (h : SealedBad grp) : BadGroup grp := by
  obtain ⟨h0, body, n, rest, e, hb, hok⟩ := h
  intro m
  rw [groupName_eq, e]
  simp only [List.drop_succ_cons, List.drop_zero]
  rw [takeWhile_stop _ _ _ _ hb rfl]
  exact nameOfBody_bad body hok m

theorem open_bad (h0 : ItpLine) (body : Group) (hb : ∀ x ∈ body, isToksLine x = true) (hok : bodyOk body = false) :
    BadGroup (h0 :: body) := by
  intro m
  rw [groupName_eq]
  simp only [List.drop_succ_cons, List.drop_zero]
  rw [takeWhile_all _ _ hb]
  exact nameOfBody_bad body hok m

/-- a collected moleculetype without good name line is already fixed in the director -/
def NmB (l : Loc) : Prop :=
  (∃ grp ∈ l.itpLines, BadGroup grp) ∨ (∃ grp, l.itp = some grp ∧ SealedBad grp)

theorem doHeader_cases (l : Loc) (name : String) :
    ((doHeader l name).itpLines = l.itpLines ++ openOf l.itp ∧ (doHeader l name).itp = some [ItpLine.hdr name]) ∨
    ((doHeader l name).itpLines = l.itpLines ∧ (doHeader l name).itp = appendHdr l.itp name) := by
  by_cases hsec : newSection l.sec name = ["moleculetype"]
  · left
    unfold doHeader
    simp only [hsec, beq_self_eq_true, if_true]
    cases hi : l.itp with
    | none => simp [openOf]
    | some grp =>
      cases grp with
      | nil => simp [openOf]
      | cons a b => simp [openOf]
  · right
    rw [doHeader_other l name _ rfl hsec]
    exact ⟨rfl, rfl⟩

theorem nmB_header (l : Loc) (name : String) (h : NmB l) : NmB (doHeader l name) := by
  rcases doHeader_cases l name with ⟨h1, h2⟩ | ⟨h1, h2⟩
  · left
    rcases h with ⟨grp, hg, hb⟩ | ⟨grp, hi, hsb⟩
    · exact ⟨grp, by rw [h1]; exact List.mem_append_left _ hg, hb⟩
    · have hne : grp ≠ [] := by obtain ⟨h0, body, n, rest, e, _, _⟩ := hsb; rw [e]; simp
      exact ⟨grp, by rw [h1, hi, openOf_some _ hne]; simp, hsb.bad⟩
  · rcases h with ⟨grp, hg, hb⟩ | ⟨grp, hi, hsb⟩
    · exact Or.inl ⟨grp, by rw [h1]; exact hg, hb⟩
    · exact Or.inr ⟨grp ++ [ItpLine.hdr name], by rw [h2, hi]; rfl, hsb.snoc _⟩

/-- the header that makes the scan fail fixes a bad group -/
theorem nmB_header_fail (l : Loc) (name : String) (I : NmInv l (some false)) : NmB (doHeader l name) := by
  obtain ⟨_, h0, body, hi, hb, hok⟩ := I.cur
  rcases doHeader_cases l name with ⟨h1, h2⟩ | ⟨h1, h2⟩
  · exact Or.inl ⟨h0 :: body, by rw [h1, hi, openOf_some _ (by simp)]; simp, open_bad h0 body hb hok⟩
  · exact Or.inr ⟨h0 :: body ++ [ItpLine.hdr name], by rw [h2, hi]; rfl, h0, body, name, [], rfl, hb, hok⟩

theorem nmB_step (inc : Path → Glob → Except String Glob) (dir : Path) (g g' : Glob) (l l' : Loc) (raw : String)
    (h : NmB l) (ht : treeLine inc dir (g, l) raw = .ok (g', l')) : NmB l' := by
  have keep : ∀ l1 : Loc, l1.itpLines = l.itpLines →
      (l1.itp = l.itp ∨ ∃ x, l1.itp = some (l.itp.getD [] ++ [x]) ∧ l.itp.isSome = true) → NmB l1 := by
    intro l1 a c
    rcases h with ⟨grp, hg, hb⟩ | ⟨grp, hi, hsb⟩
    · exact Or.inl ⟨grp, by rw [a]; exact hg, hb⟩
    · rcases c with c | ⟨x, c, _⟩
      · exact Or.inr ⟨grp, by rw [c]; exact hi, hsb⟩
      · exact Or.inr ⟨grp ++ [x], by rw [c, hi]; rfl, hsb.snoc _⟩
  unfold treeLine at ht
  cases hcl : classify raw with
  | none => rw [hcl] at ht; injection ht with ht; injection ht with _ ht; subst ht; exact h
  | some line =>
    rw [hcl] at ht
    cases line with
    | star => injection ht with ht; injection ht with _ ht; subst ht; exact h
    | badHeader => cases ht
    | header name =>
      simp only [step] at ht
      injection ht with ht; injection ht with _ ht; subst ht
      exact nmB_header l name h
    | content toks =>
      simp only [step] at ht
      obtain ⟨_, b, c⟩ := (doContent_frame g l toks).2 g' l' ht
      rcases c with c | ⟨grp, hi, c⟩
      · exact keep l' b (Or.inl c)
      · exact keep l' b (Or.inr ⟨_, by rw [c, hi]; rfl, by rw [hi]; rfl⟩)
    | pragma toks =>
      simp only [step] at ht
      obtain ⟨_, b, c⟩ := (doPragma_frame_gen inc dir g l toks).2 g' l' ht
      rcases c with c | ⟨hact, c⟩
      · exact keep l' b (Or.inl c)
      · refine keep l' b (Or.inr ⟨_, c, ?_⟩)
        cases hi : l.itp with
        | none => rw [itpActive, hi] at hact; cases hact
        | some grp => rfl

theorem nmB_lines (inc : Path → Glob → Except String Glob) (dir : Path) :
    ∀ (raws : List String) (g g' : Glob) (l l' : Loc), NmB l →
      runLines inc dir (parseLines raws) (g, l) = .ok (g', l') → NmB l' := by
  intro raws
  induction raws with
  | nil =>
    intro g g' l l' h hr
    simp only [parseLines, List.filterMap_nil, runLines] at hr
    injection hr with hr; injection hr with _ hr; subst hr; exact h
  | cons raw rest ih =>
    intro g g' l l' h hr
    rw [runLines_parse_cons] at hr
    cases ht : treeLine inc dir (g, l) raw with
    | error e => rw [ht] at hr; cases hr
    | ok st1 =>
      obtain ⟨g1, l1⟩ := st1
      rw [ht] at hr
      exact ih g1 g' l1 l' (nmB_step inc dir g g1 l l1 raw h ht) hr

/-- the scan, run along a successful run of the director, either keeps the invariant or a bad group is fixed -/
theorem nm_lines_exact (inc : Path → Glob → Except String Glob) (dir : Path) :
    ∀ (raws : List String) (g g' : Glob) (l l' : Loc) (s : Option Bool), NmInv l s →
      runLines inc dir (parseLines raws) (g, l) = .ok (g', l') →
      (∃ s', nmLines raws s = some s' ∧ NmInv l' s') ∨ (nmLines raws s = none ∧ NmB l') := by
  intro raws
  induction raws with
  | nil =>
    intro g g' l l' s I hr
    simp only [parseLines, List.filterMap_nil, runLines] at hr
    injection hr with hr; injection hr with _ hr; subst hr
    exact Or.inl ⟨s, rfl, I⟩
  | cons raw rest ih =>
    intro g g' l l' s I hr
    rw [runLines_parse_cons] at hr
    cases ht : treeLine inc dir (g, l) raw with
    | error e => rw [ht] at hr; cases hr
    | ok st1 =>
      obtain ⟨g1, l1⟩ := st1
      rw [ht] at hr
      simp only at hr
      simp only [nmLines]
      cases hn : nmLine s raw with
      | some s1 =>
        simp only
        -- the invariant part of `nm_step` does not use the hypothesis on the include handler's errors
        have hinv : NmInv l1 s1 := by
          have hn' := hn
          unfold nmLine at hn'
          unfold treeLine at ht
          cases hcl : classify raw with
          | none =>
            rw [hcl] at hn' ht
            injection hn' with hn'; subst hn'
            injection ht with ht; injection ht with _ ht; subst ht; exact I
          | some line =>
            rw [hcl] at hn' ht
            cases line with
            | star =>
              injection hn' with hn'; subst hn'
              injection ht with ht; injection ht with _ ht; subst ht; exact I
            | badHeader => cases ht
            | header name =>
              simp only at hn'
              split at hn'
              · cases hn'
              · rename_i hne
                injection hn' with hn'; subst hn'
                simp only [step] at ht
                injection ht with ht; injection ht with _ ht; subst ht
                exact nm_header l s name I (by simpa using hne)
            | content toks =>
              have := (nm_step (fun _ _ => .ok {}) dir (by intro p g0 e h; cases h) g l s s1 raw I hn).2 g1 l1
              apply this
              unfold treeLine
              rw [hcl]
              simp only [step] at ht ⊢
              exact ht
            | pragma toks =>
              injection hn' with hn'; subst hn'
              have hc := classify_pragma raw toks hcl
              simp only [step] at ht
              obtain ⟨a, b, c⟩ := (doPragma_frame_gen inc dir g l toks).2 g1 l1 ht
              rcases c with c | ⟨hact, c⟩
              · exact cur_keep l s I l1 a b c
              · rcases I.well with hnone | ⟨grp, hi, _⟩
                · rw [itpActive, hnone] at hact; cases hact
                · rw [hi] at c
                  exact cur_snoc l s toks grp I hi l1 a b c _ (by simp [hc])
        exact ih g1 g' l1 l' s1 hinv hr
      | none =>
        right
        refine ⟨rfl, ?_⟩
        -- the failing line is a header met directly under a moleculetype header without good name line
        unfold nmLine at hn
        unfold treeLine at ht
        cases hcl : classify raw with
        | none => rw [hcl] at hn; cases hn
        | some line =>
          rw [hcl] at hn ht
          cases line with
          | star => cases hn
          | badHeader => cases hn
          | content toks => cases hn
          | pragma toks => cases hn
          | header name =>
            simp only at hn
            split at hn
            · rename_i hsf
              have hs : s = some false := by simpa using hsf
              subst hs
              simp only [step] at ht
              injection ht with ht; injection ht with _ ht; subst ht
              exact nmB_lines inc dir rest _ g' _ l' (nmB_header_fail l name I) hr
            · cases hn

theorem readGroups_bad : ∀ (grps : List Group) (g : Glob), (∃ grp ∈ grps, BadGroup grp) →
    ∃ e, readGroups g grps = .error e ∧ isNameErr e = true := by
  intro grps
  induction grps with
  | nil => intro g h; obtain ⟨grp, hg, _⟩ := h; cases hg
  | cons grp rest ih =>
    intro g h
    unfold readGroups
    cases hn : groupName grp with
    | error e => exact ⟨e, rfl, groupName_err grp e hn⟩
    | ok nm =>
      simp only
      obtain ⟨grp', hg', hb⟩ := h
      rcases List.mem_cons.mp hg' with e | hmem
      · subst e; exact absurd hn (hb nm)
      · exact ih _ ⟨grp', hmem, hb⟩

/-- **exactness on a file the director runs through**: if all lines of a file are executed without error and no
conditional is left open, then `finalize` stops with a malformed-name error exactly when the scan of the file
fails — whatever the include handler does. -/
theorem nmFile_exact (inc : Path → Glob → Except String Glob) (dir : Path) (raws : List String) (g g' : Glob) (l' : Loc)
    (hr : runLines inc dir (parseLines raws) (g, {}) = .ok (g', l')) (hc : l'.cond = none) :
    (nmFile raws = true → NotName (finalize g' l')) ∧
    (nmFile raws = false → ∃ e, finalize g' l' = .error e ∧ isNameErr e = true) := by
  have hbadfin : (∃ grp ∈ (if itpActive l' then l'.itpLines ++ [l'.itp.getD []] else l'.itpLines), BadGroup grp) →
      ∃ e, finalize g' l' = .error e ∧ isNameErr e = true := by
    intro hb
    obtain ⟨e, he, hne⟩ := readGroups_bad _ g' hb
    refine ⟨e, ?_, hne⟩
    unfold finalize
    simp only [hc, Option.isSome_none, Bool.false_eq_true, if_false, he]
  unfold nmFile
  rcases nm_lines_exact inc dir raws g g' {} l' none nmInv_init hr with ⟨s', hs', I⟩ | ⟨hnone, hB⟩
  · rw [hs']
    constructor
    · intro h
      exact finalize_notName g' l' s' I (by simpa using h)
    · intro h
      have hs : s' = some false := by simpa using h
      subst hs
      obtain ⟨_, h0, body, hi, hb, hok⟩ := I.cur
      apply hbadfin
      have hact : itpActive l' = true := by simp [itpActive, hi]
      rw [if_pos hact, hi]
      exact ⟨h0 :: body, by simp, open_bad h0 body hb hok⟩
  · rw [hnone]
    constructor
    · intro h; cases h
    · intro _
      apply hbadfin
      rcases hB with ⟨grp, hg, hb⟩ | ⟨grp, hi, hsb⟩
      · refine ⟨grp, ?_, hb⟩
        split
        · exact List.mem_append_left _ hg
        · exact hg
      · have hne : grp ≠ [] := by obtain ⟨h0, body, n, rest, e, _, _⟩ := hsb; rw [e]; simp
        have hact : itpActive l' = true := by
          cases grp with
          | nil => exact absurd rfl hne
          | cons a b => simp [itpActive, hi]
        rw [if_pos hact, hi]
        exact ⟨grp, by simp, hsb.bad⟩

/-- for a one-file tree without `#include` whose lines are all executed and whose conditionals are closed, the
syntactic condition and the semantic one coincide -/
theorem molNames_exact_single (p : Path) (raws : List String) (hn : NoIncl raws) (g : Glob) (l : Loc)
    (hr : flatRun raws = .ok (g, l)) (hc : l.cond = none) :
    noMalformedMolNames [(p, raws)] p = molNamesSyntactic [(p, raws)] := by
  have hsyn : molNamesSyntactic [(p, raws)] = nmFile raws := by simp [molNamesSyntactic]
  rw [hsyn]
  obtain ⟨h1, h2⟩ := nmFile_exact noInc [] raws {} g l hr hc
  have hrt : readTop [(p, raws)] p = finalize g l := by
    rw [readTop_single p raws hn]
    show (match flatRun raws with | Except.error e => Except.error e | Except.ok (g, l) => finalize g l) = _
    rw [hr]
  cases hf : nmFile raws with
  | true =>
    unfold noMalformedMolNames
    rw [hrt]
    cases hfin : finalize g l with
    | ok x => rfl
    | error e => simp [h1 hf e hfin]
  | false =>
    obtain ⟨e, he, hne⟩ := h2 hf
    unfold noMalformedMolNames
    rw [hrt, he]
    simp [hne]

end PolyplyVerif.Proofs.C08Flatten
