/-
Lemmas about the token-level build-file model (`Model/BuildFileText.lean`): numerals, tokenizer, the line
parsers read back what the grammar writes, the section machine, one table entry per line.
-/
import PolyplyVerif.Model.BuildFileText
import PolyplyVerif.Proofs.BuildFile

namespace PolyplyVerif.Proofs.BuildFileText
open PolyplyVerif PolyplyVerif.BuildFile PolyplyVerif.BuildFileText PolyplyVerif.Proofs.BuildFile

/-! ### numerals -/

theorem digitChar_facts : ∀ d, d < 10 →
    digitChar d ≠ '.' ∧ digitChar d ≠ '+' ∧ digitChar d ≠ '-' ∧ digitChar d ≠ '[' ∧ digitChar d ≠ '$' ∧
    digitChar d ≠ ';' ∧ isSep (digitChar d) = false := by
  decide

theorem showNat_chars (n : Nat) (c : Char) (h : c ∈ showNat n) : ∃ d, d < 10 ∧ c = digitChar d := by
  rcases showNatAux_chars _ _ _ _ h with h | h
  · simp at h
  · exact h

theorem showNat_ne_nil (n : Nat) : showNat n ≠ [] := showNatAux_ne_nil (n + 1) n [] (by omega)

theorem readNatAux_showNat (n : Nat) : readNatAux (showNat n) 0 = some n := by
  have h := readNat_showNat n
  unfold readNat at h
  simpa [showNat_ne_nil n] using h

theorem splitFirst_none (c : Char) (a : List Char) (h : c ∉ a) : splitFirst c a = (a, none) := by
  have := splitFirst_append c a [] h
  simpa [splitFirst] using this

theorem splitSign_showNat (n : Nat) (rest : List Char) : splitSign (showNat n ++ rest) = (false, showNat n ++ rest) := by
  cases hs : showNat n with
  | nil => exact absurd hs (showNat_ne_nil n)
  | cons c cs =>
    obtain ⟨d, hd, hc⟩ := showNat_chars n c (by rw [hs]; exact List.mem_cons_self)
    have hf := digitChar_facts d hd
    have h1 : c ≠ '-' := hc ▸ hf.2.2.1
    have h2 : c ≠ '+' := hc ▸ hf.2.1
    simp only [List.cons_append]
    unfold splitSign
    split
    · rename_i heq; simp at heq; exact absurd heq.1 h1
    · rename_i heq; simp at heq; exact absurd heq.1 h2
    · rfl

theorem readInt_showInt (z : Int) : readInt (showInt z) = some z := by
  unfold readInt showInt
  by_cases hz : z < 0
  · have h1 : -(z.natAbs : Int) = z := by omega
    simp [hz, splitSign, readNat_showNat, h1]
  · have h1 : (z.natAbs : Int) = z := by omega
    have := splitSign_showNat z.natAbs []
    simp only [List.append_nil] at this
    simp [hz, this, readNat_showNat, h1]

theorem readNatAux_digits (ds : List Nat) (h : ∀ x ∈ ds, x < 10) : ∀ acc,
    readNatAux (ds.map digitChar) acc = some (ds.foldl (fun a d => 10 * a + d) acc) := by
  induction ds with
  | nil => intro acc; simp [readNatAux]
  | cons d rest ih =>
    intro acc
    simp only [List.map_cons, List.foldl_cons]
    rw [readNatAux_digit d (h d List.mem_cons_self)]
    exact ih (fun x hx => h x (List.mem_cons_of_mem _ hx)) _

theorem dot_not_mem_showNat (n : Nat) : '.' ∉ showNat n := by
  intro h
  obtain ⟨d, hd, hc⟩ := showNat_chars n '.' h
  exact (digitChar_facts d hd).1 hc.symm

theorem readDec_show (ip : Nat) (fp : Option (List Nat)) (h : ∀ ds, fp = some ds → ∀ x ∈ ds, x < 10) :
    readDec (showNat ip ++ fracChars fp) = some (Dec.abs ⟨false, ip, fp⟩) := by
  cases fp with
  | none =>
    simp only [fracChars, List.append_nil]
    unfold readDec
    rw [splitFirst_none '.' _ (dot_not_mem_showNat ip)]
    simp [readNat_showNat, Dec.abs]
  | some ds =>
    unfold readDec
    simp only [fracChars]
    rw [splitFirst_append '.' _ _ (dot_not_mem_showNat ip), splitFirst_hit]
    simp only [List.append_nil]
    have hne : (showNat ip).isEmpty = false := by
      cases hs : showNat ip with
      | nil => exact absurd hs (showNat_ne_nil ip)
      | cons _ _ => rfl
    simp only [hne, Bool.false_and]
    rw [readNatAux_showNat, readNatAux_digits ds (h ds rfl)]
    simp [Dec.abs, digitsVal]

theorem readFloat_showDec (d : Dec) (h : d.wf) : readFloat (showDec d) = some d.val := by
  obtain ⟨neg, ip, fp⟩ := d
  unfold readFloat showDec
  cases neg with
  | true =>
    simp only [if_true, List.cons_append, List.nil_append, splitSign]
    rw [readDec_show ip fp (fun ds hds x hx => h x (by simpa [hds] using hx))]
    simp [Dec.val, Dec.abs]
  | false =>
    simp only [Bool.false_eq_true, if_false, List.nil_append]
    rw [splitSign_showNat]
    simp only
    rw [readDec_show ip fp (fun ds hds x hx => h x (by simpa [hds] using hx))]
    simp [Dec.val, Dec.abs]

theorem readFloats_show (ds : List Dec) (h : decsWf ds) :
    (ds.map showDec).mapM (fun t => orErr "ValueError: float" (readFloat t)) = Except.ok (ds.map (·.val)) := by
  induction ds with
  | nil => rfl
  | cons d rest ih =>
    have hd : d.wf := h d List.mem_cons_self
    have hr : decsWf rest := fun x hx => h x (List.mem_cons_of_mem _ hx)
    rw [List.map_cons, List.mapM_cons, ih hr, readFloat_showDec d hd]
    rfl

/-! ### the line parsers read back what the grammar writes -/

theorem floatAt_eq (toks : List Tok) (i : Nat) (d : Dec) (hd : d.wf) (h : toks[i]? = some (showDec d)) :
    floatAt toks i = .ok d.val := by
  simp [floatAt, tokAt, h, orErr, readFloat_showDec d hd, bind, Except.bind]

theorem intAt_eq (toks : List Tok) (i : Nat) (z : Int) (h : toks[i]? = some (showInt z)) :
    intAt toks i = .ok z := by
  simp [intAt, tokAt, h, orErr, readInt_showInt, bind, Except.bind]

theorem tokAt_eq (toks : List Tok) (i : Nat) (t : Tok) (h : toks[i]? = some t) : tokAt toks i = .ok t := by
  simp [tokAt, h, orErr]

/-- every line parser, applied to the tokens the grammar writes for a record, yields that record -/
theorem parse_tokens (s : Syn) (h : s.wf) : parseBy s.method.1 s.method.2 s.tokens = .ok s.sem := by
  cases s with
  | molecule n lo hi =>
    obtain ⟨h1, h2⟩ := h
    simp only [Syn.method, Syn.tokens, Syn.sem, parseBy, if_true, parseMolecule]
    rw [tokAt_eq _ 0 n rfl, floatAt_eq _ 1 lo h1 rfl, floatAt_eq _ 2 hi h2 rfl]
    rfl
  | geometry k r s e io x y z ps =>
    obtain ⟨h1, h2, h3, h4, h5, h6⟩ := h
    simp only [Syn.method, Syn.tokens, Syn.sem, parseBy, if_true, kwLookup, List.find?, beq_self_eq_true,
      Option.map_some, parseGeometry, BuildFileTables.geomResname, BuildFileTables.geomStart,
      BuildFileTables.geomStop, BuildFileTables.geomPoint, BuildFileTables.geomInOut, BuildFileTables.geomRest]
    rw [tokAt_eq _ 0 r rfl, floatAt_eq _ 1 s h1 rfl, floatAt_eq _ 2 e h2 rfl, floatAt_eq _ 4 x h3 rfl,
      floatAt_eq _ 5 y h4 rfl, floatAt_eq _ 6 z h5 rfl, tokAt_eq _ 3 io rfl]
    have hdrop : ([r, showDec s, showDec e, io, showDec x, showDec y, showDec z] ++ ps.map showDec).drop 7 =
        ps.map showDec := rfl
    simp only [hdrop, readFloats_show ps h6]
    rfl
  | rw r s e x y z a =>
    obtain ⟨h1, h2, h3, h4⟩ := h
    simp only [Syn.method, Syn.tokens, Syn.sem, parseBy, if_true, parseRw]
    simp only [show ("_rw_restriction" = "_molecule") = False by decide,
      show ("_rw_restriction" = "_parse_geometry") = False by decide, if_false]
    rw [tokAt_eq _ 0 r rfl, intAt_eq _ 1 s rfl, intAt_eq _ 2 e rfl, floatAt_eq _ 3 x h1 rfl,
      floatAt_eq _ 4 y h2 rfl, floatAt_eq _ 5 z h3 rfl, floatAt_eq _ 6 a h4 rfl]
    rfl
  | dist a b d t =>
    simp only [Syn.method, parseBy]
    simp only [show ("_distance_restraints" = "_molecule") = False by decide,
      show ("_distance_restraints" = "_parse_geometry") = False by decide,
      show ("_distance_restraints" = "_rw_restriction") = False by decide, if_false, if_true, parseDist]
    cases t with
    | none =>
      have h1 : d.wf := h
      simp only [Syn.tokens, Syn.sem]
      rw [intAt_eq _ 0 a rfl, intAt_eq _ 1 b rfl, floatAt_eq _ 2 d h1 rfl]
      rfl
    | some t =>
      obtain ⟨h1, h2⟩ : d.wf ∧ t.wf := h
      simp only [Syn.tokens, Syn.sem]
      rw [intAt_eq _ 0 a rfl, intAt_eq _ 1 b rfl, floatAt_eq _ 2 d h1 rfl, floatAt_eq _ 3 t h2 rfl]
      rfl
  | pers m lp s e =>
    simp only [Syn.method, parseBy]
    simp only [show ("_persistence_length" = "_molecule") = False by decide,
      show ("_persistence_length" = "_parse_geometry") = False by decide,
      show ("_persistence_length" = "_rw_restriction") = False by decide,
      show ("_persistence_length" = "_distance_restraints") = False by decide, if_false, if_true, parsePers,
      Syn.tokens, Syn.sem]
    rw [tokAt_eq _ 0 m rfl, floatAt_eq _ 1 lp h rfl, intAt_eq _ 2 s rfl, intAt_eq _ 3 e rfl]
    rfl
  | templateHead w n =>
    simp only [Syn.method, parseBy]
    simp only [show ("_template" = "_molecule") = False by decide,
      show ("_template" = "_parse_geometry") = False by decide,
      show ("_template" = "_rw_restriction") = False by decide,
      show ("_template" = "_distance_restraints") = False by decide,
      show ("_template" = "_persistence_length") = False by decide, if_false, if_true, parseTemplateHead,
      Syn.tokens, Syn.sem]
    rw [tokAt_eq _ 1 n rfl]
    rfl
  | templateAtom n t pos =>
    simp only [Syn.method, parseBy]
    simp only [show ("_template_atoms" = "_molecule") = False by decide,
      show ("_template_atoms" = "_parse_geometry") = False by decide,
      show ("_template_atoms" = "_rw_restriction") = False by decide,
      show ("_template_atoms" = "_distance_restraints") = False by decide,
      show ("_template_atoms" = "_persistence_length") = False by decide,
      show ("_template_atoms" = "_template") = False by decide, if_false, if_true, parseTemplateAtom,
      Syn.tokens, Syn.sem]
    rw [tokAt_eq _ 0 n rfl, tokAt_eq _ 1 t rfl]
    have hdrop : ([n, t] ++ pos.map showDec).drop 2 = pos.map showDec := rfl
    simp only [hdrop, readFloats_show pos h]
    rfl
  | templateBond a b =>
    simp only [Syn.method, parseBy]
    simp only [show ("_template_bonds" = "_molecule") = False by decide,
      show ("_template_bonds" = "_parse_geometry") = False by decide,
      show ("_template_bonds" = "_rw_restriction") = False by decide,
      show ("_template_bonds" = "_distance_restraints") = False by decide,
      show ("_template_bonds" = "_persistence_length") = False by decide,
      show ("_template_bonds" = "_template") = False by decide,
      show ("_template_bonds" = "_template_atoms") = False by decide, if_false, if_true, parseTemplateBond,
      Syn.tokens, Syn.sem]
    rw [tokAt_eq _ 0 a rfl, tokAt_eq _ 1 b rfl]
    rfl
  | volume r v =>
    simp only [Syn.method, parseBy]
    simp only [show ("_volume" = "_molecule") = False by decide,
      show ("_volume" = "_parse_geometry") = False by decide,
      show ("_volume" = "_rw_restriction") = False by decide,
      show ("_volume" = "_distance_restraints") = False by decide,
      show ("_volume" = "_persistence_length") = False by decide,
      show ("_volume" = "_template") = False by decide,
      show ("_volume" = "_template_atoms") = False by decide,
      show ("_volume" = "_template_bonds") = False by decide, if_false, if_true, parseVolume,
      Syn.tokens, Syn.sem, readFloat_showDec v h, orErr]
    rfl
  | bending a b c k =>
    simp only [Syn.method, parseBy]
    simp only [show ("_bending" = "_molecule") = False by decide,
      show ("_bending" = "_parse_geometry") = False by decide,
      show ("_bending" = "_rw_restriction") = False by decide,
      show ("_bending" = "_distance_restraints") = False by decide,
      show ("_bending" = "_persistence_length") = False by decide,
      show ("_bending" = "_template") = False by decide,
      show ("_bending" = "_template_atoms") = False by decide,
      show ("_bending" = "_template_bonds") = False by decide,
      show ("_bending" = "_volume") = False by decide, if_false, if_true, parseBending,
      Syn.tokens, Syn.sem, readFloat_showDec k h, orErr]
    rfl

/-! ### tokenizer -/

theorem splitOnP_append (p : Char → Bool) (a rest : List Char) (c : Char) (h : ∀ x ∈ a, p x = false) (hc : p c = true) :
    splitOnP p (a ++ c :: rest) = a :: splitOnP p rest := by
  induction a with
  | nil => simp [splitOnP, hc]
  | cons x xs ih =>
    have hx : p x = false := h x List.mem_cons_self
    have := ih (fun y hy => h y (List.mem_cons_of_mem _ hy))
    simp [splitOnP, hx, this]

theorem splitOnP_noSep (p : Char → Bool) (a : List Char) (h : ∀ x ∈ a, p x = false) : splitOnP p a = [a] := by
  induction a with
  | nil => rfl
  | cons x xs ih =>
    have hx : p x = false := h x List.mem_cons_self
    have := ih (fun y hy => h y (List.mem_cons_of_mem _ hy))
    simp [splitOnP, hx, this]

def PlainTok (t : Tok) : Prop := t ≠ [] ∧ ∀ c ∈ t, isSep c = false

/-- `' '.join(tokens).split() == tokens` -/
theorem splitWs_join : ∀ (toks : List Tok), (∀ t ∈ toks, PlainTok t) → splitWs (joinToks toks) = toks
  | [], _ => by simp [joinToks, splitWs, splitOnP]
  | [t], h => by
    have ht := h t List.mem_cons_self
    have hne : t.isEmpty = false := by cases t with | nil => exact absurd rfl ht.1 | cons _ _ => rfl
    simp [joinToks, splitWs, splitOnP_noSep isSep t ht.2, hne]
  | t :: t2 :: rest, h => by
    have ht := h t List.mem_cons_self
    have hne : t.isEmpty = false := by cases t with | nil => exact absurd rfl ht.1 | cons _ _ => rfl
    have ih := splitWs_join (t2 :: rest) (fun x hx => h x (List.mem_cons_of_mem _ hx))
    unfold splitWs at ih ⊢
    simp only [joinToks]
    rw [splitOnP_append isSep t _ ' ' ht.2 (by decide)]
    simp only [List.filter_cons, hne, Bool.not_false, if_true, ih]

theorem mem_joinToks : ∀ (toks : List Tok) (c : Char), c ∈ joinToks toks → c = ' ' ∨ ∃ t ∈ toks, c ∈ t
  | [], c, h => by simp [joinToks] at h
  | [t], c, h => by right; exact ⟨t, List.mem_cons_self, by simpa [joinToks] using h⟩
  | t :: t2 :: rest, c, h => by
    simp only [joinToks, List.mem_append, List.mem_cons] at h
    rcases h with h | h | h
    · right; exact ⟨t, List.mem_cons_self, h⟩
    · left; exact h
    · rcases mem_joinToks (t2 :: rest) c h with h | ⟨u, hu, hc⟩
      · left; exact h
      · right; exact ⟨u, List.mem_cons_of_mem _ hu, hc⟩

theorem joinToks_head : ∀ (toks : List Tok) (c : Char) (cs : Tok), toks.head? = some (c :: cs) →
    ∃ r, joinToks toks = c :: r
  | [], _, _, h => by simp at h
  | [t], c, cs, h => by simp at h; subst h; exact ⟨cs, rfl⟩
  | t :: t2 :: rest, c, cs, h => by simp at h; subst h; exact ⟨_, rfl⟩

theorem joinToks_last : ∀ (toks : List Tok), toks ≠ [] → (∀ t ∈ toks, PlainTok t) →
    ∃ init c, joinToks toks = init ++ [c] ∧ isSep c = false
  | [], h, _ => absurd rfl h
  | [t], _, h => by
    have ht := h t List.mem_cons_self
    have hne := ht.1
    refine ⟨t.dropLast, t.getLast hne, ?_, ht.2 _ (List.getLast_mem hne)⟩
    simp [joinToks, List.dropLast_concat_getLast]
  | t :: t2 :: rest, _, h => by
    obtain ⟨init, c, he, hc⟩ := joinToks_last (t2 :: rest) (by simp) (fun x hx => h x (List.mem_cons_of_mem _ hx))
    refine ⟨t ++ ' ' :: init, c, ?_, hc⟩
    simp [joinToks, he]

theorem stripBy_id (p : Char → Bool) (c : Char) (cs init : List Char) (d : Char) (hc : p c = false) (hd : p d = false)
    (he : c :: cs = init ++ [d]) : stripBy p (c :: cs) = c :: cs := by
  unfold stripBy
  have h1 : (c :: cs).dropWhile p = c :: cs := by simp [List.dropWhile, hc]
  rw [h1, he]
  simp [List.dropWhile, hd]

theorem takeWhile_all (q : Char → Bool) (l : List Char) (h : ∀ x ∈ l, q x = true) : l.takeWhile q = l := by
  induction l with
  | nil => rfl
  | cons x xs ih =>
    simp [List.takeWhile, h x List.mem_cons_self, ih (fun y hy => h y (List.mem_cons_of_mem _ hy))]

/-- a written line — good tokens joined by single blanks, the first one not starting with `[` — is a data
line whose tokens are the tokens written -/
theorem line_tokens (toks : List Tok) (hne : toks ≠ []) (hgood : ∀ t ∈ toks, GoodTok t)
    (hfirst : ∀ cs, toks.head? ≠ some ('[' :: cs)) :
    beforeComment (joinToks toks) = joinToks toks ∧ (joinToks toks).isEmpty = false ∧
    isHeader (joinToks toks) = some false ∧ (joinToks toks).contains '$' = false ∧
    splitWs (joinToks toks) = toks := by
  have hplain : ∀ t ∈ toks, PlainTok t := fun t ht => ⟨(hgood t ht).1, fun c hc => ((hgood t ht).2 c hc).1⟩
  obtain ⟨t0, rest, rfl⟩ : ∃ t0 rest, toks = t0 :: rest := by
    cases toks with
    | nil => exact absurd rfl hne
    | cons a b => exact ⟨a, b, rfl⟩
  have ht0 := hgood t0 List.mem_cons_self
  obtain ⟨c, cs, rfl⟩ : ∃ c cs, t0 = c :: cs := by
    cases t0 with
    | nil => exact absurd rfl ht0.1
    | cons a b => exact ⟨a, b, rfl⟩
  obtain ⟨r, hr⟩ := joinToks_head ((c :: cs) :: rest) c cs rfl
  obtain ⟨init, d, hd, hdsep⟩ := joinToks_last ((c :: cs) :: rest) hne hplain
  have hcsep : isSep c = false := (ht0.2 c List.mem_cons_self).1
  have hcbr : c ≠ '[' := fun e => hfirst cs (by simp [e])
  have hnocomment : ∀ x ∈ joinToks ((c :: cs) :: rest), (x != BuildFileTables.commentChar) = true := by
    intro x hx
    rcases mem_joinToks _ _ hx with h | ⟨t, ht, hxt⟩
    · subst h; decide
    · have := ((hgood t ht).2 x hxt).2.1
      simp [this]
  have hnodollar : (joinToks ((c :: cs) :: rest)).contains '$' = false := by
    rw [Bool.eq_false_iff]
    intro hcon
    rw [List.contains_iff_mem] at hcon
    rcases mem_joinToks _ _ hcon with h | ⟨t, ht, hxt⟩
    · exact absurd h (by decide)
    · exact ((hgood t ht).2 _ hxt).2.2 rfl
  refine ⟨?_, ?_, ?_, hnodollar, splitWs_join _ hplain⟩
  · unfold beforeComment
    rw [takeWhile_all _ _ hnocomment, hr]
    exact stripBy_id isSep c r init d hcsep hdsep (by rw [← hr, hd])
  · rw [hr]; rfl
  · rw [hr]
    unfold isHeader
    split
    · rename_i heq; simp at heq; exact absurd heq.1 hcbr
    · rfl

/-- TEXT-level round trip of one line: in the section registered for its parser, the line the grammar writes
for a record is parsed to exactly that record — one event, nothing else changes -/
theorem stepLine_data (tbl : SecTable) (st : PState) (s : Syn) (hwf : s.wf) (hgood : ∀ t ∈ s.tokens, GoodTok t)
    (hfirst : ∀ cs, s.tokens.head? ≠ some ('[' :: cs)) (hsec : lookupSection tbl st.sec = some s.method) :
    stepLine tbl st (joinToks s.tokens) = .ok { st with events := st.events ++ [.data s.sem] } := by
  have hne : s.tokens ≠ [] := by
    cases s with
    | dist a b d t => cases t <;> simp [Syn.tokens]
    | _ => simp [Syn.tokens]
  obtain ⟨h1, h2, h3, h4, h5⟩ := line_tokens s.tokens hne hgood hfirst
  unfold stepLine
  simp only [h1, h2, h3, h4, h5, hsec, parse_tokens s hwf]
  rfl

/-! ### one table entry per line (on the `Line` level of `Model/BuildFile.lean`) -/

def inBlock (b : Block) (k : MKey) : Prop := k.1 = b.name ∧ b.lo ≤ k.2 ∧ k.2 < b.hi

instance (b : Block) (k : MKey) : Decidable (inBlock b k) := by unfold inBlock; infer_instance

theorem filter_block_events (b : Block) (d : ResDir) (k : MKey) :
    (((arange b.lo b.hi).map fun i => ((b.name, i), d)).filter (fun e => decide (e.1 = k))).map (·.2) =
      if inBlock b k then [d] else [] := by
  obtain ⟨kn, ki⟩ := k
  rw [List.filter_map, List.map_map]
  by_cases hn : kn = b.name
  · subst hn
    have : ((fun e : MKey × ResDir => decide (e.1 = (b.name, ki))) ∘ fun i => ((b.name, i), d)) =
        fun j => decide (j = ki) := by funext j; simp
    rw [this, filter_eq_arange]
    by_cases hr : b.lo ≤ ki ∧ ki < b.hi
    · simp [hr, inBlock]
    · have : ¬ inBlock b (b.name, ki) := fun h => hr h.2
      simp [hr, this]
  · have : ((fun e : MKey × ResDir => decide (e.1 = (kn, ki))) ∘ fun i => ((b.name, i), d)) = fun _ => false := by
      funext j; simp; intro h; exact absurd h.symm hn
    have hnot : ¬ inBlock b (kn, ki) := fun h => hn h.1
    simp [this, hnot]

/-- a geometry line appends exactly one entry — the line's definition — to the list of every `(name, idx)`
the block addresses, and touches nothing else -/
theorem geometry_one_entry (mols : List Mol) (b : Block) (dir dir' : Director) (d : ResDir)
    (h : parseLine mols b dir (.geometry d) = .ok dir') (k : MKey) :
    (lookup dir'.buildOptions k).getD [] = (lookup dir.buildOptions k).getD [] ++ (if inBlock b k then [d] else []) ∧
    dir'.rwOptions = dir.rwOptions ∧ dir'.dist = dir.dist ∧ dir'.pers = dir.pers := by
  have h1 := parseLine_buildOptions mols b dir dir' _ h
  have h2 := parseLine_rwOptions mols b dir dir' _ h
  have h3 := parseLine_pers mols b dir dir' _ h
  refine ⟨?_, by simpa [rwEvents] using h2, ?_, by simpa [persOf] using h3⟩
  · rw [h1, optEvents, lookup_fold_appendAt, filter_block_events]
  · simp only [parseLine, Except.ok.injEq] at h; subst h; rfl

/-- a `[ rw_restriction ]` line ASSIGNS the single slot of every `(name, idx)` the block addresses -/
theorem rw_one_entry (mols : List Mol) (b : Block) (dir dir' : Director) (d : ResDir)
    (h : parseLine mols b dir (.rw d) = .ok dir') (k : MKey) :
    lookup dir'.rwOptions k = (if inBlock b k then some d else lookup dir.rwOptions k) ∧
    dir'.buildOptions = dir.buildOptions ∧ dir'.dist = dir.dist ∧ dir'.pers = dir.pers := by
  have h1 := parseLine_buildOptions mols b dir dir' _ h
  have h2 := parseLine_rwOptions mols b dir dir' _ h
  have h3 := parseLine_pers mols b dir dir' _ h
  refine ⟨?_, by simpa [optEvents] using h1, ?_, by simpa [persOf] using h3⟩
  · rw [h2, rwEvents, lookup_fold_setAt, filter_block_events]
    by_cases hb : inBlock b k <;> simp [hb]
  · simp only [parseLine, Except.ok.injEq] at h; subst h; rfl

/-- a `[ persistence_length ]` line appends exactly one batch: the line's fields and the block's index list -/
theorem pers_one_entry (mols : List Mol) (b : Block) (dir dir' : Director) (s e p : Nat)
    (h : parseLine mols b dir (.pers s e p) = .ok dir') :
    dir'.pers = dir.pers ++ [(s, e, p, arange b.lo b.hi)] ∧
    dir'.buildOptions = dir.buildOptions ∧ dir'.rwOptions = dir.rwOptions ∧ dir'.dist = dir.dist := by
  simp only [parseLine, Except.ok.injEq] at h; subst h; exact ⟨rfl, rfl, rfl, rfl⟩

abbrev DistTbl := List (MKey × List ((Nat × Nat) × Nat))

def inner (t : DistTbl) (k : MKey) (ab : Nat × Nat) : Option Nat := lookup ((lookup t k).getD []) ab

theorem distOne_ok_iff (mols : List Mol) (name : String) (a c p : Nat) (t : DistTbl) (idx : Nat) :
    (∃ t', distOne mols name a c p t idx = .ok t') ↔ ∃ m, mols[idx]? = some m ∧ hasNode m a = true ∧ hasNode m c = true := by
  unfold distOne
  cases hm : mols[idx]? with
  | none => simp
  | some m =>
    by_cases h1 : hasNode m a = true <;> by_cases h2 : hasNode m c = true <;> simp [h1, h2]

theorem distOne_val (mols : List Mol) (name : String) (a c p : Nat) (t t' : DistTbl) (idx : Nat)
    (h : distOne mols name a c p t idx = .ok t') :
    t' = setAt t (name, idx) (setAt ((lookup t (name, idx)).getD []) (a, c) p) := by
  unfold distOne at h
  cases hm : mols[idx]? with
  | none => simp [hm] at h
  | some m =>
    simp only [hm] at h
    split at h
    · simp at h
    · simpa using h.symm

theorem dist_fold (mols : List Mol) (name : String) (a c p : Nat) : ∀ (idxs : List Nat) (t t' : DistTbl),
    idxs.foldlM (distOne mols name a c p) t = .ok t' → ∀ (k : MKey) (ab : Nat × Nat),
    inner t' k ab = if k.1 = name ∧ k.2 ∈ idxs ∧ ab = (a, c) then some p else inner t k ab := by
  intro idxs
  induction idxs with
  | nil => intro t t' h k ab; simp [List.foldlM, pure, Except.pure] at h; subst h; simp
  | cons i rest ih =>
    intro t t' h k ab
    rw [List.foldlM_cons] at h
    obtain ⟨t1, h1, h2⟩ := bind_ok _ _ _ h
    rw [ih t1 t' h2 k ab]
    have hv := distOne_val mols name a c p t t1 i h1
    have hstep : inner t1 k ab = if k = (name, i) ∧ ab = (a, c) then some p else inner t k ab := by
      subst hv
      unfold inner
      rw [lookup_setAt]
      by_cases hk : (name, i) = k
      · subst hk
        simp only [if_true, Option.getD_some, lookup_setAt]
        by_cases hab : (a, c) = ab
        · simp [hab]
        · have : ¬ ab = (a, c) := fun e => hab e.symm
          simp [hab, this]
      · have : ¬ k = (name, i) := fun e => hk e.symm
        simp [hk, this]
    rw [hstep]
    obtain ⟨kn, ki⟩ := k
    by_cases hn : kn = name <;> by_cases hab : ab = (a, c) <;> by_cases hi : ki = i <;> by_cases hr : ki ∈ rest <;>
      simp [hn, hab, hi, hr]
    all_goals (first | (subst hi; simp_all) | skip)

theorem dist_fold_ok_iff (mols : List Mol) (name : String) (a c p : Nat) : ∀ (idxs : List Nat) (t : DistTbl),
    (∃ t', idxs.foldlM (distOne mols name a c p) t = .ok t') ↔
      ∀ i ∈ idxs, ∃ m, mols[i]? = some m ∧ hasNode m a = true ∧ hasNode m c = true := by
  intro idxs
  induction idxs with
  | nil => intro t; simp [List.foldlM, pure, Except.pure]
  | cons i rest ih =>
    intro t
    constructor
    · rintro ⟨t', h⟩
      rw [List.foldlM_cons] at h
      obtain ⟨t1, h1, h2⟩ := bind_ok _ _ _ h
      intro j hj
      rcases List.mem_cons.mp hj with hj | hj
      · subst hj; exact (distOne_ok_iff mols name a c p t j).mp ⟨t1, h1⟩
      · exact (ih t1).mp ⟨t', h2⟩ j hj
    · intro hall
      obtain ⟨t1, h1⟩ := (distOne_ok_iff mols name a c p t i).mpr (hall i List.mem_cons_self)
      obtain ⟨t', h2⟩ := (ih t1).mpr (fun j hj => hall j (List.mem_cons_of_mem _ hj))
      exact ⟨t', by rw [List.foldlM_cons, h1]; exact h2⟩

/-- a `[ distance_restraints ]` line is accepted iff both nodes exist in EVERY molecule of the block's index
range (and every index of the range is a molecule) -/
theorem dist_line_ok_iff (mols : List Mol) (b : Block) (dir : Director) (a c p : Nat) :
    (∃ dir', parseLine mols b dir (.dist a c p) = .ok dir') ↔
      ∀ i, b.lo ≤ i → i < b.hi → ∃ m, mols[i]? = some m ∧ hasNode m a = true ∧ hasNode m c = true := by
  simp only [parseLine]
  constructor
  · rintro ⟨dir', h⟩ i h1 h2
    obtain ⟨t, ht, _⟩ := bind_ok _ _ _ h
    exact (dist_fold_ok_iff mols b.name a c p _ _).mp ⟨t, ht⟩ i ((mem_arange _ _ _).mpr ⟨h1, h2⟩)
  · intro hall
    obtain ⟨t, ht⟩ := (dist_fold_ok_iff mols b.name a c p (arange b.lo b.hi) dir.dist).mpr
      (fun i hi => hall i ((mem_arange _ _ _).mp hi).1 ((mem_arange _ _ _).mp hi).2)
    exact ⟨{ dir with dist := t }, by rw [ht]; rfl⟩

/-- … and then stores exactly one entry `(a, b) ↦ line` under every `(name, idx)` the block addresses -/
theorem dist_one_entry (mols : List Mol) (b : Block) (dir dir' : Director) (a c p : Nat)
    (h : parseLine mols b dir (.dist a c p) = .ok dir') (k : MKey) (ab : Nat × Nat) :
    inner dir'.dist k ab = (if inBlock b k ∧ ab = (a, c) then some p else inner dir.dist k ab) ∧
    dir'.buildOptions = dir.buildOptions ∧ dir'.rwOptions = dir.rwOptions ∧ dir'.pers = dir.pers := by
  have h1 := parseLine_buildOptions mols b dir dir' _ h
  have h2 := parseLine_rwOptions mols b dir dir' _ h
  have h3 := parseLine_pers mols b dir dir' _ h
  refine ⟨?_, by simpa [optEvents] using h1, by simpa [rwEvents] using h2, by simpa [persOf] using h3⟩
  simp only [parseLine] at h
  obtain ⟨t, ht, hr⟩ := bind_ok _ _ _ h
  simp only [pure, Except.pure, Except.ok.injEq] at hr
  subst hr
  rw [dist_fold mols b.name a c p _ _ _ ht k ab]
  simp only [inBlock, mem_arange, and_assoc]

/-! ### the section machine -/

/-- `parse_header`: the new section is the LONGEST prefix of the current section under which the header is
registered, followed by the header; the header alone if there is no such prefix -/
theorem resolveRev_spec (tbl : SecTable) (h : String) : ∀ (rev : List String),
    ∃ k, k ≤ rev.length ∧ resolveRev tbl h rev = (rev.drop k).reverse ++ [h] ∧
      (k < rev.length → known tbl ((rev.drop k).reverse ++ [h]) = true) ∧
      ∀ j, j < k → known tbl ((rev.drop j).reverse ++ [h]) = false := by
  intro rev
  induction rev with
  | nil => exact ⟨0, by simp, by simp [resolveRev], by simp, by simp⟩
  | cons r rest ih =>
    by_cases hk : known tbl ((r :: rest).reverse ++ [h]) = true
    · refine ⟨0, by simp, ?_, fun _ => by simpa using hk, by simp⟩
      simp only [resolveRev, hk, if_true, List.drop_zero]
    · obtain ⟨k, hk1, hk2, hk3, hk4⟩ := ih
      refine ⟨k + 1, by simp; omega, ?_, ?_, ?_⟩
      · simp only [resolveRev, hk, List.drop_succ_cons]
        simpa using hk2
      · intro hlt; simp only [List.drop_succ_cons]; exact hk3 (by simpa using hlt)
      · intro j hj
        cases j with
        | zero => simpa using hk
        | succ j => simp only [List.drop_succ_cons]; exact hk4 j (by omega)

/-! ### distance restraints: what IS stored (the last line written for a molecule and a pair of nodes) -/

abbrev DistEv := (MKey × (Nat × Nat)) × Nat

/-- the assignments one line causes on `topology.distance_restraints` -/
def distEventsLine (b : Block) : Line → List DistEv
  | .dist a c p => (arange b.lo b.hi).map fun i => (((b.name, i), (a, c)), p)
  | _ => []

def distEvents (blocks : List Block) : List DistEv := blocks.flatMap fun b => b.lines.flatMap (distEventsLine b)

/-- the payload of the LAST assignment to `[(name, idx)][(a, b)]` -/
def lastFor (evs : List DistEv) (k : MKey) (ab : Nat × Nat) : Option Nat :=
  ((evs.filter (fun e => decide (e.1 = (k, ab)))).map (·.2)).getLast?

theorem lastFor_append (e1 e2 : List DistEv) (k : MKey) (ab : Nat × Nat) :
    lastFor (e1 ++ e2) k ab = (lastFor e2 k ab).or (lastFor e1 k ab) := by
  unfold lastFor
  rw [List.filter_append, List.map_append, List.getLast?_append]

theorem getLast?_const {α} (L : List α) (p : α) (hne : L ≠ []) (h : ∀ x ∈ L, x = p) : L.getLast? = some p := by
  rw [List.getLast?_eq_some_getLast hne]
  exact congrArg some (h _ (List.getLast_mem hne))

theorem lastFor_line (b : Block) (a c p : Nat) (k : MKey) (ab : Nat × Nat) :
    lastFor (distEventsLine b (.dist a c p)) k ab = if inBlock b k ∧ ab = (a, c) then some p else none := by
  unfold lastFor distEventsLine
  by_cases hc : inBlock b k ∧ ab = (a, c)
  · simp only [hc, and_self, if_true]
    obtain ⟨⟨h1, h2, h3⟩, h4⟩ := hc
    subst h4
    apply getLast?_const
    · intro hnil
      have hmem : (((b.name, k.2), (a, c)), p) ∈ ((arange b.lo b.hi).map fun i => (((b.name, i), (a, c)), p)) :=
        List.mem_map.mpr ⟨k.2, (mem_arange _ _ _).mpr ⟨h2, h3⟩, rfl⟩
      have : p ∈ (((arange b.lo b.hi).map fun i => (((b.name, i), (a, c)), p)).filter
          (fun e : DistEv => decide (e.1 = (k, (a, c))))).map (·.2) := by
        refine List.mem_map.mpr ⟨_, List.mem_filter.mpr ⟨hmem, ?_⟩, rfl⟩
        obtain ⟨kn, ki⟩ := k
        simp only at h1
        simp [h1]
      rw [hnil] at this
      simp at this
    · intro x hx
      obtain ⟨e, he, rfl⟩ := List.mem_map.mp hx
      obtain ⟨he, _⟩ := List.mem_filter.mp he
      obtain ⟨i, _, rfl⟩ := List.mem_map.mp he
      rfl
  · simp only [hc, if_false]
    have : ((arange b.lo b.hi).map fun i => (((b.name, i), (a, c)), p)).filter
        (fun e : DistEv => decide (e.1 = (k, ab))) = [] := by
      rw [List.filter_eq_nil_iff]
      intro e he
      obtain ⟨i, hi, rfl⟩ := List.mem_map.mp he
      simp only [decide_eq_true_eq]
      intro heq
      apply hc
      obtain ⟨kn, ki⟩ := k
      simp only [Prod.mk.injEq] at heq
      obtain ⟨⟨rfl, rfl⟩, rfl⟩ := heq
      exact ⟨⟨rfl, (mem_arange _ _ _).mp hi⟩, rfl⟩
    simp [this]

theorem parseLine_dist_last (mols : List Mol) (b : Block) (dir dir' : Director) (l : Line)
    (h : parseLine mols b dir l = .ok dir') (k : MKey) (ab : Nat × Nat) :
    inner dir'.dist k ab = (lastFor (distEventsLine b l) k ab).or (inner dir.dist k ab) := by
  cases l with
  | geometry d => simp only [parseLine, Except.ok.injEq] at h; subst h; simp [distEventsLine, lastFor]
  | rw d => simp only [parseLine, Except.ok.injEq] at h; subst h; simp [distEventsLine, lastFor]
  | pers s e p => simp only [parseLine, Except.ok.injEq] at h; subst h; simp [distEventsLine, lastFor]
  | dist a c p =>
    rw [(dist_one_entry mols b dir dir' a c p h k ab).1, lastFor_line]
    by_cases hc : inBlock b k ∧ ab = (a, c) <;> simp [hc]

theorem foldlM_last {σ ι} (f : σ → ι → Except String σ) (val : σ → Option Nat) (ev : ι → List DistEv)
    (k : MKey) (ab : Nat × Nat)
    (hstep : ∀ s x s', f s x = .ok s' → val s' = (lastFor (ev x) k ab).or (val s)) :
    ∀ (l : List ι) (s s' : σ), l.foldlM f s = .ok s' → val s' = (lastFor (l.flatMap ev) k ab).or (val s) := by
  intro l
  induction l with
  | nil => intro s s' h; simp [List.foldlM, pure, Except.pure] at h; subst h; simp [lastFor]
  | cons x rest ih =>
    intro s s' h
    rw [List.foldlM_cons] at h
    obtain ⟨s1, h1, h2⟩ := bind_ok _ _ _ h
    rw [ih s1 s' h2, hstep s x s1 h1, List.flatMap_cons, lastFor_append]
    cases lastFor (rest.flatMap ev) k ab <;> simp

/-- EXACT content of `topology.distance_restraints` after an accepted build file: under `(name, idx)` and the
node pair `(a, b)` stands the LAST `[ distance_restraints ]` line written for that pair in a block called `name`
whose range contains `idx` — nothing else (`none` when there is no such line) -/
theorem parseBlocks_dist_last (mols : List Mol) (blocks : List Block) (dir : Director)
    (h : parseBlocks mols blocks = .ok dir) (k : MKey) (ab : Nat × Nat) :
    inner dir.dist k ab = lastFor (distEvents blocks) k ab := by
  have := foldlM_last (parseBlock mols) (fun d => inner d.dist k ab) (fun b => b.lines.flatMap (distEventsLine b)) k ab
    (fun s b s' hs => foldlM_last (parseLine mols b) (fun d => inner d.dist k ab) (distEventsLine b) k ab
      (fun d l d' hl => parseLine_dist_last mols b d d' l hl k ab) b.lines s s' hs) blocks {} dir h
  rw [this]
  simp [inner, lookup, distEvents]

theorem lookup_of_mem_nodup {κ α : Type} [DecidableEq κ] (t : List (κ × α)) (h : (t.map (·.1)).Nodup) (k : κ) (v : α)
    (hm : (k, v) ∈ t) : lookup t k = some v := by
  induction t with
  | nil => simp at hm
  | cons e rest ih =>
    obtain ⟨k0, v0⟩ := e
    simp only [List.map_cons, List.nodup_cons] at h
    rcases List.mem_cons.mp hm with he | he
    · simp only [Prod.mk.injEq] at he
      obtain ⟨rfl, rfl⟩ := he
      simp [lookup]
    · have hne : k0 ≠ k := fun e => h.1 (e ▸ List.mem_map.mpr ⟨(k, v), he, rfl⟩)
      simp [lookup, hne, ih h.2 he]

def DistNodup (t : DistTbl) : Prop := (t.map (·.1)).Nodup ∧ ∀ e ∈ t, (e.2.map (·.1)).Nodup

theorem distOne_nodup (mols : List Mol) (name : String) (a c p : Nat) (t t' : DistTbl) (idx : Nat)
    (ht : DistNodup t) (h : distOne mols name a c p t idx = .ok t') : DistNodup t' := by
  have hv := distOne_val mols name a c p t t' idx h
  subst hv
  refine ⟨setAt_keys_nodup _ _ _ ht.1, ?_⟩
  intro e he
  rcases mem_setAt _ _ _ _ he with he | he
  · exact ht.2 e he
  · subst he
    apply setAt_keys_nodup
    cases hl : lookup t (name, idx) with
    | none => simp
    | some old => exact ht.2 _ (lookup_mem _ _ _ hl)

theorem parseLine_dist_nodup (mols : List Mol) (b : Block) (dir dir' : Director) (l : Line)
    (ht : DistNodup dir.dist) (h : parseLine mols b dir l = .ok dir') : DistNodup dir'.dist := by
  cases l with
  | geometry d => simp only [parseLine, Except.ok.injEq] at h; subst h; exact ht
  | rw d => simp only [parseLine, Except.ok.injEq] at h; subst h; exact ht
  | pers s e p => simp only [parseLine, Except.ok.injEq] at h; subst h; exact ht
  | dist a c p =>
    simp only [parseLine] at h
    obtain ⟨t, hfold, hr⟩ := bind_ok _ _ _ h
    simp only [pure, Except.pure, Except.ok.injEq] at hr
    subst hr
    exact foldlM_inv (distOne mols b.name a c p) DistNodup (arange b.lo b.hi)
      (fun s x s' _ hs hstep => distOne_nodup mols b.name a c p s s' x hs hstep) dir.dist t ht hfold

theorem parseBlocks_dist_nodup (mols : List Mol) (blocks : List Block) (dir : Director)
    (h : parseBlocks mols blocks = .ok dir) : DistNodup dir.dist := by
  refine foldlM_inv (parseBlock mols) (fun d => DistNodup d.dist) blocks ?_ {} dir ?_ h
  · intro s b s' _ hs hstep
    exact foldlM_inv (parseLine mols b) (fun d => DistNodup d.dist) b.lines
      (fun d l d' _ hd hstep' => parseLine_dist_nodup mols b d d' l hd hstep') s s' hs hstep
  · exact ⟨by simp, by simp⟩

/-- the distance restraints `set_restraints` applies are exactly the last-written ones -/
theorem distApplied_iff (mols : List Mol) (blocks : List Block) (dir : Director)
    (h : parseBlocks mols blocks = .ok dir) (i a c p : Nat) :
    (i, a, c, p) ∈ distApplied dir ↔ ∃ name, lastFor (distEvents blocks) (name, i) (a, c) = some p := by
  have hnd := parseBlocks_dist_nodup mols blocks dir h
  constructor
  · intro hin
    obtain ⟨name, inn, hk, hq⟩ := mem_distApplied dir i a c p hin
    refine ⟨name, ?_⟩
    rw [← parseBlocks_dist_last mols blocks dir h]
    unfold inner
    rw [lookup_of_mem_nodup _ hnd.1 _ _ hk]
    exact lookup_of_mem_nodup _ (hnd.2 _ hk) _ _ hq
  · rintro ⟨name, hl⟩
    rw [← parseBlocks_dist_last mols blocks dir h] at hl
    unfold inner at hl
    cases hlk : lookup dir.dist (name, i) with
    | none => simp [hlk, lookup] at hl
    | some inn =>
      simp only [hlk, Option.getD_some] at hl
      unfold distApplied
      rw [List.mem_flatMap]
      exact ⟨((name, i), inn), lookup_mem _ _ _ hlk, List.mem_map.mpr ⟨((a, c), p), lookup_mem _ _ _ hl, rfl⟩⟩

/-! ### `[ volumes ]` / `[ bending ]`: the last line written wins -/

def volumeEvents (evs : List Event) : List (String × Rat) :=
  evs.filterMap fun | .data (.volume r v) => some (r, v) | _ => none

theorem volumesOf_fold (evs : List Event) : ∀ t : List (String × Rat),
    evs.foldl volStep t = (volumeEvents evs).foldl (fun t e => setAt t e.1 e.2) t := by
  induction evs with
  | nil => intro t; rfl
  | cons e rest ih =>
    intro t
    cases e with
    | endTemplate => simpa [volumeEvents, volStep] using ih t
    | data r =>
      cases r <;> first | (simpa [volumeEvents, volStep] using ih t) | (simp only [List.foldl_cons, volumeEvents, volStep, List.filterMap_cons]; exact ih _)

/-- the size stored for a residue name is the value of the LAST `[ volumes ]` line written for it -/
theorem volumesOf_lookup (evs : List Event) (r : String) :
    lookup (volumesOf evs) r = (((volumeEvents evs).filter (fun e => decide (e.1 = r))).map (·.2)).getLast? := by
  unfold volumesOf
  rw [volumesOf_fold, lookup_refold]

/-! ### templates -/

def atomEv (a : TAtom) : Event := .data (.templateAtom a.name a.atype a.pos)
def bondEv (b : String × String) : Event := .data (.templateBond b.1 b.2)

/-- a complete `[ template ]` block as events: `resname <name>`, the atom lines, the bond lines, and the end
of the `[ bonds ]` section -/
def templateBlockEvents (name : String) (atoms : List TAtom) (bonds : List (String × String)) : List Event :=
  [.data (.templateHead name)] ++ atoms.map atomEv ++ bonds.map bondEv ++ [.endTemplate]

theorem atoms_fold (name : String) (done : List TemplateDef) (bs : List (String × String)) : ∀ (atoms as0 : List TAtom),
    (atoms.map atomEv).foldlM templateStep { cur := some ⟨name, as0, bs⟩, done := done } =
      .ok { cur := some ⟨name, atoms.foldl setAtom as0, bs⟩, done := done } := by
  intro atoms
  induction atoms with
  | nil => intro as0; rfl
  | cons a rest ih =>
    intro as0
    simp only [List.map_cons, List.foldlM_cons, atomEv, templateStep, List.foldl_cons]
    exact ih _

theorem bonds_fold (name : String) (done : List TemplateDef) (as0 : List TAtom) : ∀ (bonds bs : List (String × String)),
    (bonds.map bondEv).foldlM templateStep { cur := some ⟨name, as0, bs⟩, done := done } =
      .ok { cur := some ⟨name, as0, bs ++ bonds⟩, done := done } := by
  intro bonds
  induction bonds with
  | nil => intro bs; simp [List.foldlM, pure, Except.pure]
  | cons b rest ih =>
    intro bs
    simp only [List.map_cons, List.foldlM_cons, bondEv, templateStep]
    rw [show (Except.ok ({ cur := some ⟨name, as0, bs ++ [(b.1, b.2)]⟩, done := done } : TState) >>= fun s =>
          (rest.map bondEv).foldlM templateStep s) =
        (rest.map bondEv).foldlM templateStep { cur := some ⟨name, as0, bs ++ [(b.1, b.2)]⟩, done := done } from rfl]
    rw [ih]
    simp

/-- A complete template block stores exactly ONE template: the residue name written, the atoms written (in
order; a repeated atom name keeps its place and takes the later line), the bonds written. -/
theorem template_block (st : TState) (name : String) (atoms : List TAtom) (bonds : List (String × String))
    (hok : templateOk ⟨name, atoms.foldl setAtom [], bonds⟩ = true) :
    (templateBlockEvents name atoms bonds).foldlM templateStep st =
      .ok { cur := none, done := st.done ++ [⟨name, atoms.foldl setAtom [], bonds⟩] } := by
  unfold templateBlockEvents
  rw [List.foldlM_append, List.foldlM_append, List.foldlM_append]
  simp only [List.foldlM_cons, List.foldlM_nil, templateStep]
  have h1 := atoms_fold name st.done [] atoms []
  have h2 := bonds_fold name st.done (atoms.foldl setAtom []) bonds []
  simp only [List.nil_append] at h2
  simp only [bind, Except.bind, pure, Except.pure] at *
  rw [h1]
  simp only
  rw [h2]
  simp [hok]

theorem setAtom_fold_distinct : ∀ (atoms acc : List TAtom), ((acc ++ atoms).map (·.name)).Nodup →
    atoms.foldl setAtom acc = acc ++ atoms := by
  intro atoms
  induction atoms with
  | nil => intro acc _; simp
  | cons a rest ih =>
    intro acc h
    have hset : setAtom acc a = acc ++ [a] := by
      have hnot : ∀ x ∈ acc, x.name ≠ a.name := by
        intro x hx e
        rw [List.map_append, List.nodup_append] at h
        exact h.2.2 _ (List.mem_map.mpr ⟨x, hx, rfl⟩) _ (List.mem_map.mpr ⟨a, List.mem_cons_self, rfl⟩) e
      clear h ih
      induction acc with
      | nil => rfl
      | cons y ys ihy =>
        have := hnot y List.mem_cons_self
        simp [setAtom, this, ihy (fun x hx => hnot x (List.mem_cons_of_mem _ hx))]
    simp only [List.foldl_cons, hset]
    rw [ih (acc ++ [a]) (by simpa using h)]
    simp

/-- with pairwise different atom names the stored atoms are exactly the lines written -/
theorem template_block_distinct (atoms : List TAtom) (h : (atoms.map (·.name)).Nodup) : atoms.foldl setAtom [] = atoms := by
  simpa using setAtom_fold_distinct atoms [] (by simpa using h)

/-- (the known finding `template-without-bonds-ignored`, as a theorem about the code's behaviour) whatever
template lines are read: as long as no `[ bonds ]` section ends, nothing is stored -/
theorem template_without_bonds_dropped : ∀ (evs : List Event) (st st' : TState), (∀ e ∈ evs, e ≠ .endTemplate) →
    evs.foldlM templateStep st = .ok st' → st'.done = st.done := by
  intro evs
  induction evs with
  | nil => intro st st' _ h; simp [List.foldlM, pure, Except.pure] at h; subst h; rfl
  | cons e rest ih =>
    intro st st' hne h
    rw [List.foldlM_cons] at h
    obtain ⟨s1, h1, h2⟩ := bind_ok _ _ _ h
    rw [ih s1 st' (fun x hx => hne x (List.mem_cons_of_mem _ hx)) h2]
    cases e with
    | endTemplate => exact absurd rfl (hne _ List.mem_cons_self)
    | data r =>
      cases r <;> simp only [templateStep] at h1
      all_goals first
        | (simp only [Except.ok.injEq] at h1; subst h1; rfl)
        | (cases hc : st.cur <;> simp [hc] at h1; subst h1; rfl)

/-! ### numerals are good tokens: the line-level round trip needs hypotheses on the NAMES only -/

def NumChar (c : Char) : Prop := c = '-' ∨ c = '.' ∨ ∃ d, d < 10 ∧ c = digitChar d

theorem numChar_good (c : Char) (h : NumChar c) :
    isSep c = false ∧ c ≠ BuildFileTables.commentChar ∧ c ≠ '$' ∧ c ≠ '[' := by
  have hcc : BuildFileTables.commentChar = ';' := rfl
  rw [hcc]
  rcases h with rfl | rfl | ⟨d, hd, rfl⟩
  · decide
  · decide
  · have := digitChar_facts d hd
    exact ⟨this.2.2.2.2.2.2, this.2.2.2.2.2.1, this.2.2.2.2.1, this.2.2.2.1⟩

theorem showNat_numChars (n : Nat) : ∀ c ∈ showNat n, NumChar c :=
  fun c hc => Or.inr (Or.inr (showNat_chars n c hc))

theorem showInt_numChars (z : Int) : showInt z ≠ [] ∧ ∀ c ∈ showInt z, NumChar c := by
  unfold showInt
  by_cases hz : z < 0
  · simp only [hz, if_true]
    refine ⟨by simp, ?_⟩
    intro c hc
    rcases List.mem_cons.mp hc with rfl | hc
    · exact Or.inl rfl
    · exact showNat_numChars _ c hc
  · simp only [hz, if_false]
    exact ⟨showNat_ne_nil _, showNat_numChars _⟩

theorem showDec_numChars (d : Dec) (h : d.wf) : showDec d ≠ [] ∧ ∀ c ∈ showDec d, NumChar c := by
  obtain ⟨neg, ip, fp⟩ := d
  unfold showDec
  constructor
  · have := showNat_ne_nil ip
    cases neg <;> simp [this]
  · intro c hc
    simp only [List.mem_append] at hc
    rcases hc with (hc | hc) | hc
    · cases neg <;> simp at hc
      exact Or.inl hc
    · exact showNat_numChars _ c hc
    · cases fp with
      | none => simp [fracChars] at hc
      | some ds =>
        simp only [fracChars, List.mem_cons, List.mem_map] at hc
        rcases hc with rfl | ⟨x, hx, rfl⟩
        · exact Or.inr (Or.inl rfl)
        · exact Or.inr (Or.inr ⟨x, h x (by simpa using hx), rfl⟩)

theorem goodTok_of_numChars (t : Tok) (h : t ≠ [] ∧ ∀ c ∈ t, NumChar c) : GoodTok t ∧ ∀ cs, t ≠ '[' :: cs := by
  refine ⟨⟨h.1, fun c hc => ?_⟩, ?_⟩
  · have := numChar_good c (h.2 c hc)
    exact ⟨this.1, this.2.1, this.2.2.1⟩
  · intro cs e
    have := numChar_good '[' (h.2 '[' (by rw [e]; exact List.mem_cons_self))
    exact this.2.2.2 rfl

theorem decs_good (ds : List Dec) (h : decsWf ds) : ∀ t ∈ ds.map showDec, NameTok t := by
  intro t ht
  obtain ⟨d, hd, rfl⟩ := List.mem_map.mp ht
  exact goodTok_of_numChars _ (showDec_numChars d (h d hd))

theorem tokens_nameTok (s : Syn) (hwf : s.wf) (hn : ∀ t ∈ s.names, NameTok t) : ∀ t ∈ s.tokens, NameTok t := by
  have D : ∀ d : Dec, d.wf → NameTok (showDec d) := fun d hd => goodTok_of_numChars _ (showDec_numChars d hd)
  have I : ∀ z : Int, NameTok (showInt z) := fun z => goodTok_of_numChars _ (showInt_numChars z)
  cases s with
  | molecule n lo hi =>
    obtain ⟨h1, h2⟩ := hwf
    intro t ht
    simp only [Syn.tokens, List.mem_cons, List.not_mem_nil, or_false] at ht
    rcases ht with rfl | rfl | rfl
    · exact hn _ (by simp [Syn.names])
    · exact D _ h1
    · exact D _ h2
  | geometry k r s e io x y z ps =>
    obtain ⟨h1, h2, h3, h4, h5, h6⟩ := hwf
    intro t ht
    simp only [Syn.tokens, List.mem_append, List.mem_cons, List.not_mem_nil, or_false] at ht
    rcases ht with (rfl | rfl | rfl | rfl | rfl | rfl | rfl) | ht
    · exact hn _ (by simp [Syn.names])
    · exact D _ h1
    · exact D _ h2
    · exact hn _ (by simp [Syn.names])
    · exact D _ h3
    · exact D _ h4
    · exact D _ h5
    · exact decs_good ps h6 t ht
  | rw r s e x y z a =>
    obtain ⟨h1, h2, h3, h4⟩ := hwf
    intro t ht
    simp only [Syn.tokens, List.mem_cons, List.not_mem_nil, or_false] at ht
    rcases ht with rfl | rfl | rfl | rfl | rfl | rfl | rfl
    · exact hn _ (by simp [Syn.names])
    · exact I _
    · exact I _
    · exact D _ h1
    · exact D _ h2
    · exact D _ h3
    · exact D _ h4
  | dist a b d t =>
    cases t with
    | none =>
      have h1 : d.wf := hwf
      intro t ht
      simp only [Syn.tokens, List.mem_cons, List.not_mem_nil, or_false] at ht
      rcases ht with rfl | rfl | rfl
      · exact I _
      · exact I _
      · exact D _ h1
    | some t' =>
      obtain ⟨h1, h2⟩ : d.wf ∧ t'.wf := hwf
      intro t ht
      simp only [Syn.tokens, List.mem_cons, List.not_mem_nil, or_false] at ht
      rcases ht with rfl | rfl | rfl | rfl
      · exact I _
      · exact I _
      · exact D _ h1
      · exact D _ h2
  | pers m lp s e =>
    intro t ht
    simp only [Syn.tokens, List.mem_cons, List.not_mem_nil, or_false] at ht
    rcases ht with rfl | rfl | rfl | rfl
    · exact hn _ (by simp [Syn.names])
    · exact D _ hwf
    · exact I _
    · exact I _
  | templateHead w n =>
    intro t ht
    simp only [Syn.tokens, List.mem_cons, List.not_mem_nil, or_false] at ht
    rcases ht with rfl | rfl <;> exact hn _ (by simp [Syn.names])
  | templateAtom n ty pos =>
    intro t ht
    simp only [Syn.tokens, List.mem_append, List.mem_cons, List.not_mem_nil, or_false] at ht
    rcases ht with (rfl | rfl) | ht
    · exact hn _ (by simp [Syn.names])
    · exact hn _ (by simp [Syn.names])
    · exact decs_good pos hwf t ht
  | templateBond a b =>
    intro t ht
    simp only [Syn.tokens, List.mem_cons, List.not_mem_nil, or_false] at ht
    rcases ht with rfl | rfl <;> exact hn _ (by simp [Syn.names])
  | volume r v =>
    intro t ht
    simp only [Syn.tokens, List.mem_cons, List.not_mem_nil, or_false] at ht
    rcases ht with rfl | rfl
    · exact hn _ (by simp [Syn.names])
    · exact D _ hwf
  | bending a b c k =>
    intro t ht
    simp only [Syn.tokens, List.mem_cons, List.not_mem_nil, or_false] at ht
    rcases ht with rfl | rfl | rfl | rfl
    · exact hn _ (by simp [Syn.names])
    · exact hn _ (by simp [Syn.names])
    · exact hn _ (by simp [Syn.names])
    · exact D _ hwf

/-- TEXT-level round trip with hypotheses on the names only: every name is a non-empty word without white
space, comment character or `$`, not starting with `[`; every decimal literal has digits after the point -/
theorem stepLine_data_names (tbl : SecTable) (st : PState) (s : Syn) (hwf : s.wf) (hn : ∀ t ∈ s.names, NameTok t)
    (hsec : lookupSection tbl st.sec = some s.method) :
    stepLine tbl st (joinToks s.tokens) = .ok { st with events := st.events ++ [.data s.sem] } := by
  have hall := tokens_nameTok s hwf hn
  refine stepLine_data tbl st s hwf (fun t ht => (hall t ht).1) ?_ hsec
  intro cs hhead
  cases hs : s.tokens with
  | nil => simp [hs] at hhead
  | cons t0 rest =>
    rw [hs] at hhead
    simp only [List.head?_cons, Option.some.injEq] at hhead
    exact (hall t0 (by rw [hs]; exact List.mem_cons_self)).2 cs hhead

/-! ### `-start`: what the code selects, without any hypothesis (an index, when written, decides alone) -/

/-- the molecules a `-start` specification reaches in the code: the index if one is written (the name is
then not looked at), otherwise every molecule of the name written -/
def codeAddresses (mols : List Mol) (sp : Spec) (i : Nat) : Bool :=
  match sp.molIdx with
  | some j => decide (j = i)
  | none => match sp.molname with
    | some n => decide ((mols[i]?.map (·.name)) = some n)
    | none => false

def codeStart (mols : List Mol) (specs : List Spec) : List (Option Nat) :=
  mols.zipIdx.map fun (m, i) =>
    ((specs.filter (codeAddresses mols · i)).getLast?).bind fun sp => (findNodes m sp).head?

theorem startOne_code (mols : List Mol) (sp : Spec) (st st' : List (Option Nat)) (hlen : st.length = mols.length)
    (h : startOne mols st sp = .ok st') :
    st'.length = mols.length ∧ ∀ i m, mols[i]? = some m →
      st'[i]? = if codeAddresses mols sp i = true then some ((findNodes m sp).head?) else st[i]? := by
  unfold startOne at h
  cases hidx : sp.molIdx with
  | some i0 =>
    simp only [hidx] at h
    cases hm0 : mols[i0]? with
    | none => simp [hm0] at h
    | some m0 =>
      simp only [hm0] at h
      cases hf : findNodes m0 sp with
      | nil => simp [hf] at h
      | cons k0 ks =>
        simp only [hf, Except.ok.injEq] at h
        subst h
        refine ⟨by rw [List.length_set]; exact hlen, ?_⟩
        intro i m hm
        have hi0 : i0 < st.length := by rw [hlen]; exact (List.getElem?_eq_some_iff.mp hm0).1
        by_cases hi : i0 = i
        · subst hi
          rw [hm0] at hm; cases hm
          have haddr : codeAddresses mols sp i0 = true := by simp [codeAddresses, hidx]
          simp [haddr, List.getElem?_set, hi0, hf]
        · have haddr : codeAddresses mols sp i = false := by simp [codeAddresses, hidx, hi]
          simp [haddr, List.getElem?_set, hi]
  | none =>
    simp only [hidx] at h
    cases hnm : sp.molname with
    | none => simp [hnm] at h
    | some name =>
      simp only [hnm] at h
      have hfold : (mols.zipIdx 0).foldlM (startStep name sp) st = .ok st' := h
      obtain ⟨hl, hj⟩ := startStep_fold name sp mols 0 st st' hfold
      refine ⟨by rw [hl, hlen], ?_⟩
      intro i m hm
      rw [hj i]
      simp only [Nat.sub_zero, hm, Nat.zero_le, true_and]
      have hi : i < st.length := by rw [hlen]; exact (List.getElem?_eq_some_iff.mp hm).1
      unfold codeAddresses
      by_cases hn : m.name = name <;> simp [hidx, hnm, hm, hn, hi]

theorem start_fold_code (mols : List Mol) (specs : List Spec) : ∀ (init st : List (Option Nat)),
    init.length = mols.length → specs.foldlM (startOne mols) init = .ok st →
    st.length = mols.length ∧ ∀ i m, mols[i]? = some m →
      st[i]? = match (specs.filter (codeAddresses mols · i)).getLast? with
        | some sp => some ((findNodes m sp).head?)
        | none => init[i]? := by
  induction specs with
  | nil =>
    intro init st hlen h
    simp only [List.foldlM_nil, pure, Except.pure, Except.ok.injEq] at h
    subst h
    exact ⟨hlen, fun i m _ => by simp⟩
  | cons sp rest ih =>
    intro init st hlen h
    rw [List.foldlM_cons] at h
    obtain ⟨st1, h1, h2⟩ := bind_ok _ _ _ h
    obtain ⟨l1, s1⟩ := startOne_code mols sp init st1 hlen h1
    obtain ⟨l2, s2⟩ := ih st1 st l1 h2
    refine ⟨l2, ?_⟩
    intro i m hm
    rw [s2 i m hm, s1 i m hm]
    by_cases ha : codeAddresses mols sp i = true
    · have hf : (sp :: rest).filter (codeAddresses mols · i) = sp :: rest.filter (codeAddresses mols · i) := by
        simp [List.filter_cons, ha]
      rw [hf, List.getLast?_cons]
      cases hr : (rest.filter (codeAddresses mols · i)).getLast? with
      | none => simp [ha]
      | some sp' => simp
    · have hf : (sp :: rest).filter (codeAddresses mols · i) = rest.filter (codeAddresses mols · i) := by
        simp [List.filter_cons, ha]
      rw [hf]
      simp only [ha, Bool.false_eq_true, if_false]

/-- `-start`, for EVERY accepted list of specifications: each molecule starts at the first residue matching
the LAST specification that reaches it, where a specification with an index reaches exactly that molecule -/
theorem start_code_exact (mols : List Mol) (specs : List Spec) (st : List (Option Nat))
    (h : findStart mols specs = .ok st) : st = codeStart mols specs := by
  unfold findStart at h
  obtain ⟨hl, hs⟩ := start_fold_code mols specs (mols.map fun _ => none) st (by simp) h
  apply List.ext_getElem?
  intro i
  unfold codeStart
  rw [List.getElem?_map]
  cases hm : mols[i]? with
  | none =>
    have : i ≥ mols.length := by rw [List.getElem?_eq_none_iff] at hm; exact hm
    have hz : (mols.zipIdx)[i]? = none := by rw [List.getElem?_eq_none_iff]; simp; omega
    rw [hz, List.getElem?_eq_none (by omega)]
    rfl
  | some m =>
    have hlt : i < mols.length := (List.getElem?_eq_some_iff.mp hm).1
    have hz : (mols.zipIdx)[i]? = some (m, i) := by
      rw [List.getElem?_zipIdx]; simp [hm]
    rw [hz, hs i m hm]
    simp only [Option.map_some]
    cases (specs.filter (codeAddresses mols · i)).getLast? with
    | none => simp [hlt]
    | some sp => rfl

end PolyplyVerif.Proofs.BuildFileText
