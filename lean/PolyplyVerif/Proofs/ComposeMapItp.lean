/-
Composition C11 ∘ C01: the molecule `add_blocks` builds is well formed for the itp writer/reader pair, so
writing it and reading it back returns exactly the re-indexed block copies.

The two models use different data:
* `Model/MapToMol.lean` (C01): an atom is `node`, `resid`, `cgrp` and an attribute DICTIONARY of string
  tokens; an interaction is `sect`, `atoms`, `params` and a meta dictionary; the molecule holds ONE
  interaction list in append order;
* `Model/ItpIO.lean` (C11): an atom is a record of the fields an `[ atoms ]` line carries (+ `atomid`, the
  sort key of `Molecule.sorted_nodes`); an interaction carries the four meta entries the writer looks at;
  interactions are grouped per section (a dict in insertion order).

BRIDGE (functions): `toItpAtom` reads `atomname`, `atype`, `resname`, `charge`, `mass`, `atomid` out of the
dictionary (a missing name/type/resname is the empty token); `toItpIxn` reads `ifdef`, `ifndef`, `group`,
`comment`; `toItpMol` groups the interaction list by section in first-appearance order (what appending to
`molecule.interactions[section]` produces).

Hypotheses on the force field (`BlockOk`, per block that is used): no atom carries an `atomid` attribute
(the polyply block parsers never set it; with it `sorted_nodes` would interleave the copies), a mass only
together with a charge, interaction atoms are positions inside the block (MapToMol's standing assumption),
not both `ifdef` and `ifndef`, and the arity of the section's line format.  The round trip is the one on
lexed lines (`C11_roundtrip`), which needs NO hypothesis on the characters of the tokens; those
(no white space, no `;`) only enter `C11_roundtrip_text`.
-/
import PolyplyVerif.Properties.C01
import PolyplyVerif.Model.ItpIO
import PolyplyVerif.Proofs.ItpIO

set_option linter.unusedSimpArgs false
set_option linter.unusedVariables false
set_option linter.unusedSectionVars false

namespace PolyplyVerif.Compose
open PolyplyVerif PolyplyVerif.MapToMol PolyplyVerif.Proofs.MapToMol

/-! ### bridge -/

def tokOf (a : Attrs) (k : String) : ItpIO.Tok := (attrGet? a k).getD ""

def toItpAtom (a : MapToMol.Atom) : ItpIO.Atom :=
  ⟨a.node, (attrGet? a.attrs "atomid").bind String.toNat?, tokOf a.attrs "atomname", tokOf a.attrs "atype",
   a.resid, tokOf a.attrs "resname", a.cgrp, attrGet? a.attrs "charge", attrGet? a.attrs "mass"⟩

def toItpIxn (i : MapToMol.Ixn) : ItpIO.Ixn :=
  ⟨i.atoms, i.params, attrGet? i.info "ifdef", attrGet? i.info "ifndef", attrGet? i.info "group",
   attrGet? i.info "comment"⟩

/-- the built molecule as the writer sees it: atoms in node order, interactions per section in
first-appearance order of the sections -/
def toItpMol (nrexcl : Nat) (m : MapToMol.Mol) : ItpIO.Mol :=
  ⟨nrexcl, m.atoms.map toItpAtom,
   (ItpIO.firstOcc (m.ixns.map (·.sect))).map fun s => (s, (m.ixns.filter (fun i => i.sect = s)).map toItpIxn)⟩

/-- what the round trip needs of a force-field block -/
structure BlockOk (b : Block) : Prop where
  noAtomid : ∀ a ∈ b.atoms, attrGet? a.attrs "atomid" = none
  fields : ∀ a ∈ b.atoms, ((attrGet? a.attrs "charge").isSome || (attrGet? a.attrs "mass").isNone) = true
  refs : ∀ i ∈ b.ixns, ∀ k ∈ i.atoms, k < b.atoms.length
  oneGuard : ∀ i ∈ b.ixns, ¬ ((attrGet? i.info "ifdef").isSome ∧ (attrGet? i.info "ifndef").isSome)
  arity : ∀ i ∈ b.ixns, ItpIO.arityOk i.sect (toItpIxn i) = true

/-! ### the specification molecule of C01 satisfies the invariant -/

variable {κ : Type} [DecidableEq κ]

/-- what `WF` needs of a MapToMol molecule whose nodes are `off … off+N-1` -/
structure Inv (ff : FF) (off N : Nat) (m : MapToMol.Mol) : Prop where
  nodes : m.atoms.map (·.node) = List.range' off N
  attrs : ∀ a ∈ m.atoms, ∃ b ba, BlockOk b ∧ ba ∈ b.atoms ∧ a.attrs = ba.attrs
  ixns : ∀ i ∈ m.ixns, ∃ b ix o, BlockOk b ∧ ix ∈ b.ixns ∧ i = shiftIxn o ix ∧
    ∀ k ∈ ix.atoms, off ≤ k + o ∧ k + o < off + N

theorem place_attrs (s r base c : Nat) (as : List BAtom) :
    ∀ a ∈ place s r base c as, ∃ ba ∈ as, a.attrs = ba.attrs := by
  induction as generalizing s with
  | nil => intro a ha; cases ha
  | cons x rest ih =>
    intro a ha
    simp only [place, List.mem_cons] at ha
    rcases ha with rfl | ha
    · exact ⟨x, List.mem_cons_self, rfl⟩
    · obtain ⟨ba, hba, he⟩ := ih (s + 1) a ha
      exact ⟨ba, List.mem_cons_of_mem _ hba, he⟩

theorem specGo_inv (ff : FF) (rs : List (ResNode κ))
    (hreg : ∀ n ∈ rs, n.fromItp = none ∧ ∃ b, ff.block? n.resname = some b ∧ BlockOk b) :
    ∀ off cg, ∃ N, Inv ff off N (specGo ff off cg 0 rs) ∧
      (∀ n rest b, rs = n :: rest → ff.block? n.resname = some b → b.atoms.length ≤ N) := by
  induction rs with
  | nil =>
    intro off cg
    refine ⟨0, ⟨rfl, fun a ha => (by cases ha), fun i hi => (by cases hi)⟩, fun n rest b h => (by cases h)⟩
  | cons r rest ih =>
    intro off cg
    obtain ⟨hfi, b, hb, hok⟩ := hreg r List.mem_cons_self
    obtain ⟨N, hinv, _⟩ := ih (fun n hn => hreg n (List.mem_cons_of_mem _ hn)) (off + b.atoms.length) (cg + lastCg b)
    rw [C01.C01_spec_regular ff off cg r rest b hfi hb]
    refine ⟨b.atoms.length + N, ⟨?_, ?_, ?_⟩, ?_⟩
    · simp only [List.map_append, place_nodes, hinv.nodes]
      exact (List.range'_append_1 (s := off) (m := b.atoms.length) (n := N))
    · intro a ha
      rcases List.mem_append.mp ha with ha | ha
      · obtain ⟨ba, hba, he⟩ := place_attrs _ _ _ _ _ a ha
        exact ⟨b, ba, hok, hba, he⟩
      · exact hinv.attrs a ha
    · intro i hi
      rcases List.mem_append.mp hi with hi | hi
      · obtain ⟨ix, hix, rfl⟩ := List.mem_map.mp hi
        refine ⟨b, ix, off, hok, hix, rfl, ?_⟩
        intro k hk
        have := hok.refs ix hix k hk
        omega
      · obtain ⟨b', ix, o, hok', hix, he, hr⟩ := hinv.ixns i hi
        refine ⟨b', ix, o, hok', hix, he, ?_⟩
        intro k hk
        have := hr k hk
        omega
    · intro n rest' b' he hb'
      cases he
      rw [hb] at hb'
      cases hb'
      omega

theorem arityOk_shift (o : Nat) (ix : MapToMol.Ixn) :
    ItpIO.arityOk (shiftIxn o ix).sect (toItpIxn (shiftIxn o ix)) = ItpIO.arityOk ix.sect (toItpIxn ix) := by
  unfold ItpIO.arityOk toItpIxn shiftIxn
  simp only [List.length_map]

/-- **the bridge of the composition**: a MapToMol molecule that satisfies the invariant (with at least one
atom) is well formed for the itp writer/reader -/
theorem wf_of_inv (ff : FF) (off N : Nat) (m : MapToMol.Mol) (nrexcl : Nat) (h : Inv ff off N m)
    (hne : m.atoms ≠ []) : ItpIO.WF (toItpMol nrexcl m) := by
  have hkeys : (toItpMol nrexcl m).atoms.map (·.key) = List.range' off N := by
    simp only [toItpMol, List.map_map]
    rw [← h.nodes]
    rfl
  have hhas : ∀ k, off ≤ k → k < off + N → ItpIO.hasKey (toItpMol nrexcl m).atoms k = true := by
    intro k h1 h2
    have hk : k ∈ (toItpMol nrexcl m).atoms.map (·.key) := by
      rw [hkeys, List.mem_range'_1]; exact ⟨h1, h2⟩
    obtain ⟨a, ha, hak⟩ := List.mem_map.mp hk
    unfold ItpIO.hasKey
    exact List.any_eq_true.mpr ⟨a, ha, by simp [hak]⟩
  have hsec : ∀ s ∈ (toItpMol nrexcl m).sections, ∀ x ∈ s.2, ∃ i ∈ m.ixns, i.sect = s.1 ∧ x = toItpIxn i := by
    intro s hs x hx
    simp only [toItpMol] at hs
    obtain ⟨nm, _, rfl⟩ := List.mem_map.mp hs
    obtain ⟨i, hi, rfl⟩ := List.mem_map.mp hx
    obtain ⟨hi1, hi2⟩ := List.mem_filter.mp hi
    exact ⟨i, hi1, by simpa using hi2, rfl⟩
  refine ⟨?_, ?_, ?_, ?_, ?_, ?_, ?_⟩
  · simp only [toItpMol]
    intro he
    exact hne (List.map_eq_nil_iff.mp he)
  · rw [hkeys]; exact List.nodup_range' 1
  · intro a ha
    simp only [toItpMol] at ha
    obtain ⟨a0, ha0, rfl⟩ := List.mem_map.mp ha
    obtain ⟨b, ba, hok, hba, he⟩ := h.attrs a0 ha0
    unfold ItpIO.Atom.fieldsOk toItpAtom
    simp only [he]
    exact hok.fields ba hba
  · simp only [toItpMol, List.map_map]
    have : ((fun s : String × List ItpIO.Ixn => s.1) ∘ fun s : String => (s, (m.ixns.filter (fun i => i.sect = s)).map toItpIxn)) = id := by
      funext s; rfl
    rw [this, List.map_id]
    exact Proofs.ItpIO.firstOcc_nodup _
  · intro s hs x hx k hk
    obtain ⟨i, hi, _, rfl⟩ := hsec s hs x hx
    obtain ⟨b, ix, o, hok, hix, rfl, hr⟩ := h.ixns i hi
    simp only [toItpIxn, shiftIxn, List.mem_map] at hk
    obtain ⟨k0, hk0, rfl⟩ := hk
    exact hhas _ (hr k0 hk0).1 (hr k0 hk0).2
  · intro s hs x hx
    obtain ⟨i, hi, _, rfl⟩ := hsec s hs x hx
    obtain ⟨b, ix, o, hok, hix, rfl, _⟩ := h.ixns i hi
    exact hok.oneGuard ix hix
  · intro s hs x hx
    obtain ⟨i, hi, hsect, rfl⟩ := hsec s hs x hx
    obtain ⟨b, ix, o, hok, hix, rfl, _⟩ := h.ixns i hi
    rw [← hsect, arityOk_shift]
    exact hok.arity ix hix

/-- without `atomid` attributes `sorted_nodes` is the node order -/
theorem sortedNodes_of_inv (ff : FF) (off N : Nat) (m : MapToMol.Mol) (nrexcl : Nat) (h : Inv ff off N m) :
    ItpIO.sortedNodes (toItpMol nrexcl m) = m.atoms.map toItpAtom := by
  unfold ItpIO.sortedNodes
  apply List.mergeSort_of_pairwise
  simp only [toItpMol]
  rw [List.pairwise_map]
  apply List.Pairwise.imp_of_mem (R := fun _ _ => True)
  · intro a b ha hb _
    obtain ⟨blk, ba, hok, hba, he⟩ := h.attrs b hb
    simp only [toItpAtom, he, hok.noAtomid ba hba, Option.bind_none]
    cases ((attrGet? a.attrs "atomid").bind String.toNat?) <;> rfl
  · exact List.pairwise_of_forall (fun _ _ => trivial)

/-! ### the composition -/

/-- **C11 ∘ C01.**  Under C01's hypotheses (`C01_layout_partial`) and `BlockOk` for the blocks used:
`add_blocks` succeeds; the molecule it builds IS the specification molecule (the re-indexed block copies);
its bridge is well formed (`ItpIO.WF`); writing and reading it back succeeds and returns the molecule's name,
`nrexcl`, exactly the atoms of the block copies in node order (keyed `0..n-1`) and under every section
exactly the multiset of the copies' interactions (in the writer's canonical atom order). -/
theorem roundtrip_of_built (ff : FF) (t : Tables κ) (nodes : List (ResNode κ)) (start : Nat)
    (hne : nodes ≠ []) (hstart : 1 ≤ start)
    (hres : (nodes.map (·.resid)).Perm (List.range' start nodes.length))
    (hreg : ∀ n ∈ nodes, RegularNode ff t n)
    (hok : ∀ n ∈ nodes, ∀ b, ff.block? n.resname = some b → BlockOk b)
    (header : List String) (moltype : ItpIO.Tok) (nrexcl : Nat) :
    ∃ st lines blk, addBlocks ff t nodes = .ok st ∧ st.mol = specMol ff nodes ∧
      ItpIO.WF (toItpMol nrexcl st.mol) ∧
      ItpIO.writeItp header moltype (toItpMol nrexcl st.mol) = .ok lines ∧ ItpIO.readItp lines = .ok blk ∧
      blk.name = moltype ∧ blk.nrexcl = nrexcl ∧
      blk.atoms = ItpIO.canonAtomsFrom 0 ((specMol ff nodes).atoms.map toItpAtom) ∧
      ∀ s, (blk.ixnsOf s).Perm (ItpIO.canonIxns (toItpMol nrexcl (specMol ff nodes)) s) := by
  obtain ⟨st, hst, hatoms⟩ := C01.C01_layout_partial ff t nodes start hne hstart hres hreg
  obtain ⟨st', hst', hixns⟩ := C01.C01_interactions_partial ff t nodes start hne hstart hres hreg
  rw [hst] at hst'
  cases hst'
  have hmol : st.mol = specMol ff nodes := by
    cases hm : st.mol with
    | mk a i =>
      cases hs : specMol ff nodes with
      | mk a' i' =>
        rw [hm, hs] at hatoms hixns
        simp only at hatoms hixns
        rw [hatoms, hixns]
  -- the invariant for the specification molecule
  have hperm := sortByResid_perm nodes
  have hreg' : ∀ n ∈ sortByResid nodes, n.fromItp = none ∧ ∃ b, ff.block? n.resname = some b ∧ BlockOk b := by
    intro n hn
    have hn' := hperm.mem_iff.mp hn
    obtain ⟨hfi, _, b, hb, _⟩ := hreg n hn'
    exact ⟨hfi, b, hb, hok n hn' b hb⟩
  obtain ⟨N, hinv, hfirst⟩ := specGo_inv ff (sortByResid nodes) hreg' 0 0
  have hinv' : Inv ff 0 N (specMol ff nodes) := hinv
  have hne_atoms : (specMol ff nodes).atoms ≠ [] := by
    cases hsn : sortByResid nodes with
    | nil =>
      have := hperm.length_eq
      rw [hsn] at this
      exact absurd (List.length_eq_zero_iff.mp this.symm) hne
    | cons n rest =>
      have hn' : n ∈ nodes := hperm.mem_iff.mp (by rw [hsn]; exact List.mem_cons_self)
      obtain ⟨_, _, b, hb, hsb⟩ := hreg n hn'
      have hlen := hfirst n rest b hsn hb
      have hbpos : 0 < b.atoms.length := List.length_pos_iff.mpr hsb.1
      intro he
      have hl : ((specMol ff nodes).atoms.map (·.node)).length = N := by rw [hinv'.nodes]; simp
      rw [he] at hl
      simp at hl
      omega
  have hwf : ItpIO.WF (toItpMol nrexcl (specMol ff nodes)) := wf_of_inv ff 0 N _ nrexcl hinv' hne_atoms
  obtain ⟨lines, blk, hw, hr, h1, h2, h3, h4⟩ := Proofs.ItpIO.roundtrip header moltype _ hwf
  refine ⟨st, lines, blk, hst, hmol, by rw [hmol]; exact hwf, by rw [hmol]; exact hw, hr, h1, h2, ?_, h4⟩
  rw [h3]
  unfold ItpIO.canonAtoms
  rw [sortedNodes_of_inv ff 0 N _ nrexcl hinv']

end PolyplyVerif.Compose
