/-
Composition C14 ∘ C02: the bond graph `expand_excl` walks is the graph the link stage leaves behind.

`C14_effective` (Properties/C14.lean) is stated for an arbitrary edge list; `C02_edges_iff` /
`C02_explicit_edges_iff` (Properties/C02.lean) say which unordered pairs are edges after
`ApplyLinks.run_molecule`.  The glue is that the breadth-first levels `C10M.within` (hence
`Excl.withinDist`) only depend on the edge *relation* `Links.hasEdge`, not on the list that carries it
(order, duplicates, orientation of the pairs).

The specification graph is given as a relation (`LinkedAdj`, `RunAdj`) and walks in a relation
(`RelWalkLe`); no edge list is mentioned on the specification side.

This file must not import Properties/C14.lean (which imports it); the last step — plugging
`withinDist_applyLinks_iff` into `C14_effective` — is done there.
-/
import PolyplyVerif.Properties.C02
import PolyplyVerif.Proofs.Exclusions

set_option linter.unusedSimpArgs false
set_option linter.unusedVariables false

namespace PolyplyVerif.Compose
open PolyplyVerif PolyplyVerif.Links PolyplyVerif.Excl PolyplyVerif.C10M

/-- `b` is reached from `a` by a walk of at most `k` steps of the relation `R` -/
inductive RelWalkLe (R : Nat → Nat → Prop) (a : Nat) : Nat → Nat → Prop
  | refl (k : Nat) : RelWalkLe R a a k
  | step {c c' k : Nat} : RelWalkLe R a c k → R c c' → RelWalkLe R a c' (k + 1)

/-- **the graph after the links** (specification): `{a,b}` is a bond iff it is an edge of the mapped
molecule or an edge of an accepted link application maps onto it, and neither atom was removed by a link -/
def LinkedAdj (inp : Links.Input) (a b : Nat) : Prop :=
  (Links.hasEdge inp.edges a b = true ∨ ∃ e ∈ C02.evs inp, Links.hasEdge e.newEdges a b = true) ∧
  (C02.removed inp).contains a = false ∧ (C02.removed inp).contains b = false

/-- the graph when `expand_excl` runs, explicit (`by_atom_id`) links included: additionally consecutive
atoms of an explicit interaction are bonded -/
def RunAdj (inp : Links.Input) (xs : List XIxn) (a b : Nat) : Prop :=
  LinkedAdj inp a b ∨
  ∃ i ∈ xs, ∃ pre post, i.nodes = pre ++ a :: b :: post ∨ i.nodes = pre ++ b :: a :: post

theorem mem_neighbors_iff_hasEdge (es : List (Nat × Nat)) (a b : Nat) :
    b ∈ neighbors es a ↔ Links.hasEdge es a b = true := by
  rw [mem_neighbors_iff]
  simp only [Links.hasEdge, List.any_eq_true, Bool.or_eq_true, Bool.and_eq_true, beq_iff_eq]
  constructor
  · rintro ⟨e, he, h | h⟩
    · exact ⟨e, he, Or.inl h⟩
    · exact ⟨e, he, Or.inr ⟨h.2.1, h.1⟩⟩
  · rintro ⟨e, he, h | h⟩
    · exact ⟨e, he, Or.inl h⟩
    · by_cases h1 : e.1 = a
      · exact ⟨e, he, Or.inl ⟨h1, by rw [h.2, ← h1, h.1]⟩⟩
      · exact ⟨e, he, Or.inr ⟨h.2, h.1, h1⟩⟩

/-- walks only see the edge relation -/
theorem walkLe_iff_rel (es : List (Nat × Nat)) (R : Nat → Nat → Prop)
    (h : ∀ a b, Links.hasEdge es a b = true ↔ R a b) (a b k : Nat) :
    WalkLe es a b k ↔ RelWalkLe R a b k := by
  constructor
  · intro hw
    induction hw with
    | refl k => exact RelWalkLe.refl k
    | step _ hn ih => exact RelWalkLe.step ih ((h _ _).mp ((mem_neighbors_iff_hasEdge es _ _).mp hn))
  · intro hw
    induction hw with
    | refl k => exact WalkLe.refl k
    | step _ hn ih => exact WalkLe.step ih ((mem_neighbors_iff_hasEdge es _ _).mpr ((h _ _).mpr hn))

theorem withinDist_iff_rel (es : List (Nat × Nat)) (R : Nat → Nat → Prop)
    (h : ∀ a b, Links.hasEdge es a b = true ↔ R a b) (a b k : Nat) :
    withinDist es a b k = true ↔ RelWalkLe R a b k := by
  rw [withinDist_iff, walkLe_iff_rel es R h]

/-- two edge lists with the same edge relation give the same distances -/
theorem withinDist_congr (es es' : List (Nat × Nat))
    (h : ∀ a b, Links.hasEdge es a b = Links.hasEdge es' a b) (a b k : Nat) :
    withinDist es a b k = withinDist es' a b k := by
  rw [Bool.eq_iff_iff, withinDist_iff_rel es (fun a b => Links.hasEdge es' a b = true) (fun a b => by rw [h]),
    withinDist_iff_rel es' (fun a b => Links.hasEdge es' a b = true) (fun a b => Iff.rfl)]

/-- **C02 side of the composition.**  Distances in the edge list `apply_links` leaves behind are
distances in the specification graph `LinkedAdj`. -/
theorem withinDist_applyLinks_iff (inp : Links.Input) (a b k : Nat) :
    withinDist (applyLinks inp).edges a b k = true ↔ RelWalkLe (LinkedAdj inp) a b k :=
  withinDist_iff_rel _ _ (fun a b => C02.C02_edges_iff inp a b) a b k

/-- the same with the explicit links applied (`runMolecule` = everything before `expand_excl`) -/
theorem withinDist_runMolecule_iff (inp : Links.Input) (xs : List XIxn) (s' : XSt)
    (h : runMolecule inp xs = .ok s') (a b k : Nat) :
    withinDist s'.edges a b k = true ↔ RelWalkLe (RunAdj inp xs) a b k := by
  apply withinDist_iff_rel
  intro a b
  unfold runMolecule at h
  rw [C02.C02_explicit_edges_iff _ _ _ _ h a b]
  unfold RunAdj
  have : Links.hasEdge (applyLinks inp).xst.edges a b = true ↔ LinkedAdj inp a b := C02.C02_edges_iff inp a b
  rw [this]

/-- the specification graph as an edge list (for evaluation): mapped edges, then link edges, ends not removed -/
def linkedEdges (inp : Links.Input) : List (Nat × Nat) :=
  (inp.edges ++ (C02.evs inp).flatMap Event.newEdges).filter
    (fun e => !(C02.removed inp).contains e.1 && !(C02.removed inp).contains e.2)

theorem hasEdge_linkedEdges_iff (inp : Links.Input) (a b : Nat) :
    Links.hasEdge (linkedEdges inp) a b = true ↔ LinkedAdj inp a b := by
  unfold linkedEdges LinkedAdj
  simp only [Links.hasEdge, List.any_eq_true, List.mem_filter, List.mem_append, List.mem_flatMap,
    Bool.or_eq_true, Bool.and_eq_true, beq_iff_eq, Bool.not_eq_true']
  constructor
  · rintro ⟨x, ⟨hx, h1, h2⟩, h3⟩
    refine ⟨?_, ?_, ?_⟩
    · rcases hx with hx | ⟨e, he, hx⟩
      · exact Or.inl ⟨x, hx, h3⟩
      · exact Or.inr ⟨e, he, x, hx, h3⟩
    · rcases h3 with h3 | h3
      · rw [← h3.1]; exact h1
      · rw [← h3.2]; exact h2
    · rcases h3 with h3 | h3
      · rw [← h3.2]; exact h2
      · rw [← h3.1]; exact h1
  · rintro ⟨hx, h1, h2⟩
    have key : ∀ x : Nat × Nat, ((x.1 = a ∧ x.2 = b) ∨ (x.1 = b ∧ x.2 = a)) →
        (C02.removed inp).contains x.1 = false ∧ (C02.removed inp).contains x.2 = false := by
      rintro x (h3 | h3)
      · rw [h3.1, h3.2]; exact ⟨h1, h2⟩
      · rw [h3.1, h3.2]; exact ⟨h2, h1⟩
    rcases hx with ⟨x, hx, h3⟩ | ⟨e, he, x, hx, h3⟩
    · exact ⟨x, ⟨Or.inl hx, key x h3⟩, h3⟩
    · exact ⟨x, ⟨Or.inr ⟨e, he, hx⟩, key x h3⟩, h3⟩

/-- the implementation's edge list and the specification's edge list measure the same distances -/
theorem withinDist_applyLinks_eq (inp : Links.Input) (a b k : Nat) :
    withinDist (applyLinks inp).edges a b k = withinDist (linkedEdges inp) a b k := by
  apply withinDist_congr
  intro a b
  rw [Bool.eq_iff_iff, C02.C02_edges_iff, hasEdge_linkedEdges_iff]
  rfl

end PolyplyVerif.Compose
