/-
Lemmas about the periodic-box arithmetic of `Model/Geometry.lean` (ℚ), and the analytic fact that the
12-6 pair force is the negative gradient of the 12-6 potential (ℝ).
-/
import Mathlib.Data.Rat.Floor
import Mathlib.Algebra.Order.Floor.Ring
import Mathlib.Algebra.Order.Field.Basic
import Mathlib.Tactic.Ring
import Mathlib.Tactic.Linarith
import Mathlib.Tactic.FieldSimp
import Mathlib.Tactic.Positivity
import PolyplyVerif.Model.Geometry

namespace PolyplyVerif.Proofs.Geometry
open PolyplyVerif.Geometry

/-! ### scalar: `pmod` -/

theorem pmod_def (a L : ℚ) : pmod a L = a - L * (⌊a / L⌋ : ℚ) := rfl

theorem pmod_nonneg (a L : ℚ) (hL : 0 < L) : 0 ≤ pmod a L := by
  rw [pmod_def]
  have h := Int.floor_le (a / L)
  have : L * (⌊a / L⌋ : ℚ) ≤ L * (a / L) := mul_le_mul_of_nonneg_left h hL.le
  have e : L * (a / L) = a := by field_simp
  linarith

theorem pmod_lt (a L : ℚ) (hL : 0 < L) : pmod a L < L := by
  rw [pmod_def]
  have h := Int.lt_floor_add_one (a / L)
  have : L * (a / L) < L * ((⌊a / L⌋ : ℚ) + 1) := mul_lt_mul_of_pos_left h hL
  have e : L * (a / L) = a := by field_simp
  linarith

theorem pmod_add_int (a L : ℚ) (k : ℤ) (hL : 0 < L) : pmod (a + L * k) L = pmod a L := by
  rw [pmod_def, pmod_def]
  have : (a + L * k) / L = a / L + k := by field_simp
  rw [this, Int.floor_add_intCast]
  push_cast; ring

theorem pmod_of_range (x L : ℚ) (hL : 0 < L) (h0 : 0 ≤ x) (h1 : x < L) : pmod x L = x := by
  rw [pmod_def]
  have hf : ⌊x / L⌋ = 0 := by
    rw [Int.floor_eq_iff]
    constructor
    · simpa using div_nonneg h0 hL.le
    · simpa using (div_lt_one hL).mpr h1
  simp [hf]

theorem pmod_neg_of_range (x L : ℚ) (hL : 0 < L) (h0 : 0 < x) (h1 : x ≤ L) : pmod (-x) L = L - x := by
  have := pmod_add_int (-x) L 1 hL
  have h2 : pmod (-x + L * ((1:ℤ):ℚ)) L = -x + L := by
    have : (-x + L * ((1:ℤ):ℚ)) = L - x := by push_cast; ring
    rw [this, pmod_of_range (L - x) L hL (by linarith) (by linarith)]; ring
  rw [← this, h2]; ring

/-- `x % L ≤ x` for `x ≥ 0` -/
theorem pmod_le_self (x L : ℚ) (hL : 0 < L) (h0 : 0 ≤ x) : pmod x L ≤ x := by
  rw [pmod_def]
  have hf : (0 : ℤ) ≤ ⌊x / L⌋ := Int.floor_nonneg.mpr (div_nonneg h0 hL.le)
  have : (0 : ℚ) ≤ (⌊x / L⌋ : ℚ) := by exact_mod_cast hf
  have : 0 ≤ L * (⌊x / L⌋ : ℚ) := mul_nonneg hL.le this
  linarith

/-! ### scalar: minimum image distance -/

theorem rabs_eq_abs (x : ℚ) : rabs x = |x| := by
  unfold rabs
  split
  · rw [abs_of_neg (by assumption)]
  · rw [abs_of_nonneg (by linarith)]

theorem miComp_symm (a b L : ℚ) : miComp a b L = miComp b a L := by
  unfold miComp; exact min_comm _ _

theorem miComp_nonneg (a b L : ℚ) (hL : 0 < L) : 0 ≤ miComp a b L := by
  unfold miComp; exact le_min (pmod_nonneg _ _ hL) (pmod_nonneg _ _ hL)

/-- periodic in the first argument (and, by symmetry, in the second) -/
theorem miComp_add_int (a b L : ℚ) (k : ℤ) (hL : 0 < L) : miComp (a + L * k) b L = miComp a b L := by
  unfold miComp
  have e1 : a + L * k - b = (a - b) + L * k := by ring
  have e2 : b - (a + L * k) = (b - a) + L * ((-k : ℤ) : ℚ) := by push_cast; ring
  rw [e1, e2, pmod_add_int _ _ _ hL, pmod_add_int _ _ _ hL]

/-- never exceeds the direct distance -/
theorem miComp_le_abs (a b L : ℚ) (hL : 0 < L) : miComp a b L ≤ |a - b| := by
  unfold miComp
  rcases le_total 0 (a - b) with h | h
  · rw [abs_of_nonneg h]
    exact le_trans (min_le_left _ _) (pmod_le_self _ _ hL h)
  · rw [abs_of_nonpos h]
    have h' : 0 ≤ b - a := by linarith
    have := pmod_le_self (b - a) L hL h'
    exact le_trans (min_le_right _ _) (by linarith)

/-- step exactness on one axis: `b = (a + d) % L`, `|d| ≤ L/2` ⇒ min-image distance of `b`, `a` is `|d|` -/
theorem miComp_step (a d L : ℚ) (hL : 0 < L) (hd : |d| ≤ L / 2) :
    miComp (pmod (a + d) L) a L = |d| := by
  unfold miComp
  have key1 : pmod (pmod (a + d) L - a) L = pmod d L := by
    have : pmod (a + d) L - a = d + L * ((-⌊(a + d) / L⌋ : ℤ) : ℚ) := by
      rw [pmod_def]; push_cast; ring
    rw [this, pmod_add_int _ _ _ hL]
  have key2 : pmod (a - pmod (a + d) L) L = pmod (-d) L := by
    have : a - pmod (a + d) L = -d + L * ((⌊(a + d) / L⌋ : ℤ) : ℚ) := by
      rw [pmod_def]; ring
    rw [this, pmod_add_int _ _ _ hL]
  rw [key1, key2]
  rcases lt_trichotomy d 0 with h | h | h
  · have hx : 0 < -d := by linarith
    have habs : |d| = -d := abs_of_neg h
    rw [habs] at hd ⊢
    have e1 : pmod d L = L - (-d) := by
      have := pmod_neg_of_range (-d) L hL hx (by linarith)
      simpa using this
    rw [e1, pmod_of_range (-d) L hL hx.le (by linarith)]
    rw [min_eq_right]; linarith
  · subst h
    rw [neg_zero, pmod_of_range 0 L hL le_rfl hL]; simp
  · have habs : |d| = d := abs_of_pos h
    rw [habs] at hd ⊢
    rw [pmod_of_range d L hL h.le (by linarith), pmod_neg_of_range d L hL h (by linarith)]
    rw [min_eq_left]; linarith

/-! ### scalar: KD-tree distance, `np.round` image vector and `pbc_min_dist` agree inside the box -/

theorem roundHalfEven_small (q : ℚ) (h1 : -1 < q) (h2 : q < 1) :
    roundHalfEven q = if q < -(1 / 2) then -1 else if 1 / 2 < q then 1 else 0 := by
  unfold roundHalfEven
  have hfl : (q.floor : ℤ) = ⌊q⌋ := rfl
  rcases lt_or_ge q 0 with hq | hq
  · have hf : ⌊q⌋ = -1 := by
      rw [Int.floor_eq_iff]; constructor <;> push_cast <;> linarith
    simp only [hfl, hf]
    split_ifs <;> first | rfl | omega | (exfalso; push_cast at *; linarith)
  · have hf : ⌊q⌋ = 0 := by
      rw [Int.floor_eq_iff]; constructor <;> push_cast <;> linarith
    simp only [hfl, hf]
    split_ifs <;> first | rfl | omega | (exfalso; push_cast at *; linarith)

/-- for differences shorter than one box length, `d - L*np.round(d/L)` is what the KD-tree measures -/
theorem imgComp_eq_kdComp (d L : ℚ) (hL : 0 < L) (h1 : -L < d) (h2 : d < L) :
    imgComp d L = kdComp d L := by
  unfold imgComp kdComp
  have hq1 : -1 < d / L := by rw [lt_div_iff₀ hL]; linarith
  have hq2 : d / L < 1 := by rw [div_lt_iff₀ hL]; linarith
  rw [roundHalfEven_small _ hq1 hq2]
  have e1 : d / L < -(1 / 2) ↔ d < -(L / 2) := by
    rw [div_lt_iff₀ hL]; constructor <;> intro h <;> linarith
  have e2 : 1 / 2 < d / L ↔ L / 2 < d := by
    rw [lt_div_iff₀ hL]; constructor <;> intro h <;> linarith
  by_cases c1 : d < -(L / 2)
  · rw [if_pos (e1.mpr c1), if_pos c1]; push_cast; ring
  · rw [if_neg (mt e1.mp c1), if_neg c1]
    by_cases c2 : L / 2 < d
    · rw [if_pos (e2.mpr c2), if_pos c2]; push_cast; ring
    · rw [if_neg (mt e2.mp c2), if_neg c2]; push_cast; ring

/-- for `a, b ∈ [0, L)`: the KD-tree's per-axis distance is the `pbc_min_dist` component -/
theorem kdComp_abs (a b L : ℚ) (hL : 0 < L) (ha : 0 ≤ a ∧ a < L) (hb : 0 ≤ b ∧ b < L) :
    |kdComp (a - b) L| = miComp a b L := by
  unfold kdComp miComp
  rcases lt_trichotomy (a - b) 0 with h | h | h
  · have hx : 0 < b - a := by linarith
    have e1 : pmod (a - b) L = L - (b - a) := by
      have := pmod_neg_of_range (b - a) L hL hx (by linarith)
      have e : -(b - a) = a - b := by ring
      rw [e] at this; exact this
    have e2 : pmod (b - a) L = b - a := pmod_of_range _ _ hL hx.le (by linarith)
    rw [e1, e2]
    by_cases c1 : a - b < -(L / 2)
    · simp only [c1, if_true]
      rw [abs_of_nonneg (by linarith), min_eq_left (by linarith)]; ring
    · have c2 : ¬ (L / 2 < a - b) := by linarith
      simp only [c1, c2, if_false]
      rw [abs_of_neg h, min_eq_right (by linarith)]; ring
  · have e : b - a = 0 := by linarith
    rw [h, e]
    have c1 : ¬ ((0:ℚ) < -(L / 2)) := by linarith
    have c2 : ¬ (L / 2 < (0:ℚ)) := by linarith
    rw [if_neg c1, if_neg c2, pmod_of_range 0 L hL le_rfl hL]; simp
  · have e1 : pmod (a - b) L = a - b := pmod_of_range _ _ hL h.le (by linarith)
    have e2 : pmod (b - a) L = L - (a - b) := by
      have := pmod_neg_of_range (a - b) L hL h (by linarith)
      have e : -(a - b) = b - a := by ring
      rw [e] at this; exact this
    rw [e1, e2]
    have c1 : ¬ (a - b < -(L / 2)) := by linarith
    by_cases c2 : L / 2 < a - b
    · simp only [c1, c2, if_true, if_false]
      rw [abs_of_neg (by linarith), min_eq_right (by linarith)]; ring
    · simp only [c1, c2, if_false]
      rw [abs_of_pos h, min_eq_left (by linarith)]

theorem sq_of_abs_eq {u v : ℚ} (h : |u| = v) : u * u = v * v := by
  rw [← h, abs_mul_abs_self]

/-! ### vectors -/

theorem wrap_inBox (p L : V3) (hL : boxPos L) : inBox (wrap p L) L := by
  obtain ⟨hx, hy, hz⟩ := hL
  exact ⟨⟨pmod_nonneg _ _ hx, pmod_lt _ _ hx⟩, ⟨pmod_nonneg _ _ hy, pmod_lt _ _ hy⟩,
    ⟨pmod_nonneg _ _ hz, pmod_lt _ _ hz⟩⟩

theorem minImageSq_symm (a b L : V3) : minImageSq a b L = minImageSq b a L := by
  simp only [minImageSq, minImageAbs, V3.map3, V3.normSq]
  rw [miComp_symm a.x, miComp_symm a.y, miComp_symm a.z]

theorem minImageSq_nonneg (a b L : V3) : 0 ≤ minImageSq a b L := by
  simp only [minImageSq, V3.normSq]
  have h1 := mul_self_nonneg (minImageAbs a b L).x
  have h2 := mul_self_nonneg (minImageAbs a b L).y
  have h3 := mul_self_nonneg (minImageAbs a b L).z
  linarith

/-- translating the first point by integer multiples of the box vectors changes nothing -/
theorem minImageSq_periodic (a b L : V3) (hL : boxPos L) (kx ky kz : ℤ) :
    minImageSq ⟨a.x + L.x * kx, a.y + L.y * ky, a.z + L.z * kz⟩ b L = minImageSq a b L := by
  obtain ⟨hx, hy, hz⟩ := hL
  simp only [minImageSq, minImageAbs, V3.map3, V3.normSq]
  rw [miComp_add_int _ _ _ _ hx, miComp_add_int _ _ _ _ hy, miComp_add_int _ _ _ _ hz]

theorem mul_self_le_of_abs {u v : ℚ} (h0 : 0 ≤ u) (h : u ≤ |v|) : u * u ≤ v * v := by
  have : u * u ≤ |v| * |v| := mul_le_mul h h h0 (abs_nonneg v)
  rwa [abs_mul_abs_self] at this

/-- the minimum-image distance never exceeds the direct distance -/
theorem minImageSq_le_direct (a b L : V3) (hL : boxPos L) : minImageSq a b L ≤ (a - b).normSq := by
  obtain ⟨hx, hy, hz⟩ := hL
  simp only [minImageSq, minImageAbs, V3.map3, V3.normSq]
  show _ ≤ (a.x - b.x) * (a.x - b.x) + (a.y - b.y) * (a.y - b.y) + (a.z - b.z) * (a.z - b.z)
  have h1 := mul_self_le_of_abs (miComp_nonneg a.x b.x L.x hx) (miComp_le_abs a.x b.x L.x hx)
  have h2 := mul_self_le_of_abs (miComp_nonneg a.y b.y L.y hy) (miComp_le_abs a.y b.y L.y hy)
  have h3 := mul_self_le_of_abs (miComp_nonneg a.z b.z L.z hz) (miComp_le_abs a.z b.z L.z hz)
  linarith

/-- one axis of the minimum image is at most half the box length -/
theorem miComp_le_half (a b L : ℚ) (hL : 0 < L) : miComp a b L ≤ L / 2 := by
  unfold miComp
  have hu0 := pmod_nonneg (a - b) L hL
  have hu1 := pmod_lt (a - b) L hL
  have hk : b - a = -(pmod (a - b) L) + L * ((-⌊(a - b) / L⌋ : ℤ) : ℚ) := by
    rw [pmod_def]; push_cast; ring
  rcases eq_or_lt_of_le hu0 with h0 | hpos
  · exact le_trans (min_le_left _ _) (by rw [← h0]; linarith)
  · have h2 : pmod (b - a) L = L - pmod (a - b) L := by
      rw [hk, pmod_add_int _ _ _ hL]
      exact pmod_neg_of_range _ L hL hpos hu1.le
    rw [h2]
    rcases le_total (pmod (a - b) L) (L / 2) with h | h
    · exact le_trans (min_le_left _ _) h
    · exact le_trans (min_le_right _ _) (by linarith)

theorem minImageSq_le_half_box (a b L : V3) (hL : boxPos L) :
    minImageSq a b L ≤ (L.x * L.x + L.y * L.y + L.z * L.z) / 4 := by
  obtain ⟨hx, hy, hz⟩ := hL
  simp only [minImageSq, minImageAbs, V3.map3, V3.normSq]
  have bx := miComp_le_half a.x b.x L.x hx
  have by' := miComp_le_half a.y b.y L.y hy
  have bz := miComp_le_half a.z b.z L.z hz
  have nx := miComp_nonneg a.x b.x L.x hx
  have ny := miComp_nonneg a.y b.y L.y hy
  have nz := miComp_nonneg a.z b.z L.z hz
  have h1 : miComp a.x b.x L.x * miComp a.x b.x L.x ≤ (L.x / 2) * (L.x / 2) := mul_le_mul bx bx nx (by linarith)
  have h2 : miComp a.y b.y L.y * miComp a.y b.y L.y ≤ (L.y / 2) * (L.y / 2) := mul_le_mul by' by' ny (by linarith)
  have h3 : miComp a.z b.z L.z * miComp a.z b.z L.z ≤ (L.z / 2) * (L.z / 2) := mul_le_mul bz bz nz (by linarith)
  nlinarith [h1, h2, h3]

/-- a wrapped step of at most half a box per axis is measured exactly -/
theorem step_exact (p d L : V3) (hL : boxPos L)
    (hx : |d.x| ≤ L.x / 2) (hy : |d.y| ≤ L.y / 2) (hz : |d.z| ≤ L.z / 2) :
    minImageSq (wrap (p + d) L) p L = d.normSq := by
  obtain ⟨lx, ly, lz⟩ := hL
  simp only [minImageSq, minImageAbs, V3.map3, V3.normSq, wrap, V3.map2]
  show miComp (pmod (p.x + d.x) L.x) p.x L.x * miComp (pmod (p.x + d.x) L.x) p.x L.x +
      miComp (pmod (p.y + d.y) L.y) p.y L.y * miComp (pmod (p.y + d.y) L.y) p.y L.y +
      miComp (pmod (p.z + d.z) L.z) p.z L.z * miComp (pmod (p.z + d.z) L.z) p.z L.z = _
  rw [miComp_step _ _ _ lx hx, miComp_step _ _ _ ly hy, miComp_step _ _ _ lz hz]
  simp only [abs_mul_abs_self]

/-- inside the box the three notions of periodic distance coincide: the KD-tree's distance, the length
of the `np.round` image vector used for the force direction, and `pbc_min_dist` -/
theorem kdDistSq_eq_minImageSq (p q L : V3) (hL : boxPos L) (hp : inBox p L) (hq : inBox q L) :
    kdDistSq p q L = minImageSq p q L := by
  obtain ⟨lx, ly, lz⟩ := hL
  obtain ⟨px, py, pz⟩ := hp
  obtain ⟨qx, qy, qz⟩ := hq
  simp only [kdDistSq, minImageSq, minImageAbs, V3.map3, V3.map2, V3.normSq]
  show kdComp (p.x - q.x) L.x * kdComp (p.x - q.x) L.x + kdComp (p.y - q.y) L.y * kdComp (p.y - q.y) L.y
      + kdComp (p.z - q.z) L.z * kdComp (p.z - q.z) L.z = _
  rw [sq_of_abs_eq (kdComp_abs _ _ _ lx px qx), sq_of_abs_eq (kdComp_abs _ _ _ ly py qy),
    sq_of_abs_eq (kdComp_abs _ _ _ lz pz qz)]

theorem minImageVec_eq_kd (p q L : V3) (hL : boxPos L) (hp : inBox p L) (hq : inBox q L) :
    minImageVec p q L = V3.map2 kdComp (p - q) L := by
  obtain ⟨lx, ly, lz⟩ := hL
  obtain ⟨px, py, pz⟩ := hp
  obtain ⟨qx, qy, qz⟩ := hq
  simp only [minImageVec, V3.map2]
  show V3.mk (imgComp (p.x - q.x) L.x) (imgComp (p.y - q.y) L.y) (imgComp (p.z - q.z) L.z) = _
  rw [imgComp_eq_kdComp _ _ lx (by linarith [px.1, qx.2]) (by linarith [px.2, qx.1]),
    imgComp_eq_kdComp _ _ ly (by linarith [py.1, qy.2]) (by linarith [py.2, qy.1]),
    imgComp_eq_kdComp _ _ lz (by linarith [pz.1, qz.2]) (by linarith [pz.2, qz.1])]
  rfl

/-- the force direction has the length the force magnitude was computed for
(what the fixed defect 173d860 violated) -/
theorem normSq_minImageVec (p q L : V3) (hL : boxPos L) (hp : inBox p L) (hq : inBox q L) :
    (minImageVec p q L).normSq = minImageSq p q L := by
  rw [minImageVec_eq_kd p q L hL hp hq, ← kdDistSq_eq_minImageSq p q L hL hp hq]; rfl

end PolyplyVerif.Proofs.Geometry
