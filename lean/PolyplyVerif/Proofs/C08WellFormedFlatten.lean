/-
C08: the flattened text of a well-formed include tree is well formed as a one-file tree (`wellFormed_flatten`).
A second, much smaller simulation: the syntactic scan of the tree (`wfLines` per file) against the scan of the
single flattened file.
-/
import PolyplyVerif.Proofs.C08FlattenConv

namespace PolyplyVerif.Proofs.C08Flatten
open PolyplyVerif PolyplyVerif.TopParse PolyplyVerif.Proofs.TopParse

/-- scan states: `wt` of the current file of the tree, `wf` of the flattened file -/
structure RelW (wt wf : WfSt) (frozen : Bool) (fcw : Option (Bool × String)) : Prop where
  phase : wf.phase2 = wt.phase2
  sync : wt.fresh = false → wf.fresh = false ∧ wf.secMol = wt.secMol
  swallow : wf.swallow = wt.swallow
  cond : if frozen then (wt.cond = none ∧ wf.cond = fcw ∧ fcw.isSome = true) else wf.cond = wt.cond
  ownT : wt.own = true → wf.own = true
  ownF : wf.own = wf.phase2
  ownPhaseT : wt.own = true → wt.phase2 = true
  condPhase : wf.phase2 = true → wf.cond = none

theorem wfLines_append (inc : Path → Bool → Bool → Option Bool) (dir : Path) (frozen isTop : Bool)
    (a b : List String) (w : WfSt) :
    wfLines inc dir frozen isTop (a ++ b) w =
      (match wfLines inc dir frozen isTop a w with
       | none => none
       | some w' => wfLines inc dir frozen isTop b w') := by
  induction a generalizing w with
  | nil => rfl
  | cons x rest ih =>
    simp only [List.cons_append, wfLines]
    cases wfLine inc dir frozen isTop w x with
    | none => rfl
    | some w' => exact ih w'

/-- the scan of the flattened text as the one file of a tree; the include handler `incF` and the directory `dirF`
are arbitrary (the text contains no `#include` that the scan would follow: such a line is never copied) -/
def scanG (incF : Path → Bool → Bool → Option Bool) (dirF : Path) (out : List String) : Option WfSt :=
  wfLines incF dirF false true out { phase2 := false }

theorem scanG_snoc (incF : Path → Bool → Bool → Option Bool) (dirF : Path) (out : List String) (r : String) :
    scanG incF dirF (out ++ [r]) = (match scanG incF dirF out with
      | none => none
      | some w => wfLine incF dirF false true w r) := by
  unfold scanG
  rw [wfLines_append]
  cases wfLines incF dirF false true out { phase2 := false } with
  | none => rfl
  | some w =>
    simp only [wfLines]
    cases wfLine incF dirF false true w r <;> rfl

theorem relW_not_frozen_of_cond (wt wf : WfSt) (frozen : Bool) (fcw : Option (Bool × String))
    (R : RelW wt wf frozen fcw) (h : wt.cond.isSome = true) : frozen = false := by
  cases frozen with
  | false => rfl
  | true => have := R.cond; simp only [if_true] at this; rw [this.1] at h; cases h

/-- one line that is not an `#include` pragma: the flattened file's scan accepts it as well -/
theorem wline_noinc (wt wt1 wf : WfSt) (frozen isTop : Bool) (fcw : Option (Bool × String))
    (incW incF : Path → Bool → Bool → Option Bool) (dir dirF : Path) (raw : String)
    (hni : ∀ toks, classify raw = some (.pragma toks) → (toks.headD "" == "#include") = false)
    (R : RelW wt wf frozen fcw)
    (hw : wfLine incW dir frozen isTop wt raw = some wt1) :
    ∃ wf1, wfLine incF dirF false true wf raw = some wf1 ∧ RelW wt1 wf1 frozen fcw := by
  unfold wfLine at hw ⊢
  cases hcl : classify raw with
  | none =>
    simp only [hcl] at hw ⊢
    injection hw with hw; subst hw
    exact ⟨wf, rfl, R⟩
  | some line =>
    cases line with
    | star =>
      simp only [hcl] at hw ⊢
      injection hw with hw; subst hw
      exact ⟨wf, rfl, R⟩
    | badHeader => simp [hcl] at hw
    | header name =>
      simp only [hcl] at hw ⊢
      by_cases hm : (name == "moleculetype") = true
      · rw [if_pos hm] at hw ⊢
        split at hw
        · rename_i hcnd
          injection hw with hw; subst hw
          simp only [Bool.and_eq_true, Option.isNone_iff_eq_none, Bool.not_eq_true'] at hcnd
          obtain ⟨⟨hcw, hfz⟩, hsw⟩ := hcnd
          have hcf : wf.cond = none := by have := R.cond; simp only [hfz, Bool.false_eq_true, if_false] at this; rw [this, hcw]
          have hsf : wf.swallow = false := by rw [R.swallow, hsw]
          refine ⟨{ wf with phase2 := true, fresh := false, own := true, secMol := true, molSec := false }, ?_, ?_⟩
          · rw [if_pos (by simp [hcf, hsf])]
          · exact { phase := rfl, sync := fun _ => ⟨rfl, rfl⟩, swallow := R.swallow,
                    cond := (by simp only [hfz, Bool.false_eq_true, if_false]; show wf.cond = wt.cond; rw [hcf, hcw]),
                    ownT := fun _ => rfl, ownF := rfl, ownPhaseT := fun _ => rfl, condPhase := fun _ => hcf }
        · cases hw
      · rw [if_neg hm] at hw ⊢
        by_cases hsub : molSubsections.contains name = true
        · rw [if_pos hsub] at hw ⊢
          split at hw
          · rename_i hc
            injection hw with hw; subst hw
            simp only [Bool.and_eq_true, Bool.not_eq_true'] at hc
            obtain ⟨hf1, hs1⟩ := R.sync hc.1
            refine ⟨wf, ?_, R⟩
            rw [if_pos (by simp [hf1, hs1, hc.2])]
          · cases hw
        · rw [if_neg hsub] at hw ⊢
          split at hw
          · cases hw
          · rename_i hsw
            injection hw with hw; subst hw
            have hsf : wf.swallow = false := by rw [R.swallow]; simpa using hsw
            refine ⟨{ wf with fresh := false, secMol := false, molSec := name == "molecules" }, ?_, ?_⟩
            · rw [if_neg (by simp [hsf])]
            · exact { phase := R.phase, sync := fun _ => ⟨rfl, rfl⟩, swallow := R.swallow, cond := R.cond,
                      ownT := R.ownT, ownF := R.ownF, ownPhaseT := R.ownPhaseT, condPhase := R.condPhase }
    | content toks =>
      simp only [hcl] at hw ⊢
      split at hw
      · cases hw
      · rename_i hfr
        split at hw
        · cases hw
        · injection hw with hw; subst hw
          have hfresh : wt.fresh = false := by simpa using hfr
          refine ⟨wf, ?_, R⟩
          rw [if_neg (by simp [(R.sync hfresh).1]), if_neg (by simp)]
    | pragma toks =>
      simp only [hcl] at hw ⊢
      have hni' := hni toks hcl
      have hinM : (!wt.fresh && wt.own && wt.secMol) = true → (!wf.fresh && wf.own && wf.secMol) = true := by
        intro h
        simp only [Bool.and_eq_true, Bool.not_eq_true'] at h
        obtain ⟨hf1, hs1⟩ := R.sync h.1.1
        simp [hf1, hs1, R.ownT h.1.2, h.2]
      unfold wfPragma at hw ⊢
      simp only at hw ⊢
      by_cases c1 : (toks == ["#endif"]) = true
      · rw [if_pos c1] at hw ⊢
        by_cases hp : wt.phase2 = true
        · rw [if_pos hp] at hw; rw [if_pos (show wf.phase2 = true by rw [R.phase]; exact hp)]
          split at hw
          · rename_i hin
            injection hw with hw; subst hw
            refine ⟨{ wf with swallow := false }, ?_, ?_⟩
            · rw [if_pos (hinM hin)]
            · exact { phase := R.phase, sync := R.sync, swallow := rfl, cond := R.cond, ownT := R.ownT, ownF := R.ownF,
                      ownPhaseT := R.ownPhaseT, condPhase := R.condPhase }
          · cases hw
        · rw [if_neg hp] at hw; rw [if_neg (show ¬ wf.phase2 = true by rw [R.phase]; exact hp)]
          split at hw
          · rename_i hcs
            injection hw with hw; subst hw
            have hfz := relW_not_frozen_of_cond wt wf frozen fcw R hcs
            have hcf : wf.cond = wt.cond := by have := R.cond; simpa [hfz] using this
            refine ⟨{ wf with cond := none }, ?_, ?_⟩
            · rw [hcf, if_pos hcs]
            · exact { phase := R.phase, sync := R.sync, swallow := R.swallow, cond := (by simp [hfz]), ownT := R.ownT,
                      ownF := R.ownF, ownPhaseT := R.ownPhaseT, condPhase := fun _ => rfl }
          · cases hw
      · rw [if_neg c1] at hw ⊢
        by_cases c2 : startsWith (toks.headD "") "#else" = true
        · rw [if_pos c2] at hw ⊢
          split at hw
          · cases hw
          · rename_i hex
            rw [if_neg hex]
            by_cases hp : wt.phase2 = true
            · rw [if_pos hp] at hw; rw [if_pos (show wf.phase2 = true by rw [R.phase]; exact hp)]
              split at hw
              · rename_i hin
                injection hw with hw; subst hw
                refine ⟨wf, ?_, R⟩
                rw [if_pos (hinM hin)]
              · cases hw
            · rw [if_neg hp] at hw; rw [if_neg (show ¬ wf.phase2 = true by rw [R.phase]; exact hp)]
              cases hcw : wt.cond with
              | none => simp [hcw] at hw
              | some bt =>
                obtain ⟨b, t⟩ := bt
                simp only [hcw] at hw
                injection hw with hw; subst hw
                have hfz := relW_not_frozen_of_cond wt wf frozen fcw R (by simp [hcw])
                have hcf : wf.cond = some (b, t) := by have := R.cond; simp only [hfz, Bool.false_eq_true, if_false] at this; rw [this, hcw]
                refine ⟨{ wf with cond := some (!b, t) }, ?_, ?_⟩
                · rw [hcf]
                · exact { phase := R.phase, sync := R.sync, swallow := R.swallow, cond := (by simp [hfz]), ownT := R.ownT,
                          ownF := R.ownF, ownPhaseT := R.ownPhaseT,
                          condPhase := (fun h => absurd (R.phase ▸ h) hp) }
        · rw [if_neg c2] at hw ⊢
          by_cases c3 : (startsWith (toks.headD "") "#ifdef" || startsWith (toks.headD "") "#ifndef") = true
          · rw [if_pos c3] at hw ⊢
            match toks, hw with
            | [k, tag], hw =>
              simp only at hw ⊢
              split at hw
              · cases hw
              · rename_i hk
                rw [if_neg hk]
                by_cases hp : wt.phase2 = true
                · rw [if_pos hp] at hw; rw [if_pos (show wf.phase2 = true by rw [R.phase]; exact hp)]
                  split at hw
                  · rename_i hin
                    injection hw with hw; subst hw
                    refine ⟨{ wf with swallow := true }, ?_, ?_⟩
                    · rw [if_pos (hinM hin)]
                    · exact { phase := R.phase, sync := R.sync, swallow := rfl, cond := R.cond, ownT := R.ownT, ownF := R.ownF,
                              ownPhaseT := R.ownPhaseT, condPhase := R.condPhase }
                  · cases hw
                · rw [if_neg hp] at hw; rw [if_neg (show ¬ wf.phase2 = true by rw [R.phase]; exact hp)]
                  split at hw
                  · rename_i hcn
                    injection hw with hw; subst hw
                    simp only [Bool.and_eq_true, Option.isNone_iff_eq_none, Bool.not_eq_true'] at hcn
                    have hcf : wf.cond = none := by have := R.cond; simp only [hcn.2, Bool.false_eq_true, if_false] at this; rw [this, hcn.1]
                    refine ⟨{ wf with cond := some (k == "#ifdef", tag) }, ?_, ?_⟩
                    · rw [if_pos (by simp [hcf])]
                    · exact { phase := R.phase, sync := R.sync, swallow := R.swallow, cond := (by simp [hcn.2]), ownT := R.ownT,
                              ownF := R.ownF, ownPhaseT := R.ownPhaseT,
                              condPhase := (fun h => absurd (R.phase ▸ h) hp) }
                  · cases hw
            | [], hw => simp at hw
            | [_], hw => simp at hw
            | _ :: _ :: _ :: _, hw => simp at hw
          · rw [if_neg c3] at hw ⊢
            by_cases c4 : (toks.headD "" == "#define") = true
            · rw [if_pos c4] at hw ⊢
              split at hw
              · rename_i hcd
                injection hw with hw; subst hw
                simp only [Bool.and_eq_true, decide_eq_true_eq, Option.isNone_iff_eq_none, Bool.not_eq_true'] at hcd
                obtain ⟨⟨⟨hlen, hcw⟩, hfz⟩, hsw⟩ := hcd
                have hcf : wf.cond = none := by have := R.cond; simp only [hfz, Bool.false_eq_true, if_false] at this; rw [this, hcw]
                have hsf : wf.swallow = false := by rw [R.swallow, hsw]
                refine ⟨wf, ?_, R⟩
                rw [if_pos (by simp [hcf, hsf, hlen])]
              · cases hw
            · rw [if_neg c4] at hw ⊢
              by_cases c5 : (toks.headD "" == "#error") = true
              · rw [if_pos c5] at hw ⊢
                split at hw
                · cases hw
                · rename_i hsw
                  injection hw with hw; subst hw
                  have hsf : wf.swallow = false := by rw [R.swallow]; simpa using hsw
                  refine ⟨wf, ?_, R⟩
                  rw [if_neg (by simp [hsf])]
              · rw [if_neg c5, hni'] at hw
                simp at hw

/-- a line that is not an `#include` keeps `phase2` or sets it -/
theorem wfLine_mono_noinc (incW : Path → Bool → Bool → Option Bool) (dir : Path) (frozen isTop : Bool) (w w1 : WfSt)
    (raw : String)
    (hni : ∀ toks, classify raw = some (.pragma toks) → (toks.headD "" == "#include") = false)
    (hw : wfLine incW dir frozen isTop w raw = some w1) (hp : w.phase2 = true) : w1.phase2 = true := by
  unfold wfLine at hw
  cases hcl : classify raw with
  | none => simp only [hcl] at hw; injection hw with hw; subst hw; exact hp
  | some line =>
    cases line with
    | star => simp only [hcl] at hw; injection hw with hw; subst hw; exact hp
    | badHeader => simp [hcl] at hw
    | header name =>
      simp only [hcl] at hw
      by_cases hm : (name == "moleculetype") = true
      · rw [if_pos hm] at hw
        split at hw
        · injection hw with hw; subst hw; rfl
        · cases hw
      · rw [if_neg hm] at hw
        by_cases hsub : molSubsections.contains name = true
        · rw [if_pos hsub] at hw
          split at hw
          · injection hw with hw; subst hw; exact hp
          · cases hw
        · rw [if_neg hsub] at hw
          split at hw
          · cases hw
          · injection hw with hw; subst hw; exact hp
    | content toks =>
      simp only [hcl] at hw
      split at hw
      · cases hw
      · split at hw
        · cases hw
        · injection hw with hw; subst hw; exact hp
    | pragma toks =>
      simp only [hcl] at hw
      rw [wfPragma_phase incW dir frozen w w1 toks (hni toks hcl) hw]; exact hp

/-- the flattener's open conditional `c` follows the scan state of the tree (`cond` while conditionals are
evaluated, "none unless inside a stored conditional" afterwards) across a line that is not an `#include`,
and the line is copied to the output -/
theorem ctrack_noinc (w w1 : WfSt) (frozen isTop : Bool) (incW : Path → Bool → Bool → Option Bool)
    (incF : Path → FlatSt → Except String FlatSt) (dir : Path)
    (c c1 : Option (Bool × String)) (fst fst1 : FlatSt) (raw : String)
    (hni : ∀ toks, classify raw = some (.pragma toks) → (toks.headD "" == "#include") = false)
    (hpc : w.phase2 = true → w.cond = none)
    (hc : w.swallow = false → c = w.cond)
    (hw : wfLine incW dir frozen isTop w raw = some w1)
    (hf : flatLine incF dir c fst raw = .ok (c1, fst1)) :
    fst1.out = fst.out ++ [raw] ∧ (w1.swallow = false → c1 = w1.cond) := by
  unfold wfLine at hw
  unfold flatLine at hf
  cases hcl : classify raw with
  | none =>
    simp only [hcl] at hw hf
    injection hw with hw; subst hw
    injection hf with hf; injection hf with h1 h2; subst h1 h2
    exact ⟨rfl, hc⟩
  | some line =>
    cases line with
    | star =>
      simp only [hcl] at hw hf
      injection hw with hw; subst hw
      injection hf with hf; injection hf with h1 h2; subst h1 h2
      exact ⟨rfl, hc⟩
    | badHeader => simp [hcl] at hw
    | header name =>
      simp only [hcl] at hw hf
      injection hf with hf; injection hf with h1 h2; subst h1 h2
      refine ⟨rfl, ?_⟩
      by_cases hm : (name == "moleculetype") = true
      · rw [if_pos hm] at hw
        split at hw
        · injection hw with hw; subst hw; exact hc
        · cases hw
      · rw [if_neg hm] at hw
        by_cases hsub : molSubsections.contains name = true
        · rw [if_pos hsub] at hw
          split at hw
          · injection hw with hw; subst hw; exact hc
          · cases hw
        · rw [if_neg hsub] at hw
          split at hw
          · cases hw
          · injection hw with hw; subst hw; exact hc
    | content toks =>
      simp only [hcl] at hw hf
      injection hf with hf; injection hf with h1 h2; subst h1 h2
      refine ⟨rfl, ?_⟩
      split at hw
      · cases hw
      · split at hw
        · cases hw
        · injection hw with hw; subst hw; exact hc
    | pragma toks =>
      simp only [hcl] at hw hf
      have hni' := hni toks hcl
      refine ⟨flatPragma_noinc_out incF dir c c1 fst fst1 raw toks hni' hf, ?_⟩
      unfold wfPragma at hw
      unfold flatPragma at hf
      simp only at hw hf
      by_cases k1 : (toks == ["#endif"]) = true
      · rw [if_pos k1] at hw hf
        injection hf with hf; injection hf with h1 _; subst h1
        by_cases hp : w.phase2 = true
        · rw [if_pos hp] at hw
          split at hw
          · injection hw with hw; subst hw
            intro _; exact (hpc hp).symm
          · cases hw
        · rw [if_neg hp] at hw
          split at hw
          · injection hw with hw; subst hw
            intro _; rfl
          · cases hw
      · rw [if_neg k1] at hw hf
        by_cases k2 : startsWith (toks.headD "") "#else" = true
        · rw [if_pos k2] at hw hf
          injection hf with hf; injection hf with h1 _; subst h1
          split at hw
          · cases hw
          · by_cases hp : w.phase2 = true
            · rw [if_pos hp] at hw
              split at hw
              · injection hw with hw; subst hw
                intro hs
                rw [hc hs, hpc hp]; rfl
              · cases hw
            · rw [if_neg hp] at hw
              cases hcw : w.cond with
              | none => simp [hcw] at hw
              | some bt =>
                obtain ⟨b, t⟩ := bt
                simp only [hcw] at hw
                injection hw with hw; subst hw
                intro hs
                rw [hc hs, hcw]; rfl
        · rw [if_neg k2] at hw hf
          by_cases k3 : (startsWith (toks.headD "") "#ifdef" || startsWith (toks.headD "") "#ifndef") = true
          · rw [if_pos k3] at hw hf
            match toks, hw, hf with
            | [k, tag], hw, hf =>
              simp only at hw hf
              injection hf with hf; injection hf with h1 _; subst h1
              split at hw
              · cases hw
              · by_cases hp : w.phase2 = true
                · rw [if_pos hp] at hw
                  split at hw
                  · injection hw with hw; subst hw
                    intro hs; cases hs
                  · cases hw
                · rw [if_neg hp] at hw
                  split at hw
                  · injection hw with hw; subst hw
                    intro _; rfl
                  · cases hw
            | [], hw, _ => simp at hw
            | [_], hw, _ => simp at hw
            | _ :: _ :: _ :: _, hw, _ => simp at hw
          · rw [if_neg k3] at hw hf
            by_cases k4 : (toks.headD "" == "#define") = true
            · rw [if_pos k4] at hw hf
              have hcc : c1 = c := by
                split at hf <;> (injection hf with hf; injection hf with h1 _; exact h1.symm)
              split at hw
              · injection hw with hw; subst hw
                rw [hcc]; exact hc
              · cases hw
            · rw [if_neg k4] at hw hf
              by_cases k5 : (toks.headD "" == "#error") = true
              · rw [if_pos k5] at hw hf
                injection hf with hf; injection hf with h1 _; subst h1
                split at hw
                · cases hw
                · injection hw with hw; subst hw; exact hc
              · rw [if_neg k5, hni'] at hw
                simp at hw

/-! ### `#include` -/

/-- in the tree scan, `cond` is `none` once a moleculetype has been seen -/
theorem relW_condT (wt wf : WfSt) (frozen : Bool) (fcw : Option (Bool × String)) (R : RelW wt wf frozen fcw)
    (hp : wt.phase2 = true) : wt.cond = none := by
  have hc := R.condPhase (by rw [R.phase]; exact hp)
  have := R.cond
  cases frozen with
  | true => simp only [if_true] at this; exact this.1
  | false => simp only [Bool.false_eq_true, if_false] at this; rw [← this]; exact hc

/-- forgetting that a header has been seen only weakens the relation -/
theorem relW_fresh (wt wf : WfSt) (frozen : Bool) (fcw : Option (Bool × String)) (ph : Bool) (hph : ph = wt.phase2)
    (R : RelW wt wf frozen fcw) : RelW { wt with phase2 := ph, fresh := true } wf frozen fcw := by
  subst hph
  exact { phase := R.phase, sync := (fun h => (by cases h)), swallow := R.swallow, cond := R.cond, ownT := R.ownT,
          ownF := R.ownF, ownPhaseT := R.ownPhaseT, condPhase := R.condPhase }

/-- entering an included file -/
theorem relW_child_start (wt wf : WfSt) (frozen : Bool) (fcw : Option (Bool × String)) (R : RelW wt wf frozen fcw)
    (hsw : wt.swallow = false) :
    RelW { phase2 := wt.phase2 } wf (frozen || wt.cond.isSome) (if frozen then fcw else wf.cond) := by
  refine { phase := R.phase, sync := (fun h => (by cases h)), swallow := (by rw [R.swallow, hsw]), cond := ?_,
           ownT := (fun h => (by cases h)), ownF := R.ownF, ownPhaseT := (fun h => (by cases h)),
           condPhase := R.condPhase }
  have hp := R.cond
  cases hfz : frozen with
  | true =>
    simp only [hfz, if_true] at hp
    simp only [Bool.true_or, if_true]
    exact ⟨trivial, hp.2.1, hp.2.2⟩
  | false =>
    simp only [hfz, Bool.false_eq_true, if_false] at hp
    cases hcs : wt.cond.isSome with
    | true =>
      simp only [Bool.false_or, if_true, Bool.false_eq_true, if_false]
      exact ⟨trivial, trivial, by rw [hp]; exact hcs⟩
    | false =>
      simp only [Bool.false_or, Bool.false_eq_true, if_false]
      show wf.cond = none
      rw [hp]
      cases hw : wt.cond with
      | none => rfl
      | some p => rw [hw] at hcs; cases hcs

/-- returning from an included file -/
theorem relW_after_child (wt wf wc wf' : WfSt) (frozen : Bool) (fcw : Option (Bool × String)) (ph : Bool)
    (R : RelW wt wf frozen fcw)
    (Rc : RelW wc wf' (frozen || wt.cond.isSome) (if frozen then fcw else wf.cond))
    (hcond : wc.cond = none) (hswc : wc.swallow = false) (hsw : wt.swallow = false) (hph : wc.phase2 = ph)
    (hmono : wt.phase2 = true → ph = true) :
    RelW { wt with phase2 := ph, fresh := true } wf' frozen fcw := by
  refine { phase := (by show wf'.phase2 = ph; rw [Rc.phase, hph]), sync := (fun h => (by cases h)),
           swallow := (by show wf'.swallow = wt.swallow; rw [Rc.swallow, hswc, hsw]), cond := ?_,
           ownT := ?_, ownF := Rc.ownF, ownPhaseT := (fun h => hmono (R.ownPhaseT h)), condPhase := Rc.condPhase }
  · have hp := R.cond
    have hcc := Rc.cond
    cases hfz : frozen with
    | true =>
      simp only [hfz, if_true] at hp
      simp only [hfz, Bool.true_or, if_true] at hcc
      simp only [if_true]
      exact ⟨hp.1, hcc.2.1, hp.2.2⟩
    | false =>
      simp only [hfz, Bool.false_eq_true, if_false] at hp
      simp only [Bool.false_eq_true, if_false]
      show wf'.cond = wt.cond
      cases hcs : wt.cond.isSome with
      | true =>
        simp only [hfz, hcs, Bool.or_true, if_true, Bool.false_eq_true, if_false] at hcc
        rw [hcc.2.1, hp]
      | false =>
        simp only [hfz, hcs, Bool.or_false, Bool.false_eq_true, if_false] at hcc
        rw [hcc, hcond]
        cases hw : wt.cond with
        | none => rfl
        | some p => rw [hw] at hcs; cases hcs
  · intro h
    show wf'.own = true
    rw [Rc.ownF, Rc.phase, hph]
    exact hmono (R.ownPhaseT h)

/-- the statement proved by induction on the include depth: an included file -/
def WFile (fs : FS) (incF : Path → Bool → Bool → Option Bool) (dirF : Path) (fuel : Nat) : Prop :=
  ∀ (path : Path) (frozen ph ph' : Bool) (fcw : Option (Bool × String)) (fst fst' : FlatSt) (wf : WfSt),
    wfFile fs fuel false path frozen ph = some ph' →
    flattenFile fs fuel path fst = .ok fst' →
    scanG incF dirF fst.out = some wf →
    RelW { phase2 := ph } wf frozen fcw →
    ∃ wf' wc, scanG incF dirF fst'.out = some wf' ∧ RelW wc wf' frozen fcw ∧
      wc.cond = none ∧ wc.swallow = false ∧ wc.phase2 = ph' ∧ (ph = true → ph' = true)

theorem holds_none (defs : List String) : holds defs none = true := rfl

theorem winclude (fs : FS) (incF : Path → Bool → Bool → Option Bool) (dirF : Path) (fuel : Nat)
    (IH : WFile fs incF dirF fuel)
    (w w' wf : WfSt) (frozen : Bool) (fcw : Option (Bool × String))
    (dir : Path) (c c' : Option (Bool × String)) (fst fst' : FlatSt) (raw : String) (toks : List String)
    (hinc : (toks.headD "" == "#include") = true)
    (R : RelW w wf frozen fcw) (hc : w.swallow = false → c = w.cond)
    (hscan : scanG incF dirF fst.out = some wf)
    (hw : wfPragma (fun p fr ph => wfFile fs fuel false p fr ph) dir frozen w toks = some w')
    (hf : flatPragma (flattenFile fs fuel) dir c fst raw toks = .ok (c', fst')) :
    (w'.swallow = false → c' = w'.cond) ∧ (w.phase2 = true → w'.phase2 = true) ∧
      ∃ wf', scanG incF dirF fst'.out = some wf' ∧ RelW w' wf' frozen fcw := by
  obtain ⟨k1, k2, k3, k4, k5⟩ := include_consts toks hinc
  unfold wfPragma at hw
  unfold flatPragma at hf
  simp only [k1, k2, k3, k4, k5, hinc, Bool.false_eq_true, if_false, if_true] at hw hf
  match toks, hw, hf with
  | _ :: p :: _, hw, hf =>
    simp only at hw hf
    split at hw
    · cases hw
    · rename_i hsw
      have hsw' : w.swallow = false := by simpa using hsw
      have hcc : c = w.cond := hc hsw'
      cases hn : normPath (dir ++ splitPath (includePath p)) with
      | none => simp [hn] at hw
      | some full =>
        simp only [hn] at hw hf
        cases hwf : wfFile fs fuel false full (frozen || w.cond.isSome) w.phase2 with
        | none => simp [hwf] at hw
        | some ph =>
          simp only [hwf] at hw
          injection hw with hw; subst hw
          have hfrz : (frozen || w.cond.isSome) = true → ph = w.phase2 := by
            intro hfz
            rw [hfz] at hwf
            exact wfFile_frozen fs fuel false full w.phase2 ph hwf
          cases hho : holds fst.defs c with
          | false =>
            -- the include is switched off: nothing is emitted
            simp only [hho, Bool.false_eq_true, if_false] at hf
            injection hf with hf; injection hf with hc' hfst; subst hc' hfst
            have hcs : w.cond.isSome = true := by
              cases hwc : w.cond with
              | some x => rfl
              | none => rw [hcc, hwc, holds_none] at hho; cases hho
            have hph : ph = w.phase2 := hfrz (by simp [hcs])
            exact ⟨fun _ => hcc, fun h => by rw [hph]; exact h, wf, hscan, relW_fresh w wf frozen fcw ph hph R⟩
          | true =>
            simp only [hho, if_true] at hf
            cases hff : flattenFile fs fuel full fst with
            | error e => simp [hff, Except.map] at hf
            | ok fst1 =>
              simp only [hff, Except.map] at hf
              injection hf with hf; injection hf with hc' hfst; subst hc' hfst
              have Rstart := relW_child_start w wf frozen fcw R hsw'
              obtain ⟨wf', wc, hscan', Rc, hcnone, hswc, hphc, hmono⟩ :=
                IH full (frozen || w.cond.isSome) w.phase2 ph _ fst fst1 wf hwf hff hscan Rstart
              exact ⟨fun _ => hcc, hmono, wf', hscan',
                relW_after_child w wf wc wf' frozen fcw ph R Rc hcnone hswc hsw' hphc hmono⟩
  | [], hw, _ => simp at hw
  | [_], hw, _ => simp at hw

/-! ### one line, all lines, a whole file -/

theorem wline (fs : FS) (incF : Path → Bool → Bool → Option Bool) (dirF : Path) (fuel : Nat)
    (IH : WFile fs incF dirF fuel)
    (w w1 wf : WfSt) (frozen isTop : Bool) (fcw : Option (Bool × String))
    (dir : Path) (c c1 : Option (Bool × String)) (fst fst1 : FlatSt) (raw : String)
    (R : RelW w wf frozen fcw) (hc : w.swallow = false → c = w.cond)
    (hscan : scanG incF dirF fst.out = some wf)
    (hw : wfLine (fun p fr ph => wfFile fs fuel false p fr ph) dir frozen isTop w raw = some w1)
    (hf : flatLine (flattenFile fs fuel) dir c fst raw = .ok (c1, fst1)) :
    (w1.swallow = false → c1 = w1.cond) ∧ (w.phase2 = true → w1.phase2 = true) ∧
      ∃ wf1, scanG incF dirF fst1.out = some wf1 ∧ RelW w1 wf1 frozen fcw := by
  by_cases hinc : ∃ toks, classify raw = some (.pragma toks) ∧ (toks.headD "" == "#include") = true
  · obtain ⟨toks, hcl, hi⟩ := hinc
    unfold wfLine at hw
    unfold flatLine at hf
    simp only [hcl] at hw hf
    exact winclude fs incF dirF fuel IH w w1 wf frozen fcw dir c c1 fst fst1 raw toks hi R hc hscan hw hf
  · have hni : ∀ toks, classify raw = some (.pragma toks) → (toks.headD "" == "#include") = false := by
      intro toks hcl
      cases hh : (toks.headD "" == "#include") with
      | false => rfl
      | true => exact absurd ⟨toks, hcl, hh⟩ hinc
    obtain ⟨hout, hc1⟩ := ctrack_noinc w w1 frozen isTop _ _ dir c c1 fst fst1 raw hni
      (relW_condT w wf frozen fcw R) hc hw hf
    obtain ⟨wf1, hwf1, R1⟩ := wline_noinc w w1 wf frozen isTop fcw _ incF dir dirF raw hni R hw
    refine ⟨hc1, wfLine_mono_noinc _ dir frozen isTop w w1 raw hni hw, wf1, ?_, R1⟩
    rw [hout, scanG_snoc, hscan]
    exact hwf1

theorem wlines (fs : FS) (incF : Path → Bool → Bool → Option Bool) (dirF : Path) (fuel : Nat)
    (IH : WFile fs incF dirF fuel) (frozen isTop : Bool) (fcw : Option (Bool × String)) (dir : Path) :
    ∀ (raws : List String) (w w' wf : WfSt) (c : Option (Bool × String)) (fst fst' : FlatSt),
      wfLines (fun p fr ph => wfFile fs fuel false p fr ph) dir frozen isTop raws w = some w' →
      flattenLines (flattenFile fs fuel) dir raws c fst = .ok fst' →
      scanG incF dirF fst.out = some wf →
      RelW w wf frozen fcw → (w.swallow = false → c = w.cond) →
      (w.phase2 = true → w'.phase2 = true) ∧
        ∃ wf', scanG incF dirF fst'.out = some wf' ∧ RelW w' wf' frozen fcw := by
  intro raws
  induction raws with
  | nil =>
    intro w w' wf c fst fst' hw hf hscan R _
    simp only [wfLines] at hw
    simp only [flattenLines] at hf
    injection hw with hw; subst hw
    injection hf with hf; subst hf
    exact ⟨id, wf, hscan, R⟩
  | cons raw rest ih =>
    intro w w' wf c fst fst' hw hf hscan R hc
    simp only [wfLines] at hw
    simp only [flattenLines] at hf
    cases hw1 : wfLine (fun p fr ph => wfFile fs fuel false p fr ph) dir frozen isTop w raw with
    | none => simp [hw1] at hw
    | some w1 =>
      simp only [hw1] at hw
      cases hf1 : flatLine (flattenFile fs fuel) dir c fst raw with
      | error e => simp [hf1] at hf
      | ok r =>
        obtain ⟨c1, fst1⟩ := r
        simp only [hf1] at hf
        obtain ⟨hc1, hm1, wf1, hscan1, R1⟩ := wline fs incF dirF fuel IH w w1 wf frozen isTop fcw dir c c1 fst fst1 raw
          R hc hscan hw1 hf1
        obtain ⟨hm2, wf', hscan', R'⟩ := ih w1 w' wf1 c1 fst1 fst' hw hf hscan1 R1 hc1
        exact ⟨fun h => hm2 (hm1 h), wf', hscan', R'⟩

theorem wfile (fs : FS) (incF : Path → Bool → Bool → Option Bool) (dirF : Path) : ∀ fuel, WFile fs incF dirF fuel := by
  intro fuel
  induction fuel with
  | zero =>
    intro path frozen ph ph' fcw fst fst' wf hw
    simp [wfFile] at hw
  | succ fuel IH =>
    intro path frozen ph ph' fcw fst fst' wf hw hf hscan R
    unfold wfFile at hw
    unfold flattenFile at hf
    cases hget : fsGet fs path with
    | none => simp [hget] at hw
    | some raws =>
      simp only [hget] at hw hf
      cases hwl : wfLines (fun p fr ph => wfFile fs fuel false p fr ph) path.dropLast frozen false raws { phase2 := ph } with
      | none => simp [hwl] at hw
      | some w' =>
        simp only [hwl] at hw
        split at hw
        · rename_i hend
          injection hw with hw
          simp only [Bool.and_eq_true, Option.isNone_iff_eq_none, Bool.not_eq_true'] at hend
          obtain ⟨hmono, wf', hscan', R'⟩ := wlines fs incF dirF fuel IH frozen false fcw path.dropLast raws
            { phase2 := ph } w' wf none fst fst' hwl hf hscan R (fun _ => rfl)
          exact ⟨wf', w', hscan', R', hend.1.1, hend.1.2, hw, fun h => by rw [← hw]; exact hmono h⟩
        · cases hw

/-! ### the top file -/

theorem relW_init : RelW { phase2 := false } { phase2 := false } false none :=
  { phase := rfl, sync := (fun h => (by cases h)), swallow := rfl, cond := rfl, ownT := (fun h => (by cases h)),
    ownF := rfl, ownPhaseT := (fun h => (by cases h)), condPhase := (fun h => (by cases h)) }

/-- the scan of the flattened text of a well-formed tree succeeds as the scan of a top file, whatever the include
handler `incF` and the directory `dirF` of that scan, and ends outside every conditional -/
theorem flatten_scan (fs : FS) (top : Path) (st : FlatSt) (incF : Path → Bool → Bool → Option Bool) (dirF : Path)
    (hwf : wellFormed fs top = true) (hfl : flatten fs top = .ok st) :
    ∃ wf', scanG incF dirF st.out = some wf' ∧ wf'.cond = none ∧ wf'.swallow = false := by
  unfold wellFormed at hwf
  unfold flatten at hfl
  cases hw : wfFile fs (fs.length + 1) true top false false with
  | none => rw [hw] at hwf; cases hwf
  | some ph' =>
    unfold wfFile at hw
    unfold flattenFile at hfl
    cases hget : fsGet fs top with
    | none => simp [hget] at hw
    | some raws =>
      simp only [hget] at hw hfl
      cases hwl : wfLines (fun p fr ph => wfFile fs fs.length false p fr ph) top.dropLast false true raws { phase2 := false } with
      | none => simp [hwl] at hw
      | some w' =>
        simp only [hwl] at hw
        split at hw
        · rename_i hend
          simp only [Bool.and_eq_true, Option.isNone_iff_eq_none, Bool.not_eq_true'] at hend
          obtain ⟨_, wf', hscan', R'⟩ := wlines fs incF dirF
            fs.length (wfile fs _ _ fs.length) false true none top.dropLast raws
            { phase2 := false } w' { phase2 := false } none {} st hwl hfl rfl relW_init (fun _ => rfl)
          have hcond : wf'.cond = none := by
            have := R'.cond
            simp only [Bool.false_eq_true, if_false] at this
            rw [this]; exact hend.1.1
          have hswal : wf'.swallow = false := by rw [R'.swallow]; exact hend.1.2
          exact ⟨wf', hscan', hcond, hswal⟩
        · cases hw

theorem fsGet_single (p : Path) (out : List String) : fsGet [(p, out)] p = some out := by
  simp [fsGet, List.find?]

/-- **The flattened text of a well-formed include tree is well formed as a one-file tree** (whatever the name `p`
of that file). -/
theorem wellFormed_flatten (fs : FS) (top : Path) (st : FlatSt) (p : Path)
    (hwf : wellFormed fs top = true) (hfl : flatten fs top = .ok st) :
    wellFormed [(p, st.out)] p = true := by
  obtain ⟨wf', hscan', hcond, hswal⟩ := flatten_scan fs top st
    (fun q fr ph => wfFile [(p, st.out)] 1 false q fr ph) p.dropLast hwf hfl
  unfold wellFormed
  show (wfFile [(p, st.out)] (1 + 1) true p false false).isSome = true
  unfold wfFile
  simp only [fsGet_single]
  unfold scanG at hscan'
  rw [hscan']
  simp [hcond, hswal]

/-! ### the flattened text contains no `#include`: flattening it again changes nothing, and the tree reader reads
the one-file tree like the single-file reader -/

/-- no line is an `#include` pragma -/
def NoIncl (raws : List String) : Prop :=
  ∀ raw ∈ raws, ∀ toks, classify raw = some (.pragma toks) → (toks.headD "" == "#include") = false

/-- a scan whose include handler rejects everything accepts no `#include` line at all -/
theorem wfLine_none_noinc (dir : Path) (frozen isTop : Bool) (w w1 : WfSt) (raw : String)
    (hw : wfLine (fun _ _ _ => none) dir frozen isTop w raw = some w1) :
    ∀ toks, classify raw = some (.pragma toks) → (toks.headD "" == "#include") = false := by
  intro toks hcl
  cases hinc : (toks.headD "" == "#include") with
  | false => rfl
  | true =>
    exfalso
    unfold wfLine at hw
    simp only [hcl] at hw
    obtain ⟨k1, k2, k3, k4, k5⟩ := include_consts toks hinc
    unfold wfPragma at hw
    simp only [k1, k2, k3, k4, k5, hinc, Bool.false_eq_true, if_false, if_true] at hw
    match toks, hw with
    | _ :: p :: _, hw =>
      simp only at hw
      split at hw
      · cases hw
      · cases hn : normPath (dir ++ splitPath (includePath p)) with
        | none => simp [hn] at hw
        | some full => simp [hn] at hw
    | [], hw => simp at hw
    | [_], hw => simp at hw

theorem wfLines_none_noIncl (dir : Path) (frozen isTop : Bool) :
    ∀ (raws : List String) (w w' : WfSt), wfLines (fun _ _ _ => none) dir frozen isTop raws w = some w' → NoIncl raws := by
  intro raws
  induction raws with
  | nil => intro w w' _ raw hm; cases hm
  | cons r rest ih =>
    intro w w' h raw hm
    simp only [wfLines] at h
    cases h1 : wfLine (fun _ _ _ => none) dir frozen isTop w r with
    | none => simp [h1] at h
    | some w1 =>
      simp only [h1] at h
      rcases List.mem_cons.mp hm with e | hm'
      · subst e; exact wfLine_none_noinc dir frozen isTop w w1 raw h1
      · exact ih w1 w' h raw hm'

/-- the flattened text of a well-formed tree contains no `#include` line -/
theorem flatten_noIncl (fs : FS) (top : Path) (st : FlatSt)
    (hwf : wellFormed fs top = true) (hfl : flatten fs top = .ok st) : NoIncl st.out := by
  obtain ⟨wf', hscan', _, _⟩ := flatten_scan fs top st (fun _ _ _ => none) [] hwf hfl
  exact wfLines_none_noIncl [] false true st.out _ wf' hscan'

theorem flatPragma_noinc_ok (inc : Path → FlatSt → Except String FlatSt) (dir : Path)
    (c : Option (Bool × String)) (st : FlatSt) (raw : String) (toks : List String)
    (hni : (toks.headD "" == "#include") = false) :
    ∃ c' st', flatPragma inc dir c st raw toks = .ok (c', st') := by
  unfold flatPragma
  simp only
  by_cases c1 : (toks == ["#endif"]) = true
  · rw [if_pos c1]; exact ⟨_, _, rfl⟩
  · rw [if_neg c1]
    by_cases c2 : startsWith (toks.headD "") "#else" = true
    · rw [if_pos c2]; exact ⟨_, _, rfl⟩
    · rw [if_neg c2]
      by_cases c3 : (startsWith (toks.headD "") "#ifdef" || startsWith (toks.headD "") "#ifndef") = true
      · rw [if_pos c3]; split <;> exact ⟨_, _, rfl⟩
      · rw [if_neg c3]
        by_cases c4 : (toks.headD "" == "#define") = true
        · rw [if_pos c4]; split <;> exact ⟨_, _, rfl⟩
        · rw [if_neg c4]
          by_cases c5 : (toks.headD "" == "#error") = true
          · rw [if_pos c5]; exact ⟨_, _, rfl⟩
          · rw [if_neg c5, hni]
            simp only [Bool.false_eq_true, if_false]
            exact ⟨_, _, rfl⟩

theorem flatLine_noinc_ok (inc : Path → FlatSt → Except String FlatSt) (dir : Path)
    (c : Option (Bool × String)) (st : FlatSt) (raw : String)
    (hni : ∀ toks, classify raw = some (.pragma toks) → (toks.headD "" == "#include") = false) :
    ∃ c' st', flatLine inc dir c st raw = .ok (c', st') ∧ st'.out = st.out ++ [raw] := by
  unfold flatLine
  split
  · rename_i toks hcl
    obtain ⟨c', st', h⟩ := flatPragma_noinc_ok inc dir c st raw toks (hni toks hcl)
    exact ⟨c', st', h, flatPragma_noinc_out inc dir c c' st st' raw toks (hni toks hcl) h⟩
  · exact ⟨_, _, rfl, rfl⟩

/-- flattening a text without `#include` copies it -/
theorem flattenLines_noIncl (inc : Path → FlatSt → Except String FlatSt) (dir : Path) :
    ∀ (raws : List String) (c : Option (Bool × String)) (st : FlatSt), NoIncl raws →
      ∃ st', flattenLines inc dir raws c st = .ok st' ∧ st'.out = st.out ++ raws := by
  intro raws
  induction raws with
  | nil => intro c st _; exact ⟨st, rfl, by simp⟩
  | cons r rest ih =>
    intro c st hn
    obtain ⟨c1, st1, h1, e1⟩ := flatLine_noinc_ok inc dir c st r (hn r (List.mem_cons_self ..))
    obtain ⟨st', h2, e2⟩ := ih c1 st1 (fun raw hm => hn raw (List.mem_cons_of_mem _ hm))
    refine ⟨st', ?_, ?_⟩
    · simp only [flattenLines, h1]; exact h2
    · rw [e2, e1, List.append_assoc]; rfl

/-- **Flattening is idempotent on well-formed trees**: the one-file tree holding the flattened text flattens to the
same text. -/
theorem flatten_idem (fs : FS) (top : Path) (st : FlatSt) (p : Path)
    (hwf : wellFormed fs top = true) (hfl : flatten fs top = .ok st) :
    ∃ st2, flatten [(p, st.out)] p = .ok st2 ∧ st2.out = st.out := by
  have hn := flatten_noIncl fs top st hwf hfl
  unfold flatten
  show ∃ st2, flattenFile [(p, st.out)] (1 + 1) p {} = .ok st2 ∧ st2.out = st.out
  unfold flattenFile
  simp only [fsGet_single]
  obtain ⟨st', h, e⟩ := flattenLines_noIncl (flattenFile [(p, st.out)] 1) p.dropLast st.out none {} hn
  exact ⟨st', h, by rw [e]; rfl⟩

theorem doPragma_noinc (inc inc' : Path → Glob → Except String Glob) (dir dir' : Path) (g : Glob) (l : Loc)
    (toks : List String) (hni : (toks.headD "" == "#include") = false) :
    doPragma inc dir g l toks = doPragma inc' dir' g l toks := by
  unfold doPragma
  simp only [hni, Bool.false_eq_true, if_false]

theorem treeLine_noinc (inc inc' : Path → Glob → Except String Glob) (dir dir' : Path) (s : Glob × Loc) (raw : String)
    (hni : ∀ toks, classify raw = some (.pragma toks) → (toks.headD "" == "#include") = false) :
    treeLine inc dir s raw = treeLine inc' dir' s raw := by
  unfold treeLine
  cases hcl : classify raw with
  | none => rfl
  | some line =>
    cases line with
    | pragma toks => simp only [step]; exact doPragma_noinc inc inc' dir dir' s.1 s.2 toks (hni toks hcl)
    | star => rfl
    | badHeader => rfl
    | header name => rfl
    | content toks => rfl

/-- on a text without `#include` the director does not depend on the include handler nor on the directory -/
theorem runLines_noIncl (inc inc' : Path → Glob → Except String Glob) (dir dir' : Path) :
    ∀ (raws : List String) (s : Glob × Loc), NoIncl raws →
      runLines inc dir (parseLines raws) s = runLines inc' dir' (parseLines raws) s := by
  intro raws
  induction raws with
  | nil => intro s _; rfl
  | cons r rest ih =>
    intro s hn
    rw [runLines_parse_cons, runLines_parse_cons, treeLine_noinc inc inc' dir dir' s r (hn r (List.mem_cons_self ..))]
    cases treeLine inc' dir' s r with
    | error e => rfl
    | ok s' => exact ih s' (fun raw hm => hn raw (List.mem_cons_of_mem _ hm))

/-- the tree reader on a one-file tree without `#include` is the single-file reader -/
theorem readTop_single (p : Path) (out : List String) (hn : NoIncl out) :
    readTop [(p, out)] p = readSingle out := by
  unfold readTop readSingle
  show readFile [(p, out)] (1 + 1) p {} = _
  unfold readFile
  simp only [fsGet_single]
  rw [runLines_noIncl (readFile [(p, out)] 1) (fun _ _ => .error "include-in-single-file") p.dropLast [] out ({}, {}) hn]

end PolyplyVerif.Proofs.C08Flatten
