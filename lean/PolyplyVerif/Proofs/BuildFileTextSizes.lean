/-
The bridge `Model/BuildFileTextSizes.lean`: the `BfOp`s handed to C15's precedence model are exactly the
`[ volumes ]` lines and the finished templates of the text, in file order.
-/
import PolyplyVerif.Model.BuildFileTextSizes
import PolyplyVerif.Proofs.BuildFileText

namespace PolyplyVerif.Proofs.BuildFileText
open PolyplyVerif PolyplyVerif.BuildFile PolyplyVerif.BuildFileText PolyplyVerif.Proofs.BuildFile
open PolyplyVerif.Templ

def volPart : BfOp Rat → Option (String × Rat)
  | .volume r v => some (r, v)
  | _ => none

def tplPart : BfOp Rat → Option (String × String × Rot.Template Rat × Rat)
  | .template r h c v => some (r, h, c, v)
  | _ => none

def mkTpl (p : TemplateDef × (String × Rat)) : String × String × Rot.Template Rat × Rat :=
  (p.1.resname, p.2.1, p.1.coords, p.2.2)

theorem zip_snoc {α β} : ∀ (l : List α) (t : α) (r : List β) (o : β), r[l.length]? = some o →
    (l ++ [t]).zip r = l.zip r ++ [(t, o)] := by
  intro l
  induction l with
  | nil =>
    intro t r o h
    cases r with
    | nil => simp at h
    | cons y ys => simp at h; subst h; simp
  | cons x xs ih =>
    intro t r o h
    cases r with
    | nil => simp at h
    | cons y ys =>
      simp only [List.length_cons, List.getElem?_cons_succ] at h
      simp [ih t ys o h]

theorem templateStep_done (st st' : TState) (e : Event) (h : templateStep st e = .ok st') :
    (e ≠ .endTemplate → st'.done = st.done) ∧ (e = .endTemplate → ∃ t, st'.done = st.done ++ [t]) := by
  cases e with
  | endTemplate =>
    refine ⟨fun hne => absurd rfl hne, fun _ => ?_⟩
    simp only [templateStep] at h
    cases hc : st.cur with
    | none => simp [hc] at h
    | some t =>
      simp only [hc] at h
      split at h
      · simp only [Except.ok.injEq] at h; subst h; exact ⟨t, rfl⟩
      · simp at h
  | data r =>
    refine ⟨fun _ => ?_, fun he => by cases he⟩
    exact template_without_bonds_dropped [.data r] st st' (by simp) (by simp [List.foldlM, h, bind, Except.bind, pure, Except.pure])

/-- invariant of the fold of `bfOpsOf` -/
theorem bfOps_inv (oracle : List (String × Rat)) : ∀ (evs : List Event) (st : TState) (ops : List (BfOp Rat))
    (st' : TState) (ops' : List (BfOp Rat)),
    evs.foldlM (bfOpsStep oracle) (st, ops) = .ok (st', ops') → st'.done.length ≤ oracle.length →
    ops.filterMap tplPart = (st.done.zip oracle).map mkTpl →
    evs.foldlM templateStep st = .ok st' ∧
    ops'.filterMap volPart = ops.filterMap volPart ++ volumeEvents evs ∧
    ops'.filterMap tplPart = (st'.done.zip oracle).map mkTpl := by
  intro evs
  induction evs with
  | nil =>
    intro st ops st' ops' h _ hinv
    simp only [List.foldlM_nil, pure, Except.pure, Except.ok.injEq, Prod.mk.injEq] at h
    obtain ⟨rfl, rfl⟩ := h
    exact ⟨rfl, by simp [volumeEvents], hinv⟩
  | cons e rest ih =>
    intro st ops st' ops' h hlen hinv
    rw [List.foldlM_cons] at h
    obtain ⟨⟨s1, o1⟩, h1, h2⟩ := bind_ok _ _ _ h
    unfold bfOpsStep at h1
    obtain ⟨s1', hs1, hp⟩ := bind_ok _ _ _ h1
    simp only [pure, Except.pure, Except.ok.injEq, Prod.mk.injEq] at hp
    obtain ⟨rfl, rfl⟩ := hp
    have hdone := templateStep_done st s1' e hs1
    -- the final `done` extends every intermediate one, so the length bound holds in between
    have hmono : s1'.done.length ≤ st'.done.length := by
      have : ∀ (l : List Event) (a : TState) (oa : List (BfOp Rat)) (b : TState) (ob : List (BfOp Rat)),
          l.foldlM (bfOpsStep oracle) (a, oa) = .ok (b, ob) → a.done.length ≤ b.done.length := by
        intro l
        induction l with
        | nil => intro a oa b ob hh; simp only [List.foldlM_nil, pure, Except.pure, Except.ok.injEq, Prod.mk.injEq] at hh; rw [hh.1]; exact Nat.le_refl _
        | cons x xs ihx =>
          intro a oa b ob hh
          rw [List.foldlM_cons] at hh
          obtain ⟨⟨a1, oa1⟩, hh1, hh2⟩ := bind_ok _ _ _ hh
          unfold bfOpsStep at hh1
          obtain ⟨a1', ha1, hpp⟩ := bind_ok _ _ _ hh1
          simp only [pure, Except.pure, Except.ok.injEq, Prod.mk.injEq] at hpp
          obtain ⟨rfl, rfl⟩ := hpp
          have hd := templateStep_done a a1' x ha1
          have h1' : a.done.length ≤ a1'.done.length := by
            by_cases hx : x = .endTemplate
            · obtain ⟨t, ht⟩ := hd.2 hx; rw [ht]; simp
            · rw [hd.1 hx]; exact Nat.le_refl _
          exact Nat.le_trans h1' (ihx a1' _ b ob hh2)
      exact this rest s1' _ st' ops' h2
    have hinv1 : (ops ++ opsOfEvent oracle s1' e).filterMap tplPart = (s1'.done.zip oracle).map mkTpl := by
      rw [List.filterMap_append, hinv]
      cases e with
      | data r =>
        rw [hdone.1 (by simp)]
        cases r <;> simp [opsOfEvent, tplPart]
      | endTemplate =>
        obtain ⟨t, ht⟩ := hdone.2 rfl
        have hlt : st.done.length < oracle.length := by
          have : s1'.done.length = st.done.length + 1 := by rw [ht]; simp
          omega
        obtain ⟨o, ho⟩ : ∃ o, oracle[st.done.length]? = some o := ⟨oracle[st.done.length], by simp [hlt]⟩
        have hl : s1'.done.getLast? = some t := by rw [ht]; simp
        have hidx : s1'.done.length - 1 = st.done.length := by rw [ht]; simp
        simp only [opsOfEvent, hl, hidx, ho, List.filterMap_cons, tplPart, List.filterMap_nil]
        rw [ht]
        have hz : (st.done ++ [t]).zip oracle = st.done.zip oracle ++ [(t, o)] := zip_snoc st.done t oracle o ho
        rw [hz, List.map_append]
        obtain ⟨h1o, h2o⟩ := o
        simp [mkTpl]
    obtain ⟨r1, r2, r3⟩ := ih s1' _ st' ops' h2 hlen hinv1
    refine ⟨by rw [List.foldlM_cons, hs1]; exact r1, ?_, r3⟩
    rw [r2, List.filterMap_append, List.append_assoc]
    congr 1
    cases e with
    | endTemplate =>
      simp only [opsOfEvent, volumeEvents, List.filterMap_cons]
      split <;> simp [volPart]
    | data r => cases r <;> simp [opsOfEvent, volPart, volumeEvents]

/-- The events handed to C15's precedence model are EXACTLY the text's `[ volumes ]` lines (in order, with
the values written) and its finished templates (in order: residue name and positions as written; hash and
computed volume from the oracle) -/
theorem bfOps_exact (oracle : List (String × Rat)) (evs : List Event) (ops : List (BfOp Rat)) (ts : List TemplateDef)
    (h : bfOpsOf oracle evs = .ok ops) (ht : templatesOf evs = .ok ts) (hlen : ts.length ≤ oracle.length) :
    ops.filterMap volPart = volumeEvents evs ∧ ops.filterMap tplPart = (ts.zip oracle).map mkTpl := by
  unfold bfOpsOf at h
  obtain ⟨⟨st', ops'⟩, hf, hp⟩ := bind_ok _ _ _ h
  simp only [pure, Except.pure, Except.ok.injEq] at hp
  subst hp
  unfold templatesOf at ht
  obtain ⟨st2, hf2, hp2⟩ := bind_ok _ _ _ ht
  simp only [pure, Except.pure, Except.ok.injEq] at hp2
  subst hp2
  -- `done` of the bfOps fold is a prefix-extension chain ending in the same list: use the pure fold
  have hpure : evs.foldlM templateStep {} = .ok st' := by
    clear hlen ht hf2
    have : ∀ (l : List Event) (a : TState) (oa : List (BfOp Rat)) (b : TState) (ob : List (BfOp Rat)),
        l.foldlM (bfOpsStep oracle) (a, oa) = .ok (b, ob) → l.foldlM templateStep a = .ok b := by
      intro l
      induction l with
      | nil => intro a oa b ob hh; simp only [List.foldlM_nil, pure, Except.pure, Except.ok.injEq, Prod.mk.injEq] at hh ⊢; exact hh.1
      | cons x xs ihx =>
        intro a oa b ob hh
        rw [List.foldlM_cons] at hh
        obtain ⟨⟨a1, oa1⟩, hh1, hh2⟩ := bind_ok _ _ _ hh
        unfold bfOpsStep at hh1
        obtain ⟨a1', ha1, hpp⟩ := bind_ok _ _ _ hh1
        simp only [pure, Except.pure, Except.ok.injEq, Prod.mk.injEq] at hpp
        obtain ⟨rfl, rfl⟩ := hpp
        rw [List.foldlM_cons, ha1]
        exact ihx a1' _ b ob hh2
    exact this evs {} [] st' ops' hf
  rw [hf2] at hpure
  have heq : st2 = st' := Except.ok.inj hpure
  subst heq
  obtain ⟨_, r2, r3⟩ := bfOps_inv oracle evs {} [] st2 ops' hf hlen (by simp)
  exact ⟨by simpa using r2, r3⟩

end PolyplyVerif.Proofs.BuildFileText
