import PolyplyVerif.Proofs.P6
namespace PolyplyVerif.Proofs.Dna
open PolyplyVerif PolyplyVerif.Dna

section
variable (tbl : List (String × String)) (names : List String) (labels : List Attrs) (circ : Option Attrs)

theorem loop_step (j fuel : Nat) (hj : j + 2 ≤ names.length) (hc : circ.isSome → 3 ≤ names.length)
    (hk : (lookup tbl (names.getD (names.length - 2 - j) "")).isSome) :
    loop tbl (names.length - 1) (fuel + 1) (names.length - 1 - j) (stAt tbl names labels circ j) =
      loop tbl (names.length - 1) fuel (names.length - 2 - j) (stAt tbl names labels circ (j + 1)) := by
  obtain ⟨c, hc'⟩ := Option.isSome_iff_exists.mp hk
  rw [loop]
  have e0 : (stAt tbl names labels circ j).g = gAt tbl names labels circ j := rfl
  rw [e0, iterStep_gAt_pos tbl names labels circ j _ hc (by omega) (by omega)]
  simp only
  have e2 : names.length - 1 - j - 1 = names.length - 2 - j := by omega
  rw [e2, body_step tbl names labels circ j hj hc c hc']
  simp

theorem loop_step_err (j fuel : Nat) (hj : j + 2 ≤ names.length) (hc : circ.isSome → 3 ≤ names.length)
    (hk : lookup tbl (names.getD (names.length - 2 - j) "") = none) :
    loop tbl (names.length - 1) (fuel + 1) (names.length - 1 - j) (stAt tbl names labels circ j) =
      .error "unknown-resname" := by
  rw [loop]
  have e0 : (stAt tbl names labels circ j).g = gAt tbl names labels circ j := rfl
  rw [e0, iterStep_gAt_pos tbl names labels circ j _ hc (by omega) (by omega)]
  simp only
  have e2 : names.length - 1 - j - 1 = names.length - 2 - j := by omega
  rw [e2]
  unfold body
  rw [e0, gAt_resname? tbl names labels circ j (names.length - 2 - j) (by omega)]
  simp only [hk]

/-- the loop invariant: after `j` turns the state is `stAt j` -/
theorem loop_prefix (hc : circ.isSome → 3 ≤ names.length) (j : Nat) (hj : j + 1 ≤ names.length)
    (hk : ∀ k, 1 ≤ k → k ≤ j → (lookup tbl (names.getD (names.length - 1 - k) "")).isSome) :
    loop tbl (names.length - 1) (names.length + 1) (names.length - 1) (stAt tbl names labels circ 0) =
      loop tbl (names.length - 1) (names.length + 1 - j) (names.length - 1 - j)
        (stAt tbl names labels circ j) := by
  induction j with
  | zero => rfl
  | succ j ih =>
    rw [ih (by omega) (fun k h1 h2 => hk k h1 (by omega))]
    have e1 : names.length + 1 - j = (names.length + 1 - (j + 1)) + 1 := by omega
    have e2 : names.length - 1 - (j + 1) = names.length - 2 - j := by omega
    rw [e1, e2]
    apply loop_step tbl names labels circ j _ (by omega) hc
    have := hk (j + 1) (by omega) (Nat.le_refl _)
    rwa [e2] at this

end
end PolyplyVerif.Proofs.Dna
