import PolyplyVerif.Proofs.P5
namespace PolyplyVerif.Proofs.Dna
open PolyplyVerif PolyplyVerif.Dna

theorem joins_self (a b : Nat) (x : Attrs) : (⟨a, b, x⟩ : REdge).joins a b = true := by
  simp [REdge.joins]

/-- `add_edge` of a fresh edge followed by the attribute copy -/
theorem addEdge_update_fresh (g : RGraph) (a b : Nat) (at' : Attrs)
    (h : ∀ e ∈ g.edges, e.joins a b = false) :
    (g.addEdge a b).updateEdgeAttrs a b at' =
      { g with edges := g.edges ++ [⟨a, b, normAttrs at'⟩] } := by
  have hne : g.hasEdge a b = false := by
    unfold RGraph.hasEdge; rw [edge?_none_of g a b h]; rfl
  unfold RGraph.addEdge RGraph.updateEdgeAttrs
  simp only [hne, Bool.false_eq_true, if_false, List.map_append, List.map_cons, List.map_nil, joins_self, if_true]
  rw [map_update_none _ _ _ _ h]
  rfl

section
variable (tbl : List (String × String)) (names : List String) (labels : List Attrs) (circ : Option Attrs)

theorem body_step (j : Nat) (hj : j + 2 ≤ names.length) (hc : circ.isSome → 3 ≤ names.length)
    (c : String) (hk : lookup tbl (names.getD (names.length - 2 - j) "") = some c) :
    body tbl (stAt tbl names labels circ j) (names.length - 1 - j) (names.length - 2 - j) =
      .ok (stAt tbl names labels circ (j + 1)) := by
  unfold body
  have e0 : (stAt tbl names labels circ j).g = gAt tbl names labels circ j := rfl
  have e1 : (stAt tbl names labels circ j).total = names.length + j := rfl
  rw [e0, e1, gAt_resname? tbl names labels circ j (names.length - 2 - j) (by omega)]
  simp only [hk]
  rw [corrOf_stAt tbl names labels circ j j (Nat.le_refl _) (by omega)]
  simp only
  have e2 : names.length - 2 - j = names.length - 1 - j - 1 := by omega
  rw [e2, gAt_edge?_down tbl names labels circ j (names.length - 1 - j) hc (by omega) (by omega)]
  rw [← e2, corrOf_stAt_none tbl names labels circ j (names.length - 2 - j) (by omega)]
  simp only
  have hfresh : ∀ e ∈ ((gAt tbl names labels circ j).addNode (names.length + j + 1) c).edges,
      e.joins (names.length + j) (names.length + j + 1) = false :=
    gAt_no_new_edge tbl names labels circ j hc
  rw [addEdge_update_fresh _ _ _ _ hfresh]
  have e3 : names.length - 1 - (j + 1) = names.length - 2 - j := by omega
  have hcmp : cmp tbl (names.getD (names.length - 2 - j) "") = c := by unfold cmp; rw [hk]; rfl
  congr 1
  simp only [stAt, gAt, RGraph.addNode, List.range_succ (n := j + 1), List.range_succ (n := j),
    List.map_append, List.map_cons, List.map_nil, compNode, newEdge, e3, hcmp]
  simp [Nat.add_assoc]

end
end PolyplyVerif.Proofs.Dna
