/-
Helper lemmas for C14: walks are reversible, breadth-first levels are monotone, the fold that appends
unseen unordered pairs.
-/
import PolyplyVerif.Model.Exclusions
import PolyplyVerif.Proofs.C10Missing

set_option linter.unusedSimpArgs false
set_option linter.unusedVariables false

namespace PolyplyVerif.Excl
open PolyplyVerif.C10M

theorem mem_neighbors_iff (es : List (Nat × Nat)) (a b : Nat) :
    b ∈ neighbors es a ↔ ∃ e ∈ es, (e.1 = a ∧ e.2 = b) ∨ (e.2 = a ∧ e.1 = b ∧ e.1 ≠ a) := by
  unfold neighbors
  simp only [List.mem_filterMap]
  constructor
  · rintro ⟨e, he, h⟩
    refine ⟨e, he, ?_⟩
    by_cases h1 : e.1 == a
    · simp only [h1, if_true, Option.some.injEq] at h
      exact Or.inl ⟨eq_of_beq h1, h⟩
    · simp only [h1, Bool.false_eq_true, if_false] at h
      by_cases h2 : e.2 == a
      · simp only [h2, if_true, Option.some.injEq] at h
        exact Or.inr ⟨eq_of_beq h2, h, fun hh => h1 (by rw [hh]; exact beq_self_eq_true a)⟩
      · simp [h2] at h
  · rintro ⟨e, he, h | h⟩
    · refine ⟨e, he, ?_⟩
      have : (e.1 == a) = true := by rw [h.1]; exact beq_self_eq_true a
      simp [this, h.2]
    · refine ⟨e, he, ?_⟩
      have h1 : (e.1 == a) = false := by
        rw [Bool.eq_false_iff]; intro hh; exact h.2.2 (eq_of_beq hh)
      have h2 : (e.2 == a) = true := by rw [h.1]; exact beq_self_eq_true a
      simp only [h1, h2, Bool.false_eq_true, if_false, if_true, Option.some.injEq]
      exact h.2.1

theorem neighbors_symm (es : List (Nat × Nat)) (a b : Nat) : b ∈ neighbors es a → a ∈ neighbors es b := by
  intro h
  obtain ⟨e, he, h | h⟩ := (mem_neighbors_iff es a b).mp h
  · by_cases hab : a = b
    · subst hab
      exact (mem_neighbors_iff es a a).mpr ⟨e, he, Or.inl h⟩
    · exact (mem_neighbors_iff es b a).mpr ⟨e, he, Or.inr ⟨h.2, h.1, fun hh => hab (by rw [← h.1, hh])⟩⟩
  · exact (mem_neighbors_iff es b a).mpr ⟨e, he, Or.inl ⟨h.2.1, h.1⟩⟩

theorem walk_prepend {es : List (Nat × Nat)} {a c b k : Nat} (hn : c ∈ neighbors es a) (h : WalkLe es c b k) :
    WalkLe es a b (k + 1) := by
  induction h with
  | refl k => exact WalkLe.step (WalkLe.refl k) hn
  | step _ hn' ih => exact WalkLe.step ih hn'

theorem walk_symm {es : List (Nat × Nat)} {a b k : Nat} (h : WalkLe es a b k) : WalkLe es b a k := by
  induction h with
  | refl k => exact WalkLe.refl k
  | step _ hn ih => exact walk_prepend (neighbors_symm es _ _ hn) ih

theorem walk_mono_le {es : List (Nat × Nat)} {a b k k' : Nat} (h : WalkLe es a b k) (hk : k ≤ k') : WalkLe es a b k' := by
  induction hk with
  | refl => exact h
  | step _ ih => exact ih.mono

theorem withinDist_iff (es : List (Nat × Nat)) (a b k : Nat) : withinDist es a b k = true ↔ WalkLe es a b k := by
  unfold withinDist
  rw [List.contains_iff_mem, mem_within_iff]

theorem withinDist_symm (es : List (Nat × Nat)) (a b k : Nat) : withinDist es a b k = withinDist es b a k := by
  rw [Bool.eq_iff_iff, withinDist_iff, withinDist_iff]
  exact ⟨walk_symm, walk_symm⟩

theorem withinDist_mono (es : List (Nat × Nat)) (a b k k' : Nat) (hk : k ≤ k') (h : withinDist es a b k = true) :
    withinDist es a b k' = true :=
  (withinDist_iff es a b k').mpr (walk_mono_le ((withinDist_iff es a b k).mp h) hk)

/-! ### unordered pairs -/

theorem samePair_symm (p q : Nat × Nat) : samePair p q = samePair q p := by
  unfold samePair
  rw [Bool.eq_iff_iff]
  simp only [Bool.or_eq_true, Bool.and_eq_true, beq_iff_eq]
  constructor <;> rintro (⟨h1, h2⟩ | ⟨h1, h2⟩)
  · exact Or.inl ⟨h1.symm, h2.symm⟩
  · exact Or.inr ⟨h2.symm, h1.symm⟩
  · exact Or.inl ⟨h1.symm, h2.symm⟩
  · exact Or.inr ⟨h2.symm, h1.symm⟩

theorem samePair_trans (p q r : Nat × Nat) (h1 : samePair p q = true) (h2 : samePair q r = true) :
    samePair p r = true := by
  unfold samePair at *
  simp only [Bool.or_eq_true, Bool.and_eq_true, beq_iff_eq] at *
  rcases h1 with ⟨a, b⟩ | ⟨a, b⟩ <;> rcases h2 with ⟨c, d⟩ | ⟨c, d⟩
  · exact Or.inl ⟨a.trans c, b.trans d⟩
  · exact Or.inr ⟨a.trans c, b.trans d⟩
  · exact Or.inr ⟨a.trans d, b.trans c⟩
  · exact Or.inl ⟨a.trans d, b.trans c⟩

theorem any_addPair (had : List (Nat × Nat)) (p q : Nat × Nat) :
    (addPair had p).any (samePair q) = (had.any (samePair q) || samePair q p) := by
  unfold addPair
  by_cases h : had.any (samePair p)
  · simp only [h, if_true]
    by_cases hq : samePair q p
    · simp only [hq, Bool.or_true]
      obtain ⟨x, hx, hpx⟩ := List.any_eq_true.mp h
      exact List.any_eq_true.mpr ⟨x, hx, samePair_trans q p x hq hpx⟩
    · simp [hq]
  · simp [h, List.any_append]

theorem any_foldl_addPair (ps had : List (Nat × Nat)) (q : Nat × Nat) :
    (ps.foldl addPair had).any (samePair q) = (had.any (samePair q) || ps.any (samePair q)) := by
  induction ps generalizing had with
  | nil => simp
  | cons p ps ih => rw [List.foldl_cons, ih, any_addPair, List.any_cons, Bool.or_assoc]

/-- the fold never stores an unordered pair twice -/
theorem pairwise_foldl_addPair (ps had : List (Nat × Nat))
    (h : had.Pairwise (fun p q => samePair p q = false)) :
    (ps.foldl addPair had).Pairwise (fun p q => samePair p q = false) := by
  induction ps generalizing had with
  | nil => exact h
  | cons p ps ih =>
    rw [List.foldl_cons]
    apply ih
    unfold addPair
    by_cases hp : had.any (samePair p)
    · simp only [hp, if_true]; exact h
    · simp only [hp, Bool.false_eq_true, if_false]
      rw [List.pairwise_append]
      refine ⟨h, List.pairwise_singleton _ _, ?_⟩
      intro x hx y hy
      simp only [List.mem_singleton] at hy
      subst hy
      rw [Bool.eq_false_iff]
      intro hxy
      apply hp
      exact List.any_eq_true.mpr ⟨x, hx, by rw [samePair_symm]; exact hxy⟩

end PolyplyVerif.Excl
