/-
Lemmas about `Model/EngineLayout.lean` (the index layout of `NonBondEngine.from_topology`): the loop numbers
the nodes of the non-ignored molecules 0, 1, …, N-1 in order, and about `Model/Engine.lean` without the
protocol precondition (positions follow the abstract map under a weaker invariant; what a double add does).
-/
import Mathlib.Data.List.Nodup
import Mathlib.Data.List.Count
import PolyplyVerif.Model.Engine
import PolyplyVerif.Model.EngineLayout
import PolyplyVerif.Proofs.Engine

namespace PolyplyVerif.Proofs.EngineLayout
open PolyplyVerif.Geometry PolyplyVerif.Engine PolyplyVerif.EngineLayout

/-! ### the layout loop -/

/-- the loop state describes the residues `done` handled so far -/
structure Good (acc : Acc) (done : List (Nat × Node)) : Prop where
  idx : acc.idx = done.length
  keys : acc.map.map (·.1) = done.map keyOf
  vals : acc.map.map (·.2) = List.range done.length
  atypes : acc.atypes = done.map (·.2.atype)
  pos : ∀ g, acc.pos g = (done[g]?).bind (·.2.row)

theorem good_init : Good Acc.init [] :=
  ⟨rfl, rfl, rfl, rfl, fun g => by simp [Acc.init]⟩

/-- the accumulator after a node that passes the check -/
def nodeAcc (acc : Acc) (nd : Node) : Acc :=
  { idx := acc.idx + 1, molCount := acc.molCount,
    map := acc.map ++ [((acc.molCount, nd.key), acc.idx)],
    atypes := acc.atypes ++ [nd.atype],
    pos := match nd.row with
      | some p => upd acc.pos acc.idx (some p)
      | none => acc.pos }

theorem nodeStep_eq (L : V3) (acc : Acc) (nd : Node) :
    nodeStep L acc nd = if nd.posOk L then .ok (nodeAcc acc nd) else .error .reject := by
  unfold nodeStep Node.posOk nodeAcc Node.row
  cases hp : nd.pos with
  | absent => simp
  | given p =>
    by_cases hc : notExceeds p L = true
    · simp [hc]
    · simp [hc]
  | nonFinite => simp

theorem good_nodeAcc {acc : Acc} {done : List (Nat × Node)} (h : Good acc done) (nd : Node) :
    Good (nodeAcc acc nd) (done ++ [(acc.molCount, nd)]) := by
  refine ⟨?_, ?_, ?_, ?_, ?_⟩
  · simp [nodeAcc, h.idx]
  · simp [nodeAcc, h.keys, keyOf]
  · simp [nodeAcc, h.vals, h.idx, List.range_succ]
  · simp [nodeAcc, h.atypes]
  · intro g
    have hidx := h.idx
    by_cases hlt : g < done.length
    · rw [List.getElem?_append_left hlt, ← h.pos g]
      simp only [nodeAcc]
      cases nd.row with
      | none => rfl
      | some p =>
        show upd acc.pos acc.idx (some p) g = acc.pos g
        have : g ≠ acc.idx := by omega
        simp [upd, this]
    · by_cases heq : g = done.length
      · subst heq
        have hnone : acc.pos done.length = none := by
          rw [h.pos]; simp
        simp only [nodeAcc]
        rw [List.getElem?_append_right (Nat.le_refl _)]
        simp only [Nat.sub_self, List.getElem?_cons_zero, Option.bind_some]
        cases hr : nd.row with
        | none => simpa using hnone
        | some p => simp [upd, hidx]
      · have hgt : done.length < g := by omega
        have hnone : acc.pos g = none := by
          rw [h.pos, List.getElem?_eq_none (by omega)]; rfl
        have h2 : (done ++ [(acc.molCount, nd)])[g]? = none := by
          apply List.getElem?_eq_none; simp; omega
        rw [h2]
        simp only [nodeAcc, Option.bind_none]
        cases nd.row with
        | none => simpa using hnone
        | some p =>
          show upd acc.pos acc.idx (some p) g = none
          have : g ≠ acc.idx := by omega
          simp [upd, this, hnone]

theorem nodeAcc_molCount (acc : Acc) (nd : Node) : (nodeAcc acc nd).molCount = acc.molCount := rfl

theorem good_nodeLoop (L : V3) (nds : List Node) {acc out : Acc} {done : List (Nat × Node)}
    (h : Good acc done) (hrun : nodeLoop L acc nds = .ok out) :
    Good out (done ++ nds.map fun nd => (acc.molCount, nd)) ∧ out.molCount = acc.molCount := by
  induction nds generalizing acc done with
  | nil =>
    simp only [nodeLoop] at hrun
    cases hrun
    simpa using h
  | cons nd nds ih =>
    simp only [nodeLoop, nodeStep_eq] at hrun
    by_cases hok : nd.posOk L = true
    · simp only [hok, if_true] at hrun
      have := ih (good_nodeAcc h nd) hrun
      simp only [nodeAcc_molCount] at this
      simpa using this
    · simp [hok] at hrun

theorem good_molLoop (L : V3) (ignore : List String) (mols : List Mol) {acc out : Acc}
    {done : List (Nat × Node)} (h : Good acc done) (hrun : molLoop L ignore acc mols = .ok out) :
    Good out (done ++ entriesFrom ignore acc.molCount mols) ∧ out.molCount = acc.molCount + mols.length := by
  induction mols generalizing acc done with
  | nil =>
    simp only [molLoop] at hrun
    cases hrun
    simpa [entriesFrom] using h
  | cons m ms ih =>
    simp only [molLoop, molStep] at hrun
    by_cases hig : ignore.contains m.name = true
    · simp only [hig, if_true] at hrun
      have hg : Good { acc with molCount := acc.molCount + 1 } done := ⟨h.idx, h.keys, h.vals, h.atypes, h.pos⟩
      have := ih hg hrun
      have h2 : out.molCount = acc.molCount + 1 + ms.length := this.2
      simp only [entriesFrom, hig, if_true, List.nil_append, List.length_cons]
      exact ⟨this.1, by omega⟩
    · simp only [hig] at hrun
      cases hn : nodeLoop L acc m.nodes with
      | error e => simp [hn] at hrun
      | ok acc' =>
        simp only [hn] at hrun
        obtain ⟨hg', hmc⟩ := good_nodeLoop L m.nodes h hn
        have hg : Good { acc' with molCount := acc'.molCount + 1 } (done ++ m.nodes.map fun nd => (acc.molCount, nd)) :=
          ⟨hg'.idx, hg'.keys, hg'.vals, hg'.atypes, hg'.pos⟩
        have := ih hg hrun
        simp only [hmc] at this
        have h2 : out.molCount = acc.molCount + 1 + ms.length := this.2
        simp only [entriesFrom, hig, List.length_cons]
        refine ⟨?_, by omega⟩
        simpa [List.append_assoc] using this.1

/-- `_n_particles` of the non-ignored molecules = number of entries -/
theorem length_entriesFrom (ignore : List String) (mc : Nat) (mols : List Mol) :
    (entriesFrom ignore mc mols).length = nParticles (mols.filter fun m => !ignore.contains m.name) := by
  induction mols generalizing mc with
  | nil => rfl
  | cons m ms ih =>
    simp only [entriesFrom, List.length_append, ih (mc + 1), List.filter_cons]
    by_cases hig : ignore.contains m.name = true
    · simp only [hig, if_true, Bool.not_true, Bool.false_eq_true, if_false, List.length_nil, Nat.zero_add]
    · have hig' : ignore.contains m.name = false := by simpa using hig
      simp only [hig', Bool.false_eq_true, if_false, Bool.not_false, if_true, List.length_map, nParticles,
        List.map_cons, List.sum_cons]

/-- the loop fails with `IOError` iff some residue of a non-ignored molecule carries a refused coordinate -/
theorem nodeLoop_error (L : V3) (nds : List Node) (acc : Acc) :
    (∃ e, nodeLoop L acc nds = .error e) ↔ ∃ nd ∈ nds, nd.posOk L = false := by
  induction nds generalizing acc with
  | nil => simp [nodeLoop]
  | cons nd nds ih =>
    simp only [nodeLoop, nodeStep_eq]
    by_cases hok : nd.posOk L = true
    · simp only [hok, if_true, ih (nodeAcc acc nd)]
      simp [hok]
    · simp [hok]

theorem nodeLoop_error_reject (L : V3) (nds : List Node) (acc : Acc) (e : Err)
    (h : nodeLoop L acc nds = .error e) : e = .reject := by
  induction nds generalizing acc with
  | nil => simp [nodeLoop] at h
  | cons nd nds ih =>
    simp only [nodeLoop, nodeStep_eq] at h
    by_cases hok : nd.posOk L = true
    · simp only [hok, if_true] at h; exact ih _ h
    · simp [hok] at h; exact h.symm

theorem molLoop_error_reject (L : V3) (ignore : List String) (mols : List Mol) (acc : Acc) (e : Err)
    (h : molLoop L ignore acc mols = .error e) : e = .reject := by
  induction mols generalizing acc with
  | nil => simp [molLoop] at h
  | cons m ms ih =>
    simp only [molLoop, molStep] at h
    by_cases hig : ignore.contains m.name = true
    · simp only [hig, if_true] at h; exact ih _ h
    · simp only [hig] at h
      cases hn : nodeLoop L acc m.nodes with
      | error e' =>
        simp [hn] at h
        rw [← h]; exact nodeLoop_error_reject L _ _ _ hn
      | ok acc' => simp only [hn] at h; exact ih _ h

theorem molLoop_error (L : V3) (ignore : List String) (mols : List Mol) (acc : Acc) :
    (∃ e, molLoop L ignore acc mols = .error e) ↔
      ∃ en ∈ entriesFrom ignore acc.molCount mols, en.2.posOk L = false := by
  induction mols generalizing acc with
  | nil => simp [molLoop, entriesFrom]
  | cons m ms ih =>
    simp only [molLoop, molStep, entriesFrom]
    by_cases hig : ignore.contains m.name = true
    · simp only [hig, if_true, List.nil_append]
      exact ih _
    · simp only [hig]
      cases hn : nodeLoop L acc m.nodes with
      | error e =>
        have := (nodeLoop_error L m.nodes acc).mp ⟨e, hn⟩
        obtain ⟨nd, hmem, hbad⟩ := this
        simp only [Bool.false_eq_true, if_false]
        constructor
        · intro _
          exact ⟨(acc.molCount, nd), by simp [hmem], hbad⟩
        · intro _; exact ⟨e, rfl⟩
      | ok acc' =>
        have hno : ¬ ∃ nd ∈ m.nodes, nd.posOk L = false := by
          intro hex
          obtain ⟨e, he⟩ := (nodeLoop_error L m.nodes acc).mpr hex
          rw [hn] at he; cases he
        have hmc : acc'.molCount = acc.molCount := by
          have : ∀ (nds : List Node) (a o : Acc), nodeLoop L a nds = .ok o → o.molCount = a.molCount := by
            intro nds
            induction nds with
            | nil => intro a o h; simp [nodeLoop] at h; rw [h]
            | cons nd nds ih2 =>
              intro a o h
              simp only [nodeLoop, nodeStep_eq] at h
              by_cases hok : nd.posOk L = true
              · simp only [hok, if_true] at h; exact (ih2 (nodeAcc a nd) o h).trans rfl
              · simp [hok] at h
          exact this _ _ _ hn
        simp only [Bool.false_eq_true, if_false]
        rw [ih]
        simp only [hmc, List.mem_append, List.mem_map]
        constructor
        · rintro ⟨en, hmem, hbad⟩; exact ⟨en, Or.inr hmem, hbad⟩
        · rintro ⟨en, hmem | hmem, hbad⟩
          · obtain ⟨nd, hnd, rfl⟩ := hmem
            exact absurd ⟨nd, hnd, hbad⟩ hno
          · exact ⟨en, hmem, hbad⟩

/-! ### the entries -/

theorem mem_entriesFrom (ignore : List String) (mc : Nat) (mols : List Mol) (i : Nat) (nd : Node) :
    (i, nd) ∈ entriesFrom ignore mc mols ↔
      mc ≤ i ∧ ∃ m, mols[i - mc]? = some m ∧ ignore.contains m.name = false ∧ nd ∈ m.nodes := by
  induction mols generalizing mc with
  | nil => simp [entriesFrom]
  | cons m ms ih =>
    simp only [entriesFrom, List.mem_append, ih (mc + 1)]
    constructor
    · rintro (h | ⟨hle, m', hm', hig, hnd⟩)
      · by_cases hig : ignore.contains m.name = true
        · simp only [hig, if_true, List.not_mem_nil] at h
        · simp only [hig, Bool.false_eq_true, if_false, List.mem_map, Prod.mk.injEq] at h
          obtain ⟨nd', hnd', rfl, rfl⟩ := h
          exact ⟨Nat.le_refl _, m, by simp, by simpa using hig, hnd'⟩
      · refine ⟨by omega, m', ?_, hig, hnd⟩
        have : i - mc = (i - (mc + 1)) + 1 := by omega
        rw [this, List.getElem?_cons_succ]; exact hm'
    · rintro ⟨hle, m', hm', hig, hnd⟩
      by_cases heq : i = mc
      · subst heq
        simp only [Nat.sub_self, List.getElem?_cons_zero, Option.some.injEq] at hm'
        subst hm'
        left
        rw [if_neg (by rw [hig]; exact Bool.false_ne_true)]
        exact List.mem_map.mpr ⟨nd, hnd, rfl⟩
      · right
        refine ⟨by omega, m', ?_, hig, hnd⟩
        have : i - mc = (i - (mc + 1)) + 1 := by omega
        rw [this, List.getElem?_cons_succ] at hm'; exact hm'

theorem entriesFrom_append (ignore : List String) (mc : Nat) (pre post : List Mol) :
    entriesFrom ignore mc (pre ++ post) =
      entriesFrom ignore mc pre ++ entriesFrom ignore (mc + pre.length) post := by
  induction pre generalizing mc with
  | nil => simp [entriesFrom]
  | cons m ms ih =>
    simp only [List.cons_append, entriesFrom, ih (mc + 1), List.append_assoc, List.length_cons]
    congr 3
    omega

/-- keys are pairwise distinct when node keys are distinct within each molecule -/
theorem nodup_keys_entriesFrom (ignore : List String) (mc : Nat) (mols : List Mol)
    (h : ∀ m ∈ mols, (m.nodes.map (·.key)).Nodup) :
    ((entriesFrom ignore mc mols).map keyOf).Nodup := by
  induction mols generalizing mc with
  | nil => simp [entriesFrom]
  | cons m ms ih =>
    simp only [entriesFrom, List.map_append]
    rw [List.nodup_append]
    refine ⟨?_, ih (mc + 1) (fun m' hm' => h m' (List.mem_cons_of_mem _ hm')), ?_⟩
    · by_cases hig : ignore.contains m.name = true
      · simp only [hig, if_true, List.map_nil]; exact List.nodup_nil
      · simp only [hig, Bool.false_eq_true, if_false, List.map_map]
        have hn := h m (List.mem_cons_self ..)
        have : (List.map (keyOf ∘ fun nd => (mc, nd)) m.nodes) = (m.nodes.map (·.key)).map (fun k => (mc, k)) := by
          simp [List.map_map, Function.comp_def, keyOf]
        rw [this]
        exact hn.map (fun a b hab => by simpa using hab)
    · intro a ha b hb
      rw [List.mem_map] at ha hb
      obtain ⟨ea, hea, rfl⟩ := ha
      obtain ⟨eb, heb, rfl⟩ := hb
      have ha1 : ea.1 = mc := by
        by_cases hig : ignore.contains m.name = true
        · simp only [hig, if_true, List.not_mem_nil] at hea
        · simp only [hig, Bool.false_eq_true, if_false, List.mem_map] at hea
          obtain ⟨nd, _, rfl⟩ := hea; rfl
      have hb1 : mc + 1 ≤ eb.1 := ((mem_entriesFrom ignore (mc + 1) ms eb.1 eb.2).mp heb).1
      intro heq
      have h1 : (keyOf ea).1 = (keyOf eb).1 := congrArg Prod.fst heq
      have : ea.1 = eb.1 := h1
      omega

/-- position `offset + j` of the entries is the `j`-th node of the molecule at index `pre.length`, where
`offset` counts the nodes of the non-ignored molecules before it -/
theorem entries_getElem (ignore : List String) (pre post : List Mol) (m : Mol)
    (hig : ignore.contains m.name = false) (j : Nat) (hj : j < m.nodes.length) :
    (entries ignore (pre ++ m :: post))[nParticles (pre.filter fun m => !ignore.contains m.name) + j]? =
      some (pre.length, m.nodes[j]) := by
  unfold entries
  rw [entriesFrom_append, ← length_entriesFrom ignore 0 pre, List.getElem?_append_right (Nat.le_add_right _ _)]
  simp only [Nat.add_sub_cancel_left, entriesFrom, hig, Bool.false_eq_true, if_false, Nat.zero_add]
  rw [List.getElem?_append_left (by simpa using hj)]
  simp [hj]

/-- a list of pairs is determined by its two projections; here the second one is `0, 1, …` -/
theorem getElem?_of_maps {α : Type} {l : List (α × Nat)} {ks : List α} {n : Nat}
    (hk : l.map (·.1) = ks) (hv : l.map (·.2) = List.range n) (i : Nat) (k : α) (hi : ks[i]? = some k) :
    l[i]? = some (k, i) := by
  have hlen : l.length = n := by
    have := congrArg List.length hv
    simpa using this
  rw [← hk, List.getElem?_map] at hi
  cases he : l[i]? with
  | none => rw [he] at hi; cases hi
  | some e =>
    rw [he] at hi
    simp only [Option.map_some, Option.some.injEq] at hi
    have hlt : i < l.length := by
      by_contra hge
      rw [List.getElem?_eq_none (by omega)] at he; cases he
    have h2 : (l.map (·.2))[i]? = some e.2 := by rw [List.getElem?_map, he]; rfl
    rw [hv, List.getElem?_range (by omega)] at h2
    have : e = (k, i) := by
      cases e with
      | mk a b =>
        simp only at hi h2
        cases hi
        simp only [Option.some.injEq] at h2
        rw [h2]
    rw [this]

theorem dictOf_foldl_not_mem (l : List ((Nat × Nat) × Nat)) (d : Nat × Nat → Option Nat) (k : Nat × Nat)
    (h : k ∉ l.map (·.1)) :
    l.foldl (fun d e => fun k => if k = e.1 then some e.2 else d k) d k = d k := by
  induction l generalizing d with
  | nil => rfl
  | cons x xs ih =>
    simp only [List.map_cons, List.mem_cons, not_or] at h
    simp only [List.foldl_cons]
    rw [ih _ h.2]
    simp [h.1]

theorem dictOf_foldl_mem (l : List ((Nat × Nat) × Nat)) (d : Nat × Nat → Option Nat)
    (hn : (l.map (·.1)).Nodup) (e : (Nat × Nat) × Nat) (he : e ∈ l) :
    l.foldl (fun d e => fun k => if k = e.1 then some e.2 else d k) d e.1 = some e.2 := by
  induction l generalizing d with
  | nil => cases he
  | cons x xs ih =>
    simp only [List.map_cons, List.nodup_cons] at hn
    simp only [List.foldl_cons]
    rcases List.mem_cons.mp he with rfl | hmem
    · rw [dictOf_foldl_not_mem xs _ _ hn.1]
      simp
    · exact ih _ hn.2 hmem

/-- with pairwise distinct keys the dict returns every assignment: no entry is lost -/
theorem dictOf_mem (l : List ((Nat × Nat) × Nat)) (hn : (l.map (·.1)).Nodup) (e : (Nat × Nat) × Nat)
    (he : e ∈ l) : dictOf l e.1 = some e.2 :=
  dictOf_foldl_mem l _ hn e he

/-! ### the engine without the protocol precondition -/

/-- what survives every operation whatever the history: the position table and `gndx_to_tree` name the
same set of residues, all of them rows of `positions` -/
structure Weak (P : Params) (s : State) : Prop where
  iff : ∀ g, (s.pos g).isSome ↔ (s.g2t g).isSome
  bound : ∀ g, (s.pos g).isSome → g < P.n

theorem weak_build (P : Params) (pos : Nat → Option V3) (hb : ∀ g, (pos g).isSome → g < P.n) :
    Weak P (build P pos) := by
  refine ⟨?_, hb⟩
  intro g
  simp only [build]
  by_cases hs : (pos g).isSome
  · simp [hs, hb g hs]
  · simp [hs]

theorem weak_of_inv {P : Params} {s : State} (h : Inv P s) : Weak P s := by
  refine ⟨?_, h.bound⟩
  intro g
  constructor
  · intro hs
    cases hq : s.g2t g with
    | none => rw [(h.g2t_none g).mp hq] at hs; cases hs
    | some _ => rfl
  · intro hs
    cases hq : s.pos g with
    | none => rw [(h.g2t_none g).mpr hq] at hs; cases hs
    | some _ => rfl

theorem weak_add {P : Params} {s : State} (h : Weak P s) (g : Nat) (p : V3) (start : Bool) (hg : g < P.n) :
    Weak P (add P s g p start) := by
  unfold add
  dsimp only
  split
  · refine ⟨?_, ?_⟩
    · intro g'
      by_cases e : g' = g
      · simp [upd, e]
      · simp only [upd, e, if_false]; exact h.iff g'
    · intro g' hs
      by_cases e : g' = g
      · rw [e]; exact hg
      · simp only [upd, e, if_false] at hs; exact h.bound g' hs
  · refine ⟨?_, ?_⟩
    · intro g'
      by_cases e : g' = g
      · simp [upd, e]
      · simp only [upd, e, if_false]; exact h.iff g'
    · intro g' hs
      by_cases e : g' = g
      · rw [e]; exact hg
      · simp only [upd, e, if_false] at hs; exact h.bound g' hs

theorem weak_removeOne {P : Params} (acc : State × List Nat) (g : Nat) (h : Weak P acc.1) :
    Weak P (removeOne acc g).1 ∧ (removeOne acc g).1.pos = upd acc.1.pos g none := by
  unfold removeOne
  cases hq : acc.1.g2t g with
  | none =>
    refine ⟨h, ?_⟩
    have hn : acc.1.pos g = none := by
      cases hp : acc.1.pos g with
      | none => rfl
      | some q =>
        have := (h.iff g).mp (by rw [hp]; rfl)
        rw [hq] at this; cases this
    funext i
    by_cases e : i = g
    · subst e; simp [upd, hn]
    · simp [upd, e]
  | some t =>
    refine ⟨⟨?_, ?_⟩, rfl⟩
    · intro g'
      show (upd acc.1.pos g none g').isSome ↔ (upd acc.1.g2t g none g').isSome
      by_cases e : g' = g
      · simp [upd, e]
      · simp only [upd, e, if_false]; exact h.iff g'
    · intro g' hs
      have hs' : (upd acc.1.pos g none g').isSome := hs
      by_cases e : g' = g
      · simp [upd, e] at hs'
      · simp only [upd, e, if_false] at hs'; exact h.bound g' hs'

theorem weak_removeFold {P : Params} (gs : List Nat) (acc : State × List Nat) (h : Weak P acc.1) :
    Weak P (gs.foldl removeOne acc).1 ∧
      ∀ g', (gs.foldl removeOne acc).1.pos g' = if g' ∈ gs then none else acc.1.pos g' := by
  induction gs generalizing acc with
  | nil => exact ⟨h, fun g' => by simp⟩
  | cons g gs ih =>
    simp only [List.foldl_cons]
    obtain ⟨hw, hp⟩ := weak_removeOne acc g h
    obtain ⟨hw', hp'⟩ := ih (removeOne acc g) hw
    refine ⟨hw', ?_⟩
    intro g'
    rw [hp' g', hp]
    by_cases e : g' = g
    · subst e; simp [upd]
    · by_cases m : g' ∈ gs
      · simp [m]
      · simp [m, e, upd]

theorem rebuildFold_g2t (l : List Nat) (s : State) : (l.foldl rebuild s).g2t = s.g2t := by
  induction l generalizing s with
  | nil => rfl
  | cons t l ih => simp only [List.foldl_cons]; rw [ih]; rfl

theorem weak_remove {P : Params} {s : State} (h : Weak P s) (gs : List Nat) :
    Weak P (remove s gs) ∧ ∀ g, (remove s gs).pos g = if g ∈ gs then none else s.pos g := by
  unfold remove
  dsimp only
  obtain ⟨hw, hp⟩ := weak_removeFold gs (s, []) h
  refine ⟨⟨?_, ?_⟩, ?_⟩
  · intro g; rw [Proofs.Engine.rebuild_pos, rebuildFold_g2t]; exact hw.iff g
  · intro g; rw [Proofs.Engine.rebuild_pos]; exact hw.bound g
  · intro g; rw [Proofs.Engine.rebuild_pos]; exact hp g

/-- every `add` of the sequence names a row of `positions` (nothing else is asked) -/
def addsBounded (P : Params) : List Op → Prop
  | [] => True
  | .add g _ _ :: ops => g < P.n ∧ addsBounded P ops
  | _ :: ops => addsBounded P ops

instance (P : Params) : (ops : List Op) → Decidable (addsBounded P ops)
  | [] => isTrue trivial
  | .add g _ _ :: ops => by
    have := instDecidableAddsBounded P ops
    unfold addsBounded; exact inferInstance
  | .remove _ :: ops => by
    have := instDecidableAddsBounded P ops
    unfold addsBounded; exact this
  | .concat :: ops => by
    have := instDecidableAddsBounded P ops
    unfold addsBounded; exact this

theorem weak_step {P : Params} {s : State} (h : Weak P s) (op : Op) (hb : addsBounded P [op]) :
    Weak P (step P s op) ∧ (step P s op).pos = absStep s.pos op := by
  cases op with
  | add g p start =>
    refine ⟨weak_add h g p start hb.1, ?_⟩
    simp only [step, absStep, add]
    split <;> rfl
  | remove gs =>
    obtain ⟨hw, hp⟩ := weak_remove h gs
    exact ⟨hw, funext fun g => by simp only [step, absStep]; exact hp g⟩
  | concat =>
    exact ⟨weak_build P s.pos h.bound, rfl⟩

theorem weak_run {P : Params} (ops : List Op) {s : State} (h : Weak P s) (hb : addsBounded P ops) :
    Weak P (run P s ops) ∧ (run P s ops).pos = absRun s.pos ops := by
  induction ops generalizing s with
  | nil => exact ⟨h, rfl⟩
  | cons op ops ih =>
    have hb1 : addsBounded P [op] ∧ addsBounded P ops := by
      cases op <;> simp_all [addsBounded]
    obtain ⟨hw, hp⟩ := weak_step h op hb1.1
    obtain ⟨hw', hp'⟩ := ih hw hb1.2
    simp only [run, absRun, List.foldl_cons] at hw' hp' ⊢
    exact ⟨hw', by rw [hp', hp]⟩

/-! ### what `add` does to the index lists, whatever the state -/

theorem definedList_add (P : Params) (s : State) (hnt : 0 < s.nt) (g : Nat) (p : V3) (start : Bool) :
    definedList (add P s g p start) = definedList s ++ [g] := by
  unfold add definedList
  dsimp only
  split
  · rw [List.range_succ, List.flatMap_append]
    simp only [List.flatMap_cons, List.flatMap_nil, List.append_nil, upd, if_true]
    congr 1
    apply List.flatMap_congr
    intro t ht
    have : t ≠ s.nt := by simp at ht; omega
    simp [upd, this]
  · obtain ⟨k, hk⟩ : ∃ k, s.nt = k + 1 := ⟨s.nt - 1, by omega⟩
    simp only [hk, Nat.add_sub_cancel]
    rw [List.range_succ, List.flatMap_append, List.flatMap_append]
    simp only [List.flatMap_cons, List.flatMap_nil, List.append_nil, upd, if_true, List.append_assoc]
    congr 1
    apply List.flatMap_congr
    intro t ht
    have : t ≠ k := by simp at ht; omega
    simp [upd, this]

end PolyplyVerif.Proofs.EngineLayout
