/-
Helper lemmas for C09 about the NUMBERS of the non-bonded table (model: `Model/Preprocess.lean`, section
"numbers of the non-bonded table"): what real number a model value (`Val`) stands for, existence and
uniqueness of that number, the outcomes of `convertEntry` / `convertTable`, and `preprocessV` as a
refinement of `preprocess`.  The list-level facts (`genPairsV` erases to `genPairs`) are Mathlib-free and
live in `Proofs/Preprocess.lean`.
-/
import PolyplyVerif.Model.Preprocess
import PolyplyVerif.Proofs.Preprocess
import Mathlib.Analysis.SpecialFunctions.Pow.Real
import Mathlib.Tactic.Ring
import Mathlib.Tactic.FieldSimp
import Mathlib.Tactic.Linarith

namespace PolyplyVerif.Proofs.C09Numbers
open PolyplyVerif PolyplyVerif.Preprocess PolyplyVerif.Proofs.Preprocess

/-- the real number a model value stands for: `root deg rad` is THE non-negative `x` with `x ^ deg = rad` -/
def Denotes : Val → ℝ → Prop
  | .exact q, x => x = (q : ℝ)
  | .root deg rad, x => 0 ≤ x ∧ x ^ deg = (rad : ℝ)
  | .complex, _ => False

/-- a value well-formed for denotation: roots have a positive degree and a non-negative radicand -/
def WellFormed : Val → Prop
  | .exact _ => True
  | .root deg rad => deg ≠ 0 ∧ 0 ≤ rad
  | .complex => False

theorem denotes_unique (v : Val) (hv : WellFormed v) (x y : ℝ) (hx : Denotes v x) (hy : Denotes v y) : x = y := by
  cases v with
  | exact q => simp only [Denotes] at hx hy; rw [hx, hy]
  | root deg rad =>
    simp only [Denotes] at hx hy
    exact (pow_left_inj₀ hx.1 hy.1 hv.1).mp (hx.2.trans hy.2.symm)
  | complex => exact absurd hv id

/-- the root exists: it is `rad ^ (1/deg)` (the expression the Python code evaluates) -/
theorem denotes_root (deg : Nat) (hd : deg ≠ 0) (rad : Rat) (hr : 0 ≤ rad) :
    Denotes (.root deg rad) ((rad : ℝ) ^ ((1 : ℝ) / deg)) := by
  have hr' : (0 : ℝ) ≤ (rad : ℝ) := by exact_mod_cast hr
  refine ⟨Real.rpow_nonneg hr' _, ?_⟩
  rw [← Real.rpow_natCast, ← Real.rpow_mul hr']
  have : (1 : ℝ) / deg * deg = 1 := by
    have : (deg : ℝ) ≠ 0 := by exact_mod_cast hd
    field_simp
  rw [this, Real.rpow_one]

theorem denotes_exists (v : Val) (hv : WellFormed v) : ∃ x, Denotes v x := by
  cases v with
  | exact q => exact ⟨q, rfl⟩
  | root deg rad => exact ⟨_, denotes_root deg hv.1 rad hv.2⟩
  | complex => exact absurd hv id

/-! ### `convertEntry` -/

theorem four_mul_ne (nb2 : Rat) (h2 : nb2 ≠ 0) : 4 * nb2 ≠ 0 := by
  intro h
  rcases Rat.mul_eq_zero.mp h with h | h
  · exact absurd h (by decide)
  · exact h2 h

/-- both non-zero: no exception; sigma is the sixth root of `nb2/nb1` (complex for a negative ratio) -/
theorem convertEntry_nonzero (nb1 nb2 : Rat) (h1 : nb1 ≠ 0) (h2 : nb2 ≠ 0) :
    convertEntry nb1 nb2 = .ok (rootVal 6 (nb2 / nb1), nb1 ^ 2 / (4 * nb2)) := by
  simp [convertEntry, h1, h2, four_mul_ne nb2 h2]

theorem convertEntry_error_iff (nb1 nb2 : Rat) :
    (∃ e, convertEntry nb1 nb2 = .error e) ↔ ((nb1 = 0 ∧ nb2 ≠ 0) ∨ (nb1 ≠ 0 ∧ nb2 = 0)) := by
  by_cases h1 : nb1 = 0 <;> by_cases h2 : nb2 = 0
  · subst h1 h2; simp [convertEntry_zero]
  · subst h1; simp [convertEntry_left_zero nb2 h2, h2]
  · subst h2; simp [convertEntry_right_zero nb1 h1, h1]
  · simp [convertEntry_nonzero nb1 nb2 h1 h2, h1, h2]

theorem convertEntry_error_kind (nb1 nb2 : Rat) (e : String) (h : convertEntry nb1 nb2 = .error e) :
    e = "ZeroDivisionError" := by
  by_cases h1 : nb1 = 0 <;> by_cases h2 : nb2 = 0
  · subst h1 h2; rw [convertEntry_zero] at h; cases h
  · subst h1; rw [convertEntry_left_zero nb2 h2] at h; injection h with h; exact h.symm
  · subst h2; rw [convertEntry_right_zero nb1 h1] at h; injection h with h; exact h.symm
  · rw [convertEntry_nonzero nb1 nb2 h1 h2] at h; cases h

/-- the sigma/epsilon identities for ANY real `sig` with `sig ^ 6 = nb2 / nb1` -/
theorem sigeps_identities (nb1 nb2 sig : ℝ) (h1 : nb1 ≠ 0) (h2 : nb2 ≠ 0) (hs : sig ^ 6 = nb2 / nb1) :
    4 * (nb1 ^ 2 / (4 * nb2)) * sig ^ 6 = nb1 ∧ 4 * (nb1 ^ 2 / (4 * nb2)) * sig ^ 12 = nb2 := by
  have h12 : sig ^ 12 = (nb2 / nb1) ^ 2 := by
    have : sig ^ 12 = (sig ^ 6) ^ 2 := by ring
    rw [this, hs]
  constructor
  · rw [hs]; field_simp
  · rw [h12]; field_simp

/-! ### `convertTable` -/

/-- what a successful conversion of the whole table is: entry by entry, names and provenance kept -/
theorem convertTable_ok (t c : List NbV) (h : convertTable t = .ok c) :
    List.Forall₂ (fun e e' => e'.a = e.a ∧ e'.b = e.b ∧ e'.src = e.src ∧
      convertVals e.nb1 e.nb2 = .ok (e'.nb1, e'.nb2)) t c := by
  induction t generalizing c with
  | nil => simp [convertTable] at h; subst h; exact List.Forall₂.nil
  | cons e rest ih =>
    unfold convertTable at h
    cases hv : convertVals e.nb1 e.nb2 with
    | error err => simp [hv] at h
    | ok r =>
      obtain ⟨s, ep⟩ := r
      cases hr : convertTable rest with
      | error err => simp [hv, hr, Except.map] at h
      | ok c' =>
        simp [hv, hr, Except.map] at h
        subst h
        exact List.Forall₂.cons ⟨rfl, rfl, rfl, hv⟩ (ih c' hr)

/-- the conversion of the table fails exactly when the conversion of one of its entries fails -/
theorem convertTable_error_iff (t : List NbV) :
    (∃ err, convertTable t = .error err) ↔ ∃ e ∈ t, ∃ err, convertVals e.nb1 e.nb2 = .error err := by
  induction t with
  | nil => simp [convertTable]
  | cons e rest ih =>
    unfold convertTable
    cases hv : convertVals e.nb1 e.nb2 with
    | error err =>
      constructor
      · intro _; exact ⟨e, List.mem_cons_self, err, hv⟩
      · intro _; exact ⟨err, rfl⟩
    | ok r =>
      obtain ⟨s, ep⟩ := r
      simp only
      constructor
      · rintro ⟨err, h⟩
        cases hr : convertTable rest with
        | error err' =>
          obtain ⟨e', he', herr⟩ := ih.mp ⟨err', hr⟩
          exact ⟨e', List.mem_cons_of_mem _ he', herr⟩
        | ok c => simp [hr, Except.map] at h
      · rintro ⟨e', he', err, herr⟩
        rcases List.mem_cons.mp he' with rfl | hin
        · rw [hv] at herr; cases herr
        · obtain ⟨err', hr⟩ := ih.mpr ⟨e', hin, err, herr⟩
          exact ⟨err', by simp [hr, Except.map]⟩

/-! ### `preprocessV` refines `preprocess` -/

theorem preprocess_nonbond (P : List Pat) (cf : List (Nat × String)) (tp : Topo) (r : Result)
    (h : preprocess P cf tp = .ok r) :
    r.nonbond = genPairs tp.genPairsYes tp.atomTypes tp.nonbond ∧
      ∃ rule, tp.combRule = some rule ∧ r.converted = convertsRule rule := by
  unfold preprocess at h
  cases hc : tp.combRule with
  | none => simp [hc] at h
  | some rule =>
    simp only [hc] at h
    split at h
    · cases h
    · cases hb : mapBlocksM (replaceDefinesBlock tp.defines) tp.blocks with
      | error e => simp [hb] at h
      | ok blocks =>
        simp only [hb] at h
        split at h
        · cases h
        · injection h with h
          subst h
          exact ⟨rfl, rule, rfl, rfl⟩

theorem filterMap_ofEntry_erase (l : List NbEntry)
    (h : ∀ e ∈ l, e.src ≠ .generated ∧ e.vals.isSome = true) :
    (l.filterMap NbV.ofEntry?).map NbV.erase = l := by
  induction l with
  | nil => rfl
  | cons e rest ih =>
    obtain ⟨hs, hv⟩ := h e List.mem_cons_self
    have ih' := ih (fun e' he' => h e' (List.mem_cons_of_mem _ he'))
    obtain ⟨a, b, src, vals⟩ := e
    cases vals with
    | none => simp at hv
    | some v =>
      simp only [List.filterMap_cons, NbV.ofEntry?, Option.map_some, List.map_cons, ih']
      congr 1
      cases src with
      | generated => exact absurd rfl hs
      | explicit f => rfl
      | self => rfl

/-! ### the translated `comb_funcs` table -/

theorem find_key (cf : List (Nat × String)) (hn : (cf.map (·.1)).Nodup) (e : Nat × String) (he : e ∈ cf) :
    cf.find? (fun e' => ((e'.1 : Nat) : Rat) == ((e.1 : Nat) : Rat)) = some e := by
  induction cf with
  | nil => cases he
  | cons x rest ih =>
    have hn' : (x.1 :: rest.map (·.1)).Nodup := hn
    obtain ⟨hx, hrest⟩ := List.nodup_cons.mp hn'
    rcases List.mem_cons.mp he with rfl | hin
    · simp
    · have hne : x.1 ≠ e.1 := fun h => hx (h ▸ List.mem_map_of_mem (f := (·.1)) hin)
      have : (((x.1 : Nat) : Rat) == ((e.1 : Nat) : Rat)) = false := by
        simp only [beq_eq_false_iff_ne, ne_eq, Nat.cast_inj]
        exact hne
      rw [List.find?_cons, this]
      exact ih hrest hin

/-- with distinct keys and only modelled function names, every rule of the table selects its function -/
theorem combFnFor_of_mem (cf : List (Nat × String)) (hn : (cf.map (·.1)).Nodup)
    (hall : cf.all (fun e => (combFnByName e.2).isSome) = true) :
    ∀ e ∈ cf, ∃ f, combFnFor cf (e.1 : Rat) = .ok f ∧ combFnByName e.2 = some f := by
  intro e he
  have hsome := List.all_eq_true.mp hall e he
  obtain ⟨f, hf⟩ := Option.isSome_iff_exists.mp hsome
  refine ⟨f, ?_, hf⟩
  unfold combFnFor
  rw [find_key cf hn e he]
  simp [hf]

end PolyplyVerif.Proofs.C09Numbers
