import PolyplyVerif.Proofs.Dna
namespace PolyplyVerif.Proofs.Dna
open PolyplyVerif PolyplyVerif.Dna

/-! ### the loop invariant -/

/-- totalised table lookup (only used where the name is known) -/
def cmp (tbl : List (String × String)) (nm : String) : String := (lookup tbl nm).getD ""

def compNode (tbl : List (String × String)) (names : List String) (k : Nat) : RNode :=
  ⟨names.length + k, names.length + k + 1, cmp tbl (names.getD (names.length - 1 - k) "")⟩

def newEdge (names : List String) (labels : List Attrs) (k : Nat) : REdge :=
  ⟨names.length + k, names.length + k + 1, normAttrs (labels.getD (names.length - 2 - k) [])⟩

/-- graph after `j` turns of the loop -/
def gAt (tbl : List (String × String)) (names : List String) (labels : List Attrs) (circ : Option Attrs)
    (j : Nat) : RGraph :=
  { nodes := (strandGraph names labels circ).nodes ++ (List.range (j + 1)).map (compNode tbl names),
    edges := (strandGraph names labels circ).edges ++ (List.range j).map (newEdge names labels),
    maxResid := names.length + j + 1 }

/-- loop state after `j` turns -/
def stAt (tbl : List (String × String)) (names : List String) (labels : List Attrs) (circ : Option Attrs)
    (j : Nat) : St :=
  { g := gAt tbl names labels circ j,
    corr := (List.range (j + 1)).map (fun i => (names.length - 1 - i, names.length + i)),
    total := names.length + j }

section
variable (tbl : List (String × String)) (names : List String) (labels : List Attrs) (circ : Option Attrs)

theorem gAt_nodes_length (j : Nat) : (gAt tbl names labels circ j).nodes.length = names.length + j + 1 := by
  simp [gAt, strandGraph]; omega

theorem gAt_nodes_getElem (j i : Nat) (h : i < (gAt tbl names labels circ j).nodes.length) :
    (gAt tbl names labels circ j).nodes[i] =
      if i < names.length then ⟨i, i + 1, names.getD i ""⟩ else compNode tbl names (i - names.length) := by
  simp only [gAt, strandGraph]
  rw [List.getElem_append]
  split
  · rename_i h1
    simp at h1
    simp [h1]
  · rename_i h1
    simp at h1
    have : ¬ i < names.length := by omega
    simp [this]

theorem gAt_node? (j k : Nat) (hk : k < names.length + j + 1) :
    (gAt tbl names labels circ j).node? k =
      some (if k < names.length then ⟨k, k + 1, names.getD k ""⟩ else compNode tbl names (k - names.length)) := by
  unfold RGraph.node?
  have hl := gAt_nodes_length tbl names labels circ j
  rw [find?_key _ k (by omega), gAt_nodes_getElem]
  intro i h
  rw [gAt_nodes_getElem]
  split
  · rfl
  · simp [compNode]; omega

theorem gAt_resid? (j k : Nat) (hk : k < names.length + j + 1) :
    (gAt tbl names labels circ j).resid? k = some (k + 1) := by
  unfold RGraph.resid?
  rw [gAt_node? _ _ _ _ _ _ hk]
  split
  · rfl
  · simp [compNode]; omega

theorem gAt_resname? (j k : Nat) (hk : k < names.length) :
    (gAt tbl names labels circ j).resname? k = some (names.getD k "") := by
  unfold RGraph.resname?
  rw [gAt_node? _ _ _ _ _ _ (by omega)]
  simp [hk]

end
end PolyplyVerif.Proofs.Dna
