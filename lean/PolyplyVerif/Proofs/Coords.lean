/-
Helper lemmas for C03 (what gen_coords writes).  Single Mathlib modules only.
-/
import PolyplyVerif.Model.Coords
import Mathlib.Tactic.Linarith
import Mathlib.Tactic.Ring
import Mathlib.Algebra.Order.Round
import Mathlib.Analysis.SpecialFunctions.Pow.Real

namespace PolyplyVerif.Proofs.Coords
open PolyplyVerif.Coords

/-! ### listing -/

theorem appendCopies_eq (acc : List MolType) (t : MolType) (n : Nat) :
    appendCopies acc t n = acc ++ List.replicate n t := by
  induction n generalizing acc with
  | zero => simp [appendCopies]
  | succ n ih => simp [appendCopies, ih, List.replicate_succ]

theorem foldl_snoc (out l : List Atom) : l.foldl (fun o a => o ++ [a]) out = out ++ l := by
  induction l generalizing out with
  | nil => simp
  | cons a t ih => simp [ih]

theorem writeLoop_eq (out : List Atom) (ms : List MolType) :
    writeLoop out ms = out ++ ms.flatMap (·.atoms) := by
  induction ms generalizing out with
  | nil => simp [writeLoop]
  | cons m rest ih => rw [writeLoop, foldl_snoc, ih]; simp

theorem flatMap_replicate (n : Nat) (t : MolType) :
    (List.replicate n t).flatMap (·.atoms) = (List.replicate n t.atoms).flatten := by
  induction n with
  | zero => simp
  | succ n ih => simp [List.replicate_succ, ih]

theorem expandLoop_spec (types : List MolType) (mols : List (String × Nat)) (acc : List MolType) :
    (expandLoop types acc mols).map (fun r => r.flatMap (·.atoms))
      = (specListing types mols).map (fun tail => acc.flatMap (·.atoms) ++ tail) := by
  induction mols generalizing acc with
  | nil => simp [expandLoop, specListing]
  | cons e rest ih =>
    obtain ⟨name, n⟩ := e
    simp only [expandLoop, specListing]
    cases hf : findType types name with
    | none => simp
    | some t =>
      simp only [appendCopies_eq]
      rw [ih]
      cases hs : specListing types rest with
      | none => simp
      | some tail => simp [flatMap_replicate]

theorem listing_eq_spec (types : List MolType) (mols : List (String × Nat)) :
    listing types mols = specListing types mols := by
  have h := expandLoop_spec types mols []
  unfold listing
  have hw : (writeLoop [] : List MolType → List Atom) = fun r => r.flatMap (·.atoms) := by
    funext ms; simp [writeLoop_eq]
  rw [hw, h]
  cases specListing types mols <;> simp

/-! ### box -/

theorem chooseBox_eq_spec (cli input : Option Box) (edge : Option Rat) :
    chooseBox cli input edge = specBox cli input edge := by
  unfold chooseBox specBox
  cases cli <;> cases input <;> simp

/-- rounding to `k` decimals moves a number by at most half a unit of the last decimal -/
theorem round_decimals_error (k : Nat) (y : ℝ) :
    |(round (y * 10 ^ k) : ℝ) / 10 ^ k - y| ≤ 1 / 2 / 10 ^ k := by
  have hpos : (0 : ℝ) < 10 ^ k := by positivity
  have h := abs_sub_round (y * 10 ^ k)
  have e : (round (y * 10 ^ k) : ℝ) / 10 ^ k - y = -((y * 10 ^ k - round (y * 10 ^ k)) / 10 ^ k) := by
    field_simp; ring
  rw [e, abs_neg, abs_div, abs_of_pos hpos]
  exact div_le_div_of_nonneg_right h hpos.le

/-- the real cube root used by `(·)**(1/3.)` -/
theorem cube_rpow_third (x : ℝ) (hx : 0 ≤ x) : (x ^ ((1 : ℝ) / 3)) ^ 3 = x := by
  rw [← Real.rpow_natCast, ← Real.rpow_mul hx]
  norm_num

/-! ### all positioned -/

theorem backmap_places {P : Type} (place : P → Nat → P) (m : Mol P) (h1 : m.allPlaced = true)
    (h2 : m.inputOk = true) : (backmapMol place m).atomsPlaced = true := by
  unfold Mol.allPlaced at h1
  unfold Mol.inputOk at h2
  unfold Mol.atomsPlaced backmapMol
  rw [List.all_map, List.all_eq_true]
  intro r hr
  have hp := (List.all_eq_true.mp h1) r hr
  have hi := (List.all_eq_true.mp h2) r hr
  simp only [Function.comp]
  unfold backmapRes
  by_cases hb : r.backmap = true
  · simp only [hb, if_true]
    cases hpos : r.pos with
    | none => simp [hpos] at hp
    | some cg => simp
  · simp only [hb]
    simp only [Bool.not_eq_true] at hb
    simpa [hb] using hi

theorem retry_spec {P : Type} (walk : Nat → Nat → Mol P → Option (Mol P)) (idx : Nat) (m m' : Mol P) :
    ∀ fuel attempt, retry walk idx m fuel attempt = some m' → ∃ k, walk idx k m = some m' := by
  intro fuel
  induction fuel with
  | zero => intro attempt h; simp [retry] at h
  | succ n ih =>
    intro attempt h
    simp only [retry] at h
    split at h
    · rename_i m'' hw
      exact ⟨attempt, by rw [hw, h]⟩
    · exact ih (attempt + 1) h

theorem compose_spec {P : Type} (walk : Nat → Nat → Mol P → Option (Mol P)) (fuel : Nat)
    (hwalk : ∀ idx k m m', walk idx k m = some m' → m'.allPlaced = true ∧ (m.inputOk = true → m'.inputOk = true)) :
    ∀ (mols : List (Mol P)) (idx : Nat) (out : List (Mol P)), compose walk fuel idx mols = some out →
      (∀ m ∈ mols, m.inputOk = true) → ∀ m ∈ out, m.allPlaced = true ∧ m.inputOk = true := by
  intro mols
  induction mols with
  | nil => intro idx out h _ m hm; simp [compose] at h; subst h; simp at hm
  | cons m0 rest ih =>
    intro idx out h hin m hm
    simp only [compose] at h
    split at h
    · rename_i hplaced
      cases hc : compose walk fuel (idx + 1) rest with
      | none => simp [hc] at h
      | some out' =>
        simp [hc] at h; subst h
        rcases List.mem_cons.mp hm with e | e
        · subst e; exact ⟨hplaced, hin _ List.mem_cons_self⟩
        · exact ih (idx + 1) out' hc (fun x hx => hin x (List.mem_cons_of_mem _ hx)) m e
    · split at h
      · simp at h
      · rename_i m' hr
        cases hc : compose walk fuel (idx + 1) rest with
        | none => simp [hc] at h
        | some out' =>
          simp [hc] at h; subst h
          rcases List.mem_cons.mp hm with e | e
          · subst e
            obtain ⟨k, hk⟩ := retry_spec walk idx m0 _ fuel 0 hr
            have := hwalk idx k m0 _ hk
            exact ⟨this.1, this.2 (hin _ List.mem_cons_self)⟩
          · exact ih (idx + 1) out' hc (fun x hx => hin x (List.mem_cons_of_mem _ hx)) m e

end PolyplyVerif.Proofs.Coords
