/-
Helper lemmas for C03 (what gen_coords writes).  Single Mathlib modules only.
-/
import PolyplyVerif.Model.Coords
import Mathlib.Tactic.Linarith
import Mathlib.Tactic.Ring
import Mathlib.Algebra.Order.Round
import Mathlib.Data.Rat.Floor
import Mathlib.Algebra.Order.Field.Basic
import Mathlib.Analysis.SpecialFunctions.Pow.Real

namespace PolyplyVerif.Proofs.Coords
open PolyplyVerif.Coords

/-! ### listing -/

theorem appendCopies_eq (acc : List MolType) (t : MolType) (n : Nat) :
    appendCopies acc t n = acc ++ List.replicate n t := by
  induction n generalizing acc with
  | zero => simp [appendCopies]
  | succ n ih => simp [appendCopies, ih, List.replicate_succ]

theorem foldl_snoc (out l : List Atom) : l.foldl (fun o a => o ++ [a]) out = out ++ l := by
  induction l generalizing out with
  | nil => simp
  | cons a t ih => simp [ih]

theorem writeLoop_eq (out : List Atom) (ms : List MolType) :
    writeLoop out ms = out ++ ms.flatMap (·.atoms) := by
  induction ms generalizing out with
  | nil => simp [writeLoop]
  | cons m rest ih => rw [writeLoop, foldl_snoc, ih]; simp

theorem flatMap_replicate (n : Nat) (t : MolType) :
    (List.replicate n t).flatMap (·.atoms) = (List.replicate n t.atoms).flatten := by
  induction n with
  | zero => simp
  | succ n ih => simp [List.replicate_succ, ih]

theorem expandLoop_spec (types : List MolType) (mols : List (String × Nat)) (acc : List MolType) :
    (expandLoop types acc mols).map (fun r => r.flatMap (·.atoms))
      = (specListing types mols).map (fun tail => acc.flatMap (·.atoms) ++ tail) := by
  induction mols generalizing acc with
  | nil => simp [expandLoop, specListing]
  | cons e rest ih =>
    obtain ⟨name, n⟩ := e
    simp only [expandLoop, specListing]
    cases hf : findType types name with
    | none => simp
    | some t =>
      simp only [appendCopies_eq]
      rw [ih]
      cases hs : specListing types rest with
      | none => simp
      | some tail => simp [flatMap_replicate]

theorem listing_eq_spec (types : List MolType) (mols : List (String × Nat)) :
    listing types mols = specListing types mols := by
  have h := expandLoop_spec types mols []
  unfold listing
  have hw : (writeLoop [] : List MolType → List Atom) = fun r => r.flatMap (·.atoms) := by
    funext ms; simp [writeLoop_eq]
  rw [hw, h]
  cases specListing types mols <;> simp

/-! ### box -/

theorem chooseBox_eq_spec (cli input : Option Box) (edge : Option Rat) :
    chooseBox cli input edge = specBox cli input edge := by
  unfold chooseBox specBox
  cases cli <;> cases input <;> simp

/-- rounding to `k` decimals moves a number by at most half a unit of the last decimal -/
theorem round_decimals_error (k : Nat) (y : ℝ) :
    |(round (y * 10 ^ k) : ℝ) / 10 ^ k - y| ≤ 1 / 2 / 10 ^ k := by
  have hpos : (0 : ℝ) < 10 ^ k := by positivity
  have h := abs_sub_round (y * 10 ^ k)
  have e : (round (y * 10 ^ k) : ℝ) / 10 ^ k - y = -((y * 10 ^ k - round (y * 10 ^ k)) / 10 ^ k) := by
    field_simp; ring
  rw [e, abs_neg, abs_div, abs_of_pos hpos]
  exact div_le_div_of_nonneg_right h hpos.le

/-- the real cube root used by `(·)**(1/3.)` -/
theorem cube_rpow_third (x : ℝ) (hx : 0 ≤ x) : (x ^ ((1 : ℝ) / 3)) ^ 3 = x := by
  rw [← Real.rpow_natCast, ← Real.rpow_mul hx]
  norm_num

/-! ### all positioned -/

theorem backmap_places {P : Type} (place : P → Nat → P) (m : Mol P) (h1 : m.allPlaced = true)
    (h2 : m.inputOk = true) : (backmapMol place m).atomsPlaced = true := by
  unfold Mol.allPlaced at h1
  unfold Mol.inputOk at h2
  unfold Mol.atomsPlaced backmapMol
  rw [List.all_map, List.all_eq_true]
  intro r hr
  have hp := (List.all_eq_true.mp h1) r hr
  have hi := (List.all_eq_true.mp h2) r hr
  simp only [Function.comp]
  unfold backmapRes
  by_cases hb : r.backmap = true
  · simp only [hb, if_true]
    cases hpos : r.pos with
    | none => simp [hpos] at hp
    | some cg => simp
  · simp only [hb]
    simp only [Bool.not_eq_true] at hb
    simpa [hb] using hi

/-! ### start grid -/

theorem ceilInt_eq (q : Rat) : ceilInt q = ⌈q⌉ := by
  unfold ceilInt
  have : (-q).floor = ⌊-q⌋ := rfl
  rw [this, Int.floor_neg, neg_neg]

/-- index `i` is produced by `np.mgrid[0:b:s]` iff `i * s < b` (exact arithmetic, `s > 0`) -/
theorem lt_mgridCount (b s : Rat) (hs : 0 < s) (i : Nat) : i < mgridCount b s ↔ (i : Rat) * s < b := by
  unfold mgridCount
  rw [Int.lt_toNat, ceilInt_eq, Int.lt_ceil, lt_div_iff₀ hs]
  simp

theorem mem_mgridAxis (b s : Rat) (hs : 0 < s) (x : Rat) :
    x ∈ mgridAxis b s ↔ ∃ i : Nat, x = (i : Rat) * s ∧ (i : Rat) * s < b := by
  unfold mgridAxis
  simp only [List.mem_map, List.mem_range]
  constructor
  · rintro ⟨i, hi, rfl⟩; exact ⟨i, rfl, (lt_mgridCount b s hs i).mp hi⟩
  · rintro ⟨i, rfl, hi⟩; exact ⟨i, (lt_mgridCount b s hs i).mpr hi, rfl⟩

theorem mgridAxis_length (b s : Rat) : (mgridAxis b s).length = mgridCount b s := by
  simp [mgridAxis]

theorem mem_product3 (xs ys zs : List Rat) (p : Box) :
    p ∈ product3 xs ys zs ↔ p.1 ∈ xs ∧ p.2.1 ∈ ys ∧ p.2.2 ∈ zs := by
  obtain ⟨a, b, c⟩ := p
  simp only [product3, List.mem_flatMap, List.mem_map, Prod.mk.injEq]
  constructor
  · rintro ⟨x, hx, y, hy, z, hz, rfl, rfl, rfl⟩; exact ⟨hx, hy, hz⟩
  · rintro ⟨hx, hy, hz⟩; exact ⟨a, hx, b, hy, c, hz, rfl, rfl, rfl⟩

theorem product2_length (x : Rat) (ys zs : List Rat) :
    (ys.flatMap fun y => zs.map fun z => ((x, y, z) : Box)).length = ys.length * zs.length := by
  induction ys with
  | nil => simp
  | cons y ys ih => simp only [List.flatMap_cons, List.length_append, List.length_map, ih, List.length_cons]; ring

theorem product3_length (xs ys zs : List Rat) :
    (product3 xs ys zs).length = xs.length * (ys.length * zs.length) := by
  unfold product3
  induction xs with
  | nil => simp
  | cons x xs ih =>
    simp only [List.flatMap_cons, List.length_append, ih, List.length_cons, product2_length]
    ring

theorem belowBox_iff (box p : Box) :
    belowBox box p = true ↔ p.1 < box.1 ∧ p.2.1 < box.2.1 ∧ p.2.2 < box.2.2 := by
  simp [belowBox, and_assoc]

theorem insideBox_iff (box p : Box) :
    insideBox box p = true ↔ (0 ≤ p.1 ∧ p.1 < box.1) ∧ (0 ≤ p.2.1 ∧ p.2.1 < box.2.1) ∧ (0 ≤ p.2.2 ∧ p.2.2 < box.2.2) := by
  simp [insideBox, and_assoc]

/-- whatever the three axis lists are (rounded quotients, rounded products): after the filter every
point with non-negative coordinates is inside the box -/
theorem gridFilter_inside (box : Box) (xs ys zs : List Rat)
    (hx : ∀ x ∈ xs, 0 ≤ x) (hy : ∀ y ∈ ys, 0 ≤ y) (hz : ∀ z ∈ zs, 0 ≤ z) :
    ∀ p ∈ gridFilter box (product3 xs ys zs), insideBox box p = true := by
  intro p hp
  simp only [gridFilter, List.mem_filter] at hp
  obtain ⟨hm, hb⟩ := hp
  rw [mem_product3] at hm
  rw [belowBox_iff] at hb
  rw [insideBox_iff]
  exact ⟨⟨hx _ hm.1, hb.1⟩, ⟨hy _ hm.2.1, hb.2.1⟩, ⟨hz _ hm.2.2, hb.2.2⟩⟩

theorem mgridAxis_nonneg (b s : Rat) (hs : 0 < s) : ∀ x ∈ mgridAxis b s, 0 ≤ x := by
  intro x hx
  obtain ⟨i, rfl, _⟩ := (mem_mgridAxis b s hs x).mp hx
  positivity

/-- in exact arithmetic the filter of 28d4aca drops nothing -/
theorem startGrid_eq_product (box : Box) (s : Rat) (hs : 0 < s) :
    startGrid box s = product3 (mgridAxis box.1 s) (mgridAxis box.2.1 s) (mgridAxis box.2.2 s) := by
  unfold startGrid gridFilter
  rw [List.filter_eq_self]
  intro p hp
  rw [mem_product3] at hp
  rw [belowBox_iff]
  obtain ⟨i, hi, hi'⟩ := (mem_mgridAxis _ s hs _).mp hp.1
  obtain ⟨j, hj, hj'⟩ := (mem_mgridAxis _ s hs _).mp hp.2.1
  obtain ⟨k, hk, hk'⟩ := (mem_mgridAxis _ s hs _).mp hp.2.2
  rw [hi, hj, hk]
  exact ⟨hi', hj', hk'⟩

theorem mem_startGrid (box : Box) (s : Rat) (hs : 0 < s) (p : Box) :
    p ∈ startGrid box s ↔ ∃ i j k : Nat, p = ((i : Rat) * s, (j : Rat) * s, (k : Rat) * s) ∧
      (i : Rat) * s < box.1 ∧ (j : Rat) * s < box.2.1 ∧ (k : Rat) * s < box.2.2 := by
  rw [startGrid_eq_product box s hs, mem_product3]
  simp only [mem_mgridAxis _ s hs]
  obtain ⟨a, b, c⟩ := p
  constructor
  · rintro ⟨⟨i, hi, hi'⟩, ⟨j, hj, hj'⟩, ⟨k, hk, hk'⟩⟩
    simp only at hi hj hk
    exact ⟨i, j, k, by rw [hi, hj, hk], hi', hj', hk'⟩
  · rintro ⟨i, j, k, he, hi, hj, hk⟩
    simp only [Prod.mk.injEq] at he
    obtain ⟨rfl, rfl, rfl⟩ := he
    exact ⟨⟨i, rfl, hi⟩, ⟨j, rfl, hj⟩, ⟨k, rfl, hk⟩⟩

theorem origin_mem_startGrid (box : Box) (s : Rat) (hs : 0 < s)
    (hb : 0 < box.1 ∧ 0 < box.2.1 ∧ 0 < box.2.2) : ((0, 0, 0) : Box) ∈ startGrid box s := by
  rw [mem_startGrid box s hs]
  exact ⟨0, 0, 0, by simp, by simpa using hb.1, by simpa using hb.2.1, by simpa using hb.2.2⟩

theorem startGrid_inside (box : Box) (s : Rat) (hs : 0 < s) :
    ∀ p ∈ startGrid box s, insideBox box p = true :=
  gridFilter_inside box _ _ _ (mgridAxis_nonneg _ s hs) (mgridAxis_nonneg _ s hs) (mgridAxis_nonneg _ s hs)

theorem specGrid_startGrid (box : Box) (s : Rat) (hs : 0 < s)
    (hb : 0 < box.1 ∧ 0 < box.2.1 ∧ 0 < box.2.2) : specGrid box (startGrid box s) = true := by
  unfold specGrid
  rw [Bool.and_eq_true]
  refine ⟨?_, List.all_eq_true.mpr (startGrid_inside box s hs)⟩
  have := origin_mem_startGrid box s hs hb
  cases h : startGrid box s with
  | nil => rw [h] at this; simp at this
  | cons a t => simp

theorem startGrid_length (box : Box) (s : Rat) (hs : 0 < s) :
    (startGrid box s).length = mgridCount box.1 s * (mgridCount box.2.1 s * mgridCount box.2.2 s) := by
  rw [startGrid_eq_product box s hs, product3_length, mgridAxis_length, mgridAxis_length, mgridAxis_length]

theorem retry_spec {P : Type} (walk : Nat → Nat → Mol P → Option (Mol P)) (idx : Nat) (m m' : Mol P) :
    ∀ fuel attempt, retry walk idx m fuel attempt = some m' → ∃ k, walk idx k m = some m' := by
  intro fuel
  induction fuel with
  | zero => intro attempt h; simp [retry] at h
  | succ n ih =>
    intro attempt h
    simp only [retry] at h
    split at h
    · rename_i m'' hw
      exact ⟨attempt, by rw [hw, h]⟩
    · exact ih (attempt + 1) h

theorem compose_spec {P : Type} (walk : Nat → Nat → Mol P → Option (Mol P)) (fuel : Nat)
    (hwalk : ∀ idx k m m', walk idx k m = some m' → m'.allPlaced = true ∧ (m.inputOk = true → m'.inputOk = true)) :
    ∀ (mols : List (Mol P)) (idx : Nat) (out : List (Mol P)), compose walk fuel idx mols = some out →
      (∀ m ∈ mols, m.inputOk = true) → ∀ m ∈ out, m.allPlaced = true ∧ m.inputOk = true := by
  intro mols
  induction mols with
  | nil => intro idx out h _ m hm; simp [compose] at h; subst h; simp at hm
  | cons m0 rest ih =>
    intro idx out h hin m hm
    simp only [compose] at h
    split at h
    · rename_i hplaced
      cases hc : compose walk fuel (idx + 1) rest with
      | none => simp [hc] at h
      | some out' =>
        simp [hc] at h; subst h
        rcases List.mem_cons.mp hm with e | e
        · subst e; exact ⟨hplaced, hin _ List.mem_cons_self⟩
        · exact ih (idx + 1) out' hc (fun x hx => hin x (List.mem_cons_of_mem _ hx)) m e
    · split at h
      · simp at h
      · rename_i m' hr
        cases hc : compose walk fuel (idx + 1) rest with
        | none => simp [hc] at h
        | some out' =>
          simp [hc] at h; subst h
          rcases List.mem_cons.mp hm with e | e
          · subst e
            obtain ⟨k, hk⟩ := retry_spec walk idx m0 _ fuel 0 hr
            have := hwalk idx k m0 _ hk
            exact ⟨this.1, this.2 (hin _ List.mem_cons_self)⟩
          · exact ih (idx + 1) out' hc (fun x hx => hin x (List.mem_cons_of_mem _ hx)) m e

end PolyplyVerif.Proofs.Coords
