/-
Lemmas about `Model/EngineTrials.lean`: the trial loop of `update_positions` — it refines `Engine.updateLoop`,
never tries a vector twice, makes at most `min(maxiter + 1, |bundle|)` trials and exactly that many when every
trial is rejected; the unit vectors of `norm_sphere`.
-/
import Mathlib.Data.List.Perm.Basic
import Mathlib.Tactic.Ring
import Mathlib.Tactic.Linarith
import Mathlib.Tactic.FieldSimp
import Mathlib.Analysis.Real.Sqrt
import PolyplyVerif.Model.EngineTrials

namespace PolyplyVerif.Proofs.EngineTrials
open PolyplyVerif.Geometry PolyplyVerif.Engine

theorem updateLoop_nil (P : Params) (W : WalkParams) (s : State) (other : V3 → Bool) (last : V3)
    (stepLen : Rat) (g : Nat) (excl : List Nat) (count : Nat) (choices : List Nat) :
    updateLoop P W s other last stepLen g excl [] count choices = none := by
  cases choices <;> simp [updateLoop]

/-- `updateLoop` is `trialLoop` with everything but the accepted point forgotten -/
theorem updateLoop_eq_trial (P : Params) (W : WalkParams) (s : State) (other : V3 → Bool) (last : V3)
    (stepLen : Rat) (g : Nat) (excl : List Nat) (choices : List Nat) :
    ∀ (bundle : List V3) (count : Nat),
    updateLoop P W s other last stepLen g excl bundle count choices =
      match (trialLoop P.L (acceptTest P W s other g excl) W.maxiter last stepLen bundle count choices).stop with
      | .accepted p => some p
      | _ => none := by
  induction choices with
  | nil => intro bundle count; simp [updateLoop, trialLoop]
  | cons c cs ih =>
    intro bundle count
    unfold updateLoop trialLoop
    cases hv : bundle[c % bundle.length]? with
    | none => simp
    | some v =>
      dsimp only
      by_cases hacc : acceptTest P W s other g excl (takeStep P.L v stepLen last) = true
      · have : (other (takeStep P.L v stepLen last) && !isOverlap P W s (takeStep P.L v stepLen last) g excl) = true := hacc
        simp [this, hacc]
      · have h' : ¬ ((other (takeStep P.L v stepLen last) && !isOverlap P W s (takeStep P.L v stepLen last) g excl) = true) := hacc
        rw [if_neg h', if_neg hacc]
        by_cases hc : count = W.maxiter
        · simp [hc]
        · rw [if_neg hc, if_neg hc]
          by_cases he : (bundle.eraseIdx (c % bundle.length)).isEmpty = true
          · rw [if_pos he]
            have : bundle.eraseIdx (c % bundle.length) = [] := List.isEmpty_iff.mp he
            rw [this, updateLoop_nil]
          · rw [if_neg he]
            exact ih _ _

theorem perm_getElem_eraseIdx {α : Type} : ∀ (l : List α) (i : Nat) (v : α), l[i]? = some v →
    List.Perm (v :: l.eraseIdx i) l
  | [], i, v, h => by simp at h
  | a :: t, 0, v, h => by
    simp only [List.getElem?_cons_zero, Option.some.injEq] at h
    subst h; simp
  | a :: t, i + 1, v, h => by
    simp only [List.getElem?_cons_succ] at h
    simp only [List.eraseIdx_cons_succ]
    exact (List.Perm.swap a v _).trans ((perm_getElem_eraseIdx t i v h).cons a)

section loop
variable (L : V3) (acc : V3 → Bool) (maxiter : Nat) (last : V3) (stepLen : Rat)

/-- deletion of the tried vector: the tried vectors are distinct entries of the bundle (no vector is tried twice) -/
theorem trial_subperm (choices : List Nat) : ∀ (bundle : List V3) (count : Nat),
    ∃ rest, List.Perm ((trialLoop L acc maxiter last stepLen bundle count choices).tried ++ rest) bundle := by
  induction choices with
  | nil => intro bundle count; exact ⟨bundle, by simp [trialLoop]⟩
  | cons c cs ih =>
    intro bundle count
    unfold trialLoop
    cases hv : bundle[c % bundle.length]? with
    | none => exact ⟨bundle, by simp⟩
    | some v =>
      dsimp only
      have hp := perm_getElem_eraseIdx bundle _ v hv
      split
      · exact ⟨bundle.eraseIdx (c % bundle.length), by simpa using hp⟩
      · split
        · exact ⟨bundle.eraseIdx (c % bundle.length), by simpa using hp⟩
        · split
          · exact ⟨bundle.eraseIdx (c % bundle.length), by simpa using hp⟩
          · obtain ⟨rest, hr⟩ := ih (bundle.eraseIdx (c % bundle.length)) (count + 1)
            exact ⟨rest, by simpa using (hr.cons v).trans hp⟩

/-- at most `maxiter + 1 − step_count` trials, and never more than the bundle holds -/
theorem trial_count_le (choices : List Nat) : ∀ (bundle : List V3) (count : Nat), count ≤ maxiter →
    (trialLoop L acc maxiter last stepLen bundle count choices).tried.length ≤ min (maxiter + 1 - count) bundle.length := by
  induction choices with
  | nil => intro bundle count _; simp [trialLoop]
  | cons c cs ih =>
    intro bundle count hc
    unfold trialLoop
    cases hv : bundle[c % bundle.length]? with
    | none => simp
    | some v =>
      dsimp only
      have hlen : 0 < bundle.length := by
        cases bundle with
        | nil => simp at hv
        | cons _ _ => simp
      split
      · simp only [List.length_singleton]; omega
      · split
        · simp only [List.length_singleton]; omega
        · rename_i _ hne
          split
          · simp only [List.length_singleton]; omega
          · have hlt : c % bundle.length < bundle.length := Nat.mod_lt _ hlen
            have := ih (bundle.eraseIdx (c % bundle.length)) (count + 1) (by omega)
            rw [List.length_eraseIdx_of_lt hlt] at this
            simp only [List.length_cons]
            omega

/-- when every vector of the (non-empty) bundle is rejected, the loop makes EXACTLY
`min(maxiter + 1 − step_count, |bundle|)` trials (given that many random draws), and ends with `return False` if
the bundle holds at least `maxiter + 1 − step_count` vectors, else with the ValueError of the empty bundle -/
theorem trial_all_rejected (choices : List Nat) : ∀ (bundle : List V3) (count : Nat), count ≤ maxiter →
    bundle ≠ [] → (∀ v ∈ bundle, acc (takeStep L v stepLen last) = false) →
    min (maxiter + 1 - count) bundle.length ≤ choices.length →
    (trialLoop L acc maxiter last stepLen bundle count choices).tried.length = min (maxiter + 1 - count) bundle.length ∧
    (trialLoop L acc maxiter last stepLen bundle count choices).stop =
      if maxiter + 1 - count ≤ bundle.length then .maxiter else .emptyBundle := by
  induction choices with
  | nil =>
    intro bundle count hc hne _ hch
    have : 0 < bundle.length := List.length_pos_iff.mpr hne
    have h0 : min (maxiter + 1 - count) bundle.length ≤ 0 := hch
    omega
  | cons c cs ih =>
    intro bundle count hc hne hrej hch
    have hpos : 0 < bundle.length := List.length_pos_iff.mpr hne
    unfold trialLoop
    have hlt : c % bundle.length < bundle.length := Nat.mod_lt _ hpos
    have hv : bundle[c % bundle.length]? = some (bundle[c % bundle.length]) :=
      List.getElem?_eq_getElem hlt
    rw [hv]
    dsimp only
    have hr := hrej _ (List.getElem_mem hlt)
    rw [if_neg (by rw [hr]; simp)]
    have hlen' : (bundle.eraseIdx (c % bundle.length)).length = bundle.length - 1 :=
      List.length_eraseIdx_of_lt hlt
    by_cases hcm : count = maxiter
    · rw [if_pos hcm]
      subst hcm
      have h1 : count + 1 - count = 1 := by omega
      have h2 : 1 ≤ bundle.length := by omega
      simp [h1, h2]
    · rw [if_neg hcm]
      by_cases he : (bundle.eraseIdx (c % bundle.length)).isEmpty = true
      · rw [if_pos he]
        have h0 : (bundle.eraseIdx (c % bundle.length)).length = 0 := by
          rw [List.isEmpty_iff.mp he]; rfl
        have h1 : bundle.length = 1 := by omega
        have h2 : ¬ (maxiter + 1 - count ≤ 1) := by omega
        simp only [List.length_singleton, h1]
        refine ⟨by omega, by rw [if_neg h2]⟩
      · rw [if_neg he]
        have hne' : bundle.eraseIdx (c % bundle.length) ≠ [] := fun h => he (by rw [h]; rfl)
        have hrej' : ∀ v ∈ bundle.eraseIdx (c % bundle.length), acc (takeStep L v stepLen last) = false :=
          fun v hv' => hrej v (List.mem_of_mem_eraseIdx hv')
        have hch' : min (maxiter + 1 - (count + 1)) (bundle.eraseIdx (c % bundle.length)).length ≤ cs.length := by
          rw [hlen']
          simp only [List.length_cons] at hch
          omega
        obtain ⟨h1, h2⟩ := ih _ (count + 1) (by omega) hne' hrej' hch'
        rw [hlen'] at h1 h2
        refine ⟨?_, ?_⟩
        · simp only [List.length_cons]; rw [h1]; omega
        · show (trialLoop L acc maxiter last stepLen (bundle.eraseIdx (c % bundle.length)) (count + 1) cs).stop = _
          rw [h2]
          by_cases hle : maxiter + 1 - (count + 1) ≤ bundle.length - 1
          · rw [if_pos hle, if_pos (by omega)]
          · rw [if_neg hle, if_neg (by omega)]

/-- an accepted point is the step along the LAST tried vector, it passes the test, and every earlier tried vector
was rejected -/
theorem trial_accepted (choices : List Nat) : ∀ (bundle : List V3) (count : Nat) (p : V3),
    (trialLoop L acc maxiter last stepLen bundle count choices).stop = .accepted p →
    ∃ front v, (trialLoop L acc maxiter last stepLen bundle count choices).tried = front ++ [v] ∧
      p = takeStep L v stepLen last ∧ acc p = true ∧ ∀ w ∈ front, acc (takeStep L w stepLen last) = false := by
  induction choices with
  | nil => intro bundle count p h; simp [trialLoop] at h
  | cons c cs ih =>
    intro bundle count p h
    unfold trialLoop at h ⊢
    cases hv : bundle[c % bundle.length]? with
    | none => rw [hv] at h; simp at h
    | some v =>
      rw [hv] at h
      dsimp only at h ⊢
      by_cases hacc : acc (takeStep L v stepLen last) = true
      · rw [if_pos hacc] at h ⊢
        simp only [TrialEnd.accepted.injEq] at h
        subst h
        exact ⟨[], v, by simp, rfl, hacc, by simp⟩
      · rw [if_neg hacc] at h ⊢
        by_cases hc : count = maxiter
        · rw [if_pos hc] at h; simp at h
        · rw [if_neg hc] at h ⊢
          by_cases he : (bundle.eraseIdx (c % bundle.length)).isEmpty = true
          · rw [if_pos he] at h; simp at h
          · rw [if_neg he] at h ⊢
            obtain ⟨front, w, ht, hp, ha, hf⟩ := ih _ _ p h
            refine ⟨v :: front, w, by simp [ht], hp, ha, ?_⟩
            intro x hx
            rcases List.mem_cons.mp hx with rfl | hx
            · simpa using hacc
            · exact hf x hx

end loop

/-! ### unit vectors (`_u_vect`, `norm_sphere`) -/

/-- over ℚ: dividing by a number whose square is the squared norm gives squared norm 1 -/
theorem uVectWith_normSq (v : V3) (n : Rat) (hn : n * n = v.normSq) (h0 : n ≠ 0) : (uVectWith v n).normSq = 1 := by
  simp only [uVectWith, V3.normSq] at *
  field_simp
  linarith

/-- over ℝ: `u / ‖u‖` has norm 1 for every `u ≠ 0` — what `norm_sphere` returns for every draw of the normal
distribution that is not the zero vector -/
theorem uVect_norm (x y z : ℝ) (h : x ≠ 0 ∨ y ≠ 0 ∨ z ≠ 0) :
    (x / Real.sqrt (x * x + y * y + z * z)) * (x / Real.sqrt (x * x + y * y + z * z)) +
    (y / Real.sqrt (x * x + y * y + z * z)) * (y / Real.sqrt (x * x + y * y + z * z)) +
    (z / Real.sqrt (x * x + y * y + z * z)) * (z / Real.sqrt (x * x + y * y + z * z)) = 1 := by
  have hpos : 0 < x * x + y * y + z * z := by
    rcases h with h | h | h
    · have := mul_self_pos.mpr h; nlinarith [mul_self_nonneg y, mul_self_nonneg z]
    · have := mul_self_pos.mpr h; nlinarith [mul_self_nonneg x, mul_self_nonneg z]
    · have := mul_self_pos.mpr h; nlinarith [mul_self_nonneg x, mul_self_nonneg y]
  have hs : Real.sqrt (x * x + y * y + z * z) * Real.sqrt (x * x + y * y + z * z) = x * x + y * y + z * z :=
    Real.mul_self_sqrt hpos.le
  have hne : Real.sqrt (x * x + y * y + z * z) ≠ 0 := ne_of_gt (Real.sqrt_pos.mpr hpos)
  have e : x / Real.sqrt (x * x + y * y + z * z) * (x / Real.sqrt (x * x + y * y + z * z)) +
      y / Real.sqrt (x * x + y * y + z * z) * (y / Real.sqrt (x * x + y * y + z * z)) +
      z / Real.sqrt (x * x + y * y + z * z) * (z / Real.sqrt (x * x + y * y + z * z)) =
      (x * x + y * y + z * z) / (Real.sqrt (x * x + y * y + z * z) * Real.sqrt (x * x + y * y + z * z)) := by
    rw [div_mul_div_comm, div_mul_div_comm, div_mul_div_comm, ← add_div, ← add_div]
  rw [e, hs]
  exact div_self (ne_of_gt hpos)

end PolyplyVerif.Proofs.EngineTrials
