import PolyplyVerif.Model.BuildFile

/-! Helper lemmas for C18.  Core Lean only. -/

namespace PolyplyVerif.Proofs.BuildFile
open PolyplyVerif.BuildFile

/-! ### generic: folds in `Except` -/

theorem bind_ok {ε α β} (x : Except ε α) (f : α → Except ε β) (r : β) (h : (x >>= f) = .ok r) :
    ∃ a, x = .ok a ∧ f a = .ok r := by
  cases x with
  | error e => simp [bind, Except.bind] at h
  | ok a => exact ⟨a, rfl, by simpa [bind, Except.bind] using h⟩

/-- a successful monadic fold, seen through a projection that every successful step transforms purely -/
theorem foldlM_proj {ε σ α τ} (f : σ → α → Except ε σ) (proj : σ → τ) (g : τ → α → τ)
    (hstep : ∀ s x s', f s x = .ok s' → proj s' = g (proj s) x) :
    ∀ (l : List α) (init r : σ), l.foldlM f init = .ok r → proj r = l.foldl g (proj init) := by
  intro l
  induction l with
  | nil => intro init r h; simp [List.foldlM_nil, pure, Except.pure] at h; subst h; rfl
  | cons x xs ih =>
    intro init r h
    rw [List.foldlM_cons] at h
    obtain ⟨s, hs, hr⟩ := bind_ok _ _ _ h
    rw [ih s r hr, hstep init x s hs]
    rfl

/-- an invariant carried through a successful monadic fold -/
theorem foldlM_inv {ε σ α} (f : σ → α → Except ε σ) (P : σ → Prop) (l : List α)
    (hstep : ∀ s x s', x ∈ l → P s → f s x = .ok s' → P s') :
    ∀ (init r : σ), P init → l.foldlM f init = .ok r → P r := by
  induction l with
  | nil => intro init r hp h; simp [List.foldlM_nil, pure, Except.pure] at h; subst h; exact hp
  | cons x xs ih =>
    intro init r hp h
    rw [List.foldlM_cons] at h
    obtain ⟨s, hs, hr⟩ := bind_ok _ _ _ h
    exact ih (fun s x s' hx => hstep s x s' (List.mem_cons_of_mem _ hx)) s r
      (hstep init x s List.mem_cons_self hp hs) hr

/-! ### insertion-ordered dictionaries -/

section dict
variable {κ α : Type} [DecidableEq κ]

theorem lookup_appendAt (tbl : List (κ × List α)) (k k' : κ) (v : α) :
    (lookup (appendAt tbl k v) k').getD [] = (lookup tbl k').getD [] ++ (if k = k' then [v] else []) := by
  induction tbl with
  | nil =>
    by_cases h : k = k' <;> simp [appendAt, lookup, h]
  | cons e rest ih =>
    obtain ⟨k0, vs⟩ := e
    by_cases h0 : k0 = k
    · subst h0
      by_cases h : k0 = k' <;> simp [appendAt, lookup, h]
    · by_cases h1 : k0 = k'
      · subst h1
        simp [appendAt, lookup, h0]
        intro h; exact absurd h.symm h0
      · simp [appendAt, lookup, h0, h1]
        simpa using ih

theorem lookup_fold_appendAt (es : List (κ × α)) : ∀ (t0 : List (κ × List α)) (k : κ),
    (lookup (es.foldl (fun t e => appendAt t e.1 e.2) t0) k).getD [] =
      (lookup t0 k).getD [] ++ (es.filter (fun e => decide (e.1 = k))).map (·.2) := by
  induction es with
  | nil => intro t0 k; simp
  | cons e rest ih =>
    intro t0 k
    simp only [List.foldl_cons]
    rw [ih, lookup_appendAt]
    by_cases h : e.1 = k <;> simp [h, List.filter_cons]

theorem lookup_setAt (tbl : List (κ × α)) (k k' : κ) (v : α) :
    lookup (setAt tbl k v) k' = if k = k' then some v else lookup tbl k' := by
  induction tbl with
  | nil => by_cases h : k = k' <;> simp [setAt, lookup, h]
  | cons e rest ih =>
    obtain ⟨k0, v0⟩ := e
    by_cases h0 : k0 = k
    · subst h0
      by_cases h : k0 = k' <;> simp [setAt, lookup, h]
    · by_cases h1 : k0 = k'
      · subst h1
        have : ¬ k = k0 := fun e => h0 e.symm
        simp [setAt, lookup, h0, this]
      · simp [setAt, lookup, h0, h1]
        exact ih

theorem lookup_fold_setAt (es : List (κ × α)) : ∀ (t0 : List (κ × α)) (k : κ),
    lookup (es.foldl (fun t e => setAt t e.1 e.2) t0) k =
      (((es.filter (fun e => decide (e.1 = k))).map (·.2)).getLast?).or (lookup t0 k) := by
  induction es with
  | nil => intro t0 k; simp
  | cons e rest ih =>
    intro t0 k
    simp only [List.foldl_cons]
    rw [ih, lookup_setAt]
    by_cases h : e.1 = k
    · simp only [h, List.filter_cons, decide_true, if_true, List.map_cons]
      cases hl : ((rest.filter (fun e => decide (e.1 = k))).map (·.2)).getLast? with
      | none =>
        have : (rest.filter (fun e => decide (e.1 = k))).map (·.2) = [] := by
          simpa [List.getLast?_eq_none_iff] using hl
        simp [this]
      | some x =>
        have := hl
        rw [List.getLast?_cons]
        simp [hl]
    · simp [h, List.filter_cons]

/-- entries of a dictionary after an assignment: old ones or the new one -/
theorem mem_setAt (tbl : List (κ × α)) (k : κ) (v : α) (e : κ × α) (h : e ∈ setAt tbl k v) :
    e ∈ tbl ∨ e = (k, v) := by
  induction tbl with
  | nil => simp [setAt] at h; exact Or.inr h
  | cons e0 rest ih =>
    obtain ⟨k0, v0⟩ := e0
    by_cases h0 : k0 = k
    · simp [setAt, h0] at h
      rcases h with h | h
      · right; rw [h]
      · left; exact List.mem_cons_of_mem _ h
    · simp [setAt, h0] at h
      rcases h with h | h
      · left; rw [h]; exact List.mem_cons_self
      · rcases ih h with h | h
        · left; exact List.mem_cons_of_mem _ h
        · right; exact h

theorem lookup_mem (tbl : List (κ × α)) (k : κ) (v : α) (h : lookup tbl k = some v) : (k, v) ∈ tbl := by
  induction tbl with
  | nil => simp [lookup] at h
  | cons e rest ih =>
    obtain ⟨k0, v0⟩ := e
    by_cases h0 : k0 = k
    · simp [lookup, h0] at h; subst h0; subst h; exact List.mem_cons_self
    · simp [lookup, h0] at h; exact List.mem_cons_of_mem _ (ih h)

end dict

/-! ### `np.arange` -/

theorem mem_arange (lo hi i : Nat) : i ∈ arange lo hi ↔ lo ≤ i ∧ i < hi := by
  unfold arange
  rw [List.mem_range']
  constructor
  · rintro ⟨j, hj, rfl⟩; omega
  · rintro ⟨h1, h2⟩; exact ⟨i - lo, by omega, by omega⟩

theorem nodup_arange (lo hi : Nat) : (arange lo hi).Nodup := by
  unfold arange; exact List.nodup_range' 1

theorem filter_eq_arange (lo hi i : Nat) :
    (arange lo hi).filter (fun j => decide (j = i)) = if lo ≤ i ∧ i < hi then [i] else [] := by
  rw [List.filter_eq, (nodup_arange lo hi).count]
  by_cases h : lo ≤ i ∧ i < hi
  · simp [h, (mem_arange lo hi i).mpr h]
  · have : i ∉ arange lo hi := fun hm => h ((mem_arange lo hi i).mp hm)
    simp [h, this]

/-! ### A. the option table of geometry lines -/

/-- geometry directives of a list of lines, in order -/
def geomDirs : List Line → List ResDir
  | [] => []
  | .geometry d :: rest => d :: geomDirs rest
  | _ :: rest => geomDirs rest

def rwDirs : List Line → List ResDir
  | [] => []
  | .rw d :: rest => d :: rwDirs rest
  | _ :: rest => rwDirs rest

/-- the appends one line causes on `build_options` -/
def optEvents (b : Block) : Line → List (MKey × ResDir)
  | .geometry d => (arange b.lo b.hi).map fun i => ((b.name, i), d)
  | _ => []

def rwEvents (b : Block) : Line → List (MKey × ResDir)
  | .rw d => (arange b.lo b.hi).map fun i => ((b.name, i), d)
  | _ => []

def allOptEvents (blocks : List Block) : List (MKey × ResDir) :=
  blocks.flatMap fun b => b.lines.flatMap (optEvents b)

def allRwEvents (blocks : List Block) : List (MKey × ResDir) :=
  blocks.flatMap fun b => b.lines.flatMap (rwEvents b)

theorem foldl_map_pair {τ ι β} (f : τ → ι → β → τ) (l : List ι) (d : β) (key : ι → MKey) (t : τ)
    (g : τ → MKey × β → τ) (hg : ∀ t i, g t (key i, d) = f t i d) :
    l.foldl (fun t i => f t i d) t = (l.map fun i => (key i, d)).foldl g t := by
  induction l generalizing t with
  | nil => rfl
  | cons x xs ih => simp [List.foldl_cons, hg, ih]

theorem parseLine_buildOptions (mols : List Mol) (b : Block) (dir dir' : Director) (l : Line)
    (h : parseLine mols b dir l = .ok dir') :
    dir'.buildOptions = (optEvents b l).foldl (fun t e => appendAt t e.1 e.2) dir.buildOptions := by
  cases l with
  | geometry d =>
    simp only [parseLine, Except.ok.injEq] at h
    subst h
    simp only [optEvents, List.foldl_map]
  | rw d => simp only [parseLine, Except.ok.injEq] at h; subst h; rfl
  | dist a c p =>
    simp only [parseLine] at h
    obtain ⟨t, _, ht⟩ := bind_ok _ _ _ h
    simp only [pure, Except.pure, Except.ok.injEq] at ht
    subst ht; rfl
  | pers s e p => simp only [parseLine, Except.ok.injEq] at h; subst h; rfl

theorem parseLine_rwOptions (mols : List Mol) (b : Block) (dir dir' : Director) (l : Line)
    (h : parseLine mols b dir l = .ok dir') :
    dir'.rwOptions = (rwEvents b l).foldl (fun t e => setAt t e.1 e.2) dir.rwOptions := by
  cases l with
  | geometry d => simp only [parseLine, Except.ok.injEq] at h; subst h; rfl
  | rw d =>
    simp only [parseLine, Except.ok.injEq] at h
    subst h
    simp only [rwEvents, List.foldl_map]
  | dist a c p =>
    simp only [parseLine] at h
    obtain ⟨t, _, ht⟩ := bind_ok _ _ _ h
    simp only [pure, Except.pure, Except.ok.injEq] at ht
    subst ht; rfl
  | pers s e p => simp only [parseLine, Except.ok.injEq] at h; subst h; rfl

def persOf (b : Block) : Line → List (Nat × Nat × Nat × List Nat)
  | .pers s e p => [(s, e, p, arange b.lo b.hi)]
  | _ => []

theorem parseLine_pers (mols : List Mol) (b : Block) (dir dir' : Director) (l : Line)
    (h : parseLine mols b dir l = .ok dir') : dir'.pers = dir.pers ++ persOf b l := by
  cases l with
  | geometry d => simp only [parseLine, Except.ok.injEq] at h; subst h; simp [persOf]
  | rw d => simp only [parseLine, Except.ok.injEq] at h; subst h; simp [persOf]
  | dist a c p =>
    simp only [parseLine] at h
    obtain ⟨t, _, ht⟩ := bind_ok _ _ _ h
    simp only [pure, Except.pure, Except.ok.injEq] at ht
    subst ht; simp [persOf]
  | pers s e p => simp only [parseLine, Except.ok.injEq] at h; subst h; rfl

theorem parseBlock_buildOptions (mols : List Mol) (b : Block) (dir dir' : Director)
    (h : parseBlock mols dir b = .ok dir') :
    dir'.buildOptions = (b.lines.flatMap (optEvents b)).foldl (fun t e => appendAt t e.1 e.2) dir.buildOptions := by
  rw [List.foldl_flatMap]
  exact foldlM_proj (parseLine mols b) (·.buildOptions)
    (fun t l => (optEvents b l).foldl (fun t e => appendAt t e.1 e.2) t)
    (fun s x s' hs => parseLine_buildOptions mols b s s' x hs) b.lines dir dir' h

theorem parseBlock_rwOptions (mols : List Mol) (b : Block) (dir dir' : Director)
    (h : parseBlock mols dir b = .ok dir') :
    dir'.rwOptions = (b.lines.flatMap (rwEvents b)).foldl (fun t e => setAt t e.1 e.2) dir.rwOptions := by
  rw [List.foldl_flatMap]
  exact foldlM_proj (parseLine mols b) (·.rwOptions)
    (fun t l => (rwEvents b l).foldl (fun t e => setAt t e.1 e.2) t)
    (fun s x s' hs => parseLine_rwOptions mols b s s' x hs) b.lines dir dir' h

theorem parseBlocks_buildOptions (mols : List Mol) (blocks : List Block) (dir : Director)
    (h : parseBlocks mols blocks = .ok dir) :
    dir.buildOptions = (allOptEvents blocks).foldl (fun t e => appendAt t e.1 e.2) [] := by
  unfold allOptEvents
  rw [List.foldl_flatMap]
  exact foldlM_proj (parseBlock mols) (·.buildOptions)
    (fun t b => (b.lines.flatMap (optEvents b)).foldl (fun t e => appendAt t e.1 e.2) t)
    (fun s x s' hs => parseBlock_buildOptions mols x s s' hs) blocks {} dir h

theorem parseBlocks_rwOptions (mols : List Mol) (blocks : List Block) (dir : Director)
    (h : parseBlocks mols blocks = .ok dir) :
    dir.rwOptions = (allRwEvents blocks).foldl (fun t e => setAt t e.1 e.2) [] := by
  unfold allRwEvents
  rw [List.foldl_flatMap]
  exact foldlM_proj (parseBlock mols) (·.rwOptions)
    (fun t b => (b.lines.flatMap (rwEvents b)).foldl (fun t e => setAt t e.1 e.2) t)
    (fun s x s' hs => parseBlock_rwOptions mols x s s' hs) blocks {} dir h

/-- the events of one line that concern the key `(name, i)` -/
theorem optEvents_filter (b : Block) (l : Line) (name : String) (i : Nat) :
    ((optEvents b l).filter (fun e => decide (e.1 = (name, i)))).map (·.2) =
      if b.name = name ∧ b.lo ≤ i ∧ i < b.hi then geomDirs [l] else [] := by
  cases l with
  | geometry d =>
    simp only [optEvents, List.filter_map, List.map_map, geomDirs]
    by_cases hn : b.name = name
    · subst hn
      have : (fun j : Nat => decide (((b.name, j), d).1 = (b.name, i))) = fun j => decide (j = i) := by
        funext j; simp
      simp only [Function.comp_def, this, filter_eq_arange]
      by_cases h : b.lo ≤ i ∧ i < b.hi <;> simp [h]
    · have : (fun j : Nat => decide (((b.name, j), d).1 = (name, i))) = fun _ => false := by
        funext j; simp [hn]
      simp [Function.comp_def, this, hn]
  | rw d => simp [optEvents, geomDirs]
  | dist a c p => simp [optEvents, geomDirs]
  | pers s e p => simp [optEvents, geomDirs]

theorem rwEvents_filter (b : Block) (l : Line) (name : String) (i : Nat) :
    ((rwEvents b l).filter (fun e => decide (e.1 = (name, i)))).map (·.2) =
      if b.name = name ∧ b.lo ≤ i ∧ i < b.hi then rwDirs [l] else [] := by
  cases l with
  | rw d =>
    simp only [rwEvents, List.filter_map, List.map_map, rwDirs]
    by_cases hn : b.name = name
    · subst hn
      have : (fun j : Nat => decide (((b.name, j), d).1 = (b.name, i))) = fun j => decide (j = i) := by
        funext j; simp
      simp only [Function.comp_def, this, filter_eq_arange]
      by_cases h : b.lo ≤ i ∧ i < b.hi <;> simp [h]
    · have : (fun j : Nat => decide (((b.name, j), d).1 = (name, i))) = fun _ => false := by
        funext j; simp [hn]
      simp [Function.comp_def, this, hn]
  | geometry d => simp [rwEvents, rwDirs]
  | dist a c p => simp [rwEvents, rwDirs]
  | pers s e p => simp [rwEvents, rwDirs]

theorem geomDirs_cons (l : Line) (rest : List Line) : geomDirs (l :: rest) = geomDirs [l] ++ geomDirs rest := by
  cases l <;> simp [geomDirs]

theorem rwDirs_cons (l : Line) (rest : List Line) : rwDirs (l :: rest) = rwDirs [l] ++ rwDirs rest := by
  cases l <;> simp [rwDirs]

theorem lines_filter (b : Block) (name : String) (i : Nat) (lines : List Line) :
    ((lines.flatMap (optEvents b)).filter (fun e => decide (e.1 = (name, i)))).map (·.2) =
      if b.name = name ∧ b.lo ≤ i ∧ i < b.hi then geomDirs lines else [] := by
  induction lines with
  | nil => simp [geomDirs]
  | cons l rest ih =>
    rw [List.flatMap_cons, List.filter_append, List.map_append, ih, optEvents_filter, geomDirs_cons l rest]
    by_cases h : b.name = name ∧ b.lo ≤ i ∧ i < b.hi <;> simp [h]

theorem lines_filter_rw (b : Block) (name : String) (i : Nat) (lines : List Line) :
    ((lines.flatMap (rwEvents b)).filter (fun e => decide (e.1 = (name, i)))).map (·.2) =
      if b.name = name ∧ b.lo ≤ i ∧ i < b.hi then rwDirs lines else [] := by
  induction lines with
  | nil => simp [rwDirs]
  | cons l rest ih =>
    rw [List.flatMap_cons, List.filter_append, List.map_append, ih, rwEvents_filter, rwDirs_cons l rest]
    by_cases h : b.name = name ∧ b.lo ≤ i ∧ i < b.hi <;> simp [h]

/-- the option list stored under `(name, i)`: the geometry lines of the blocks called `name` whose range
contains `i`, in file order -/
theorem options_of_key (blocks : List Block) (name : String) (i : Nat) :
    ((allOptEvents blocks).filter (fun e => decide (e.1 = (name, i)))).map (·.2) =
      blocks.flatMap fun b => if b.name = name ∧ b.lo ≤ i ∧ i < b.hi then geomDirs b.lines else [] := by
  unfold allOptEvents
  induction blocks with
  | nil => rfl
  | cons b rest ih =>
    rw [List.flatMap_cons, List.filter_append, List.map_append, ih, lines_filter, List.flatMap_cons]

theorem rw_of_key (blocks : List Block) (name : String) (i : Nat) :
    ((allRwEvents blocks).filter (fun e => decide (e.1 = (name, i)))).map (·.2) =
      blocks.flatMap fun b => if b.name = name ∧ b.lo ≤ i ∧ i < b.hi then rwDirs b.lines else [] := by
  unfold allRwEvents
  induction blocks with
  | nil => rfl
  | cons b rest ih =>
    rw [List.flatMap_cons, List.filter_append, List.map_append, ih, lines_filter_rw, List.flatMap_cons]

theorem tagged_append (a b : List ResDir) (v : ResNode) : tagged (a ++ b) v = tagged a v ++ tagged b v := by
  simp [tagged]

theorem tagged_flatMap {ι} (l : List ι) (g : ι → List ResDir) (v : ResNode) :
    tagged (l.flatMap g) v = l.flatMap fun x => tagged (g x) v := by
  induction l with
  | nil => rfl
  | cons x xs ih => rw [List.flatMap_cons, tagged_append, ih, List.flatMap_cons]

theorem tagged_geomDirs (lines : List Line) (v : ResNode) :
    tagged (geomDirs lines) v = lines.filterMap (geomPayload v) := by
  induction lines with
  | nil => rfl
  | cons l rest ih =>
    rw [geomDirs_cons, tagged_append, ih]
    cases l with
    | geometry d =>
      by_cases h : inRange d v <;> simp [geomDirs, tagged, geomPayload, h, List.filterMap_cons]
    | rw d => simp [geomDirs, tagged, geomPayload, List.filterMap_cons]
    | dist a c p => simp [geomDirs, tagged, geomPayload, List.filterMap_cons]
    | pers s e p => simp [geomDirs, tagged, geomPayload, List.filterMap_cons]

theorem tagged_rwDirs (lines : List Line) (v : ResNode) :
    tagged (rwDirs lines) v = lines.filterMap (rwPayload v) := by
  induction lines with
  | nil => rfl
  | cons l rest ih =>
    rw [rwDirs_cons, tagged_append, ih]
    cases l with
    | rw d =>
      by_cases h : inRange d v <;> simp [rwDirs, tagged, rwPayload, h, List.filterMap_cons]
    | geometry d => simp [rwDirs, tagged, rwPayload, List.filterMap_cons]
    | dist a c p => simp [rwDirs, tagged, rwPayload, List.filterMap_cons]
    | pers s e p => simp [rwDirs, tagged, rwPayload, List.filterMap_cons]

/-- main lemma of C18_select: what the code stores on a node is what the specification selects -/
theorem restraints_exact (mols : List Mol) (blocks : List Block) (dir : Director)
    (h : parseBlocks mols blocks = .ok dir) (i : Nat) (v : ResNode) :
    restraintsOf dir mols i v = specRestraints blocks mols i v := by
  unfold restraintsOf specRestraints
  cases hm : mols[i]? with
  | none => simp [blockSelects, hm]
  | some m =>
    simp only []
    rw [parseBlocks_buildOptions mols blocks dir h, lookup_fold_appendAt, options_of_key]
    simp only [lookup, Option.getD_none, List.nil_append]
    rw [tagged_flatMap]
    congr 1
    funext b
    by_cases hb : b.name = m.name ∧ b.lo ≤ i ∧ i < b.hi
    · have : blockSelects mols b i = true := by
        simp [blockSelects, hm, hb.1, hb.2.1, hb.2.2]
      simp [hb, this, tagged_geomDirs]
    · have : blockSelects mols b i = false := by
        simp only [blockSelects, hm, Option.map_some]
        by_cases h1 : m.name = b.name
        · have : ¬ (b.lo ≤ i ∧ i < b.hi) := fun h2 => hb ⟨h1.symm, h2⟩
          by_cases h3 : b.lo ≤ i <;> by_cases h4 : i < b.hi <;> simp_all
        · simp [h1]
      simp [hb, this, tagged]

/-- the rw directives written for `(name, i)`, in file order -/
def rwFor (blocks : List Block) (name : String) (i : Nat) : List ResDir :=
  blocks.flatMap fun b => if b.name = name ∧ b.lo ≤ i ∧ i < b.hi then rwDirs b.lines else []

/-- what the code does with `[ rw_restriction ]`: of all the lines written for a molecule only the LAST one
is kept (`rw_options[(name, idx)] = …`) -/
theorem rw_exact (mols : List Mol) (blocks : List Block) (dir : Director)
    (h : parseBlocks mols blocks = .ok dir) (i : Nat) (v : ResNode) (m : Mol) (hm : mols[i]? = some m) :
    rwOf dir mols i v = tagged ((rwFor blocks m.name i).getLast?).toList v := by
  unfold rwOf
  simp only [hm]
  rw [parseBlocks_rwOptions mols blocks dir h, lookup_fold_setAt, rw_of_key]
  simp [lookup, rwFor]

theorem specRw_eq (mols : List Mol) (blocks : List Block) (i : Nat) (v : ResNode) (m : Mol)
    (hm : mols[i]? = some m) : specRw blocks mols i v = tagged (rwFor blocks m.name i) v := by
  unfold specRw rwFor
  rw [tagged_flatMap]
  congr 1
  funext b
  by_cases hb : b.name = m.name ∧ b.lo ≤ i ∧ i < b.hi
  · have : blockSelects mols b i = true := by
      simp [blockSelects, hm, hb.1, hb.2.1, hb.2.2]
    simp [hb, this, tagged_rwDirs]
  · have : blockSelects mols b i = false := by
      simp only [blockSelects, hm, Option.map_some]
      by_cases h1 : m.name = b.name
      · have : ¬ (b.lo ≤ i ∧ i < b.hi) := fun h2 => hb ⟨h1.symm, h2⟩
        by_cases h3 : b.lo ≤ i <;> by_cases h4 : i < b.hi <;> simp_all
      · simp [h1]
    simp [hb, this, tagged]

theorem getLast_toList_of_length_le_one {α} (l : List α) (h : l.length ≤ 1) : l.getLast?.toList = l := by
  match l, h with
  | [], _ => rfl
  | [a], _ => rfl
  | _ :: _ :: _, h => simp at h

/-! ### persistence batches and distance restraints -/

def persLines (b : Block) : List (Nat × Nat × Nat × List Nat) := b.lines.flatMap (persOf b)

theorem foldl_append_flatMap {ι β} (g : ι → List β) (l : List ι) : ∀ t : List β,
    l.foldl (fun t x => t ++ g x) t = t ++ l.flatMap g := by
  induction l with
  | nil => intro t; simp
  | cons x xs ih => intro t; simp [List.foldl_cons, ih, List.flatMap_cons]

theorem parseBlock_pers (mols : List Mol) (b : Block) (dir dir' : Director)
    (h : parseBlock mols dir b = .ok dir') : dir'.pers = dir.pers ++ persLines b := by
  have := foldlM_proj (parseLine mols b) (·.pers) (fun t l => t ++ persOf b l)
    (fun s x s' hs => parseLine_pers mols b s s' x hs) b.lines dir dir' h
  rw [this, foldl_append_flatMap]
  rfl

theorem parseBlocks_pers (mols : List Mol) (blocks : List Block) (dir : Director)
    (h : parseBlocks mols blocks = .ok dir) : dir.pers = blocks.flatMap persLines := by
  have := foldlM_proj (parseBlock mols) (·.pers) (fun t b => t ++ persLines b)
    (fun s x s' hs => parseBlock_pers mols x s s' hs) blocks {} dir h
  rw [this, foldl_append_flatMap]
  rfl

/-- every stored distance restraint was written in a block whose index range contains the molecule index
under which it is stored (and that molecule exists) -/
def DistOk (blocks : List Block) (mols : List Mol) (t : List (MKey × List ((Nat × Nat) × Nat))) : Prop :=
  ∀ k inner, (k, inner) ∈ t → ∀ ab p, (ab, p) ∈ inner →
    ∃ b ∈ blocks, Line.dist ab.1 ab.2 p ∈ b.lines ∧ b.name = k.1 ∧ b.lo ≤ k.2 ∧ k.2 < b.hi ∧ k.2 < mols.length

theorem distOne_ok (blocks : List Block) (mols : List Mol) (b : Block) (hb : b ∈ blocks) (a c p : Nat)
    (hl : Line.dist a c p ∈ b.lines) (t t' : List (MKey × List ((Nat × Nat) × Nat))) (idx : Nat)
    (hidx : idx ∈ arange b.lo b.hi) (ht : DistOk blocks mols t)
    (h : distOne mols b.name a c p t idx = .ok t') : DistOk blocks mols t' := by
  unfold distOne at h
  cases hm : mols[idx]? with
  | none => simp [hm] at h
  | some m =>
    simp only [hm] at h
    split at h
    · simp at h
    · simp only [Except.ok.injEq] at h
      subst h
      have hlen : idx < mols.length := by
        have := List.getElem?_eq_some_iff.mp hm
        exact this.1
      obtain ⟨h1, h2⟩ := (mem_arange _ _ _).mp hidx
      intro k inner hk ab q hq
      rcases mem_setAt _ _ _ _ hk with hk | hk
      · exact ht k inner hk ab q hq
      · simp only [Prod.mk.injEq] at hk
        obtain ⟨rfl, rfl⟩ := hk
        rcases mem_setAt _ _ _ _ hq with hq | hq
        · cases hlook : lookup t (b.name, idx) with
          | none => simp [hlook] at hq
          | some old =>
            simp only [hlook, Option.getD_some] at hq
            exact ht _ old (lookup_mem _ _ _ hlook) ab q hq
        · simp only [Prod.mk.injEq] at hq
          obtain ⟨rfl, rfl⟩ := hq
          exact ⟨b, hb, hl, rfl, h1, h2, hlen⟩

theorem parseLine_dist_ok (blocks : List Block) (mols : List Mol) (b : Block) (hb : b ∈ blocks) (l : Line)
    (hl : l ∈ b.lines) (dir dir' : Director) (ht : DistOk blocks mols dir.dist)
    (h : parseLine mols b dir l = .ok dir') : DistOk blocks mols dir'.dist := by
  cases l with
  | geometry d => simp only [parseLine, Except.ok.injEq] at h; subst h; exact ht
  | rw d => simp only [parseLine, Except.ok.injEq] at h; subst h; exact ht
  | pers s e p => simp only [parseLine, Except.ok.injEq] at h; subst h; exact ht
  | dist a c p =>
    simp only [parseLine] at h
    obtain ⟨t, hfold, hr⟩ := bind_ok _ _ _ h
    simp only [pure, Except.pure, Except.ok.injEq] at hr
    subst hr
    exact foldlM_inv (distOne mols b.name a c p) (DistOk blocks mols) (arange b.lo b.hi)
      (fun s x s' hx hs hstep => distOne_ok blocks mols b hb a c p hl s s' x hx hs hstep) dir.dist t ht hfold

theorem parseBlocks_dist_ok (mols : List Mol) (blocks : List Block) (dir : Director)
    (h : parseBlocks mols blocks = .ok dir) : DistOk blocks mols dir.dist := by
  refine foldlM_inv (parseBlock mols) (fun d => DistOk blocks mols d.dist) blocks ?_ {} dir ?_ h
  · intro s b s' hb hs hstep
    exact foldlM_inv (parseLine mols b) (fun d => DistOk blocks mols d.dist) b.lines
      (fun d l d' hl hd hstep' => parseLine_dist_ok blocks mols b hb l hl d d' hd hstep') s s' hs hstep
  · intro k inner hk; simp at hk

theorem mem_distApplied (dir : Director) (i a c p : Nat) (h : (i, a, c, p) ∈ distApplied dir) :
    ∃ name inner, ((name, i), inner) ∈ dir.dist ∧ ((a, c), p) ∈ inner := by
  unfold distApplied at h
  rw [List.mem_flatMap] at h
  obtain ⟨⟨k, inner⟩, hk, hin⟩ := h
  simp only [List.mem_map] at hin
  obtain ⟨⟨ab, q⟩, hq, he⟩ := hin
  simp only [Prod.mk.injEq] at he
  obtain ⟨rfl, rfl, rfl, rfl⟩ := he
  exact ⟨k.1, inner, hk, hq⟩

/-! ### B. the specification grammar -/

theorem splitFirst_append (c : Char) (a rest : List Char) (h : c ∉ a) :
    splitFirst c (a ++ rest) = (a ++ (splitFirst c rest).1, (splitFirst c rest).2) := by
  induction a with
  | nil => simp
  | cons x xs ih =>
    have hx : x ≠ c := fun e => h (e ▸ List.mem_cons_self)
    have hxs : c ∉ xs := fun hm => h (List.mem_cons_of_mem _ hm)
    simp [splitFirst, hx, ih hxs]

theorem splitFirst_nil (c : Char) : splitFirst c [] = ([], none) := rfl

theorem splitFirst_hit (c : Char) (r : List Char) : splitFirst c (c :: r) = ([], some r) := by
  simp [splitFirst]

theorem digit_facts : ∀ d, d < 10 → digitVal (digitChar d) = some d ∧ digitChar d ≠ '#' ∧ digitChar d ≠ '-' := by
  decide

theorem readNatAux_digit (d : Nat) (hd : d < 10) (cs : List Char) (a : Nat) :
    readNatAux (digitChar d :: cs) a = readNatAux cs (10 * a + d) := by
  simp [readNatAux, (digit_facts d hd).1]

/-- reading back the digits written for `n` multiplies what was read before by a power of ten and adds `n` -/
theorem read_show (fuel : Nat) : ∀ n, n < fuel → ∃ m, ∀ acc a,
    readNatAux (showNatAux fuel n acc) a = readNatAux acc (a * m + n) := by
  induction fuel with
  | zero => intro n h; omega
  | succ fuel ih =>
    intro n hn
    by_cases h10 : n < 10
    · refine ⟨10, ?_⟩
      intro acc a
      simp only [showNatAux, h10, if_true]
      rw [readNatAux_digit n h10, Nat.mul_comm]
    · obtain ⟨m, hm⟩ := ih (n / 10) (by omega)
      refine ⟨10 * m, ?_⟩
      intro acc a
      simp only [showNatAux, h10, if_false]
      rw [hm, readNatAux_digit (n % 10) (Nat.mod_lt _ (by omega))]
      congr 1
      have : a * (10 * m) = 10 * (a * m) := by rw [Nat.mul_left_comm]
      rw [this]
      omega

theorem showNatAux_ne_nil (fuel n : Nat) (acc : List Char) (h : 0 < fuel) : showNatAux fuel n acc ≠ [] := by
  induction fuel generalizing n acc with
  | zero => omega
  | succ fuel ih =>
    unfold showNatAux
    by_cases h10 : n < 10
    · simp [h10]
    · simp only [h10, if_false]
      cases fuel with
      | zero => simp [showNatAux]
      | succ f => exact ih _ _ (by omega)

theorem readNat_showNat (n : Nat) : readNat (showNat n) = some n := by
  unfold readNat showNat
  have hne := showNatAux_ne_nil (n + 1) n [] (by omega)
  simp only [hne, if_false]
  obtain ⟨m, hm⟩ := read_show (n + 1) n (by omega)
  rw [hm]
  simp [readNatAux]

theorem showNatAux_chars (fuel : Nat) : ∀ n acc c, c ∈ showNatAux fuel n acc →
    c ∈ acc ∨ ∃ d, d < 10 ∧ c = digitChar d := by
  induction fuel with
  | zero => intro n acc c h; left; simpa [showNatAux] using h
  | succ fuel ih =>
    intro n acc c h
    unfold showNatAux at h
    by_cases h10 : n < 10
    · simp only [h10, if_true, List.mem_cons] at h
      rcases h with h | h
      · right; exact ⟨n, h10, h⟩
      · left; exact h
    · simp only [h10, if_false] at h
      rcases ih _ _ _ h with h | h
      · simp only [List.mem_cons] at h
        rcases h with h | h
        · right; exact ⟨n % 10, Nat.mod_lt _ (by omega), h⟩
        · left; exact h
      · right; exact h

theorem showNat_no_sep (n : Nat) : '#' ∉ showNat n ∧ '-' ∉ showNat n := by
  constructor <;> intro h
  · rcases showNatAux_chars _ _ _ _ h with h | ⟨d, hd, he⟩
    · simp at h
    · exact (digit_facts d hd).2.1 he.symm
  · rcases showNatAux_chars _ _ _ _ h with h | ⟨d, hd, he⟩
    · simp at h
    · exact (digit_facts d hd).2.2 he.symm

theorem optName_good (n : String) (h : goodName n) : optName n.toList = some n := by
  unfold optName
  simp [h.1, String.ofList_toList]

/-- the molecule part `<mol>[#<idx>]` is read back -/
theorem split_mol_part (mn : Option String) (mi : Option Nat) (hn : ∀ n, mn = some n → goodName n) :
    '-' ∉ nameChars mn ++ idxChars mi ∧ optName (splitFirst '#' (nameChars mn ++ idxChars mi)).1 = mn ∧
    (splitFirst '#' (nameChars mn ++ idxChars mi)).2 = mi.map showNat := by
  have hM : '#' ∉ nameChars mn ∧ '-' ∉ nameChars mn := by
    cases mn with
    | none => simp [nameChars]
    | some n => exact ⟨(hn n rfl).2.1, (hn n rfl).2.2⟩
  have hopt : optName (nameChars mn) = mn := by
    cases mn with
    | none => rfl
    | some n => exact optName_good n (hn n rfl)
  refine ⟨?_, ?_, ?_⟩
  · intro h
    rcases List.mem_append.mp h with h | h
    · exact hM.2 h
    · cases mi with
      | none => simp [idxChars] at h
      | some i =>
        simp only [idxChars, List.mem_cons] at h
        rcases h with h | h
        · exact absurd h (by decide)
        · exact (showNat_no_sep i).2 h
  · rw [splitFirst_append _ _ _ hM.1]
    cases mi with
    | none => simpa [idxChars, splitFirst] using hopt
    | some i => simpa [idxChars, splitFirst] using hopt
  · rw [splitFirst_append _ _ _ hM.1]
    cases mi with
    | none => simp [idxChars, splitFirst]
    | some i => simp [idxChars, splitFirst]

theorem parse_render (sp : Spec) (h : sp.wellFormed) : parseSpecChars (renderSpecChars sp) = .ok sp := by
  obtain ⟨mn, mi, rn, ri⟩ := sp
  obtain ⟨h1, h2, h3⟩ := split_mol_part mn mi h.1
  obtain ⟨g1, g2, g3⟩ := split_mol_part rn ri h.2
  unfold parseSpecChars renderSpecChars
  simp only []
  by_cases hr : (rn.isSome || ri.isSome) = true
  · simp only [hr, if_true]
    rw [splitFirst_append _ _ _ h1, splitFirst_hit]
    simp only [List.append_nil, h2, h3, g2, g3]
    cases mi <;> cases ri <;> simp [readNat_showNat]
  · have hrn : rn = none := by cases rn <;> simp_all
    have hri : ri = none := by cases ri <;> simp_all
    subst hrn; subst hri
    simp only [Option.isSome_none, Bool.or_self, Bool.false_eq_true, if_false, List.append_nil]
    rw [← List.append_nil (_ ++ _), splitFirst_append _ _ _ h1, splitFirst_nil]
    simp only [List.append_nil, h2, h3]
    cases mi <;> simp [readNat_showNat, optName]

/-! ### E. `-split`: regrouping is a partition; repeated atom names are rejected -/

section group
variable {κ α : Type} [DecidableEq κ]

theorem appendAt_flat_perm (t : List (κ × List α)) (k : κ) (v : α) :
    ((appendAt t k v).flatMap (·.2)).Perm (t.flatMap (·.2) ++ [v]) := by
  induction t with
  | nil => simp [appendAt]
  | cons e rest ih =>
    obtain ⟨k0, vs⟩ := e
    by_cases h : k0 = k
    · simp only [appendAt, h, if_true, List.flatMap_cons]
      -- (vs ++ [v]) ++ R  ~  (vs ++ R) ++ [v]
      rw [List.append_assoc, List.append_assoc]
      exact List.Perm.append_left vs List.perm_append_comm
    · simp only [appendAt, h, if_false, List.flatMap_cons, List.append_assoc]
      exact List.Perm.append_left vs ih

theorem fold_appendAt_flat_perm {ι} (f : ι → κ) (g : ι → α) (es : List ι) : ∀ t0 : List (κ × List α),
    ((es.foldl (fun t a => appendAt t (f a) (g a)) t0).flatMap (·.2)).Perm (t0.flatMap (·.2) ++ es.map g) := by
  induction es with
  | nil => intro t0; simp
  | cons e rest ih =>
    intro t0
    simp only [List.foldl_cons, List.map_cons]
    refine (ih _).trans ?_
    have := appendAt_flat_perm t0 (f e) (g e)
    refine (List.Perm.append_right _ this).trans ?_
    simp

end group

theorem relabel_keys (atoms : List Atom) (mapping : List (Nat × String)) (mx : Int) :
    (relabel atoms mapping mx).map (·.key) = atoms.map (·.key) := by
  unfold relabel
  rw [List.map_map]
  apply List.map_congr_left
  intro a _
  simp only [Function.comp]
  cases lookup mapping a.key <;> rfl

theorem zipIdx_map_flat {β} (l : List ((Int × String) × List β)) : ∀ k : Nat,
    ((l.zipIdx k).map fun (g, idx) => (idx, g.1.2, g.2)).flatMap (·.2.2) = l.flatMap (·.2) := by
  induction l with
  | nil => intro k; rfl
  | cons x xs ih => intro k; simp [List.zipIdx_cons, List.flatMap_cons, ih]

/-- no atom is lost, none duplicated: the atoms of the new residues are the atoms of the molecule -/
theorem split_perm (atoms : List Atom) (mx : Int) (sds : List SplitDef) (r : SplitResult)
    (h : splitResidue atoms mx sds = .ok r) : (r.residues.flatMap (·.2.2)).Perm (atoms.map (·.key)) := by
  unfold splitResidue at h
  obtain ⟨mapping, _, h2⟩ := bind_ok _ _ _ h
  simp only [pure, Except.pure, Except.ok.injEq] at h2
  subst h2
  simp only []
  rw [zipIdx_map_flat, ← relabel_keys atoms mapping mx]
  unfold groupAtoms
  simpa using fold_appendAt_flat_perm (fun a : Atom => (a.resid, a.resname)) (·.key) (relabel atoms mapping mx) []

/-! the flat view of the double loop of `_interpret_residue_mapping` is `namedParts` (model file) -/

def mapStep (atoms : List Atom) (sd : SplitDef) (acc : List (Nat × String) × List String) (pn : String × String) :
    Except String (List (Nat × String) × List String) :=
  if pn.2 ∈ acc.2 then Except.error "IOError: atom mentioned more than once" else
  Except.ok ((atoms.filter (fun a => a.resname = sd.resname ∧ a.atomname = pn.2)).foldl
    (fun t a => setAt t a.key pn.1) acc.1, acc.2 ++ [pn.2])

theorem foldlM_flatMap_except {ε σ ι β} (f : ι → List β) (g : σ → β → Except ε σ) (l : List ι) : ∀ init : σ,
    (l.flatMap f).foldlM g init = l.foldlM (fun acc x => (f x).foldlM g acc) init := by
  induction l with
  | nil => intro init; rfl
  | cons x xs ih =>
    intro init
    rw [List.flatMap_cons, List.foldlM_append, List.foldlM_cons]
    congr 1
    funext s
    exact ih s

theorem foldlM_map_except {ε σ ι β} (f : ι → β) (g : σ → β → Except ε σ) (l : List ι) (init : σ) :
    (l.map f).foldlM g init = l.foldlM (fun acc x => g acc (f x)) init := by
  induction l generalizing init with
  | nil => rfl
  | cons x xs ih =>
    rw [List.map_cons, List.foldlM_cons, List.foldlM_cons]
    congr 1
    funext s
    exact ih s

theorem bind_pure_map {ε α β} (x : Except ε α) (f : α → β) :
    (x >>= fun r => pure (f r)) = x.map f := by
  cases x <;> rfl

theorem interpret_flat (atoms : List Atom) (sd : SplitDef) :
    interpretMapping atoms sd = ((namedParts sd).foldlM (mapStep atoms sd) ([], [])).map (·.1) := by
  unfold interpretMapping namedParts
  rw [foldlM_flatMap_except]
  have : (fun (acc : List (Nat × String) × List String) (x : String × List String) =>
      (x.2.map fun n => (x.1, n)).foldlM (mapStep atoms sd) acc) =
      fun acc part => part.2.foldlM (fun (acc : List (Nat × String) × List String) name =>
        if name ∈ acc.2 then Except.error "IOError: atom mentioned more than once" else
        let hit := atoms.filter (fun a => a.resname = sd.resname ∧ a.atomname = name)
        Except.ok (hit.foldl (fun t a => setAt t a.key part.1) acc.1, acc.2 ++ [name])) acc := by
    funext acc x
    rw [foldlM_map_except]
    rfl
  rw [this]
  exact bind_pure_map _ _

/-- the loop accepts exactly the name lists without repetition (and not already seen) -/
theorem mapStep_fold (atoms : List Atom) (sd : SplitDef) (pns : List (String × String)) :
    ∀ acc : List (Nat × String) × List String,
    (∃ r, pns.foldlM (mapStep atoms sd) acc = .ok r) ↔
      (pns.map (·.2)).Nodup ∧ ∀ n ∈ pns.map (·.2), n ∉ acc.2 := by
  induction pns with
  | nil => intro acc; simp [List.foldlM_nil, pure, Except.pure]
  | cons pn rest ih =>
    intro acc
    rw [List.foldlM_cons]
    by_cases hin : pn.2 ∈ acc.2
    · have : mapStep atoms sd acc pn = .error "IOError: atom mentioned more than once" := by
        simp [mapStep, hin]
      rw [this]
      constructor
      · rintro ⟨r, hr⟩; simp [bind, Except.bind] at hr
      · rintro ⟨_, h2⟩; exact absurd hin (h2 pn.2 (by simp))
    · have hstep : mapStep atoms sd acc pn = .ok ((atoms.filter (fun a => a.resname = sd.resname ∧ a.atomname = pn.2)).foldl
          (fun t a => setAt t a.key pn.1) acc.1, acc.2 ++ [pn.2]) := by
        simp [mapStep, hin]
      rw [hstep]
      simp only [bind, Except.bind]
      rw [ih]
      simp only [List.map_cons, List.nodup_cons]
      constructor
      · rintro ⟨hnd, hall⟩
        refine ⟨⟨?_, hnd⟩, ?_⟩
        · intro hm
          exact hall pn.2 hm (List.mem_append.mpr (Or.inr (List.mem_singleton.mpr rfl)))
        · intro n hn
          rcases List.mem_cons.mp hn with rfl | hn
          · exact hin
          · exact fun h => hall n hn (List.mem_append.mpr (Or.inl h))
      · rintro ⟨⟨hnot, hnd⟩, hall⟩
        refine ⟨hnd, ?_⟩
        intro n hn h
        rcases List.mem_append.mp h with h | h
        · exact hall n (List.mem_cons_of_mem _ hn) h
        · have := List.mem_singleton.mp h
          subst this; exact hnot hn

theorem listedNames_eq (sd : SplitDef) : (namedParts sd).map (·.2) = listedNames sd := by
  unfold namedParts listedNames
  rw [List.map_flatMap]
  congr 1
  funext p
  simp [List.map_map, Function.comp_def]

/-- a split definition is accepted iff it names no atom twice -/
theorem interpret_ok_iff (atoms : List Atom) (sd : SplitDef) :
    (∃ m, interpretMapping atoms sd = .ok m) ↔ (listedNames sd).Nodup := by
  rw [interpret_flat, ← listedNames_eq]
  have := mapStep_fold atoms sd (namedParts sd) ([], [])
  constructor
  · rintro ⟨m, hm⟩
    cases hr : (namedParts sd).foldlM (mapStep atoms sd) ([], []) with
    | error e => rw [hr] at hm; simp [Except.map] at hm
    | ok r => exact (this.mp ⟨r, hr⟩).1
  · intro hnd
    obtain ⟨r, hr⟩ := this.mpr ⟨hnd, by simp⟩
    exact ⟨r.1, by rw [hr]; rfl⟩

/-! ### D. ligands: attach only appends marked nodes, detach removes exactly those -/

/-- `m'` is `m` with nodes appended that all carry `ligated` -/
def Extends (m m' : Mol) : Prop :=
  m'.name = m.name ∧ ∃ extra, m'.nodes = m.nodes ++ extra ∧ ∀ w ∈ extra, w.ligated.isSome = true

theorem Extends.refl (m : Mol) : Extends m m := ⟨rfl, [], by simp, by simp⟩

theorem Extends.trans {a b c : Mol} (h1 : Extends a b) (h2 : Extends b c) : Extends a c := by
  obtain ⟨n1, e1, he1, hl1⟩ := h1
  obtain ⟨n2, e2, he2, hl2⟩ := h2
  refine ⟨n2.trans n1, e1 ++ e2, by rw [he2, he1, List.append_assoc], ?_⟩
  intro w hw
  rcases List.mem_append.mp hw with hw | hw
  · exact hl1 w hw
  · exact hl2 w hw

theorem attachNodes_ligated (lig : Mol) (d : LigDef) (cur : Nat) (rid : Int) :
    ∀ w ∈ attachNodes lig d cur rid, w.ligated.isSome = true := by
  intro w hw
  simp only [attachNodes, List.mem_map] at hw
  obtain ⟨⟨x, j⟩, _, rfl⟩ := hw
  rfl

theorem connectOne_extends (mols : List Mol) (defs : List (Nat × LigDef)) (i : Nat) (m : Mol)
    (r : Mol × List (Nat × Nat)) (h : connectOne mols defs i m = .ok r) : Extends m r.1 := by
  unfold connectOne at h
  refine foldlM_inv _ (fun acc => Extends m acc.1) _ ?_ (m, []) r (Extends.refl m) h
  intro acc d acc' _ hacc hstep
  cases hl : mols[d.2.ligIdx]? with
  | none => simp [hl] at hstep
  | some lig =>
    simp only [hl, Except.ok.injEq] at hstep
    subst hstep
    exact hacc.trans ⟨rfl, _, rfl, attachNodes_ligated _ _ _ _⟩

/-- the state of `run_system` relative to the molecules it started from -/
def AttachInv (mols : List Mol) (cur : List Mol) : Prop :=
  cur.length = mols.length ∧ ∀ (j : Nat) (m : Mol), mols[j]? = some m → ∃ m' : Mol, cur[j]? = some m' ∧ Extends m m'

theorem attachAll_inv (mols : List Mol) (defs : List (Nat × LigDef)) (r : List Mol × List (Nat × Nat × Nat))
    (h : attachAll mols defs = .ok r) : AttachInv mols r.1 := by
  unfold attachAll at h
  refine foldlM_inv _ (fun acc => AttachInv mols acc.1) _ ?_ (mols, []) r ?_ h
  · intro acc i acc' _ hacc hstep
    cases hi : acc.1[i]? with
    | none => simp only [hi, Except.ok.injEq] at hstep; subst hstep; exact hacc
    | some mi =>
      simp only [hi] at hstep
      obtain ⟨c, hc, hr⟩ := bind_ok _ _ _ hstep
      simp only [pure, Except.pure, Except.ok.injEq] at hr
      subst hr
      have hext := connectOne_extends _ _ _ _ _ hc
      refine ⟨by rw [List.length_set]; exact hacc.1, ?_⟩
      intro j m hm
      obtain ⟨m', hm', hx⟩ := hacc.2 j m hm
      by_cases hj : i = j
      · subst hj
        have hlt : i < acc.1.length := (List.getElem?_eq_some_iff.mp hi).1
        refine ⟨c.1, by simp [List.getElem?_set, hlt], ?_⟩
        rw [hi] at hm'
        cases hm'
        exact hx.trans hext
      · exact ⟨m', by simp [List.getElem?_set, hj, hm'], hx⟩
  · exact ⟨rfl, fun j m hm => ⟨m, hm, Extends.refl m⟩⟩

theorem filter_extends (m m' : Mol) (h : Extends m m') (hfresh : ∀ v ∈ m.nodes, v.ligated = none) :
    ({ m' with nodes := m'.nodes.filter (·.ligated.isNone) } : Mol) = m := by
  obtain ⟨hn, extra, he, hl⟩ := h
  have h1 : m.nodes.filter (·.ligated.isNone) = m.nodes := by
    rw [List.filter_eq_self]; intro v hv; simp [hfresh v hv]
  have h2 : extra.filter (·.ligated.isNone) = [] := by
    rw [List.filter_eq_nil_iff]; intro v hv; simp [Option.isSome_iff_ne_none.mp (hl v hv)]
  cases m; cases m'
  simp only [Mol.mk.injEq] at *
  exact ⟨hn, by rw [he, List.filter_append, h1, h2, List.append_nil]⟩

/-- detaching gives the original molecule list back -/
theorem detach_structure {π} (mols mols1 : List Mol) (hinv : AttachInv mols mols1)
    (hfresh : ∀ m ∈ mols, ∀ v ∈ m.nodes, v.ligated = none) (pos : PosTable π) :
    (detachAll mols1 pos).1 = mols := by
  show mols1.map (fun m => ({ m with nodes := m.nodes.filter (·.ligated.isNone) } : Mol)) = mols
  apply List.ext_getElem?
  intro j
  rw [List.getElem?_map]
  cases hm : mols[j]? with
  | none =>
    have : mols1[j]? = none := by
      have := hinv.1
      rw [List.getElem?_eq_none_iff] at hm ⊢
      omega
    simp [this]
  | some m =>
    obtain ⟨m', hm', hx⟩ := hinv.2 j m hm
    rw [hm']
    simp only [Option.map_some]
    congr 1
    exact filter_extends m m' hx (hfresh m (List.mem_of_getElem? hm))

theorem lookup_filter_keys {κ α} [DecidableEq κ] (t : List (κ × α)) (p : κ → Bool) (k : κ) :
    lookup (t.filter (fun e => p e.1)) k = if p k then lookup t k else none := by
  induction t with
  | nil => simp [lookup]
  | cons e rest ih =>
    obtain ⟨k0, v⟩ := e
    by_cases hp : p k0
    · by_cases hk : k0 = k
      · subst hk; simp [List.filter_cons, hp, lookup]
      · simp [List.filter_cons, hp, lookup, hk, ih]
    · by_cases hk : k0 = k
      · subst hk; simp [List.filter_cons, hp, lookup, ih]
      · simp [List.filter_cons, hp, lookup, hk, ih]

def detachStep {π} (t : PosTable π) (st : (Nat × Nat) × (Nat × Nat)) : PosTable π :=
  match lookup t st.1 with
  | some p => setAt t st.2 p
  | none => t

theorem lookup_detachStep_ne {π} (t : PosTable π) (st : (Nat × Nat) × (Nat × Nat)) (k : Nat × Nat)
    (h : st.2 ≠ k) : lookup (detachStep t st) k = lookup t k := by
  unfold detachStep
  cases lookup t st.1 with
  | none => rfl
  | some p => simp [lookup_setAt, h]

theorem detach_fold {π} (srcs : List (Nat × Nat)) (pos0 : PosTable π) (L : List ((Nat × Nat) × (Nat × Nat)))
    (hsep : ∀ st ∈ L, st.2 ∉ srcs) (hsrc : ∀ st ∈ L, st.1 ∈ srcs) :
    ∀ t : PosTable π, (∀ s ∈ srcs, lookup t s = lookup pos0 s) →
      (∀ s ∈ srcs, lookup (L.foldl detachStep t) s = lookup pos0 s) ∧
      (∀ k, k ∉ L.map (·.2) → lookup (L.foldl detachStep t) k = lookup t k) ∧
      ((L.map (·.2)).Nodup → ∀ st ∈ L, (lookup pos0 st.1).isSome = true →
        lookup (L.foldl detachStep t) st.2 = lookup pos0 st.1) := by
  induction L with
  | nil => intro t ht; exact ⟨ht, fun _ _ => rfl, fun _ st hst => by simp at hst⟩
  | cons st rest ih =>
    intro t ht
    have hsep' : ∀ x ∈ rest, x.2 ∉ srcs := fun x hx => hsep x (List.mem_cons_of_mem _ hx)
    have hsrc' : ∀ x ∈ rest, x.1 ∈ srcs := fun x hx => hsrc x (List.mem_cons_of_mem _ hx)
    have ht1 : ∀ s ∈ srcs, lookup (detachStep t st) s = lookup pos0 s := by
      intro s hs
      rw [lookup_detachStep_ne _ _ _ (fun e => hsep st List.mem_cons_self (e ▸ hs))]
      exact ht s hs
    obtain ⟨a, b, c⟩ := ih hsep' hsrc' (detachStep t st) ht1
    simp only [List.foldl_cons]
    refine ⟨a, ?_, ?_⟩
    · intro k hk
      simp only [List.map_cons, List.mem_cons, not_or] at hk
      rw [b k hk.2, lookup_detachStep_ne _ _ _ (fun e => hk.1 e.symm)]
    · intro hnd x hx hsome
      simp only [List.map_cons, List.nodup_cons] at hnd
      rcases List.mem_cons.mp hx with rfl | hx
      · rw [b _ hnd.1]
        have hl : lookup t x.1 = lookup pos0 x.1 := ht _ (hsrc x List.mem_cons_self)
        unfold detachStep
        rw [hl]
        cases hp : lookup pos0 x.1 with
        | none => simp [hp] at hsome
        | some p => simp [lookup_setAt]
      · exact c hnd.2 x hx hsome

/-- positions after detaching: every ligand residue holds the position generated for its attached node,
the attached nodes are gone, everything else keeps its own position -/
theorem detach_positions {π} (mols1 : List Mol) (pos : PosTable π)
    (hsep : ∀ st ∈ ligatedNodes mols1, st.2 ∉ (ligatedNodes mols1).map (·.1))
    (hnd : ((ligatedNodes mols1).map (·.2)).Nodup) :
    (∀ st ∈ ligatedNodes mols1, (lookup pos st.1).isSome = true →
        lookup (detachAll mols1 pos).2 st.2 = lookup pos st.1) ∧
    (∀ k, k ∉ (ligatedNodes mols1).map (·.2) → k ∉ (ligatedNodes mols1).map (·.1) →
        lookup (detachAll mols1 pos).2 k = lookup pos k) ∧
    (∀ k ∈ (ligatedNodes mols1).map (·.1), lookup (detachAll mols1 pos).2 k = none) := by
  have hfold : (detachAll mols1 pos).2 =
      ((ligatedNodes mols1).foldl detachStep pos).filter
        (fun e => decide (e.1 ∉ (ligatedNodes mols1).map (·.1))) := rfl
  obtain ⟨a, b, c⟩ := detach_fold ((ligatedNodes mols1).map (·.1)) pos (ligatedNodes mols1) hsep
    (fun st hst => List.mem_map_of_mem hst) pos (fun _ _ => rfl)
  rw [hfold]
  refine ⟨?_, ?_, ?_⟩
  · intro st hst hsome
    rw [lookup_filter_keys _ (fun k => decide (k ∉ (ligatedNodes mols1).map (·.1)))]
    simp only [hsep st hst, not_false_eq_true, decide_true, if_true]
    exact c hnd st hst hsome
  · intro k hk1 hk2
    rw [lookup_filter_keys _ (fun k => decide (k ∉ (ligatedNodes mols1).map (·.1)))]
    simp only [hk2, not_false_eq_true, decide_true, if_true]
    exact b k hk1
  · intro k hk
    rw [lookup_filter_keys _ (fun k => decide (k ∉ (ligatedNodes mols1).map (·.1)))]
    simp [hk]

/-! ### E'. `-split`: the new residues refine the old ones and carry the asked names -/

section groupsound
variable {κ α : Type} [DecidableEq κ]

theorem mem_appendAt_val (t : List (κ × List α)) (k : κ) (v : α) (e : κ × List α) (he : e ∈ appendAt t k v)
    (x : α) (hx : x ∈ e.2) : (∃ e0 ∈ t, e0.1 = e.1 ∧ x ∈ e0.2) ∨ (e.1 = k ∧ x = v) := by
  induction t with
  | nil =>
    simp only [appendAt, List.mem_singleton] at he
    subst he
    simp only [List.mem_singleton] at hx
    exact Or.inr ⟨rfl, hx⟩
  | cons e0 rest ih =>
    obtain ⟨k0, vs⟩ := e0
    by_cases h : k0 = k
    · simp only [appendAt, h, if_true, List.mem_cons] at he
      rcases he with he | he
      · subst he
        rcases List.mem_append.mp hx with hx | hx
        · exact Or.inl ⟨(k0, vs), List.mem_cons_self, h, hx⟩
        · exact Or.inr ⟨rfl, List.mem_singleton.mp hx⟩
      · exact Or.inl ⟨e, List.mem_cons_of_mem _ he, rfl, hx⟩
    · simp only [appendAt, h, if_false, List.mem_cons] at he
      rcases he with he | he
      · subst he
        exact Or.inl ⟨(k0, vs), List.mem_cons_self, rfl, hx⟩
      · rcases ih he with ⟨e1, he1, h1, h2⟩ | hr
        · exact Or.inl ⟨e1, List.mem_cons_of_mem _ he1, h1, h2⟩
        · exact Or.inr hr

theorem group_sound {ι} (f : ι → κ) (g : ι → α) (es : List ι) : ∀ (t0 : List (κ × List α)) (e : κ × List α),
    e ∈ es.foldl (fun t a => appendAt t (f a) (g a)) t0 → ∀ x ∈ e.2,
      (∃ e0 ∈ t0, e0.1 = e.1 ∧ x ∈ e0.2) ∨ ∃ a ∈ es, f a = e.1 ∧ g a = x := by
  induction es with
  | nil => intro t0 e he x hx; exact Or.inl ⟨e, he, rfl, hx⟩
  | cons a rest ih =>
    intro t0 e he x hx
    simp only [List.foldl_cons] at he
    rcases ih _ e he x hx with ⟨e0, he0, h1, h2⟩ | ⟨b, hb, h1, h2⟩
    · rcases mem_appendAt_val t0 (f a) (g a) e0 he0 x h2 with ⟨e1, he1, h3, h4⟩ | ⟨h3, h4⟩
      · exact Or.inl ⟨e1, he1, h3.trans h1, h4⟩
      · exact Or.inr ⟨a, List.mem_cons_self, (h3.symm.trans h1), h4.symm⟩
    · exact Or.inr ⟨b, List.mem_cons_of_mem _ hb, h1, h2⟩

end groupsound

theorem eq_of_key_eq (atoms : List Atom) (hnd : (atoms.map (·.key)).Nodup) (a b : Atom) (ha : a ∈ atoms)
    (hb : b ∈ atoms) (h : a.key = b.key) : a = b := by
  induction atoms with
  | nil => simp at ha
  | cons x xs ih =>
    simp only [List.map_cons, List.nodup_cons] at hnd
    rcases List.mem_cons.mp ha with rfl | ha' <;> rcases List.mem_cons.mp hb with rfl | hb'
    · rfl
    · exact absurd (List.mem_map_of_mem (f := (·.key)) hb') (h ▸ hnd.1)
    · exact absurd (List.mem_map_of_mem (f := (·.key)) ha') (h ▸ hnd.1)
    · exact ih hnd.2 ha' hb'

/-- the (resid, resname) an atom is grouped by after the renaming step -/
def newKey (mapping : List (Nat × String)) (mx : Int) (a : Atom) : Int × String :=
  match lookup mapping a.key with
  | some n => (a.resid + mx, n)
  | none => (a.resid, a.resname)

theorem relabel_eq (atoms : List Atom) (mapping : List (Nat × String)) (mx : Int) :
    relabel atoms mapping mx = atoms.map fun a =>
      ({ a with resid := (newKey mapping mx a).1, resname := (newKey mapping mx a).2 } : Atom) := by
  unfold relabel
  apply List.map_congr_left
  intro a _
  unfold newKey
  cases lookup mapping a.key <;> rfl

/-- every new residue is called as asked and holds exactly atoms that agree on (old resid, new name): the
new residues refine the old ones -/
theorem split_refines (atoms : List Atom) (mx : Int) (sds : List SplitDef) (r : SplitResult)
    (h : splitResidue atoms mx sds = .ok r) (hkeys : (atoms.map (·.key)).Nodup)
    (hres : ∀ a ∈ atoms, 1 ≤ a.resid ∧ a.resid ≤ mx) :
    ∃ mapping, splitMapping atoms sds = .ok mapping ∧
      ∀ res ∈ r.residues, ∀ x ∈ res.2.2, ∃ a ∈ atoms, a.key = x ∧
        res.2.1 = (match lookup mapping a.key with | some n => n | none => a.resname) ∧
        ∀ y ∈ res.2.2, ∀ b ∈ atoms, b.key = y →
          b.resid = a.resid ∧ (lookup mapping b.key).isSome = (lookup mapping a.key).isSome := by
  unfold splitResidue at h
  obtain ⟨mapping, hmap, h2⟩ := bind_ok _ _ _ h
  simp only [pure, Except.pure, Except.ok.injEq] at h2
  subst h2
  refine ⟨mapping, hmap, ?_⟩
  intro res hres_mem x hx
  simp only [List.mem_map] at hres_mem
  obtain ⟨⟨g, idx⟩, hg, rfl⟩ := hres_mem
  have hgmem : g ∈ groupAtoms (relabel atoms mapping mx) := by
    have := List.mem_zipIdx hg
    rw [this.2.2]; exact List.getElem_mem _
  simp only [] at hx ⊢
  have key_of : ∀ z ∈ g.2, ∃ c ∈ atoms, c.key = z ∧ newKey mapping mx c = g.1 := by
    intro z hz
    unfold groupAtoms at hgmem
    rcases group_sound (fun a : Atom => (a.resid, a.resname)) (·.key) _ [] g hgmem z hz with ⟨e0, he0, _⟩ | ⟨a', ha', h1, h2⟩
    · simp at he0
    · rw [relabel_eq] at ha'
      simp only [List.mem_map] at ha'
      obtain ⟨c, hc, rfl⟩ := ha'
      exact ⟨c, hc, h2, h1⟩
  obtain ⟨a, ha, hax, hak⟩ := key_of x hx
  refine ⟨a, ha, hax, ?_, ?_⟩
  · unfold newKey at hak
    cases hl : lookup mapping a.key with
    | none => simp only [hl] at hak; rw [← hak]
    | some n => simp only [hl] at hak; rw [← hak]
  · intro y hy b hb hby
    obtain ⟨c, hc, hcy, hck⟩ := key_of y hy
    have : c = b := eq_of_key_eq atoms hkeys c b hc hb (hcy.trans hby.symm)
    subst this
    have hab : newKey mapping mx c = newKey mapping mx a := hck.trans hak.symm
    unfold newKey at hab
    have ra := hres a ha
    have rc := hres c hc
    cases hla : lookup mapping a.key <;> cases hlc : lookup mapping c.key <;>
      simp only [hla, hlc, Prod.mk.injEq] at hab
    · exact ⟨hab.1, rfl⟩
    · exfalso; omega
    · exfalso; omega
    · exact ⟨by omega, rfl⟩

section groupcomplete
variable {κ α : Type} [DecidableEq κ]

theorem keys_appendAt (t : List (κ × List α)) (k : κ) (v : α) :
    (appendAt t k v).map (·.1) = if k ∈ t.map (·.1) then t.map (·.1) else t.map (·.1) ++ [k] := by
  induction t with
  | nil => simp [appendAt]
  | cons e rest ih =>
    obtain ⟨k0, vs⟩ := e
    by_cases h : k0 = k
    · subst h; simp [appendAt]
    · have hne : ¬ k = k0 := fun e => h e.symm
      simp only [appendAt, h, if_false, List.map_cons, ih, List.mem_cons, hne, false_or]
      by_cases hm : k ∈ rest.map (·.1) <;> simp [hm]

theorem nodup_keys_appendAt (t : List (κ × List α)) (k : κ) (v : α) (h : (t.map (·.1)).Nodup) :
    ((appendAt t k v).map (·.1)).Nodup := by
  rw [keys_appendAt]
  by_cases hm : k ∈ t.map (·.1)
  · simpa [hm] using h
  · simp only [hm, if_false]
    rw [List.nodup_append]
    exact ⟨h, by simp, by
      intro a ha b hb
      simp only [List.mem_singleton] at hb
      subst hb
      exact fun e => hm (e ▸ ha)⟩

theorem nodup_keys_fold {ι} (f : ι → κ) (g : ι → α) (es : List ι) : ∀ t0 : List (κ × List α),
    (t0.map (·.1)).Nodup → ((es.foldl (fun t a => appendAt t (f a) (g a)) t0).map (·.1)).Nodup := by
  induction es with
  | nil => intro t0 h; exact h
  | cons a rest ih => intro t0 h; exact ih _ (nodup_keys_appendAt t0 _ _ h)

theorem appendAt_keeps (t : List (κ × List α)) (k : κ) (v : α) (k' : κ) (x : α)
    (h : ∃ e ∈ t, e.1 = k' ∧ x ∈ e.2) : ∃ e ∈ appendAt t k v, e.1 = k' ∧ x ∈ e.2 := by
  induction t with
  | nil => obtain ⟨e, he, _⟩ := h; simp at he
  | cons e0 rest ih =>
    obtain ⟨k0, vs⟩ := e0
    obtain ⟨e, he, h1, h2⟩ := h
    by_cases hk : k0 = k
    · simp only [appendAt, hk, if_true]
      rcases List.mem_cons.mp he with rfl | he
      · exact ⟨(k, vs ++ [v]), List.mem_cons_self, hk ▸ h1, List.mem_append_left _ h2⟩
      · exact ⟨e, List.mem_cons_of_mem _ he, h1, h2⟩
    · simp only [appendAt, hk, if_false]
      rcases List.mem_cons.mp he with rfl | he
      · exact ⟨(k0, vs), List.mem_cons_self, h1, h2⟩
      · obtain ⟨e', he', h3, h4⟩ := ih ⟨e, he, h1, h2⟩
        exact ⟨e', List.mem_cons_of_mem _ he', h3, h4⟩

theorem appendAt_adds (t : List (κ × List α)) (k : κ) (v : α) : ∃ e ∈ appendAt t k v, e.1 = k ∧ v ∈ e.2 := by
  induction t with
  | nil => exact ⟨(k, [v]), by simp [appendAt], rfl, by simp⟩
  | cons e0 rest ih =>
    obtain ⟨k0, vs⟩ := e0
    by_cases hk : k0 = k
    · exact ⟨(k0, vs ++ [v]), by simp [appendAt, hk], hk, by simp⟩
    · obtain ⟨e, he, h1, h2⟩ := ih
      exact ⟨e, by simp [appendAt, hk, he], h1, h2⟩

theorem group_complete {ι} (f : ι → κ) (g : ι → α) (es : List ι) : ∀ t0 : List (κ × List α),
    (∀ k' x, (∃ e ∈ t0, e.1 = k' ∧ x ∈ e.2) →
      ∃ e ∈ es.foldl (fun t a => appendAt t (f a) (g a)) t0, e.1 = k' ∧ x ∈ e.2) ∧
    ∀ a ∈ es, ∃ e ∈ es.foldl (fun t a => appendAt t (f a) (g a)) t0, e.1 = f a ∧ g a ∈ e.2 := by
  induction es with
  | nil => intro t0; exact ⟨fun _ _ h => h, fun a ha => by simp at ha⟩
  | cons b rest ih =>
    intro t0
    obtain ⟨keep, adds⟩ := ih (appendAt t0 (f b) (g b))
    simp only [List.foldl_cons]
    refine ⟨fun k' x h => keep k' x (appendAt_keeps t0 _ _ k' x h), ?_⟩
    intro a ha
    rcases List.mem_cons.mp ha with rfl | ha
    · exact keep _ _ (appendAt_adds t0 _ _)
    · exact adds a ha

end groupcomplete

theorem entry_eq_of_key {κ α} (t : List (κ × α)) (h : (t.map (·.1)).Nodup) (e1 e2 : κ × α)
    (h1 : e1 ∈ t) (h2 : e2 ∈ t) (hk : e1.1 = e2.1) : e1 = e2 := by
  induction t with
  | nil => simp at h1
  | cons x xs ih =>
    simp only [List.map_cons, List.nodup_cons] at h
    rcases List.mem_cons.mp h1 with rfl | h1' <;> rcases List.mem_cons.mp h2 with rfl | h2'
    · rfl
    · exact absurd (List.mem_map_of_mem (f := (·.1)) h2') (hk ▸ h.1)
    · exact absurd (List.mem_map_of_mem (f := (·.1)) h1') (hk ▸ h.1)
    · exact ih h.2 h1' h2'

/-- atoms that agree on (old resid, new name) end up in one and the same new residue -/
theorem split_groups_together (atoms : List Atom) (mx : Int) (sds : List SplitDef) (r : SplitResult)
    (mapping : List (Nat × String)) (hmap : splitMapping atoms sds = .ok mapping)
    (h : splitResidue atoms mx sds = .ok r) (a b : Atom) (ha : a ∈ atoms) (hb : b ∈ atoms)
    (hk : newKey mapping mx a = newKey mapping mx b) :
    ∃ res ∈ r.residues, a.key ∈ res.2.2 ∧ b.key ∈ res.2.2 := by
  unfold splitResidue at h
  rw [hmap] at h
  simp only [bind, Except.bind, pure, Except.pure, Except.ok.injEq] at h
  subst h
  simp only []
  have hrel : ∀ c ∈ atoms, ∃ e ∈ groupAtoms (relabel atoms mapping mx), e.1 = newKey mapping mx c ∧ c.key ∈ e.2 := by
    intro c hc
    unfold groupAtoms
    have hc' : ({ c with resid := (newKey mapping mx c).1, resname := (newKey mapping mx c).2 } : Atom) ∈
        relabel atoms mapping mx := by
      rw [relabel_eq]; exact List.mem_map_of_mem hc
    obtain ⟨e, he, h1, h2⟩ := (group_complete (fun a : Atom => (a.resid, a.resname)) (·.key)
      (relabel atoms mapping mx) []).2 _ hc'
    exact ⟨e, he, h1, h2⟩
  obtain ⟨ea, hea, ka, xa⟩ := hrel a ha
  obtain ⟨eb, heb, kb, xb⟩ := hrel b hb
  have hnd : ((groupAtoms (relabel atoms mapping mx)).map (·.1)).Nodup := by
    unfold groupAtoms
    exact nodup_keys_fold _ _ _ [] (by simp)
  have : ea = eb := entry_eq_of_key _ hnd ea eb hea heb (by rw [ka, kb, hk])
  subst this
  obtain ⟨i, hi, hget⟩ := List.getElem_of_mem hea
  refine ⟨(i, ea.1.2, ea.2), ?_, xa, xb⟩
  simp only [List.mem_map]
  refine ⟨(ea, i), ?_, rfl⟩
  rw [List.mem_zipIdx_iff_getElem?]
  simp [hget, hi]

/-! ### E''. one split definition: the mapping is what the definition asks for -/

theorem lookup_fold_setAt_const (hit : List Atom) (v : String) : ∀ (t0 : List (Nat × String)) (k : Nat),
    lookup (hit.foldl (fun t c => setAt t c.key v) t0) k =
      if k ∈ hit.map (·.key) then some v else lookup t0 k := by
  induction hit with
  | nil => intro t0 k; simp
  | cons c rest ih =>
    intro t0 k
    simp only [List.foldl_cons, ih, lookup_setAt, List.map_cons, List.mem_cons]
    by_cases h1 : k ∈ rest.map (·.key)
    · simp [h1]
    · by_cases h2 : c.key = k
      · simp [h1, h2]
      · have : ¬ k = c.key := fun e => h2 e.symm
        simp [h1, h2, this]

theorem key_mem_filter (atoms : List Atom) (hnd : (atoms.map (·.key)).Nodup) (a : Atom) (ha : a ∈ atoms)
    (P : Atom → Bool) : a.key ∈ (atoms.filter P).map (·.key) ↔ P a = true := by
  constructor
  · intro h
    simp only [List.mem_map, List.mem_filter] at h
    obtain ⟨c, ⟨hc, hp⟩, hk⟩ := h
    have : c = a := eq_of_key_eq atoms hnd c a hc ha hk
    subst this; exact hp
  · intro hp
    exact List.mem_map_of_mem (List.mem_filter.mpr ⟨ha, hp⟩)

/-- the pure effect of one step of the loop on the mapping -/
def mapPure (atoms : List Atom) (sd : SplitDef) (t : List (Nat × String)) (pn : String × String) : List (Nat × String) :=
  (atoms.filter (fun a => a.resname = sd.resname ∧ a.atomname = pn.2)).foldl (fun t a => setAt t a.key pn.1) t

theorem mapStep_proj (atoms : List Atom) (sd : SplitDef) (acc acc' : List (Nat × String) × List String)
    (pn : String × String) (h : mapStep atoms sd acc pn = .ok acc') : acc'.1 = mapPure atoms sd acc.1 pn := by
  unfold mapStep at h
  split at h
  · simp at h
  · simp only [Except.ok.injEq] at h; subst h; rfl

theorem lookup_mapPure_fold (atoms : List Atom) (sd : SplitDef) (hnd : (atoms.map (·.key)).Nodup) (a : Atom)
    (ha : a ∈ atoms) (pns : List (String × String)) (hpn : (pns.map (·.2)).Nodup) :
    ∀ t0 : List (Nat × String), lookup (pns.foldl (mapPure atoms sd) t0) a.key =
      if a.resname = sd.resname then
        ((pns.find? (fun pn => pn.2 = a.atomname)).map (·.1)).or (lookup t0 a.key)
      else lookup t0 a.key := by
  induction pns with
  | nil => intro t0; by_cases h : a.resname = sd.resname <;> simp [h]
  | cons pn rest ih =>
    intro t0
    simp only [List.map_cons, List.nodup_cons] at hpn
    simp only [List.foldl_cons]
    rw [ih hpn.2]
    unfold mapPure
    rw [lookup_fold_setAt_const]
    have hmem := key_mem_filter atoms hnd a ha (fun c => decide (c.resname = sd.resname ∧ c.atomname = pn.2))
    by_cases hr : a.resname = sd.resname
    · by_cases hn : a.atomname = pn.2
      · have hin : a.key ∈ (atoms.filter (fun c => decide (c.resname = sd.resname ∧ c.atomname = pn.2))).map (·.key) :=
          hmem.mpr (by simp [hr, hn])
        have hno : rest.find? (fun q => decide (q.2 = a.atomname)) = none := by
          rw [List.find?_eq_none]
          intro q hq
          simp only [decide_eq_true_eq]
          intro e
          exact hpn.1 (List.mem_map.mpr ⟨q, hq, by rw [e, hn]⟩)
        rw [if_pos hin]
        rw [hn] at hno
        simp [hr, hno, hn, List.find?_cons]
      · have hout : a.key ∉ (atoms.filter (fun c => decide (c.resname = sd.resname ∧ c.atomname = pn.2))).map (·.key) :=
          fun h => by have := hmem.mp h; simp [hn] at this
        have : ¬ pn.2 = a.atomname := fun e => hn e.symm
        rw [if_neg hout]
        simp [hr, this, List.find?_cons]
    · have hout : a.key ∉ (atoms.filter (fun c => decide (c.resname = sd.resname ∧ c.atomname = pn.2))).map (·.key) :=
        fun h => by have := hmem.mp h; simp [hr] at this
      rw [if_neg hout]
      simp [hr]

theorem setAt_keys_nodup {κ α : Type} [DecidableEq κ] (t : List (κ × α)) (k : κ) (v : α) (h : (t.map (·.1)).Nodup) :
    ((setAt t k v).map (·.1)).Nodup := by
  have hk : (setAt t k v).map (·.1) = if k ∈ t.map (·.1) then t.map (·.1) else t.map (·.1) ++ [k] := by
    clear h
    induction t with
    | nil => simp [setAt]
    | cons e rest ih =>
      obtain ⟨k0, v0⟩ := e
      by_cases h0 : k0 = k
      · subst h0; simp [setAt]
      · have hne : ¬ k = k0 := fun e => h0 e.symm
        simp only [setAt, h0, if_false, List.map_cons, ih, List.mem_cons, hne, false_or]
        by_cases hm : k ∈ rest.map (·.1) <;> simp [hm]
  rw [hk]
  by_cases hm : k ∈ t.map (·.1)
  · simpa [hm] using h
  · simp only [hm, if_false]
    rw [List.nodup_append]
    exact ⟨h, by simp, by
      intro a ha b hb
      simp only [List.mem_singleton] at hb
      subst hb
      exact fun e => hm (e ▸ ha)⟩

theorem lookup_refold {κ α : Type} [DecidableEq κ] (m : List (κ × α)) (k : κ) :
    lookup (m.foldl (fun t kv => setAt t kv.1 kv.2) []) k =
      (((m.filter (fun e => decide (e.1 = k))).map (·.2)).getLast?) := by
  rw [lookup_fold_setAt]; simp [lookup]

theorem lookup_of_nodup {κ α : Type} [DecidableEq κ] (m : List (κ × α)) (h : (m.map (·.1)).Nodup) (k : κ) :
    ((m.filter (fun e => decide (e.1 = k))).map (·.2)).getLast? = lookup m k := by
  induction m with
  | nil => rfl
  | cons e rest ih =>
    obtain ⟨k0, v⟩ := e
    simp only [List.map_cons, List.nodup_cons] at h
    by_cases hk : k0 = k
    · subst hk
      have : rest.filter (fun e => decide (e.1 = k0)) = [] := by
        rw [List.filter_eq_nil_iff]
        intro e he
        simp only [decide_eq_true_eq]
        intro e1
        exact h.1 (List.mem_map.mpr ⟨e, he, e1⟩)
      simp [List.filter_cons, this, lookup]
    · simp [List.filter_cons, hk, lookup, ih h.2]

theorem mapPure_fold_nodup (atoms : List Atom) (sd : SplitDef) (pns : List (String × String)) :
    ∀ t0 : List (Nat × String), (t0.map (·.1)).Nodup → ((pns.foldl (mapPure atoms sd) t0).map (·.1)).Nodup := by
  induction pns with
  | nil => intro t0 h; exact h
  | cons pn rest ih =>
    intro t0 h
    simp only [List.foldl_cons]
    apply ih
    unfold mapPure
    generalize atoms.filter _ = hit
    induction hit generalizing t0 with
    | nil => exact h
    | cons c cs ihc => simp only [List.foldl_cons]; exact ihc _ (setAt_keys_nodup t0 _ _ h)

/-- for ONE accepted split definition, the new name recorded for an atom is the name the definition asks for -/
theorem single_mapping (atoms : List Atom) (sd : SplitDef) (mapping : List (Nat × String))
    (h : splitMapping atoms [sd] = .ok mapping) (hnd : (atoms.map (·.key)).Nodup) (a : Atom) (ha : a ∈ atoms) :
    lookup mapping a.key = askedName sd a := by
  unfold splitMapping at h
  simp only [List.foldlM_cons, List.foldlM_nil] at h
  obtain ⟨r, hr, h2⟩ := bind_ok _ _ _ h
  obtain ⟨m, hm, h3⟩ := bind_ok _ _ _ hr
  simp only [pure, Except.pure, Except.ok.injEq] at h2 h3
  subst h2; subst h3
  have hnames : (listedNames sd).Nodup := (interpret_ok_iff atoms sd).mp ⟨m, hm⟩
  rw [interpret_flat] at hm
  cases hf : (namedParts sd).foldlM (mapStep atoms sd) ([], []) with
  | error e => rw [hf] at hm; simp [Except.map] at hm
  | ok st =>
    rw [hf] at hm
    simp only [Except.map, Except.ok.injEq] at hm
    subst hm
    have hproj := foldlM_proj (mapStep atoms sd) (·.1) (mapPure atoms sd)
      (fun s x s' hs => mapStep_proj atoms sd s s' x hs) (namedParts sd) ([], []) st hf
    simp only [] at hproj
    have hpn : ((namedParts sd).map (·.2)).Nodup := by rw [listedNames_eq]; exact hnames
    rw [lookup_refold, lookup_of_nodup _ (by rw [hproj]; exact mapPure_fold_nodup atoms sd _ [] (by simp)),
      hproj, lookup_mapPure_fold atoms sd hnd a ha _ hpn]
    unfold askedName
    by_cases hr' : a.resname = sd.resname <;> simp [hr', lookup]

/-! ### C. `-start` -/

/-- the loop of `find_starting_node_from_spec` over the molecules carrying the name -/
def startStep (name : String) (sp : Spec) (st : List (Option Nat)) (mi : Mol × Nat) : Except String (List (Option Nat)) :=
  if mi.1.name = name then
    match findNodes mi.1 sp with
    | [] => Except.error "IndexError: no node"
    | k :: _ => Except.ok (st.set mi.2 (some k))
  else Except.ok st

theorem startStep_fold (name : String) (sp : Spec) (l : List Mol) : ∀ (k : Nat) (st st' : List (Option Nat)),
    (l.zipIdx k).foldlM (startStep name sp) st = .ok st' →
    st'.length = st.length ∧ ∀ j, st'[j]? =
      match l[j - k]? with
      | some m => if k ≤ j ∧ m.name = name ∧ j < st.length then some ((findNodes m sp).head?) else st[j]?
      | none => st[j]? := by
  induction l with
  | nil =>
    intro k st st' h
    simp only [List.zipIdx_nil, List.foldlM_nil, pure, Except.pure, Except.ok.injEq] at h
    subst h
    exact ⟨rfl, fun j => by simp⟩
  | cons m rest ih =>
    intro k st st' h
    rw [List.zipIdx_cons, List.foldlM_cons] at h
    obtain ⟨st1, h1, h2⟩ := bind_ok _ _ _ h
    obtain ⟨hl, hj⟩ := ih (k + 1) st1 st' h2
    unfold startStep at h1
    by_cases hn : m.name = name
    · simp only [hn, if_true] at h1
      cases hf : findNodes m sp with
      | nil => simp [hf] at h1
      | cons k0 ks =>
        simp only [hf, Except.ok.injEq] at h1
        subst h1
        refine ⟨by rw [hl, List.length_set], ?_⟩
        intro j
        rw [hj j]
        by_cases hjk : j = k
        · subst hjk
          have : j - (j + 1) = 0 := by omega
          simp only [this, Nat.sub_self, List.getElem?_cons_zero, List.length_set]
          have hset : (st.set j (some k0))[j]? = if j < st.length then some (some k0) else st[j]? := by
            by_cases hlt : j < st.length
            · simp [List.getElem?_set, hlt]
            · simp [hlt]
          cases hr : rest[0]? with
          | none => simp [hset, hn, hf]
          | some m2 =>
            have : ¬ (j + 1 ≤ j) := by omega
            simp [this, hset, hn, hf]
        · by_cases hlt : j < k
          · have e1 : j - (k + 1) = 0 := by omega
            have e2 : j - k = 0 := by omega
            have n1 : ¬ (k + 1 ≤ j) := by omega
            have n2 : ¬ (k ≤ j) := by omega
            have hne : ¬ k = j := fun e => hjk e.symm
            simp only [e1, e2, List.getElem?_cons_zero]
            cases rest[0]? <;> simp [n1, n2, List.getElem?_set, hne]
          · have e : j - k = (j - (k + 1)) + 1 := by omega
            have hne : ¬ k = j := fun e => hjk e.symm
            rw [e, List.getElem?_cons_succ]
            cases hr : rest[j - (k + 1)]? with
            | none => simp [List.getElem?_set, hne]
            | some m2 =>
              have c1 : k + 1 ≤ j := by omega
              have c2 : k ≤ j := by omega
              simp [c1, c2, List.length_set, List.getElem?_set, hne]
    · simp only [hn, if_false, Except.ok.injEq] at h1
      subst h1
      refine ⟨hl, ?_⟩
      intro j
      rw [hj j]
      by_cases hjk : j = k
      · subst hjk
        have : j - (j + 1) = 0 := by omega
        simp only [this, Nat.sub_self, List.getElem?_cons_zero]
        have n1 : ¬ (j + 1 ≤ j) := by omega
        cases rest[0]? <;> simp [n1, hn]
      · by_cases hlt : j < k
        · have e1 : j - (k + 1) = 0 := by omega
          have e2 : j - k = 0 := by omega
          have n1 : ¬ (k + 1 ≤ j) := by omega
          have n2 : ¬ (k ≤ j) := by omega
          simp only [e1, e2, List.getElem?_cons_zero]
          cases rest[0]? <;> simp [n1, n2]
        · have e : j - k = (j - (k + 1)) + 1 := by omega
          rw [e, List.getElem?_cons_succ]
          cases hr : rest[j - (k + 1)]? with
          | none => rfl
          | some m2 =>
            have c1 : k + 1 ≤ j := by omega
            have c2 : k ≤ j := by omega
            simp [c1, c2]

/-- a specification naming both an index and a name is consistent when that molecule carries the name -/
def consistentSpec (mols : List Mol) (sp : Spec) : Prop :=
  ∀ i n, sp.molIdx = some i → sp.molname = some n → (mols[i]?.map (·.name)) = some n

theorem startOne_spec (mols : List Mol) (sp : Spec) (st st' : List (Option Nat)) (hlen : st.length = mols.length)
    (hcons : consistentSpec mols sp) (h : startOne mols st sp = .ok st') :
    st'.length = mols.length ∧ ∀ i m, mols[i]? = some m →
      st'[i]? = if specAddresses mols sp i = true then some ((findNodes m sp).head?) else st[i]? := by
  unfold startOne at h
  cases hidx : sp.molIdx with
  | some i0 =>
    simp only [hidx] at h
    cases hm0 : mols[i0]? with
    | none => simp [hm0] at h
    | some m0 =>
      simp only [hm0] at h
      cases hf : findNodes m0 sp with
      | nil => simp [hf] at h
      | cons k0 ks =>
        simp only [hf, Except.ok.injEq] at h
        subst h
        refine ⟨by rw [List.length_set]; exact hlen, ?_⟩
        intro i m hm
        have hi0 : i0 < st.length := by rw [hlen]; exact (List.getElem?_eq_some_iff.mp hm0).1
        by_cases hi : i0 = i
        · subst hi
          rw [hm0] at hm; cases hm
          have haddr : specAddresses mols sp i0 = true := by
            unfold specAddresses
            cases hnm : sp.molname with
            | none => simp [hidx]
            | some n =>
              have := hcons i0 n hidx hnm
              simp [hidx, this]
          simp [haddr, List.getElem?_set, hi0, hf]
        · have haddr : specAddresses mols sp i = false := by
            unfold specAddresses
            simp [hidx, hi]
          simp [haddr, List.getElem?_set, hi]
  | none =>
    simp only [hidx] at h
    cases hnm : sp.molname with
    | none => simp [hnm] at h
    | some name =>
      simp only [hnm] at h
      have hfold : (mols.zipIdx 0).foldlM (startStep name sp) st = .ok st' := h
      obtain ⟨hl, hj⟩ := startStep_fold name sp mols 0 st st' hfold
      refine ⟨by rw [hl, hlen], ?_⟩
      intro i m hm
      rw [hj i]
      simp only [Nat.sub_zero, hm, Nat.zero_le, true_and]
      have hi : i < st.length := by rw [hlen]; exact (List.getElem?_eq_some_iff.mp hm).1
      unfold specAddresses
      by_cases hn : m.name = name <;> simp [hidx, hnm, hm, hn, hi]

theorem start_fold (mols : List Mol) (specs : List Spec) : ∀ (init st : List (Option Nat)),
    init.length = mols.length → (∀ sp ∈ specs, consistentSpec mols sp) →
    specs.foldlM (startOne mols) init = .ok st →
    st.length = mols.length ∧ ∀ i m, mols[i]? = some m →
      st[i]? = match (specs.filter (specAddresses mols · i)).getLast? with
        | some sp => some ((findNodes m sp).head?)
        | none => init[i]? := by
  induction specs with
  | nil =>
    intro init st hlen _ h
    simp only [List.foldlM_nil, pure, Except.pure, Except.ok.injEq] at h
    subst h
    exact ⟨hlen, fun i m _ => by simp⟩
  | cons sp rest ih =>
    intro init st hlen hcons h
    rw [List.foldlM_cons] at h
    obtain ⟨st1, h1, h2⟩ := bind_ok _ _ _ h
    obtain ⟨l1, s1⟩ := startOne_spec mols sp init st1 hlen (hcons sp List.mem_cons_self) h1
    obtain ⟨l2, s2⟩ := ih st1 st l1 (fun x hx => hcons x (List.mem_cons_of_mem _ hx)) h2
    refine ⟨l2, ?_⟩
    intro i m hm
    rw [s2 i m hm, s1 i m hm]
    by_cases ha : specAddresses mols sp i = true
    · have hf : (sp :: rest).filter (specAddresses mols · i) = sp :: rest.filter (specAddresses mols · i) := by
        simp [List.filter_cons, ha]
      rw [hf, List.getLast?_cons]
      cases hr : (rest.filter (specAddresses mols · i)).getLast? with
      | none => simp [ha]
      | some sp' => simp
    · have hf : (sp :: rest).filter (specAddresses mols · i) = rest.filter (specAddresses mols · i) := by
        simp [List.filter_cons, ha]
      rw [hf]
      simp only [ha, Bool.false_eq_true, if_false]

/-- `-start`: with consistent specifications the start dictionary is what the specifications select -/
theorem start_exact (mols : List Mol) (specs : List Spec) (st : List (Option Nat))
    (hcons : ∀ sp ∈ specs, consistentSpec mols sp) (h : findStart mols specs = .ok st) :
    st = specStart mols specs := by
  unfold findStart at h
  obtain ⟨hl, hs⟩ := start_fold mols specs (mols.map fun _ => none) st (by simp) hcons h
  apply List.ext_getElem?
  intro i
  unfold specStart
  rw [List.getElem?_map]
  cases hm : mols[i]? with
  | none =>
    have : i ≥ mols.length := by rw [List.getElem?_eq_none_iff] at hm; exact hm
    have hz : (mols.zipIdx)[i]? = none := by rw [List.getElem?_eq_none_iff]; simp; omega
    rw [hz, List.getElem?_eq_none (by omega)]
    rfl
  | some m =>
    have hlt : i < mols.length := (List.getElem?_eq_some_iff.mp hm).1
    have hz : (mols.zipIdx)[i]? = some (m, i) := by
      rw [List.getElem?_zipIdx]; simp [hm]
    rw [hz, hs i m hm]
    simp only [Option.map_some]
    cases (specs.filter (specAddresses mols · i)).getLast? with
    | none => simp [hlt]
    | some sp => rfl

/-! ### fixtures of the non-vacuity examples -/

def exampleMols : List Mol :=
  [⟨"A", [⟨0, 1, "RA", none⟩, ⟨1, 2, "RA", none⟩]⟩, ⟨"A", [⟨0, 1, "RA", none⟩, ⟨1, 2, "RA", none⟩]⟩,
   ⟨"L", [⟨0, 1, "RL", none⟩]⟩, ⟨"L", [⟨0, 1, "RL", none⟩]⟩, ⟨"L", [⟨0, 1, "RL", none⟩]⟩]

def examplePos : PosTable String := [((0, 2), "p"), ((1, 2), "q"), ((2, 0), "own")]

/-- `-lig A-RA#2:L` attached -/
def exampleAttached : Option (List Mol × List (Nat × Nat × Nat)) :=
  (ligDefs exampleMols [(⟨some "A", none, some "RA", some 2⟩, ⟨some "L", none, none, none⟩)]).toOption.bind
    fun defs => (attachAll exampleMols defs).toOption

end PolyplyVerif.Proofs.BuildFile
