import PolyplyVerif.Model.BuildFile

namespace PolyplyVerif.Proofs.BuildFile
open PolyplyVerif.BuildFile

end PolyplyVerif.Proofs.BuildFile
