/-
Lemmas for C04 about `Model/Supply.lean`: the consumption of the coordinate list residue by residue
(`consume_spec`), the engine index table with ignored molecules (`gndx_values`, `gndx_keys`), the frame of
the backmapping loop and the centre of geometry of a backmapped residue, and two consequences of the
frame lemma of the placement machine (Proofs/Walk.lean) for ignored molecules.
-/
import PolyplyVerif.Model.Supply
import PolyplyVerif.Proofs.Walk
import Mathlib.Tactic.Ring
import Mathlib.Tactic.FieldSimp
namespace PolyplyVerif.Supply
open PolyplyVerif

theorem expected_congr (skip : List String) (metaRes : Bool) (ps : List V3) (r : Res) {a b : Nat}
    (h : a = b ∨ (ps.length ≤ a ∧ ps.length ≤ b)) : expected skip metaRes ps r a = expected skip metaRes ps r b := by
  rcases h with rfl | ⟨ha, hb⟩
  · rfl
  · unfold expected
    have ha' : decide (ps.length ≤ a) = true := by simpa using ha
    have hb' : decide (ps.length ≤ b) = true := by simpa using hb
    simp [ha', hb']

theorem offset_zero (skip : List String) (metaRes : Bool) (rs : List Res) : offset skip metaRes rs 0 = 0 := by
  simp [offset]

theorem offset_succ (skip : List String) (metaRes : Bool) (r : Res) (rs : List Res) (i : Nat) :
    offset skip metaRes (r :: rs) (i + 1) =
      (if skip.contains r.resname then 0 else r.size metaRes) + offset skip metaRes rs i := by
  simp [offset]

theorem consume_spec (skip : List String) (metaRes : Bool) (ps : List V3) :
    ∀ (rs : List Res) (total : Nat) (outs : List ResOut), consume skip metaRes ps rs total = some outs →
      outs.length = rs.length ∧
      ∀ i r, rs[i]? = some r →
        outs[i]? = some (expected skip metaRes ps r (total + offset skip metaRes rs i)) := by
  intro rs
  induction rs with
  | nil =>
    intro total outs h
    simp [consume] at h
    subst h
    exact ⟨rfl, by intro i r hr; simp at hr⟩
  | cons r0 rs ih =>
    intro total outs h
    unfold consume at h
    split at h
    · -- skipped by name or no coordinates left
      rename_i hskip
      cases hrest : consume skip metaRes ps rs total with
      | none => simp [hrest] at h
      | some outs' =>
        simp [hrest] at h
        subst h
        obtain ⟨hlen, hall⟩ := ih total outs' hrest
        refine ⟨by simp [hlen], ?_⟩
        intro i r hr
        cases i with
        | zero =>
          simp at hr; subst hr
          simp only [List.getElem?_cons_zero, offset_zero, Nat.add_zero, expected]
          rw [if_pos hskip]
        | succ i =>
          simp at hr
          simp only [List.getElem?_cons_succ]
          rw [hall i r hr, offset_succ]
          apply congrArg
          apply expected_congr
          by_cases hname : skip.contains r0.resname = true
          · left; rw [if_pos hname]; omega
          · right
            have hex : ps.length ≤ total := by
              simp only [Bool.or_eq_true, decide_eq_true_eq] at hskip
              rcases hskip with h | h
              · exact absurd h hname
              · exact h
            constructor <;> omega
    · rename_i hskip
      have hns : skip.contains r0.resname = false := by
        cases h' : skip.contains r0.resname with
        | false => rfl
        | true => rw [h'] at hskip; simp at hskip
      have hlt : ¬ ps.length ≤ total := by
        intro h'; apply hskip; rw [hns]; simpa using h'
      have hcond : ¬ ((skip.contains r0.resname || decide (ps.length ≤ total)) = true) := hskip
      split at h
      · -- meta_mol resolution
        rename_i hmeta
        cases hrest : consume skip metaRes ps rs (total + 1) with
        | none => simp [hrest] at h
        | some outs' =>
          simp [hrest] at h
          subst h
          obtain ⟨hlen, hall⟩ := ih (total + 1) outs' hrest
          refine ⟨by simp [hlen], ?_⟩
          intro i r hr
          cases i with
          | zero =>
            simp at hr; subst hr
            simp only [List.getElem?_cons_zero, offset_zero, Nat.add_zero, expected]
            rw [if_neg hcond, if_pos hmeta]
            simp [List.getD]
          | succ i =>
            simp at hr
            simp only [List.getElem?_cons_succ]
            rw [hall i r hr, offset_succ]
            apply congrArg
            apply expected_congr
            left
            rw [hns]; simp only [Res.size, hmeta]; simp; omega
      · rename_i hmeta
        dsimp only at h
        split at h
        · rename_i hfit
          cases hrest : consume skip metaRes ps rs (total + r0.atoms.length) with
          | none => simp [hrest] at h
          | some outs' =>
            simp [hrest] at h
            subst h
            obtain ⟨hlen, hall⟩ := ih _ outs' hrest
            refine ⟨by simp [hlen], ?_⟩
            intro i r hr
            cases i with
            | zero =>
              simp at hr; subst hr
              simp only [List.getElem?_cons_zero, offset_zero, Nat.add_zero, expected]
              rw [if_neg hcond, if_neg hmeta]
            | succ i =>
              simp at hr
              simp only [List.getElem?_cons_succ]
              rw [hall i r hr, offset_succ]
              apply congrArg
              apply expected_congr
              left
              rw [hns]; simp only [Res.size, hmeta]; simp; omega
        · cases h


/-! ### index table -/

theorem gndx_values : ∀ (mols : List Walk.Mol) (c idx : Nat),
    (gndxTable mols c idx).map (·.2) = List.range' idx (gndxTable mols c idx).length := by
  intro mols
  induction mols with
  | nil => intro c idx; simp [gndxTable]
  | cons m ms ih =>
    intro c idx
    unfold gndxTable
    split
    · exact ih _ _
    · simp only [List.map_append, List.length_append, List.length_map, List.length_zipIdx, List.map_map]
      rw [ih, ← List.range'_append_1]
      congr 1
      have : (fun nk : Walk.Node × Nat => idx + nk.2) = (fun k => idx + k) ∘ Prod.snd := rfl
      show List.map (fun nk : Walk.Node × Nat => idx + nk.2) m.nodes.zipIdx = _
      rw [this, ← List.map_map, List.zipIdx_map_snd, List.map_add_range']
      simp

theorem gndx_keys : ∀ (mols : List Walk.Mol) (c idx : Nat) (j : Nat) (n : Walk.Node),
    (j, n) ∈ (gndxTable mols c idx).map (·.1) ↔
      c ≤ j ∧ ∃ m, mols[j - c]? = some m ∧ m.ignored = false ∧ n ∈ m.nodes := by
  intro mols
  induction mols with
  | nil => intro c idx j n; simp [gndxTable]
  | cons m ms ih =>
    intro c idx j n
    unfold gndxTable
    have shift : ∀ (P : Walk.Mol → Prop), (c + 1 ≤ j ∧ ∃ m', ms[j - (c + 1)]? = some m' ∧ P m') ↔
        (c < j ∧ ∃ m', (m :: ms)[j - c]? = some m' ∧ P m') := by
      intro P
      constructor
      · rintro ⟨h1, m', h2, h3⟩
        refine ⟨h1, m', ?_, h3⟩
        have : j - c = (j - (c + 1)) + 1 := by omega
        rw [this]; simpa using h2
      · rintro ⟨h1, m', h2, h3⟩
        refine ⟨h1, m', ?_, h3⟩
        have : j - c = (j - (c + 1)) + 1 := by omega
        rw [this] at h2; simpa using h2
    split
    · rename_i hig
      rw [ih, shift (fun m' => m'.ignored = false ∧ n ∈ m'.nodes)]
      constructor
      · rintro ⟨h1, h2⟩; exact ⟨by omega, h2⟩
      · rintro ⟨h1, m', h2, h3, h4⟩
        have hne : c ≠ j := by
          intro h; subst h; simp at h2; subst h2; rw [hig] at h3; cases h3
        exact ⟨by omega, m', h2, h3, h4⟩
    · rename_i hig
      simp only [List.map_append, List.mem_append, List.map_map]
      rw [ih, shift (fun m' => m'.ignored = false ∧ n ∈ m'.nodes)]
      constructor
      · rintro (h | ⟨h1, h2⟩)
        · obtain ⟨nk, hnk, heq⟩ := List.mem_map.1 h
          simp at heq
          obtain ⟨rfl, rfl⟩ := heq
          exact ⟨Nat.le_refl _, m, by simp, by simpa using hig, List.fst_mem_of_mem_zipIdx hnk⟩
        · exact ⟨by omega, h2⟩
      · rintro ⟨h1, m', h2, h3, h4⟩
        by_cases hcj : c = j
        · subst hcj
          simp at h2; subst h2
          left
          obtain ⟨k, hk⟩ := List.getElem?_of_mem h4
          exact List.mem_map.2 ⟨(n, k), List.mk_mem_zipIdx_iff_getElem?.2 hk, by simp⟩
        · right; exact ⟨by omega, m', h2, h3, h4⟩

theorem gndx_ge : ∀ (mols : List Walk.Mol) (c idx : Nat) (e : (Nat × Walk.Node) × Nat),
    e ∈ gndxTable mols c idx → idx ≤ e.2 := by
  intro mols c idx e he
  have hv := gndx_values mols c idx
  have : e.2 ∈ (gndxTable mols c idx).map (·.2) := List.mem_map.2 ⟨e, he, rfl⟩
  rw [hv] at this
  exact (List.mem_range'_1.1 this).1

/-- at the global index of every indexed residue the type table holds the type of that residue -/
theorem atype_aligned (nm : Nat → Walk.Node → String) : ∀ (mols : List Walk.Mol) (c idx : Nat)
    (e : (Nat × Walk.Node) × Nat), e ∈ gndxTable mols c idx →
    (atypeTable nm mols c)[e.2 - idx]? = some (nm e.1.1 e.1.2) := by
  intro mols
  induction mols with
  | nil => intro c idx e he; simp [gndxTable] at he
  | cons m ms ih =>
    intro c idx e he
    unfold gndxTable at he
    unfold atypeTable
    split at he
    · rename_i hig
      simp only [hig, if_true]
      exact ih _ _ e he
    · rename_i hig
      have hig' : m.ignored = false := by simpa using hig
      simp only [hig', Bool.false_eq_true, if_false]
      rcases List.mem_append.1 he with h | h
      · obtain ⟨nk, hnk, rfl⟩ := List.mem_map.1 h
        have hk := List.mem_zipIdx_iff_getElem?.1 hnk
        have hlt : nk.2 < m.nodes.length := (List.getElem?_eq_some_iff.1 hk).1
        simp only [Nat.add_sub_cancel_left]
        rw [List.getElem?_append_left (by simpa using hlt)]
        simp [List.getElem?_map, hk]
      · have hge := gndx_ge ms (c + 1) (idx + m.nodes.length) e h
        have := ih (c + 1) (idx + m.nodes.length) e h
        rw [List.getElem?_append_right (by simp; omega)]
        simp only [List.length_map]
        have heq : e.2 - idx - m.nodes.length = e.2 - (idx + m.nodes.length) := by omega
        rw [heq]; exact this

/-! ### backmapping frame -/

theorem placeRes_other (fudge : Rat) (r : BRes) (c : Coords) (a : Nat)
    (h : r.backmap = true → a ∉ r.atoms.map (·.1)) : placeRes fudge r c a = c a := by
  unfold placeRes
  split
  · rename_i hb
    have := h hb
    have hl : r.atoms.lookup a = none := by
      rw [List.lookup_eq_none_iff]
      intro p hp
      simp only [bne_iff_ne, ne_eq]
      intro hpa
      apply this
      exact List.mem_map.2 ⟨p, hp, hpa.symm⟩
    simp [hl]
  · rfl

theorem placeInit_other (fudge : Rat) (rs : List BRes) (c : Coords) (a : Nat)
    (h : ∀ r ∈ rs, r.backmap = true → a ∉ r.atoms.map (·.1)) : placeInit fudge rs c a = c a := by
  unfold placeInit
  induction rs generalizing c with
  | nil => rfl
  | cons r rs ih =>
    simp only [List.foldl_cons]
    rw [ih _ (fun r' hr' => h r' (List.mem_cons_of_mem _ hr'))]
    exact placeRes_other fudge r c a (h r (List.mem_cons_self))

theorem placeRes_own (fudge : Rat) (r : BRes) (c : Coords) (a : Nat) (v : V3) (hb : r.backmap = true)
    (hl : r.atoms.lookup a = some v) : placeRes fudge r c a = some (V3.add r.centre (V3.smul fudge v)) := by
  simp [placeRes, hb, hl]

/-- an atom of a backmapped residue ends at `centre + fudge • template vector`, provided no later
backmapped residue contains the same atom -/
theorem placeInit_own (fudge : Rat) (pre : List BRes) (r : BRes) (post : List BRes) (c : Coords) (a : Nat) (v : V3)
    (hb : r.backmap = true) (hl : r.atoms.lookup a = some v)
    (hpost : ∀ r' ∈ post, r'.backmap = true → a ∉ r'.atoms.map (·.1)) :
    placeInit fudge (pre ++ r :: post) c a = some (V3.add r.centre (V3.smul fudge v)) := by
  unfold placeInit
  rw [List.foldl_append, List.foldl_cons]
  have := placeInit_other fudge post (placeRes fudge r (List.foldl (fun acc r => placeRes fudge r acc) c pre)) a hpost
  unfold placeInit at this
  rw [this]
  exact placeRes_own fudge r _ a v hb hl

/-! ### centre of geometry of a backmapped residue -/

theorem sum_shift (c : V3) (f : Rat) (vs : List V3) :
    V3.sum (vs.map (fun v => V3.add c (V3.smul f v))) =
      V3.add (V3.smul (vs.length : Rat) c) (V3.smul f (V3.sum vs)) := by
  induction vs with
  | nil => simp [V3.sum, V3.add, V3.smul, V3.zero]
  | cons v vs ih =>
    simp only [List.map_cons, V3.sum, List.foldr_cons, List.length_cons] at ih ⊢
    rw [ih]
    simp only [V3.add, V3.smul, Nat.cast_succ]
    refine Prod.ext ?_ (Prod.ext ?_ ?_) <;> simp <;> ring

/-- the residue's atoms placed at `centre + fudge • v` have their centre of geometry exactly at
`centre` when the (oriented) template is centred (`Σ v = 0`) -/
theorem cog_placed (c : V3) (f : Rat) (vs : List V3) (hne : vs ≠ []) (hz : V3.sum vs = V3.zero) :
    cog (vs.map (fun v => V3.add c (V3.smul f v))) = c := by
  unfold cog
  rw [sum_shift, hz]
  have hn : (vs.length : Rat) ≠ 0 := by
    have : vs.length ≠ 0 := by intro h; exact hne (List.length_eq_zero_iff.1 h)
    exact_mod_cast this
  simp only [List.length_map, V3.add, V3.smul, V3.zero]
  refine Prod.ext ?_ (Prod.ext ?_ ?_) <;> simp <;> field_simp


/-! ### ignored molecules and the placement machine -/

open PolyplyVerif.Walk in
theorem run_todo_subset (cfg : Cfg) (mols : List Mol) (sched : List Bool) :
    ∀ (s : Sys), ∀ x ∈ (run cfg mols sched s).todo, x ∈ s.todo := by
  induction sched with
  | nil => intro s x hx; exact hx
  | cons b rest ih =>
    intro s x hx
    exact (step_frame cfg mols s b).2 x (ih _ x hx)

open PolyplyVerif.Walk in
theorem todo_subset_work (cfg : Cfg) (mols : List Mol) (sched : List Bool) :
    ∀ x ∈ (run cfg mols sched (init mols)).todo, x ∈ work mols := by
  intro x hx
  have := run_todo_subset cfg mols sched (init mols) x hx
  have hinit : (init mols).todo = work mols := (beginAttempt_eng mols _ _ _).2
  rwa [hinit] at this

open PolyplyVerif.Walk in
theorem work_not_ignored {mols : List Mol} {i : Nat} (hi : i ∈ work mols) :
    ∃ m, mols[i]? = some m ∧ m.ignored = false := by
  obtain ⟨m, hm, hnb⟩ := mem_work hi
  refine ⟨m, hm, ?_⟩
  unfold Mol.needsBuild at hnb
  cases hig : m.ignored with
  | false => rfl
  | true => simp [hig] at hnb

open PolyplyVerif.Walk in
theorem trial_head {mols : List Mol} {s : Sys} {i : Nat} {p : Option Node} {c : Node}
    (h : s.trial mols = some (i, p, c)) : i ∈ s.todo := by
  unfold Sys.trial at h
  split at h
  · rename_i i' rest _ htodo
    cases hm : mols[i']? with
    | none => simp [hm] at h
    | some m => simp [hm] at h; rw [htodo, ← h.1]; exact List.mem_cons_self
  · rename_i w i' rest _ htodo
    cases hm : mols[i']? with
    | none => simp [hm] at h
    | some m =>
      cases hp : m.path[w.step]? with
      | none => simp [hm, hp] at h
      | some e => simp [hm, hp] at h; rw [htodo, ← h.1]; exact List.mem_cons_self
  · cases h

end PolyplyVerif.Supply
