import PolyplyVerif.Model.Seq

namespace PolyplyVerif.Proofs.Seq
open PolyplyVerif PolyplyVerif.Seq

/-! ### A. linear builder -/

theorem specLinear_nodes_append (pre : List String) (nm : String) :
    (specLinear (pre ++ [nm])).nodes = (specLinear pre).nodes ++ [⟨pre.length, pre.length + 1, nm⟩] := by
  simp [specLinear, List.zipIdx_append]

theorem linear_no_edge (n : Nat) :
    (List.find? (fun e => e.joins n (n + 1)) ((List.range n).map fun i => (⟨i, i + 1, []⟩ : REdge))) = none := by
  rw [List.find?_eq_none]
  intro e he
  simp only [List.mem_map, List.mem_range] at he
  obtain ⟨i, hi, rfl⟩ := he
  simp [REdge.joins]
  omega

theorem addMonomer_step (pre : List String) (nm : String) :
    addMonomer (specLinear pre, pre.length) nm = (specLinear (pre ++ [nm]), (pre ++ [nm]).length) := by
  unfold addMonomer
  cases hlen : pre.length with
  | zero =>
    have : pre = [] := List.eq_nil_of_length_eq_zero hlen
    subst this
    simp [specLinear, RGraph.addNode]
  | succ k =>
    have hne : (k + 1 != 0) = true := by simp
    simp only [hne, if_true, List.length_append, List.length_singleton, hlen]
    have hnodes := specLinear_nodes_append pre nm
    simp only [hlen] at hnodes
    have hedge : (RGraph.addNode (specLinear pre) (k + 1) nm).hasEdge (k + 1 - 1) (k + 1) = false := by
      simp only [RGraph.hasEdge, RGraph.edge?, RGraph.addNode, specLinear, hlen, Nat.add_sub_cancel]
      rw [linear_no_edge k]; rfl
    simp only [RGraph.addEdge, hedge]
    simp only [RGraph.addNode, specLinear, hlen, Nat.add_sub_cancel, List.length_append, List.length_singleton] at hnodes ⊢
    simp [List.zipIdx_append, hlen, List.range_succ]

theorem addMonomer_fold (ns pre : List String) :
    ns.foldl addMonomer (specLinear pre, pre.length) = (specLinear (pre ++ ns), (pre ++ ns).length) := by
  induction ns generalizing pre with
  | nil => simp
  | cons n ns ih =>
    rw [List.foldl_cons, addMonomer_step, ih]
    simp

theorem foldl_flatMap' {α β σ} (f : α → List β) (g : σ → β → σ) (l : List α) (init : σ) :
    l.foldl (fun st a => (f a).foldl g st) init = (l.flatMap f).foldl g init := by
  induction l generalizing init with
  | nil => rfl
  | cons a l ih => simp [List.flatMap_cons, List.foldl_append, ih]

theorem foldl_max_resid (names : List String) (k m : Nat) :
    ((names.zipIdx k).map fun (p : String × Nat) => (⟨p.2, p.2 + 1, p.1⟩ : RNode)).foldl (fun m n => max m n.resid) m
      = if names.isEmpty then m else max m (k + names.length) := by
  induction names generalizing k m with
  | nil => simp
  | cons x xs ih =>
    simp only [List.zipIdx_cons, List.map_cons, List.foldl_cons, ih]
    cases xs with
    | nil => simp
    | cons y ys => simp; omega

theorem toMeta_linearGraph (names : List String) : toMeta (linearGraph names) = specLinear names := by
  have h := foldl_max_resid names 0 0
  unfold toMeta linearGraph specLinear
  simp only [List.map_map]
  congr 1
  · rw [show ((fun (n : SNode) => (⟨n.key, n.resid.getD (n.key + 1), n.resname⟩ : RNode)) ∘
          fun (x : String × Nat) => ({ key := x.2, resname := x.1, resid := some (x.2 + 1) } : SNode))
        = fun (p : String × Nat) => (⟨p.2, p.2 + 1, p.1⟩ : RNode) from rfl] at *
    rw [h]
    cases names <;> simp


/-! ### C. text -/

theorem splitOn_ne_nil (sep : Char) (t : Text) : splitOn sep t ≠ [] := by
  induction t with
  | nil => simp [splitOn]
  | cons c cs ih =>
    unfold splitOn
    split
    · simp
    · split <;> simp

theorem splitOn_append_sep (sep : Char) (t rest : Text) (h : sep ∉ t) :
    splitOn sep (t ++ sep :: rest) = t :: splitOn sep rest := by
  induction t with
  | nil => simp [splitOn]
  | cons c cs ih =>
    have hc : c ≠ sep := fun e => h (by simp [e])
    have hcs : sep ∉ cs := fun e => h (by simp [e])
    simp only [List.cons_append, splitOn, hc, if_false, ih hcs]

theorem splitOn_noSep (sep : Char) (t : Text) (h : sep ∉ t) : splitOn sep t = [t] := by
  induction t with
  | nil => simp [splitOn]
  | cons c cs ih =>
    have hc : c ≠ sep := fun e => h (by simp [e])
    have hcs : sep ∉ cs := fun e => h (by simp [e])
    simp only [splitOn, hc, if_false, ih hcs]

theorem splitOn_joinWith (sep : Char) (ts : List Text) (hne : ts ≠ []) (h : ∀ t ∈ ts, sep ∉ t) :
    splitOn sep (joinWith sep ts) = ts := by
  induction ts with
  | nil => exact absurd rfl hne
  | cons t ts ih =>
    cases ts with
    | nil => simpa [joinWith] using splitOn_noSep sep t (h t (by simp))
    | cons t' rest =>
      simp only [joinWith]
      rw [splitOn_append_sep sep t _ (h t (by simp)), ih (by simp) (fun x hx => h x (by simp [hx]))]

theorem splitOn_unlines (lines : List Text) (h : ∀ l ∈ lines, '\n' ∉ l) :
    splitOn '\n' (unlines lines) = lines ++ [[]] := by
  induction lines with
  | nil => simp [unlines, splitOn]
  | cons l ls ih =>
    have : unlines (l :: ls) = l ++ '\n' :: unlines ls := by simp [unlines]
    rw [this, splitOn_append_sep _ _ _ (h l (by simp)), ih (fun x hx => h x (by simp [hx]))]
    simp

theorem readLines_unlines (lines : List Text) (h : ∀ l ∈ lines, '\n' ∉ l) :
    readLines (unlines lines) = lines := by
  simp [readLines, splitOn_unlines lines h]

theorem readLines_joinWith (lines : List Text) (h : ∀ l ∈ lines, '\n' ∉ l)
    (hl : ∀ last, lines.getLast? = some last → last ≠ []) : readLines (joinWith '\n' lines) = lines := by
  cases hn : lines with
  | nil => simp [joinWith, readLines, splitOn]
  | cons a t =>
    rw [← hn]
    have hne : lines ≠ [] := by rw [hn]; simp
    unfold readLines
    rw [splitOn_joinWith '\n' lines hne h]
    have : lines.getLast? ≠ some [] := fun e => hl [] e rfl
    simp [this]

theorem readLines_renderLines (final : Bool) (lines : List Text) (h : ∀ l ∈ lines, '\n' ∉ l)
    (hl : final = false → ∀ last, lines.getLast? = some last → last ≠ []) :
    readLines (renderLines final lines) = lines := by
  cases final with
  | true => exact readLines_unlines lines h
  | false => exact readLines_joinWith lines h (hl rfl)

theorem stripLeft_of_head (t : Text) (h : ∀ c, t.head? = some c → isSpace c = false) : stripLeft t = t := by
  cases t with
  | nil => rfl
  | cons c cs => simp [stripLeft, h c rfl]

theorem stripRight_of_last (t : Text) (h : ∀ c, t.getLast? = some c → isSpace c = false) : stripRight t = t := by
  unfold stripRight
  have := stripLeft_of_head t.reverse (by simpa using h)
  unfold stripLeft at this
  rw [this, List.reverse_reverse]

theorem strip_of_ends (t : Text) (h1 : ∀ c, t.head? = some c → isSpace c = false)
    (h2 : ∀ c, t.getLast? = some c → isSpace c = false) : strip t = t := by
  unfold strip
  rw [stripLeft_of_head t h1, stripRight_of_last t h2]

theorem strip_noSpace (t : Text) (h : ∀ c ∈ t, isSpace c = false) : strip t = t :=
  strip_of_ends t (fun c hc => h c (List.mem_of_mem_head? hc)) (fun c hc => h c (List.mem_of_getLast? hc))


/-! ### D. `.txt` -/

theorem mem_joinWith (sep : Char) (ts : List Text) (c : Char) (h : c ∈ joinWith sep ts) :
    c = sep ∨ ∃ t ∈ ts, c ∈ t := by
  induction ts with
  | nil => simp [joinWith] at h
  | cons t ts ih =>
    cases ts with
    | nil => simp only [joinWith] at h; exact Or.inr ⟨t, by simp, h⟩
    | cons t' rest =>
      simp only [joinWith, List.mem_append, List.mem_cons] at h
      rcases h with h | h | h
      · exact Or.inr ⟨t, by simp, h⟩
      · exact Or.inl h
      · rcases ih h with h | ⟨x, hx, hc⟩
        · exact Or.inl h
        · exact Or.inr ⟨x, by simp [hx], hc⟩

theorem head?_joinWith (sep : Char) (t : Text) (ts : List Text) (ht : t ≠ []) :
    (joinWith sep (t :: ts)).head? = t.head? := by
  cases ts with
  | nil => rfl
  | cons t' rest => cases t with
    | nil => exact absurd rfl ht
    | cons c cs => rfl

theorem joinWith_ne_nil (sep : Char) (t : Text) (ts : List Text) (ht : t ≠ []) : joinWith sep (t :: ts) ≠ [] := by
  intro e
  have := head?_joinWith sep t ts ht
  rw [e] at this
  cases t with
  | nil => exact ht rfl
  | cons c cs => simp at this

theorem getLast?_joinWith (sep : Char) (ts : List Text) (hne : ts ≠ []) (h : ∀ t ∈ ts, t ≠ []) :
    (joinWith sep ts).getLast? = (ts.getLast hne).getLast? := by
  induction ts with
  | nil => exact absurd rfl hne
  | cons t ts ih =>
    cases ts with
    | nil => rfl
    | cons t' rest =>
      have hj : joinWith sep (t' :: rest) ≠ [] := joinWith_ne_nil sep t' rest (h t' (by simp))
      have ih' := ih (by simp) (fun x hx => h x (by simp [hx]))
      simp only [joinWith]
      cases hjj : joinWith sep (t' :: rest) with
      | nil => exact absurd hjj hj
      | cons x xs =>
        rw [hjj] at ih'
        simp only [List.getLast_cons_cons]
        rw [← ih']
        simp [List.getLast?_append, List.getLast?_cons]

theorem txt_line (ch : List String) (hne : ch ≠ []) (ht : ∀ s ∈ ch, GoodToken s) :
    (splitOn ' ' (strip (joinWith ' ' (ch.map String.toList)))).map (fun tok => String.ofList (strip tok)) = ch := by
  have hne' : ch.map String.toList ≠ [] := by simpa using hne
  have hall : ∀ t ∈ ch.map String.toList, t ≠ [] := by
    intro t htm
    obtain ⟨s, hs, rfl⟩ := List.mem_map.mp htm
    exact (ht s hs).1
  have hsp : ∀ t ∈ ch.map String.toList, ∀ c ∈ t, isSpace c = false := by
    intro t htm
    obtain ⟨s, hs, rfl⟩ := List.mem_map.mp htm
    exact (ht s hs).2
  have hstrip : strip (joinWith ' ' (ch.map String.toList)) = joinWith ' ' (ch.map String.toList) := by
    apply strip_of_ends
    · intro c hc
      cases hch : ch.map String.toList with
      | nil => exact absurd hch hne'
      | cons t ts =>
        rw [hch, head?_joinWith _ _ _ (hall t (by simp [hch]))] at hc
        exact hsp t (by simp [hch]) c (List.mem_of_mem_head? hc)
    · intro c hc
      rw [getLast?_joinWith _ _ hne' hall] at hc
      exact hsp _ (List.getLast_mem _) c (List.mem_of_getLast? hc)
  rw [hstrip, splitOn_joinWith ' ' _ hne']
  · rw [List.map_map]
    conv => rhs; rw [← List.map_id ch]
    apply List.map_congr_left
    intro s hs
    simp [strip_noSpace _ (ht s hs).2, String.ofList_toList]
  · intro t htm hmem
    have := hsp t htm ' ' hmem
    simp [isSpace] at this

theorem mem_txt_line (ch : List String) (ht : ∀ s ∈ ch, GoodToken s) :
    '\n' ∉ joinWith ' ' (ch.map String.toList) := by
  intro h
  rcases mem_joinWith _ _ _ h with h | ⟨t, htm, hc⟩
  · exact absurd h (by decide)
  · obtain ⟨s, hs, rfl⟩ := List.mem_map.mp htm
    have := (ht s hs).2 _ hc
    simp [isSpace] at this

theorem txt_line_ne_nil (ch : List String) (hne : ch ≠ []) (ht : ∀ s ∈ ch, GoodToken s) :
    joinWith ' ' (ch.map String.toList) ≠ [] := by
  cases ch with
  | nil => exact absurd rfl hne
  | cons s rest => exact joinWith_ne_nil ' ' s.toList _ (ht s (by simp)).1

theorem parseTxt_render (final : Bool) (chunks : List (List String)) (hc : ∀ ch ∈ chunks, ch ≠ [])
    (ht : ∀ ch ∈ chunks, ∀ s ∈ ch, GoodToken s) :
    parseTxt (renderTxt final chunks) = linearGraph chunks.flatten := by
  unfold parseTxt renderTxt
  rw [readLines_renderLines]
  · congr 1
    rw [List.flatMap_map]
    induction chunks with
    | nil => rfl
    | cons ch rest ih =>
      rw [List.flatMap_cons, List.flatten_cons, txt_line ch (hc ch (by simp)) (ht ch (by simp)),
        ih (fun x hx => hc x (by simp [hx])) (fun x hx => ht x (by simp [hx]))]
  · intro l hl
    obtain ⟨ch, hch, rfl⟩ := List.mem_map.mp hl
    exact mem_txt_line ch (ht ch hch)
  · intro _ last hlast
    have hm := List.mem_of_getLast? hlast
    obtain ⟨ch, hch, rfl⟩ := List.mem_map.mp hm
    exact txt_line_ne_nil ch (hc ch hch) (ht ch hch)

/-! ### E. one-letter files -/

theorem translate_flagsOf (T : Tabs) (a : Alphabet) (c : Char) :
    translate T (flagsOf a) c = lookup1 (a.table T) c := by
  cases a <;> simp only [translate, flagsOf, Alphabet.table, Bool.true_and, Bool.false_and]
  · cases h : lookup1 T.dna c <;> simp
  · cases h : lookup1 T.rna c <;> simp
  · cases h : lookup1 T.aa c <;> simp

theorem plainMonomers_spec (T : Tabs) (a : Alphabet) (lines : List Text) :
    plainMonomers T (flagsOf a) lines = specNames T a false (lines.flatMap strip) := by
  unfold plainMonomers specNames
  have : (fun c => translate T (flagsOf a) c) = lookup1 (a.table T) := funext (translate_flagsOf T a)
  rw [show translate T (flagsOf a) = lookup1 (a.table T) from this]
  cases (lines.flatMap strip).mapM (lookup1 (a.table T)) with
  | none => rfl
  | some names =>
    cases a <;> cases names <;> simp [flagsOf, Alphabet.nucleic, suffixTermini]

theorem parsePlain_spec (T : Tabs) (a : Alphabet) (lines : List Text) :
    (parsePlain T (flagsOf a) lines).map toMeta = specSeqFile T a false (lines.flatMap strip) := by
  unfold parsePlain specSeqFile
  rw [plainMonomers_spec]
  cases specNames T a false (lines.flatMap strip) with
  | none => rfl
  | some names => simp [toMeta_linearGraph]

theorem flatMap_strip_clean (chunks : List Text) (h : ∀ ch ∈ chunks, ∀ c ∈ ch, isSpace c = false) :
    chunks.flatMap strip = chunks.flatten := by
  induction chunks with
  | nil => rfl
  | cons ch rest ih =>
    rw [List.flatMap_cons, List.flatten_cons, strip_noSpace ch (h ch (by simp)), ih (fun x hx => h x (by simp [hx]))]

theorem takeWhile_all {α} (p : α → Bool) (l : List α) (h : ∀ x ∈ l, p x = true) : l.takeWhile p = l := by
  induction l with
  | nil => rfl
  | cons x xs ih => simp [h x (by simp), ih (fun y hy => h y (by simp [hy]))]

theorem parseFasta_render (T : Tabs) (a : Alphabet) (final : Bool) (header : Text) (chunks : List Text)
    (hh : '\n' ∉ header) (hid : identify [header] = some (flagsOf a))
    (hc : ∀ ch ∈ chunks, ∀ c ∈ ch, isSpace c = false ∧ c ≠ '>')
    (hf : final = false → header ≠ [] ∧ ∀ ch ∈ chunks, ch ≠ []) :
    (parseFasta T (renderFasta final header chunks)).map toMeta = specSeqFile T a false chunks.flatten := by
  unfold parseFasta renderFasta
  rw [readLines_renderLines]
  · simp only [hid, Option.bind_some]
    rw [takeWhile_all]
    · rw [parsePlain_spec, flatMap_strip_clean _ (fun ch hch c hcc => (hc ch hch c hcc).1)]
    · intro ch hch
      simp only [Bool.not_eq_true', List.contains_eq_mem, decide_eq_false_iff_not]
      exact fun hm => (hc ch hch _ hm).2 rfl
  · intro l hl
    rcases List.mem_cons.mp hl with rfl | hl
    · exact hh
    · intro hm
      have := (hc l hl _ hm).1
      simp [isSpace] at this
  · intro hfin last hlast
    have hm := List.mem_of_getLast? hlast
    rcases List.mem_cons.mp hm with rfl | hm
    · exact (hf hfin).1
    · exact (hf hfin).2 last hm

/-! ### F. circular sequences -/

theorem dropLastChar_append (s : String) (c : Char) : dropLastChar (s ++ String.singleton c) = s := by
  unfold dropLastChar
  rw [String.toList_append]
  simp [String.ofList_toList]

theorem dropLastChar_5 (s : String) : dropLastChar (s ++ "5") = s := dropLastChar_append s '5'
theorem dropLastChar_3 (s : String) : dropLastChar (s ++ "3") = s := dropLastChar_append s '3'

def nodesOf (l : List String) (j : Nat) : List SNode :=
  (l.zipIdx j).map fun (nm, i) => { key := i, resname := nm, resid := some (i + 1) }

theorem linearGraph_nodes (l : List String) : (linearGraph l).nodes = nodesOf l 0 := rfl

theorem modify_nodesOf (l : List String) (j k : Nat) (f : String → String) :
    (nodesOf l j).map (fun n => if n.key == k then { n with resname := f n.resname } else n)
      = nodesOf (if k < j then l else l.modify (k - j) f) j := by
  induction l generalizing j with
  | nil => simp [nodesOf]
  | cons x xs ih =>
    have ih' := ih (j + 1)
    simp only [nodesOf, List.zipIdx_cons, List.map_cons] at ih' ⊢
    rw [ih']
    by_cases h1 : k < j
    · have : k < j + 1 := by omega
      have hne : (j == k) = false := by simp; omega
      simp [h1, this, hne]
    · by_cases h2 : k = j
      · subst h2
        simp
      · have h3 : ¬ k < j + 1 := by omega
        have hne : (j == k) = false := by simp; omega
        have : k - j = (k - (j + 1)) + 1 := by omega
        simp [h1, h3, hne, this]

theorem modifyLast_eq_modify (f : String → String) (l : List String) :
    l.modify (l.length - 1) f = modifyLast f l := by
  induction l with
  | nil => rfl
  | cons x xs ih =>
    cases xs with
    | nil => rfl
    | cons y ys =>
      simp only [modifyLast, List.length_cons] at ih ⊢
      rw [← ih]
      simp

theorem modifyLast_cons_ne (f : String → String) (x : String) (l : List String) (h : l ≠ []) :
    modifyLast f (x :: l) = x :: modifyLast f l := by
  cases l with
  | nil => exact absurd rfl h
  | cons y ys => rfl

theorem modifyLast_ne_nil (f : String → String) (l : List String) (h : l ≠ []) : modifyLast f l ≠ [] := by
  cases l with
  | nil => exact absurd rfl h
  | cons y ys => cases ys <;> simp [modifyLast]

theorem modifyLast_comp (f g : String → String) (l : List String) :
    modifyLast g (modifyLast f l) = modifyLast (g ∘ f) l := by
  induction l with
  | nil => rfl
  | cons x xs ih =>
    cases xs with
    | nil => rfl
    | cons y ys =>
      rw [modifyLast_cons_ne f x _ (by simp), modifyLast_cons_ne (g ∘ f) x _ (by simp),
        modifyLast_cons_ne g x _ (modifyLast_ne_nil f _ (by simp)), ih]

theorem modifyLast_id (f : String → String) (hf : ∀ s, f s = s) (l : List String) : modifyLast f l = l := by
  induction l with
  | nil => rfl
  | cons x xs ih =>
    cases xs with
    | nil => simp [modifyLast, hf]
    | cons y ys => simp only [modifyLast] at ih ⊢; rw [ih]

theorem modifyLast_length (f : String → String) (l : List String) : (modifyLast f l).length = l.length := by
  rw [← modifyLast_eq_modify]; simp

/-- removing the suffixes at positions `0` and `n-1` undoes `monomers[0] += "5"; monomers[-1] += "3"` -/
theorem unsuffix (names : List String) :
    ((modifyLast (· ++ "3") (names.modifyHead (· ++ "5"))).modify 0 dropLastChar).modify (names.length - 1) dropLastChar
      = names := by
  cases names with
  | nil => rfl
  | cons x xs =>
    cases xs with
    | nil => simp [modifyLast, dropLastChar_5, dropLastChar_3]
    | cons y ys =>
      simp only [List.modifyHead_cons, modifyLast, List.length_cons]
      have h1 : ((x ++ "5") :: modifyLast (· ++ "3") (y :: ys)).modify 0 dropLastChar
          = x :: modifyLast (· ++ "3") (y :: ys) := by simp [dropLastChar_5]
      rw [h1]
      have h2 : ys.length + 1 + 1 - 1 = (ys.length + 1 - 1) + 1 := by omega
      rw [h2, List.modify_succ_cons]
      have h3 : ys.length + 1 - 1 = (modifyLast (· ++ "3") (y :: ys)).length - 1 := by
        rw [modifyLast_length]; simp
      rw [h3, modifyLast_eq_modify, modifyLast_comp, modifyLast_id]
      intro s
      simp [dropLastChar_3]


def linEdges (n : Nat) : List REdge := (List.range (n - 1)).map fun i => ⟨i, i + 1, []⟩

/-- the edges of a circular sequence of `n ≥ 1` residues as the specification states them -/
def circEdges (n : Nat) : List REdge :=
  if n ≤ 2 then (if n = 1 then [⟨0, 0, [("linktype", "circle")]⟩] else [⟨0, 1, [("linktype", "circle")]⟩])
  else linEdges n ++ [⟨0, n - 1, [("linktype", "circle")]⟩]

theorem close_edges (nodes : List SNode) (n : Nat) (hn : 1 ≤ n) :
    (((⟨nodes, linEdges n⟩ : SGraph).addEdge 0 (n - 1)).setEdgeAttr 0 (n - 1) "linktype" "circle").edges
      = circEdges n := by
  match n, hn with
  | 1, _ => rfl
  | 2, _ => rfl
  | m + 3, _ =>
    have h32 : m + 3 - 1 = m + 2 := rfl
    rw [h32]
    have hno : ∀ e ∈ linEdges (m + 3), e.joins 0 (m + 2) = false := by
      intro e he
      simp only [linEdges, List.mem_map, List.mem_range] at he
      obtain ⟨i, hi, rfl⟩ := he
      simp [REdge.joins]
      omega
    have hhas : (⟨nodes, linEdges (m + 3)⟩ : SGraph).hasEdge 0 (m + 2) = false := by
      simp only [SGraph.hasEdge, List.any_eq_false]
      intro e he
      rw [hno e he]; simp
    have hmap : (linEdges (m + 3)).map (fun e => if e.joins 0 (m + 2) = true then { e with attrs := e.attrs.set "linktype" "circle" } else e)
        = linEdges (m + 3) := by
      conv => rhs; rw [← List.map_id (linEdges (m + 3))]
      apply List.map_congr_left
      intro e he
      rw [hno e he]; simp
    have hc : circEdges (m + 3) = linEdges (m + 3) ++ [⟨0, m + 2, [("linktype", "circle")]⟩] := by
      simp [circEdges]
    rw [hc]
    simp only [SGraph.addEdge, hhas, Bool.false_eq_true, if_false, SGraph.setEdgeAttr]
    rw [List.map_append, hmap]
    simp [REdge.joins, Attrs.set]

theorem closeCircle_nodes_edges (f : Flags) (l : List String) (hl : l ≠ []) :
    closeCircle f (linearGraph l) =
      some ⟨if f.dna || f.rna then nodesOf ((l.modify 0 dropLastChar).modify (l.length - 1) dropLastChar) 0 else nodesOf l 0,
            circEdges l.length⟩ := by
  have hlen : (linearGraph l).nodes.length = l.length := by simp [linearGraph]
  have hpos : 1 ≤ l.length := by cases l with
    | nil => exact absurd rfl hl
    | cons _ _ => simp
  have hne : ¬ l.length = 0 := by omega
  have hg : linearGraph l = ⟨nodesOf l 0, linEdges l.length⟩ := rfl
  have hE := close_edges (nodesOf l 0) l.length hpos
  have hclosed : ((⟨nodesOf l 0, linEdges l.length⟩ : SGraph).addEdge 0 (l.length - 1)).setEdgeAttr 0 (l.length - 1) "linktype" "circle"
      = ⟨nodesOf l 0, circEdges l.length⟩ := by
    rw [← hE]
    simp only [SGraph.addEdge, SGraph.setEdgeAttr]
    split <;> rfl
  unfold closeCircle
  simp only [hlen, hne, if_false]
  rw [hg, hclosed]
  by_cases hf : (f.dna || f.rna) = true
  · simp only [hf, if_true]
    simp only [SGraph.modifyNode, modify_nodesOf, Nat.not_lt_zero, if_false, Nat.sub_zero]
  · simp only [hf]
    simp

theorem toMeta_nodesOf (names : List String) (E : List REdge) :
    toMeta ⟨nodesOf names 0, E⟩ = { specLinear names with edges := E } := by
  have h := toMeta_linearGraph names
  have hg : linearGraph names = ⟨nodesOf names 0, linEdges names.length⟩ := rfl
  rw [hg] at h
  unfold toMeta at h ⊢
  simp only at h ⊢
  rw [← h]

theorem specSeqFile_circular (T : Tabs) (a : Alphabet) (letters : List Char) :
    specSeqFile T a true letters =
      (specNames T a true letters).map fun names => { specLinear names with edges := circEdges names.length } := by
  unfold specSeqFile
  cases specNames T a true letters with
  | none => rfl
  | some names =>
    simp only [Option.map_some, Bool.not_true, Bool.false_eq_true, if_false, circEdges]
    split <;> rfl

theorem parsePlain_circular (T : Tabs) (a : Alphabet) (lines : List Text) :
    ((parsePlain T (flagsOf a) lines).bind (closeCircle (flagsOf a))).map toMeta
      = specSeqFile T a true (lines.flatMap strip) := by
  rw [specSeqFile_circular]
  unfold parsePlain
  rw [plainMonomers_spec]
  unfold specNames
  cases (lines.flatMap strip).mapM (lookup1 (a.table T)) with
  | none => rfl
  | some names =>
    cases names with
    | nil =>
      cases a <;> simp [Alphabet.nucleic, closeCircle, linearGraph]
    | cons x xs =>
      have hne : (x :: xs) ≠ [] := by simp
      cases a
      · simp only [Option.bind_some, List.isEmpty_cons, Bool.false_eq_true, if_false, Alphabet.nucleic, Bool.not_false,
          Bool.and_self, if_true, Option.map_some, Bool.not_true, Bool.and_false]
        rw [closeCircle_nodes_edges _ _ (modifyLast_ne_nil _ _ (by simp))]
        simp only [flagsOf, Bool.or_false, if_true, Option.map_some, modifyLast_length, List.length_modifyHead]
        rw [unsuffix (x :: xs), toMeta_nodesOf]
      · simp only [Option.bind_some, List.isEmpty_cons, Bool.false_eq_true, if_false, Alphabet.nucleic, Bool.not_false,
          Bool.and_self, if_true, Option.map_some, Bool.not_true, Bool.and_false]
        rw [closeCircle_nodes_edges _ _ (modifyLast_ne_nil _ _ (by simp))]
        simp only [flagsOf, Bool.false_or, if_true, Option.map_some, modifyLast_length, List.length_modifyHead]
        rw [unsuffix (x :: xs), toMeta_nodesOf]
      · simp only [Option.bind_some, List.isEmpty_cons, Bool.false_eq_true, if_false, Alphabet.nucleic,
          Bool.false_and, Option.map_some, Bool.not_true, Bool.and_false]
        rw [closeCircle_nodes_edges _ _ hne]
        simp only [flagsOf, Bool.or_false, Bool.false_eq_true, if_false, Option.map_some]
        rw [toMeta_nodesOf]


/-! ### G. balanced trees -/

theorem treeLoop_nil (n r fuel next : Nat) : treeLoop n r fuel next [] = [] := by
  cases fuel <;> rfl

theorem treeLoop_spec (n r : Nat) (hr : 1 ≤ r) (fuel : Nat) : ∀ s, n - s ≤ fuel →
    treeLoop n r fuel (min n (r * s + 1)) (List.range' s (min n (r * s + 1) - s))
      = (List.range' (min n (r * s + 1)) (n - min n (r * s + 1))).map (fun j => ((j - 1) / r, j)) := by
  induction fuel with
  | zero =>
    intro s hs
    have hns : n ≤ s := by omega
    have : min n (r * s + 1) = n := by
      have : s ≤ r * s := Nat.le_mul_of_pos_left s hr
      omega
    simp [this, treeLoop]
  | succ fuel ih =>
    intro s hs
    have hrs : s ≤ r * s := Nat.le_mul_of_pos_left s hr
    by_cases hns : n ≤ s
    · have : min n (r * s + 1) = n := by omega
      have h0 : n - s = 0 := by omega
      simp [this, h0, treeLoop_nil]
    · have hlt : s < n := by omega
      generalize hp : r * s = p at *
      have hnext : s < min n (p + 1) := by omega
      obtain ⟨m, hm⟩ : ∃ m, min n (p + 1) - s = m + 1 := ⟨min n (p + 1) - s - 1, by omega⟩
      rw [hm, List.range'_succ]
      simp only [treeLoop, List.length_range']
      have hp' : r * (s + 1) = p + r := by rw [Nat.mul_succ, hp]
      generalize hk : min r (n - min n (p + 1)) = k
      have hnext' : min n (p + 1) + k = min n (r * (s + 1) + 1) := by
        rw [hp']; omega
      have hps : List.range' (s + 1) m ++ List.range' (min n (p + 1)) k
          = List.range' (s + 1) (min n (r * (s + 1) + 1) - (s + 1)) := by
        have : min n (p + 1) = (s + 1) + m := by omega
        rw [this, List.range'_append_1]
        congr 1
        rw [hp']; omega
      rw [hnext', hps, ih (s + 1) (by omega)]
      have hsplit : n - min n (p + 1) = k + (n - min n (r * (s + 1) + 1)) := by
        rw [hp']; omega
      rw [hsplit, ← List.range'_append_1, List.map_append, hnext']
      congr 1
      apply List.map_congr_left
      intro j hj
      simp only [List.mem_range'_1] at hj
      have hk0 : 0 < k := by omega
      have hmin : min n (p + 1) = p + 1 := by omega
      have : (j - 1) / r = s := by
        apply Nat.div_eq_of_lt_le
        · rw [Nat.mul_comm, hp]; omega
        · rw [Nat.succ_mul, Nat.mul_comm, hp]; omega
      rw [this]

theorem treeEdges_spec (n r : Nat) (hr : 1 ≤ r) : treeEdges n r = specTreeEdges n r := by
  unfold treeEdges specTreeEdges
  by_cases hn : n = 0
  · simp [hn]
  · simp only [hn, if_false]
    have h := treeLoop_spec n r hr n 0 (by omega)
    have h1 : min n (r * 0 + 1) = 1 := by simp; omega
    rw [h1] at h
    have h2 : List.range' 0 (1 - 0) = [0] := rfl
    rw [h2] at h
    rw [h, List.range'_eq_map_range, List.map_map]
    apply List.map_congr_left
    intro j _
    simp [Nat.add_comm]

theorem treeEdges_zero (n : Nat) : treeEdges n 0 = [] := by
  unfold treeEdges
  split
  · rfl
  · cases n with
    | zero => rfl
    | succ k => simp [treeLoop, treeLoop_nil]

theorem treeSize_zero_le (levels : Nat) : treeSize 0 levels ≤ 1 := by
  cases levels <;> simp [treeSize]

/-- networkx computes the size as `(1 - r^(h+1)) // (1 - r)` for `r ≠ 1` and `h + 1` for `r = 1` -/
theorem treeSize_geom (r levels : Nat) (hr : 1 ≤ r) : treeSize r levels * (r - 1) + 1 = r ^ levels := by
  obtain ⟨q, rfl⟩ : ∃ q, r = q + 1 := ⟨r - 1, by omega⟩
  induction levels with
  | zero => simp [treeSize]
  | succ l ih =>
    simp only [treeSize, Nat.add_sub_cancel, Nat.pow_succ] at ih ⊢
    rw [← ih]
    grind

theorem treeSize_one (levels : Nat) : treeSize 1 levels = levels := by
  induction levels with
  | zero => rfl
  | succ l ih => simp [treeSize, ih]; omega


/-! ### H. macro sequences -/

theorem rev_induction {α} {P : List α → Prop} (h0 : P []) (h1 : ∀ l a, P l → P (l ++ [a])) : ∀ l, P l := by
  intro l
  rw [← List.reverse_reverse l]
  induction l.reverse with
  | nil => exact h0
  | cons a t ih => rw [List.reverse_cons]; exact h1 _ _ ih

theorem unionBlocks_append (bs : List Block) (b : Block) :
    unionBlocks (bs ++ [b]) = unionBlock (unionBlocks bs) bs.length b := by
  simp [unionBlocks, List.zipIdx_append, List.foldl_append]

theorem offset_append_le (bs : List Block) (b : Block) (k : Nat) (hk : k ≤ bs.length) :
    offset (bs ++ [b]) k = offset bs k := by
  unfold offset
  rw [List.take_append_of_le_length hk]

theorem offset_append_full (bs : List Block) (b : Block) :
    offset (bs ++ [b]) (bs.length + 1) = offset bs bs.length + b.names.length := by
  unfold offset
  have : (bs ++ [b]).take (bs.length + 1) = bs ++ [b] := by
    apply List.take_of_length_le; simp
  rw [this, List.take_length]
  simp

theorem mem_zipIdx_lt {α} (l : List α) (x : α) (k : Nat) (h : (x, k) ∈ l.zipIdx) : k < l.length := by
  have := List.mem_zipIdx h
  omega

theorem flatMap_congr' {α β} (l : List α) (f g : α → List β) (h : ∀ x ∈ l, f x = g x) : l.flatMap f = l.flatMap g := by
  induction l with
  | nil => rfl
  | cons a t ih =>
    rw [List.flatMap_cons, List.flatMap_cons, h a (by simp), ih (fun x hx => h x (by simp [hx]))]

theorem specUnion_append (bs : List Block) (b : Block) (hlen : (specUnion bs).nodes.length = offset bs bs.length) :
    specUnion (bs ++ [b]) = unionBlock (specUnion bs) bs.length b := by
  unfold unionBlock
  rw [hlen]
  unfold specUnion
  simp only [List.zipIdx_append, List.flatMap_append, List.zipIdx_cons, List.zipIdx_nil, List.flatMap_cons,
    List.flatMap_nil, List.append_nil, Nat.zero_add]
  rw [offset_append_le bs b bs.length (Nat.le_refl _)]
  congr 1
  · congr 1
    apply flatMap_congr'
    intro ⟨x, k⟩ hx
    have hk := mem_zipIdx_lt bs x k hx
    simp only
    rw [offset_append_le bs b k (by omega)]
  · congr 1
    apply flatMap_congr'
    intro ⟨x, k⟩ hx
    have hk := mem_zipIdx_lt bs x k hx
    simp only
    rw [offset_append_le bs b k (by omega)]

theorem unionBlocks_spec_aux (bs : List Block) :
    unionBlocks bs = specUnion bs ∧ (specUnion bs).nodes.length = offset bs bs.length := by
  induction bs using rev_induction with
  | h0 => exact ⟨rfl, rfl⟩
  | h1 bs b ih =>
    obtain ⟨ih1, ih2⟩ := ih
    have hs := specUnion_append bs b ih2
    refine ⟨by rw [unionBlocks_append, ih1, hs], ?_⟩
    rw [hs]
    simp only [unionBlock, List.length_append, List.length_map, List.length_zipIdx, ih2, List.length_singleton]
    rw [offset_append_full]

theorem unionBlocks_spec (bs : List Block) : unionBlocks bs = specUnion bs := (unionBlocks_spec_aux bs).1

theorem map_zipIdx_snd {α} (l : List α) (off j : Nat) :
    (l.zipIdx j).map (fun p => off + p.2) = List.range' (off + j) l.length := by
  induction l generalizing j with
  | nil => rfl
  | cons x xs ih =>
    simp only [List.zipIdx_cons, List.map_cons, List.length_cons, List.range'_succ]
    rw [ih (j + 1)]
    rfl

theorem unionBlock_keys (g : SGraph) (idx : Nat) (b : Block) :
    (unionBlock g idx b).nodes.map (·.key) = g.nodes.map (·.key) ++ List.range' g.nodes.length b.names.length := by
  simp only [unionBlock, List.map_append, List.map_map]
  congr 1
  exact map_zipIdx_snd b.names g.nodes.length 0

theorem specUnion_keys (bs : List Block) :
    (specUnion bs).nodes.map (·.key) = List.range (offset bs bs.length) := by
  induction bs using rev_induction with
  | h0 => rfl
  | h1 bs b ih =>
    have h2 := (unionBlocks_spec_aux bs).2
    rw [specUnion_append bs b h2, unionBlock_keys, ih, h2]
    simp only [List.length_append, List.length_singleton, offset_append_full]
    rw [List.range_eq_range', List.range_eq_range', ← List.range'_append_1]
    simp

theorem unionBlock_findSeqid (g : SGraph) (idx s : Nat) (b : Block) :
    (unionBlock g idx b).findSeqid s =
      g.findSeqid s ++ (if s = idx then List.range' g.nodes.length b.names.length else []) := by
  simp only [SGraph.findSeqid, unionBlock, List.filter_append, List.map_append]
  congr 1
  by_cases h : s = idx
  · subst h
    simp only [if_true]
    rw [List.filter_map]
    have : ((fun (n : SNode) => n.seqid == some s) ∘ fun (x : String × Nat) =>
        ({ key := g.nodes.length + x.2, resname := x.1, seqid := some s } : SNode)) = fun _ => true := by
      funext x; simp
    rw [this]
    simp only [List.filter_eq_self.mpr (fun _ _ => rfl), List.map_map]
    exact map_zipIdx_snd b.names g.nodes.length 0
  · simp only [h, if_false]
    rw [List.filter_map]
    have : ((fun (n : SNode) => n.seqid == some s) ∘ fun (x : String × Nat) =>
        ({ key := g.nodes.length + x.2, resname := x.1, seqid := some idx } : SNode)) = fun _ => false := by
      funext x; simp; omega
    rw [this]
    simp

theorem specUnion_findSeqid (bs : List Block) (s : Nat) :
    (specUnion bs).findSeqid s =
      match bs[s]? with
      | some b => List.range' (offset bs s) b.names.length
      | none => [] := by
  induction bs using rev_induction with
  | h0 => rfl
  | h1 bs b ih =>
    have h2 := (unionBlocks_spec_aux bs).2
    rw [specUnion_append bs b h2, unionBlock_findSeqid, ih, h2]
    by_cases h : s < bs.length
    · have hne : s ≠ bs.length := by omega
      simp only [hne, if_false, List.append_nil]
      rw [List.getElem?_append_left h, offset_append_le bs b s (by omega)]
    · by_cases h' : s = bs.length
      · subst h'
        simp [offset_append_le bs b bs.length (Nat.le_refl _)]
      · have h3 : bs.length + 1 ≤ s := by omega
        have : (bs ++ [b])[s]? = none := by
          apply List.getElem?_eq_none; simp; omega
        have : bs[s]? = none := by
          apply List.getElem?_eq_none; omega
        simp [*]

theorem findSeqid_congr (g g' : SGraph) (h : g.nodes = g'.nodes) (s : Nat) : g.findSeqid s = g'.findSeqid s := by
  simp [SGraph.findSeqid, h]

theorem addEdge_nodes (g : SGraph) (a b : Nat) : (g.addEdge a b).nodes = g.nodes := by
  unfold SGraph.addEdge; split <;> rfl

/-- a connect record item adds exactly the edge the specification states, or is refused -/
theorem addConnectEdge_spec (bs : List Block) (g : SGraph) (hg : g.nodes = (specUnion bs).nodes) (i j a b : Nat) :
    addConnectEdge g i j a b = (specConnectEdge bs i j a b).map fun e => g.addEdge e.1 e.2 := by
  unfold addConnectEdge specConnectEdge
  rw [findSeqid_congr g _ hg i, findSeqid_congr g _ hg j, specUnion_findSeqid, specUnion_findSeqid]
  cases hi : bs[i]? with
  | none => simp
  | some bi =>
    cases hj : bs[j]? with
    | none => simp
    | some bj =>
      simp only
      by_cases ha : a < bi.names.length
      · by_cases hb : b < bj.names.length
        · have h1 : (List.range' (offset bs i) bi.names.length).isEmpty = false := by
            cases hh : bi.names.length with
            | zero => omega
            | succ k => simp [List.range'_succ]
          have h2 : (List.range' (offset bs j) bj.names.length).isEmpty = false := by
            cases hh : bj.names.length with
            | zero => omega
            | succ k => simp [List.range'_succ]
          simp [h1, h2, ha, hb]
        · have h3 : (List.range' (offset bs j) bj.names.length)[b]? = none := by
            apply List.getElem?_eq_none; simp; omega
          simp only [h3, hb, and_false, if_false, Option.map_none]
          split <;> simp
      · have h3 : (List.range' (offset bs i) bi.names.length)[a]? = none := by
          apply List.getElem?_eq_none; simp; omega
        simp only [h3, ha, false_and, if_false, Option.map_none]
        split <;> simp

theorem addEdges_nodes (g : SGraph) (es : List (Nat × Nat)) : (addEdges g es).nodes = g.nodes := by
  induction es generalizing g with
  | nil => rfl
  | cons e es ih => simp only [addEdges, List.foldl_cons] at ih ⊢; rw [ih, addEdge_nodes]

theorem connect_items (bs : List Block) (i j : Nat) (items : List (Nat × Nat)) (g : SGraph)
    (hg : g.nodes = (specUnion bs).nodes) :
    items.foldlM (fun g ab => addConnectEdge g i j ab.1 ab.2) g
      = (items.mapM fun ab => specConnectEdge bs i j ab.1 ab.2).map (addEdges g) := by
  induction items generalizing g with
  | nil => rfl
  | cons ab rest ih =>
    simp only [List.foldlM_cons, List.mapM_cons, addConnectEdge_spec bs g hg]
    cases h : specConnectEdge bs i j ab.1 ab.2 with
    | none => rfl
    | some e =>
      simp only [Option.map_some, Option.bind_eq_bind, Option.bind_some]
      rw [ih (g.addEdge e.1 e.2) (by rw [addEdge_nodes, hg])]
      cases rest.mapM (fun ab => specConnectEdge bs i j ab.1 ab.2) with
      | none => rfl
      | some es => rfl

theorem connects_fold (bs : List Block) (cs : List (Nat × Nat × List (Nat × Nat))) (g : SGraph)
    (hg : g.nodes = (specUnion bs).nodes) :
    cs.foldlM addConnect g
      = ((flatConnects cs).mapM fun q => specConnectEdge bs q.1 q.2.1 q.2.2.1 q.2.2.2).map (addEdges g) := by
  induction cs generalizing g with
  | nil => rfl
  | cons c rest ih =>
    simp only [List.foldlM_cons, addConnect, flatConnects, List.flatMap_cons, List.mapM_append]
    rw [connect_items bs c.1 c.2.1 c.2.2 g hg, List.mapM_map]
    have hcomp : ((fun (q : Nat × Nat × Nat × Nat) => specConnectEdge bs q.1 q.2.1 q.2.2.1 q.2.2.2) ∘
        fun (ab : Nat × Nat) => (c.1, c.2.1, ab.1, ab.2)) = fun ab => specConnectEdge bs c.1 c.2.1 ab.1 ab.2 := rfl
    rw [hcomp]
    cases h : c.2.2.mapM (fun ab => specConnectEdge bs c.1 c.2.1 ab.1 ab.2) with
    | none => rfl
    | some es =>
      simp only [Option.map_some, Option.bind_eq_bind, Option.bind_some]
      have := ih (addEdges g es) (by rw [addEdges_nodes, hg])
      simp only [flatConnects] at this
      rw [this]
      cases (List.flatMap (fun c => List.map (fun ab => (c.1, c.2.1, ab.1, ab.2)) c.2.2) rest).mapM
          (fun q => specConnectEdge bs q.1 q.2.1 q.2.2.1 q.2.2.2) with
      | none => rfl
      | some es2 => simp [addEdges, List.foldl_append]


/-! ### I. JSON round trip -/

/-- keys are the positions and no node carries a resid: what `gen_seq` hands to `node_link_data` -/
def WellKeyed (g : SGraph) : Prop :=
  g.nodes.map (·.key) = List.range g.nodes.length ∧ ∀ n ∈ g.nodes, n.resid = none

theorem parseJson_sorted (g : SGraph) (h : g.nodes.map (·.key) = List.range g.nodes.length) :
    parseJson (nodeLinkData g) = g := by
  unfold parseJson nodeLinkData
  have hp : List.Pairwise (fun (a b : SNode) => decide (a.key ≤ b.key) = true) g.nodes := by
    have := @List.pairwise_lt_range g.nodes.length
    rw [← h, List.pairwise_map] at this
    exact this.imp (fun hab => by simp; omega)
  rw [List.mergeSort_of_pairwise hp]

/-- preservation of keys and of the absence of resids by a node-wise relabelling -/
theorem wellKeyed_map (g : SGraph) (f : SNode → SNode) (E : List REdge) (hk : ∀ n, (f n).key = n.key)
    (hr : ∀ n, (f n).resid = n.resid) (h : WellKeyed g) : WellKeyed ⟨g.nodes.map f, E⟩ := by
  obtain ⟨h1, h2⟩ := h
  refine ⟨?_, ?_⟩
  · simp only [List.map_map, List.length_map]
    rw [← h1]
    apply List.map_congr_left
    intro n _
    simp [hk]
  · intro n hn
    simp only [List.mem_map] at hn
    obtain ⟨m, hm, rfl⟩ := hn
    rw [hr, h2 m hm]

theorem wellKeyed_edges (g : SGraph) (E : List REdge) (h : WellKeyed g) : WellKeyed ⟨g.nodes, E⟩ := h

theorem wellKeyed_specUnion (bs : List Block) : WellKeyed (specUnion bs) := by
  refine ⟨?_, ?_⟩
  · rw [specUnion_keys, (unionBlocks_spec_aux bs).2]
  · intro n hn
    simp only [specUnion, List.mem_flatMap, List.mem_map] at hn
    obtain ⟨_, _, _, _, rfl⟩ := hn
    rfl

theorem wellKeyed_applyModification (t : List Nat) (g : SGraph) (m : Nat × String) (h : WellKeyed g) :
    WellKeyed (applyModification t g m) := by
  unfold applyModification
  apply wellKeyed_map g _ g.edges _ _ h
  · intro n; split <;> rfl
  · intro n; split <;> rfl

theorem wellKeyed_mods (t : List Nat) (mods : List (Nat × String)) (g : SGraph) (h : WellKeyed g) :
    WellKeyed (mods.foldl (applyModification t) g) := by
  induction mods generalizing g with
  | nil => exact h
  | cons m rest ih => exact ih _ (wellKeyed_applyModification t g m h)

theorem wellKeyed_applyTag (g g' : SGraph) (t : Nat × String × List (String × Bool)) (h : WellKeyed g)
    (he : applyTag g t = some g') : WellKeyed g' := by
  unfold applyTag at he
  simp only at he
  generalize (if (g.findSeqid t.1).isEmpty = true then g.nodes.map (·.key) else g.findSeqid t.1) = targets at he
  by_cases hte : targets.isEmpty = true
  · rw [if_pos hte] at he
    cases he; exact h
  · rw [if_neg hte, Option.map_eq_some_iff] at he
    obtain ⟨v, _, rfl⟩ := he
    apply wellKeyed_map g _ g.edges _ _ h
    · intro n; split <;> rfl
    · intro n; split <;> rfl

theorem wellKeyed_tags (tags : List (Nat × String × List (String × Bool))) (g g' : SGraph) (h : WellKeyed g)
    (he : tags.foldlM applyTag g = some g') : WellKeyed g' := by
  induction tags generalizing g with
  | nil => simp at he; cases he; exact h
  | cons t rest ih =>
    simp only [List.foldlM_cons, Option.bind_eq_bind, Option.bind_eq_some_iff] at he
    obtain ⟨g1, h1, h2⟩ := he
    exact ih g1 (wellKeyed_applyTag g g1 t h h1) h2

theorem wellKeyed_genGraph (bs : List Block) (cs : List (Nat × Nat × List (Nat × Nat)))
    (mods : List (Nat × String)) (tags : List (Nat × String × List (String × Bool))) (g : SGraph)
    (he : genGraph bs cs mods tags = some g) : WellKeyed g := by
  unfold genGraph at he
  rw [Option.bind_eq_some_iff] at he
  obtain ⟨g1, h1, h2⟩ := he
  rw [unionBlocks_spec, connects_fold bs cs _ rfl, Option.map_eq_some_iff] at h1
  obtain ⟨es, _, rfl⟩ := h1
  have hw : WellKeyed (addEdges (specUnion bs) es) := by
    have := wellKeyed_specUnion bs
    unfold WellKeyed at this ⊢
    rw [addEdges_nodes]
    exact this
  exact wellKeyed_tags tags _ g (wellKeyed_mods _ mods _ hw) h2

theorem genSeq_wellKeyed (inp : GenSeqInput) (g : SGraph) (he : genSeq inp = some g) : WellKeyed g := by
  unfold genSeq at he
  simp only [Option.bind_eq_some_iff] at he
  obtain ⟨_, _, _, _, blocks, _, cs, _, mods, _, tags, _, hg⟩ := he
  exact wellKeyed_genGraph blocks cs mods tags g hg

/-- the residues of a well keyed graph are numbered `1, 2, …` in key order by the `MetaMolecule` -/
theorem toMeta_wellKeyed (g : SGraph) (h : WellKeyed g) :
    (toMeta g).nodes.map (·.key) = List.range g.nodes.length ∧
    (toMeta g).nodes.map (·.resid) = List.range' 1 g.nodes.length ∧
    (toMeta g).nodes.map (·.resname) = g.nodes.map (·.resname) ∧ (toMeta g).edges = g.edges := by
  obtain ⟨h1, h2⟩ := h
  refine ⟨?_, ?_, ?_, rfl⟩
  · simp only [toMeta, List.map_map]
    rw [← h1]; rfl
  · simp only [toMeta, List.map_map]
    rw [List.range'_eq_map_range, ← h1, List.map_map]
    apply List.map_congr_left
    intro n hn
    simp [h2 n hn, Nat.add_comm]
  · simp only [toMeta, List.map_map]; rfl


/-! ### J. shape of the terminal naming -/

theorem modifyLast_append_singleton (f : String → String) (mid : List String) (y : String) :
    modifyLast f (mid ++ [y]) = mid ++ [f y] := by
  induction mid with
  | nil => rfl
  | cons x xs ih =>
    rw [List.cons_append, modifyLast_cons_ne f x _ (by simp), ih]
    rfl

theorem suffix_shape (x y : String) (mid : List String) :
    modifyLast (· ++ "3") ((x :: (mid ++ [y])).modifyHead (· ++ "5")) = (x ++ "5") :: (mid ++ [y ++ "3"]) := by
  rw [List.modifyHead_cons, modifyLast_cons_ne _ _ _ (by simp), modifyLast_append_singleton]


/-! ### K. `.ig` files -/

theorem dropWhile_all {α} (p : α → Bool) (l : List α) (h : ∀ x ∈ l, p x = true) : l.dropWhile p = [] := by
  induction l with
  | nil => rfl
  | cons x xs ih => simp [h x (by simp), ih (fun y hy => h y (by simp [hy]))]

theorem splitComments_clean (t : Text) (h : ∀ c ∈ t, isSpace c = false ∧ c ≠ ';') : splitComments t = (t, []) := by
  unfold splitComments
  have hp : ∀ c ∈ t, (c != ';') = true := fun c hc => by simpa using (h c hc).2
  rw [takeWhile_all _ t hp, dropWhile_all _ t hp]
  simp only [List.drop_nil]
  rw [strip_noSpace t (fun c hc => (h c hc).1)]
  rfl

theorem igScan_skip (l : Text) (rest clean cm : List Text) (h : (splitComments l).1 = []) :
    igScan (l :: rest) clean cm = igScan rest clean (cm ++ [(splitComments l).2]) := by
  rw [igScan]
  simp only [h, List.getLast?_nil]

theorem igScan_keep (l : Text) (rest clean cm : List Text) (ch : Char)
    (h : (splitComments l).1.getLast? = some ch) (h1 : ch ≠ '1') (h2 : ch ≠ '2') :
    igScan (l :: rest) clean cm = igScan rest (clean ++ [(splitComments l).1]) (cm ++ [(splitComments l).2]) := by
  rw [igScan]
  simp only [h]
  have : (ch == '1' || ch == '2') = false := by simp [h1, h2]
  simp [this]

theorem igScan_end (l : Text) (rest clean cm : List Text) (ch : Char)
    (h : (splitComments l).1.getLast? = some ch) (h12 : ch = '1' ∨ ch = '2') :
    igScan (l :: rest) clean cm = some (clean ++ [(splitComments l).1.dropLast], cm ++ [(splitComments l).2], ch) := by
  rw [igScan]
  simp only [h]
  have : (ch == '1' || ch == '2') = true := by rcases h12 with rfl | rfl <;> simp
  simp [this]

theorem igScan_comments (comments rest clean cm : List Text) (h : ∀ c ∈ comments, (splitComments c).1 = []) :
    igScan (comments ++ rest) clean cm = igScan rest clean (cm ++ comments.map fun l => (splitComments l).2) := by
  induction comments generalizing cm with
  | nil => simp
  | cons c cs ih =>
    rw [List.cons_append, igScan_skip c _ clean cm (h c (by simp)), ih _ (fun x hx => h x (by simp [hx]))]
    simp

theorem igScan_chunks (chunks rest clean cm : List Text) (h : ∀ ch ∈ chunks, ch ≠ [] ∧ ∀ c ∈ ch, SeqChar c) :
    igScan (chunks ++ rest) clean cm = igScan rest (clean ++ chunks) (cm ++ List.replicate chunks.length []) := by
  induction chunks generalizing clean cm with
  | nil => simp
  | cons c cs ih =>
    obtain ⟨hne, hcl⟩ := h c (by simp)
    have hsc := splitComments_clean c (fun x hx => ⟨(hcl x hx).1, (hcl x hx).2.1⟩)
    obtain ⟨lastc, hlast⟩ : ∃ x, c.getLast? = some x := by
      cases hc : c.getLast? with
      | none => simp at hc; exact absurd hc hne
      | some x => exact ⟨x, rfl⟩
    have hmem := List.mem_of_getLast? hlast
    rw [List.cons_append, igScan_keep c _ clean cm lastc (by rw [hsc]; exact hlast) (hcl _ hmem).2.2.1 (hcl _ hmem).2.2.2,
      ih _ _ (fun x hx => h x (by simp [hx])), hsc]
    simp [List.replicate_succ]

theorem any_hasSub_replicate (pat : Text) (hp : pat ≠ []) (cs : List Text) (k : Nat) :
    (cs ++ List.replicate k []).any (hasSub pat) = cs.any (hasSub pat) := by
  rw [List.any_append]
  have : (List.replicate k ([] : Text)).any (hasSub pat) = false := by
    rw [List.any_eq_false]
    intro x hx
    rw [List.eq_of_mem_replicate hx]
    cases pat with
    | nil => exact absurd rfl hp
    | cons a b => simp [hasSub]
  rw [this, Bool.or_false]

theorem identify_replicate (cs : List Text) (k : Nat) : identify (cs ++ List.replicate k []) = identify cs := by
  unfold identify
  rw [any_hasSub_replicate _ (by decide), any_hasSub_replicate _ (by decide), any_hasSub_replicate _ (by decide)]

theorem igScan_render (comments : List Text) (title : Text) (chunks : List Text) (last : Text) (ter tch : Char)
    (hcm : ∀ c ∈ comments, (splitComments c).1 = [])
    (htitle : (splitComments title).1.getLast? = some tch ∧ tch ≠ '1' ∧ tch ≠ '2')
    (hc : ∀ ch ∈ chunks, ch ≠ [] ∧ ∀ c ∈ ch, SeqChar c) (hl : ∀ c ∈ last, SeqChar c)
    (hter : ter = '1' ∨ ter = '2') :
    igScan (comments ++ [title] ++ chunks ++ [last ++ [ter]]) [] [] =
      some ((splitComments title).1 :: (chunks ++ [last]),
            ((comments ++ [title]).map fun l => (splitComments l).2) ++ List.replicate (chunks.length + 1) [], ter) := by
  have hlast : splitComments (last ++ [ter]) = (last ++ [ter], []) := by
    apply splitComments_clean
    intro c hc'
    rcases List.mem_append.mp hc' with h | h
    · exact ⟨(hl c h).1, (hl c h).2.1⟩
    · simp only [List.mem_singleton] at h
      subst h
      rcases hter with rfl | rfl <;> exact ⟨by decide, by decide⟩
  rw [List.append_assoc, List.append_assoc, igScan_comments _ _ _ _ hcm]
  rw [List.singleton_append, igScan_keep title _ _ _ tch htitle.1 htitle.2.1 htitle.2.2]
  rw [igScan_chunks _ _ _ _ hc]
  rw [igScan_end (last ++ [ter]) [] _ _ ter (by rw [hlast]; simp) hter, hlast]
  simp [List.replicate_succ', List.map_append]

theorem parseIg_render (T : Tabs) (a : Alphabet) (final : Bool) (comments : List Text) (title : Text)
    (chunks : List Text) (last : Text) (ter tch : Char)
    (hcm : ∀ c ∈ comments, '\n' ∉ c ∧ (splitComments c).1 = [])
    (htitle : '\n' ∉ title ∧ (splitComments title).1.getLast? = some tch ∧ tch ≠ '1' ∧ tch ≠ '2')
    (hid : identify ((comments ++ [title]).map fun l => (splitComments l).2) = some (flagsOf a))
    (hc : ∀ ch ∈ chunks, ch ≠ [] ∧ ∀ c ∈ ch, SeqChar c) (hl : ∀ c ∈ last, SeqChar c)
    (hter : ter = '1' ∨ ter = '2') :
    (parseIg T (renderIg final comments title chunks last ter)).map toMeta
      = specSeqFile T a (ter == '2') (chunks.flatten ++ last) := by
  have hnl : ∀ c, SeqChar c → c ≠ '\n' := by
    intro c hc' e
    subst e
    have := hc'.1
    simp [isSpace] at this
  unfold parseIg renderIg
  rw [readLines_renderLines]
  · rw [igScan_render comments title chunks last ter tch (fun c hc' => (hcm c hc').2) htitle.2 hc hl hter]
    simp only [Option.bind_some, identify_replicate, hid, List.drop_succ_cons, List.drop_zero]
    have hflat : (chunks ++ [last]).flatMap strip = chunks.flatten ++ last := by
      rw [flatMap_strip_clean]
      · simp
      · intro ch hch c hcc
        rcases List.mem_append.mp hch with h | h
        · exact ((hc ch h).2 c hcc).1
        · simp only [List.mem_singleton] at h
          subst h
          exact (hl c hcc).1
    rcases hter with rfl | rfl
    · have : (('1' : Char) == '2') = false := by decide
      simp only [this, Bool.false_eq_true, if_false]
      have hb : ∀ o : Option SGraph, (o.bind fun g => some g) = o := fun o => by cases o <;> rfl
      rw [hb, parsePlain_spec, hflat]
    · have : (('2' : Char) == '2') = true := by decide
      simp only [this, if_true]
      have := parsePlain_circular T a (chunks ++ [last])
      rw [hflat] at this
      exact this
  · intro l hl'
    simp only [List.mem_append, List.mem_singleton] at hl'
    rcases hl' with ((h | h) | h) | h
    · exact (hcm l h).1
    · subst h; exact htitle.1
    · intro hm; exact hnl _ ((hc l h).2 _ hm) rfl
    · subst h
      intro hm
      rcases List.mem_append.mp hm with h | h
      · exact hnl _ (hl _ h) rfl
      · simp only [List.mem_singleton] at h
        rcases hter with rfl | rfl <;> exact absurd h (by decide)
  · intro _ lastl hlast
    simp only [List.getLast?_append, List.getLast?_singleton] at hlast
    cases hlast
    simp


/-! ### L. terminal renamings and labels -/

theorem key_inj (l : List SNode) (h : (l.map (·.key)).Nodup) (a b : SNode) (ha : a ∈ l) (hb : b ∈ l)
    (e : a.key = b.key) : a = b := by
  induction l with
  | nil => simp at ha
  | cons x xs ih =>
    simp only [List.map_cons, List.nodup_cons, List.mem_map, not_exists, not_and] at h
    rcases List.mem_cons.mp ha with rfl | ha' <;> rcases List.mem_cons.mp hb with rfl | hb'
    · rfl
    · exact absurd e.symm (h.1 b hb')
    · exact absurd e (h.1 a ha')
    · exact ih h.2 ha' hb'

/-- one renaming applied to one node -/
def stepMod (t : List Nat) (n : SNode) (m : Nat × String) : SNode :=
  if n.seqid == some m.1 && t.contains n.key then { n with resname := m.2 } else n

theorem mods_nodes (t : List Nat) (mods : List (Nat × String)) (g : SGraph) :
    mods.foldl (applyModification t) g = ⟨g.nodes.map fun n => mods.foldl (stepMod t) n, g.edges⟩ := by
  induction mods generalizing g with
  | nil => simp
  | cons m rest ih =>
    rw [List.foldl_cons, ih]
    simp only [applyModification, List.map_map]
    congr 1

theorem stepMod_frame (t : List Nat) (mods : List (Nat × String)) (n : SNode) :
    ∃ r, mods.foldl (stepMod t) n = { n with resname := r } := by
  induction mods generalizing n with
  | nil => exact ⟨n.resname, rfl⟩
  | cons m rest ih =>
    rw [List.foldl_cons]
    obtain ⟨r, hr⟩ := ih (stepMod t n m)
    rw [hr]
    unfold stepMod
    split
    · exact ⟨r, rfl⟩
    · exact ⟨r, rfl⟩

/-- the last matching renaming wins -/
theorem stepMod_last (t : List Nat) (mods : List (Nat × String)) (n : SNode) :
    mods.foldl (stepMod t) n =
      match (mods.filter fun m => n.seqid == some m.1 && t.contains n.key).getLast? with
      | some m => { n with resname := m.2 }
      | none => n := by
  induction mods using rev_induction with
  | h0 => rfl
  | h1 ms m ih =>
    rw [List.foldl_append, List.foldl_cons, List.foldl_nil, List.filter_append]
    obtain ⟨r, hr⟩ := stepMod_frame t ms n
    by_cases hc : (n.seqid == some m.1 && t.contains n.key) = true
    · have : [m].filter (fun m => n.seqid == some m.1 && t.contains n.key) = [m] := by rw [List.filter_cons, if_pos hc]; rfl
      rw [this, List.getLast?_append]
      simp only [List.getLast?_singleton, Option.some_or]
      rw [hr]
      unfold stepMod
      simp only at hc ⊢
      rw [if_pos hc]
    · have : [m].filter (fun m => n.seqid == some m.1 && t.contains n.key) = [] := by rw [List.filter_cons, if_neg hc]; rfl
      rw [this, List.append_nil, ← ih, hr]
      unfold stepMod
      simp only at hc ⊢
      rw [if_neg hc]

theorem terminal_contains (g : SGraph) (n : SNode) (hn : n ∈ g.nodes) :
    (terminalNodes g).contains n.key = (g.degree n.key == 1) := by
  unfold terminalNodes
  by_cases hd : (g.degree n.key == 1) = true
  · rw [hd, List.contains_eq_mem, decide_eq_true_eq, List.mem_map]
    exact ⟨n, List.mem_filter.mpr ⟨hn, hd⟩, rfl⟩
  · have hd' : (g.degree n.key == 1) = false := by simpa using hd
    rw [hd']
    rw [List.contains_eq_mem, decide_eq_false_iff_not, List.mem_map]
    rintro ⟨n', hn', hk⟩
    have := (List.mem_filter.mp hn').2
    rw [hk] at this
    exact hd this

/-- one label applied to one node -/
def stepTag (n : SNode) (t : Nat × String × String) : SNode :=
  if n.seqid == some t.1 then { n with tags := n.tags.set t.2.1 t.2.2 } else n

theorem stepTag_key (n : SNode) (t : Nat × String × String) : (stepTag n t).key = n.key := by
  unfold stepTag; split <;> rfl

theorem stepTag_seqid (n : SNode) (t : Nat × String × String) : (stepTag n t).seqid = n.seqid := by
  unfold stepTag; split <;> rfl

theorem findSeqid_map (g : SGraph) (f : SNode → SNode) (E : List REdge) (hk : ∀ n, (f n).key = n.key)
    (hs : ∀ n, (f n).seqid = n.seqid) (s : Nat) : (⟨g.nodes.map f, E⟩ : SGraph).findSeqid s = g.findSeqid s := by
  simp only [SGraph.findSeqid, List.filter_map, List.map_map]
  have h1 : ((fun (n : SNode) => n.seqid == some s) ∘ f) = fun n => n.seqid == some s := by
    funext n; simp [hs]
  have h2 : ((fun (n : SNode) => n.key) ∘ f) = fun n => n.key := by
    funext n; simp [hk]
  rw [h1, h2]

theorem found_contains (g : SGraph) (hk : (g.nodes.map (·.key)).Nodup) (s : Nat) (n : SNode) (hn : n ∈ g.nodes) :
    (g.findSeqid s).contains n.key = (n.seqid == some s) := by
  unfold SGraph.findSeqid
  by_cases hd : (n.seqid == some s) = true
  · rw [hd, List.contains_eq_mem, decide_eq_true_eq, List.mem_map]
    exact ⟨n, List.mem_filter.mpr ⟨hn, hd⟩, rfl⟩
  · have hd' : (n.seqid == some s) = false := by simpa using hd
    rw [hd', List.contains_eq_mem, decide_eq_false_iff_not, List.mem_map]
    rintro ⟨n', hn', hkey⟩
    have hmem := List.mem_filter.mp hn'
    have : n' = n := key_inj g.nodes hk n' n hmem.1 hn hkey
    rw [this] at hmem
    exact hd hmem.2

theorem applyTag_valid (g : SGraph) (hk : (g.nodes.map (·.key)).Nodup) (s : Nat) (attr v : String)
    (probs : List (String × Bool)) (hp : pickCertain probs = some v) (hne : g.findSeqid s ≠ []) :
    applyTag g (s, attr, probs) = some ⟨g.nodes.map fun n => stepTag n (s, attr, v), g.edges⟩ := by
  unfold applyTag
  have h1 : (g.findSeqid s).isEmpty = false := by
    cases h : g.findSeqid s with
    | nil => exact absurd h hne
    | cons _ _ => rfl
  simp only [h1, Bool.false_eq_true, if_false, hp, Option.map_some]
  congr 2
  apply List.map_congr_left
  intro n hn
  rw [found_contains g hk s n hn]
  rfl

theorem stepTag_fold (stags : List (Nat × String × String)) (n : SNode) :
    stags.foldl stepTag n =
      { n with tags := (stags.filter fun t => n.seqid == some t.1).foldl (fun a t => a.set t.2.1 t.2.2) n.tags } := by
  induction stags generalizing n with
  | nil => rfl
  | cons t rest ih =>
    rw [List.foldl_cons, ih, List.filter_cons, stepTag_seqid]
    unfold stepTag
    by_cases hc : (n.seqid == some t.1) = true
    · simp only [hc, if_true, List.foldl_cons]
    · simp only [hc]
      rfl

theorem tags_foldM (bs : List Block) (ptags : List (Nat × String × List (String × Bool))) :
    ∀ (stags : List (Nat × String × String)) (g : SGraph),
    ptags.mapM (fun t => (pickCertain t.2.2).map fun v => (t.1, t.2.1, v)) = some stags →
    (∀ t ∈ stags, ∃ b, bs[t.1]? = some b ∧ b.names ≠ []) →
    (g.nodes.map (·.key)).Nodup → (∀ s, g.findSeqid s = (specUnion bs).findSeqid s) →
    ptags.foldlM applyTag g = some ⟨g.nodes.map fun n => stags.foldl stepTag n, g.edges⟩ := by
  induction ptags with
  | nil =>
    intro stags g hp _ _ _
    simp at hp
    subst hp
    simp
  | cons pt rest ih =>
    intro stags g hp hv hk hf
    simp only [List.mapM_cons, Option.bind_eq_bind, Option.bind_eq_some_iff, Option.map_eq_some_iff] at hp
    obtain ⟨t, ⟨v, hv1, rfl⟩, stags', hrest, hst⟩ := hp
    simp only [Option.pure_def, Option.some.injEq] at hst
    subst hst
    obtain ⟨b, hb, hbn⟩ := hv (pt.1, pt.2.1, v) (by simp)
    have hne : g.findSeqid pt.1 ≠ [] := by
      rw [hf, specUnion_findSeqid, hb]
      intro e
      have hl := congrArg List.length e
      simp only [List.length_range', List.length_nil] at hl
      exact hbn (List.eq_nil_of_length_eq_zero hl)
    have happ : applyTag g pt = some ⟨g.nodes.map fun n => stepTag n (pt.1, pt.2.1, v), g.edges⟩ :=
      applyTag_valid g hk pt.1 pt.2.1 v pt.2.2 hv1 hne
    simp only [List.foldlM_cons, happ, Option.bind_eq_bind, Option.bind_some]
    rw [ih stags' _ hrest (fun t ht => hv t (by simp [ht]))]
    · simp only [List.map_map, List.foldl_cons]
      rfl
    · simp only [List.map_map]
      have : ((fun (n : SNode) => n.key) ∘ fun n => stepTag n (pt.1, pt.2.1, v)) = fun n => n.key := by
        funext n; simp [stepTag_key]
      rw [this]; exact hk
    · intro s
      rw [findSeqid_map g _ g.edges (fun n => stepTag_key n _) (fun n => stepTag_seqid n _), hf]

theorem specUnion_tags_nil (bs : List Block) : ∀ n ∈ (specUnion bs).nodes, n.tags = [] := by
  intro n hn
  simp only [specUnion, List.mem_flatMap, List.mem_map] at hn
  obtain ⟨_, _, _, _, rfl⟩ := hn
  rfl

theorem addEdges_eq_foldl (g : SGraph) (es : List (Nat × Nat)) :
    es.foldl (fun (g : SGraph) (e : Nat × Nat) => g.addEdge e.1 e.2) g = addEdges g es := rfl

/-- the name a node gets from the terminal renamings: the last one naming its block, if it has degree one -/
def renameOf (g1 : SGraph) (mods : List (Nat × String)) (n : SNode) : SNode :=
  match (mods.filter fun m => n.seqid == some m.1 && g1.degree n.key == 1).getLast? with
  | some m => { n with resname := m.2 }
  | none => n

theorem renameOf_frame (g1 : SGraph) (mods : List (Nat × String)) (n : SNode) :
    (renameOf g1 mods n).key = n.key ∧ (renameOf g1 mods n).seqid = n.seqid ∧ (renameOf g1 mods n).tags = n.tags := by
  unfold renameOf
  split <;> exact ⟨rfl, rfl, rfl⟩

theorem node_final (g1 : SGraph) (mods : List (Nat × String)) (stags : List (Nat × String × String)) (n : SNode)
    (htn : n.tags = []) :
    stags.foldl stepTag (renameOf g1 mods n) =
      { renameOf g1 mods n with
        tags := (stags.filter fun t => (renameOf g1 mods n).seqid == some t.1).foldl (fun a t => a.set t.2.1 t.2.2) [] } := by
  rw [stepTag_fold, (renameOf_frame g1 mods n).2.2, htn]

/-- the whole of `generate_seq_graph` + terminal renamings + labels is the specification -/
theorem genGraph_spec (bs : List Block) (cs : List (Nat × Nat × List (Nat × Nat))) (mods : List (Nat × String))
    (ptags : List (Nat × String × List (String × Bool))) (stags : List (Nat × String × String))
    (hp : ptags.mapM (fun t => (pickCertain t.2.2).map fun v => (t.1, t.2.1, v)) = some stags)
    (hv : ∀ t ∈ stags, ∃ b, bs[t.1]? = some b ∧ b.names ≠ []) :
    genGraph bs cs mods ptags = specGenSeq bs (flatConnects cs) mods stags := by
  unfold genGraph specGenSeq
  rw [unionBlocks_spec, connects_fold bs cs _ rfl]
  cases hces : (flatConnects cs).mapM (fun q => specConnectEdge bs q.1 q.2.1 q.2.2.1 q.2.2.2) with
  | none => rfl
  | some ces =>
    simp only [Option.map_some, Option.bind_some, addEdges_eq_foldl]
    have hvalid : stags.any (fun t => decide (t.1 ≥ bs.length) || (bs.getD t.1 ⟨[], []⟩).names.isEmpty) = false := by
      rw [List.any_eq_false]
      intro t ht
      obtain ⟨b, hb, hbn⟩ := hv t ht
      have hlt : t.1 < bs.length := by
        rcases Nat.lt_or_ge t.1 bs.length with h | h
        · exact h
        · rw [List.getElem?_eq_none h] at hb; cases hb
      have hget : bs.getD t.1 ⟨[], []⟩ = b := by
        rw [List.getD_eq_getElem?_getD, hb]; rfl
      have : b.names.isEmpty = false := by cases hn : b.names with
        | nil => exact absurd hn hbn
        | cons _ _ => rfl
      rw [hget, this]
      simp only [Bool.or_false, Bool.not_eq_true, decide_eq_false_iff_not]
      omega
    rw [hvalid]
    simp only [Bool.false_eq_true, if_false]
    rw [mods_nodes]
    generalize hg1 : addEdges (specUnion bs) ces = g1
    have hg1n : g1.nodes = (specUnion bs).nodes := by rw [← hg1, addEdges_nodes]
    have hnodes1 : g1.nodes.map (fun n => mods.foldl (stepMod (terminalNodes g1)) n) = g1.nodes.map (renameOf g1 mods) := by
      apply List.map_congr_left
      intro n hn
      rw [stepMod_last, terminal_contains _ n hn]
      rfl
    rw [hnodes1]
    rw [tags_foldM bs ptags stags _ hp hv]
    · simp only [List.map_map]
      congr 2
      apply List.map_congr_left
      intro n hn
      have htn : n.tags = [] := by
        rw [hg1n] at hn
        exact specUnion_tags_nil bs n hn
      exact node_final g1 mods stags n htn
    · simp only [List.map_map]
      have : ((fun (n : SNode) => n.key) ∘ renameOf g1 mods) = fun n => n.key := by
        funext n; exact (renameOf_frame g1 mods n).1
      rw [this, hg1n, specUnion_keys]
      exact List.nodup_range
    · intro s
      rw [findSeqid_map g1 _ _ (fun n => (renameOf_frame g1 mods n).1) (fun n => (renameOf_frame g1 mods n).2.1)]
      exact findSeqid_congr _ _ hg1n s


end PolyplyVerif.Proofs.Seq
