/-
C16, analytic part (ℝ): the pair force of the model, `ljCoef σ ε r² • vect`, is the negative gradient of
the 12-6 potential `V(r) = 4ε((σ/r)¹² − (σ/r)⁶)` of the pair's size σ.
-/
import Mathlib.Analysis.Calculus.Deriv.ZPow
import Mathlib.Analysis.Calculus.Deriv.Add
import Mathlib.Analysis.Calculus.Deriv.Mul
import Mathlib.Analysis.Calculus.Deriv.Comp
import Mathlib.Analysis.SpecialFunctions.Sqrt
import Mathlib.Tactic.Ring
import Mathlib.Tactic.FieldSimp
import Mathlib.Tactic.Linarith
import PolyplyVerif.Model.Geometry

namespace PolyplyVerif.Proofs.LJ
open PolyplyVerif.Geometry

/-- 12-6 potential of size σ and depth ε -/
noncomputable def V (eps sig r : ℝ) : ℝ := 4 * eps * ((sig / r) ^ 12 - (sig / r) ^ 6)

/-- scalar force as written in `_lennard_jones_force`: `24ε/r·(2(σ/r)¹² − (σ/r)⁶)` -/
noncomputable def F (eps sig r : ℝ) : ℝ := 24 * eps / r * (2 * (sig / r) ^ 12 - (sig / r) ^ 6)

/-- the model's coefficient over the reals (same formula as `Geometry.ljCoef`) -/
noncomputable def ljCoefR (sig eps r2 : ℝ) : ℝ := 24 * eps * (2 * sig ^ 12 / r2 ^ 6 - sig ^ 6 / r2 ^ 3) / r2

theorem ljCoef_cast (sig eps r2 : ℚ) : ((ljCoef sig eps r2 : ℚ) : ℝ) = ljCoefR sig eps r2 := by
  unfold ljCoef ljCoefR
  push_cast
  ring

/-- `F(r) = −V'(r)` -/
theorem lj_grad (eps sig r : ℝ) (hr : r ≠ 0) : HasDerivAt (V eps sig) (-(F eps sig r)) r := by
  have h1 : HasDerivAt (fun x : ℝ => sig / x) (-(sig) / r ^ 2) r := by
    have := (hasDerivAt_inv hr).const_mul sig
    simpa [div_eq_mul_inv, neg_div] using this
  have h12 := h1.pow 12
  have h6 := h1.pow 6
  have h := ((h12.sub h6).const_mul (4 * eps))
  have e : 4 * eps * ((12:ℕ) * (sig / r) ^ (12 - 1) * (-sig / r ^ 2) - (6:ℕ) * (sig / r) ^ (6 - 1) * (-sig / r ^ 2))
      = -(F eps sig r) := by
    unfold F
    have hr2 : r ^ 2 ≠ 0 := pow_ne_zero 2 hr
    simp only [div_pow, Nat.cast_ofNat]
    norm_num
    field_simp
    ring
  rw [← e]
  exact h

/-- the coefficient of the model is `F(r)/r` at `r² = r2` -/
theorem ljCoefR_eq (sig eps r : ℝ) (hr : r ≠ 0) : ljCoefR sig eps (r ^ 2) * r = F eps sig r := by
  unfold ljCoefR F
  field_simp

/-- derivative of `t ↦ √(t² + c)` -/
theorem hasDerivAt_radius (t c : ℝ) (hpos : 0 < t ^ 2 + c) :
    HasDerivAt (fun u : ℝ => Real.sqrt (u ^ 2 + c)) (t / Real.sqrt (t ^ 2 + c)) t := by
  have h1 : HasDerivAt (fun u : ℝ => u ^ 2 + c) (2 * t) t := by
    have := (hasDerivAt_pow 2 t).add_const c
    simpa using this
  have h2 := h1.sqrt (ne_of_gt hpos)
  have e : 2 * t / (2 * Real.sqrt (t ^ 2 + c)) = t / Real.sqrt (t ^ 2 + c) := by
    have : Real.sqrt (t ^ 2 + c) ≠ 0 := ne_of_gt (Real.sqrt_pos.mpr hpos)
    field_simp
  rw [← e]
  exact h2

/-- one partial derivative of `x ↦ V(‖x‖)`: along a coordinate `t` with the other two squared
coordinates summing to `c`, the derivative is `−ljCoef(t²+c)·t`, i.e. the model's force component is
`−∂V/∂t` -/
theorem lj_partial (eps sig t c : ℝ) (hpos : 0 < t ^ 2 + c) :
    HasDerivAt (fun u : ℝ => V eps sig (Real.sqrt (u ^ 2 + c))) (-(ljCoefR sig eps (t ^ 2 + c) * t)) t := by
  set r := Real.sqrt (t ^ 2 + c) with hr
  have hr0 : r ≠ 0 := ne_of_gt (Real.sqrt_pos.mpr hpos)
  have hsq : r ^ 2 = t ^ 2 + c := Real.sq_sqrt hpos.le
  have hV := lj_grad eps sig r hr0
  have hR := hasDerivAt_radius t c hpos
  have hcomp := HasDerivAt.comp t hV hR
  have e : -(F eps sig r) * (t / r) = -(ljCoefR sig eps (t ^ 2 + c) * t) := by
    rw [← ljCoefR_eq sig eps r hr0, hsq]
    field_simp
  rw [← e]
  exact hcomp

end PolyplyVerif.Proofs.LJ
