import PolyplyVerif.Proofs.P3
namespace PolyplyVerif.Proofs.Dna
open PolyplyVerif PolyplyVerif.Dna

section
variable (tbl : List (String × String)) (names : List String) (labels : List Attrs) (circ : Option Attrs)

theorem hf_new_none (j src : Nat) (hs : src < names.length) :
    ((List.range j).map (newEdge names labels)).findSome? (hf names.length src) = none := by
  apply findSome?_map_range_none
  intro i _
  have h1 : ¬ (names.length + i = src) := by omega
  have h2 : ¬ (names.length + i + 1 = src) := by omega
  simp [hf, newEdge, h1, h2]

theorem hf_range_pos (src m : Nat) (h2 : 2 ≤ src) (hm : src - 2 < m) (n : Nat) (lab : Nat → Attrs) :
    ((List.range m).map (fun i => (⟨i + 1, i + 2, lab i⟩ : REdge))).findSome? (hf n src)
      = some (src - 1, false) := by
  apply findSome?_map_range _ _ m (src - 2) _ hm
  · simp [hf, kf]
    have : ¬ (src - 2 + 1 = src) := by omega
    have h3 : src - 2 + 2 = src := by omega
    simp [this, h3]
    omega
  · intro i hi
    have : ¬ (i + 1 = src) := by omega
    have h3 : ¬ (i + 2 = src) := by omega
    simp [hf, this, h3]

theorem hf_range_zero (m n : Nat) (lab : Nat → Attrs) :
    ((List.range m).map (fun i => (⟨i + 1, i + 2, lab i⟩ : REdge))).findSome? (hf n 0) = none := by
  apply findSome?_map_range_none
  intro i _
  simp [hf]

/-- inside the strand the walk goes to the residue with the next lower resid -/
theorem iterStep_gAt_pos (j src : Nat) (hc : circ.isSome → 3 ≤ names.length)
    (h1 : 1 ≤ src) (hs : src < names.length) :
    iterStep (gAt tbl names labels circ j) (names.length - 1) src = some (src - 1, false) := by
  rw [iterStep_gAt tbl names labels circ j src (by omega) hc hs]
  have hn2 : 2 ≤ names.length := by omega
  by_cases h2 : 2 ≤ src
  · have h3 : ¬ (1 = src) := by omega
    have h4 : ¬ (0 = src) := by omega
    cases circ with
    | none =>
      simp only [gAt, strandGraph, List.findSome?_append, hn2, if_true]
      rw [hf_range_pos src (names.length - 2) h2 (by omega)]
      simp [hf, h3, h4]
    | some a =>
      have := hc rfl
      simp only [gAt, strandGraph, List.findSome?_append, hn2, if_true]
      rw [hf_range_pos src (names.length - 2) h2 (by omega)]
      have h5 : ¬ (src = 1) := by omega
      simp [hf, kf, h3, h4, h5]
  · have : src = 1 := by omega
    subst this
    simp [gAt, strandGraph, hn2, hf, kf]

/-- at residue 0 of a circular strand the walk closes the circle -/
theorem iterStep_gAt_zero_circ (j : Nat) (a : Attrs) (hn : 3 ≤ names.length) :
    iterStep (gAt tbl names labels (some a) j) (names.length - 1) 0 = some (names.length - 1, true) := by
  rw [iterStep_gAt tbl names labels (some a) j 0 (by omega) (fun _ => hn) (by omega)]
  have hn2 : 2 ≤ names.length := by omega
  simp only [gAt, strandGraph, List.findSome?_append, hn2, if_true]
  rw [hf_range_zero, hf_new_none names labels j 0 (by omega)]
  have h5 : ¬ (names.length - 1 = 1) := by omega
  have h6 : ¬ (1 = names.length - 1) := by omega
  have h7 : 0 < names.length - 1 := by omega
  simp [hf, kf, h5, h6, h7]

/-- at residue 0 of a linear strand the walk ends — except for n = 2, where residue 1 is both a
neighbour with a higher resid and the first node, so the iterator yields a closing edge -/
theorem iterStep_gAt_zero_lin (j : Nat) (hn : 1 ≤ names.length) :
    iterStep (gAt tbl names labels none j) (names.length - 1) 0 =
      if names.length = 2 then some (1, true) else none := by
  rw [iterStep_gAt tbl names labels none j 0 hn (by simp) (by omega)]
  simp only [gAt, strandGraph, List.findSome?_append]
  rw [hf_range_zero, hf_new_none names labels j 0 (by omega)]
  by_cases h2 : names.length = 2
  · simp [h2, hf, kf]
  · by_cases h1 : 2 ≤ names.length
    · have h6 : ¬ (1 = names.length - 1) := by omega
      simp [h1, h2, hf, kf, h6]
    · simp [h1, h2]

end
end PolyplyVerif.Proofs.Dna
