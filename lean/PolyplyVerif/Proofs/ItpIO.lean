/-
Helper lemmas for C11 (model: `Model/ItpIO.lean`).
-/
import Std.Data.String.ToNat
import PolyplyVerif.Model.ItpIO

namespace PolyplyVerif.Proofs.ItpIO
open PolyplyVerif.ItpIO

/-! ### generic list facts -/

theorem posWhere_lt {α : Type} (p : α → Bool) (l : List α) (h : l.any p = true) : posWhere p l < l.length := by
  induction l with
  | nil => simp at h
  | cons a l ih =>
    simp only [posWhere]
    by_cases hp : p a
    · simp [hp]
    · simp only [hp, Bool.false_eq_true, ↓reduceIte, List.length_cons]
      have : l.any p = true := by simpa [List.any_cons, hp] using h
      have := ih this
      omega

theorem natTok_toNat (n : Nat) : (natTok n).toNat? = some n := Nat.toNat?_repr n

/-! ### the reader over concatenated chunks -/

theorem readLines_append (st : RState) (a b : List Line) :
    readLines st (a ++ b) = (readLines st a).bind (fun st' => readLines st' b) := by
  induction a generalizing st with
  | nil => simp [readLines, Except.bind]
  | cons l ls ih =>
    simp only [List.cons_append, readLines]
    cases h : step st l with
    | error e => simp [Except.bind]
    | ok st' => simp [ih]

theorem readLines_ok_append {st st' : RState} {a b : List Line} (h : readLines st a = .ok st') :
    readLines st (a ++ b) = readLines st' b := by
  rw [readLines_append, h]; rfl

def isSkip : Line → Bool
  | .comment _ => true
  | .blank => true
  | _ => false

theorem readLines_skip (st : RState) (ls : List Line) (h : ∀ l ∈ ls, isSkip l = true) :
    readLines st ls = .ok st := by
  induction ls with
  | nil => rfl
  | cons l ls ih =>
    have hl := h l (by simp)
    have : step st l = .ok st := by
      cases l <;> simp_all [isSkip, step]
    simp only [readLines, this]
    exact ih (fun l hl => h l (by simp [hl]))

/-! ### preamble and atoms -/

def stAtoms (moltype : Tok) (nrexcl : Nat) (A : List RAtom) : RState :=
  { sec := .atoms, started := true, name := some moltype, nrexcl := nrexcl, atoms := A, atomNames := [],
    guard := .none, sections := [] }

theorem read_preamble (moltype : Tok) (n : Nat) :
    readLines RState.init [Line.header "moleculetype", Line.data [moltype, natTok n] none, Line.blank,
      Line.header "atoms"] = .ok (stAtoms moltype n []) := by
  simp [readLines, step, enterSection, stepData, natTok_toNat, RState.init, stAtoms]

theorem parseAtom_atomLine (a : Atom) (i : Nat) (h : a.fieldsOk = true) :
    parseAtom ([natTok (i + 1), a.atype, natTok a.resid, a.resname, a.name, natTok a.cgnr]
        ++ a.charge.toList ++ a.mass.toList)
      = .ok ⟨i, a.name, a.atype, a.resid, a.resname, a.cgnr, a.charge, a.mass⟩ := by
  cases hc : a.charge with
  | none =>
    have hm : a.mass = none := by simpa [Atom.fieldsOk, hc] using h
    simp [parseAtom, natTok_toNat, hm]
  | some c =>
    cases hm : a.mass <;> simp [parseAtom, natTok_toNat]

theorem read_atoms (ns : List Atom) (i : Nat) (st : RState) (hsec : st.sec = .atoms)
    (hk : ∀ b ∈ st.atoms, b.key < i) (hf : ∀ a ∈ ns, a.fieldsOk = true) :
    readLines st (atomLinesFrom i ns) = .ok { st with atoms := st.atoms ++ canonAtomsFrom i ns } := by
  induction ns generalizing i st with
  | nil => simp [atomLinesFrom, canonAtomsFrom, readLines]
  | cons a ns ih =>
    have hpa := parseAtom_atomLine a i (hf a (by simp))
    have hno : (st.atoms.any fun b => b.key == i) = false := by
      rw [List.any_eq_false]
      intro b hb
      have := hk b hb
      simp; omega
    have hstep : step st (atomLine a i) =
        .ok { st with atoms := st.atoms ++ [⟨i, a.name, a.atype, a.resid, a.resname, a.cgnr, a.charge, a.mass⟩] } := by
      simp only [step, atomLine, stepData, hsec]
      rw [hpa]
      simp [hno]
    simp only [atomLinesFrom, readLines, hstep]
    have hrec := ih (i + 1)
      { st with atoms := st.atoms ++ [⟨i, a.name, a.atype, a.resid, a.resname, a.cgnr, a.charge, a.mass⟩] }
      (by simpa using hsec)
      (by
        intro b hb
        simp only [List.mem_append, List.mem_singleton] at hb
        rcases hb with hb | hb
        · have := hk b hb; omega
        · subst hb; simp)
      (fun a' ha' => hf a' (by simp [ha']))
    rw [hrec]
    simp [canonAtomsFrom, List.append_assoc]

/-! ### tables -/

theorem lookupSplit_mem {nm : String} {sp : Option Split} (h : lookupSplit nm = some sp) :
    (nm, sp) ∈ splitTable := by
  unfold lookupSplit at h
  cases hf : splitTable.find? (fun p => p.1 == nm) with
  | none => simp [hf] at h
  | some p =>
    simp only [hf, Option.map_some, Option.some.injEq] at h
    have hm := List.mem_of_find?_eq_some hf
    have hp := List.find?_some hf
    have : p.1 = nm := by simpa using hp
    rw [← this, ← h]
    exact hm

theorem table_vsn : ∀ p ∈ splitTable, p.2 = some Split.vsn → p.1 = "virtual_sitesn" := by decide
theorem table_all : ∀ p ∈ splitTable, p.2 = some Split.all → p.1 = "exclusions" := by decide
theorem table_not_special : ∀ p ∈ splitTable, p.1 ≠ "moleculetype" ∧ p.1 ≠ "atoms" := by decide
theorem table_top : ∀ p ∈ splitTable, (∃ sp, p.2 = some sp ∧ sp ≠ Split.skip) → p.1 ∈ topSections := by decide
theorem lookupSplit_vsn : lookupSplit "virtual_sitesn" = some (some Split.vsn) := by decide

theorem headerName_vsn : headerName "virtual_sitesn" = "virtual_sitesn" := by decide

theorem headerName_eq_vsn {name : String} (h : headerName name = "virtual_sitesn") : name = "virtual_sitesn" := by
  unfold headerName at h
  split at h
  · exact absurd h (by decide)
  · exact h

/-! ### atom references -/

theorem canonAtomsFrom_keys (i : Nat) (ns : List Atom) :
    (canonAtomsFrom i ns).map (·.key) = List.range' i ns.length := by
  induction ns generalizing i with
  | nil => simp [canonAtomsFrom]
  | cons a ns ih => simp [canonAtomsFrom, ih, List.range'_succ]

theorem resolveRef_natTok (n v : Nat) (h1 : 1 ≤ v) (h2 : v ≤ n) :
    resolveRef (List.range' 0 n) (natTok v) = .ok (v - 1) := by
  unfold resolveRef
  rw [natTok_toNat]
  have : ¬ v < 1 := by omega
  simp only [this, ↓reduceIte]
  have hlt : v - 1 < n := by omega
  simp [hlt]

theorem mapM_resolve (n : Nat) (l : List Nat) (h : ∀ v ∈ l, 1 ≤ v ∧ v ≤ n) :
    (l.map natTok).mapM (resolveRef (List.range' 0 n)) = .ok (l.map (· - 1)) := by
  induction l with
  | nil => rfl
  | cons v l ih =>
    have hv := h v (by simp)
    have := ih (fun w hw => h w (by simp [hw]))
    simp only [List.map_cons, List.mapM_cons, resolveRef_natTok n v hv.1 hv.2, this]
    rfl

theorem sortAtoms_perm_or (name : String) (l : List Nat) :
    (sortAtoms name l).Perm l := by
  unfold sortAtoms
  split
  · exact List.mergeSort_perm _ _
  · split
    · split
      · exact List.Perm.refl _
      · exact List.reverse_perm _
    · split
      · split
        · exact List.Perm.refl _
        · exact List.reverse_perm _
      · exact List.Perm.refl _

theorem writtenAtoms_bounds (ns : List Atom) (name : String) (x : Ixn)
    (h : ∀ k ∈ x.atoms, hasKey ns k = true) :
    ∀ v ∈ writtenAtoms ns name x, 1 ≤ v ∧ v ≤ ns.length := by
  intro v hv
  have hp := (sortAtoms_perm_or name (x.atoms.map (fun k => posOf ns k + 1))).mem_iff.mp hv
  simp only [List.mem_map] at hp
  obtain ⟨k, hk, rfl⟩ := hp
  have := posWhere_lt (fun a => a.key == k) ns (by simpa [hasKey] using h k hk)
  unfold posOf
  omega

theorem writtenAtoms_length (ns : List Atom) (name : String) (x : Ixn) :
    (writtenAtoms ns name x).length = x.atoms.length := by
  have := (sortAtoms_perm_or name (x.atoms.map (fun k => posOf ns k + 1))).length_eq
  simpa [writtenAtoms] using this

/-! ### one interaction line -/

def ixnToks (ns : List Atom) (name : String) (x : Ixn) : List Tok :=
  let atoms := (writtenAtoms ns name x).map natTok
  if name = "virtual_sitesn" then atoms.take 1 ++ x.params ++ atoms.drop 1 else atoms ++ x.params

theorem ixnLine_eq (ns : List Atom) (name : String) (x : Ixn) :
    ixnLine ns name x = Line.data (ixnToks ns name x) x.comment := rfl

theorem splitToks_ixn (ns : List Atom) (name : String) (x : Ixn) (sp : Split)
    (hsp : lookupSplit (headerName name) = some (some sp)) (har : arityOk name x = true) :
    sp ≠ Split.skip ∧
      splitToks sp (ixnToks ns name x) = .ok ((writtenAtoms ns name x).map natTok, x.params) := by
  have hlen := writtenAtoms_length ns name x
  unfold ixnToks
  generalize writtenAtoms ns name x = W at hlen
  unfold arityOk at har
  rw [hsp] at har
  have hmem := lookupSplit_mem hsp
  cases sp with
  | skip => simp at har
  | strict n =>
    have hne : name ≠ "virtual_sitesn" := by
      intro h; subst h; rw [headerName_vsn, lookupSplit_vsn] at hsp; cases hsp
    have hl : x.atoms.length = n := by simpa using har
    refine ⟨by simp, ?_⟩
    have : (W.map natTok).length = n := by simp [hlen, hl]
    simp [splitToks, this, List.take_left', List.drop_left', hne]
  | slice n =>
    have hne : name ≠ "virtual_sitesn" := by
      intro h; subst h; rw [headerName_vsn, lookupSplit_vsn] at hsp; cases hsp
    have hl : x.atoms.length = n := by simpa using har
    refine ⟨by simp, ?_⟩
    have : (W.map natTok).length = n := by simp [hlen, hl]
    simp [splitToks, List.take_left', List.drop_left', this, hne]
  | all =>
    have hne : name ≠ "virtual_sitesn" := by
      intro h; subst h; rw [headerName_vsn, lookupSplit_vsn] at hsp; cases hsp
    have hp : x.params = [] := by
      have : x.params.isEmpty = true := by
        simp only [Bool.and_eq_true] at har; exact har.1
      simpa using this
    refine ⟨by simp, ?_⟩
    simp [splitToks, hp, hne]
  | vsn =>
    have hname : name = "virtual_sitesn" := headerName_eq_vsn (table_vsn _ hmem rfl)
    simp only [Bool.and_eq_true, beq_iff_eq, decide_eq_true_eq] at har
    obtain ⟨hp, ha⟩ := har
    obtain ⟨q, hq⟩ : ∃ q, x.params = [q] := by
      match hx : x.params, hp with
      | [q], _ => exact ⟨q, rfl⟩
    have hWne : 1 ≤ W.length := by omega
    obtain ⟨w, ws, hw⟩ : ∃ w ws, W = w :: ws := by
      cases W with
      | nil => simp at hWne
      | cons w ws => exact ⟨w, ws, rfl⟩
    refine ⟨by simp, ?_⟩
    subst hw
    simp [splitToks, hq, hname]

theorem step_ixn (ns : List Atom) (name : String) (x : Ixn) (sp : Split) (st : RState)
    (hsec : st.sec = .sub (headerName name)) (hnames : st.atomNames = List.range' 0 ns.length)
    (hsp : lookupSplit (headerName name) = some (some sp)) (har : arityOk name x = true)
    (hrefs : ∀ k ∈ x.atoms, hasKey ns k = true) :
    step st (ixnLine ns name x) = .ok { st with
      sections := addIxn st.sections (headerName name)
        ⟨(writtenAtoms ns name x).map (· - 1), x.params, st.guard⟩ } := by
  obtain ⟨hns, hsplit⟩ := splitToks_ixn ns name x sp hsp har
  have hres := mapM_resolve ns.length (writtenAtoms ns name x) (writtenAtoms_bounds ns name x hrefs)
  rw [ixnLine_eq]
  simp only [step, stepData, hsec, hsp]
  cases sp with
  | skip => exact absurd rfl hns
  | strict n => simp only [hsplit, hnames, hres]
  | slice n => simp only [hsplit, hnames, hres]
  | all => simp only [hsplit, hnames, hres]
  | vsn => simp only [hsplit, hnames, hres]

/-- append a list of interactions to section `nm` -/
def addMany (secs : List (String × List RIxn)) (nm : String) (l : List RIxn) : List (String × List RIxn) :=
  l.foldl (fun acc x => addIxn acc nm x) secs

theorem addMany_append (secs : List (String × List RIxn)) (nm : String) (a b : List RIxn) :
    addMany secs nm (a ++ b) = addMany (addMany secs nm a) nm b := by
  simp [addMany, List.foldl_append]

theorem read_ixns (ns : List Atom) (name : String) (sp : Split) (xs : List Ixn) (st : RState)
    (hsec : st.sec = .sub (headerName name)) (hnames : st.atomNames = List.range' 0 ns.length)
    (hsp : lookupSplit (headerName name) = some (some sp))
    (har : ∀ x ∈ xs, arityOk name x = true)
    (hrefs : ∀ x ∈ xs, ∀ k ∈ x.atoms, hasKey ns k = true) :
    readLines st (xs.map (ixnLine ns name)) = .ok { st with
      sections := addMany st.sections (headerName name)
        (xs.map (fun x => ⟨(writtenAtoms ns name x).map (· - 1), x.params, st.guard⟩)) } := by
  induction xs generalizing st with
  | nil => simp [readLines, addMany]
  | cons x xs ih =>
    simp only [List.map_cons, readLines]
    rw [step_ixn ns name x sp st hsec hnames hsp (har x (by simp)) (hrefs x (by simp))]
    simp only
    rw [ih _ (by simpa using hsec) (by simpa using hnames) (fun y hy => har y (by simp [hy]))
      (fun y hy => hrefs y (by simp [hy]))]
    simp [addMany]

end PolyplyVerif.Proofs.ItpIO
