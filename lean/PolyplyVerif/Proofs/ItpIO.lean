/-
Helper lemmas for C11 (model: `Model/ItpIO.lean`).
-/
import Std.Data.String.ToNat
import PolyplyVerif.Model.ItpIO

namespace PolyplyVerif.Proofs.ItpIO
open PolyplyVerif.ItpIO

/-! ### generic list facts -/

theorem posWhere_lt {α : Type} (p : α → Bool) (l : List α) (h : l.any p = true) : posWhere p l < l.length := by
  induction l with
  | nil => simp at h
  | cons a l ih =>
    simp only [posWhere]
    by_cases hp : p a
    · simp [hp]
    · simp only [hp, Bool.false_eq_true, ↓reduceIte, List.length_cons]
      have : l.any p = true := by simpa [List.any_cons, hp] using h
      have := ih this
      omega

theorem natTok_toNat (n : Nat) : (natTok n).toNat? = some n := Nat.toNat?_repr n

/-! ### the reader over concatenated chunks -/

theorem readLines_append (st : RState) (a b : List Line) :
    readLines st (a ++ b) = (readLines st a).bind (fun st' => readLines st' b) := by
  induction a generalizing st with
  | nil => simp [readLines, Except.bind]
  | cons l ls ih =>
    simp only [List.cons_append, readLines]
    cases h : step st l with
    | error e => simp [Except.bind]
    | ok st' => simp [ih]

theorem readLines_ok_append {st st' : RState} {a b : List Line} (h : readLines st a = .ok st') :
    readLines st (a ++ b) = readLines st' b := by
  rw [readLines_append, h]; rfl

def isSkip : Line → Bool
  | .comment _ => true
  | .blank => true
  | _ => false

theorem readLines_skip (st : RState) (ls : List Line) (h : ∀ l ∈ ls, isSkip l = true) :
    readLines st ls = .ok st := by
  induction ls with
  | nil => rfl
  | cons l ls ih =>
    have hl := h l (by simp)
    have : step st l = .ok st := by
      cases l <;> simp_all [isSkip, step]
    simp only [readLines, this]
    exact ih (fun l hl => h l (by simp [hl]))

/-! ### preamble and atoms -/

def stAtoms (moltype : Tok) (nrexcl : Nat) (A : List RAtom) : RState :=
  { sec := .atoms, started := true, name := some moltype, nrexcl := nrexcl, atoms := A, atomNames := [],
    guard := .none, sections := [] }

theorem read_preamble (moltype : Tok) (n : Nat) :
    readLines RState.init [Line.header "moleculetype", Line.data [moltype, natTok n] none, Line.blank,
      Line.header "atoms"] = .ok (stAtoms moltype n []) := by
  simp [readLines, step, enterSection, stepData, natTok_toNat, RState.init, stAtoms]

theorem parseAtom_atomLine (a : Atom) (i : Nat) (h : a.fieldsOk = true) :
    parseAtom ([natTok (i + 1), a.atype, natTok a.resid, a.resname, a.name, natTok a.cgnr]
        ++ a.charge.toList ++ a.mass.toList)
      = .ok ⟨i, a.name, a.atype, a.resid, a.resname, a.cgnr, a.charge, a.mass⟩ := by
  cases hc : a.charge with
  | none =>
    have hm : a.mass = none := by simpa [Atom.fieldsOk, hc] using h
    simp [parseAtom, natTok_toNat, hm]
  | some c =>
    cases hm : a.mass <;> simp [parseAtom, natTok_toNat]

theorem read_atoms (ns : List Atom) (i : Nat) (st : RState) (hsec : st.sec = .atoms)
    (hk : ∀ b ∈ st.atoms, b.key < i) (hf : ∀ a ∈ ns, a.fieldsOk = true) :
    readLines st (atomLinesFrom i ns) = .ok { st with atoms := st.atoms ++ canonAtomsFrom i ns } := by
  induction ns generalizing i st with
  | nil => simp [atomLinesFrom, canonAtomsFrom, readLines]
  | cons a ns ih =>
    have hpa := parseAtom_atomLine a i (hf a (by simp))
    have hno : (st.atoms.any fun b => b.key == i) = false := by
      rw [List.any_eq_false]
      intro b hb
      have := hk b hb
      simp; omega
    have hstep : step st (atomLine a i) =
        .ok { st with atoms := st.atoms ++ [⟨i, a.name, a.atype, a.resid, a.resname, a.cgnr, a.charge, a.mass⟩] } := by
      simp only [step, atomLine, stepData, hsec]
      rw [hpa]
      simp [hno]
    simp only [atomLinesFrom, readLines, hstep]
    have hrec := ih (i + 1)
      { st with atoms := st.atoms ++ [⟨i, a.name, a.atype, a.resid, a.resname, a.cgnr, a.charge, a.mass⟩] }
      (by simpa using hsec)
      (by
        intro b hb
        simp only [List.mem_append, List.mem_singleton] at hb
        rcases hb with hb | hb
        · have := hk b hb; omega
        · subst hb; simp)
      (fun a' ha' => hf a' (by simp [ha']))
    rw [hrec]
    simp [canonAtomsFrom, List.append_assoc]

/-! ### tables -/

theorem lookupSplit_mem {nm : String} {sp : Option Split} (h : lookupSplit nm = some sp) :
    (nm, sp) ∈ splitTable := by
  unfold lookupSplit at h
  cases hf : splitTable.find? (fun p => p.1 == nm) with
  | none => simp [hf] at h
  | some p =>
    simp only [hf, Option.map_some, Option.some.injEq] at h
    have hm := List.mem_of_find?_eq_some hf
    have hp := List.find?_some hf
    have : p.1 = nm := by simpa using hp
    rw [← this, ← h]
    exact hm

theorem table_vsn : ∀ p ∈ splitTable, p.2 = some Split.vsn → p.1 = "virtual_sitesn" := by decide
theorem table_all : ∀ p ∈ splitTable, p.2 = some Split.all → p.1 = "exclusions" := by decide
theorem table_not_special : ∀ p ∈ splitTable, p.1 ≠ "moleculetype" ∧ p.1 ≠ "atoms" := by decide
theorem table_top : ∀ p ∈ splitTable, (∃ sp, p.2 = some sp ∧ sp ≠ Split.skip) → p.1 ∈ topSections := by decide
theorem lookupSplit_vsn : lookupSplit "virtual_sitesn" = some (some Split.vsn) := by decide

theorem headerName_vsn : headerName "virtual_sitesn" = "virtual_sitesn" := by decide

theorem headerName_eq_vsn {name : String} (h : headerName name = "virtual_sitesn") : name = "virtual_sitesn" := by
  unfold headerName at h
  split at h
  · exact absurd h (by decide)
  · exact h

/-! ### atom references -/

theorem canonAtomsFrom_keys (i : Nat) (ns : List Atom) :
    (canonAtomsFrom i ns).map (·.key) = List.range' i ns.length := by
  induction ns generalizing i with
  | nil => simp [canonAtomsFrom]
  | cons a ns ih => simp [canonAtomsFrom, ih, List.range'_succ]

theorem resolveRef_natTok (n v : Nat) (h1 : 1 ≤ v) (h2 : v ≤ n) :
    resolveRef (List.range' 0 n) (natTok v) = .ok (v - 1) := by
  unfold resolveRef
  rw [natTok_toNat]
  have : ¬ v < 1 := by omega
  simp only [this, ↓reduceIte]
  have hlt : v - 1 < n := by omega
  simp [hlt]

theorem mapM_resolve (n : Nat) (l : List Nat) (h : ∀ v ∈ l, 1 ≤ v ∧ v ≤ n) :
    (l.map natTok).mapM (resolveRef (List.range' 0 n)) = .ok (l.map (· - 1)) := by
  induction l with
  | nil => rfl
  | cons v l ih =>
    have hv := h v (by simp)
    have := ih (fun w hw => h w (by simp [hw]))
    simp only [List.map_cons, List.mapM_cons, resolveRef_natTok n v hv.1 hv.2, this]
    rfl

theorem sortAtoms_perm_or (name : String) (l : List Nat) :
    (sortAtoms name l).Perm l := by
  unfold sortAtoms
  split
  · exact List.mergeSort_perm _ _
  · split
    · split
      · exact List.Perm.refl _
      · exact List.reverse_perm _
    · split
      · split
        · exact List.Perm.refl _
        · exact List.reverse_perm _
      · exact List.Perm.refl _

theorem writtenAtoms_bounds (ns : List Atom) (name : String) (x : Ixn)
    (h : ∀ k ∈ x.atoms, hasKey ns k = true) :
    ∀ v ∈ writtenAtoms ns name x, 1 ≤ v ∧ v ≤ ns.length := by
  intro v hv
  have hp := (sortAtoms_perm_or name (x.atoms.map (fun k => posOf ns k + 1))).mem_iff.mp hv
  simp only [List.mem_map] at hp
  obtain ⟨k, hk, rfl⟩ := hp
  have := posWhere_lt (fun a => a.key == k) ns (by simpa [hasKey] using h k hk)
  unfold posOf
  omega

theorem writtenAtoms_length (ns : List Atom) (name : String) (x : Ixn) :
    (writtenAtoms ns name x).length = x.atoms.length := by
  have := (sortAtoms_perm_or name (x.atoms.map (fun k => posOf ns k + 1))).length_eq
  simpa [writtenAtoms] using this

/-! ### one interaction line -/

def ixnToks (ns : List Atom) (name : String) (x : Ixn) : List Tok :=
  let atoms := (writtenAtoms ns name x).map natTok
  if name = "virtual_sitesn" then atoms.take 1 ++ x.params ++ atoms.drop 1 else atoms ++ x.params

theorem ixnLine_eq (ns : List Atom) (name : String) (x : Ixn) :
    ixnLine ns name x = Line.data (ixnToks ns name x) x.comment := rfl

theorem splitToks_ixn (ns : List Atom) (name : String) (x : Ixn) (sp : Split)
    (hsp : lookupSplit (headerName name) = some (some sp)) (har : arityOk name x = true) :
    sp ≠ Split.skip ∧
      splitToks sp (ixnToks ns name x) = .ok ((writtenAtoms ns name x).map natTok, x.params) := by
  have hlen := writtenAtoms_length ns name x
  unfold ixnToks
  generalize writtenAtoms ns name x = W at hlen
  unfold arityOk at har
  rw [hsp] at har
  have hmem := lookupSplit_mem hsp
  cases sp with
  | skip => simp at har
  | strict n =>
    have hne : name ≠ "virtual_sitesn" := by
      intro h; subst h; rw [headerName_vsn, lookupSplit_vsn] at hsp; cases hsp
    have hl : x.atoms.length = n := by simpa using har
    refine ⟨by simp, ?_⟩
    have : (W.map natTok).length = n := by simp [hlen, hl]
    simp [splitToks, this, List.take_left', List.drop_left', hne]
  | slice n =>
    have hne : name ≠ "virtual_sitesn" := by
      intro h; subst h; rw [headerName_vsn, lookupSplit_vsn] at hsp; cases hsp
    have hl : x.atoms.length = n := by simpa using har
    refine ⟨by simp, ?_⟩
    have : (W.map natTok).length = n := by simp [hlen, hl]
    simp [splitToks, List.take_left', List.drop_left', this, hne]
  | all =>
    have hne : name ≠ "virtual_sitesn" := by
      intro h; subst h; rw [headerName_vsn, lookupSplit_vsn] at hsp; cases hsp
    have hp : x.params = [] := by
      have : x.params.isEmpty = true := by
        simp only [Bool.and_eq_true] at har; exact har.1
      simpa using this
    refine ⟨by simp, ?_⟩
    simp [splitToks, hp, hne]
  | vsn =>
    have hname : name = "virtual_sitesn" := headerName_eq_vsn (table_vsn _ hmem rfl)
    simp only [Bool.and_eq_true, beq_iff_eq, decide_eq_true_eq] at har
    obtain ⟨hp, ha⟩ := har
    obtain ⟨q, hq⟩ : ∃ q, x.params = [q] := by
      match hx : x.params, hp with
      | [q], _ => exact ⟨q, rfl⟩
    have hWne : 1 ≤ W.length := by omega
    obtain ⟨w, ws, hw⟩ : ∃ w ws, W = w :: ws := by
      cases W with
      | nil => simp at hWne
      | cons w ws => exact ⟨w, ws, rfl⟩
    refine ⟨by simp, ?_⟩
    subst hw
    simp [splitToks, hq, hname]

theorem step_ixn (ns : List Atom) (name : String) (x : Ixn) (sp : Split) (st : RState)
    (hsec : st.sec = .sub (headerName name)) (hnames : st.atomNames = List.range' 0 ns.length)
    (hsp : lookupSplit (headerName name) = some (some sp)) (har : arityOk name x = true)
    (hrefs : ∀ k ∈ x.atoms, hasKey ns k = true) :
    step st (ixnLine ns name x) = .ok { st with
      sections := addIxn st.sections (headerName name)
        ⟨(writtenAtoms ns name x).map (· - 1), x.params, st.guard⟩ } := by
  obtain ⟨hns, hsplit⟩ := splitToks_ixn ns name x sp hsp har
  have hres := mapM_resolve ns.length (writtenAtoms ns name x) (writtenAtoms_bounds ns name x hrefs)
  rw [ixnLine_eq]
  simp only [step, stepData, hsec, hsp]
  cases sp with
  | skip => exact absurd rfl hns
  | strict n => simp only [hsplit, hnames, hres]
  | slice n => simp only [hsplit, hnames, hres]
  | all => simp only [hsplit, hnames, hres]
  | vsn => simp only [hsplit, hnames, hres]

/-- append a list of interactions to section `nm` -/
def addMany (secs : List (String × List RIxn)) (nm : String) (l : List RIxn) : List (String × List RIxn) :=
  l.foldl (fun acc x => addIxn acc nm x) secs

theorem addMany_append (secs : List (String × List RIxn)) (nm : String) (a b : List RIxn) :
    addMany secs nm (a ++ b) = addMany (addMany secs nm a) nm b := by
  simp [addMany, List.foldl_append]

theorem read_ixns (ns : List Atom) (name : String) (sp : Split) (xs : List Ixn) (st : RState)
    (hsec : st.sec = .sub (headerName name)) (hnames : st.atomNames = List.range' 0 ns.length)
    (hsp : lookupSplit (headerName name) = some (some sp))
    (har : ∀ x ∈ xs, arityOk name x = true)
    (hrefs : ∀ x ∈ xs, ∀ k ∈ x.atoms, hasKey ns k = true) :
    readLines st (xs.map (ixnLine ns name)) = .ok { st with
      sections := addMany st.sections (headerName name)
        (xs.map (fun x => ⟨(writtenAtoms ns name x).map (· - 1), x.params, st.guard⟩)) } := by
  induction xs generalizing st with
  | nil => simp [readLines, addMany]
  | cons x xs ih =>
    simp only [List.map_cons, readLines]
    rw [step_ixn ns name x sp st hsec hnames hsp (har x (by simp)) (hrefs x (by simp))]
    simp only
    rw [ih _ (by simpa using hsec) (by simpa using hnames) (fun y hy => har y (by simp [hy]))
      (fun y hy => hrefs y (by simp [hy]))]
    simp [addMany]

/-! ### groupby -/

theorem runs_flatten {α κ : Type} [DecidableEq κ] (key : α → κ) (l : List α) :
    (runs key l).flatMap (·.2) = l := by
  induction l with
  | nil => simp [runs]
  | cons a l ih =>
    simp only [runs]
    cases h : runs key l with
    | nil => simp [h] at ih; simp [← ih]
    | cons kg rest =>
      obtain ⟨k, g⟩ := kg
      rw [h] at ih
      simp only
      split
      · simp only [List.flatMap_cons, List.cons_append] at ih ⊢
        rw [ih]
      · simp only [List.flatMap_cons, List.cons_append, List.nil_append] at ih ⊢
        rw [ih]

theorem runs_key {α κ : Type} [DecidableEq κ] (key : α → κ) (l : List α) :
    ∀ kg ∈ runs key l, ∀ x ∈ kg.2, key x = kg.1 := by
  induction l with
  | nil => simp [runs]
  | cons a l ih =>
    simp only [runs]
    cases h : runs key l with
    | nil => simp
    | cons kg rest =>
      obtain ⟨k, g⟩ := kg
      rw [h] at ih
      simp only
      split
      next heq =>
        intro kg hkg x hx
        simp only [List.mem_cons] at hkg
        rcases hkg with rfl | hkg
        · simp only [List.mem_cons] at hx
          rcases hx with rfl | hx
          · exact heq
          · exact ih (k, g) (by simp) x hx
        · exact ih kg (by simp [hkg]) x hx
      next =>
        intro kg hkg x hx
        simp only [List.mem_cons] at hkg
        rcases hkg with rfl | hkg
        · simp only [List.mem_singleton] at hx
          subst hx; rfl
        · exact ih kg (by simpa using hkg) x hx

/-! ### one group, one section -/

def groupSorted (ns : List Atom) (name : String) (g : List Ixn) : List Ixn :=
  g.mergeSort (fun a b => ixnKeyLe (ixnSortKey name (writtenAtoms ns name a))
                                   (ixnSortKey name (writtenAtoms ns name b)))

theorem groupSorted_perm (ns : List Atom) (name : String) (g : List Ixn) :
    (groupSorted ns name g).Perm g := List.mergeSort_perm _ _

theorem guard_of_gkey (x : Ixn) : x.guard = guardOfCond x.gkey.cond := by
  unfold Ixn.guard Ixn.gkey guardOfCond
  cases x.ifdef <;> cases x.ifndef <;> rfl

theorem read_group (ns : List Atom) (name : String) (sp : Split) (k : GKey) (g : List Ixn) (st : RState)
    (hsec : st.sec = .sub (headerName name)) (hnames : st.atomNames = List.range' 0 ns.length)
    (hguard : st.guard = .none)
    (hsp : lookupSplit (headerName name) = some (some sp))
    (hk : ∀ x ∈ g, x.gkey = k)
    (har : ∀ x ∈ g, arityOk name x = true)
    (hrefs : ∀ x ∈ g, ∀ k ∈ x.atoms, hasKey ns k = true) :
    readLines st (groupLines ns name k g) = .ok { st with
      sections := addMany st.sections (headerName name) ((groupSorted ns name g).map (canonIxn ns name)) } := by
  have hperm := groupSorted_perm ns name g
  have har' : ∀ x ∈ groupSorted ns name g, arityOk name x = true := fun x hx => har x (hperm.mem_iff.mp hx)
  have hrefs' : ∀ x ∈ groupSorted ns name g, ∀ k ∈ x.atoms, hasKey ns k = true :=
    fun x hx => hrefs x (hperm.mem_iff.mp hx)
  have hk' : ∀ x ∈ groupSorted ns name g, x.guard = guardOfCond k.cond := by
    intro x hx; rw [guard_of_gkey, hk x (hperm.mem_iff.mp hx)]
  have hmap : ∀ gd, gd = guardOfCond k.cond →
      (groupSorted ns name g).map (fun x => (⟨(writtenAtoms ns name x).map (· - 1), x.params, gd⟩ : RIxn))
        = (groupSorted ns name g).map (canonIxn ns name) := by
    intro gd hgd
    apply List.map_congr_left
    intro x hx
    simp [canonIxn, hk' x hx, hgd]
  have hcmt : ∀ st' : RState, readLines st' (if k.group = "" then [] else [Line.comment k.group]) = .ok st' := by
    intro st'; split <;> simp [readLines, step]
  unfold groupLines
  change readLines st (_ ++ _ ++ (groupSorted ns name g).map (ixnLine ns name) ++ _ ++ [Line.blank]) = _
  cases hc : k.cond with
  | none =>
    simp only [List.nil_append, List.append_nil]
    rw [List.append_assoc, readLines_ok_append (hcmt st), readLines_ok_append
      (read_ixns ns name sp _ st hsec hnames hsp har' hrefs')]
    simp only [readLines, step]
    rw [hmap _ (by rw [hguard, hc]; rfl)]
  | some tc =>
    obtain ⟨t, c⟩ := tc
    have hpre : readLines st [Line.pragma [if c then "#ifdef" else "#ifndef", t]]
        = .ok { st with guard := guardOfCond (some (t, c)) } := by
      cases c <;> simp [readLines, step, stepPragma, hguard, guardOfCond]
    simp only [List.append_assoc]
    rw [readLines_ok_append hpre, readLines_ok_append (hcmt _), readLines_ok_append
      (read_ixns ns name sp _ _ (by simpa using hsec) (by simpa using hnames) hsp har' hrefs')]
    have hg : guardOfCond (some (t, c)) ≠ Guard.none := by cases c <;> simp [guardOfCond]
    simp only [List.singleton_append, readLines, step, stepPragma, hg, ↓reduceIte]
    rw [hmap _ (by rw [hc])]
    simp [hguard]

def groupsOut (ns : List Atom) (name : String) (groups : List (GKey × List Ixn)) : List RIxn :=
  groups.flatMap (fun kg => (groupSorted ns name kg.2).map (canonIxn ns name))

theorem read_groups (ns : List Atom) (name : String) (sp : Split) (groups : List (GKey × List Ixn)) (st : RState)
    (hsec : st.sec = .sub (headerName name)) (hnames : st.atomNames = List.range' 0 ns.length)
    (hguard : st.guard = .none)
    (hsp : lookupSplit (headerName name) = some (some sp))
    (hk : ∀ kg ∈ groups, ∀ x ∈ kg.2, x.gkey = kg.1)
    (har : ∀ kg ∈ groups, ∀ x ∈ kg.2, arityOk name x = true)
    (hrefs : ∀ kg ∈ groups, ∀ x ∈ kg.2, ∀ k ∈ x.atoms, hasKey ns k = true) :
    readLines st (groups.flatMap (fun kg => groupLines ns name kg.1 kg.2)) = .ok { st with
      sections := addMany st.sections (headerName name) (groupsOut ns name groups) } := by
  induction groups generalizing st with
  | nil => simp [readLines, addMany, groupsOut]
  | cons kg groups ih =>
    simp only [List.flatMap_cons]
    rw [readLines_ok_append (read_group ns name sp kg.1 kg.2 st hsec hnames hguard hsp
      (hk kg (by simp)) (har kg (by simp)) (hrefs kg (by simp)))]
    rw [ih _ (by simpa using hsec) (by simpa using hnames) (by simpa using hguard)
      (fun kg' h => hk kg' (by simp [h])) (fun kg' h => har kg' (by simp [h]))
      (fun kg' h => hrefs kg' (by simp [h]))]
    simp [groupsOut, addMany_append]

/-- the reader is between sections of a block whose `n` atoms are keyed 0..n-1 -/
def Ready (st : RState) (n : Nat) : Prop :=
  st.guard = .none ∧
  ((st.sec = .atoms ∧ st.atoms.map (·.key) = List.range' 0 n) ∨
   (∃ nm, st.sec = .sub nm) ∧ st.atomNames = List.range' 0 n)

theorem enterSection_ready (st : RState) (n : Nat) (nm : String) (sp : Option Split)
    (hr : Ready st n) (hsp : lookupSplit nm = some sp) :
    enterSection st nm = .ok { st with sec := .sub nm, atomNames := List.range' 0 n } := by
  have hmem := lookupSplit_mem hsp
  obtain ⟨h1, h2⟩ := table_not_special _ hmem
  simp only at h1 h2
  unfold enterSection
  simp only [h1, ↓reduceIte]
  rcases hr.2 with ⟨hs, hkeys⟩ | ⟨⟨nm', hs⟩, hnames⟩
  · simp [hs, h2, hsp, hkeys]
  · simp [hs, h2, hsp, hnames]

def sectionOut (ns : List Atom) (s : String × List Ixn) : List RIxn :=
  groupsOut ns s.1 (sectionGroups s.2)

theorem sectionGroups_flat (ixns : List Ixn) : ((sectionGroups ixns).flatMap (·.2)).Perm ixns := by
  unfold sectionGroups
  rw [runs_flatten]
  exact List.mergeSort_perm _ _

theorem mem_sectionGroups {ixns : List Ixn} {kg : GKey × List Ixn} (h : kg ∈ sectionGroups ixns)
    {x : Ixn} (hx : x ∈ kg.2) : x ∈ ixns := by
  apply (sectionGroups_flat ixns).mem_iff.mp
  exact List.mem_flatMap.mpr ⟨kg, h, hx⟩

theorem read_section (ns : List Atom) (s : String × List Ixn) (sp : Split) (st : RState)
    (hr : Ready st ns.length)
    (hsp : lookupSplit (headerName s.1) = some (some sp))
    (har : ∀ x ∈ s.2, arityOk s.1 x = true)
    (hrefs : ∀ x ∈ s.2, ∀ k ∈ x.atoms, hasKey ns k = true) :
    readLines st (sectionLines ns s) = .ok { st with
      sec := .sub (headerName s.1), atomNames := List.range' 0 ns.length,
      sections := addMany st.sections (headerName s.1) (sectionOut ns s) } := by
  unfold sectionLines
  simp only [readLines, step]
  rw [enterSection_ready st ns.length _ _ hr hsp]
  simp only
  have h := read_groups ns s.1 sp (sectionGroups s.2)
    { st with sec := .sub (headerName s.1), atomNames := List.range' 0 ns.length } rfl rfl hr.1 hsp
    (fun kg hkg => runs_key Ixn.gkey _ kg hkg)
    (fun kg hkg x hx => har x (mem_sectionGroups hkg hx))
    (fun kg hkg x hx => hrefs x (mem_sectionGroups hkg hx))
  rw [h]
  rfl

def allOut (ns : List Atom) (secs : List (String × List Ixn)) (init : List (String × List RIxn)) :
    List (String × List RIxn) :=
  secs.foldl (fun acc s => addMany acc (headerName s.1) (sectionOut ns s)) init

theorem read_sections (ns : List Atom) (secs : List (String × List Ixn)) (st : RState)
    (hr : Ready st ns.length)
    (hsp : ∀ s ∈ secs, ∃ sp, lookupSplit (headerName s.1) = some (some sp))
    (har : ∀ s ∈ secs, ∀ x ∈ s.2, arityOk s.1 x = true)
    (hrefs : ∀ s ∈ secs, ∀ x ∈ s.2, ∀ k ∈ x.atoms, hasKey ns k = true) :
    ∃ st', readLines st (secs.flatMap (sectionLines ns)) = .ok st' ∧ st'.guard = .none ∧
      st'.started = st.started ∧ st'.name = st.name ∧ st'.nrexcl = st.nrexcl ∧ st'.atoms = st.atoms ∧
      st'.sections = allOut ns secs st.sections := by
  induction secs generalizing st with
  | nil => exact ⟨st, by simp [readLines], hr.1, rfl, rfl, rfl, rfl, rfl⟩
  | cons s secs ih =>
    obtain ⟨sp, hsp1⟩ := hsp s (by simp)
    have h1 := read_section ns s sp st hr hsp1 (har s (by simp)) (hrefs s (by simp))
    have hr' : Ready ({ st with
        sec := .sub (headerName s.1), atomNames := List.range' 0 ns.length,
        sections := addMany st.sections (headerName s.1) (sectionOut ns s) } : RState) ns.length :=
      ⟨hr.1, Or.inr ⟨⟨_, rfl⟩, rfl⟩⟩
    obtain ⟨st', h2, hg, hs, hn, hx, ha, hsecs⟩ := ih _ hr' (fun s' h => hsp s' (by simp [h]))
      (fun s' h => har s' (by simp [h])) (fun s' h => hrefs s' (by simp [h]))
    refine ⟨st', ?_, hg, hs, hn, hx, ha, ?_⟩
    · simp only [List.flatMap_cons]
      rw [readLines_ok_append h1, h2]
    · rw [hsecs]; simp [allOut]

/-! ### what ends up under a section name -/

def ixnsOfSecs (secs : List (String × List RIxn)) (s : String) : List RIxn :=
  match secs.find? (fun p => p.1 == s) with
  | some p => p.2
  | none => []

theorem ixnsOf_addIxn (secs : List (String × List RIxn)) (nm : String) (x : RIxn) (s : String) :
    ixnsOfSecs (addIxn secs nm x) s = if s = nm then ixnsOfSecs secs s ++ [x] else ixnsOfSecs secs s := by
  induction secs with
  | nil =>
    by_cases h : s = nm
    · simp [addIxn, ixnsOfSecs, h]
    · have : ¬ nm = s := fun h' => h h'.symm
      simp [addIxn, ixnsOfSecs, h, this]
  | cons p secs ih =>
    obtain ⟨n, l⟩ := p
    simp only [addIxn]
    by_cases hn : n = nm
    · subst hn
      by_cases h : s = n
      · subst h; simp [ixnsOfSecs]
      · have : ¬ n = s := fun h' => h h'.symm
        simp [ixnsOfSecs, h, this]
    · simp only [hn, ↓reduceIte]
      by_cases h : n = s
      · subst h
        simp [ixnsOfSecs, hn]
      · have hfind : ∀ rest : List (String × List RIxn),
            ixnsOfSecs ((n, l) :: rest) s = ixnsOfSecs rest s := by
          intro rest; simp [ixnsOfSecs, h]
        rw [hfind, hfind, ih]

theorem ixnsOf_addMany (secs : List (String × List RIxn)) (nm : String) (l : List RIxn) (s : String) :
    ixnsOfSecs (addMany secs nm l) s = if s = nm then ixnsOfSecs secs s ++ l else ixnsOfSecs secs s := by
  induction l generalizing secs with
  | nil => simp [addMany]
  | cons x l ih =>
    have : addMany secs nm (x :: l) = addMany (addIxn secs nm x) nm l := rfl
    rw [this, ih, ixnsOf_addIxn]
    by_cases h : s = nm <;> simp [h]

theorem ixnsOf_allOut (ns : List Atom) (secs : List (String × List Ixn)) (init : List (String × List RIxn))
    (s : String) :
    ixnsOfSecs (allOut ns secs init) s =
      ixnsOfSecs init s ++ (secs.filter (fun p => headerName p.1 = s)).flatMap (sectionOut ns) := by
  induction secs generalizing init with
  | nil => simp [allOut]
  | cons p secs ih =>
    have : allOut ns (p :: secs) init = allOut ns secs (addMany init (headerName p.1) (sectionOut ns p)) := rfl
    rw [this, ih, ixnsOf_addMany]
    by_cases h : headerName p.1 = s
    · simp [h]
    · have h' : ¬ s = headerName p.1 := fun e => h e.symm
      simp [h, h']

theorem perm_flatMap_left {α β : Type} (l : List α) {f g : α → List β} (h : ∀ a ∈ l, (f a).Perm (g a)) :
    (l.flatMap f).Perm (l.flatMap g) := by
  induction l with
  | nil => simp
  | cons a l ih =>
    simp only [List.flatMap_cons]
    exact (h a (by simp)).append (ih (fun b hb => h b (by simp [hb])))

theorem sectionOut_perm (ns : List Atom) (p : String × List Ixn) :
    (sectionOut ns p).Perm (p.2.map (canonIxn ns p.1)) := by
  unfold sectionOut groupsOut
  have h1 : ((sectionGroups p.2).flatMap (fun kg => (groupSorted ns p.1 kg.2).map (canonIxn ns p.1))).Perm
      ((sectionGroups p.2).flatMap (fun kg => kg.2.map (canonIxn ns p.1))) :=
    perm_flatMap_left _ (fun kg _ => (groupSorted_perm ns p.1 kg.2).map _)
  have h2 : (sectionGroups p.2).flatMap (fun kg => kg.2.map (canonIxn ns p.1))
      = ((sectionGroups p.2).flatMap (·.2)).map (canonIxn ns p.1) := by
    rw [List.map_flatMap]
  rw [h2] at h1
  exact h1.trans ((sectionGroups_flat p.2).map _)

/-! ### assembling the round trip -/

def minOk (p : String × Option Split) : Bool :=
  match p.2 with
  | some (Split.strict n) => decide (minAtoms p.1 ≤ n)
  | some (Split.slice n) => decide (minAtoms p.1 ≤ n)
  | _ => decide (minAtoms p.1 ≤ 1)

theorem table_minOk : ∀ p ∈ splitTable, minOk p = true := by decide

theorem table_minAtoms : ∀ p ∈ splitTable,
    (match p.2 with
      | some (Split.strict n) => minAtoms p.1 ≤ n
      | some (Split.slice n) => minAtoms p.1 ≤ n
      | _ => minAtoms p.1 ≤ 1) := by
  intro p hp
  have := table_minOk p hp
  unfold minOk at this
  split <;> simp_all

theorem minAtoms_impropers : minAtoms "impropers" = 1 := by decide

theorem arityOk_minAtoms (name : String) (x : Ixn) (h : arityOk name x = true) :
    minAtoms name ≤ x.atoms.length := by
  unfold arityOk at h
  cases hsp : lookupSplit (headerName name) with
  | none => simp [hsp] at h
  | some osp =>
    have hmem := lookupSplit_mem hsp
    have ht := table_minAtoms _ hmem
    rw [hsp] at h
    have hname : minAtoms name ≤ minAtoms (headerName name) ∨ name = "impropers" := by
      unfold headerName
      by_cases hi : name = "impropers"
      · exact Or.inr hi
      · simp [hi]
    have key : minAtoms (headerName name) ≤ x.atoms.length ∧ 1 ≤ x.atoms.length := by
      cases osp with
      | none => simp at h
      | some sp =>
        cases sp with
        | strict n =>
          have : x.atoms.length = n := by simpa using h
          simp only at ht
          have h1 : 1 ≤ n := by
            have := table_minAtoms _ hmem
            have hpos : 1 ≤ minAtoms (headerName name) := by
              unfold minAtoms; split <;> (try split) <;> (try split) <;> omega
            simp only at this; omega
          omega
        | slice n =>
          have : x.atoms.length = n := by simpa using h
          simp only at ht
          have hpos : 1 ≤ minAtoms (headerName name) := by
            unfold minAtoms; split <;> (try split) <;> (try split) <;> omega
          omega
        | all =>
          simp only [Bool.and_eq_true, decide_eq_true_eq] at h
          simp only at ht
          omega
        | vsn =>
          simp only [Bool.and_eq_true, decide_eq_true_eq] at h
          simp only at ht
          omega
        | skip => simp at h
    rcases hname with hle | hi
    · omega
    · rw [hi, minAtoms_impropers]; exact key.2

theorem hasKey_perm {l₁ l₂ : List Atom} (h : l₁.Perm l₂) (k : Nat) : hasKey l₁ k = hasKey l₂ k := by
  unfold hasKey
  exact h.any_eq

theorem flatMap_filter_nonempty {β : Type} (l : List (String × List Ixn)) (P : String × List Ixn → Bool)
    (F : String × List Ixn → List β) (hF : ∀ p, p.2.isEmpty = true → F p = []) :
    ((l.filter (fun s => !s.2.isEmpty)).filter P).flatMap F = (l.filter P).flatMap F := by
  induction l with
  | nil => rfl
  | cons p l ih =>
    by_cases he : p.2.isEmpty = true
    · by_cases hp : P p = true
      · simp only [List.filter_cons, he, hp, Bool.not_true, Bool.false_eq_true, ↓reduceIte,
          List.flatMap_cons, hF p he, List.nil_append]
        exact ih
      · simp only [List.filter_cons, he, hp, Bool.not_true, Bool.false_eq_true, ↓reduceIte]
        exact ih
    · have he' : p.2.isEmpty = false := by simpa using he
      by_cases hp : P p = true
      · simp only [List.filter_cons, he', hp, Bool.not_false, ↓reduceIte, List.flatMap_cons]
        rw [ih]
      · simp only [List.filter_cons, he', hp, Bool.not_false, Bool.false_eq_true, ↓reduceIte]
        exact ih

def stAfterAtoms (moltype : Tok) (nrexcl : Nat) (ns : List Atom) : RState :=
  stAtoms moltype nrexcl (canonAtomsFrom 0 ns)

theorem roundtrip (header : List String) (moltype : Tok) (m : Mol) (hwf : WF m) :
    ∃ lines b, writeItp header moltype m = .ok lines ∧ readItp lines = .ok b ∧
      b.name = moltype ∧ b.nrexcl = m.nrexcl ∧ b.atoms = canonAtoms m ∧
      ∀ s, (b.ixnsOf s).Perm (canonIxns m s) := by
  have hperm : (sortedNodes m).Perm m.atoms := List.mergeSort_perm _ _
  have hsecs : (sortSections m.sections).Perm (m.sections.filter (fun s => !s.2.isEmpty)) :=
    List.mergeSort_perm _ _
  have hsub : ∀ s ∈ sortSections m.sections, s ∈ m.sections := by
    intro s hs
    exact (List.mem_filter.mp (hsecs.mem_iff.mp hs)).1
  generalize hns : sortedNodes m = ns at hperm
  have hne : ns.isEmpty = false := by
    cases ns with
    | nil => exact absurd (hperm.symm.eq_nil) hwf.atoms_ne
    | cons a l => rfl
  have hrefs : ∀ s ∈ sortSections m.sections, ∀ x ∈ s.2, ∀ k ∈ x.atoms, hasKey ns k = true := by
    intro s hs x hx k hk
    rw [hasKey_perm hperm]; exact hwf.refs s (hsub s hs) x hx k hk
  have har : ∀ s ∈ sortSections m.sections, ∀ x ∈ s.2, arityOk s.1 x = true :=
    fun s hs x hx => hwf.arity s (hsub s hs) x hx
  have hwritable : (sortSections m.sections).all (fun s => s.2.all (ixnWritable ns s.1)) = true := by
    rw [List.all_eq_true]; intro s hs
    rw [List.all_eq_true]; intro x hx
    unfold ixnWritable
    have h1 := hwf.one_guard s (hsub s hs) x hx
    have h2 : x.atoms.all (hasKey ns) = true := by
      rw [List.all_eq_true]; exact hrefs s hs x hx
    have h3 := arityOk_minAtoms s.1 x (har s hs x hx)
    have h1' : (x.ifdef.isSome && x.ifndef.isSome) = false := by
      cases hd : x.ifdef.isSome <;> cases hn : x.ifndef.isSome <;> simp_all
    simp [h1', h2, h3]
  have hsp : ∀ s ∈ sortSections m.sections, ∃ sp, lookupSplit (headerName s.1) = some (some sp) := by
    intro s hs
    have hmem := List.mem_filter.mp (hsecs.mem_iff.mp hs)
    obtain ⟨x, hx⟩ : ∃ x, x ∈ s.2 := by
      cases hl : s.2 with
      | nil => simp [hl] at hmem
      | cons x l => exact ⟨x, by simp⟩
    have := har s hs x hx
    unfold arityOk at this
    cases hl : lookupSplit (headerName s.1) with
    | none => simp [hl] at this
    | some osp =>
      cases osp with
      | none => simp [hl] at this
      | some sp => exact ⟨sp, rfl⟩
  have hfields : ∀ a ∈ ns, a.fieldsOk = true := fun a ha => hwf.fields a (hperm.mem_iff.mp ha)
  -- the written lines
  have hw : writeItp header moltype m = .ok (headerLines header ++
      [Line.header "moleculetype", Line.data [moltype, natTok m.nrexcl] none, Line.blank,
       Line.header "atoms"] ++ atomLinesFrom 0 ns ++ [Line.blank] ++
      (sortSections m.sections).flatMap (sectionLines ns)) := by
    unfold writeItp
    simp only [hns, hne, hwritable]
    rfl
  -- reading them
  have hskip : ∀ l ∈ headerLines header, isSkip l = true := by
    intro l hl
    unfold headerLines at hl
    split at hl
    · simp at hl
    · simp only [List.mem_append, List.mem_map, List.mem_singleton] at hl
      rcases hl with ⟨t, _, rfl⟩ | rfl <;> rfl
  have hat : readLines (stAtoms moltype m.nrexcl []) (atomLinesFrom 0 ns)
      = .ok (stAfterAtoms moltype m.nrexcl ns) := by
    rw [read_atoms ns 0 (stAtoms moltype m.nrexcl []) rfl (by simp [stAtoms]) hfields]
    simp [stAtoms, stAfterAtoms]
  have hready : Ready (stAfterAtoms moltype m.nrexcl ns) ns.length := by
    refine ⟨rfl, Or.inl ⟨rfl, ?_⟩⟩
    simp [stAtoms, stAfterAtoms, canonAtomsFrom_keys]
  obtain ⟨st', hread, hg, hst, hnm, hnx, hatoms, hsections⟩ :=
    read_sections ns (sortSections m.sections) _ hready hsp har hrefs
  have hall : readLines RState.init (headerLines header ++
      [Line.header "moleculetype", Line.data [moltype, natTok m.nrexcl] none, Line.blank,
       Line.header "atoms"] ++ atomLinesFrom 0 ns ++ [Line.blank] ++
      (sortSections m.sections).flatMap (sectionLines ns)) = .ok st' := by
    simp only [List.append_assoc]
    rw [readLines_ok_append (readLines_skip _ _ hskip)]
    rw [readLines_ok_append (read_preamble moltype m.nrexcl)]
    rw [readLines_ok_append hat]
    simp only [List.singleton_append, readLines, step]
    exact hread
  refine ⟨_, (⟨moltype, m.nrexcl, canonAtoms m, st'.sections⟩ : Block), hw, ?_, rfl, rfl, rfl, ?_⟩
  · unfold readItp
    rw [hall]
    unfold finish
    simp only [hg, ne_eq, not_true_eq_false, ↓reduceIte, hst, hnm, hnx, hatoms]
    simp [stAtoms, stAfterAtoms, canonAtoms, hns]
  · intro s
    have h0 : (Block.ixnsOf (⟨moltype, m.nrexcl, canonAtoms m, st'.sections⟩ : Block) s)
        = ixnsOfSecs st'.sections s := rfl
    rw [h0, hsections, ixnsOf_allOut]
    have hinit : ixnsOfSecs (stAfterAtoms moltype m.nrexcl ns).sections s = [] := rfl
    rw [hinit, List.nil_append]
    unfold canonIxns
    rw [hns]
    have h1 : (((sortSections m.sections).filter (fun p => headerName p.1 = s)).flatMap (sectionOut ns)).Perm
        (((sortSections m.sections).filter (fun p => headerName p.1 = s)).flatMap
          (fun p => p.2.map (canonIxn ns p.1))) :=
      perm_flatMap_left _ (fun p _ => sectionOut_perm ns p)
    have h2 := ((hsecs.filter (fun p => decide (headerName p.1 = s))).flatMap_right
      (fun p => p.2.map (canonIxn ns p.1)))
    have h3 := flatMap_filter_nonempty m.sections (fun p => decide (headerName p.1 = s))
      (fun p => p.2.map (canonIxn ns p.1)) (by intro p hp; simp [List.isEmpty_iff.mp hp])
    rw [h3] at h2
    exact h1.trans h2

/-! ### gen_params after link application -/

theorem citeLines_total (cmap : List (String × String)) (fmt : String → Except String String)
    (cs : List String)
    (hfmt : ∀ c ∈ cs, ∀ p, cmap.find? (fun q => q.1 == c) = some p → ∃ s, fmt p.2 = .ok s) :
    ∃ out, citeLines cmap fmt cs = .ok out := by
  induction cs with
  | nil => exact ⟨[], rfl⟩
  | cons c cs ih =>
    obtain ⟨out, hout⟩ := ih (fun c' hc' => hfmt c' (by simp [hc']))
    unfold citeLines
    cases hf : cmap.find? (fun q => q.1 == c) with
    | none => exact ⟨out, by simpa using hout⟩
    | some p =>
      obtain ⟨s, hs⟩ := hfmt c (by simp) p hf
      exact ⟨s :: out, by simp [hs, hout, Except.map]⟩

theorem genHeader_skip (argv : String) (cites : List String) :
    ∀ l ∈ genParamsHeaderLines argv cites, isSkip l = true := by
  intro l hl
  unfold genParamsHeaderLines at hl
  simp only [List.mem_append, List.mem_cons, List.mem_map, List.not_mem_nil, or_false] at hl
  rcases hl with ((rfl | rfl | rfl) | ⟨t, _, rfl⟩) | rfl <;> rfl

theorem readItp_skip_prefix (pre body : List Line) (h : ∀ l ∈ pre, isSkip l = true) :
    readItp (pre ++ body) = readItp body := by
  unfold readItp
  rw [readLines_ok_append (readLines_skip _ _ h)]

theorem FS.get_update_same (fs : FS) (out : String) (lines : List Line) :
    FS.get ((out, lines) :: fs.filter (fun p => p.1 != out)) out = some lines := by
  simp [FS.get]

theorem FS.get_update_other (fs : FS) (out : String) (lines : List Line) (p : String) (hp : p ≠ out) :
    FS.get ((out, lines) :: fs.filter (fun q => q.1 != out)) p = FS.get fs p := by
  have hne : (out == p) = false := by simpa using fun h => hp h.symm
  simp only [FS.get, List.find?_cons, hne]
  congr 1
  induction fs with
  | nil => rfl
  | cons q fs ih =>
    by_cases hq : q.1 = out
    · have h2 : (q.1 == p) = false := by rw [hq]; exact hne
      simp [hq, List.find?_cons, ih, hne]
    · simp only [List.filter_cons, bne_iff_ne, ne_eq, hq, not_false_eq_true, ↓reduceIte,
        List.find?_cons]
      split
      · rfl
      · exact ih

/-! ### the specification-level statement: same interactions up to the section's symmetry -/

theorem eraseRel_some {α : Type} (rel : α → α → Bool) (x : α) (ys ys' : List α)
    (h : eraseRel rel x ys = some ys') : ∃ y, rel x y = true ∧ ys.Perm (y :: ys') := by
  induction ys generalizing ys' with
  | nil => simp [eraseRel] at h
  | cons y ys ih =>
    unfold eraseRel at h
    by_cases hr : rel x y = true
    · simp only [hr, ↓reduceIte, Option.some.injEq] at h
      subst h
      exact ⟨y, hr, List.Perm.refl _⟩
    · simp only [hr, Bool.false_eq_true, ↓reduceIte] at h
      cases he : eraseRel rel x ys with
      | none => simp [he] at h
      | some r =>
        simp only [he, Option.map_some, Option.some.injEq] at h
        subst h
        obtain ⟨y', hy', hp⟩ := ih r he
        exact ⟨y', hy', (hp.cons y).trans (List.Perm.swap _ _ _)⟩

theorem matchUpTo_sound {α : Type} (rel : α → α → Bool) (xs ys : List α)
    (h : matchUpTo rel xs ys = true) : SameUpTo rel xs ys := by
  induction xs generalizing ys with
  | nil =>
    have : ys = [] := by simpa [matchUpTo] using h
    subst this
    exact ⟨[], List.Perm.refl _, AllRel.nil⟩
  | cons x xs ih =>
    unfold matchUpTo at h
    cases he : eraseRel rel x ys with
    | none => simp [he] at h
    | some ys' =>
      simp only [he] at h
      obtain ⟨y, hy, hp⟩ := eraseRel_some rel x ys ys' he
      obtain ⟨l, hl, hall⟩ := ih ys' h
      exact ⟨y :: l, hp.trans (hl.cons y), AllRel.cons hy hall⟩

theorem allRel_map {α β : Type} (r : β → β → Prop) (f g : α → β) (l : List α)
    (h : ∀ a ∈ l, r (f a) (g a)) : AllRel r (l.map f) (l.map g) := by
  induction l with
  | nil => exact AllRel.nil
  | cons a l ih => exact AllRel.cons (h a (by simp)) (ih (fun b hb => h b (by simp [hb])))

theorem allRel_append {α β : Type} (r : α → β → Prop) {a₁ a₂ : List α} {b₁ b₂ : List β}
    (h₁ : AllRel r a₁ b₁) (h₂ : AllRel r a₂ b₂) : AllRel r (a₁ ++ a₂) (b₁ ++ b₂) := by
  induction h₁ with
  | nil => exact h₂
  | cons hr _ ih => exact AllRel.cons hr ih

theorem allRel_flatMap {α β : Type} (r : β → β → Prop) (f g : α → List β) (l : List α)
    (h : ∀ a ∈ l, AllRel r (f a) (g a)) : AllRel r (l.flatMap f) (l.flatMap g) := by
  induction l with
  | nil => exact AllRel.nil
  | cons a l ih =>
    simp only [List.flatMap_cons]
    exact allRel_append r (h a (by simp)) (ih (fun b hb => h b (by simp [hb])))

theorem sortAtoms_cases (name : String) (l : List Nat) (h : isUnordered name = false) :
    sortAtoms name l = l ∨ sortAtoms name l = l.reverse := by
  unfold sortAtoms
  simp only [h, Bool.false_eq_true, ↓reduceIte]
  split
  · split
    · exact Or.inl rfl
    · exact Or.inr rfl
  · split
    · split
      · exact Or.inl rfl
      · exact Or.inr rfl
    · exact Or.inl rfl

theorem map_succ_pred (l : List Nat) : (l.map (· + 1)).map (· - 1) = l := by
  induction l with
  | nil => rfl
  | cons a l ih => simp [ih]

def symOk (p : String × Option Split) : Bool :=
  match p.2 with
  | some sp => sp == Split.skip ||
    (match symmetryOf p.1 with
      | .unordered => isUnordered p.1
      | .reversal => !isUnordered p.1
      | .positional => p.1 == "angle_restraints_z" ||
          (!isUnordered p.1 && !isAngleLike p.1 && !isDihedralLike p.1))
  | none => true

theorem table_symOk : ∀ p ∈ splitTable, symOk p = true := by decide
theorem impropers_plain : isUnordered "impropers" = false ∧ isAngleLike "impropers" = false ∧
    isDihedralLike "impropers" = false := by decide
theorem symmetry_dihedrals : symmetryOf "dihedrals" = Symmetry.reversal := by decide

/-- the writer's re-ordering of the atoms of one interaction is a symmetry of its section (for
`angle_restraints_z` only when it leaves the atoms alone) -/
theorem sameIxn_plain_canon (ns : List Atom) (name : String) (x : Ixn) (sp : Split)
    (hsp : lookupSplit (headerName name) = some (some sp)) (hskip : sp ≠ Split.skip)
    (hz : name = "angle_restraints_z" →
      sortAtoms name (x.atoms.map (fun k => posOf ns k + 1)) = x.atoms.map (fun k => posOf ns k + 1)) :
    sameIxn (headerName name) (plainIxn ns x) (canonIxn ns name x) = true := by
  have hL : (x.atoms.map (fun k => posOf ns k + 1)) = (x.atoms.map (posOf ns)).map (· + 1) := by
    simp [List.map_map]
  have hatoms : sameAtoms (headerName name) (x.atoms.map (posOf ns))
      ((sortAtoms name (x.atoms.map (fun k => posOf ns k + 1))).map (· - 1)) = true := by
    by_cases hi : name = "impropers"
    · -- written under `dihedrals`, never re-ordered
      subst hi
      have : sortAtoms "impropers" (x.atoms.map (fun k => posOf ns k + 1))
          = x.atoms.map (fun k => posOf ns k + 1) := by
        unfold sortAtoms
        simp [impropers_plain.1, impropers_plain.2.1, impropers_plain.2.2]
      rw [this, hL, map_succ_pred]
      have hh : headerName "impropers" = "dihedrals" := by decide
      simp [sameAtoms, hh, symmetry_dihedrals]
    · have hh : headerName name = name := by simp [headerName, hi]
      rw [hh] at hsp ⊢
      have hok := table_symOk _ (lookupSplit_mem hsp)
      unfold symOk at hok
      have hskip' : (sp == Split.skip) = false := by simpa using hskip
      simp only [hskip', Bool.false_or] at hok
      unfold sameAtoms
      cases hsym : symmetryOf name with
      | unordered =>
        simp only [hsym] at hok ⊢
        rw [List.isPerm_iff]
        have hs : sortAtoms name (x.atoms.map (fun k => posOf ns k + 1))
            = (x.atoms.map (fun k => posOf ns k + 1)).mergeSort (fun a b => a ≤ b) := by
          unfold sortAtoms; simp [hok]
        rw [hs]
        have := (List.mergeSort_perm (x.atoms.map (fun k => posOf ns k + 1)) (fun a b => decide (a ≤ b))).map (· - 1)
        rw [hL, map_succ_pred] at this
        rw [hL]
        exact this.symm
      | reversal =>
        simp only [hsym, Bool.not_eq_true'] at hok ⊢
        rcases sortAtoms_cases name (x.atoms.map (fun k => posOf ns k + 1)) hok with h | h
        · rw [h, hL, map_succ_pred]; simp
        · rw [h, hL, ← List.map_reverse, ← List.map_reverse, map_succ_pred]; simp
      | positional =>
        simp only [hsym] at hok ⊢
        have hid : sortAtoms name (x.atoms.map (fun k => posOf ns k + 1))
            = x.atoms.map (fun k => posOf ns k + 1) := by
          by_cases hzz : name = "angle_restraints_z"
          · exact hz hzz
          · have hzz' : (name == "angle_restraints_z") = false := by simpa using hzz
            simp only [hzz', Bool.false_or, Bool.and_eq_true, Bool.not_eq_true'] at hok
            unfold sortAtoms
            simp [hok.1.1, hok.1.2, hok.2]
        rw [hid, hL, map_succ_pred]
        simp
  simp [sameIxn, plainIxn, canonIxn, writtenAtoms, hatoms]

theorem arityOk_split (name : String) (x : Ixn) (h : arityOk name x = true) :
    ∃ sp, lookupSplit (headerName name) = some (some sp) ∧ sp ≠ Split.skip := by
  unfold arityOk at h
  cases hl : lookupSplit (headerName name) with
  | none => simp [hl] at h
  | some osp =>
    cases osp with
    | none => simp [hl] at h
    | some sp =>
      refine ⟨sp, rfl, ?_⟩
      intro hs; subst hs; simp [hl] at h

theorem plain_canon_allRel (m : Mol) (hwf : WF m) (hz : zOrdered m = true) (s : String) :
    AllRel (fun x y => sameIxn s x y = true) (plainIxns m s) (canonIxns m s) := by
  unfold plainIxns canonIxns
  apply allRel_flatMap
  intro p hp
  obtain ⟨hpm, hps⟩ := List.mem_filter.mp hp
  have hps' : headerName p.1 = s := by simpa using hps
  apply allRel_map
  intro x hx
  obtain ⟨sp, hsp, hskip⟩ := arityOk_split p.1 x (hwf.arity p hpm x hx)
  rw [← hps']
  apply sameIxn_plain_canon (sortedNodes m) p.1 x sp hsp hskip
  intro hname
  unfold zOrdered at hz
  rw [List.all_eq_true] at hz
  have := hz p hpm
  simp only [hname, bne_self_eq_false, Bool.false_or, List.all_eq_true, beq_iff_eq] at this
  rw [hname]
  exact this x hx

theorem roundtrip_spec (header : List String) (moltype : Tok) (m : Mol) (hwf : WF m)
    (hz : zOrdered m = true) :
    ∃ lines b, writeItp header moltype m = .ok lines ∧ readItp lines = .ok b ∧
      b.atoms = canonAtoms m ∧ ∀ s, SameUpTo (sameIxn s) (plainIxns m s) (b.ixnsOf s) := by
  obtain ⟨lines, b, hw, hr, _, _, hat, hix⟩ := roundtrip header moltype m hwf
  exact ⟨lines, b, hw, hr, hat, fun s => ⟨canonIxns m s, hix s, plain_canon_allRel m hwf hz s⟩⟩

/-! ### the path through polyply's TOPDirector -/

def stripLine : Line → Option Line
  | .comment _ => none
  | .blank => none
  | .data t _ => some (.data t none)
  | l => some l

def strip (ls : List Line) : List Line := ls.filterMap stripLine

theorem readLines_strip (st : RState) (ls : List Line) : readLines st (strip ls) = readLines st ls := by
  induction ls generalizing st with
  | nil => rfl
  | cons l ls ih =>
    cases l with
    | comment t => simp [strip, stripLine, readLines, step]; exact ih st
    | blank => simp [strip, stripLine, readLines, step]; exact ih st
    | header n =>
      simp only [strip, List.filterMap_cons, stripLine, readLines]
      cases step st (Line.header n) with
      | error e => rfl
      | ok st' => exact ih st'
    | pragma t =>
      simp only [strip, List.filterMap_cons, stripLine, readLines]
      cases step st (Line.pragma t) with
      | error e => rfl
      | ok st' => exact ih st'
    | bad t =>
      simp only [strip, List.filterMap_cons, stripLine, readLines]
      cases step st (Line.bad t) with
      | error e => rfl
      | ok st' => exact ih st'
    | data t c =>
      simp only [strip, List.filterMap_cons, stripLine, readLines]
      have : step st (Line.data t none) = step st (Line.data t c) := rfl
      rw [this]
      cases step st (Line.data t c) with
      | error e => rfl
      | ok st' => exact ih st'

/-- lines the topology reader passes on unchanged: no misformatted header, every section header is
`moleculetype` or one that `TOPDirector` registers -/
def lineTopOk : Line → Bool
  | .bad _ => false
  | .header n => n == "moleculetype" || topSections.contains n
  | _ => true

theorem topCollect_inside (sec : Sec) (ls : List Line) (hsec : sec ≠ .lost)
    (h : ∀ l ∈ ls, lineTopOk l = true) : topCollect true sec ls = .ok (strip ls) := by
  induction ls generalizing sec with
  | nil => rfl
  | cons l ls ih =>
    have hl := h l (by simp)
    have hrest : ∀ l' ∈ ls, lineTopOk l' = true := fun l' hl' => h l' (by simp [hl'])
    cases l with
    | comment t => simp only [topCollect, strip, List.filterMap_cons, stripLine]; exact ih sec hsec hrest
    | blank => simp only [topCollect, strip, List.filterMap_cons, stripLine]; exact ih sec hsec hrest
    | bad t => simp [lineTopOk] at hl
    | pragma t =>
      simp only [topCollect, ↓reduceIte, strip, List.filterMap_cons, stripLine]
      rw [ih sec hsec hrest]; rfl
    | data t c =>
      simp only [topCollect, ↓reduceIte, hsec, strip, List.filterMap_cons, stripLine]
      rw [ih sec hsec hrest]; rfl
    | header n =>
      simp only [topCollect, strip, List.filterMap_cons, stripLine]
      by_cases hn : n = "moleculetype"
      · simp only [hn, ↓reduceIte]
        rw [ih .mt (by simp) hrest]; rfl
      · have hc : topSections.contains n = true := by
          simpa [lineTopOk, hn] using hl
        simp only [hn, ↓reduceIte, hc]
        rw [ih (.sub n) (by simp) hrest]; rfl

theorem topCollect_file (pre rest : List Line) (hpre : ∀ l ∈ pre, isSkip l = true)
    (h : ∀ l ∈ rest, lineTopOk l = true) :
    topCollect false .top (pre ++ Line.header "moleculetype" :: rest)
      = .ok (strip (pre ++ Line.header "moleculetype" :: rest)) := by
  induction pre with
  | nil =>
    simp only [List.nil_append, topCollect, ↓reduceIte, strip, List.filterMap_cons, stripLine]
    rw [topCollect_inside .mt rest (by simp) h]; rfl
  | cons l pre ih =>
    have hl := hpre l (by simp)
    have hrec := ih (fun l' hl' => hpre l' (by simp [hl']))
    cases l with
    | comment t =>
      simp only [List.cons_append, topCollect, strip, List.filterMap_cons, stripLine]
      exact hrec
    | blank =>
      simp only [List.cons_append, topCollect, strip, List.filterMap_cons, stripLine]
      exact hrec
    | header n => simp [isSkip] at hl
    | pragma t => simp [isSkip] at hl
    | data t c => simp [isSkip] at hl
    | bad t => simp [isSkip] at hl

theorem readViaTop_eq (pre rest : List Line) (hpre : ∀ l ∈ pre, isSkip l = true)
    (h : ∀ l ∈ rest, lineTopOk l = true) :
    readViaTop (pre ++ Line.header "moleculetype" :: rest)
      = readItp (pre ++ Line.header "moleculetype" :: rest) := by
  unfold readViaTop
  rw [topCollect_file pre rest hpre h]
  simp only
  unfold readItp
  rw [readLines_strip]

theorem groupLines_topOk (ns : List Atom) (name : String) (k : GKey) (g : List Ixn) :
    ∀ l ∈ groupLines ns name k g, lineTopOk l = true := by
  intro l hl
  unfold groupLines at hl
  simp only [List.mem_append, List.mem_map, List.mem_singleton] at hl
  rcases hl with (((hl | hl) | ⟨x, _, rfl⟩) | hl) | rfl
  · cases hc : k.cond with
    | none => simp [hc] at hl
    | some tc => obtain ⟨t, c⟩ := tc; simp [hc] at hl; subst hl; rfl
  · split at hl
    · simp at hl
    · simp at hl; subst hl; rfl
  · rfl
  · cases hc : k.cond with
    | none => simp [hc] at hl
    | some tc => simp [hc] at hl; subst hl; rfl
  · rfl

theorem atomLines_topOk (i : Nat) (ns : List Atom) : ∀ l ∈ atomLinesFrom i ns, lineTopOk l = true := by
  induction ns generalizing i with
  | nil => simp [atomLinesFrom]
  | cons a ns ih =>
    intro l hl
    simp only [atomLinesFrom, List.mem_cons] at hl
    rcases hl with rfl | hl
    · rfl
    · exact ih (i + 1) l hl

theorem headerLines_skip (header : List String) : ∀ l ∈ headerLines header, isSkip l = true := by
  intro l hl
  unfold headerLines at hl
  split at hl
  · simp at hl
  · simp only [List.mem_append, List.mem_map, List.mem_singleton] at hl
    rcases hl with ⟨t, _, rfl⟩ | rfl <;> rfl

theorem writeItp_shape (header : List String) (moltype : Tok) (m : Mol) (hwf : WF m) (lines : List Line)
    (hw : writeItp header moltype m = .ok lines) :
    ∃ rest, lines = headerLines header ++ Line.header "moleculetype" :: rest ∧
      ∀ l ∈ rest, lineTopOk l = true := by
  have hsecs : (sortSections m.sections).Perm (m.sections.filter (fun s => !s.2.isEmpty)) :=
    List.mergeSort_perm _ _
  have hhead : ∀ s ∈ sortSections m.sections, topSections.contains (headerName s.1) = true := by
    intro s hs
    have hmem := List.mem_filter.mp (hsecs.mem_iff.mp hs)
    obtain ⟨x, hx⟩ : ∃ x, x ∈ s.2 := by
      cases hl : s.2 with
      | nil => simp [hl] at hmem
      | cons x l => exact ⟨x, by simp⟩
    obtain ⟨sp, hsp, hskip⟩ := arityOk_split s.1 x (hwf.arity s hmem.1 x hx)
    have := table_top _ (lookupSplit_mem hsp) ⟨sp, rfl, hskip⟩
    simpa using this
  unfold writeItp at hw
  simp only at hw
  split at hw
  · cases hw
  · split at hw
    · cases hw
    · simp only [Except.ok.injEq] at hw
      subst hw
      refine ⟨_, by simp only [List.append_assoc, List.cons_append, List.nil_append]; rfl, ?_⟩
      intro l hl
      simp only [List.mem_cons, List.mem_append, List.mem_flatMap, List.not_mem_nil, or_false] at hl
      rcases hl with rfl | rfl | rfl | hl | rfl | ⟨s, hs, hl⟩
      · rfl
      · rfl
      · rfl
      · exact atomLines_topOk 0 _ l hl
      · rfl
      · unfold sectionLines at hl
        simp only [List.mem_cons, List.mem_flatMap] at hl
        rcases hl with rfl | ⟨kg, _, hl⟩
        · have := hhead s hs
          simp only [lineTopOk, Bool.or_eq_true, beq_iff_eq]
          exact Or.inr this
        · exact groupLines_topOk _ _ _ _ l hl

theorem writeItp_top (header : List String) (moltype : Tok) (m : Mol) (hwf : WF m) (lines : List Line)
    (hw : writeItp header moltype m = .ok lines) : readViaTop lines = readItp lines := by
  obtain ⟨rest, hl, hrest⟩ := writeItp_shape header moltype m hwf lines hw
  rw [hl]
  exact readViaTop_eq _ _ (headerLines_skip header) hrest

theorem writeItp_nohdr_shape (moltype : Tok) (m : Mol) (hwf : WF m) (lines : List Line)
    (hw : writeItp [] moltype m = .ok lines) :
    ∃ rest, lines = Line.header "moleculetype" :: rest ∧ ∀ l ∈ rest, lineTopOk l = true := by
  obtain ⟨rest, hl, hrest⟩ := writeItp_shape [] moltype m hwf lines hw
  exact ⟨rest, by simpa [headerLines] using hl, hrest⟩

/-! ### residue graph -/

theorem mem_firstOcc {α : Type} [DecidableEq α] (l : List α) (a : α) : a ∈ firstOcc l ↔ a ∈ l := by
  induction l with
  | nil => simp [firstOcc]
  | cons b l ih =>
    simp only [firstOcc, List.mem_cons, List.mem_filter, decide_eq_true_eq, ih]
    constructor
    · rintro (h | ⟨h, _⟩)
      · exact Or.inl h
      · exact Or.inr h
    · rintro (h | h)
      · exact Or.inl h
      · by_cases hab : a = b
        · exact Or.inl hab
        · exact Or.inr ⟨h, hab⟩

theorem firstOcc_nodup {α : Type} [DecidableEq α] (l : List α) : (firstOcc l).Nodup := by
  induction l with
  | nil => simp [firstOcc]
  | cons b l ih =>
    simp only [firstOcc, List.nodup_cons, List.mem_filter, decide_eq_true_eq]
    exact ⟨fun h => h.2 rfl, ih.filter _⟩

theorem nodesFrom_pairs (i : Nat) (rs : List (Nat × Tok)) :
    (nodesFrom i rs).map (fun n => (n.resid, n.resname)) = rs := by
  induction rs generalizing i with
  | nil => rfl
  | cons r rs ih => simp [nodesFrom, ih]

theorem nodesFrom_resids (i : Nat) (rs : List (Nat × Tok)) :
    (nodesFrom i rs).map (·.resid) = rs.map (·.1) := by
  induction rs generalizing i with
  | nil => rfl
  | cons r rs ih => simp [nodesFrom, ih]

theorem mem_nodesFrom (i : Nat) (rs : List (Nat × Tok)) (hnd : rs.Nodup) (n : RGNode) :
    n ∈ nodesFrom i rs ↔
      (n.resid, n.resname) ∈ rs ∧ n.idx = i + posWhere (fun r => r == (n.resid, n.resname)) rs := by
  induction rs generalizing i with
  | nil => simp [nodesFrom]
  | cons r rs ih =>
    obtain ⟨hr, hnd'⟩ := List.nodup_cons.mp hnd
    simp only [nodesFrom, List.mem_cons, posWhere]
    constructor
    · rintro (h | h)
      · subst h; simp
      · obtain ⟨hm, hi⟩ := (ih (i + 1) hnd').mp h
        have hne : ¬ r = (n.resid, n.resname) := fun e => hr (e ▸ hm)
        refine ⟨Or.inr hm, ?_⟩
        simp only [beq_iff_eq, hne, ↓reduceIte]
        omega
    · rintro ⟨hm, hi⟩
      by_cases he : r = (n.resid, n.resname)
      · left
        simp only [beq_iff_eq, he, ↓reduceIte, Nat.add_zero] at hi
        cases n
        simp_all
      · right
        have hm' : (n.resid, n.resname) ∈ rs := by
          rcases hm with h | h
          · exact absurd h.symm he
          · exact h
        simp only [beq_iff_eq, he, ↓reduceIte] at hi
        exact (ih (i + 1) hnd').mpr ⟨hm', by omega⟩

theorem fst_inj_of_nodup {l : List (Nat × Tok)} (h : (l.map (·.1)).Nodup) {a b : Nat × Tok}
    (ha : a ∈ l) (hb : b ∈ l) (hab : a.1 = b.1) : a = b := by
  induction l with
  | nil => cases ha
  | cons c l ih =>
    simp only [List.map_cons, List.nodup_cons, List.mem_map, not_exists, not_and] at h
    simp only [List.mem_cons] at ha hb
    rcases ha with rfl | ha <;> rcases hb with rfl | hb
    · rfl
    · exact absurd hab.symm (h.1 b hb)
    · exact absurd hab (h.1 a ha)
    · exact ih h.2 ha hb

theorem nodup_map_fst_of_subset {l G : List (Nat × Tok)} (hl : l.Nodup) (hsub : ∀ a ∈ l, a ∈ G)
    (hG : (G.map (·.1)).Nodup) : (l.map (·.1)).Nodup := by
  induction l with
  | nil => simp
  | cons a l ih =>
    obtain ⟨ha, hl'⟩ := List.nodup_cons.mp hl
    simp only [List.map_cons, List.nodup_cons, List.mem_map, not_exists, not_and]
    refine ⟨?_, ih hl' (fun b hb => hsub b (by simp [hb]))⟩
    intro b hb hba
    have := fst_inj_of_nodup hG (hsub b (by simp [hb])) (hsub a (by simp)) hba
    exact ha (this ▸ hb)

theorem resOfKey_mem (b : Block) (k : Nat) (r : Nat × Tok) (h : resOfKey b k = some r) :
    r ∈ residues b := by
  unfold resOfKey at h
  cases hf : b.atoms.find? (fun a => a.key == k) with
  | none => simp [hf] at h
  | some a =>
    simp only [hf, Option.map_some, Option.some.injEq] at h
    have := List.mem_of_find?_eq_some hf
    unfold residues
    rw [mem_firstOcc]
    exact List.mem_map.mpr ⟨a, this, h⟩

theorem posWhere_eq_of_mem {rs : List (Nat × Tok)} {r s : Nat × Tok} (hr : r ∈ rs)
    (h : posWhere (fun x => x == r) rs = posWhere (fun x => x == s) rs) : r = s := by
  induction rs with
  | nil => cases hr
  | cons c rs ih =>
    simp only [posWhere, beq_iff_eq] at h
    by_cases h1 : c = r <;> by_cases h2 : c = s
    · exact h1.symm.trans h2
    · rw [if_pos h1, if_neg h2] at h; omega
    · rw [if_neg h1, if_pos h2] at h; omega
    · simp only [h1, h2, ↓reduceIte, Nat.add_right_cancel_iff] at h
      rcases List.mem_cons.mp hr with e | hr'
      · exact absurd e.symm h1
      · exact ih hr' h

/-- **Residue graph of a block**: if the residues of the block are exactly the requested nodes (with
distinct resids), every requested edge is realised by a bond/constraint edge between atoms of the two
residues, and every bond/constraint edge between different residues joins requested neighbours, then
`resid` is an isomorphism of the recovered residue graph onto the requested one. -/
theorem resgraph_iso_of_block (b : Block) (G : ReqGraph)
    (hGn : (G.nodes.map (·.1)).Nodup)
    (hres : ∀ p, p ∈ b.atoms.map (fun a => (a.resid, a.resname)) ↔ p ∈ G.nodes)
    (hloop : ∀ e ∈ G.edges, e.1 ≠ e.2)
    (H1 : ∀ e ∈ G.edges, ∃ ae ∈ atomEdges b, ∃ r1 r2, resOfKey b ae.1 = some r1 ∧ resOfKey b ae.2 = some r2 ∧
        ((r1.1 = e.1 ∧ r2.1 = e.2) ∨ (r1.1 = e.2 ∧ r2.1 = e.1)))
    (H2 : ∀ ae ∈ atomEdges b, ∀ r1 r2, resOfKey b ae.1 = some r1 → resOfKey b ae.2 = some r2 → r1 ≠ r2 →
        G.adj r1.1 r2.1) :
    IsoByResid (resGraphOf b) G := by
  have hrs_nd : (residues b).Nodup := firstOcc_nodup _
  have hrs_mem : ∀ p, p ∈ residues b ↔ p ∈ G.nodes := by
    intro p; unfold residues; rw [mem_firstOcc]; exact hres p
  have hnodes : (resGraphOf b).nodes = nodesFrom 0 (residues b) := rfl
  refine ⟨?_, ?_, ?_⟩
  · intro p
    rw [hnodes, nodesFrom_pairs]
    exact hrs_mem p
  · rw [hnodes, nodesFrom_resids]
    exact nodup_map_fst_of_subset hrs_nd (fun a ha => (hrs_mem a).mp ha) hGn
  · intro n₁ hn₁ n₂ hn₂
    rw [hnodes] at hn₁ hn₂
    obtain ⟨hm₁, hi₁⟩ := (mem_nodesFrom 0 _ hrs_nd n₁).mp hn₁
    obtain ⟨hm₂, hi₂⟩ := (mem_nodesFrom 0 _ hrs_nd n₂).mp hn₂
    simp only [Nat.zero_add] at hi₁ hi₂
    -- membership in the recovered edge list
    have hedge : ∀ i j, (i, j) ∈ (resGraphOf b).edges ↔
        ∃ ae ∈ atomEdges b, ∃ r1 r2, resOfKey b ae.1 = some r1 ∧ resOfKey b ae.2 = some r2 ∧ r1 ≠ r2 ∧
          i = posWhere (fun x => x == r1) (residues b) ∧ j = posWhere (fun x => x == r2) (residues b) := by
      intro i j
      show (i, j) ∈ (atomEdges b).filterMap _ ↔ _
      rw [List.mem_filterMap]
      constructor
      · rintro ⟨ae, hae, h⟩
        cases h1 : resOfKey b ae.1 with
        | none => simp [h1] at h
        | some r1 =>
          cases h2 : resOfKey b ae.2 with
          | none => simp [h1, h2] at h
          | some r2 =>
            simp only [h1, h2] at h
            by_cases he : r1 = r2
            · simp [he] at h
            · simp only [he, ↓reduceIte, Option.some.injEq, Prod.mk.injEq] at h
              exact ⟨ae, hae, r1, r2, h1, h2, he, h.1.symm, h.2.symm⟩
      · rintro ⟨ae, hae, r1, r2, h1, h2, he, hi, hj⟩
        exact ⟨ae, hae, by simp [h1, h2, he, hi, hj]⟩
    -- one direction of adjacency, for an ordered pair of nodes
    have key : ∀ (a c : RGNode), (a.resid, a.resname) ∈ residues b →
        a.idx = posWhere (fun r => r == (a.resid, a.resname)) (residues b) →
        (c.resid, c.resname) ∈ residues b →
        c.idx = posWhere (fun r => r == (c.resid, c.resname)) (residues b) →
        ((a.idx, c.idx) ∈ (resGraphOf b).edges → G.adj a.resid c.resid) ∧
        ((a.resid, c.resid) ∈ G.edges → (resGraphOf b).adj a.idx c.idx) := by
      intro a c hma hia hmc hic
      constructor
      · intro h
        obtain ⟨ae, hae, r1, r2, h1, h2, he, hi, hj⟩ := (hedge _ _).mp h
        have e1 : r1 = (a.resid, a.resname) :=
          posWhere_eq_of_mem (resOfKey_mem b _ _ h1) (by rw [← hi, hia])
        have e2 : r2 = (c.resid, c.resname) :=
          posWhere_eq_of_mem (resOfKey_mem b _ _ h2) (by rw [← hj, hic])
        have := H2 ae hae r1 r2 h1 h2 he
        rw [e1, e2] at this
        exact this
      · intro h
        obtain ⟨ae, hae, r1, r2, h1, h2, hor⟩ := H1 _ h
        have hne := hloop _ h
        simp only at hor hne
        have m1 := (hrs_mem _).mp (resOfKey_mem b _ _ h1)
        have m2 := (hrs_mem _).mp (resOfKey_mem b _ _ h2)
        have ma := (hrs_mem _).mp hma
        have mc := (hrs_mem _).mp hmc
        rcases hor with ⟨ha, hc⟩ | ⟨hc, ha⟩
        · have e1 : r1 = (a.resid, a.resname) := fst_inj_of_nodup hGn m1 ma ha
          have e2 : r2 = (c.resid, c.resname) := fst_inj_of_nodup hGn m2 mc hc
          have he : r1 ≠ r2 := fun e => hne (by rw [← ha, ← hc, e])
          left
          exact (hedge _ _).mpr ⟨ae, hae, r1, r2, h1, h2, he, by rw [hia, e1], by rw [hic, e2]⟩
        · have e1 : r1 = (c.resid, c.resname) := fst_inj_of_nodup hGn m1 mc hc
          have e2 : r2 = (a.resid, a.resname) := fst_inj_of_nodup hGn m2 ma ha
          have he : r1 ≠ r2 := fun e => hne (by rw [← ha, ← hc, e])
          right
          exact (hedge _ _).mpr ⟨ae, hae, r1, r2, h1, h2, he, by rw [hic, e1], by rw [hia, e2]⟩
    have k12 := key n₁ n₂ hm₁ hi₁ hm₂ hi₂
    have k21 := key n₂ n₁ hm₂ hi₂ hm₁ hi₁
    constructor
    · rintro (h | h)
      · exact k12.1 h
      · rcases k21.1 h with h' | h'
        · exact Or.inr h'
        · exact Or.inl h'
    · rintro (h | h)
      · exact k12.2 h
      · rcases k21.2 h with h' | h'
        · exact Or.inr h'
        · exact Or.inl h'

theorem ixnsOf_map (names : List String) (g : String → List RIxn) (s : String) :
    ixnsOfSecs (names.map (fun t => (t, g t))) s = if s ∈ names then g s else [] := by
  induction names with
  | nil => simp [ixnsOfSecs]
  | cons t names ih =>
    by_cases h : t = s
    · subst h; simp [ixnsOfSecs]
    · have h' : ¬ s = t := fun e => h e.symm
      have hfind : ixnsOfSecs ((t, g t) :: names.map (fun t => (t, g t))) s
          = ixnsOfSecs (names.map (fun t => (t, g t))) s := by
        simp [ixnsOfSecs, h]
      simp only [List.map_cons, hfind, ih, List.mem_cons, h', false_or]

theorem ixnsOf_canonBlock (moltype : Tok) (m : Mol) (s : String) :
    (canonBlock moltype m).ixnsOf s = canonIxns m s := by
  have h0 : (canonBlock moltype m).ixnsOf s
      = ixnsOfSecs ((canonSectionNames m).map (fun t => (t, canonIxns m t))) s := rfl
  rw [h0, ixnsOf_map]
  split
  · rfl
  · next hns =>
    symm
    unfold canonIxns
    rw [List.flatMap_eq_nil_iff]
    intro p hp
    obtain ⟨hpm, hps⟩ := List.mem_filter.mp hp
    have hps' : headerName p.1 = s := by simpa using hps
    cases hl : p.2 with
    | nil => rfl
    | cons x l =>
      exfalso
      apply hns
      unfold canonSectionNames
      rw [mem_firstOcc]
      exact List.mem_map.mpr ⟨p, List.mem_filter.mpr ⟨hpm, by simp [hl]⟩, hps'⟩

/-- the recovered residue graph only depends on the atoms and on the bonds/constraints as multisets -/
theorem resgraph_iso_transfer (b0 b : Block) (G : ReqGraph) (hat : b.atoms = b0.atoms)
    (hix : ∀ s, (b.ixnsOf s).Perm (b0.ixnsOf s))
    (hGn : (G.nodes.map (·.1)).Nodup)
    (hres : ∀ p, p ∈ b0.atoms.map (fun a => (a.resid, a.resname)) ↔ p ∈ G.nodes)
    (hloop : ∀ e ∈ G.edges, e.1 ≠ e.2)
    (H1 : ∀ e ∈ G.edges, ∃ ae ∈ atomEdges b0, ∃ r1 r2, resOfKey b0 ae.1 = some r1 ∧ resOfKey b0 ae.2 = some r2 ∧
        ((r1.1 = e.1 ∧ r2.1 = e.2) ∨ (r1.1 = e.2 ∧ r2.1 = e.1)))
    (H2 : ∀ ae ∈ atomEdges b0, ∀ r1 r2, resOfKey b0 ae.1 = some r1 → resOfKey b0 ae.2 = some r2 → r1 ≠ r2 →
        G.adj r1.1 r2.1) :
    IsoByResid (resGraphOf b) G := by
  have hedges : ∀ ae, ae ∈ atomEdges b ↔ ae ∈ atomEdges b0 := by
    intro ae
    unfold atomEdges
    exact (((hix "bonds").append (hix "constraints")).flatMap_right _).mem_iff
  have hkey : ∀ k, resOfKey b k = resOfKey b0 k := by
    intro k; unfold resOfKey; rw [hat]
  apply resgraph_iso_of_block b G hGn (by rw [hat]; exact hres) hloop
  · intro e he
    obtain ⟨ae, hae, r1, r2, h1, h2, hor⟩ := H1 e he
    exact ⟨ae, (hedges ae).mpr hae, r1, r2, by rw [hkey]; exact h1, by rw [hkey]; exact h2, hor⟩
  · intro ae hae r1 r2 h1 h2 hne
    exact H2 ae ((hedges ae).mp hae) r1 r2 (by rw [← hkey]; exact h1) (by rw [← hkey]; exact h2) hne

theorem wfB_sound (m : Mol) (h : wfB m = true) : WF m := by
  unfold wfB at h
  simp only [Bool.and_eq_true, Bool.not_eq_true', decide_eq_true_eq, List.all_eq_true] at h
  obtain ⟨⟨⟨⟨h1, h2⟩, h3⟩, h4⟩, h5⟩ := h
  refine ⟨?_, h2, h3, h4, ?_, ?_, ?_⟩
  · intro he; simp [he] at h1
  · intro s hs x hx k hk; exact ((h5 s hs x hx).1.1) k hk
  · intro s hs x hx hboth
    have := (h5 s hs x hx).1.2
    simp [hboth.1, hboth.2] at this
  · intro s hs x hx; exact (h5 s hs x hx).2

end PolyplyVerif.Proofs.ItpIO
