/-
Lemmas about the placement state machine `Model/Walk.lean` (C17, C04): characterisation of `nextBuild`,
the index arithmetic of `_rewind` as a split of `placed_nodes`, the loop invariant `WalkInv`, the system
invariant `Inv` (preserved by every `step`, hence by every schedule), the frame lemma (a step touches only
the molecule under construction), the supplied-position invariant `SupInv` (no hypothesis on the input),
and the tree lemma (`treeEdges` of a growth sequence lists parents first).  Core Lean only.
-/
import PolyplyVerif.Model.Walk
namespace PolyplyVerif.Walk

theorem nextBuildAux_some (m : Mol) : ∀ (l : List Edge) (k j : Nat), nextBuildAux m l k = some j →
    k ≤ j ∧ (∃ e, l[j - k]? = some e ∧ m.isBuild e.2 = true) ∧
    ∀ i, i < j - k → ∀ e', l[i]? = some e' → m.isBuild e'.2 = false := by
  intro l
  induction l with
  | nil => intro k j h; simp [nextBuildAux] at h
  | cons e rest ih =>
    intro k j h
    unfold nextBuildAux at h
    split at h
    · rename_i hb
      cases h
      simp [hb]
    · rename_i hb
      obtain ⟨h1, ⟨e', he', hb'⟩, h3⟩ := ih (k + 1) j h
      refine ⟨by omega, ⟨e', ?_, hb'⟩, ?_⟩
      · have : j - k = (j - (k + 1)) + 1 := by omega
        rw [this]; simpa using he'
      · intro i hi e'' he''
        cases i with
        | zero => simp at he''; subst he''; simpa using hb
        | succ i => simp at he''; exact h3 i (by omega) e'' he''

theorem nextBuildAux_none (m : Mol) : ∀ (l : List Edge) (k : Nat), nextBuildAux m l k = none →
    ∀ e ∈ l, m.isBuild e.2 = false := by
  intro l
  induction l with
  | nil => intro k _ e he; simp at he
  | cons e rest ih =>
    intro k h e' he'
    unfold nextBuildAux at h
    split at h
    · simp at h
    · rename_i hb
      rcases List.mem_cons.1 he' with rfl | h'
      · simpa using hb
      · exact ih (k + 1) h e' h'

theorem nextBuild_some {m : Mol} {k j : Nat} (h : nextBuild m k = some j) :
    k ≤ j ∧ (∃ e, m.path[j]? = some e ∧ m.isBuild e.2 = true) ∧
    ∀ i, k ≤ i → i < j → ∀ e', m.path[i]? = some e' → m.isBuild e'.2 = false := by
  obtain ⟨h1, ⟨e, he, hb⟩, h3⟩ := nextBuildAux_some m _ _ _ h
  refine ⟨h1, ⟨e, ?_, hb⟩, ?_⟩
  · rw [List.getElem?_drop] at he
    have : k + (j - k) = j := by omega
    rwa [this] at he
  · intro i hki hij e' he'
    apply h3 (i - k) (by omega) e'
    rw [List.getElem?_drop]
    have : k + (i - k) = i := by omega
    rwa [this]

theorem nextBuild_none {m : Mol} {k : Nat} (h : nextBuild m k = none) :
    ∀ i, k ≤ i → ∀ e', m.path[i]? = some e' → m.isBuild e'.2 = false := by
  intro i hki e' he'
  apply nextBuildAux_none m _ _ h e'
  have : (m.path.drop k)[i - k]? = some e' := by
    rw [List.getElem?_drop]
    have : k + (i - k) = i := by omega
    rwa [this]
  exact List.mem_of_getElem? this


theorem rewind_split (r : Nat) (old : List (Nat × Node)) (x : Nat × Node)
    (h : r + 1 ≤ (old ++ [x]).length) :
    ∃ A B, old = A ++ B ∧ (old ++ [x]).take (rewindIdx r (old ++ [x]).length) = A ∧
      (((old ++ [x]).drop (rewindIdx r (old ++ [x]).length)).dropLast) = B ∧
      (B ++ [x]).head? = some ((old ++ [x]).getD (rewindIdx r (old ++ [x]).length) x) := by
  have h := h
  have hk : rewindIdx r (old ++ [x]).length ≤ old.length := by
    unfold rewindIdx
    split
    · omega
    · simp at h ⊢; omega
  generalize rewindIdx r (old ++ [x]).length = k at hk
  refine ⟨old.take k, old.drop k, (List.take_append_drop k old).symm, ?_, ?_, ?_⟩
  · exact List.take_append_of_le_length hk
  · rw [List.drop_append_of_le_length hk]
    simp
  · rw [← List.drop_append_of_le_length hk, List.head?_drop]
    have : k < (old ++ [x]).length := by simp; omega
    simp [List.getD, List.getElem?_eq_getElem this]


theorem kid_inj {path : List Edge} (hn : (path.map (·.2)).Nodup) {k k' : Nat} {p p' n : Node}
    (h1 : path[k]? = some (p, n)) (h2 : path[k']? = some (p', n)) : k = k' := by
  have a1 : (path.map (·.2))[k]? = some n := by simp [List.getElem?_map, h1]
  have a2 : (path.map (·.2))[k']? = some n := by simp [List.getElem?_map, h2]
  have hk : k < (path.map (·.2)).length := (List.getElem?_eq_some_iff.1 a1).1
  have hk' : k' < (path.map (·.2)).length := (List.getElem?_eq_some_iff.1 a2).1
  have e1 := (List.getElem?_eq_some_iff.1 a1).2
  have e2 := (List.getElem?_eq_some_iff.1 a2).2
  exact (List.getElem_inj hn).1 (e1.trans e2.symm)

theorem kid_mem {path : List Edge} {k : Nat} {p n : Node} (h : path[k]? = some (p, n)) :
    n ∈ path.map (·.2) := by
  have := List.mem_of_getElem? h
  exact List.mem_map.2 ⟨(p, n), this, rfl⟩

/-- invariant of the loop of `_random_walk` for molecule `m` with engine row `e` -/
structure WalkInv (m : Mol) (e : Node → Option Nat) (w : WState) : Prop where
  p1 : ∀ k n, (k, n) ∈ w.placed → k < w.step ∧ (∃ p, m.path[k]? = some (p, n)) ∧ m.isBuild n = true
  p2 : ∀ k p n, k < w.step → m.path[k]? = some (p, n) → m.isBuild n = true → (k, n) ∈ w.placed
  p3 : w.placed.Pairwise (fun a b => a.1 < b.1)
  eB : ∀ n, m.isBuild n = true → n ≠ m.first → ((e n).isSome = true ↔ ∃ k, (k, n) ∈ w.placed)
  eF : (e m.first).isSome = true
  eS : ∀ n, m.isBuild n = false → e n = m.sup n

/-- … and the loop is at a trial: `path[step]` is a built residue -/
structure AtTrial (m : Mol) (e : Node → Option Nat) (w : WState) : Prop extends WalkInv m e w where
  cur : ∃ p c, m.path[w.step]? = some (p, c) ∧ m.isBuild c = true

theorem walkInv_success {m : Mol} (wf : m.WF) {e e' : Node → Option Nat} {w : WState} (inv : WalkInv m e w)
    {p c : Node} {v cnt : Nat} (hc : m.path[w.step]? = some (p, c)) (hb : m.isBuild c = true)
    (he' : ∀ n, e' n = if n = c then some v else e n) :
    WalkInv m e' ⟨w.step + 1, cnt, w.placed ++ [(w.step, c)]⟩ := by
  have hckid : c ∈ m.path.map (·.2) := kid_mem hc
  have hcf : c ≠ m.first := fun h => wf.tree.firstNotKid (h ▸ hckid)
  refine ⟨?_, ?_, ?_, ?_, ?_, ?_⟩
  · intro k n hmem
    rcases List.mem_append.1 hmem with h | h
    · obtain ⟨a, b, c'⟩ := inv.p1 k n h
      exact ⟨by simp; omega, b, c'⟩
    · simp at h
      obtain ⟨rfl, rfl⟩ := h
      exact ⟨by simp, ⟨p, hc⟩, hb⟩
  · intro k p' n hk hp hbn
    simp at hk
    by_cases hlt : k < w.step
    · exact List.mem_append.2 (Or.inl (inv.p2 k p' n hlt hp hbn))
    · have : k = w.step := by omega
      subst this
      rw [hc] at hp
      cases hp
      simp
  · simp only [List.pairwise_append]
    refine ⟨inv.p3, by simp, ?_⟩
    intro a ha b hb'
    simp at hb'
    subst hb'
    exact (inv.p1 a.1 a.2 ha).1
  · intro n hbn hnf
    rw [he']
    by_cases hnc : n = c
    · subst hnc
      simp
    · simp only [hnc, if_false]
      rw [inv.eB n hbn hnf]
      constructor
      · rintro ⟨k, hk⟩; exact ⟨k, List.mem_append.2 (Or.inl hk)⟩
      · rintro ⟨k, hk⟩
        rcases List.mem_append.1 hk with h | h
        · exact ⟨k, h⟩
        · simp at h; exact absurd h.2 hnc
  · rw [he']; simp [Ne.symm hcf, inv.eF]
  · intro n hbn
    have : n ≠ c := by intro h; subst h; rw [hb] at hbn; cases hbn
    rw [he']; simp [this, inv.eS n hbn]


theorem walkInv_rewind {m : Mol} (wf : m.WF) {e e' : Node → Option Nat} {w : WState} (inv : WalkInv m e w)
    {c : Node}
    {A B : List (Nat × Node)} (hsplit : w.placed = A ++ B) {x : Nat × Node} {cnt : Nat}
    (hx : (B ++ [(w.step, c)]).head? = some x)
    (he' : ∀ n, e' n = if n ∈ B.map (·.2) then none else e n) :
    WalkInv m e' ⟨x.1, cnt, A⟩ := by
  have hp3 := inv.p3
  rw [hsplit, List.pairwise_append] at hp3
  obtain ⟨hA, hB, hAB⟩ := hp3
  have memA : ∀ a, a ∈ A → a ∈ w.placed := fun a h => hsplit ▸ List.mem_append.2 (Or.inl h)
  have memB : ∀ a, a ∈ B → a ∈ w.placed := fun a h => hsplit ▸ List.mem_append.2 (Or.inr h)
  -- x is the least element of B ++ [(step, c)]
  have hxle : ∀ b ∈ B, x.1 ≤ b.1 := by
    intro b hb
    cases B with
    | nil => cases hb
    | cons b0 B' =>
      simp at hx; subst hx
      rcases List.mem_cons.1 hb with rfl | h
      · exact Nat.le_refl _
      · exact Nat.le_of_lt ((List.pairwise_cons.1 hB).1 b h)
  have hxstep : x.1 ≤ w.step := by
    cases B with
    | nil => simp at hx; subst hx; exact Nat.le_refl _
    | cons b0 B' =>
      simp at hx; subst hx
      exact Nat.le_of_lt (inv.p1 _ _ (memB _ (List.mem_cons_self))).1
  have hAx : ∀ a ∈ A, a.1 < x.1 := by
    intro a ha
    cases B with
    | nil => simp at hx; subst hx; exact (inv.p1 _ _ (memA a ha)).1
    | cons b0 B' => simp at hx; subst hx; exact hAB a ha _ (List.mem_cons_self)
  have notB : ∀ k n, (k, n) ∈ A → n ∉ B.map (·.2) := by
    intro k n hkA hnB
    obtain ⟨b, hbB, hbn⟩ := List.mem_map.1 hnB
    obtain ⟨_, ⟨p1, hp1⟩, _⟩ := inv.p1 k n (memA _ hkA)
    obtain ⟨_, ⟨p2, hp2⟩, _⟩ := inv.p1 b.1 b.2 (memB _ hbB)
    have hlt := hAB _ hkA _ hbB
    replace hbn : b.2 = n := hbn
    rw [hbn] at hp2
    have := kid_inj wf.tree.kidsNodup hp1 hp2
    simp at hlt; omega
  refine ⟨?_, ?_, hA, ?_, ?_, ?_⟩
  · intro k n hmem
    obtain ⟨_, b, c'⟩ := inv.p1 k n (memA _ hmem)
    exact ⟨hAx _ hmem, b, c'⟩
  · intro k p' n hk hp hbn
    simp at hk
    have hmem := inv.p2 k p' n (by omega) hp hbn
    rw [hsplit] at hmem
    rcases List.mem_append.1 hmem with h | h
    · exact h
    · have := hxle _ h; simp at this; omega
  · intro n hbn hnf
    rw [he']
    constructor
    · intro h
      by_cases hnB : n ∈ B.map (·.2)
      · simp [hnB] at h
      · simp only [hnB, if_false] at h
        obtain ⟨k, hk⟩ := (inv.eB n hbn hnf).1 h
        rw [hsplit] at hk
        rcases List.mem_append.1 hk with h' | h'
        · exact ⟨k, h'⟩
        · exact absurd (List.mem_map.2 ⟨(k, n), h', rfl⟩) hnB
    · rintro ⟨k, hk⟩
      have hnB := notB k n hk
      simp only [hnB, if_false]
      exact (inv.eB n hbn hnf).2 ⟨k, memA _ hk⟩
  · have : m.first ∉ B.map (·.2) := by
      intro h
      obtain ⟨b, hbB, hbn⟩ := List.mem_map.1 h
      obtain ⟨_, ⟨p2, hp2⟩, _⟩ := inv.p1 b.1 b.2 (memB _ hbB)
      replace hbn : b.2 = m.first := hbn
      rw [hbn] at hp2
      exact wf.tree.firstNotKid (kid_mem hp2)
    rw [he']; simp only [this, if_false]; exact inv.eF
  · intro n hbn
    have : n ∉ B.map (·.2) := by
      intro h
      obtain ⟨b, hbB, hbn'⟩ := List.mem_map.1 h
      obtain ⟨_, _, hb3⟩ := inv.p1 b.1 b.2 (memB _ hbB)
      replace hbn' : b.2 = n := hbn'
      rw [hbn', hbn] at hb3; cases hb3
    rw [he']; simp only [this, if_false]; exact inv.eS n hbn

/-- at a trial the parent is positioned and the residue itself is not -/
theorem atTrial_facts {m : Mol} (wf : m.WF) {e : Node → Option Nat} {w : WState} (inv : WalkInv m e w)
    {p c : Node} (hc : m.path[w.step]? = some (p, c)) (hb : m.isBuild c = true) :
    (e p).isSome = true ∧ e c = none := by
  have hckid : c ∈ m.path.map (·.2) := kid_mem hc
  have hcf : c ≠ m.first := fun h => wf.tree.firstNotKid (h ▸ hckid)
  constructor
  · rcases wf.tree.parentFirst _ _ hc with h | ⟨j, e', hj, hje, hjp⟩
    · simp at h; rw [h]; exact inv.eF
    · simp at hjp
      obtain ⟨q, n⟩ := e'
      simp at hjp; subst hjp
      have hnkid : n ∈ m.path.map (·.2) := kid_mem hje
      have hnf : n ≠ m.first := fun h => wf.tree.firstNotKid (h ▸ hnkid)
      cases hbn : m.isBuild n with
      | true => exact (inv.eB n hbn hnf).2 ⟨j, inv.p2 j q n hj hje hbn⟩
      | false =>
        rw [inv.eS n hbn]
        exact wf.keepHasPos n ((wf.span n).2 (Or.inr hnkid)) hbn
  · cases h : e c with
    | none => rfl
    | some v =>
      have : (e c).isSome = true := by simp [h]
      obtain ⟨k, hk⟩ := (inv.eB c hb hcf).1 this
      obtain ⟨hlt, ⟨p', hp'⟩, _⟩ := inv.p1 k c hk
      have := kid_inj wf.tree.kidsNodup hp' hc
      omega

theorem walkInv_advance {m : Mol} {e : Node → Option Nat} {w : WState} (inv : WalkInv m e w) {j : Nat}
    (h : nextBuild m w.step = some j) : AtTrial m e { w with step := j } := by
  obtain ⟨hle, ⟨ed, hed, hbd⟩, hno⟩ := nextBuild_some h
  refine ⟨⟨?_, ?_, inv.p3, inv.eB, inv.eF, inv.eS⟩, ⟨ed.1, ed.2, hed, hbd⟩⟩
  · intro k n hmem
    obtain ⟨a, b, c⟩ := inv.p1 k n hmem
    exact ⟨by simp; omega, b, c⟩
  · intro k p n hk hp hbn
    simp at hk
    by_cases hlt : k < w.step
    · exact inv.p2 k p n hlt hp hbn
    · have := hno k (by omega) hk _ hp
      simp at this; rw [this] at hbn; cases hbn

theorem walkInv_complete {m : Mol} (wf : m.WF) {e : Node → Option Nat} {w : WState} (inv : WalkInv m e w)
    (h : nextBuild m w.step = none) : ∀ n ∈ m.nodes, (e n).isSome = true := by
  intro n hn
  rcases (wf.span n).1 hn with rfl | hkid
  · exact inv.eF
  · have hnf : n ≠ m.first := fun h' => wf.tree.firstNotKid (h' ▸ hkid)
    obtain ⟨ed, hedmem, hedn⟩ := List.mem_map.1 hkid
    obtain ⟨k, hk⟩ := List.getElem?_of_mem hedmem
    obtain ⟨q, n'⟩ := ed
    simp at hedn; subst hedn
    cases hbn : m.isBuild n' with
    | false => rw [inv.eS _ hbn]; exact wf.keepHasPos _ hn hbn
    | true =>
      by_cases hlt : k < w.step
      · exact (inv.eB _ hbn hnf).2 ⟨k, inv.p2 k q _ hlt hk hbn⟩
      · have := nextBuild_none h k (by omega) _ hk
        simp at this; rw [this] at hbn; cases hbn

theorem walkInv_begin {m : Mol} (wf : m.WF) {e : Node → Option Nat} (he : ∀ n, e n = m.sup n)
    (hkey : m.hasKey m.first = true) : WalkInv m e ⟨0, 0, []⟩ := by
  refine ⟨by simp, by simp, by simp, ?_, ?_, fun n _ => he n⟩
  · intro n hbn _
    rw [he n, wf.buildNoPos n hbn]; simp
  · rw [he]; exact hkey

theorem walkInv_start {m : Mol} (wf : m.WF) {e e' : Node → Option Nat} (he : ∀ n, e n = m.sup n)
    (hkey : m.hasKey m.first = false) {v : Nat} (he' : ∀ n, e' n = if n = m.first then some v else e n) :
    WalkInv m e' ⟨0, 0, []⟩ := by
  have hfirst : m.first ∈ m.nodes := (wf.span _).2 (Or.inl rfl)
  have hfb : m.isBuild m.first = true := by
    cases h : m.isBuild m.first with
    | true => rfl
    | false =>
      have := wf.keepHasPos _ hfirst h
      unfold Mol.hasKey at hkey; rw [hkey] at this; cases this
  refine ⟨by simp, by simp, by simp, ?_, ?_, ?_⟩
  · intro n hbn hnf
    rw [he', if_neg hnf, he n, wf.buildNoPos n hbn]; simp
  · rw [he']; simp
  · intro n hbn
    have : n ≠ m.first := by intro h; subst h; rw [hfb] at hbn; cases hbn
    rw [he', if_neg this, he n]

/-- abandoning an attempt: removing the built residues leaves exactly the supplied positions -/
theorem cleanup_row {m : Mol} (wf : m.WF) {e e' : Node → Option Nat}
    (heS : ∀ n, m.isBuild n = false → e n = m.sup n)
    (he' : ∀ n, e' n = if n ∈ m.build then none else e n) : ∀ n, e' n = m.sup n := by
  intro n
  rw [he']
  cases hbn : m.isBuild n with
  | true =>
    have : n ∈ m.build := by simpa [Mol.isBuild] using hbn
    simp [this, wf.buildNoPos n hbn]
  | false =>
    have : n ∉ m.build := by
      intro h; have : m.isBuild n = true := by simpa [Mol.isBuild] using h
      rw [this] at hbn; cases hbn
    simp [this, heS n hbn]


/-! ### the system -/

@[simp] theorem add_same (e : Engine) (i : Nat) (n : Node) (v : Nat) (k : Node) :
    (e.add i n v) i k = if k = n then some v else e i k := by simp [Engine.add]
theorem add_other (e : Engine) {i j : Nat} (h : j ≠ i) (n : Node) (v : Nat) (k : Node) :
    (e.add i n v) j k = e j k := by simp [Engine.add, h]
@[simp] theorem remove_same (e : Engine) (i : Nat) (ns : List Node) (k : Node) :
    (e.remove i ns) i k = if k ∈ ns then none else e i k := by simp [Engine.remove]
theorem remove_other (e : Engine) {i j : Nat} (h : j ≠ i) (ns : List Node) (k : Node) :
    (e.remove i ns) j k = e j k := by simp [Engine.remove, h]

def Untouched (mols : List Mol) (eng : Engine) (js : List Nat) : Prop :=
  ∀ j ∈ js, ∀ n, eng j n = initEngine mols j n

def Complete (mols : List Mol) (eng : Engine) (j : Nat) : Prop :=
  ∀ m, mols[j]? = some m → ∀ n ∈ m.nodes, (eng j n).isSome = true

def PhaseInv (mols : List Mol) (s : Sys) : Prop :=
  match s.phase with
  | .start => ∃ i rest m, s.todo = i :: rest ∧ mols[i]? = some m ∧ (∀ n, s.eng i n = m.sup n) ∧
      m.hasKey m.first = false ∧ Untouched mols s.eng rest
  | .walk w => ∃ i rest m, s.todo = i :: rest ∧ mols[i]? = some m ∧ AtTrial m (s.eng i) w ∧
      Untouched mols s.eng rest
  | .done => s.todo = []
  | .stuck => False

structure Inv (mols : List Mol) (s : Sys) : Prop where
  suffix : s.todo <:+ work mols
  done : ∀ j ∈ work mols, j ∉ s.todo → Complete mols s.eng j
  phase : PhaseInv mols s

theorem work_nodup (mols : List Mol) : (work mols).Nodup :=
  List.Nodup.sublist List.filter_sublist List.nodup_range

theorem mem_work {mols : List Mol} {j : Nat} (h : j ∈ work mols) :
    ∃ m, mols[j]? = some m ∧ m.needsBuild = true := by
  unfold work at h
  obtain ⟨_, h2⟩ := List.mem_filter.1 h
  cases hm : mols[j]? with
  | none => simp [hm] at h2
  | some m => exact ⟨m, rfl, by simpa [hm] using h2⟩

theorem init_row {mols : List Mol} {j : Nat} {m : Mol} (hm : mols[j]? = some m)
    (hb : m.needsBuild = true) (n : Node) : initEngine mols j n = m.sup n := by
  have : m.ignored = false := by
    unfold Mol.needsBuild at hb
    cases h : m.ignored with
    | false => rfl
    | true => simp [h] at hb
  simp [initEngine, hm, this]

theorem head_facts {mols : List Mol} {i : Nat} {rest : List Nat} (h : (i :: rest) <:+ work mols) :
    i ∈ work mols ∧ i ∉ rest ∧ rest <:+ work mols := by
  have hnd : (i :: rest).Nodup := List.Nodup.sublist h.sublist (work_nodup mols)
  refine ⟨h.subset (List.mem_cons_self), (List.nodup_cons.1 hnd).1, ?_⟩
  exact (List.suffix_cons i rest).trans h

theorem inv_begin {mols : List Mol} (wfs : AllWF mols) (eng : Engine) (ctr : Nat) (todo : List Nat)
    (hsuf : todo <:+ work mols) (hdone : ∀ j ∈ work mols, j ∉ todo → Complete mols eng j)
    (hun : Untouched mols eng todo) : Inv mols (beginAttempt mols eng ctr todo) := by
  cases todo with
  | nil => exact ⟨by simp [beginAttempt], by simpa [beginAttempt] using hdone, by simp [beginAttempt, PhaseInv]⟩
  | cons i rest =>
    obtain ⟨hiw, hir, hrest⟩ := head_facts hsuf
    obtain ⟨m, hm, hnb⟩ := mem_work hiw
    have wf := wfs i hiw m hm
    have hrow : ∀ n, eng i n = m.sup n := fun n => by
      rw [hun i (List.mem_cons_self) n, init_row hm hnb]
    have hunr : Untouched mols eng rest := fun j hj => hun j (List.mem_cons_of_mem _ hj)
    unfold beginAttempt
    simp only [hm]
    split
    · rename_i hkey
      have w0 := walkInv_begin wf hrow hkey
      split
      · rename_i j hj
        exact ⟨hsuf, hdone, by
          simp only [PhaseInv]
          exact ⟨i, rest, m, rfl, hm, walkInv_advance w0 hj, hunr⟩⟩
      · rename_i hj
        exfalso
        have hall := walkInv_complete wf w0 hj
        have : m.nodes.all m.hasKey = true := by
          rw [List.all_eq_true]
          intro n hn
          have := hall n hn
          rw [hrow n] at this
          exact this
        unfold Mol.needsBuild at hnb
        simp [this] at hnb
    · rename_i hkey
      exact ⟨hsuf, hdone, by
        simp only [PhaseInv]
        exact ⟨i, rest, m, rfl, hm, hrow, by simp [hkey], hunr⟩⟩

theorem inv_fail {mols : List Mol} (wfs : AllWF mols) (eng : Engine) (ctr : Nat) (i : Nat) (rest : List Nat)
    (m : Mol) (hm : mols[i]? = some m)
    (hsuf : (i :: rest) <:+ work mols) (hdone : ∀ j ∈ work mols, j ∉ (i :: rest) → Complete mols eng j)
    (heS : ∀ n, m.isBuild n = false → eng i n = m.sup n)
    (hun : Untouched mols eng rest) : Inv mols (failAttempt mols eng ctr i rest m) := by
  obtain ⟨hiw, hir, hrest⟩ := head_facts hsuf
  obtain ⟨m', hm', hnb⟩ := mem_work hiw
  rw [hm] at hm'; cases hm'
  have wf := wfs i hiw m hm
  unfold failAttempt
  apply inv_begin wfs _ _ _ hsuf
  · intro j hj hjn m' hm' n hn
    have : j ≠ i := fun h => hjn (h ▸ List.mem_cons_self)
    rw [remove_other _ this]
    exact hdone j hj hjn m' hm' n hn
  · intro j hj n
    rcases List.mem_cons.1 hj with rfl | hj'
    · rw [init_row hm hnb]
      exact cleanup_row wf heS (fun n => by simp) n
    · have : j ≠ i := fun h => hir (h ▸ hj')
      rw [remove_other _ this]
      exact hun j hj' n

theorem inv_after {mols : List Mol} (wfs : AllWF mols) (eng : Engine) (ctr : Nat) (i : Nat) (rest : List Nat)
    (m : Mol) (hm : mols[i]? = some m) (w : WState) (ok : Bool)
    (hsuf : (i :: rest) <:+ work mols) (hdone : ∀ j ∈ work mols, j ∉ (i :: rest) → Complete mols eng j)
    (hw : WalkInv m (eng i) w) (hun : Untouched mols eng rest) :
    Inv mols (afterTrial mols eng ctr i rest m w ok) := by
  obtain ⟨hiw, hir, hrest⟩ := head_facts hsuf
  have wf := wfs i hiw m hm
  unfold afterTrial
  split
  · rename_i j hj
    exact ⟨hsuf, hdone, by
      simp only [PhaseInv]
      exact ⟨i, rest, m, rfl, hm, walkInv_advance hw hj, hun⟩⟩
  · rename_i hj
    split
    · apply inv_begin wfs _ _ _ hrest _ hun
      intro j hj' hjn
      by_cases hji : j = i
      · subst hji
        intro m' hm'
        rw [hm] at hm'; cases hm'
        exact walkInv_complete wf hw hj
      · exact hdone j hj' (by simp [hji, hjn])
    · exact inv_fail wfs eng ctr i rest m hm hsuf hdone hw.eS hun


theorem inv_step {cfg : Cfg} {mols : List Mol} (wfs : AllWF mols) {s : Sys} (inv : Inv mols s) (b : Bool) :
    Inv mols (step cfg mols s b) := by
  obtain ⟨hsuf, hdone, hph⟩ := inv
  unfold PhaseInv at hph
  cases hphase : s.phase with
  | start =>
    rw [hphase] at hph
    obtain ⟨i, rest, m, htodo, hm, hrow, hkey, hun⟩ := hph
    rw [htodo] at hsuf hdone
    obtain ⟨hiw, hir, hrest⟩ := head_facts hsuf
    have wf := wfs i hiw m hm
    simp only [step, hphase, htodo, hm]
    cases b with
    | true =>
      simp only [if_true]
      apply inv_after wfs _ _ i rest m hm _ _ hsuf
      · intro j hj hjn m' hm' n hn
        have : j ≠ i := fun h => hjn (h ▸ List.mem_cons_self)
        rw [add_other _ this]
        exact hdone j hj hjn m' hm' n hn
      · exact walkInv_start wf hrow hkey (v := s.ctr) (fun n => by simp)
      · intro j hj n
        have : j ≠ i := fun h => hir (h ▸ hj)
        rw [add_other _ this]
        exact hun j hj n
    | false =>
      simp only [Bool.false_eq_true, if_false]
      exact inv_fail wfs _ _ i rest m hm hsuf hdone (fun n _ => hrow n) hun
  | walk w =>
    rw [hphase] at hph
    obtain ⟨i, rest, m, htodo, hm, hat, hun⟩ := hph
    rw [htodo] at hsuf hdone
    obtain ⟨hiw, hir, hrest⟩ := head_facts hsuf
    have wf := wfs i hiw m hm
    obtain ⟨p, c, hc, hb⟩ := hat.cur
    have hw := hat.toWalkInv
    simp only [step, hphase, htodo, hm, hc]
    cases b with
    | true =>
      simp only [if_true]
      apply inv_after wfs _ _ i rest m hm _ _ hsuf
      · intro j hj hjn m' hm' n hn
        have : j ≠ i := fun h => hjn (h ▸ List.mem_cons_self)
        rw [add_other _ this]
        exact hdone j hj hjn m' hm' n hn
      · exact walkInv_success wf hw hc hb (v := s.ctr) (fun n => by simp)
      · intro j hj n
        have : j ≠ i := fun h => hir (h ▸ hj)
        rw [add_other _ this]
        exact hun j hj n
    | false =>
      simp only [Bool.false_eq_true, if_false]
      split
      · rename_i hcond
        obtain ⟨A, B, hsplit, htake, hdrop, hhead⟩ := rewind_split cfg.nrewind w.placed (w.step, c) hcond.2
        rw [htake, hdrop]
        apply inv_after wfs _ _ i rest m hm _ _ hsuf
        · intro j hj hjn m' hm' n hn
          have : j ≠ i := fun h => hjn (h ▸ List.mem_cons_self)
          rw [remove_other _ this]
          exact hdone j hj hjn m' hm' n hn
        · exact walkInv_rewind wf hw hsplit hhead (fun n => by simp)
        · intro j hj n
          have : j ≠ i := fun h => hir (h ▸ hj)
          rw [remove_other _ this]
          exact hun j hj n
      · exact inv_fail wfs _ _ i rest m hm hsuf hdone hw.eS hun
  | done =>
    have : step cfg mols s b = s := by simp [step, hphase]
    rw [this]
    exact ⟨hsuf, hdone, by unfold PhaseInv; rw [hphase]; rw [hphase] at hph; exact hph⟩
  | stuck => rw [hphase] at hph; exact hph.elim

theorem inv_init {mols : List Mol} (wfs : AllWF mols) : Inv mols (init mols) := by
  unfold init
  apply inv_begin wfs _ _ _ (List.suffix_refl _)
  · intro j hj hjn; exact absurd hj hjn
  · intro j _ n; rfl

theorem inv_run {cfg : Cfg} {mols : List Mol} (wfs : AllWF mols) (sched : List Bool) :
    ∀ s, Inv mols s → Inv mols (run cfg mols sched s) := by
  induction sched with
  | nil => intro s h; exact h
  | cons b rest ih => intro s h; exact ih _ (inv_step wfs h b)


/-! ### frame: a step only touches the molecule under construction (no hypothesis on the input) -/

theorem beginAttempt_eng (mols : List Mol) (eng : Engine) (ctr : Nat) (todo : List Nat) :
    (beginAttempt mols eng ctr todo).eng = eng ∧ (beginAttempt mols eng ctr todo).todo = todo := by
  unfold beginAttempt
  split
  · exact ⟨rfl, rfl⟩
  · split
    · exact ⟨rfl, rfl⟩
    · split
      · split <;> exact ⟨rfl, rfl⟩
      · exact ⟨rfl, rfl⟩

theorem failAttempt_frame (mols : List Mol) (eng : Engine) (ctr i : Nat) (rest : List Nat) (m : Mol) :
    (failAttempt mols eng ctr i rest m).eng = eng.remove i m.build ∧
    (failAttempt mols eng ctr i rest m).todo = i :: rest := by
  unfold failAttempt; exact beginAttempt_eng _ _ _ _

theorem afterTrial_frame (mols : List Mol) (eng : Engine) (ctr i : Nat) (rest : List Nat) (m : Mol)
    (w : WState) (ok : Bool) :
    ((afterTrial mols eng ctr i rest m w ok).eng = eng ∨
      (afterTrial mols eng ctr i rest m w ok).eng = eng.remove i m.build) ∧
    ((afterTrial mols eng ctr i rest m w ok).todo = i :: rest ∨
      (afterTrial mols eng ctr i rest m w ok).todo = rest) := by
  unfold afterTrial
  split
  · exact ⟨Or.inl rfl, Or.inl rfl⟩
  · split
    · have := beginAttempt_eng mols eng ctr rest
      exact ⟨Or.inl this.1, Or.inr this.2⟩
    · have := failAttempt_frame mols eng ctr i rest m
      exact ⟨Or.inr this.1, Or.inl this.2⟩

/-- one step changes the engine row of no molecule other than the head of `todo`, and `todo` only shrinks -/
theorem step_frame (cfg : Cfg) (mols : List Mol) (s : Sys) (b : Bool) :
    (∀ j, s.todo.head? ≠ some j → ∀ n, (step cfg mols s b).eng j n = s.eng j n) ∧
    (∀ x, x ∈ (step cfg mols s b).todo → x ∈ s.todo) := by
  have hrem : ∀ (e : Engine) (i : Nat) (ns : List Node) (j : Nat), j ≠ i → ∀ n, (e.remove i ns) j n = e j n :=
    fun e i ns j h n => remove_other e h ns n
  have hadd : ∀ (e : Engine) (i : Nat) (c v : Nat) (j : Nat), j ≠ i → ∀ n, (e.add i c v) j n = e j n :=
    fun e i c v j h n => add_other e h c v n
  unfold step
  split
  · rename_i i rest hph htodo
    split
    · exact ⟨fun _ _ _ => rfl, fun _ h => h⟩
    · rename_i m hm
      have hne : ∀ j, s.todo.head? ≠ some j → j ≠ i := by
        intro j hj hji; apply hj; rw [htodo, hji]; rfl
      split
      · obtain ⟨he, ht⟩ := afterTrial_frame mols (s.eng.add i m.first s.ctr) (s.ctr + 1) i rest m ⟨0, 0, []⟩ true
        refine ⟨fun j hj n => ?_, fun x hx => ?_⟩
        · rcases he with he | he <;> rw [he]
          · exact hadd _ _ _ _ _ (hne j hj) n
          · rw [hrem _ _ _ _ (hne j hj)]; exact hadd _ _ _ _ _ (hne j hj) n
        · rw [htodo]; rcases ht with ht | ht <;> rw [ht] at hx
          · exact hx
          · exact List.mem_cons_of_mem _ hx
      · obtain ⟨he, ht⟩ := failAttempt_frame mols s.eng s.ctr i rest m
        refine ⟨fun j hj n => ?_, fun x hx => ?_⟩
        · rw [he]; exact hrem _ _ _ _ (hne j hj) n
        · rw [htodo]; rw [ht] at hx; exact hx
  · rename_i w i rest hph htodo
    split
    · exact ⟨fun _ _ _ => rfl, fun _ h => h⟩
    · rename_i m hm
      have hne : ∀ j, s.todo.head? ≠ some j → j ≠ i := by
        intro j hj hji; apply hj; rw [htodo, hji]; rfl
      split
      · exact ⟨fun _ _ _ => rfl, fun _ h => h⟩
      · rename_i p cur hc
        split
        · obtain ⟨he, ht⟩ := afterTrial_frame mols (s.eng.add i cur s.ctr) (s.ctr + 1) i rest m
            ⟨w.step + 1, 1, w.placed ++ [(w.step, cur)]⟩ true
          refine ⟨fun j hj n => ?_, fun x hx => ?_⟩
          · rcases he with he | he <;> rw [he]
            · exact hadd _ _ _ _ _ (hne j hj) n
            · rw [hrem _ _ _ _ (hne j hj)]; exact hadd _ _ _ _ _ (hne j hj) n
          · rw [htodo]; rcases ht with ht | ht <;> rw [ht] at hx
            · exact hx
            · exact List.mem_cons_of_mem _ hx
        · dsimp only
          split
          · generalize hrm : (List.map (fun x => x.2)
                ((List.drop (rewindIdx cfg.nrewind (w.placed ++ [(w.step, cur)]).length) (w.placed ++ [(w.step, cur)])).dropLast)) = removed
            generalize hw' : (⟨((w.placed ++ [(w.step, cur)]).getD (rewindIdx cfg.nrewind (w.placed ++ [(w.step, cur)]).length) (w.step, cur)).1,
                w.count + 1, List.take (rewindIdx cfg.nrewind (w.placed ++ [(w.step, cur)]).length) (w.placed ++ [(w.step, cur)])⟩ : WState) = w'
            obtain ⟨he, ht⟩ := afterTrial_frame mols (s.eng.remove i removed) s.ctr i rest m w' false
            refine ⟨fun j hj n => ?_, fun x hx => ?_⟩
            · rcases he with he | he <;> rw [he]
              · exact hrem _ _ _ _ (hne j hj) n
              · rw [hrem _ _ _ _ (hne j hj)]; exact hrem _ _ _ _ (hne j hj) n
            · rw [htodo]; rcases ht with ht | ht <;> rw [ht] at hx
              · exact hx
              · exact List.mem_cons_of_mem _ hx
          · obtain ⟨he, ht⟩ := failAttempt_frame mols s.eng s.ctr i rest m
            refine ⟨fun j hj n => ?_, fun x hx => ?_⟩
            · rw [he]; exact hrem _ _ _ _ (hne j hj) n
            · rw [htodo]; rw [ht] at hx; exact hx
  · exact ⟨fun _ _ _ => rfl, fun _ h => h⟩

/-- molecules that are not (or no longer) in `todo` keep their engine row for the rest of the run -/
theorem run_frame (cfg : Cfg) (mols : List Mol) (sched : List Bool) :
    ∀ (s : Sys) (j : Nat), j ∉ s.todo → ∀ n, (run cfg mols sched s).eng j n = s.eng j n := by
  induction sched with
  | nil => intro s j _ n; rfl
  | cons b rest ih =>
    intro s j hj n
    obtain ⟨h1, h2⟩ := step_frame cfg mols s b
    have hj' : j ∉ (step cfg mols s b).todo := fun h => hj (h2 j h)
    have hhead : s.todo.head? ≠ some j := by
      intro h
      cases htd : s.todo with
      | nil => rw [htd] at h; cases h
      | cons a t => rw [htd] at h; simp at h; apply hj; rw [htd, h]; exact List.mem_cons_self
    show (run cfg mols rest (step cfg mols s b)).eng j n = s.eng j n
    rw [ih _ j hj' n, h1 j hhead n]


/-! ### supplied positions are never lost or moved (no hypothesis on the input) -/

/-- every supplied position of a residue that is not built is in the engine, unchanged -/
def Kept (mols : List Mol) (eng : Engine) : Prop :=
  ∀ j m n v, mols[j]? = some m → m.ignored = false → m.sup n = some v → m.isBuild n = false →
    eng j n = some v

def SupPhase (mols : List Mol) (s : Sys) : Prop :=
  match s.phase with
  | .start => ∀ i rest m, s.todo = i :: rest → mols[i]? = some m → m.hasKey m.first = false
  | .walk w => ∀ i rest m, s.todo = i :: rest → mols[i]? = some m →
      (∀ kn ∈ w.placed, m.isBuild kn.2 = true) ∧ ∃ p c, m.path[w.step]? = some (p, c) ∧ m.isBuild c = true
  | _ => True

structure SupInv (mols : List Mol) (s : Sys) : Prop where
  kept : Kept mols s.eng
  ph : SupPhase mols s

theorem kept_remove {mols : List Mol} {eng : Engine} (h : Kept mols eng) {i : Nat} {m : Mol}
    (hm : mols[i]? = some m) {ns : List Node} (hns : ∀ n ∈ ns, m.isBuild n = true) :
    Kept mols (eng.remove i ns) := by
  intro j m' n v hm' hig hs hb
  by_cases hji : j = i
  · subst hji
    rw [hm] at hm'; cases hm'
    have : n ∉ ns := fun hn => by rw [hns n hn] at hb; cases hb
    simp [this, h j m n v hm hig hs hb]
  · rw [remove_other _ hji]; exact h j m' n v hm' hig hs hb

theorem kept_add {mols : List Mol} {eng : Engine} (h : Kept mols eng) {i : Nat} {m : Mol}
    (hm : mols[i]? = some m) {c : Node} (hc : m.isBuild c = true ∨ m.sup c = none) (v : Nat) :
    Kept mols (eng.add i c v) := by
  intro j m' n v' hm' hig hs hb
  by_cases hji : j = i
  · subst hji
    rw [hm] at hm'; cases hm'
    have : n ≠ c := by
      intro hn; subst hn
      rcases hc with hc | hc
      · rw [hc] at hb; cases hb
      · rw [hc] at hs; cases hs
    simp [this, h j m n v' hm hig hs hb]
  · rw [add_other _ hji]; exact h j m' n v' hm' hig hs hb

theorem build_mem {m : Mol} : ∀ n ∈ m.build, m.isBuild n = true := by
  intro n hn; simpa [Mol.isBuild] using hn

theorem sup_begin {mols : List Mol} {eng : Engine} (h : Kept mols eng) (ctr : Nat) (todo : List Nat) :
    SupInv mols (beginAttempt mols eng ctr todo) := by
  unfold beginAttempt
  split
  · exact ⟨h, by simp [SupPhase]⟩
  · rename_i i rest
    split
    · exact ⟨h, by simp [SupPhase]⟩
    · rename_i m hm
      split
      · split
        · rename_i j hj
          refine ⟨h, ?_⟩
          simp only [SupPhase]
          intro i' rest' m' htd hm'
          cases htd
          rw [hm] at hm'; cases hm'
          obtain ⟨_, ⟨ed, hed, hbd⟩, _⟩ := nextBuild_some hj
          exact ⟨by simp, ed.1, ed.2, hed, hbd⟩
        · exact ⟨h, by simp [SupPhase]⟩
      · rename_i hkey
        refine ⟨h, ?_⟩
        simp only [SupPhase]
        intro i' rest' m' htd hm'
        cases htd
        rw [hm] at hm'; cases hm'
        simpa using hkey

theorem sup_fail {mols : List Mol} {eng : Engine} (h : Kept mols eng) (ctr i : Nat) (rest : List Nat)
    {m : Mol} (hm : mols[i]? = some m) : SupInv mols (failAttempt mols eng ctr i rest m) := by
  unfold failAttempt
  exact sup_begin (kept_remove h hm build_mem) _ _

theorem sup_after {mols : List Mol} {eng : Engine} (h : Kept mols eng) (ctr i : Nat) (rest : List Nat)
    {m : Mol} (hm : mols[i]? = some m) (w : WState) (ok : Bool)
    (hpl : ∀ kn ∈ w.placed, m.isBuild kn.2 = true) :
    SupInv mols (afterTrial mols eng ctr i rest m w ok) := by
  unfold afterTrial
  split
  · rename_i j hj
    refine ⟨h, ?_⟩
    simp only [SupPhase]
    intro i' rest' m' htd hm'
    cases htd
    rw [hm] at hm'; cases hm'
    obtain ⟨_, ⟨ed, hed, hbd⟩, _⟩ := nextBuild_some hj
    exact ⟨hpl, ed.1, ed.2, hed, hbd⟩
  · split
    · exact sup_begin h _ _
    · exact sup_fail h _ _ _ hm

theorem sup_step {cfg : Cfg} {mols : List Mol} {s : Sys} (inv : SupInv mols s) (b : Bool) :
    SupInv mols (step cfg mols s b) := by
  obtain ⟨hk, hph⟩ := inv
  unfold SupPhase at hph
  unfold step
  split
  · rename_i i rest hphase htodo
    split
    · exact ⟨hk, by unfold SupPhase; rw [hphase]; rw [hphase] at hph; exact hph⟩
    · rename_i m hm
      rw [hphase] at hph
      have hkey := hph i rest m htodo hm
      split
      · apply sup_after _ _ _ _ hm _ _ (by simp)
        apply kept_add hk hm
        right
        unfold Mol.hasKey at hkey
        cases hs : m.sup m.first with
        | none => rfl
        | some v => rw [hs] at hkey; cases hkey
      · exact sup_fail hk _ _ _ hm
  · rename_i w i rest hphase htodo
    split
    · exact ⟨hk, by unfold SupPhase; rw [hphase]; rw [hphase] at hph; exact hph⟩
    · rename_i m hm
      rw [hphase] at hph
      obtain ⟨hpl, p, c, hc, hb⟩ := hph i rest m htodo hm
      rw [hc]
      dsimp only
      have hpl' : ∀ kn ∈ w.placed ++ [(w.step, c)], m.isBuild kn.2 = true := by
        intro kn hkn
        rcases List.mem_append.1 hkn with h | h
        · exact hpl kn h
        · simp at h; subst h; exact hb
      split
      · exact sup_after (kept_add hk hm (Or.inl hb) _) _ _ _ hm _ _ hpl'
      · split
        · apply sup_after _ _ _ _ hm
          · intro kn hkn
            exact hpl' kn (List.mem_of_mem_take hkn)
          · apply kept_remove hk hm
            intro n hn
            obtain ⟨kn, hkn, rfl⟩ := List.mem_map.1 hn
            exact hpl' kn (List.mem_of_mem_drop (List.dropLast_subset _ hkn))
        · exact sup_fail hk _ _ _ hm
  · rename_i hno
    refine ⟨hk, ?_⟩
    unfold SupPhase
    cases hp : s.phase with
    | start => rw [hp] at hph; exact hph
    | walk w => rw [hp] at hph; exact hph
    | done => trivial
    | stuck => trivial

theorem kept_init (mols : List Mol) : Kept mols (initEngine mols) := by
  intro j m n v hm hig hs _
  simp [initEngine, hm, hig, hs]

theorem sup_init (mols : List Mol) : SupInv mols (init mols) := sup_begin (kept_init mols) _ _

theorem sup_run {cfg : Cfg} {mols : List Mol} (sched : List Bool) :
    ∀ s, SupInv mols s → SupInv mols (run cfg mols sched s) := by
  induction sched with
  | nil => intro s h; exact h
  | cons b rest ih => intro s h; exact ih _ (sup_step h b)

end PolyplyVerif.Walk

namespace PolyplyVerif.Proofs.Walk
open PolyplyVerif PolyplyVerif.Walk

theorem inv_reach (cfg : Cfg) (mols : List Mol) (wfs : AllWF mols) (sched : List Bool) :
    Inv mols (run cfg mols sched (init mols)) := inv_run wfs sched _ (inv_init wfs)

theorem rollback (cfg : Cfg) (mols : List Mol) (wfs : AllWF mols) (sched : List Bool) :
    let s := run cfg mols sched (init mols)
    match s.phase with
    | .walk w => ∃ i rest m, s.todo = i :: rest ∧ mols[i]? = some m ∧
        (∀ k n, (k, n) ∈ w.placed ↔ k < w.step ∧ (∃ p, m.path[k]? = some (p, n)) ∧ m.isBuild n = true) ∧
        (∀ n, (s.eng i n).isSome = true ↔ (m.sup n).isSome = true ∨ n = m.first ∨ ∃ k, (k, n) ∈ w.placed) ∧
        (∀ k p n, w.step ≤ k → m.path[k]? = some (p, n) → m.isBuild n = true → s.eng i n = none)
    | .start => ∃ i rest m, s.todo = i :: rest ∧ mols[i]? = some m ∧ ∀ n, s.eng i n = m.sup n
    | .done => s.todo = []
    | .stuck => False := by
  intro s
  have inv := inv_reach cfg mols wfs sched
  obtain ⟨hsuf, _, hph⟩ := inv
  unfold PhaseInv at hph
  show match s.phase with
    | .walk w => _
    | .start => _
    | .done => _
    | .stuck => _
  cases hphase : s.phase with
  | start =>
    have hph' := hph
    rw [show (run cfg mols sched (init mols)).phase = Phase.start from hphase] at hph'
    obtain ⟨i, rest, m, htodo, hm, hrow, _, _⟩ := hph'
    exact ⟨i, rest, m, htodo, hm, hrow⟩
  | done =>
    have hph' := hph
    rw [show (run cfg mols sched (init mols)).phase = Phase.done from hphase] at hph'
    exact hph'
  | stuck =>
    have hph' := hph
    rw [show (run cfg mols sched (init mols)).phase = Phase.stuck from hphase] at hph'
    exact hph'
  | walk w =>
    have hph' := hph
    rw [show (run cfg mols sched (init mols)).phase = Phase.walk w from hphase] at hph'
    obtain ⟨i, rest, m, htodo, hm, hat, _⟩ := hph'
    have hsuf' : (i :: rest) <:+ work mols := htodo ▸ hsuf
    have wf := wfs i (head_facts hsuf').1 m hm
    have hw := hat.toWalkInv
    refine ⟨i, rest, m, htodo, hm, ?_, ?_, ?_⟩
    · intro k n
      constructor
      · exact hw.p1 k n
      · rintro ⟨hk, ⟨p, hp⟩, hb⟩; exact hw.p2 k p n hk hp hb
    · intro n
      constructor
      · intro hsome
        cases hb : m.isBuild n with
        | false => left; rw [← hw.eS n hb]; exact hsome
        | true =>
          by_cases hnf : n = m.first
          · exact Or.inr (Or.inl hnf)
          · exact Or.inr (Or.inr ((hw.eB n hb hnf).1 hsome))
      · rintro (hs | hf | ⟨k, hk⟩)
        · cases hb : m.isBuild n with
          | false => rw [hw.eS n hb]; exact hs
          | true => rw [wf.buildNoPos n hb] at hs; cases hs
        · rw [hf]; exact hw.eF
        · obtain ⟨_, ⟨p, hp⟩, hb⟩ := hw.p1 k n hk
          have hnf : n ≠ m.first := fun h => wf.tree.firstNotKid (h ▸ kid_mem hp)
          exact (hw.eB n hb hnf).2 ⟨k, hk⟩
    · intro k p n hk hp hb
      have hnf : n ≠ m.first := fun h => wf.tree.firstNotKid (h ▸ kid_mem hp)
      cases hv : (run cfg mols sched (init mols)).eng i n with
      | none => rfl
      | some v =>
        have hsome : ((run cfg mols sched (init mols)).eng i n).isSome = true := by simp [hv]
        obtain ⟨k', hk'⟩ := (hw.eB n hb hnf).1 hsome
        obtain ⟨hlt, ⟨p', hp'⟩, _⟩ := hw.p1 k' n hk'
        have := kid_inj wf.tree.kidsNodup hp' hp
        omega

theorem parent_first_of_inv (mols : List Mol) (wfs : AllWF mols) (s : Sys) (inv : Inv mols s)
    (i : Nat) (parent : Option Node) (c : Node) (h : s.trial mols = some (i, parent, c)) :
    ∃ m, mols[i]? = some m ∧ m.ignored = false ∧ m.isBuild c = true ∧ s.eng i c = none ∧
      (∀ p, parent = some p → (p, c) ∈ m.path ∧ (s.eng i p).isSome = true) ∧
      (parent = none → c = m.first) := by
  obtain ⟨hsuf, _, hph⟩ := inv
  unfold PhaseInv at hph
  unfold Sys.trial at h
  have hign : ∀ {i' : Nat} {m : Mol}, i' ∈ work mols → mols[i']? = some m → m.ignored = false := by
    intro i' m hi hm
    obtain ⟨m', hm', hnb⟩ := mem_work hi
    rw [hm] at hm'; cases hm'
    unfold Mol.needsBuild at hnb
    cases hig : m.ignored with
    | false => rfl
    | true => simp [hig] at hnb
  cases hphase : s.phase with
  | start =>
    rw [hphase] at hph h
    obtain ⟨i', rest, m, htodo, hm, hrow, hkey, _⟩ := hph
    rw [htodo] at h hsuf
    have hiw := (head_facts hsuf).1
    have wf := wfs i' hiw m hm
    simp [hm] at h
    obtain ⟨rfl, rfl, rfl⟩ := h
    have hfirst : m.first ∈ m.nodes := (wf.span _).2 (Or.inl rfl)
    have hfb : m.isBuild m.first = true := by
      cases hb : m.isBuild m.first with
      | true => rfl
      | false =>
        have := wf.keepHasPos _ hfirst hb
        unfold Mol.hasKey at hkey; rw [hkey] at this; cases this
    refine ⟨m, hm, hign hiw hm, hfb, ?_, fun p hp => (by cases hp), fun _ => rfl⟩
    rw [hrow, wf.buildNoPos _ hfb]
  | walk w =>
    rw [hphase] at hph h
    obtain ⟨i', rest, m, htodo, hm, hat, _⟩ := hph
    rw [htodo] at h hsuf
    have hiw := (head_facts hsuf).1
    have wf := wfs i' hiw m hm
    obtain ⟨p, c', hc, hb⟩ := hat.cur
    simp [hm, hc] at h
    obtain ⟨rfl, rfl, rfl⟩ := h
    obtain ⟨hpar, hfresh⟩ := atTrial_facts wf hat.toWalkInv hc hb
    exact ⟨m, hm, hign hiw hm, hb, hfresh, fun p' hp' => (by cases hp'; exact ⟨List.mem_of_getElem? hc, hpar⟩), fun hn => (by cases hn)⟩
  | done => rw [hphase] at h; simp at h
  | stuck => rw [hphase] at h; simp at h


theorem parent_first (cfg : Cfg) (mols : List Mol) (wfs : AllWF mols) (sched : List Bool)
    (i : Nat) (parent : Option Node) (c : Node)
    (h : (run cfg mols sched (init mols)).trial mols = some (i, parent, c)) :
    ∃ m, mols[i]? = some m ∧ m.ignored = false ∧ m.isBuild c = true ∧
      (run cfg mols sched (init mols)).eng i c = none ∧
      (∀ p, parent = some p → (p, c) ∈ m.path ∧ ((run cfg mols sched (init mols)).eng i p).isSome = true) ∧
      (parent = none → c = m.first) :=
  parent_first_of_inv mols wfs _ (inv_reach cfg mols wfs sched) i parent c h

theorem complete (cfg : Cfg) (mols : List Mol) (wfs : AllWF mols) (sched : List Bool)
    (hdone : (run cfg mols sched (init mols)).phase = .done) (j : Nat) (m : Mol)
    (hm : mols[j]? = some m) (hig : m.ignored = false) (n : Node) (hn : n ∈ m.nodes) :
    ((run cfg mols sched (init mols)).eng j n).isSome = true := by
  have inv := inv_reach cfg mols wfs sched
  obtain ⟨_, hdn, hph⟩ := inv
  unfold PhaseInv at hph
  rw [hdone] at hph
  by_cases hjw : j ∈ work mols
  · exact hdn j hjw (by rw [hph]; simp) m hm n hn
  · -- never part of the work: every residue is supplied, and nothing touched the molecule
    have hinit : (init mols).todo = work mols := (beginAttempt_eng mols _ _ _).2
    have hfr := run_frame cfg mols sched (init mols) j (by rw [hinit]; exact hjw) n
    rw [hfr]
    have hie : (init mols).eng = initEngine mols := (beginAttempt_eng mols _ _ _).1
    rw [hie]
    have hlen : j < mols.length := (List.getElem?_eq_some_iff.1 hm).1
    have hnb : m.needsBuild = false := by
      cases hnb : m.needsBuild with
      | false => rfl
      | true =>
        exfalso; apply hjw
        unfold work
        exact List.mem_filter.2 ⟨List.mem_range.2 hlen, by simp [hm, hnb]⟩
    unfold Mol.needsBuild at hnb
    simp [hig] at hnb
    have := hnb n hn
    simp [initEngine, hm, hig]
    exact this



/-! ### `list(T.edges)` of a growth sequence is a tree listed parents first -/

theorem digraphNodes_foldl (acc : List Node) (es : List Edge) (h : Growth acc es) :
    es.foldl digraphStep acc = acc ++ es.map (·.2) := by
  induction es generalizing acc with
  | nil => simp
  | cons e es ih =>
    obtain ⟨h1, h2, h3⟩ := h
    simp only [List.foldl_cons]
    have c1 : acc.contains e.1 = true := by simpa using h1
    have c2 : acc.contains e.2 = false := by simpa using h2
    have : digraphStep acc e = acc ++ [e.2] := by simp [digraphStep, h1, h2]
    rw [this, ih _ h3]
    simp

theorem growth_nodup (acc : List Node) (es : List Edge) (hacc : acc.Nodup) (h : Growth acc es) :
    (acc ++ es.map (·.2)).Nodup := by
  induction es generalizing acc with
  | nil => simpa using hacc
  | cons e es ih =>
    obtain ⟨_, h2, h3⟩ := h
    have : (acc ++ [e.2]).Nodup := by
      rw [List.nodup_append]
      exact ⟨hacc, by simp, by intro a ha b hb; simp at hb; subst hb; intro hab; exact h2 (hab ▸ ha)⟩
    have := ih _ this h3
    simpa using this

/-- an edge in the middle of a growth sequence starts at the accumulated nodes or an earlier child -/
theorem growth_split (acc : List Node) (E1 : List Edge) (e0 : Edge) (E2 : List Edge)
    (h : Growth acc (E1 ++ e0 :: E2)) : e0.1 ∈ acc ++ E1.map (·.2) := by
  induction E1 generalizing acc with
  | nil => simpa using h.1
  | cons e E1 ih =>
    obtain ⟨_, _, h3⟩ := h
    have := ih _ h3
    simpa using this

theorem growth_parent_mem (acc : List Node) (es : List Edge) (h : Growth acc es) :
    ∀ e ∈ es, e.1 ∈ acc ++ es.map (·.2) := by
  intro e he
  obtain ⟨E1, E2, rfl⟩ := List.append_of_mem he
  have := growth_split acc E1 e E2 h
  simp at this ⊢
  rcases this with h | h
  · exact Or.inl h
  · exact Or.inr (Or.inl h)

theorem filter_disjoint_perm {α : Type} (p q : α → Bool) (l : List α) (hd : ∀ a, ¬(p a = true ∧ q a = true)) :
    (l.filter p ++ l.filter q).Perm (l.filter (fun a => p a || q a)) := by
  induction l with
  | nil => simp
  | cons a l ih =>
    cases hp : p a <;> cases hq : q a
    · simpa [List.filter_cons, hp, hq] using ih
    · simp only [List.filter_cons, hp, hq, Bool.false_or, if_true]
      exact List.perm_middle.trans (List.Perm.cons a ih)
    · simp only [List.filter_cons, hp, hq, Bool.or_false, if_true, List.cons_append]
      exact List.Perm.cons a ih
    · exact absurd ⟨hp, hq⟩ (hd a)

theorem flatMap_filter_perm (N : List Node) (es : List Edge) (hN : N.Nodup) :
    (N.flatMap (fun u => es.filter (fun e => e.1 == u))).Perm (es.filter (fun e => N.contains e.1)) := by
  induction N with
  | nil => simp
  | cons u N ih =>
    have hu : u ∉ N := (List.nodup_cons.1 hN).1
    have ih' := ih (List.nodup_cons.1 hN).2
    simp only [List.flatMap_cons]
    refine (List.Perm.append_left _ ih').trans ?_
    refine (filter_disjoint_perm _ _ es ?_).trans ?_
    · intro a ⟨h1, h2⟩
      simp at h1 h2
      exact hu (h1 ▸ h2)
    · apply List.Perm.of_eq
      apply List.filter_congr
      intro a _
      by_cases h' : a.1 = u
      · simp [h']
      · simp [h']

theorem flatMap_split {α β : Type} (f : α → List β) : ∀ (N : List α) (A : List β) (e : β) (B : List β),
    N.flatMap f = A ++ e :: B →
    ∃ N1 u N2 X Y, N = N1 ++ u :: N2 ∧ f u = X ++ e :: Y ∧ A = N1.flatMap f ++ X := by
  intro N
  induction N with
  | nil => intro A e B h; simp at h
  | cons u N ih =>
    intro A e B h
    simp only [List.flatMap_cons] at h
    rcases List.append_eq_append_iff.1 h with ⟨A', hA, hB⟩ | ⟨C, hfu, hrest⟩
    · -- f u ++ A' = A, flatMap N = A' ++ e :: B
      obtain ⟨N1, u', N2, X, Y, hN, hf, hA'⟩ := ih A' e B hB
      refine ⟨u :: N1, u', N2, X, Y, by simp [hN], hf, ?_⟩
      simp [hA, hA', List.append_assoc]
    · -- f u = A ++ C, e :: B = C ++ flatMap N
      cases C with
      | nil =>
        simp at hrest hfu
        obtain ⟨N1, u', N2, X, Y, hN, hf, hA'⟩ := ih [] e B (by simpa using hrest.symm)
        refine ⟨u :: N1, u', N2, X, Y, by simp [hN], hf, ?_⟩
        have : N1.flatMap f = [] ∧ X = [] := by
          have := hA'.symm; simpa using this
        simp [hfu, this.1, this.2]
      | cons c C =>
        simp at hrest
        obtain ⟨rfl, hB⟩ := hrest
        exact ⟨[], u, N, A, C, by simp, hfu, by simp⟩

theorem treePath_of_growth (root : Node) (es : List Edge) (h : TreeGrowth root es) :
    TreePath root (treeEdges root es) := by
  unfold TreeGrowth at h
  have hN : digraphNodes root es = [root] ++ es.map (·.2) := digraphNodes_foldl [root] es h
  have hnd : ([root] ++ es.map (·.2)).Nodup := growth_nodup [root] es (by simp) h
  have hperm : (treeEdges root es).Perm es := by
    unfold treeEdges
    rw [hN]
    refine (flatMap_filter_perm _ es hnd).trans (List.Perm.of_eq ?_)
    apply List.filter_eq_self.2
    intro e he
    have := growth_parent_mem [root] es h e he
    simpa using this
  have hkids : ((treeEdges root es).map (·.2)).Perm (es.map (·.2)) := hperm.map _
  have hnd' := List.nodup_append.1 hnd
  refine ⟨hkids.nodup_iff.2 hnd'.2.1, ?_, ?_⟩
  · intro hmem
    have := hkids.mem_iff.1 hmem
    exact hnd'.2.2 root (by simp) root this rfl
  · intro k e hk
    -- split the path at k
    have hklt : k < (treeEdges root es).length := (List.getElem?_eq_some_iff.1 hk).1
    have hke : (treeEdges root es)[k] = e := (List.getElem?_eq_some_iff.1 hk).2
    have hsplit : treeEdges root es = (treeEdges root es).take k ++ e :: (treeEdges root es).drop (k + 1) := by
      rw [← hke]; simp
    generalize hA : (treeEdges root es).take k = A at hsplit
    generalize (treeEdges root es).drop (k + 1) = B at hsplit
    have hsplit' := hsplit
    unfold treeEdges at hsplit'
    rw [hN] at hsplit'
    obtain ⟨N1, u, N2, X, Y, hNs, hfu, hAeq⟩ := flatMap_split _ _ A e B hsplit'
    have heu : e.1 = u := by
      have : e ∈ es.filter (fun e => e.1 == u) := by rw [hfu]; simp
      simpa using (List.mem_filter.1 this).2
    -- where is u in root :: kids ?
    have key : u = root ∨ u ∈ A.map (·.2) := by
      cases N1 with
      | nil =>
        simp at hNs
        exact Or.inl hNs.1.symm
      | cons r K1 =>
        right
        simp at hNs
        obtain ⟨rfl, hk1⟩ := hNs
        -- es.map snd = K1 ++ u :: N2
        obtain ⟨E1, E2', hes, hE1, hE2⟩ := List.map_eq_append_iff.1 hk1
        obtain ⟨e0, E2, rfl, he0, _⟩ := List.map_eq_cons_iff.1 hE2
        rw [hes] at h
        have hp0 := growth_split [root] E1 e0 E2 h
        rw [hE1] at hp0
        -- e0 is in the block of its parent, which is in r :: K1
        have he0es : e0 ∈ es := by rw [hes]; simp
        have : e0 ∈ (root :: K1).flatMap (fun u => es.filter (fun e => e.1 == u)) := by
          apply List.mem_flatMap.2
          exact ⟨e0.1, by simpa using hp0, List.mem_filter.2 ⟨he0es, by simp⟩⟩
        rw [hAeq]
        apply List.mem_map.2
        exact ⟨e0, List.mem_append.2 (Or.inl this), he0⟩
    rcases key with hroot | hmem
    · exact Or.inl (heu.trans hroot)
    · right
      obtain ⟨e', he'A, he'u⟩ := List.mem_map.1 hmem
      rw [← hA] at he'A
      obtain ⟨j, hj⟩ := List.getElem?_of_mem he'A
      rw [List.getElem?_take] at hj
      split at hj
      · rename_i hjk
        exact ⟨j, e', hjk, hj, he'u.trans heu.symm⟩
      · cases hj



theorem growth_of_check : ∀ (acc : List Node) (es : List Edge), growthCheck acc es = true → Growth acc es := by
  intro acc es
  induction es generalizing acc with
  | nil => intro _; trivial
  | cons e es ih =>
    intro h
    simp only [growthCheck, Bool.and_eq_true] at h
    obtain ⟨⟨h1, h2⟩, h3⟩ := h
    exact ⟨by simpa using h1, by simpa using h2, ih _ h3⟩

theorem treeGrowth_of_check (root : Node) (es : List Edge) (h : growthCheck [root] es = true) :
    TreeGrowth root es := growth_of_check _ _ h

theorem treePath_of_check (first : Node) (path : List Edge) (h : treePathCheck first path = true) :
    TreePath first path := by
  simp only [treePathCheck, Bool.and_eq_true] at h
  obtain ⟨⟨h1, h2⟩, h3⟩ := h
  refine ⟨by simpa using h1, by simpa using h2, ?_⟩
  intro k e hk
  rw [List.all_eq_true] at h3
  have hmem : (e, k) ∈ path.zipIdx := by
    rw [List.mem_zipIdx_iff_getElem?]; simpa using hk
  have := h3 (e, k) hmem
  simp only [Bool.or_eq_true, beq_iff_eq] at this
  rcases this with h | h
  · exact Or.inl h
  · right
    rw [List.any_eq_true] at h
    obtain ⟨e', he', heq⟩ := h
    obtain ⟨j, hj⟩ := List.getElem?_of_mem he'
    rw [List.getElem?_take] at hj
    split at hj
    · rename_i hjk
      exact ⟨j, e', hjk, hj, by simpa using heq⟩
    · cases hj

theorem wfCheck_sound (m : Mol) (h : m.wfCheck = true) : m.WF := by
  simp only [Mol.wfCheck, Bool.and_eq_true] at h
  obtain ⟨⟨⟨⟨⟨h1, h2⟩, h3⟩, h4⟩, h5⟩, h6⟩ := h
  refine ⟨treePath_of_check _ _ h1, ?_, ?_, ?_⟩
  · intro n
    constructor
    · intro hn
      rw [List.all_eq_true] at h2
      have := h2 n hn
      simpa using this
    · rintro (rfl | hk)
      · simpa using h3
      · rw [List.all_eq_true] at h4
        simpa using h4 n hk
  · intro n hb
    rw [List.all_eq_true] at h5
    have hn : n ∈ m.build := by simpa [Mol.isBuild] using hb
    simpa using h5 n hn
  · intro n hn hb
    rw [List.all_eq_true] at h6
    have := h6 n hn
    simpa [hb] using this



/-! ### `bfs_edges` and `dfs_edges` yield growth sequences, for every graph -/

theorem growth_snoc (acc : List Node) (es : List Edge) (e : Edge) (h : Growth acc es)
    (h1 : e.1 ∈ acc ++ es.map (·.2)) (h2 : e.2 ∉ acc ++ es.map (·.2)) : Growth acc (es ++ [e]) := by
  induction es generalizing acc with
  | nil => exact ⟨by simpa using h1, by simpa using h2, trivial⟩
  | cons e0 es ih =>
    obtain ⟨a, b, c⟩ := h
    refine ⟨a, b, ?_⟩
    apply ih _ c
    · simpa [List.append_assoc] using h1
    · simpa [List.append_assoc] using h2

/-- state invariant shared by both traversals: the edges yielded so far grow a tree from `root` and the
set of seen nodes is exactly `root` and the children yielded so far -/
structure SearchInv (root : Node) (seen : List Node) (out : List Edge) : Prop where
  growth : Growth [root] out
  seenIff : ∀ x, x ∈ seen ↔ x ∈ [root] ++ out.map (·.2)

theorem searchInv_yield {root : Node} {seen : List Node} {out : List Edge} (inv : SearchInv root seen out)
    {p c : Node} (hp : p ∈ seen) (hc : c ∉ seen) {seen' : List Node}
    (hs : ∀ x, x ∈ seen' ↔ x ∈ seen ∨ x = c) : SearchInv root seen' (out ++ [(p, c)]) := by
  refine ⟨growth_snoc _ _ _ inv.growth ((inv.seenIff p).1 hp) (fun h => hc ((inv.seenIff c).2 h)), ?_⟩
  intro x
  rw [hs, inv.seenIff]
  simp [or_assoc]

theorem bfsScan_inv (root p : Node) : ∀ (cs seen next : List Node) (out : List Edge),
    SearchInv root seen out → p ∈ seen → (∀ x ∈ next, x ∈ seen) →
    SearchInv root (bfsScan p cs seen next out).1 (bfsScan p cs seen next out).2.2 ∧
    (∀ x ∈ (bfsScan p cs seen next out).2.1, x ∈ (bfsScan p cs seen next out).1) ∧
    (∀ x ∈ seen, x ∈ (bfsScan p cs seen next out).1) := by
  intro cs
  induction cs with
  | nil => intro seen next out inv _ hn; exact ⟨inv, hn, fun x h => h⟩
  | cons c cs ih =>
    intro seen next out inv hp hn
    unfold bfsScan
    split
    · exact ih seen next out inv hp hn
    · rename_i hc
      have hc' : c ∉ seen := by simpa using hc
      have inv' : SearchInv root (seen ++ [c]) (out ++ [(p, c)]) :=
        searchInv_yield inv hp hc' (by intro x; simp)
      obtain ⟨a, b, d⟩ := ih (seen ++ [c]) (next ++ [c]) (out ++ [(p, c)]) inv' (by simp [hp])
        (by intro x hx; rcases List.mem_append.1 hx with h | h
            · exact List.mem_append.2 (Or.inl (hn x h))
            · exact List.mem_append.2 (Or.inr h))
      exact ⟨a, b, fun x hx => d x (List.mem_append.2 (Or.inl hx))⟩

theorem bfsLoop_inv (adj : List (Node × List Node)) (root : Node) : ∀ (fuel : Nat) (queue seen : List Node)
    (out : List Edge), SearchInv root seen out → (∀ x ∈ queue, x ∈ seen) →
    Growth [root] (bfsLoop adj fuel queue seen out) := by
  intro fuel
  induction fuel with
  | zero => intro queue seen out inv _; exact inv.growth
  | succ fuel ih =>
    intro queue seen out inv hq
    cases queue with
    | nil => exact inv.growth
    | cons p queue =>
      simp only [bfsLoop]
      obtain ⟨a, b, d⟩ := bfsScan_inv root p (neighbors adj p) seen [] out inv (hq p (List.mem_cons_self)) (by simp)
      apply ih _ _ _ a
      intro x hx
      rcases List.mem_append.1 hx with h | h
      · exact d x (hq x (List.mem_cons_of_mem _ h))
      · exact b x h

theorem bfs_growth (adj : List (Node × List Node)) (root : Node) : TreeGrowth root (bfsEdges adj root) :=
  bfsLoop_inv adj root _ [root] [root] [] ⟨trivial, by intro x; simp⟩ (by simp)

theorem dfsLoop_inv (adj : List (Node × List Node)) (root : Node) : ∀ (fuel : Nat)
    (stack : List (Node × List Node)) (visited : List Node) (out : List Edge),
    SearchInv root visited out → (∀ f ∈ stack, f.1 ∈ visited) →
    Growth [root] (dfsLoop adj fuel stack visited out) := by
  intro fuel
  induction fuel with
  | zero => intro stack visited out inv _; exact inv.growth
  | succ fuel ih =>
    intro stack visited out inv hs
    cases stack with
    | nil => exact inv.growth
    | cons f stack =>
      obtain ⟨p, cs⟩ := f
      cases cs with
      | nil =>
        simp only [dfsLoop]
        exact ih _ _ _ inv (fun f hf => hs f (List.mem_cons_of_mem _ hf))
      | cons c cs =>
        simp only [dfsLoop]
        split
        · apply ih _ _ _ inv
          intro f hf
          rcases List.mem_cons.1 hf with rfl | h
          · exact hs (p, c :: cs) (List.mem_cons_self)
          · exact hs f (List.mem_cons_of_mem _ h)
        · rename_i hc
          have hc' : c ∉ visited := by simpa using hc
          have hp : p ∈ visited := hs (p, c :: cs) (List.mem_cons_self)
          have inv' : SearchInv root (c :: visited) (out ++ [(p, c)]) :=
            searchInv_yield inv hp hc' (by intro x; simp [or_comm])
          apply ih _ _ _ inv'
          intro f hf
          rcases List.mem_cons.1 hf with rfl | h
          · exact List.mem_cons_self
          · rcases List.mem_cons.1 h with rfl | h'
            · exact List.mem_cons_of_mem _ hp
            · exact List.mem_cons_of_mem _ (hs f (List.mem_cons_of_mem _ h'))

theorem dfs_growth (adj : List (Node × List Node)) (root : Node) : TreeGrowth root (dfsEdges adj root) :=
  dfsLoop_inv adj root _ _ [root] [] ⟨trivial, by intro x; simp⟩ (by simp)

/-- `list(search_tree.edges)` of the model is a tree listed parents first for EVERY graph, root and
tree kind -/
theorem searchPath_treePath (adj : List (Node × List Node)) (root : Node) (dfs : Bool) :
    TreePath root (searchPath adj root dfs) := by
  unfold searchPath
  cases dfs
  · exact treePath_of_growth root _ (bfs_growth adj root)
  · exact treePath_of_growth root _ (dfs_growth adj root)

end PolyplyVerif.Proofs.Walk
