/-
C08: converse of the flattening theorem ("the flattened text is read ⇒ the tree is read", up to the one error
the tree reports earlier than the flattened text: a malformed moleculetype name line), and corollaries.
The converse re-uses the forward simulation: it only has to show that every tree step SUCCEEDS when the
corresponding step of the single director succeeded; the relation afterwards comes from `sim_line`.
-/
import PolyplyVerif.Proofs.C08Flatten

namespace PolyplyVerif.Proofs.C08Flatten
open PolyplyVerif PolyplyVerif.TopParse PolyplyVerif.Proofs.TopParse

/-! ### the flattener only appends -/

theorem flatPragma_appends (inc : Path → FlatSt → Except String FlatSt) (dir : Path)
    (hinc : ∀ p st st', inc p st = .ok st' → ∃ ys, st'.out = st.out ++ ys)
    (c c' : Option (Bool × String)) (st st' : FlatSt) (raw : String) (toks : List String)
    (h : flatPragma inc dir c st raw toks = .ok (c', st')) : ∃ ys, st'.out = st.out ++ ys := by
  unfold flatPragma at h
  simp only at h
  by_cases c1 : (toks == ["#endif"]) = true
  · rw [if_pos c1] at h; injection h with h; injection h with _ h; subst h; exact ⟨[raw], rfl⟩
  · rw [if_neg c1] at h
    by_cases c2 : startsWith (toks.headD "") "#else" = true
    · rw [if_pos c2] at h; injection h with h; injection h with _ h; subst h; exact ⟨[raw], rfl⟩
    · rw [if_neg c2] at h
      by_cases c3 : (startsWith (toks.headD "") "#ifdef" || startsWith (toks.headD "") "#ifndef") = true
      · rw [if_pos c3] at h
        split at h <;> (injection h with h; injection h with _ h; subst h; exact ⟨[raw], rfl⟩)
      · rw [if_neg c3] at h
        by_cases c4 : (toks.headD "" == "#define") = true
        · rw [if_pos c4] at h
          split at h
          · injection h with h; injection h with _ h; subst h
            split <;> exact ⟨[raw], rfl⟩
          · injection h with h; injection h with _ h; subst h; exact ⟨[raw], rfl⟩
        · rw [if_neg c4] at h
          by_cases c5 : (toks.headD "" == "#error") = true
          · rw [if_pos c5] at h; injection h with h; injection h with _ h; subst h
            split <;> exact ⟨[raw], rfl⟩
          · rw [if_neg c5] at h
            by_cases c6 : (toks.headD "" == "#include") = true
            · rw [if_pos c6] at h
              split at h
              · split at h
                · split at h
                  · cases h
                  · rename_i full _
                    cases hi : inc full st with
                    | error e => simp [hi, Except.map] at h
                    | ok s1 =>
                      simp only [hi, Except.map] at h
                      injection h with h; injection h with _ h; subst h
                      exact hinc _ _ _ hi
                · injection h with h; injection h with _ h; subst h; exact ⟨[], by simp⟩
              · injection h with h; injection h with _ h; subst h; exact ⟨[raw], rfl⟩
            · rw [if_neg c6] at h; injection h with h; injection h with _ h; subst h; exact ⟨[raw], rfl⟩

theorem flatLine_appends (inc : Path → FlatSt → Except String FlatSt) (dir : Path)
    (hinc : ∀ p st st', inc p st = .ok st' → ∃ ys, st'.out = st.out ++ ys)
    (c c' : Option (Bool × String)) (st st' : FlatSt) (raw : String)
    (h : flatLine inc dir c st raw = .ok (c', st')) : ∃ ys, st'.out = st.out ++ ys := by
  unfold flatLine at h
  split at h
  · exact flatPragma_appends inc dir hinc c c' st st' raw _ h
  · injection h with h; injection h with _ h; subst h; exact ⟨[raw], rfl⟩

theorem flattenLines_appends (inc : Path → FlatSt → Except String FlatSt) (dir : Path)
    (hinc : ∀ p st st', inc p st = .ok st' → ∃ ys, st'.out = st.out ++ ys) :
    ∀ (raws : List String) (c : Option (Bool × String)) (st st' : FlatSt),
      flattenLines inc dir raws c st = .ok st' → ∃ ys, st'.out = st.out ++ ys := by
  intro raws
  induction raws with
  | nil => intro c st st' h; simp [flattenLines] at h; subst h; exact ⟨[], by simp⟩
  | cons raw rest ih =>
    intro c st st' h
    simp only [flattenLines] at h
    cases h1 : flatLine inc dir c st raw with
    | error e => simp [h1] at h
    | ok r =>
      obtain ⟨c1, st1⟩ := r
      simp only [h1] at h
      obtain ⟨y1, e1⟩ := flatLine_appends inc dir hinc c c1 st st1 raw h1
      obtain ⟨y2, e2⟩ := ih c1 st1 st' h
      exact ⟨y1 ++ y2, by rw [e2, e1, List.append_assoc]⟩

theorem flattenFile_appends (fs : FS) : ∀ fuel p st st', flattenFile fs fuel p st = .ok st' → ∃ ys, st'.out = st.out ++ ys := by
  intro fuel
  induction fuel with
  | zero => intro p st st' h; simp [flattenFile] at h
  | succ fuel ih =>
    intro p st st' h
    unfold flattenFile at h
    cases hg : fsGet fs p with
    | none => simp [hg] at h
    | some raws =>
      simp only [hg] at h
      exact flattenLines_appends _ _ ih raws none st st' h

/-- a run that succeeds on a text succeeds on every prefix of it -/
theorem flatRun_prefix (a b : List String) (r : Glob × Loc) (h : flatRun (a ++ b) = .ok r) : ∃ r', flatRun a = .ok r' := by
  unfold flatRun at h ⊢
  rw [parseLines_append, runLines_append] at h
  cases h1 : runLines noInc [] (parseLines a) ({}, {}) with
  | error e => simp [h1] at h
  | ok r' => exact ⟨r', rfl⟩

/-! ### every tree step succeeds when the step of the single director did -/

theorem ok_content (w : WfSt) (frozen isTop : Bool) (fc : Option Cond) (anc : List Group) (m0 : List (String × String))
    (defs : List String) (Gt : Glob) (Lt : Loc) (Gf : Glob) (Lf : Loc) (toks : List String) (rf : Glob × Loc)
    (R : Rel w frozen isTop fc anc m0 defs Gt Lt Gf Lf) (hfresh : w.fresh = false)
    (h : doContent Gf Lf toks = .ok rf) : ∃ rt, doContent Gt Lt toks = .ok rt := by
  have hsec : Lt.sec = Lf.sec := R.s.secEq hfresh
  unfold doContent at h ⊢
  cases hh : handlerOf Lt.sec with
  | none => rw [← hsec, hh] at h; cases h
  | some hd =>
    have hhf : handlerOf Lf.sec = some hd := by rw [← hsec]; exact hh
    simp only [hhf] at h
    simp only
    by_cases h1 : (hd == "_system" || hd == "_skip" || hd == "_macros") = true
    · rw [if_pos h1]; exact ⟨_, rfl⟩
    · rw [if_neg h1] at h ⊢
      by_cases h2 : (hd == "_molecules") = true
      · rw [if_pos h2] at h ⊢
        match toks, h with
        | [name, n], _ => exact ⟨_, rfl⟩
      · rw [if_neg h2] at h ⊢
        by_cases h3 : (hd == "_defaults") = true
        · rw [if_pos h3] at h ⊢
          cases hd3 : doDefaults toks with
          | error e => simp [hd3, Except.map] at h
          | ok d => exact ⟨_, rfl⟩
        · rw [if_neg h3] at h ⊢
          by_cases h4 : (hd == "_atomtypes") = true
          · rw [if_pos h4] at h ⊢
            cases hd4 : doAtomType toks with
            | error e => simp [hd4, Except.map] at h
            | ok d => exact ⟨_, rfl⟩
          · rw [if_neg h4] at h ⊢
            by_cases h5 : (hd == "_nonbond_params") = true
            · rw [if_pos h5] at h ⊢
              cases hd5 : doNonbond toks with
              | error e => simp [hd5, Except.map] at h
              | ok d => exact ⟨_, rfl⟩
            · rw [if_neg h5] at h ⊢
              by_cases h6 : (hd == "_type_params") = true
              · rw [if_pos h6] at h ⊢
                cases hd6 : doType Gf Lf.cond (Lf.sec.getLast?.getD "") toks with
                | error e => simp [hd6, Except.map] at h
                | ok g1 =>
                  obtain ⟨g2, hg2, _⟩ := doType_erase Gf Gt Lf.cond Lt.cond (Lf.sec.getLast?.getD "") toks g1
                    R.g.tables.types.symm hd6
                  rw [hsec, hg2]; exact ⟨_, rfl⟩
              · rw [if_neg h6] at h ⊢
                by_cases h7 : (hd == "_molecule") = true
                · rw [if_pos h7] at h ⊢
                  have hd7 : hd = "_molecule" := by simpa using h7
                  have hshape := handlerOf_molecule _ R.s.shapeT (hd7 ▸ hh)
                  have hsm : w.secMol = true := R.s.secMol.mpr hshape
                  have hact : activeOf Lt.itp = true := by rw [← R.i.ownT]; exact R.i.secMolOwn hsm
                  obtain ⟨g, hg, _⟩ := (activeOf_iff _).mp hact
                  rw [hg]; exact ⟨_, rfl⟩
                · rw [if_neg h7] at h; cases h

end PolyplyVerif.Proofs.C08Flatten
