/-
C08: converse of the flattening theorem ("the flattened text is read ⇒ the tree is read", up to the one error
the tree reports earlier than the flattened text: a malformed moleculetype name line), and corollaries.
The converse re-uses the forward simulation: it only has to show that every tree step SUCCEEDS when the
corresponding step of the single director succeeded; the relation afterwards comes from `sim_line`.
-/
import PolyplyVerif.Proofs.C08Flatten

namespace PolyplyVerif.Proofs.C08Flatten
open PolyplyVerif PolyplyVerif.TopParse PolyplyVerif.Proofs.TopParse

/-! ### the flattener only appends -/

theorem flatPragma_appends (inc : Path → FlatSt → Except String FlatSt) (dir : Path)
    (hinc : ∀ p st st', inc p st = .ok st' → ∃ ys, st'.out = st.out ++ ys)
    (c c' : Option (Bool × String)) (st st' : FlatSt) (raw : String) (toks : List String)
    (h : flatPragma inc dir c st raw toks = .ok (c', st')) : ∃ ys, st'.out = st.out ++ ys := by
  unfold flatPragma at h
  simp only at h
  by_cases c1 : (toks == ["#endif"]) = true
  · rw [if_pos c1] at h; injection h with h; injection h with _ h; subst h; exact ⟨[raw], rfl⟩
  · rw [if_neg c1] at h
    by_cases c2 : startsWith (toks.headD "") "#else" = true
    · rw [if_pos c2] at h; injection h with h; injection h with _ h; subst h; exact ⟨[raw], rfl⟩
    · rw [if_neg c2] at h
      by_cases c3 : (startsWith (toks.headD "") "#ifdef" || startsWith (toks.headD "") "#ifndef") = true
      · rw [if_pos c3] at h
        split at h <;> (injection h with h; injection h with _ h; subst h; exact ⟨[raw], rfl⟩)
      · rw [if_neg c3] at h
        by_cases c4 : (toks.headD "" == "#define") = true
        · rw [if_pos c4] at h
          split at h
          · injection h with h; injection h with _ h; subst h
            split <;> exact ⟨[raw], rfl⟩
          · injection h with h; injection h with _ h; subst h; exact ⟨[raw], rfl⟩
        · rw [if_neg c4] at h
          by_cases c5 : (toks.headD "" == "#error") = true
          · rw [if_pos c5] at h; injection h with h; injection h with _ h; subst h
            split <;> exact ⟨[raw], rfl⟩
          · rw [if_neg c5] at h
            by_cases c6 : (toks.headD "" == "#include") = true
            · rw [if_pos c6] at h
              split at h
              · split at h
                · split at h
                  · cases h
                  · rename_i full _
                    cases hi : inc full st with
                    | error e => simp [hi, Except.map] at h
                    | ok s1 =>
                      simp only [hi, Except.map] at h
                      injection h with h; injection h with _ h; subst h
                      exact hinc _ _ _ hi
                · injection h with h; injection h with _ h; subst h; exact ⟨[], by simp⟩
              · injection h with h; injection h with _ h; subst h; exact ⟨[raw], rfl⟩
            · rw [if_neg c6] at h; injection h with h; injection h with _ h; subst h; exact ⟨[raw], rfl⟩

theorem flatLine_appends (inc : Path → FlatSt → Except String FlatSt) (dir : Path)
    (hinc : ∀ p st st', inc p st = .ok st' → ∃ ys, st'.out = st.out ++ ys)
    (c c' : Option (Bool × String)) (st st' : FlatSt) (raw : String)
    (h : flatLine inc dir c st raw = .ok (c', st')) : ∃ ys, st'.out = st.out ++ ys := by
  unfold flatLine at h
  split at h
  · exact flatPragma_appends inc dir hinc c c' st st' raw _ h
  · injection h with h; injection h with _ h; subst h; exact ⟨[raw], rfl⟩

theorem flattenLines_appends (inc : Path → FlatSt → Except String FlatSt) (dir : Path)
    (hinc : ∀ p st st', inc p st = .ok st' → ∃ ys, st'.out = st.out ++ ys) :
    ∀ (raws : List String) (c : Option (Bool × String)) (st st' : FlatSt),
      flattenLines inc dir raws c st = .ok st' → ∃ ys, st'.out = st.out ++ ys := by
  intro raws
  induction raws with
  | nil => intro c st st' h; simp [flattenLines] at h; subst h; exact ⟨[], by simp⟩
  | cons raw rest ih =>
    intro c st st' h
    simp only [flattenLines] at h
    cases h1 : flatLine inc dir c st raw with
    | error e => simp [h1] at h
    | ok r =>
      obtain ⟨c1, st1⟩ := r
      simp only [h1] at h
      obtain ⟨y1, e1⟩ := flatLine_appends inc dir hinc c c1 st st1 raw h1
      obtain ⟨y2, e2⟩ := ih c1 st1 st' h
      exact ⟨y1 ++ y2, by rw [e2, e1, List.append_assoc]⟩

theorem flattenFile_appends (fs : FS) : ∀ fuel p st st', flattenFile fs fuel p st = .ok st' → ∃ ys, st'.out = st.out ++ ys := by
  intro fuel
  induction fuel with
  | zero => intro p st st' h; simp [flattenFile] at h
  | succ fuel ih =>
    intro p st st' h
    unfold flattenFile at h
    cases hg : fsGet fs p with
    | none => simp [hg] at h
    | some raws =>
      simp only [hg] at h
      exact flattenLines_appends _ _ ih raws none st st' h

/-- a run that succeeds on a text succeeds on every prefix of it -/
theorem flatRun_prefix (a b : List String) (r : Glob × Loc) (h : flatRun (a ++ b) = .ok r) : ∃ r', flatRun a = .ok r' := by
  unfold flatRun at h ⊢
  rw [parseLines_append, runLines_append] at h
  cases h1 : runLines noInc [] (parseLines a) ({}, {}) with
  | error e => simp [h1] at h
  | ok r' => exact ⟨r', rfl⟩

/-! ### every tree step succeeds when the step of the single director did -/

theorem ok_content (w : WfSt) (frozen isTop : Bool) (fc : Option Cond) (anc : List Group) (m0 : List (String × String))
    (defs : List String) (Gt : Glob) (Lt : Loc) (Gf : Glob) (Lf : Loc) (toks : List String) (rf : Glob × Loc)
    (R : Rel w frozen isTop fc anc m0 defs Gt Lt Gf Lf) (hfresh : w.fresh = false)
    (h : doContent Gf Lf toks = .ok rf) : ∃ rt, doContent Gt Lt toks = .ok rt := by
  have hsec : Lt.sec = Lf.sec := R.s.secEq hfresh
  unfold doContent at h ⊢
  cases hh : handlerOf Lt.sec with
  | none => rw [← hsec, hh] at h; cases h
  | some hd =>
    have hhf : handlerOf Lf.sec = some hd := by rw [← hsec]; exact hh
    simp only [hhf] at h
    simp only
    by_cases h1 : (hd == "_system" || hd == "_skip" || hd == "_macros") = true
    · rw [if_pos h1]; exact ⟨_, rfl⟩
    · rw [if_neg h1] at h ⊢
      by_cases h2 : (hd == "_molecules") = true
      · rw [if_pos h2] at h ⊢
        match toks, h with
        | [name, n], _ => exact ⟨_, rfl⟩
      · rw [if_neg h2] at h ⊢
        by_cases h3 : (hd == "_defaults") = true
        · rw [if_pos h3] at h ⊢
          cases hd3 : doDefaults toks with
          | error e => simp [hd3, Except.map] at h
          | ok d => exact ⟨_, rfl⟩
        · rw [if_neg h3] at h ⊢
          by_cases h4 : (hd == "_atomtypes") = true
          · rw [if_pos h4] at h ⊢
            cases hd4 : doAtomType toks with
            | error e => simp [hd4, Except.map] at h
            | ok d => exact ⟨_, rfl⟩
          · rw [if_neg h4] at h ⊢
            by_cases h5 : (hd == "_nonbond_params") = true
            · rw [if_pos h5] at h ⊢
              cases hd5 : doNonbond toks with
              | error e => simp [hd5, Except.map] at h
              | ok d => exact ⟨_, rfl⟩
            · rw [if_neg h5] at h ⊢
              by_cases h6 : (hd == "_type_params") = true
              · rw [if_pos h6] at h ⊢
                cases hd6 : doType Gf Lf.cond (Lf.sec.getLast?.getD "") toks with
                | error e => simp [hd6, Except.map] at h
                | ok g1 =>
                  obtain ⟨g2, hg2, _⟩ := doType_erase Gf Gt Lf.cond Lt.cond (Lf.sec.getLast?.getD "") toks g1
                    R.g.tables.types.symm hd6
                  rw [hsec, hg2]; exact ⟨_, rfl⟩
              · rw [if_neg h6] at h ⊢
                by_cases h7 : (hd == "_molecule") = true
                · rw [if_pos h7] at h ⊢
                  have hd7 : hd = "_molecule" := by simpa using h7
                  have hshape := handlerOf_molecule _ R.s.shapeT (hd7 ▸ hh)
                  have hsm : w.secMol = true := R.s.secMol.mpr hshape
                  have hact : activeOf Lt.itp = true := by rw [← R.i.ownT]; exact R.i.secMolOwn hsm
                  obtain ⟨g, hg, _⟩ := (activeOf_iff _).mp hact
                  rw [hg]; exact ⟨_, rfl⟩
                · rw [if_neg h7] at h; cases h

theorem ok_pragma_noinc (w w' : WfSt) (frozen isTop : Bool) (fc : Option Cond) (anc : List Group)
    (m0 : List (String × String)) (defs : List String) (Gt : Glob) (Lt : Loc) (Gf : Glob) (Lf : Loc)
    (incW : Path → Bool → Bool → Option Bool) (incT : Path → Glob → Except String Glob) (dir : Path)
    (toks : List String) (rf : Glob × Loc)
    (hni : (toks.headD "" == "#include") = false)
    (R : Rel w frozen isTop fc anc m0 defs Gt Lt Gf Lf)
    (hw : wfPragma incW dir frozen w toks = some w')
    (hf : doPragma noInc [] Gf Lf toks = .ok rf) :
    ∃ rt, doPragma incT dir Gt Lt toks = .ok rt := by
  have I := R.i
  have hactT : itpActive Lt = w.own := by rw [itpActive_eq, ← I.ownT]
  have hown1 : ¬ w.phase2 = true → w.own = false := by
    intro hp
    cases ho : w.own with
    | false => rfl
    | true => exact absurd (I.ownPhase ho) hp
  have hinOwn : (!w.fresh && w.own && w.secMol) = true → itpActive Lt = true := by
    intro hin
    simp only [Bool.and_eq_true] at hin
    rw [hactT]; exact hin.1.2
  unfold wfPragma at hw
  unfold doPragma at hf ⊢
  simp only at hw hf ⊢
  by_cases c1 : (toks == ["#endif"]) = true
  · rw [if_pos c1] at hw ⊢
    by_cases hp : w.phase2 = true
    · rw [if_pos hp] at hw
      split at hw
      · rename_i hin; rw [if_pos (hinOwn hin)]; exact ⟨_, rfl⟩
      · cases hw
    · rw [if_neg hp] at hw
      split at hw
      · rename_i hcs
        have hTa : ¬ itpActive Lt = true := by rw [hactT, hown1 hp]; simp
        have hTs : Lt.cond.isNone = false := by
          rw [R.c.condT]
          have := condOf_isSome w.cond
          rw [hcs] at this
          cases hcc : condOf w.cond with
          | none => rw [hcc] at this; cases this
          | some m => rfl
        rw [if_neg hTa]
        simp only [hTs, Bool.false_eq_true, if_false]
        exact ⟨_, rfl⟩
      · cases hw
  · rw [if_neg c1] at hw hf ⊢
    by_cases c2 : startsWith (toks.headD "") "#else" = true
    · rw [if_pos c2] at hw ⊢
      split at hw
      · cases hw
      · by_cases hp : w.phase2 = true
        · rw [if_pos hp] at hw
          split at hw
          · rename_i hin; rw [if_pos (hinOwn hin)]; exact ⟨_, rfl⟩
          · cases hw
        · rw [if_neg hp] at hw
          have hTa : ¬ itpActive Lt = true := by rw [hactT, hown1 hp]; simp
          rw [if_neg hTa]
          cases hcw : w.cond with
          | none => simp [hcw] at hw
          | some bt =>
            obtain ⟨b, t⟩ := bt
            have hcT := R.c.condT
            rw [hcw] at hcT
            cases b with
            | false =>
              have e : Lt.cond = some ⟨"ifndef", t⟩ := hcT
              rw [e]
              simp only [inverseCond, show ("ifndef" == "ifdef") = false by decide, Bool.false_eq_true, if_false,
                show ("ifndef" == "ifndef") = true by decide, if_true]
              exact ⟨_, rfl⟩
            | true =>
              have e : Lt.cond = some ⟨"ifdef", t⟩ := hcT
              rw [e]
              simp only [inverseCond, show ("ifdef" == "ifdef") = true by decide, if_true]
              exact ⟨_, rfl⟩
    · rw [if_neg c2] at hw hf ⊢
      by_cases c3 : (startsWith (toks.headD "") "#ifdef" || startsWith (toks.headD "") "#ifndef") = true
      · rw [if_pos c3] at hw ⊢
        match toks, hw with
        | [k, tag], hw =>
          simp only at hw ⊢
          split at hw
          · cases hw
          · by_cases hp : w.phase2 = true
            · rw [if_pos hp] at hw
              split at hw
              · rename_i hin; rw [if_pos (hinOwn hin)]; exact ⟨_, rfl⟩
              · cases hw
            · rw [if_neg hp] at hw
              split at hw
              · rename_i hcn
                simp only [Bool.and_eq_true, Option.isNone_iff_eq_none, Bool.not_eq_true'] at hcn
                have hcT : Lt.cond = none := by rw [R.c.condT, hcn.1]; rfl
                have hTa : ¬ itpActive Lt = true := by rw [hactT, hown1 hp]; simp
                rw [if_neg hTa, hcT]
                exact ⟨_, rfl⟩
              · cases hw
        | [], hw => simp at hw
        | [_], hw => simp at hw
        | _ :: _ :: _ :: _, hw => simp at hw
      · rw [if_neg c3] at hw hf ⊢
        by_cases c4 : (toks.headD "" == "#define") = true
        · rw [if_pos c4] at hw ⊢
          split at hw
          · rename_i hcd
            simp only [Bool.and_eq_true, decide_eq_true_eq] at hcd
            have hlen := hcd.1.1.1
            match toks, hlen with
            | [_, tag], _ => exact ⟨_, rfl⟩
            | _ :: tag :: v :: vals, _ => exact ⟨_, rfl⟩
          · cases hw
        · rw [if_neg c4] at hw hf ⊢
          by_cases c5 : (toks.headD "" == "#error") = true
          · rw [if_pos c5] at hw hf ⊢
            -- the single director skipped the #error: so does the tree director
            split at hf
            · rename_i hoff
              cases hfz : frozen with
              | false =>
                have hcF := R.c.condF
                simp only [hfz, Bool.false_eq_true, if_false] at hcF
                have : switchedOff Gt Lt.cond = true := by
                  rw [← hcF, switchedOff_congr Gt Gf _ R.g.tables.defines]; exact hoff
                rw [if_pos this]; exact ⟨_, rfl⟩
              | true =>
                exfalso
                have hcF := R.c.condF
                simp only [hfz, if_true] at hcF
                rw [hcF.1, switchedOff_defines Gf, hcF.2.2.1] at hoff
                cases hoff
            · cases hf
          · rw [if_neg c5, hni] at hw
            simp at hw

theorem flatPragma_noinc_out (inc : Path → FlatSt → Except String FlatSt) (dir : Path)
    (c c' : Option (Bool × String)) (st st' : FlatSt) (raw : String) (toks : List String)
    (hni : (toks.headD "" == "#include") = false)
    (h : flatPragma inc dir c st raw toks = .ok (c', st')) : st'.out = st.out ++ [raw] := by
  unfold flatPragma at h
  simp only at h
  by_cases c1 : (toks == ["#endif"]) = true
  · rw [if_pos c1] at h; injection h with h; injection h with _ h; subst h; rfl
  · rw [if_neg c1] at h
    by_cases c2 : startsWith (toks.headD "") "#else" = true
    · rw [if_pos c2] at h; injection h with h; injection h with _ h; subst h; rfl
    · rw [if_neg c2] at h
      by_cases c3 : (startsWith (toks.headD "") "#ifdef" || startsWith (toks.headD "") "#ifndef") = true
      · rw [if_pos c3] at h
        split at h <;> (injection h with h; injection h with _ h; subst h; rfl)
      · rw [if_neg c3] at h
        by_cases c4 : (toks.headD "" == "#define") = true
        · rw [if_pos c4] at h
          split at h
          · injection h with h; injection h with _ h; subst h
            split <;> rfl
          · injection h with h; injection h with _ h; subst h; rfl
        · rw [if_neg c4] at h
          by_cases c5 : (toks.headD "" == "#error") = true
          · rw [if_pos c5] at h; injection h with h; injection h with _ h; subst h
            split <;> rfl
          · rw [if_neg c5, hni] at h
            simp only [Bool.false_eq_true, if_false] at h
            injection h with h; injection h with _ h; subst h; rfl

/-! ### the converse induction -/

/-- the one class of errors the tree reports when a FILE ends while the flattened text reports it at the very
end: the name line of a collected moleculetype is malformed -/
def isNameErr (e : String) : Bool := e == "moleculetype-line" || e == "moleculetype-without-name"

def OkOrName {α} (r : Except String α) : Prop := (∃ x, r = .ok x) ∨ (∃ e, r = .error e ∧ isNameErr e = true)

theorem groupName_err (g : Group) (e : String) (h : groupName g = .error e) : isNameErr e = true := by
  unfold groupName at h
  simp only at h
  split at h
  · split at h
    · cases h
    · injection h with h; subst h; rfl
  · injection h with h; subst h; rfl
  · injection h with h; subst h; rfl

theorem readGroups_okOrName (grps : List Group) (g : Glob) : OkOrName (readGroups g grps) := by
  induction grps generalizing g with
  | nil => exact Or.inl ⟨g, rfl⟩
  | cons grp rest ih =>
    unfold readGroups
    cases hn : groupName grp with
    | error e => exact Or.inr ⟨e, rfl, groupName_err grp e hn⟩
    | ok nm => exact ih _

def ConvFile (fs : FS) (fuel : Nat) : Prop :=
  ∀ (path : Path) (frozen ph ph' : Bool) (fc : Option Cond) (anc : List Group) (m0 : List (String × String))
    (fst fst' : FlatSt) (Gt Gf : Glob) (Lf : Loc) (rfin : Glob × Loc),
    wfFile fs fuel false path frozen ph = some ph' →
    flattenFile fs fuel path fst = .ok fst' →
    flatRun fst.out = .ok (Gf, Lf) →
    Rel { phase2 := ph } frozen false fc anc m0 fst.defs Gt {} Gf Lf →
    flatRun fst'.out = .ok rfin →
    OkOrName (readFile fs fuel path Gt)

theorem conv_line (fs : FS) (fuel : Nat) (IHc : ConvFile fs fuel)
    (w w1 : WfSt) (frozen isTop : Bool) (fc : Option Cond) (anc : List Group)
    (m0 : List (String × String)) (Gt : Glob) (Lt : Loc) (Gf : Glob) (Lf : Loc)
    (dir : Path) (c c1 : Option (Bool × String)) (fst fst1 : FlatSt) (raw : String) (rf1 : Glob × Loc)
    (R : Rel w frozen isTop fc anc m0 fst.defs Gt Lt Gf Lf) (hc : w.swallow = false → c = w.cond)
    (hflat : flatRun fst.out = .ok (Gf, Lf))
    (hw : wfLine (fun p fr ph => wfFile fs fuel false p fr ph) dir frozen isTop w raw = some w1)
    (hf : flatLine (flattenFile fs fuel) dir c fst raw = .ok (c1, fst1))
    (hflat1 : flatRun fst1.out = .ok rf1) :
    OkOrName (treeLine (readFile fs fuel) dir (Gt, Lt) raw) := by
  unfold wfLine at hw
  unfold treeLine
  unfold flatLine at hf
  cases hcl : classify raw with
  | none => exact Or.inl ⟨_, rfl⟩
  | some line =>
    cases line with
    | star => exact Or.inl ⟨_, rfl⟩
    | badHeader => simp [hcl] at hw
    | header name => exact Or.inl ⟨_, rfl⟩
    | content toks =>
      simp only [hcl] at hw hf
      injection hf with hf; injection hf with h1 h2; subst h1 h2
      split at hw
      · cases hw
      · rename_i hfr
        have hfresh : w.fresh = false := by simpa using hfr
        have hdo : doContent Gf Lf toks = .ok rf1 := by
          have := flatRun_keep fst.out raw Gf Lf hflat
          rw [hflat1] at this
          unfold treeLine at this
          rw [hcl] at this
          exact this.symm
        obtain ⟨rt, hrt⟩ := ok_content w frozen isTop fc anc m0 _ Gt Lt Gf Lf toks rf1 R hfresh hdo
        exact Or.inl ⟨rt, hrt⟩
    | pragma toks =>
      simp only [hcl] at hw hf
      simp only [step]
      by_cases hinc : (toks.headD "" == "#include") = true
      · -- an include: the included file is read (or has a malformed name line) by the induction hypothesis
        obtain ⟨k1, k2, k3, k4, k5⟩ := include_consts toks hinc
        unfold wfPragma at hw
        unfold doPragma
        unfold flatPragma at hf
        simp only [k1, k2, k3, k4, k5, hinc, Bool.false_eq_true, if_false, if_true] at hw hf ⊢
        match toks, hw, hf with
        | _ :: p :: _, hw, hf =>
          simp only at hw hf ⊢
          split at hw
          · cases hw
          · rename_i hsw
            have hsw' : w.swallow = false := by simpa using hsw
            have hcc : c = w.cond := hc hsw'
            cases hn : normPath (dir ++ splitPath (includePath p)) with
            | none => simp [hn] at hw
            | some full =>
              simp only [hn] at hw hf ⊢
              cases hwf : wfFile fs fuel false full (frozen || w.cond.isSome) w.phase2 with
              | none => simp [hwf] at hw
              | some ph =>
                have hholds : holds fst.defs c = !switchedOff Gt Lt.cond := by
                  rw [hcc, holds_eq fst.defs Gt w.cond R.g.defsOk, R.c.condT]
                cases hoff : switchedOff Gt Lt.cond with
                | true => simp only [if_true]; exact Or.inl ⟨_, rfl⟩
                | false =>
                  simp only [Bool.false_eq_true, if_false]
                  simp only [hholds, hoff, Bool.not_false, if_true] at hf
                  cases hff : flattenFile fs fuel full fst with
                  | error e => simp [hff, Except.map] at hf
                  | ok fstc =>
                    simp only [hff, Except.map] at hf
                    injection hf with hf; injection hf with _ hfst; subst hfst
                    have Rstart := rel_child_start w frozen isTop fc anc m0 _ Gt Lt Gf Lf R hoff
                    have := IHc full (frozen || w.cond.isSome) w.phase2 ph _ _ _ fst fstc Gt Gf Lf rf1 hwf hff hflat Rstart hflat1
                    rcases this with ⟨x, hx⟩ | ⟨e, he, hne⟩
                    · rw [hx]; exact Or.inl ⟨_, rfl⟩
                    · rw [he]; exact Or.inr ⟨e, rfl, hne⟩
        | [], hw, _ => simp at hw
        | [_], hw, _ => simp at hw
      · have hni : (toks.headD "" == "#include") = false := by simpa using hinc
        have hout := flatPragma_noinc_out _ dir c c1 fst fst1 raw toks hni hf
        have hdo : doPragma noInc [] Gf Lf toks = .ok rf1 := by
          have := flatRun_keep fst.out raw Gf Lf hflat
          rw [← hout, hflat1] at this
          unfold treeLine at this
          rw [hcl] at this
          exact this.symm
        obtain ⟨rt, hrt⟩ := ok_pragma_noinc w w1 frozen isTop fc anc m0 _ Gt Lt Gf Lf _ (readFile fs fuel) dir toks rf1 hni R hw hdo
        exact Or.inl ⟨rt, hrt⟩

theorem conv_lines (fs : FS) (fuel : Nat) (IHc : ConvFile fs fuel) (frozen isTop : Bool) (fc : Option Cond)
    (anc : List Group) (m0 : List (String × String)) (dir : Path) :
    ∀ (raws : List String) (w w' : WfSt) (c : Option (Bool × String)) (fst fst' : FlatSt)
      (Gt : Glob) (Lt : Loc) (Gf : Glob) (Lf : Loc) (rfin : Glob × Loc),
      wfLines (fun p fr ph => wfFile fs fuel false p fr ph) dir frozen isTop raws w = some w' →
      flattenLines (flattenFile fs fuel) dir raws c fst = .ok fst' →
      flatRun fst.out = .ok (Gf, Lf) →
      Rel w frozen isTop fc anc m0 fst.defs Gt Lt Gf Lf → (w.swallow = false → c = w.cond) →
      flatRun fst'.out = .ok rfin →
      OkOrName (runLines (readFile fs fuel) dir (parseLines raws) (Gt, Lt)) := by
  intro raws
  induction raws with
  | nil => intro w w' c fst fst' Gt Lt Gf Lf rfin _ _ _ _ _ _; exact Or.inl ⟨_, rfl⟩
  | cons raw rest ih =>
    intro w w' c fst fst' Gt Lt Gf Lf rfin hw hf hflat R hc hfin
    simp only [wfLines] at hw
    simp only [flattenLines] at hf
    rw [runLines_parse_cons]
    cases hw1 : wfLine (fun p fr ph => wfFile fs fuel false p fr ph) dir frozen isTop w raw with
    | none => simp [hw1] at hw
    | some w1 =>
      simp only [hw1] at hw
      cases hf1 : flatLine (flattenFile fs fuel) dir c fst raw with
      | error e => simp [hf1] at hf
      | ok r =>
        obtain ⟨c1, fst1⟩ := r
        simp only [hf1] at hf
        obtain ⟨ys, hys⟩ := flattenLines_appends _ dir (flattenFile_appends fs fuel) rest c1 fst1 fst' hf
        obtain ⟨rf1, hflat1⟩ := flatRun_prefix fst1.out ys rfin (by rw [← hys]; exact hfin)
        have h1 := conv_line fs fuel IHc w w1 frozen isTop fc anc m0 Gt Lt Gf Lf dir c c1 fst fst1 raw rf1 R hc hflat hw1 hf1 hflat1
        rcases h1 with ⟨st1, hst1⟩ | ⟨e, he, hne⟩
        · obtain ⟨Gt1, Lt1⟩ := st1
          rw [hst1]
          simp only
          obtain ⟨hc1, _, _, Gf1, Lf1, hfl1, R1⟩ := sim_line fs fuel (sim_file fs fuel) w w1 frozen isTop fc anc m0 Gt Lt Gf Lf Gt1 Lt1
            dir c c1 fst fst1 raw R hc hflat hw1 hst1 hf1
          exact ih w1 w' c1 fst1 fst' Gt1 Lt1 Gf1 Lf1 rfin hw hf hfl1 R1 hc1 hfin
        · rw [he]; exact Or.inr ⟨e, rfl, hne⟩

theorem conv_file (fs : FS) : ∀ fuel, ConvFile fs fuel := by
  intro fuel
  induction fuel with
  | zero => intro path frozen ph ph' fc anc m0 fst fst' Gt Gf Lf rfin hw; simp [wfFile] at hw
  | succ fuel IH =>
    intro path frozen ph ph' fc anc m0 fst fst' Gt Gf Lf rfin hw hf hflat R hfin
    unfold wfFile at hw
    unfold flattenFile at hf
    unfold readFile
    cases hget : fsGet fs path with
    | none => simp [hget] at hw
    | some raws =>
      simp only [hget] at hw hf ⊢
      cases hwl : wfLines (fun p fr ph => wfFile fs fuel false p fr ph) path.dropLast frozen false raws { phase2 := ph } with
      | none => simp [hwl] at hw
      | some w' =>
        simp only [hwl] at hw
        split at hw
        · rename_i hend
          simp only [Bool.and_eq_true, Option.isNone_iff_eq_none, Bool.not_eq_true'] at hend
          have hl := conv_lines fs fuel IH frozen false fc anc m0 path.dropLast raws { phase2 := ph } w' none fst fst'
            Gt {} Gf Lf rfin hwl hf hflat R (fun _ => rfl) hfin
          rcases hl with ⟨st1, hst1⟩ | ⟨e, he, hne⟩
          · obtain ⟨Gt1, Lt1⟩ := st1
            rw [hst1]
            simp only
            obtain ⟨_, _, Gf', Lf', _, R'⟩ := sim_lines fs fuel (sim_file fs fuel) frozen false fc anc m0 path.dropLast raws
              { phase2 := ph } w' none fst fst' Gt {} Gt1 Lt1 Gf Lf hwl hf hst1 hflat R (fun _ => rfl)
            -- finalize of a file without [molecules] lines: only the name lines can fail
            unfold finalize
            rw [finalize_groups Lt1 R'.i.itpT]
            have hcn : Lt1.cond = none := by rw [R'.c.condT, hend.1.1]; rfl
            simp only [hcn, Option.isSome_none, Bool.false_eq_true, if_false, R'.i.molsTop rfl]
            rcases readGroups_okOrName (Lt1.itpLines ++ openOf Lt1.itp) Gt1 with ⟨g1, hg1⟩ | ⟨e, he, hne⟩
            · rw [hg1]; exact Or.inl ⟨g1, rfl⟩
            · rw [he]; exact Or.inr ⟨e, rfl, hne⟩
          · rw [he]; exact Or.inr ⟨e, rfl, hne⟩
        · cases hw

/-- **Converse of the flattening theorem**: for a well-formed tree, if the flattened text is read then the tree
is read — or the tree stops at the end of some file with a malformed moleculetype name line. -/
theorem flatten_equiv_conv (fs : FS) (top : Path) (st : FlatSt) (gf : Glob)
    (hwf : wellFormed fs top = true) (hfl : flatten fs top = .ok st) (hrs : readSingle st.out = .ok gf) :
    OkOrName (readTop fs top) := by
  unfold wellFormed at hwf
  unfold flatten at hfl
  unfold readTop
  unfold wfFile at hwf
  unfold flattenFile at hfl
  unfold readFile
  cases hget : fsGet fs top with
  | none => simp [hget] at hwf
  | some raws =>
    simp only [hget] at hwf hfl ⊢
    cases hwl : wfLines (fun p fr ph => wfFile fs fs.length false p fr ph) top.dropLast false true raws { phase2 := false } with
    | none => simp [hwl] at hwf
    | some w' =>
      have hflat0 : flatRun ([] : List String) = .ok (({} : Glob), ({} : Loc)) := rfl
      have hrs' : (match flatRun st.out with
                   | Except.error e => Except.error e
                   | Except.ok (g, l) => finalize g l) = Except.ok gf := hrs
      cases hfr : flatRun st.out with
      | error e => rw [hfr] at hrs'; cases hrs'
      | ok rfin =>
        obtain ⟨Gf', Lf'⟩ := rfin
        rw [hfr] at hrs'
        simp only at hrs'
        have hl := conv_lines fs fs.length (conv_file fs fs.length) false true none [] [] top.dropLast raws
          { phase2 := false } w' none {} st {} {} {} {} (Gf', Lf') hwl hfl hflat0 rel_init (fun _ => rfl) hfr
        rcases hl with ⟨st1, hst1⟩ | ⟨e, he, hne⟩
        · obtain ⟨Gt1, Lt1⟩ := st1
          rw [hst1]
          simp only
          obtain ⟨_, _, Gf2, Lf2, hfl2, R⟩ := sim_lines fs fs.length (sim_file fs fs.length) false true none [] []
            top.dropLast raws { phase2 := false } w' none {} st {} {} Gt1 Lt1 {} {} hwl hfl hst1 hflat0 rel_init (fun _ => rfl)
          rw [hfr] at hfl2
          injection hfl2 with hfl2; injection hfl2 with e1 e2; subst e1 e2
          have I := R.i
          -- the flat finalize succeeded
          unfold finalize at hrs'
          rw [finalize_groups Lf' I.itpF] at hrs'
          cases hcf : Lf'.cond with
          | some m => simp [hcf] at hrs'
          | none =>
            simp only [hcf, Option.isSome_none, Bool.false_eq_true, if_false] at hrs'
            cases hrgf : readGroups Gf' (Lf'.itpLines ++ openOf Lf'.itp) with
            | error e => simp [hrgf] at hrs'
            | ok G1f =>
              simp only [hrgf] at hrs'
              have hct : Lt1.cond = none := by
                have := R.c.condF
                simp only [Bool.false_eq_true, if_false] at this
                rw [← this, hcf]
              unfold finalize
              rw [finalize_groups Lt1 I.itpT]
              simp only [hct, Option.isSome_none, Bool.false_eq_true, if_false]
              rcases readGroups_okOrName (Lt1.itpLines ++ openOf Lt1.itp) Gt1 with ⟨G1t, hrg⟩ | ⟨e, he, hne⟩
              · rw [hrg]
                simp only
                obtain ⟨hgr, _, _, _, _, _, hmol, hidx, _, hnames⟩ := readGroups_spec _ _ _ hrg
                obtain ⟨hgrf, _, _, _, _, _, hmolf, hidxf, _, hnamesf⟩ := readGroups_spec _ _ _ hrgf
                have NT := hnames R.g.names
                have NF := hnamesf (by
                  rw [R.g.gfEmpty.1, R.g.gfEmpty.2.1]
                  exact ⟨(fun grp h => (by cases h)), (fun n => ⟨(fun h => (by cases h)), (fun h => (by obtain ⟨g, hg, _⟩ := h; cases hg))⟩)⟩)
                have hperm : ((Gt1.groups ++ Lt1.itpLines ++ openOf Lt1.itp).map sealGroup).Perm
                    ((Lf'.itpLines ++ openOf Lf'.itp).map sealGroup) := by
                  simpa using I.perm
                have hpermG : (G1t.groups.map sealGroup).Perm (G1f.groups.map sealGroup) := by
                  rw [hgr, hgrf, R.g.gfEmpty.1, List.nil_append, ← List.append_assoc]
                  exact hperm
                have hbn : ∀ n, G1f.blockNames.contains n = G1t.blockNames.contains n := by
                  intro n
                  have h1 := NT.set n
                  have h2 := NF.set n
                  have h3 := names_perm _ _ hpermG n
                  cases ha : G1t.blockNames.contains n with
                  | true => exact h2.mpr (h3.mp (h1.mp ha))
                  | false =>
                    cases hb : G1f.blockNames.contains n with
                    | false => rfl
                    | true => rw [h1.mpr (h3.mpr (h2.mp hb))] at ha; cases ha
                have hmolsEq : Lf'.mols = Lt1.mols := by rw [I.mols]; rfl
                rw [hmolsEq] at hrs'
                obtain ⟨gt, hexp, _⟩ := expandMols_congr Lt1.mols G1f G1t gf 0
                  (by rw [hmol, hmolf, R.g.gtMols.1, R.g.gfEmpty.2.2.1])
                  (by rw [hidx, hidxf, R.g.gtMols.2, R.g.gfEmpty.2.2.2]) hbn hrs'
                exact Or.inl ⟨gt, hexp⟩
              · rw [he]; exact Or.inr ⟨e, rfl, hne⟩
        · rw [he]; exact Or.inr ⟨e, rfl, hne⟩

/-- the tree reader does not stop on a malformed moleculetype name line (decidable: it evaluates the reader) -/
def noMalformedMolNames (fs : FS) (top : Path) : Bool :=
  match readTop fs top with
  | .error e => !isNameErr e
  | .ok _ => true

theorem ObsEq.symm' {a b : Glob} (h : ObsEq a b) : ObsEq b a :=
  ⟨⟨h.tables.defines.symm, h.tables.defaults.symm, h.tables.atomTypes.symm, h.tables.nonbond.symm, h.tables.types.symm⟩,
   h.groups.symm, h.molecules.symm, h.molIdx.symm⟩

theorem ObsEq.trans' {a b c : Glob} (h1 : ObsEq a b) (h2 : ObsEq b c) : ObsEq a c :=
  ⟨⟨h1.tables.defines.trans h2.tables.defines, h1.tables.defaults.trans h2.tables.defaults,
    h1.tables.atomTypes.trans h2.tables.atomTypes, h1.tables.nonbond.trans h2.tables.nonbond,
    h1.tables.types.trans h2.tables.types⟩,
   h1.groups.trans h2.groups, h1.molecules.trans h2.molecules, h1.molIdx.trans h2.molIdx⟩

end PolyplyVerif.Proofs.C08Flatten
