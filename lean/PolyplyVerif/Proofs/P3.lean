import PolyplyVerif.Proofs.Dna
import PolyplyVerif.Proofs.P2
namespace PolyplyVerif.Proofs.Dna
open PolyplyVerif PolyplyVerif.Dna

theorem findSome?_congr' {α β} (f g : α → Option β) (l : List α) (h : ∀ x ∈ l, f x = g x) :
    l.findSome? f = l.findSome? g := by
  induction l with
  | nil => rfl
  | cons a l ih =>
    simp only [List.findSome?_cons, h a (by simp)]
    rw [ih (fun x hx => h x (by simp [hx]))]

/-- what `_dna_edge_iterator` decides on seeing neighbour `nn` of `src` when resid = key + 1 -/
def kf (n src nn : Nat) : Option (Nat × Bool) :=
  if src = nn + 1 then some (nn, false)
  else if src < nn ∧ nn = n - 1 then some (nn, true) else none

def hf (n src : Nat) (e : REdge) : Option (Nat × Bool) :=
  if e.u = src then kf n src e.v else if e.v = src then kf n src e.u else none

theorem iterStep_eq_findSome (g : RGraph) (first src rs : Nat) (h : g.resid? src = some rs) :
    iterStep g first src = g.edges.findSome? (fun e =>
      (if e.u == src then some e.v else if e.v == src then some e.u else none).bind fun nn =>
        match g.resid? nn with
        | none => none
        | some rn =>
          if rs = rn + 1 then some (nn, false)
          else if rn > rs && nn == first then some (nn, true)
          else none) := by
  unfold iterStep RGraph.neighbors
  rw [h]
  simp only
  rw [findSome?_filterMap']
  rfl

section
variable (tbl : List (String × String)) (names : List String) (labels : List Attrs) (circ : Option Attrs)

theorem gAt_edges_bound (j : Nat) (hn : 1 ≤ names.length) (hc : circ.isSome → 3 ≤ names.length) :
    ∀ e ∈ (gAt tbl names labels circ j).edges,
      e.u < names.length + j + 1 ∧ e.v < names.length + j + 1 := by
  intro e he
  simp only [gAt, strandGraph, List.mem_append, List.mem_map, List.mem_range] at he
  rcases he with ((he | he) | he) | he
  · split at he
    · simp at he; subst he; simp; omega
    · simp at he
  · cases circ with
    | none => simp at he
    | some a => simp at he; subst he; simp; omega
  · obtain ⟨i, hi, rfl⟩ := he; simp; omega
  · obtain ⟨i, hi, rfl⟩ := he; simp [newEdge]; omega

theorem iterStep_gAt (j src : Nat) (hn : 1 ≤ names.length) (hc : circ.isSome → 3 ≤ names.length)
    (hs : src < names.length) :
    iterStep (gAt tbl names labels circ j) (names.length - 1) src =
      (gAt tbl names labels circ j).edges.findSome? (hf names.length src) := by
  rw [iterStep_eq_findSome _ _ _ _ (gAt_resid? tbl names labels circ j src (by omega))]
  apply findSome?_congr'
  intro e he
  obtain ⟨hu, hv⟩ := gAt_edges_bound tbl names labels circ j hn hc e he
  unfold hf kf
  by_cases h1 : e.u = src
  · simp [h1, gAt_resid? tbl names labels circ j e.v hv]
  · by_cases h2 : e.v = src
    · simp [h1, h2, gAt_resid? tbl names labels circ j e.u hu]
    · simp [h1, h2]

end
end PolyplyVerif.Proofs.Dna
