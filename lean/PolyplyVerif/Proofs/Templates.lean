/-
Lemmas about `Model/Templates.lean` (C15).  Geometry over an arbitrary field `K` (so `ℚ` and `ℝ`), reusing
the rotation lemmas of `Proofs/Rotation.lean`; the verdict and the size over `ℚ` (ordered).
-/
import PolyplyVerif.Model.Templates
import PolyplyVerif.Proofs.Rotation
import Mathlib.Algebra.Field.Basic
import Mathlib.Algebra.CharZero.Defs
import Mathlib.Algebra.Order.Field.Basic
import Mathlib.Algebra.Order.Ring.Abs
import Mathlib.Tactic.FieldSimp
import Mathlib.Tactic.Linarith
import Mathlib.Tactic.Positivity
import Mathlib.Tactic.NormNum

namespace PolyplyVerif.Proofs.Templates
open PolyplyVerif.Rot PolyplyVerif.Templ PolyplyVerif.Proofs.Rotation

/-! ### dictionaries -/

section dict
variable {β : Type}

theorem get?_set (d : Dict β) (k k' : String) (v : β) :
    (d.set k v).get? k' = if k' = k then some v else d.get? k' := by
  induction d with
  | nil =>
    simp only [Dict.set, Dict.get?]
    by_cases h : k = k'
    · subst h; simp
    · have h' : ¬ k' = k := fun e => h e.symm
      simp [h, h']
  | cons kv d ih =>
    obtain ⟨k0, v0⟩ := kv
    simp only [Dict.set]
    split
    · rename_i h0; subst h0
      simp only [Dict.get?]
      by_cases h : k0 = k'
      · subst h; simp
      · have h' : ¬ k' = k0 := fun e => h e.symm
        simp [h, h']
    · rename_i h0
      simp only [Dict.get?]
      by_cases h1 : k0 = k'
      · subst h1; simp [show ¬ k0 = k from h0]
      · simp [h1, ih]

theorem has_set (d : Dict β) (k k' : String) (v : β) :
    (d.set k v).has k' = (decide (k' = k) || d.has k') := by
  unfold Dict.has
  rw [get?_set]
  by_cases h : k' = k <;> simp [h]

theorem has_set_self (d : Dict β) (k : String) (v : β) : (d.set k v).has k = true := by
  rw [has_set]; simp

theorem has_set_of_has (d : Dict β) (k k' : String) (v : β) (h : d.has k' = true) :
    (d.set k v).has k' = true := by
  rw [has_set, h]; simp

theorem get?_del_ne (d : Dict β) (k k' : String) (h : k' ≠ k) : (d.del k).get? k' = d.get? k' := by
  induction d with
  | nil => rfl
  | cons kv d ih =>
    obtain ⟨k0, v0⟩ := kv
    simp only [Dict.del]
    by_cases h0 : k0 = k
    · subst h0
      simp only [if_true, Dict.get?]
      rw [if_neg (fun e : k0 = k' => h e.symm)]
    · simp only [h0, if_false, Dict.get?, ih]

theorem has_iff_get? (d : Dict β) (k : String) : d.has k = true ↔ ∃ v, d.get? k = some v := by
  unfold Dict.has
  cases d.get? k <;> simp

theorem get?_update (d src : Dict β) (k : String) (hk : src.has k = false) :
    (d.update src).get? k = d.get? k := by
  unfold Dict.update
  induction src generalizing d with
  | nil => rfl
  | cons kv src ih =>
    obtain ⟨k0, v0⟩ := kv
    have hne : k0 ≠ k := by
      intro e; subst e; simp [Dict.has, Dict.get?] at hk
    have hk' : Dict.has src k = false := by
      simpa [Dict.has, Dict.get?, hne] using hk
    simp only [List.foldl_cons]
    rw [ih _ hk', get?_set, if_neg (fun e => hne e.symm)]

/-- with distinct keys, `update` makes every key of `src` carry `src`'s value -/
theorem get?_update_of_mem (d src : Dict β) (hnd : src.keys.Nodup) (k : String) (v : β)
    (hv : src.get? k = some v) : (d.update src).get? k = some v := by
  unfold Dict.update
  induction src generalizing d with
  | nil => simp [Dict.get?] at hv
  | cons kv src ih =>
    obtain ⟨k0, v0⟩ := kv
    simp only [Dict.keys, List.map_cons, List.nodup_cons] at hnd
    simp only [List.foldl_cons]
    by_cases h0 : k0 = k
    · subst h0
      simp [Dict.get?] at hv; subst hv
      have hk' : Dict.has src k0 = false := by
        cases hh : Dict.has src k0 with
        | false => rfl
        | true =>
          exfalso
          obtain ⟨w, hw⟩ := (has_iff_get? src k0).1 hh
          apply hnd.1
          clear ih hnd
          induction src with
          | nil => simp [Dict.get?] at hw
          | cons kv' src' ih' =>
            obtain ⟨k1, v1⟩ := kv'
            simp only [Dict.get?] at hw
            by_cases h1 : k1 = k0
            · simp [h1]
            · simp only [h1, if_false] at hw
              simp only [List.map_cons, List.mem_cons]
              right
              exact ih' (by simp [Dict.has, hw]) hw
      have := get?_update (d.set k0 v0) src k0 hk'
      unfold Dict.update at this
      rw [this, get?_set]; simp
    · simp only [Dict.get?, h0, if_false] at hv
      exact ih (d.set k0 v0) hnd.2 hv

end dict

/-! ### `map_from_CoG` -/

section field
variable {K : Type} [Field K]

@[simp] theorem sdiv_x (v : V3 K) (k : K) : (V3.sdiv v k).x = v.x / k := rfl
@[simp] theorem sdiv_y (v : V3 K) (k : K) : (V3.sdiv v k).y = v.y / k := rfl
@[simp] theorem sdiv_z (v : V3 K) (k : K) : (V3.sdiv v k).z = v.z / k := rfl

theorem sum_map_sub (g : V3 K) (l : List (V3 K)) :
    V3.sum (l.map fun v => v - g) = V3.sum l - V3.smul (l.length : K) g := by
  induction l with
  | nil => simp only [List.map_nil, sum_nil, List.length_nil, Nat.cast_zero]; ext <;> v3simp <;> ring
  | cons a l ih =>
    simp only [List.map_cons, sum_cons, ih, List.length_cons, Nat.cast_succ]
    ext <;> v3simp <;> ring

/-- the vectors `map_from_CoG` returns sum to zero (non-empty input, characteristic 0) -/
theorem mapFromCoG_sum [CharZero K] (c : Template K) (hne : c ≠ []) :
    V3.sum ((mapFromCoG c).map (·.2)) = 0 := by
  have hn : ((c.map (·.2)).length : K) ≠ 0 := by
    have : c.length ≠ 0 := by simpa using hne
    simpa using this
  unfold mapFromCoG centerOfGeometry
  simp only [List.map_map]
  have : ((fun kv : String × V3 K => kv.2) ∘ fun kv : String × V3 K =>
      (kv.1, kv.2 - V3.sdiv (V3.sum (c.map (·.2))) ((c.map (·.2)).length : K)))
      = (fun v => v - V3.sdiv (V3.sum (c.map (·.2))) ((c.map (·.2)).length : K)) ∘ (·.2) := rfl
  rw [this, ← List.map_map, sum_map_sub]
  ext <;> v3simp <;> simp only [sdiv_x, sdiv_y, sdiv_z] <;> field_simp <;> ring

theorem mapFromCoG_keys (c : Template K) : (mapFromCoG c).map (·.1) = c.map (·.1) := by
  unfold mapFromCoG
  simp [List.map_map, Function.comp_def]

/-! ### virtual sites: the code's constructions are the GROMACS constructions -/

theorem vs2_eq (a : K) (ri rj : V3 K) : vs2 a ri rj = gmx2 a ri rj := by
  have h : (0 + (1 - a) + a : K) = 1 := by ring
  unfold vs2 gmx2 weightedAverage
  simp only [List.zipWith_cons_cons, List.zipWith_nil_right, List.foldl_cons, List.foldl_nil, h, V3.sum]
  ext <;> simp only [sdiv_x, sdiv_y, sdiv_z, div_one] <;> show _ = _ <;>
    simp only [V3.add, V3.zero, V3.smul, add_x, add_y, add_z] <;> ring

theorem vs3_eq (a b : K) (ri rj rk : V3 K) : vs3 a b ri rj rk = gmx3 a b ri rj rk := by
  have h : (0 + (1 - a - b) + a + b : K) = 1 := by ring
  unfold vs3 gmx3 weightedAverage
  simp only [List.zipWith_cons_cons, List.zipWith_nil_right, List.foldl_cons, List.foldl_nil, h, V3.sum]
  ext <;> simp only [sdiv_x, sdiv_y, sdiv_z, div_one] <;> show _ = _ <;>
    simp only [V3.add, V3.zero, V3.smul, add_x, add_y, add_z] <;> ring

theorem sum_zipWith_ones (xs : List (V3 K)) :
    V3.sum (List.zipWith V3.smul (xs.map fun _ => (1 : K)) xs) = V3.sum xs := by
  induction xs with
  | nil => rfl
  | cons a xs ih =>
    simp only [List.map_cons, List.zipWith_cons_cons, sum_cons, ih]
    ext <;> v3simp <;> ring

theorem foldl_add_ones (acc : K) (xs : List (V3 K)) :
    (xs.map fun _ => (1 : K)).foldl (· + ·) acc = acc + (xs.length : K) := by
  induction xs generalizing acc with
  | nil => simp
  | cons a xs ih => simp only [List.map_cons, List.foldl_cons, ih, List.length_cons, Nat.cast_succ]; ring

theorem vsn1_eq (xs : List (V3 K)) : vsn1 xs = gmxCog xs := by
  unfold vsn1 gmxCog weightedAverage
  rw [sum_zipWith_ones, foldl_add_ones, zero_add]
  ext <;> v3simp <;> simp only [sdiv_x, sdiv_y, sdiv_z] <;> ring

theorem vs3fd_eq (nrm : K → K) (a b : K) (ri rj rk : V3 K) :
    vs3fd nrm a b ri rj rk = gmx3fd nrm a b ri rj rk := by
  unfold vs3fd gmx3fd
  ext <;> v3simp <;> simp only [sdiv_x, sdiv_y, sdiv_z] <;> v3simp <;> ring

theorem vs3fad_eq (nrm : K → K) (c s d : K) (ri rj rk : V3 K) :
    vs3fad nrm c s d ri rj rk = gmx3fad nrm c s d ri rj rk := by
  simp only [vs3fad, gmx3fad]
  generalize nrm (V3.normSq (rj - ri)) = n1
  generalize V3.dot (rj - ri) (rk - rj) = d1
  generalize V3.dot (rj - ri) (rj - ri) = d2
  have e : rk - rj - V3.sdiv (V3.smul d1 (rj - ri)) d2 = rk - rj - V3.smul (d1 / d2) (rj - ri) := by
    ext <;> simp only [sub_x, sub_y, sub_z, sdiv_x, sdiv_y, sdiv_z, smul_x, smul_y, smul_z] <;> ring
  rw [e]
  generalize nrm (V3.normSq (rk - rj - V3.smul (d1 / d2) (rj - ri))) = n2
  generalize rk - rj - V3.smul (d1 / d2) (rj - ri) = w
  ext <;> simp only [add_x, add_y, add_z, sub_x, sub_y, sub_z, sdiv_x, sdiv_y, sdiv_z, smul_x, smul_y, smul_z] <;>
    ring

theorem vs3out_eq (a b c : K) (ri rj rk : V3 K) : vs3out a b c ri rj rk = gmx3out a b c ri rj rk := rfl

theorem vs4fdn_eq (nrm : K → K) (a b c : K) (ri rj rk rl : V3 K) :
    vs4fdn nrm a b c ri rj rk rl = gmx4fdn nrm a b c ri rj rk rl := by
  unfold vs4fdn gmx4fdn
  ext <;> v3simp <;> simp only [sdiv_x, sdiv_y, sdiv_z] <;> v3simp <;> ring

/-! ### equivariance -/

/-- the affine map `x ↦ A·x + t` -/
def aff (A : M3 K) (t : V3 K) (x : V3 K) : V3 K := A.mulVec x + t

theorem gmx2_aff (A : M3 K) (t : V3 K) (a : K) (ri rj : V3 K) :
    gmx2 a (aff A t ri) (aff A t rj) = aff A t (gmx2 a ri rj) := by
  unfold gmx2 aff; ext <;> v3simp <;> ring

theorem gmx3_aff (A : M3 K) (t : V3 K) (a b : K) (ri rj rk : V3 K) :
    gmx3 a b (aff A t ri) (aff A t rj) (aff A t rk) = aff A t (gmx3 a b ri rj rk) := by
  unfold gmx3 aff; ext <;> v3simp <;> ring

theorem sum_map_aff (A : M3 K) (t : V3 K) (xs : List (V3 K)) :
    V3.sum (xs.map (aff A t)) = A.mulVec (V3.sum xs) + V3.smul (xs.length : K) t := by
  induction xs with
  | nil => simp only [List.map_nil, sum_nil, List.length_nil, Nat.cast_zero]; ext <;> v3simp <;> ring
  | cons a xs ih =>
    simp only [List.map_cons, sum_cons, ih, List.length_cons, Nat.cast_succ, aff]
    ext <;> v3simp <;> ring

theorem gmxCog_aff [CharZero K] (A : M3 K) (t : V3 K) (xs : List (V3 K)) (hne : xs ≠ []) :
    gmxCog (xs.map (aff A t)) = aff A t (gmxCog xs) := by
  have hn : (xs.length : K) ≠ 0 := by
    have : xs.length ≠ 0 := by simpa using hne
    exact_mod_cast this
  unfold gmxCog
  rw [sum_map_aff, List.length_map]
  unfold aff
  ext <;> v3simp <;> field_simp

/-! rigid motions: `x ↦ R·x + t` with `R` a proper rotation -/

theorem aff_sub (R : M3 K) (t x y : V3 K) : aff R t x - aff R t y = R.mulVec (x - y) := by
  unfold aff; ext <;> v3simp <;> ring

theorem mulVec_sdiv (R : M3 K) (v : V3 K) (k : K) : R.mulVec (V3.sdiv v k) = V3.sdiv (R.mulVec v) k := by
  ext <;> v3simp <;> simp only [sdiv_x, sdiv_y, sdiv_z] <;> ring

theorem aff_add_mulVec (R : M3 K) (t x y : V3 K) : aff R t x + R.mulVec y = aff R t (x + y) := by
  unfold aff; ext <;> v3simp <;> ring

section rigid
variable {R : M3 K} (hR : Proper R) (t : V3 K)
include hR

theorem gmx3fd_rigid (nrm : K → K) (a b : K) (ri rj rk : V3 K) :
    gmx3fd nrm a b (aff R t ri) (aff R t rj) (aff R t rk) = aff R t (gmx3fd nrm a b ri rj rk) := by
  unfold gmx3fd
  simp only [aff_sub, ← mulVec_smul, ← mulVec_add, normSq_preserved hR.left, aff_add_mulVec]

theorem gmx3out_rigid (a b c : K) (ri rj rk : V3 K) :
    gmx3out a b c (aff R t ri) (aff R t rj) (aff R t rk) = aff R t (gmx3out a b c ri rj rk) := by
  unfold gmx3out
  simp only [aff_sub, cross_preserved hR, ← mulVec_smul, aff_add_mulVec]

theorem gmx4fdn_rigid (nrm : K → K) (a b c : K) (ri rj rk rl : V3 K) :
    gmx4fdn nrm a b c (aff R t ri) (aff R t rj) (aff R t rk) (aff R t rl)
      = aff R t (gmx4fdn nrm a b c ri rj rk rl) := by
  unfold gmx4fdn
  simp only [aff_sub, ← mulVec_smul, ← mulVec_sub, cross_preserved hR, normSq_preserved hR.left,
    aff_add_mulVec]

theorem gmx3fad_rigid (nrm : K → K) (c s d : K) (ri rj rk : V3 K) :
    gmx3fad nrm c s d (aff R t ri) (aff R t rj) (aff R t rk) = aff R t (gmx3fad nrm c s d ri rj rk) := by
  unfold gmx3fad
  simp only [aff_sub, dot_preserved hR.left, ← mulVec_smul, ← mulVec_sub, normSq_preserved hR.left,
    aff_add_mulVec]

end rigid

/-- the fixed-distance constructions really sit at the prescribed distance when `nrm` is a square root -/
theorem gmx3fd_dist (nrm : K → K) (a b : K) (ri rj rk : V3 K)
    (hn : nrm (V3.normSq ((rj - ri) + V3.smul a (rk - rj))) * nrm (V3.normSq ((rj - ri) + V3.smul a (rk - rj)))
      = V3.normSq ((rj - ri) + V3.smul a (rk - rj)))
    (h0 : nrm (V3.normSq ((rj - ri) + V3.smul a (rk - rj))) ≠ 0) :
    V3.normSq (gmx3fd nrm a b ri rj rk - ri) = b * b := by
  show V3.normSq (ri + V3.smul (b / nrm (V3.normSq ((rj - ri) + V3.smul a (rk - rj))))
      ((rj - ri) + V3.smul a (rk - rj)) - ri) = b * b
  generalize nrm (V3.normSq ((rj - ri) + V3.smul a (rk - rj))) = n at hn h0
  have e : V3.normSq (ri + V3.smul (b / n) ((rj - ri) + V3.smul a (rk - rj)) - ri)
      = (b / n) * (b / n) * V3.normSq ((rj - ri) + V3.smul a (rk - rj)) := by
    v3simp; ring
  rw [e, ← hn]; field_simp

end field

/-! ### the verdict of `optimize_geometry` -/

section verdict

theorem rabs_eq_abs (q : Rat) : rabs q = |q| := by
  unfold rabs
  split
  · rw [abs_of_neg (by assumption)]
  · rw [abs_of_nonneg (by linarith)]

/-- one item: `¬ W·d² > W·tol²` with `W > 0`, `tol ≥ 0` gives `|d| ≤ tol` -/
theorem within_of_not_gt (W tol d : Rat) (hW : 0 < W) (htol : 0 ≤ tol)
    (h : ¬ (W * (d * d) > W * (tol * tol))) : |d| ≤ tol := by
  have h1 : W * (d * d) ≤ W * (tol * tol) := not_lt.mp h
  have h2 : d * d ≤ tol * tol := le_of_mul_le_mul_left h1 hW
  exact abs_le_of_sq_le_sq' (by nlinarith) htol |>.2 |> fun _ => by
    rcases abs_le_of_sq_le_sq' (by nlinarith : d ^ 2 ≤ tol ^ 2) htol with ⟨hl, hr⟩
    exact abs_le.mpr ⟨hl, hr⟩

theorem verdict_within (weights tolerance : List (String × Rat)) (items : List Item)
    (hpos : ∀ it ∈ items, 0 < lookupD weights it.kind ∧ 0 ≤ lookupD tolerance it.kind)
    (h : verdict weights tolerance items = true) : withinTolerance tolerance items = true := by
  unfold verdict at h
  unfold withinTolerance
  rw [List.all_eq_true] at h ⊢
  intro it hit
  have hv := h it hit
  obtain ⟨hW, htol⟩ := hpos it hit
  by_cases hd : (it.kind = "dihedrals" && !it.improper) = true
  · simp [hd]
  · have hd' : (it.kind = "dihedrals" && !it.improper) = false := by simpa using hd
    simp only [hd', Bool.false_or, decide_eq_true_eq]
    simp only [penalty, hd', Bool.false_eq_true, if_false, Bool.not_eq_true', decide_eq_false_iff_not] at hv
    rw [rabs_eq_abs]
    exact within_of_not_gt _ _ _ hW htol hv

end verdict

/-! ### `compute_volume` -/

section volume

theorem normSq_nonneg (v : V3 Rat) : 0 ≤ V3.normSq v := by
  unfold V3.normSq V3.dot
  nlinarith [mul_self_nonneg v.x, mul_self_nonneg v.y, mul_self_nonneg v.z]

theorem foldl_add_nonneg {β : Type} (f : β → Rat) (hf : ∀ b, 0 ≤ f b) (l : List β) (acc : Rat)
    (hacc : 0 ≤ acc) : 0 ≤ l.foldl (fun acc b => acc + f b) acc := by
  induction l generalizing acc with
  | nil => simpa
  | cons b l ih => exact ih _ (add_nonneg hacc (hf b))

theorem foldl_nested_nonneg (pts : List (V3 Rat)) (l : List (V3 Rat)) (acc : Rat) (hacc : 0 ≤ acc) :
    0 ≤ l.foldl (fun acc i => pts.foldl (fun acc j => acc + V3.normSq (i - j)) acc) acc := by
  induction l generalizing acc with
  | nil => simpa
  | cons i l ih => exact ih _ (foldl_add_nonneg (fun j => V3.normSq (i - j)) (fun j => normSq_nonneg _) pts acc hacc)

theorem radiusOfGyrationSq_nonneg (pts : List (V3 Rat)) : 0 ≤ radiusOfGyrationSq pts := by
  unfold radiusOfGyrationSq
  apply mul_nonneg
  · positivity
  · exact foldl_nested_nonneg pts pts 0 le_rfl

theorem maxList_mem (l : List Rat) (m : Rat) (h : maxList l = some m) : m ∈ l := by
  induction l generalizing m with
  | nil => simp [maxList] at h
  | cons a l ih =>
    simp only [maxList] at h
    cases hl : maxList l with
    | none => simp [hl] at h; simp [h]
    | some m' =>
      simp only [hl, Option.some.injEq] at h
      by_cases hgt : m' > a
      · simp only [hgt, if_true] at h; subst h; simp [ih m' hl]
      · simp only [hgt, if_false] at h; simp [h]

theorem computeVolume_eq (thr : Rat) (atoms : List VolAtom) :
    computeVolume thr atoms =
      if ((geomVects thr atoms).any fun v => !isZero v) = true
      then Size.sqrtOf (radiusOfGyrationSq (geomVects thr atoms))
      else match maxList (nearRadii thr atoms) with
        | some r => Size.exact r
        | none => Size.error := rfl

/-- the size is positive when every radius is positive (largest-radius branch) or the squared radius of
gyration is not zero (it is never negative) -/
theorem computeVolume_positive (thr : Rat) (atoms : List VolAtom) (hrad : ∀ a ∈ atoms, 0 < a.rad) :
    (∀ q, computeVolume thr atoms = .sqrtOf q → q ≠ 0 → 0 < q) ∧
    (∀ r, computeVolume thr atoms = .exact r → 0 < r) := by
  constructor
  · intro q hq hne
    rw [computeVolume_eq] at hq
    by_cases hany : ((geomVects thr atoms).any fun v => !isZero v) = true
    · rw [if_pos hany] at hq
      injection hq with hq
      subst hq
      exact lt_of_le_of_ne (radiusOfGyrationSq_nonneg _) (Ne.symm hne)
    · rw [if_neg hany] at hq
      cases hm : maxList (nearRadii thr atoms) <;> rw [hm] at hq <;> cases hq
  · intro r hr
    rw [computeVolume_eq] at hr
    by_cases hany : ((geomVects thr atoms).any fun v => !isZero v) = true
    · rw [if_pos hany] at hr; cases hr
    · rw [if_neg hany] at hr
      cases hm : maxList (nearRadii thr atoms) with
      | none => rw [hm] at hr; cases hr
      | some m =>
        rw [hm] at hr
        injection hr with hr
        subst hr
        have hmem := maxList_mem _ _ hm
        unfold nearRadii at hmem
        simp only [List.mem_map, List.mem_filter] at hmem
        obtain ⟨a, ⟨ha, _⟩, rfl⟩ := hmem
        exact hrad a ha

end volume

end PolyplyVerif.Proofs.Templates
